/-
C14 helper lemmas: the Rosenberg–Strong pairing in d coordinates (`RosenbergStrong.pairing / projection`,
pairing.py:82-103) — arithmetic core of one shell, then induction on the dimension.
Notation of one step: `A = m^e`, `B = (m+1)^e`, `aux = B - A`; the shell `max = m` of ℕ^(e+1) has `m*aux + B` points.
-/
import RpylibModel.Proofs.Lemmas.C14Roots

namespace Rpylib.Pairing

/-! ### arithmetic core (no lists) -/

theorem rs_core_upper (m A B B' P' xd : Nat) (hAB : A ≤ B) (hB' : B' ≤ B) (hP : P' < B') :
    P' + m * A + (m - xd) * (B - A) < (m + 1) * B := by
  have h1 : (m - xd) * (B - A) ≤ m * (B - A) := Nat.mul_le_mul_right _ (Nat.sub_le m xd)
  have h2 : m * (B - A) + m * A = m * B := by rw [← Nat.mul_add, Nat.sub_add_cancel hAB]
  have h3 : (m + 1) * B = m * B + B := Nat.succ_mul m B
  generalize (m - xd) * (B - A) = q at *
  generalize m * (B - A) = r at *
  generalize m * A = mA at *
  generalize m * B = mB at *
  omega

theorem rs_core_proj (m A B z : Nat) (hAB : A < B) (h1 : m * A ≤ z) (h2 : z < (m + 1) * B) :
    (z - m * A - A) / (B - A) ≤ m ∧
    (z - m * A - (z - m * A - A) / (B - A) * (B - A)) + m * A + (z - m * A - A) / (B - A) * (B - A) = z ∧
    z - m * A - (z - m * A - A) / (B - A) * (B - A) < B ∧
    (1 ≤ (z - m * A - A) / (B - A) → A ≤ z - m * A - (z - m * A - A) / (B - A) * (B - A)) := by
  have hpos : 0 < B - A := by omega
  have e1 := Nat.div_add_mod (z - m * A - A) (B - A)
  have e2 := Nat.mod_lt (z - m * A - A) hpos
  have h3 : (m + 1) * B = m * B + B := Nat.succ_mul m B
  have h4 : m * (B - A) + m * A = m * B := by rw [← Nat.mul_add, Nat.sub_add_cancel (Nat.le_of_lt hAB)]
  have hj : (z - m * A - A) / (B - A) ≤ m := by
    by_contra hc
    have : (m + 1) * (B - A) ≤ (z - m * A - A) / (B - A) * (B - A) := Nat.mul_le_mul_right _ (by omega)
    rw [Nat.succ_mul] at this
    rw [Nat.mul_comm (B - A)] at e1
    generalize (z - m * A - A) / (B - A) * (B - A) = q at *
    generalize m * (B - A) = r at *
    generalize m * A = mA at *
    generalize m * B = mB at *
    omega
  rw [Nat.mul_comm (B - A)] at e1
  refine ⟨hj, ?_, ?_, ?_⟩
  · generalize (z - m * A - A) / (B - A) * (B - A) = q at *
    generalize m * A = mA at *
    omega
  · generalize (z - m * A - A) / (B - A) * (B - A) = q at *
    generalize m * A = mA at *
    omega
  · intro hj1
    have : 1 * (B - A) ≤ (z - m * A - A) / (B - A) * (B - A) := Nat.mul_le_mul_right _ hj1
    generalize (z - m * A - A) / (B - A) * (B - A) = q at *
    generalize m * A = mA at *
    omega

theorem rs_core_pair (m A B xd P' : Nat) (hAB : A < B) (hxd : xd ≤ m) (hP : P' < B) (hcase : xd < m → A ≤ P') :
    m - (P' + m * A + (m - xd) * (B - A) - m * A - A) / (B - A) = xd ∧
    P' + m * A + (m - xd) * (B - A) - m * A - (m - xd) * (B - A) = P' := by
  have hpos : 0 < B - A := by omega
  refine ⟨?_, by omega⟩
  by_cases c : xd < m
  · have hA := hcase c
    have e : P' + m * A + (m - xd) * (B - A) - m * A - A = (P' - A) + (m - xd) * (B - A) := by omega
    rw [e, Nat.add_mul_div_right _ _ hpos, Nat.div_eq_of_lt (by omega)]
    omega
  · have : m - xd = 0 := by omega
    rw [this, Nat.zero_mul, Nat.add_zero]
    have e : P' + m * A - m * A - A = P' - A := by omega
    rw [e, Nat.div_eq_of_lt (by omega)]
    omega

/-! ### lists (reversed tuples: head = last coordinate) -/

theorem maxL_cons (x : Nat) (l : List Nat) : maxL (x :: l) = max x (maxL l) := rfl

/-- one step of `RosenbergStrong.pairing`, with `m^d` written `m * m^(d-1)` -/
theorem rsPairR_cons (xd : Nat) (l : List Nat) (hl : l ≠ []) :
    rsPairR (xd :: l) = rsPairR l + maxL (xd :: l) * maxL (xd :: l) ^ l.length
      + (maxL (xd :: l) - xd) * ((maxL (xd :: l) + 1) ^ l.length - maxL (xd :: l) ^ l.length) := by
  cases l with
  | nil => exact absurd rfl hl
  | cons y rest =>
    have : rsPairR (xd :: y :: rest) = rsPairR (y :: rest) + maxL (xd :: y :: rest) ^ (rest.length + 2)
      + (maxL (xd :: y :: rest) - xd) * ((maxL (xd :: y :: rest) + 1) ^ (rest.length + 1) - maxL (xd :: y :: rest) ^ (rest.length + 1)) := rfl
    rw [this, List.length_cons, Nat.pow_succ _ (rest.length + 1), Nat.mul_comm (maxL (xd :: y :: rest) ^ (rest.length + 1))]

private theorem pow_succ' (m e : Nat) : m ^ (e + 1) = m * m ^ e := by rw [Nat.pow_succ, Nat.mul_comm]

/-- a tuple with maximum `m` gets an index in the shell `[m^d, (m+1)^d)` -/
theorem rs_shell (l : List Nat) (hl : l ≠ []) :
    maxL l ^ l.length ≤ rsPairR l ∧ rsPairR l < (maxL l + 1) ^ l.length := by
  induction l with
  | nil => exact absurd rfl hl
  | cons xd l ih =>
    by_cases hn : l = []
    · subst hn
      simp [rsPairR, maxL]
    · obtain ⟨_, ihu⟩ := ih hn
      rw [rsPairR_cons xd l hn, List.length_cons, pow_succ', pow_succ']
      have hm' : maxL l ≤ maxL (xd :: l) := by rw [maxL_cons]; omega
      generalize maxL (xd :: l) = m at *
      have hAB : m ^ l.length ≤ (m + 1) ^ l.length := Nat.pow_le_pow_left (by omega) _
      have hB' : (maxL l + 1) ^ l.length ≤ (m + 1) ^ l.length := Nat.pow_le_pow_left (by omega) _
      have := rs_core_upper m (m ^ l.length) ((m + 1) ^ l.length) _ (rsPairR l) xd hAB hB' ihu
      refine ⟨?_, this⟩
      generalize m * m ^ l.length = q
      omega

theorem iroot_one (z : Nat) : iroot z 1 = z := iroot_unique z 1 z (by omega) (by simp) (by simp)

theorem rsProjR_succ2 (d z : Nat) :
    rsProjR (d + 2) z =
      (iroot z (d + 2) - (z - iroot z (d + 2) * iroot z (d + 2) ^ (d + 1) - iroot z (d + 2) ^ (d + 1)) /
          ((iroot z (d + 2) + 1) ^ (d + 1) - iroot z (d + 2) ^ (d + 1))) ::
        rsProjR (d + 1) (z - iroot z (d + 2) * iroot z (d + 2) ^ (d + 1) -
          (iroot z (d + 2) - (iroot z (d + 2) - (z - iroot z (d + 2) * iroot z (d + 2) ^ (d + 1) - iroot z (d + 2) ^ (d + 1)) /
            ((iroot z (d + 2) + 1) ^ (d + 1) - iroot z (d + 2) ^ (d + 1)))) *
            ((iroot z (d + 2) + 1) ^ (d + 1) - iroot z (d + 2) ^ (d + 1))) := rfl

/-- `projection(z, d)` is a d-tuple with maximum `⌊z^(1/d)⌋` whose pairing is `z` -/
theorem rs_proj_spec : ∀ (d z : Nat), 1 ≤ d →
    (rsProjR d z).length = d ∧ maxL (rsProjR d z) = iroot z d ∧ rsPairR (rsProjR d z) = z := by
  intro d
  induction d with
  | zero => intro z h; omega
  | succ e ih =>
    intro z _
    cases e with
    | zero => exact ⟨rfl, by simp [rsProjR, maxL, iroot_one], rfl⟩
    | succ d =>
      rw [rsProjR_succ2]
      obtain ⟨s1, s2⟩ := iroot_spec z (d + 2) (by omega)
      rw [pow_succ'] at s1 s2
      generalize iroot z (d + 2) = m at *
      have hAB : m ^ (d + 1) < (m + 1) ^ (d + 1) := Nat.pow_lt_pow_left (by omega) (by omega)
      obtain ⟨hj, hsum, hlt, hge⟩ := rs_core_proj m (m ^ (d + 1)) ((m + 1) ^ (d + 1)) z hAB s1 s2
      generalize hjd : (z - m * m ^ (d + 1) - m ^ (d + 1)) / ((m + 1) ^ (d + 1) - m ^ (d + 1)) = j at *
      rw [Nat.sub_sub_self hj]
      generalize hz' : z - m * m ^ (d + 1) - j * ((m + 1) ^ (d + 1) - m ^ (d + 1)) = z' at *
      obtain ⟨i1, i2, i3⟩ := ih z' (by omega)
      have hne : rsProjR (d + 1) z' ≠ [] := by intro hc; rw [hc] at i1; simp at i1
      have hroot_le : iroot z' (d + 1) ≤ m := by
        by_contra hc
        have h1 : (m + 1) ^ (d + 1) ≤ iroot z' (d + 1) ^ (d + 1) := Nat.pow_le_pow_left (by omega) _
        have h2 := (iroot_spec z' (d + 1) (by omega)).1
        omega
      have hmax : maxL ((m - j) :: rsProjR (d + 1) z') = m := by
        rw [maxL_cons, i2]
        by_cases hj0 : j = 0
        · subst hj0; omega
        · have := iroot_unique z' (d + 1) m (by omega) (hge (by omega)) hlt
          omega
      refine ⟨by simp [i1], hmax, ?_⟩
      rw [rsPairR_cons _ _ hne, hmax, i1, i3, Nat.sub_sub_self hj]
      exact hsum

/-- `projection(pairing(x), d) = x` -/
theorem rs_proj_pair (l : List Nat) (hl : l ≠ []) : rsProjR l.length (rsPairR l) = l := by
  induction l with
  | nil => exact absurd rfl hl
  | cons xd l ih =>
    by_cases hn : l = []
    · subst hn; rfl
    · obtain ⟨d, hd⟩ : ∃ d, l.length = d + 1 := by
        cases l with
        | nil => exact absurd rfl hn
        | cons y r => exact ⟨r.length, rfl⟩
      obtain ⟨sl, su⟩ := rs_shell (xd :: l) (by simp)
      obtain ⟨il, iu⟩ := rs_shell l hn
      have ihl := ih hn
      have hm' : maxL l ≤ maxL (xd :: l) := by rw [maxL_cons]; omega
      have hxd : xd ≤ maxL (xd :: l) := by rw [maxL_cons]; omega
      have hcase : xd < maxL (xd :: l) → maxL (xd :: l) = maxL l := by rw [maxL_cons]; omega
      rw [rsPairR_cons xd l hn] at sl su ⊢
      rw [List.length_cons, hd] at sl su ⊢
      rw [hd] at il iu ihl
      generalize maxL (xd :: l) = m at *
      have hroot := iroot_unique _ (d + 2) m (by omega) sl su
      rw [rsProjR_succ2, hroot]
      have hAB : m ^ (d + 1) < (m + 1) ^ (d + 1) := Nat.pow_lt_pow_left (by omega) (by omega)
      have hB' : (maxL l + 1) ^ (d + 1) ≤ (m + 1) ^ (d + 1) := Nat.pow_le_pow_left (by omega) _
      have hc2 : xd < m → m ^ (d + 1) ≤ rsPairR l := by
        intro h; rw [hcase h]; exact il
      obtain ⟨c1, c2⟩ := rs_core_pair m (m ^ (d + 1)) ((m + 1) ^ (d + 1)) xd (rsPairR l) hAB hxd (by omega) hc2
      rw [c1, c2, ihl]

end Rpylib.Pairing
