/-
C09, CGMY second moment on an interval straddling zero, the gammainc form of cgmy.py:170-190:
  ∫_a^b x² ν(x) dx = c·L(2−y, m, b) + c·L(2−y, g, −a),   a < 0 < b,
with L(s, r, h) = γ(s, r h)/r^s for r > 0 (γ = Γ(s)·gammainc(s, ·), the lower incomplete gamma function) and L(s, 0, h) = h^s/s.
γ(s, ·) is a parameter `gl` with explicit hypotheses: gl' z = z^(s−1) e^{−z} for z > 0, gl 0 = 0, gl continuous at 0 from the right.
-/
import RpylibModel.Proofs.Lemmas.C09Cgmy
import Mathlib.Analysis.SpecialFunctions.Integrals.Basic
import Mathlib.Analysis.SpecialFunctions.Integrability.Basic
import RpylibModel.Proofs.Lemmas.C09ExtFam

namespace Rpylib.Integrals
open Real MeasureTheory Set

/-- `c·x^(s−1)·e^{−r x}` is interval integrable on [0, h] for s > 0 -/
theorem intervalIntegrable_rpow_exp (s r h : ℝ) (hs : 0 < s) :
    IntervalIntegrable (fun x : ℝ => x ^ (s - 1) * exp (-(r * x))) volume 0 h :=
  (intervalIntegral.intervalIntegrable_rpow' (by linarith : -1 < s - 1)).mul_continuousOn (Continuous.continuousOn (by fun_prop))

/-- `∫_0^h x^(s−1) e^{−r x} dx = γ(s, r h)/r^s` for r > 0, h ≥ 0, s > 0 -/
theorem integral_lowGam (gl : ℝ → ℝ) (s r : ℝ) (hs : 0 < s) (hr : 0 < r)
    (hgl : ∀ z, 0 < z → HasDerivAt gl (z ^ (s - 1) * exp (-z)) z) (hgl0 : gl 0 = 0)
    (hglc : ContinuousWithinAt gl (Ici 0) 0) (h : ℝ) (hh : 0 ≤ h) :
    ∫ x in (0:ℝ)..h, x ^ (s - 1) * exp (-(r * x)) = gl (r * h) / r ^ s := by
  have hcont_gl : ContinuousOn gl (Ici 0) := by
    intro z hz
    rcases (mem_Ici.mp hz).eq_or_lt with rfl | hz'
    · exact hglc
    · exact (hgl z hz').continuousAt.continuousWithinAt
  have hcont : ContinuousOn (fun x : ℝ => gl (r * x) / r ^ s) (Icc 0 h) := by
    apply ContinuousOn.div_const
    apply hcont_gl.comp (Continuous.continuousOn (by fun_prop))
    intro x hx
    exact mem_Ici.mpr (mul_nonneg hr.le hx.1)
  have hderiv : ∀ x ∈ Ioo (0:ℝ) h, HasDerivAt (fun x : ℝ => gl (r * x) / r ^ s) (x ^ (s - 1) * exp (-(r * x))) x := by
    intro x hx
    have hlin : HasDerivAt (fun v : ℝ => r * v) r x := by simpa using (hasDerivAt_id x).const_mul r
    have hc := ((hgl (r * x) (mul_pos hr hx.1)).comp x hlin).div_const (r ^ s)
    refine hc.congr_deriv ?_
    have e1 : (r * x) ^ (s - 1) = r ^ (s - 1) * x ^ (s - 1) := mul_rpow hr.le hx.1.le
    have e2 : r ^ s = r ^ (s - 1) * r := by
      rw [show s = (s - 1) + 1 by ring, rpow_add hr, rpow_one]; ring_nf
    have hr1 : r ^ (s - 1) ≠ 0 := (rpow_pos_of_pos hr _).ne'
    rw [e1, e2]
    field_simp
  rw [intervalIntegral.integral_eq_sub_of_hasDerivAt_of_le hh hcont hderiv (intervalIntegrable_rpow_exp s r h hs)]
  simp [hgl0]

/-- `∫_0^h x^(s−1) dx = h^s/s` (the un-tempered branch `rate == 0`) -/
theorem integral_pow_zero (s : ℝ) (hs : 0 < s) (h : ℝ) :
    ∫ x in (0:ℝ)..h, x ^ (s - 1) * exp (-(0 * x)) = h ^ s / s := by
  have e : (fun x : ℝ => x ^ (s - 1) * exp (-(0 * x))) = fun x : ℝ => x ^ (s - 1) := by funext x; simp
  rw [e, integral_rpow (Or.inl (by linarith))]
  simp [zero_rpow hs.ne']

/-- one side of the code's formula: `L(s, r, h)` -/
noncomputable def cgmyLow (gl : ℝ → ℝ) (s r h : ℝ) : ℝ := if r = 0 then h ^ s / s else gl (r * h) / r ^ s

theorem integral_cgmyLow (gl : ℝ → ℝ) (s r : ℝ) (hs : 0 < s) (hr : 0 ≤ r)
    (hgl : ∀ z, 0 < z → HasDerivAt gl (z ^ (s - 1) * exp (-z)) z) (hgl0 : gl 0 = 0)
    (hglc : ContinuousWithinAt gl (Ici 0) 0) (h : ℝ) (hh : 0 ≤ h) :
    ∫ x in (0:ℝ)..h, x ^ (s - 1) * exp (-(r * x)) = cgmyLow gl s r h := by
  unfold cgmyLow
  split_ifs with h0
  · rw [h0]; exact integral_pow_zero s hs h
  · exact integral_lowGam gl s r hs (lt_of_le_of_ne hr (Ne.symm h0)) hgl hgl0 hglc h hh

theorem cgmy_xx_on_pos (c g m y x : ℝ) (hx : 0 < x) :
    x ^ 2 * cgmyDensity c g m y x = c * (x ^ ((2 - y) - 1) * exp (-(m * x))) := by
  have h1 : ¬ x < 0 := not_lt.mpr hx.le
  have hxy : x ^ (y + 1) = x ^ y * x := by rw [rpow_add hx, rpow_one]
  have hneg : x ^ ((2 - y) - 1) = x * (x ^ y)⁻¹ := by
    rw [show (2 - y) - 1 = 1 + -y by ring, rpow_add hx, rpow_one, rpow_neg hx.le]
  have hxyne : x ^ y ≠ 0 := (rpow_pos_of_pos hx y).ne'
  simp only [cgmyDensity, h1, hx, if_true, if_false, abs_of_pos hx]
  rw [hxy, hneg]
  field_simp

/-- the positive part: `∫_0^b x² ν = c·L(2−y, m, b)` -/
theorem integral_cgmy_xx_pos (gl : ℝ → ℝ) (c g m y : ℝ) (hy : y < 2) (hm : 0 ≤ m)
    (hgl : ∀ z, 0 < z → HasDerivAt gl (z ^ ((2 - y) - 1) * exp (-z)) z) (hgl0 : gl 0 = 0)
    (hglc : ContinuousWithinAt gl (Ici 0) 0) (b : ℝ) (hb : 0 ≤ b) :
    ∫ x in (0:ℝ)..b, x ^ 2 * cgmyDensity c g m y x = c * cgmyLow gl (2 - y) m b := by
  rw [← integral_cgmyLow gl (2 - y) m (by linarith) hm hgl hgl0 hglc b hb, ← intervalIntegral.integral_const_mul]
  apply intervalIntegral.integral_congr_ae
  refine Filter.Eventually.of_forall (fun x hx => ?_)
  rw [uIoc_of_le hb] at hx
  exact cgmy_xx_on_pos c g m y x hx.1

theorem intervalIntegrable_cgmy_xx_pos (c g m y : ℝ) (hy : y < 2) (b : ℝ) (hb : 0 ≤ b) :
    IntervalIntegrable (fun x => x ^ 2 * cgmyDensity c g m y x) volume 0 b := by
  have h := (intervalIntegrable_rpow_exp (2 - y) m b (by linarith)).const_mul c
  refine h.congr_uIoo ?_
  intro x hx
  rw [uIoo_of_le hb] at hx
  exact (cgmy_xx_on_pos c g m y x hx.1).symm

theorem cgmy_xx_reflect (c g m y x : ℝ) (hx : x ≠ 0) :
    x ^ 2 * cgmyDensity c g m y x = (-x) ^ 2 * cgmyDensity c m g y (-x) := by
  rcases lt_or_gt_of_ne hx with h | h
  · have h1 : ¬ -x < 0 := by linarith
    have h2 : 0 < -x := by linarith
    simp only [cgmyDensity, h, h1, h2, if_true, if_false, abs_neg, neg_sq]
  · have h1 : -x < 0 := by linarith
    have h2 : ¬ x < 0 := by linarith
    simp only [cgmyDensity, h, h1, h2, if_true, if_false, abs_neg, neg_sq]

/-- the negative part: `∫_a^0 x² ν = c·L(2−y, g, −a)` -/
theorem integral_cgmy_xx_neg (gl : ℝ → ℝ) (c g m y : ℝ) (hy : y < 2) (hg : 0 ≤ g)
    (hgl : ∀ z, 0 < z → HasDerivAt gl (z ^ ((2 - y) - 1) * exp (-z)) z) (hgl0 : gl 0 = 0)
    (hglc : ContinuousWithinAt gl (Ici 0) 0) (a : ℝ) (ha : a ≤ 0) :
    ∫ x in a..(0:ℝ), x ^ 2 * cgmyDensity c g m y x = c * cgmyLow gl (2 - y) g (-a) := by
  have hrefl : ∫ x in a..(0:ℝ), x ^ 2 * cgmyDensity c g m y x
      = ∫ x in a..(0:ℝ), (fun t => t ^ 2 * cgmyDensity c m g y t) (-x) := by
    apply intervalIntegral.integral_congr_ae
    have hnull : ∀ᵐ x ∂(volume : Measure ℝ), x ∉ ({0} : Set ℝ) := (Set.countable_singleton (0 : ℝ)).ae_notMem volume
    filter_upwards [hnull] with x hx0 _
    exact cgmy_xx_reflect c g m y x (by simpa using hx0)
  rw [hrefl, intervalIntegral.integral_comp_neg (fun t => t ^ 2 * cgmyDensity c m g y t), neg_zero,
    integral_cgmy_xx_pos gl c m g y hy hg hgl hgl0 hglc (-a) (by linarith)]

theorem intervalIntegrable_cgmy_xx_neg (c g m y : ℝ) (hy : y < 2) (a : ℝ) (ha : a ≤ 0) :
    IntervalIntegrable (fun x => x ^ 2 * cgmyDensity c g m y x) volume a 0 := by
  have h := (IntervalIntegrable.iff_comp_neg (f := fun x => x ^ 2 * cgmyDensity c m g y x) (a := 0) (b := -a)).mp
    (intervalIntegrable_cgmy_xx_pos c m g y hy (-a) (by linarith))
  simp only [neg_zero, neg_neg] at h
  have h' : IntervalIntegrable (fun x => (-x) ^ 2 * cgmyDensity c m g y (-x)) volume a 0 := h.symm
  refine h'.congr_uIoo ?_
  intro x hx
  rw [uIoo_of_le ha] at hx
  exact (cgmy_xx_reflect c g m y x hx.2.ne).symm

/-- CGMY second moment over [a, b], a ≤ 0 ≤ b (cgmy.py:170-190): `c·L(2−y, m, b) + c·L(2−y, g, −a)` -/
theorem integral_cgmy_xx_straddle (gl : ℝ → ℝ) (c g m y : ℝ) (hy : y < 2) (hg : 0 ≤ g) (hm : 0 ≤ m)
    (hgl : ∀ z, 0 < z → HasDerivAt gl (z ^ ((2 - y) - 1) * exp (-z)) z) (hgl0 : gl 0 = 0)
    (hglc : ContinuousWithinAt gl (Ici 0) 0) (a b : ℝ) (ha : a ≤ 0) (hb : 0 ≤ b) :
    ∫ x in a..b, x ^ 2 * cgmyDensity c g m y x = c * cgmyLow gl (2 - y) m b + c * cgmyLow gl (2 - y) g (-a) := by
  rw [← intervalIntegral.integral_add_adjacent_intervals (intervalIntegrable_cgmy_xx_neg c g m y hy a ha)
    (intervalIntegrable_cgmy_xx_pos c g m y hy b hb),
    integral_cgmy_xx_neg gl c g m y hy hg hgl hgl0 hglc a ha, integral_cgmy_xx_pos gl c g m y hy hm hgl hgl0 hglc b hb]
  ring

/-! ### an infinite end point: `gammainc(s, inf) = 1`, i.e. γ(s, z) → Γ(s) (hypothesis `gl → GamC`) -/

open Filter Topology in
/-- `∫_0^∞ x^(s−1) e^{−r x} dx = Γ(s)/r^s` and the integrand is integrable on (0, ∞), for r > 0, s > 0 -/
theorem integral_Ioi_lowGam (gl : ℝ → ℝ) (GamC s r : ℝ) (hs : 0 < s) (hr : 0 < r)
    (hgl : ∀ z, 0 < z → HasDerivAt gl (z ^ (s - 1) * exp (-z)) z) (hgl0 : gl 0 = 0)
    (hglc : ContinuousWithinAt gl (Ici 0) 0) (hlim : Tendsto gl atTop (𝓝 GamC)) :
    IntegrableOn (fun x : ℝ => x ^ (s - 1) * exp (-(r * x))) (Ioi 0) ∧
      ∫ x in Ioi (0:ℝ), x ^ (s - 1) * exp (-(r * x)) = GamC / r ^ s := by
  have hcont : ContinuousWithinAt (fun x : ℝ => gl (r * x) / r ^ s) (Ici 0) 0 := by
    apply ContinuousWithinAt.div_const
    have h1 : ContinuousWithinAt (fun x : ℝ => r * x) (Ici 0) 0 := (by fun_prop : Continuous fun x : ℝ => r * x).continuousWithinAt
    have h2 : ContinuousWithinAt gl (Ici 0) (r * 0) := by simpa using hglc
    exact h2.comp h1 (fun x hx => mem_Ici.mpr (mul_nonneg hr.le hx))
  have hderiv : ∀ x ∈ Ioi (0:ℝ), HasDerivAt (fun x : ℝ => gl (r * x) / r ^ s) (x ^ (s - 1) * exp (-(r * x))) x := by
    intro x hx
    have hx0 : 0 < x := hx
    have hlin : HasDerivAt (fun v : ℝ => r * v) r x := by simpa using (hasDerivAt_id x).const_mul r
    have hc := ((hgl (r * x) (mul_pos hr hx0)).comp x hlin).div_const (r ^ s)
    refine hc.congr_deriv ?_
    have e1 : (r * x) ^ (s - 1) = r ^ (s - 1) * x ^ (s - 1) := mul_rpow hr.le hx0.le
    have e2 : r ^ s = r ^ (s - 1) * r := by
      rw [show s = (s - 1) + 1 by ring, rpow_add hr, rpow_one]; ring_nf
    have hr1 : r ^ (s - 1) ≠ 0 := (rpow_pos_of_pos hr _).ne'
    rw [e1, e2]
    field_simp
  have hpos : ∀ x ∈ Ioi (0:ℝ), 0 ≤ x ^ (s - 1) * exp (-(r * x)) := fun x hx =>
    mul_nonneg (rpow_nonneg (le_of_lt hx) _) (exp_pos _).le
  have hl : Tendsto (fun x : ℝ => gl (r * x) / r ^ s) atTop (𝓝 (GamC / r ^ s)) :=
    (hlim.comp (tendsto_id.const_mul_atTop hr)).div_const _
  refine ⟨integrableOn_Ioi_deriv_of_nonneg hcont hderiv hpos hl, ?_⟩
  rw [integral_Ioi_of_hasDerivAt_of_nonneg hcont hderiv hpos hl]
  simp [hgl0]

open Filter Topology in
theorem integrableOn_Ioi_cgmy_xx (gl : ℝ → ℝ) (GamC : ℝ) (c g m y : ℝ) (hy : y < 2) (hm : 0 < m)
    (hgl : ∀ z, 0 < z → HasDerivAt gl (z ^ ((2 - y) - 1) * exp (-z)) z) (hgl0 : gl 0 = 0)
    (hglc : ContinuousWithinAt gl (Ici 0) 0) (hlim : Tendsto gl atTop (𝓝 GamC)) :
    IntegrableOn (fun x : ℝ => x ^ 2 * cgmyDensity c g m y x) (Ioi 0) ∧
      ∫ x in Ioi (0:ℝ), x ^ 2 * cgmyDensity c g m y x = c * (GamC / m ^ (2 - y)) := by
  obtain ⟨hi, hv⟩ := integral_Ioi_lowGam gl GamC (2 - y) m (by linarith) hm hgl hgl0 hglc hlim
  constructor
  · exact (integrableOn_cmul hi c).congr_fun (fun x hx => (cgmy_xx_on_pos c g m y x hx).symm) measurableSet_Ioi
  · rw [← hv, ← MeasureTheory.integral_const_mul]
    exact setIntegral_congr_fun measurableSet_Ioi (fun x hx => cgmy_xx_on_pos c g m y x hx)

open Filter Topology in
theorem integrableOn_Iic_cgmy_xx (gl : ℝ → ℝ) (GamC : ℝ) (c g m y : ℝ) (hy : y < 2) (hg : 0 < g)
    (hgl : ∀ z, 0 < z → HasDerivAt gl (z ^ ((2 - y) - 1) * exp (-z)) z) (hgl0 : gl 0 = 0)
    (hglc : ContinuousWithinAt gl (Ici 0) 0) (hlim : Tendsto gl atTop (𝓝 GamC)) :
    IntegrableOn (fun x : ℝ => x ^ 2 * cgmyDensity c g m y x) (Iic 0) ∧
      ∫ x in Iic (0:ℝ), x ^ 2 * cgmyDensity c g m y x = c * (GamC / g ^ (2 - y)) := by
  obtain ⟨hi, hv⟩ := integrableOn_Ioi_cgmy_xx gl GamC c m g y hy hg hgl hgl0 hglc hlim
  constructor
  · exact integrableOn_Iic_of_reflect hi (fun x hx => cgmy_xx_reflect c g m y x hx.ne)
  · have h1 : ∫ x in Iic (0:ℝ), x ^ 2 * cgmyDensity c g m y x
        = ∫ x in Iic (0:ℝ), (fun t => t ^ 2 * cgmyDensity c m g y t) (-x) := by
      apply setIntegral_congr_ae measurableSet_Iic
      have hnull : ∀ᵐ x ∂(volume : Measure ℝ), x ∉ ({0} : Set ℝ) := (Set.countable_singleton (0 : ℝ)).ae_notMem volume
      filter_upwards [hnull] with x hx0 _
      exact cgmy_xx_reflect c g m y x (by simpa using hx0)
    rw [h1, integral_comp_neg_Iic (0:ℝ) (fun t => t ^ 2 * cgmyDensity c m g y t), neg_zero, hv]

end Rpylib.Integrals
