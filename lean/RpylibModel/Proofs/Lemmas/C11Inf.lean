/-
Helper lemmas for C11: rectangles of the extended plane that do have a corner with two infinite entries.
For 0 < η < 1 the float Clayton (θ = 1) puts +∞ (never NaN, never −∞) on every such rectangle.
-/
import RpylibModel.Proofs.Lemmas.C11Theta1

set_option linter.unusedSectionVars false
set_option linter.unusedSimpArgs false

namespace Rpylib.Copula

/-- a finite number or +∞ -/
def EVal.FinOrPos (v : EVal) : Prop := v = .posInf ∨ ∃ r, v = .fin r

theorem EVal.FinOrPos_add {x y : EVal} (hx : x.FinOrPos) (hy : y.FinOrPos) :
    (x + y).FinOrPos ∧ ((x = .posInf ∨ y = .posInf) → x + y = .posInf) := by
  rcases hx with rfl | ⟨r, rfl⟩ <;> rcases hy with rfl | ⟨s, rfl⟩
  · exact ⟨Or.inl rfl, fun _ => rfl⟩
  · exact ⟨Or.inl rfl, fun _ => rfl⟩
  · exact ⟨Or.inl rfl, fun _ => rfl⟩
  · refine ⟨Or.inr ⟨r + s, rfl⟩, fun h => ?_⟩
    rcases h with h | h <;> cases h

section
variable (eta : Rat) (h0 : 0 < eta) (h1 : eta < 1)
include h0 h1

theorem clayton1_nn : clayton1 eta [.negInf, .negInf] = .posInf := by
  simp [clayton1, sumG, countNeg, Gen.arg, Gen.argZero, gen1, EVal.smul, h0]

theorem clayton1_pp : clayton1 eta [.posInf, .posInf] = .posInf := by
  simp [clayton1, sumG, countNeg, Gen.arg, Gen.argZero, gen1, EVal.smul, h0]

theorem clayton1_np : clayton1 eta [.negInf, .posInf] = .negInf := by
  have : ¬ (1 < eta) := not_lt.mpr h1.le
  simp [clayton1, sumG, countNeg, Gen.arg, Gen.argZero, gen1, EVal.smul, h1, this]

theorem clayton1_pn : clayton1 eta [.posInf, .negInf] = .negInf := by
  have : ¬ (1 < eta) := not_lt.mpr h1.le
  simp [clayton1, sumG, countNeg, Gen.arg, Gen.argZero, gen1, EVal.smul, h1, this]

/-- lower-left corner (sign +): `a ≠ +∞` in both coordinates -/
theorem term_aa (a1 a2 : Ext Rat) (n1 : a1 ≠ .posInf) (n2 : a2 ≠ .posInf) :
    (clayton1 eta [a1, a2]).FinOrPos ∧ (a1.isInf = true → a2.isInf = true → clayton1 eta [a1, a2] = .posInf) := by
  rcases a1 with _ | a1 | _ <;> rcases a2 with _ | a2 | _ <;> try contradiction
  · exact ⟨Or.inl (clayton1_nn eta h0 h1), fun _ _ => clayton1_nn eta h0 h1⟩
  · exact ⟨Or.inr ⟨_, clayton1_two eta _ _ (Or.inr rfl)⟩, fun _ h => by simp [Ext.isInf] at h⟩
  · exact ⟨Or.inr ⟨_, clayton1_two eta _ _ (Or.inl rfl)⟩, fun h _ => by simp [Ext.isInf] at h⟩
  · exact ⟨Or.inr ⟨_, clayton1_two eta _ _ (Or.inl rfl)⟩, fun h _ => by simp [Ext.isInf] at h⟩

/-- upper-right corner (sign +): `b ≠ −∞` in both coordinates -/
theorem term_bb (b1 b2 : Ext Rat) (n1 : b1 ≠ .negInf) (n2 : b2 ≠ .negInf) :
    (clayton1 eta [b1, b2]).FinOrPos ∧ (b1.isInf = true → b2.isInf = true → clayton1 eta [b1, b2] = .posInf) := by
  rcases b1 with _ | b1 | _ <;> rcases b2 with _ | b2 | _ <;> try contradiction
  · exact ⟨Or.inr ⟨_, clayton1_two eta _ _ (Or.inl rfl)⟩, fun h _ => by simp [Ext.isInf] at h⟩
  · exact ⟨Or.inr ⟨_, clayton1_two eta _ _ (Or.inl rfl)⟩, fun h _ => by simp [Ext.isInf] at h⟩
  · exact ⟨Or.inr ⟨_, clayton1_two eta _ _ (Or.inr rfl)⟩, fun _ h => by simp [Ext.isInf] at h⟩
  · exact ⟨Or.inl (clayton1_pp eta h0 h1), fun _ _ => clayton1_pp eta h0 h1⟩

/-- mixed corner `(a1, b2)` (sign −) -/
theorem term_ab (a1 b2 : Ext Rat) (n1 : a1 ≠ .posInf) (n2 : b2 ≠ .negInf) :
    (-(clayton1 eta [a1, b2])).FinOrPos ∧
      (a1.isInf = true → b2.isInf = true → -(clayton1 eta [a1, b2]) = .posInf) := by
  rcases a1 with _ | a1 | _ <;> rcases b2 with _ | b2 | _ <;> try contradiction
  · rw [clayton1_two eta _ _ (Or.inr rfl)]
    exact ⟨Or.inr ⟨_, rfl⟩, fun _ h => by simp [Ext.isInf] at h⟩
  · rw [clayton1_np eta h0 h1]; exact ⟨Or.inl rfl, fun _ _ => rfl⟩
  · rw [clayton1_two eta _ _ (Or.inl rfl)]
    exact ⟨Or.inr ⟨_, rfl⟩, fun h _ => by simp [Ext.isInf] at h⟩
  · rw [clayton1_two eta _ _ (Or.inl rfl)]
    exact ⟨Or.inr ⟨_, rfl⟩, fun h _ => by simp [Ext.isInf] at h⟩

/-- mixed corner `(b1, a2)` (sign −) -/
theorem term_ba (b1 a2 : Ext Rat) (n1 : b1 ≠ .negInf) (n2 : a2 ≠ .posInf) :
    (-(clayton1 eta [b1, a2])).FinOrPos ∧
      (b1.isInf = true → a2.isInf = true → -(clayton1 eta [b1, a2]) = .posInf) := by
  rcases b1 with _ | b1 | _ <;> rcases a2 with _ | a2 | _ <;> try contradiction
  · rw [clayton1_two eta _ _ (Or.inl rfl)]
    exact ⟨Or.inr ⟨_, rfl⟩, fun h _ => by simp [Ext.isInf] at h⟩
  · rw [clayton1_two eta _ _ (Or.inl rfl)]
    exact ⟨Or.inr ⟨_, rfl⟩, fun h _ => by simp [Ext.isInf] at h⟩
  · rw [clayton1_pn eta h0 h1]; exact ⟨Or.inl rfl, fun _ _ => rfl⟩
  · rw [clayton1_two eta _ _ (Or.inr rfl)]
    exact ⟨Or.inr ⟨_, rfl⟩, fun _ h => by simp [Ext.isInf] at h⟩

/-- every rectangle (no side `(+∞, ·]` or `(·, −∞]`) gets a volume that is a finite number or +∞; it is +∞ as soon as
    one corner has two infinite entries -/
theorem clayton1_volume_finOrPos (a1 a2 b1 b2 : Ext Rat) (na1 : a1 ≠ .posInf) (na2 : a2 ≠ .posInf)
    (nb1 : b1 ≠ .negInf) (nb2 : b2 ≠ .negInf) :
    (volume (clayton1 eta) [a1, a2] [b1, b2]).FinOrPos ∧
      (¬ Adm a1 b1 a2 b2 → volume (clayton1 eta) [a1, a2] [b1, b2] = .posInf) := by
  obtain ⟨g1, p1⟩ := term_aa eta h0 h1 a1 a2 na1 na2
  obtain ⟨g2, p2⟩ := term_ab eta h0 h1 a1 b2 na1 nb2
  obtain ⟨g3, p3⟩ := term_ba eta h0 h1 b1 a2 nb1 na2
  obtain ⟨g4, p4⟩ := term_bb eta h0 h1 b1 b2 nb1 nb2
  have g0 : (0 : EVal).FinOrPos := Or.inr ⟨0, rfl⟩
  have s4 := EVal.FinOrPos_add g4 g0
  have s3 := EVal.FinOrPos_add g3 s4.1
  have s2 := EVal.FinOrPos_add g2 s3.1
  have s1 := EVal.FinOrPos_add g1 s2.1
  have e : volume (clayton1 eta) [a1, a2] [b1, b2] =
      clayton1 eta [a1, a2] + (-(clayton1 eta [a1, b2]) + (-(clayton1 eta [b1, a2]) + (clayton1 eta [b1, b2] + 0))) := by
    simp [volume, corners, sumList]
  rw [e]
  refine ⟨s1.1, fun hP => ?_⟩
  have hP' : (a1.isInf = true ∨ b1.isInf = true) ∧ (a2.isInf = true ∨ b2.isInf = true) := by
    unfold Adm at hP
    rcases h1a : a1.isInf <;> rcases h1b : b1.isInf <;> rcases h2a : a2.isInf <;> rcases h2b : b2.isInf <;>
      simp_all
  rcases hP' with ⟨i1 | i1, i2 | i2⟩
  · exact s1.2 (Or.inl (p1 i1 i2))
  · exact s1.2 (Or.inr (s2.2 (Or.inl (p2 i1 i2))))
  · exact s1.2 (Or.inr (s2.2 (Or.inr (s3.2 (Or.inl (p3 i1 i2))))))
  · exact s1.2 (Or.inr (s2.2 (Or.inr (s3.2 (Or.inr (s4.2 (Or.inl (p4 i1 i2))))))))

end

end Rpylib.Copula
