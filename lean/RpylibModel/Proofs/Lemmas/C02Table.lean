/-
Helper lemmas for C02, table method: the 256-slot table as constructed by `create_table` (`slotsOf`): `⌊256 p_i⌋` copies
of `i`, then `|256 − Σ ⌊256 p_i⌋|` copies of `-1`; for a probability vector that is `256 − Σ ⌊256 p_i⌋ = Σ θ_i` copies and the
table has exactly 256 entries.
-/
import RpylibModel.Model.Samplers.Table
import RpylibModel.Proofs.Lemmas.C02Alias
import RpylibModel.Proofs.Lemmas.C02AliasBuild
import Mathlib.Algebra.BigOperators.Intervals
import Mathlib.Algebra.Order.BigOperators.Group.Finset
import Mathlib.Tactic.Linarith
import Mathlib.Tactic.Ring
import Mathlib.Algebra.Order.Field.Rat

namespace Rpylib.Table
open Finset
open Rpylib.Alias (floor_toNat_bounds list_range_sum)

/-- `k_i = int(256 p_i)` -/
def mOf (p : Nat → Rat) (i : Nat) : Nat := ((256 : Rat) * p i).floor.toNat

/-- the part of `J` before the `-1`s -/
def body (n : Nat) (p : Nat → Rat) : List Int := (List.range n).flatMap (fun i => List.replicate (mOf p i) (i : Int))

theorem slotsOf_eq (n : Nat) (p : Nat → Rat) : slotsOf n p = body n p ++
    List.replicate (if (body n p).length ≤ 256 then 256 - (body n p).length else (body n p).length - 256) (-1) := rfl

theorem body_succ (n : Nat) (p : Nat → Rat) : body (n + 1) p = body n p ++ List.replicate (mOf p n) (n : Int) := by
  simp [body, List.range_succ]

/-- number of entries equal to `k` -/
def cnt (l : List Int) (k : Int) : Nat := (l.filter (· == k)).length

theorem cnt_append (l1 l2 : List Int) (k : Int) : cnt (l1 ++ l2) k = cnt l1 k + cnt l2 k := by
  simp [cnt, List.filter_append]

theorem cnt_replicate (m : Nat) (a k : Int) : cnt (List.replicate m a) k = if a = k then m else 0 := by
  unfold cnt
  by_cases h : a = k
  · subst h; simp
  · simp [h]

theorem body_length (p : Nat → Rat) : ∀ n, (body n p).length = ∑ i ∈ range n, mOf p i := by
  intro n
  induction n with
  | zero => simp [body]
  | succ n ih => rw [body_succ, List.length_append, ih, List.length_replicate, sum_range_succ]

theorem body_cnt_nat (p : Nat → Rat) (k : Nat) : ∀ n, cnt (body n p) (k : Int) = if k < n then mOf p k else 0 := by
  intro n
  induction n with
  | zero => simp [body, cnt]
  | succ n ih =>
    rw [body_succ, cnt_append, ih, cnt_replicate]
    by_cases h1 : k < n
    · have : ¬ ((n : Int) = (k : Int)) := by omega
      rw [if_pos h1, if_neg this, if_pos (by omega)]; rfl
    · by_cases h2 : n = k
      · subst h2; simp
      · have : ¬ ((n : Int) = (k : Int)) := by omega
        rw [if_neg h1, if_neg this, if_neg (by omega)]

theorem body_cnt_neg (p : Nat → Rat) : ∀ n, cnt (body n p) (-1) = 0 := by
  intro n
  induction n with
  | zero => simp [body, cnt]
  | succ n ih =>
    rw [body_succ, cnt_append, ih, cnt_replicate]
    have : ¬ ((n : Int) = -1) := by omega
    rw [if_neg this]

/-- **slot counts, states**: state `k < n` occupies exactly `⌊256 p_k⌋` slots, whatever `p` -/
theorem slotCount_state (n : Nat) (p : Nat → Rat) (r : Alias.Tables) (k : Nat) (hk : k < n) :
    slotCount ⟨slotsOf n p, r⟩ (k : Int) = mOf p k := by
  show cnt (slotsOf n p) (k : Int) = _
  rw [slotsOf_eq, cnt_append, body_cnt_nat, cnt_replicate, if_pos hk]
  have : ¬ ((-1 : Int) = (k : Int)) := by omega
  rw [if_neg this]; rfl

/-- **slot counts, fall-through**: `|256 − Σ ⌊256 p_i⌋|` slots hold `-1`, whatever `p` -/
theorem slotCount_neg (n : Nat) (p : Nat → Rat) (r : Alias.Tables) :
    slotCount ⟨slotsOf n p, r⟩ (-1) =
      if (∑ i ∈ range n, mOf p i) ≤ 256 then 256 - ∑ i ∈ range n, mOf p i else (∑ i ∈ range n, mOf p i) - 256 := by
  show cnt (slotsOf n p) (-1) = _
  rw [slotsOf_eq, cnt_append, body_cnt_neg, cnt_replicate, if_pos rfl, body_length, zero_add]

theorem slots_length (n : Nat) (p : Nat → Rat) :
    (slotsOf n p).length =
      if (∑ i ∈ range n, mOf p i) ≤ 256 then 256 else 2 * (∑ i ∈ range n, mOf p i) - 256 := by
  rw [slotsOf_eq, List.length_append, List.length_replicate, body_length]
  split_ifs <;> omega

/-! ### the residual vector `θ_i = 256 p_i − ⌊256 p_i⌋` -/

theorem theta_eq (p : Nat → Rat) (i : Nat) : theta p i = 256 * p i - (mOf p i : Rat) := rfl

theorem theta_bounds (p : Nat → Rat) (i : Nat) (h : 0 ≤ p i) : 0 ≤ theta p i ∧ theta p i < 1 := by
  have hb := floor_toNat_bounds (r := (256 : Rat) * p i) (by linarith)
  rw [theta_eq]; unfold mOf
  constructor <;> linarith [hb.1, hb.2]

theorem thetaSum_eq (n : Nat) (p : Nat → Rat) :
    thetaSum n p = 256 * ∑ i ∈ range n, p i - ((∑ i ∈ range n, mOf p i : Nat) : Rat) := by
  unfold thetaSum
  rw [list_range_sum, Nat.cast_sum, mul_sum, ← sum_sub_distrib]
  rfl

theorem thetaSum_nonneg (n : Nat) (p : Nat → Rat) (hp : ∀ i, i < n → 0 ≤ p i) : 0 ≤ thetaSum n p := by
  unfold thetaSum
  rw [list_range_sum]
  exact sum_nonneg (fun i hi => (theta_bounds p i (hp i (mem_range.mp hi))).1)

/-- for a probability vector the integer parts fit into the 256 slots -/
theorem sum_m_le (n : Nat) (p : Nat → Rat) (hp : ∀ i, i < n → 0 ≤ p i) (hs : ∑ i ∈ range n, p i = 1) :
    ∑ i ∈ range n, mOf p i ≤ 256 := by
  have h := thetaSum_nonneg n p hp
  rw [thetaSum_eq, hs] at h
  have : ((∑ i ∈ range n, mOf p i : Nat) : Rat) ≤ (256 : Nat) := by push_cast at h ⊢; linarith
  exact_mod_cast this

/-- **fall-through slots of a probability vector**: exactly `Σ θ_i = 256 − Σ ⌊256 p_i⌋` of them -/
theorem slotCount_neg_prob (n : Nat) (p : Nat → Rat) (r : Alias.Tables) (hp : ∀ i, i < n → 0 ≤ p i)
    (hs : ∑ i ∈ range n, p i = 1) : (slotCount ⟨slotsOf n p, r⟩ (-1) : Rat) = thetaSum n p := by
  have hle := sum_m_le n p hp hs
  rw [slotCount_neg, if_pos hle, thetaSum_eq, hs, Nat.cast_sub hle]
  push_cast; ring

end Rpylib.Table
