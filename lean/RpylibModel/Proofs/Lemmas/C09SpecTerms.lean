/-
C09: the real value of the model's special-function closed forms (Model/IntegralsSpecial.lean) in terms of parameter
functions `erf`, `E1`, and the Merton terms as differences of the antiderivative `mertonFE` at the extended end points.
-/
import RpylibModel.Model.IntegralsSpecial
import RpylibModel.Proofs.Lemmas.C09MertonInf
import RpylibModel.Proofs.Lemmas.C09CgmyInf
import RpylibModel.Proofs.Lemmas.C09CgmyXX

namespace Rpylib.Integrals
open Real

/-- `erf((u − μ)/(σ√2))` at an extended end point: ±1 at ±∞ (scipy) -/
noncomputable def erfE (erf : ℝ → ℝ) (mu sigma : ℝ) : ExtRat → ℝ
  | .fin u => erfAux erf mu sigma u
  | .posInf => 1
  | .negInf => -1

/-- real value of a Merton closed form -/
noncomputable def evalMerton (erf : ℝ → ℝ) (mu sigma : ℝ) (t : MertonTerms) : ℝ :=
  (t.erfT.map (fun p => ((p.1 : ℚ) : ℝ) * erfE erf mu sigma p.2)).sum
    + (t.gaussT.map (fun p => ((p.1 : ℚ) : ℝ) * (sigma / √(2 * π) * exp (-(((p.2 : ℚ) : ℝ) - mu) ^ 2 / (2 * sigma ^ 2))))).sum

/-- the model's terms are `F(b) − F(a)` with the antiderivative evaluated as the code does at each extended end point -/
theorem evalMerton_terms (erf : ℝ → ℝ) (k : ℕ) (hk : k ≤ 2) (lam mu sigma : ℚ) (a b : ExtRat) :
    ∃ t, mertonTerms k lam mu sigma a b = some t ∧
      evalMerton erf mu sigma t = mertonFE erf k lam mu sigma b - mertonFE erf k lam mu sigma a := by
  refine ⟨⟨[(mertonErfCoef k lam mu sigma, b), (-mertonErfCoef k lam mu sigma, a)],
    mertonGauss k lam mu 1 b ++ mertonGauss k lam mu (-1) a⟩, by simp [mertonTerms, hk], ?_⟩
  interval_cases k <;> cases a <;> cases b <;>
    simp [evalMerton, mertonErfCoef, mertonGauss, mertonFE, mertonF, mertonFInf, mertonAuxX, mertonAuxXX, erfE] <;> ring

/-- real value of a VG-mass closed form Σ c · E1(z) -/
noncomputable def evalE1Terms (E1 : ℝ → ℝ) (t : List (ℚ × ℚ)) : ℝ :=
  (t.map (fun p => ((p.1 : ℚ) : ℝ) * E1 ((p.2 : ℚ) : ℝ))).sum

@[simp] theorem evalE1Terms_nil (E1 : ℝ → ℝ) : evalE1Terms E1 [] = 0 := by simp [evalE1Terms]

@[simp] theorem evalE1Terms_cons (E1 : ℝ → ℝ) (p : ℚ × ℚ) (t : List (ℚ × ℚ)) :
    evalE1Terms E1 (p :: t) = (p.1 : ℝ) * E1 (p.2 : ℝ) + evalE1Terms E1 t := by simp [evalE1Terms]

/-- real value of a CGMY atom: the code's formulas over the parameter functions `E1`, `Gam a z` (= Γ(2−a)·gammaincc(2−a, z)),
    `gl s z` (= Γ(s)·gammainc(s, z)) and `GamC s` (= Γ(s), used when the end point is infinite: gammainc(s, inf) = 1) -/
noncomputable def evalCgmyAtom (E1 : ℝ → ℝ) (Gam gl : ℝ → ℝ → ℝ) (GamC : ℝ → ℝ) : CgmyAtom → ℝ
  | .tailMass al u h => cgmyTailMass E1 Gam al u h
  | .tailX al u h => cgmyTailXAll E1 Gam al u h
  | .lowGam s r (.fin h) => gl s ((r : ℝ) * h) / (r : ℝ) ^ (s : ℝ)
  | .lowGam s r _ => GamC s / (r : ℝ) ^ (s : ℝ)
  | .pow s h => (h : ℝ) ^ (s : ℝ) / (s : ℝ)

noncomputable def evalCgmyTerms (E1 : ℝ → ℝ) (Gam gl : ℝ → ℝ → ℝ) (GamC : ℝ → ℝ) (t : CgmyTerms) : ℝ :=
  (t.map (fun p => ((p.1 : ℚ) : ℝ) * evalCgmyAtom E1 Gam gl GamC p.2)).sum

@[simp] theorem evalCgmyTerms_nil (E1 : ℝ → ℝ) (Gam gl : ℝ → ℝ → ℝ) (GamC : ℝ → ℝ) :
    evalCgmyTerms E1 Gam gl GamC [] = 0 := by simp [evalCgmyTerms]

@[simp] theorem evalCgmyTerms_cons (E1 : ℝ → ℝ) (Gam gl : ℝ → ℝ → ℝ) (GamC : ℝ → ℝ) (p : ℚ × CgmyAtom) (t : CgmyTerms) :
    evalCgmyTerms E1 Gam gl GamC (p :: t) = (p.1 : ℝ) * evalCgmyAtom E1 Gam gl GamC p.2 + evalCgmyTerms E1 Gam gl GamC t := by
  simp [evalCgmyTerms]

/-- value of one side of the straddling second moment -/
theorem eval_cgmyXXSide (E1 : ℝ → ℝ) (Gam gl : ℝ → ℝ → ℝ) (GamC : ℝ → ℝ) (c y rate h : ℚ) :
    ∃ t, cgmyXXSide c y rate (.fin h) = some t ∧
      (t.1 : ℝ) * evalCgmyAtom E1 Gam gl GamC t.2 = (c : ℝ) * cgmyLow (gl ((2 - y : ℚ) : ℝ)) (2 - (y : ℝ)) rate h := by
  by_cases h0 : rate = 0
  · refine ⟨(c, .pow (2 - y) h), by simp [cgmyXXSide, h0], ?_⟩
    simp [evalCgmyAtom, cgmyLow, h0]
  · refine ⟨(c, .lowGam (2 - y) rate (.fin h)), by simp [cgmyXXSide, h0], ?_⟩
    have : ((rate : ℚ) : ℝ) ≠ 0 := by exact_mod_cast h0
    simp [evalCgmyAtom, cgmyLow, this]

end Rpylib.Integrals
