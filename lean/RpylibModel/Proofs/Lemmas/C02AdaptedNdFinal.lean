/-
Helper lemmas for C02, n-dimensional adapted binary search: the tables built by `_pre_computation` are consistent with
an additive `M`, and every bucket gives a state the mass of its own cell.
-/
import RpylibModel.Model.Samplers.AdaptedNd
import RpylibModel.Proofs.Lemmas.C02AdaptedNdLaw
import RpylibModel.Proofs.Lemmas.C02AdaptedNdBuild
import RpylibModel.Proofs.Lemmas.C02AdaptedNdAxis
import Mathlib.Tactic.Linarith
import Mathlib.Algebra.Order.Field.Rat

namespace Rpylib.AdaptedNd

theorem wf_product : ∀ pss : List (List (Nat × Nat)), (∀ ps ∈ pss, ∀ p ∈ ps, p.1 ≤ p.2) → ∀ b ∈ product pss, WfBox b := by
  intro pss
  induction pss with
  | nil => intro _ b hb; simp [product] at hb; subst hb; intro lr h; simp at h
  | cons ps rest ih =>
    intro h b hb
    simp only [product, List.mem_flatMap, List.mem_map] at hb
    obtain ⟨p, hp, b', hb', rfl⟩ := hb
    intro lr hlr
    rcases List.mem_cons.mp hlr with rfl | hlr
    · exact h ps (by simp) lr hp
    · exact ih (fun ps' h' => h ps' (by simp [h'])) b' hb' lr hlr

theorem wf_buckets (axes : List (Nat × Nat)) (hw : WfAxes axes) : ∀ b ∈ bucketBoxes axes, WfBox b := by
  intro b hb
  apply wf_product _ _ b (List.mem_of_mem_tail hb)
  intro ps hps p hp
  obtain ⟨on, hon, rfl⟩ := List.mem_map.mp hps
  obtain ⟨h1, h2⟩ := hw on hon
  simp only [pieces, List.mem_cons, List.mem_nil_iff, or_false] at hp
  rcases hp with rfl | rfl | rfl <;> simp only <;> omega

theorem isAxisBox_true {low : Bool} {b : Box} (h : isAxisBox low b = true) :
    (b.filter (fun lr => lr.1 != lr.2)).length = 1 := by
  simp only [isAxisBox, Bool.and_eq_true, beq_iff_eq] at h
  exact h.2

theorem consistent_buildFrom (M : Box → Rat) (hadd : Additive M) (hnn : ∀ b, 0 ≤ M b) (low : Bool) :
    ∀ (boxes : List Box) (prev : Rat), (∀ b ∈ boxes, WfBox b) → Consistent M (buildFrom M low boxes prev) prev := by
  intro boxes
  induction boxes with
  | nil => intro prev _; exact True.intro
  | cons b bs ih =>
    intro prev hw
    have hwb := hw b (by simp)
    refine ⟨rfl, hwb, ?_, ih _ (fun b' h => hw b' (by simp [h]))⟩
    intro hax
    have hax' : isAxisBox low b = true := hax
    simp only [hax', if_true]
    obtain ⟨h1, h2, _⟩ := axis_bucket M hadd hnn b hwb (isAxisBox_true hax') []
    exact ⟨h1, h2⟩

theorem law_buildFrom (M : Box → Rat) (hadd : Additive M) (hnn : ∀ b, 0 ≤ M b) (low : Bool) (s : List Nat) :
    ∀ (boxes : List Box) (prev : Rat), (∀ b ∈ boxes, WfBox b) →
      ((buildFrom M low boxes prev).map (fun bk => bucketLaw M bk s)).sum = (boxes.map (fun b => cellMass M b s)).sum := by
  intro boxes
  induction boxes with
  | nil => intro _ _; rfl
  | cons b bs ih =>
    intro prev hw
    have hwb := hw b (by simp)
    simp only [buildFrom, List.map_cons, List.sum_cons]
    rw [ih _ (fun b' h => hw b' (by simp [h]))]
    congr 1
    unfold bucketLaw
    by_cases hax : isAxisBox low b = true
    · simp only [hax, if_true]
      exact (axis_bucket M hadd hnn b hwb (isAxisBox_true hax) s).2.2
    · simp only [hax]; simp

end Rpylib.AdaptedNd
