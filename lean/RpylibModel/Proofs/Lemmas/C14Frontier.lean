/-
C14 helper lemmas: for a pairing that is monotone in its last argument, the largest *frontier* index of a box grid
(`Domain.compute_total_number_of_states_and_frontier`, no boundary) dominates every in-box index.
-/
import RpylibModel.Proofs.Lemmas.C14Fold
import RpylibModel.Proofs.Lemmas.C14Lazy

namespace Rpylib.Pairing

theorem maxI_ge : ∀ (l : List Int) (x : Int), x ∈ l → x ≤ maxI l := by
  intro l
  induction l with
  | nil => intro x h; simp at h
  | cons a t ih =>
    intro x h
    cases t with
    | nil => simp at h; subst h; simp [maxI]
    | cons b t' =>
      have e : maxI (a :: b :: t') = max a (maxI (b :: t')) := rfl
      rw [e]
      rcases List.mem_cons.mp h with rfl | h
      · omega
      · have := ih x h; omega

theorem inBox_length (o : Nat) : ∀ (ns : List Nat) (v : List Int), inBox o ns v = true → v.length = ns.length := by
  intro ns
  induction ns with
  | nil => intro v h; cases v with
    | nil => rfl
    | cons a t => simp [inBox] at h
  | cons n ns ih =>
    intro v h
    cases v with
    | nil => simp [inBox] at h
    | cons a t =>
      simp only [inBox, Bool.and_eq_true] at h
      simp only [List.length_cons, ih t h.2]

theorem inBox_snoc (o : Nat) : ∀ (ns : List Nat) (n : Nat) (v : List Int), inBox o (ns ++ [n]) v = true →
    ∃ vs vl, v = vs ++ [vl] ∧ inBox o ns vs = true ∧ -(o : Int) ≤ vl ∧ vl + o ≤ (n : Int) - 1 := by
  intro ns
  induction ns with
  | nil =>
    intro n v h
    cases v with
    | nil => simp [inBox] at h
    | cons a t =>
      cases t with
      | nil =>
        simp only [List.nil_append, inBox, Bool.and_true, Bool.and_eq_true, decide_eq_true_eq] at h
        exact ⟨[], a, rfl, rfl, h.1, h.2⟩
      | cons b t' => simp [inBox] at h
  | cons m ns ih =>
    intro n v h
    cases v with
    | nil => simp [inBox] at h
    | cons a t =>
      simp only [List.cons_append, inBox, Bool.and_eq_true] at h
      obtain ⟨vs, vl, e, hb, h1, h2⟩ := ih n t h.2
      refine ⟨a :: vs, vl, by rw [e]; rfl, ?_, h1, h2⟩
      simp only [inBox, Bool.and_eq_true]
      exact ⟨h.1, hb⟩

theorem inBox_shift (o : Nat) : ∀ (ns : List Nat) (vs : List Int), inBox o ns vs = true →
    Below (vs.map (fun (x : Int) => (x + (o : Int)).toNat)) ns ∧
    (vs.map (fun (x : Int) => (x + (o : Int)).toNat)).map (fun (k : Nat) => (k : Int) - (o : Int)) = vs := by
  intro ns
  induction ns with
  | nil => intro vs h; cases vs with
    | nil => exact ⟨trivial, rfl⟩
    | cons a t => simp [inBox] at h
  | cons m ns ih =>
    intro vs h
    cases vs with
    | nil => simp [inBox] at h
    | cons a t =>
      simp only [inBox, Bool.and_eq_true, decide_eq_true_eq] at h
      obtain ⟨⟨h1, h2⟩, h3⟩ := h
      obtain ⟨b, e⟩ := ih t h3
      refine ⟨⟨by simp only; omega, b⟩, ?_⟩
      simp only [List.map_cons, e]
      congr 1; omega

theorem mem_lazyProduct (ns ks : List Nat) (h : Below ks ns) : ks ∈ lazyProduct ns := by
  unfold lazyProduct
  exact List.mem_map.mpr ⟨undigits ns ks, List.mem_range.mpr (undigits_lt ns ks h), lazyNth_undigits ns ks h⟩

theorem P2.pairN_snoc (P : P2) (xs : List Nat) (y : Nat) (hx : xs ≠ []) :
    P.pairN (xs ++ [y]) = P.pair (P.pairN xs) y := by
  cases xs with
  | nil => exact absurd rfl hx
  | cons a t => simp [P2.pairN, List.foldl_append]

theorem ofZ_between (o : Nat) (vl r : Int) (h1 : -(o : Int) ≤ vl) (h2 : vl ≤ r) :
    ofZ vl ≤ ofZ (-(o : Int)) ∨ ofZ vl ≤ ofZ r := by
  unfold ofZ; split_ifs <;> omega

theorem maxFrontier_snoc (pairZ : List Int → Int) (o : Nat) (first : List Nat) (nL : Nat) (hf : first ≠ []) :
    maxFrontier pairZ o (first ++ [nL]) =
      maxI ((lazyProduct first).flatMap (fun ks =>
        [pairZ (ks.map (fun (k : Nat) => (k : Int) - (o : Int)) ++ [-(o : Int)]),
         pairZ (ks.map (fun (k : Nat) => (k : Int) - (o : Int)) ++ [(nL : Int) - 1 - o])])) := by
  unfold maxFrontier
  have e : (first ++ [nL]).reverse = nL :: first.reverse := by simp
  rw [e]
  cases hr : first.reverse with
  | nil => simp at hr; exact absurd hr hf
  | cons a b =>
    have : first = (a :: b).reverse := by rw [← hr, List.reverse_reverse]
    simp only [this]

/-- monotone in the last argument ⇒ every in-box index is at most the largest frontier index -/
theorem frontier_bound_of_mono (P : P2) (hmono : ∀ x y y', y ≤ y' → P.pair x y ≤ P.pair x y')
    (o : Nat) (first : List Nat) (nL : Nat) (hf : first ≠ []) (v : List Int)
    (hv : inBox o (first ++ [nL]) v = true) :
    zdPair P.pairN 1 v ≤ maxFrontier (zdPair P.pairN 1) o (first ++ [nL]) := by
  obtain ⟨vs, vl, rfl, hb, h1, h2⟩ := inBox_snoc o first nL v hv
  obtain ⟨hbelow, hshift⟩ := inBox_shift o first vs hb
  rw [maxFrontier_snoc _ o first nL hf]
  have hmem := mem_lazyProduct first _ hbelow
  have hne : vs.map ofZ ≠ [] := by
    intro hc
    have hl := inBox_length o first vs hb
    have : vs = [] := by simpa using hc
    subst this
    cases first with
    | nil => exact hf rfl
    | cons a t => simp at hl
  have key : ∀ w : Int, zdPair P.pairN 1 (vs ++ [w]) = (P.pair (P.pairN (vs.map ofZ)) (ofZ w) : Int) - 1 := by
    intro w
    simp only [zdPair, List.map_append, List.map_cons, List.map_nil, P.pairN_snoc _ _ hne]
    rfl
  rcases ofZ_between o vl ((nL : Int) - 1 - o) h1 (by omega) with hle | hle
  · have hin : zdPair P.pairN 1 (vs ++ [-(o : Int)]) ∈ (lazyProduct first).flatMap (fun ks =>
        [zdPair P.pairN 1 (ks.map (fun (k : Nat) => (k : Int) - (o : Int)) ++ [-(o : Int)]),
         zdPair P.pairN 1 (ks.map (fun (k : Nat) => (k : Int) - (o : Int)) ++ [(nL : Int) - 1 - o])]) := by
      refine List.mem_flatMap.mpr ⟨_, hmem, ?_⟩
      rw [hshift]; simp
    have := maxI_ge _ _ hin
    have hm := hmono (P.pairN (vs.map ofZ)) _ _ hle
    rw [key] at this ⊢
    omega
  · have hin : zdPair P.pairN 1 (vs ++ [(nL : Int) - 1 - o]) ∈ (lazyProduct first).flatMap (fun ks =>
        [zdPair P.pairN 1 (ks.map (fun (k : Nat) => (k : Int) - (o : Int)) ++ [-(o : Int)]),
         zdPair P.pairN 1 (ks.map (fun (k : Nat) => (k : Int) - (o : Int)) ++ [(nL : Int) - 1 - o])]) := by
      refine List.mem_flatMap.mpr ⟨_, hmem, ?_⟩
      rw [hshift]; simp
    have := maxI_ge _ _ hin
    have hm := hmono (P.pairN (vs.map ofZ)) _ _ hle
    rw [key] at this ⊢
    omega

theorem szudzik_mono_right (x y y' : Nat) (h : y ≤ y') : szudzikPair x y ≤ szudzikPair x y' := by
  unfold szudzikPair
  have hsq : y ^ 2 ≤ y' ^ 2 := Nat.pow_le_pow_left h 2
  by_cases c1 : x ≥ y <;> by_cases c2 : x ≥ y' <;> simp only [c1, c2, if_true, if_false]
  · omega
  · have : x ^ 2 + x + 1 ≤ y' ^ 2 := by
      have : (x + 1) ^ 2 ≤ y' ^ 2 := Nat.pow_le_pow_left (by omega) 2
      have e : (x + 1) ^ 2 = x ^ 2 + 2 * x + 1 := by ring
      omega
    omega
  · omega
  · omega

theorem cantor_mono_right (x y y' : Nat) (h : y ≤ y') : cantorPair x y ≤ cantorPair x y' := by
  unfold cantorPair
  have : (x + y) ^ 2 ≤ (x + y') ^ 2 := Nat.pow_le_pow_left (by omega) 2
  omega

theorem pepis_mono_right (x y y' : Nat) (h : y ≤ y') : pepisPair x y ≤ pepisPair x y' := by
  unfold pepisPair
  have : 2 ^ y ≤ 2 ^ y' := Nat.pow_le_pow_right (by omega) h
  have := Nat.mul_le_mul_right (2 * x + 1) this
  omega

end Rpylib.Pairing
