/-
C04, copula chain: what is true of the variance matrix `MCLevyCopulaSimulation` builds (Model/DriftMatrix.lean).

Index-function level (`A : ℕ → ℕ → ℚ`, sums over `range d`): `A·Aᵀ + diag σ²` is symmetric, positive semi-definite, with
diagonal `Σ_k A_ik² + σ_i²`, for every `A`; `A + diag σ²` is symmetric / positive semi-definite when `A` is; the two agree
iff `A·Aᵀ = A`; a symmetric square root and a Cholesky-type factor give the same covariance `D·Dᵀ`.
List level: entries of `matMul`, `transpose`, `matAdd`, `diag`, of the assembled `adj_matrix` and of
`varianceMatrixCoded` / `varianceMatrixSpec` on well-shaped inputs, so that the statements are about the model the driver runs.
-/
import RpylibModel.Model.DriftMatrix
import RpylibModel.Proofs.Lemmas.C04Basic

set_option linter.dupNamespace false
set_option linter.unusedSectionVars false
set_option linter.unusedVariables false

namespace Rpylib.Drift
open Rpylib.Cells Finset

/-! ### index functions -/

/-- `(A·Aᵀ)_ij` -/
def mulT (d : ℕ) (A : ℕ → ℕ → ℚ) (i j : ℕ) : ℚ := ∑ k ∈ range d, A i k * A j k

/-- `(A·B)_ij` -/
def mulF (d : ℕ) (A B : ℕ → ℕ → ℚ) (i j : ℕ) : ℚ := ∑ k ∈ range d, A i k * B k j

/-- `x·M·x` -/
def qf (d : ℕ) (M : ℕ → ℕ → ℚ) (x : ℕ → ℚ) : ℚ := ∑ i ∈ range d, ∑ j ∈ range d, x i * M i j * x j

def SymmF (d : ℕ) (M : ℕ → ℕ → ℚ) : Prop := ∀ i j, i < d → j < d → M i j = M j i

def PsdF (d : ℕ) (M : ℕ → ℕ → ℚ) : Prop := ∀ x : ℕ → ℚ, 0 ≤ qf d M x

/-- `A·Aᵀ + diag σ²` (as coded) and `A + diag σ²` (specification) -/
def codedF (d : ℕ) (A : ℕ → ℕ → ℚ) (s : ℕ → ℚ) (i j : ℕ) : ℚ := mulT d A i j + (if i = j then s i ^ 2 else 0)
def specF (A : ℕ → ℕ → ℚ) (s : ℕ → ℚ) (i j : ℕ) : ℚ := A i j + (if i = j then s i ^ 2 else 0)

theorem mulT_symm (d : ℕ) (A : ℕ → ℕ → ℚ) (i j : ℕ) : mulT d A i j = mulT d A j i := by
  unfold mulT; exact sum_congr rfl (fun k _ => mul_comm _ _)

/-- the quadratic form of `A·Aᵀ` is a sum of squares -/
theorem qf_mulT (d : ℕ) (A : ℕ → ℕ → ℚ) (x : ℕ → ℚ) :
    qf d (mulT d A) x = ∑ k ∈ range d, (∑ i ∈ range d, x i * A i k) ^ 2 := by
  unfold qf mulT
  have h1 : ∀ k ∈ range d, (∑ i ∈ range d, x i * A i k) ^ 2 =
      ∑ i ∈ range d, ∑ j ∈ range d, x i * (A i k * A j k) * x j := by
    intro k _
    rw [pow_two, sum_mul_sum]
    exact sum_congr rfl (fun i _ => sum_congr rfl (fun j _ => by ring))
  calc ∑ i ∈ range d, ∑ j ∈ range d, x i * (∑ k ∈ range d, A i k * A j k) * x j
      = ∑ i ∈ range d, ∑ j ∈ range d, ∑ k ∈ range d, x i * (A i k * A j k) * x j :=
        sum_congr rfl (fun i _ => sum_congr rfl (fun j _ => by rw [mul_sum, sum_mul]))
    _ = ∑ i ∈ range d, ∑ k ∈ range d, ∑ j ∈ range d, x i * (A i k * A j k) * x j :=
        sum_congr rfl (fun i _ => sum_comm)
    _ = ∑ k ∈ range d, ∑ i ∈ range d, ∑ j ∈ range d, x i * (A i k * A j k) * x j := sum_comm
    _ = ∑ k ∈ range d, (∑ i ∈ range d, x i * A i k) ^ 2 := (sum_congr rfl h1).symm

theorem qf_diag (d : ℕ) (s : ℕ → ℚ) (x : ℕ → ℚ) :
    qf d (fun i j => if i = j then s i ^ 2 else 0) x = ∑ i ∈ range d, s i ^ 2 * x i ^ 2 := by
  unfold qf
  apply sum_congr rfl; intro i hi
  rw [sum_eq_single i]
  · simp; ring
  · intro j _ hji; simp [Ne.symm hji]
  · intro h; exact absurd hi h

theorem qf_add (d : ℕ) (M N : ℕ → ℕ → ℚ) (x : ℕ → ℚ) :
    qf d (fun i j => M i j + N i j) x = qf d M x + qf d N x := by
  unfold qf
  rw [← sum_add_distrib]; apply sum_congr rfl; intro i _
  rw [← sum_add_distrib]; apply sum_congr rfl; intro j _
  ring

theorem qf_congr (d : ℕ) (M N : ℕ → ℕ → ℚ) (h : ∀ i j, i < d → j < d → M i j = N i j) (x : ℕ → ℚ) :
    qf d M x = qf d N x := by
  unfold qf
  exact sum_congr rfl (fun i hi => sum_congr rfl (fun j hj => by rw [h i j (mem_range.mp hi) (mem_range.mp hj)]))

/-- **as coded: symmetric, whatever `adj` holds** -/
theorem codedF_symm (d : ℕ) (A : ℕ → ℕ → ℚ) (s : ℕ → ℚ) : SymmF d (codedF d A s) := by
  intro i j _ _
  unfold codedF
  rw [mulT_symm d A i j]
  by_cases h : i = j
  · subst h; rfl
  · rw [if_neg h, if_neg (Ne.symm h)]

/-- **as coded: positive semi-definite, whatever `adj` holds** (`sqrtm` of it is a real matrix) -/
theorem codedF_psd (d : ℕ) (A : ℕ → ℕ → ℚ) (s : ℕ → ℚ) : PsdF d (codedF d A s) := by
  intro x
  have : codedF d A s = fun i j => mulT d A i j + (if i = j then s i ^ 2 else 0) := rfl
  rw [this, qf_add, qf_mulT, qf_diag]
  exact add_nonneg (sum_nonneg (fun k _ => sq_nonneg _)) (sum_nonneg (fun i _ => mul_nonneg (sq_nonneg _) (sq_nonneg _)))

/-- **as coded: the diagonal** is `Σ_k adj_ik² + σ_i²`: at least `adj_ii² + σ_i²`, never `adj_ii + σ_i²` in general -/
theorem codedF_diag (d : ℕ) (A : ℕ → ℕ → ℚ) (s : ℕ → ℚ) (i : ℕ) (hi : i < d) :
    codedF d A s i i = ∑ k ∈ range d, A i k ^ 2 + s i ^ 2 ∧ A i i ^ 2 + s i ^ 2 ≤ codedF d A s i i := by
  have e : codedF d A s i i = ∑ k ∈ range d, A i k ^ 2 + s i ^ 2 := by
    unfold codedF mulT; rw [if_pos rfl]; congr 1; exact sum_congr rfl (fun k _ => (pow_two _).symm)
  refine ⟨e, ?_⟩
  rw [e]
  have := single_le_sum (f := fun k => A i k ^ 2) (fun k _ => sq_nonneg (A i k)) (mem_range.mpr hi)
  linarith

/-- the specification: symmetric when `adj` is, with diagonal `adj_ii + σ_i²` -/
theorem specF_symm (d : ℕ) (A : ℕ → ℕ → ℚ) (s : ℕ → ℚ) (hA : SymmF d A) : SymmF d (specF A s) := by
  intro i j hi hj
  unfold specF
  rw [hA i j hi hj]
  by_cases h : i = j
  · subst h; rfl
  · rw [if_neg h, if_neg (Ne.symm h)]

/-- the specification is positive semi-definite **under the hypothesis** that the small-jump covariance `adj` is
    (true of an exact covariance; `vol_adjustment_ij` returns quadrature values, so it stays a hypothesis) -/
theorem specF_psd (d : ℕ) (A : ℕ → ℕ → ℚ) (s : ℕ → ℚ) (hA : PsdF d A) : PsdF d (specF A s) := by
  intro x
  have : specF A s = fun i j => A i j + (if i = j then s i ^ 2 else 0) := rfl
  rw [this, qf_add, qf_diag]
  exact add_nonneg (hA x) (sum_nonneg (fun i _ => mul_nonneg (sq_nonneg _) (sq_nonneg _)))

/-- **coded = specification iff `adj·adjᵀ = adj`** (for a symmetric `adj`: iff it is a projection); the general-d form of
    `variance_matrix_1x1` -/
theorem coded_eq_spec_iff (d : ℕ) (A : ℕ → ℕ → ℚ) (s : ℕ → ℚ) :
    (∀ i j, i < d → j < d → codedF d A s i j = specF A s i j) ↔ (∀ i j, i < d → j < d → mulT d A i j = A i j) := by
  unfold codedF specF
  constructor
  · intro h i j hi hj; have := h i j hi hj; linarith
  · intro h i j hi hj; rw [h i j hi hj]

/-- finite variation (`adj = 0`): both are `diag σ²` -/
theorem coded_zero (d : ℕ) (s : ℕ → ℚ) (i j : ℕ) :
    codedF d (fun _ _ => 0) s i j = (if i = j then s i ^ 2 else 0) ∧ specF (fun _ _ => 0) s i j = (if i = j then s i ^ 2 else 0) := by
  unfold codedF specF mulT; simp

/-- **`sqrtm` or Cholesky — the law of the diffusion part is the same**: a symmetric square root `D` of `V` (what
    `scipy.linalg.sqrtm` returns for symmetric positive semi-definite `V`) has `D·Dᵀ = V`, the defining property of a
    Cholesky factor; the simulated covariance per unit time `D·Dᵀ` is `V` either way -/
theorem symm_sqrt_cov (d : ℕ) (D V : ℕ → ℕ → ℚ) (hs : SymmF d D) (hsq : ∀ i j, i < d → j < d → mulF d D D i j = V i j)
    (i j : ℕ) (hi : i < d) (hj : j < d) : mulT d D i j = V i j := by
  rw [← hsq i j hi hj]
  unfold mulT mulF
  exact sum_congr rfl (fun k hk => by rw [hs j k hj (mem_range.mp hk)])

/-- a symmetric `adj` is itself a symmetric square root of the coded matrix when σ = 0: the diffusion matrix may be `adj`
    — a *covariance* used as a *volatility* — and the simulated small-jump covariance is then `adj²`, not `adj` -/
theorem adj_is_sqrt_of_coded (d : ℕ) (A : ℕ → ℕ → ℚ) (hA : SymmF d A) (i j : ℕ) (hi : i < d) (hj : j < d) :
    mulF d A A i j = codedF d A (fun _ => 0) i j := by
  unfold codedF mulT mulF
  have : (if i = j then ((fun _ => (0 : ℚ)) i) ^ 2 else 0) = 0 := by split_ifs <;> simp
  rw [this, add_zero]
  exact sum_congr rfl (fun k hk => by rw [hA j k hj (mem_range.mp hk)])

/-! ### lists: entries of the model's matrix operations -/

/-- `d` rows of `d` entries -/
def Square (d : ℕ) (m : Mat) : Prop := m.length = d ∧ ∀ r ∈ m, r.length = d

theorem getD_map_range {α : Type} (f : ℕ → α) (n i : ℕ) (dflt : α) (hi : i < n) :
    ((List.range n).map f).getD i dflt = f i := by
  rw [List.getD_eq_getElem?_getD, List.getElem?_map, List.getElem?_range hi]; rfl

theorem entry_map_range (d : ℕ) (F : ℕ → ℕ → ℚ) (i j : ℕ) (hi : i < d) (hj : j < d) :
    entry ((List.range d).map (fun i => (List.range d).map (fun j => F i j))) i j = F i j := by
  unfold entry
  rw [getD_map_range _ d i [] hi, getD_map_range _ d j 0 hj]

theorem row_length {d : ℕ} {m : Mat} (h : Square d m) (i : ℕ) (hi : i < d) : (m.getD i []).length = d := by
  have hi' : i < m.length := by rw [h.1]; exact hi
  rw [List.getD_eq_getElem?_getD, List.getElem?_eq_getElem hi']
  exact h.2 _ (List.getElem_mem hi')

theorem headD_length {d : ℕ} {m : Mat} (h : Square d m) : (m.headD []).length = d := by
  cases m with
  | nil => simp [Square] at h; simp [h]
  | cons r t => exact h.2 r (List.mem_cons_self)

theorem entry_transpose {d : ℕ} {a : Mat} (h : Square d a) (i j : ℕ) (hi : i < d) (hj : j < d) :
    entry (transpose a) i j = entry a j i := by
  unfold entry transpose
  rw [headD_length h, getD_map_range _ d i [] hi]
  have hj' : j < a.length := by rw [h.1]; exact hj
  rw [List.getD_eq_getElem?_getD, List.getElem?_map, List.getElem?_eq_getElem hj']
  simp [List.getD_eq_getElem?_getD, List.getElem?_eq_getElem hj']

theorem square_transpose {d : ℕ} {a : Mat} (h : Square d a) : Square d (transpose a) := by
  unfold transpose
  rw [headD_length h]
  refine ⟨by simp, ?_⟩
  intro r hr
  obtain ⟨j, _, rfl⟩ := List.mem_map.mp hr
  simp [h.1]

theorem entry_matMul {d : ℕ} {a b : Mat} (ha : Square d a) (hb : Square d b) (i j : ℕ) (hi : i < d) (hj : j < d) :
    entry (matMul a b) i j = ∑ k ∈ range d, entry a i k * entry b k j := by
  have hi' : i < a.length := by rw [ha.1]; exact hi
  have hrow : (matMul a b).getD i [] = (List.range d).map (fun j =>
      ((List.range d).map (fun k => (a.getD i []).getD k 0 * (b.getD k []).getD j 0)).sum) := by
    unfold matMul
    rw [List.getD_eq_getElem?_getD, List.getElem?_map, List.getElem?_eq_getElem hi']
    simp only [Option.map_some, Option.getD_some]
    rw [headD_length hb, ha.2 _ (List.getElem_mem hi')]
    simp [List.getD_eq_getElem?_getD, List.getElem?_eq_getElem hi']
  unfold entry
  rw [hrow, getD_map_range _ d j 0 hj, sum_map_range]

theorem entry_diag (v : List ℚ) (i j : ℕ) (hi : i < v.length) (hj : j < v.length) :
    entry (diag v) i j = if i = j then v.getD i 0 else 0 := by
  unfold diag; exact entry_map_range v.length _ i j hi hj

theorem square_diag (v : List ℚ) : Square v.length (diag v) := by
  unfold diag
  refine ⟨by simp, ?_⟩
  intro r hr
  obtain ⟨j, _, rfl⟩ := List.mem_map.mp hr
  simp

theorem square_matMul {d : ℕ} {a b : Mat} (ha : Square d a) (hb : Square d b) : Square d (matMul a b) := by
  unfold matMul
  rw [headD_length hb]
  refine ⟨by simp [ha.1], ?_⟩
  intro r hr
  obtain ⟨j, _, rfl⟩ := List.mem_map.mp hr
  simp

theorem entry_matAdd {d : ℕ} {a b : Mat} (ha : Square d a) (hb : Square d b) (i j : ℕ) (hi : i < d) (hj : j < d) :
    entry (matAdd a b) i j = entry a i j + entry b i j := by
  unfold entry matAdd
  have hia : i < a.length := by rw [ha.1]; exact hi
  have hib : i < b.length := by rw [hb.1]; exact hi
  have hja : j < (a[i]).length := by rw [ha.2 _ (List.getElem_mem hia)]; exact hj
  have hjb : j < (b[i]).length := by rw [hb.2 _ (List.getElem_mem hib)]; exact hj
  simp [List.getD_eq_getElem?_getD, List.getElem?_zipWith, List.getElem?_eq_getElem hia, List.getElem?_eq_getElem hib,
    List.getElem?_eq_getElem hja, List.getElem?_eq_getElem hjb]

/-- the entries of the model's `varianceMatrixCoded` / `varianceMatrixSpec` are those of `codedF` / `specF` -/
theorem entry_coded {d : ℕ} {adj : Mat} (h : Square d adj) (sig : List ℚ) (hs : sig.length = d) (i j : ℕ) (hi : i < d)
    (hj : j < d) :
    entry (varianceMatrixCoded adj sig) i j = codedF d (entry adj) (fun i => sig.getD i 0) i j := by
  unfold varianceMatrixCoded codedF mulT
  have hd : Square d (diag (sig.map (· ^ 2))) := by
    have := square_diag (sig.map (· ^ 2)); rwa [List.length_map, hs] at this
  rw [entry_matAdd (square_matMul h (square_transpose h)) hd i j hi hj, entry_matMul h (square_transpose h) i j hi hj,
    entry_diag _ i j (by simp [hs, hi]) (by simp [hs, hj])]
  congr 1
  · exact sum_congr rfl (fun k hk => by rw [entry_transpose h k j (mem_range.mp hk) hj])
  · by_cases hij : i = j
    · rw [if_pos hij, if_pos hij]
      simp [List.getD_eq_getElem?_getD, List.getElem?_map, List.getElem?_eq_getElem (show i < sig.length by omega)]
    · rw [if_neg hij, if_neg hij]

theorem entry_spec {d : ℕ} {adj : Mat} (h : Square d adj) (sig : List ℚ) (hs : sig.length = d) (i j : ℕ) (hi : i < d)
    (hj : j < d) :
    entry (varianceMatrixSpec adj sig) i j = specF (entry adj) (fun i => sig.getD i 0) i j := by
  unfold varianceMatrixSpec specF
  have hd : Square d (diag (sig.map (· ^ 2))) := by
    have := square_diag (sig.map (· ^ 2)); rwa [List.length_map, hs] at this
  rw [entry_matAdd h hd i j hi hj, entry_diag _ i j (by simp [hs, hi]) (by simp [hs, hj])]
  congr 1
  by_cases hij : i = j
  · rw [if_pos hij, if_pos hij]
    simp [List.getD_eq_getElem?_getD, List.getElem?_map, List.getElem?_eq_getElem (show i < sig.length by omega)]
  · rw [if_neg hij, if_neg hij]

/-- the executable quadratic form of the driver is `qf` -/
theorem quadForm_eq (d : ℕ) (m : Mat) (x : List ℚ) : quadForm d m x = qf d (entry m) (fun i => x.getD i 0) := by
  unfold quadForm qf
  rw [sum_map_range]
  exact sum_congr rfl (fun i _ => by rw [sum_map_range])

/-! ### the assembled `adj_matrix` -/

theorem square_assembleAdj (d : ℕ) (fv : Bool) (outs : List ℚ) : Square d (assembleAdj d fv outs) := by
  unfold assembleAdj zeroMat assembleInf
  split_ifs
  · refine ⟨by simp, ?_⟩
    intro r hr; obtain ⟨j, _, rfl⟩ := List.mem_map.mp hr; simp
  · refine ⟨by simp, ?_⟩
    intro r hr; obtain ⟨j, _, rfl⟩ := List.mem_map.mp hr; simp

theorem entry_assembleInf (d : ℕ) (outs : List ℚ) (i j : ℕ) (hi : i < d) (hj : j < d) :
    entry (assembleInf d outs) i j =
      if i ≤ j then ((segments d outs).getD i []).getD (j - i) 0 else ((segments d outs).getD j []).getD (i - j) 0 := by
  unfold assembleInf; exact entry_map_range d _ i j hi hj

/-- **the assembled `adj_matrix` is symmetric** (`adj[i,j] = adj[j,i] = next(outputs)`) -/
theorem assembleAdj_symm (d : ℕ) (fv : Bool) (outs : List ℚ) : SymmF d (entry (assembleAdj d fv outs)) := by
  intro i j hi hj
  unfold assembleAdj
  split_ifs
  · unfold zeroMat; rw [entry_map_range d _ i j hi hj, entry_map_range d _ j i hj hi]
  · rw [entry_assembleInf d outs i j hi hj, entry_assembleInf d outs j i hj hi]
    rcases Nat.lt_trichotomy i j with h | h | h
    · rw [if_pos (by omega), if_neg (by omega)]
    · subst h; rfl
    · rw [if_neg (by omega), if_pos (by omega)]

/-- offset of row `i` in the stream of results -/
def rowOffset (n i : ℕ) : ℕ := ((List.range i).map (fun r => n - r)).sum

theorem rowOffset_succ (n i : ℕ) : rowOffset (n + 1) (i + 1) = (n + 1) + rowOffset n i := by
  unfold rowOffset
  rw [List.range_succ_eq_map, List.map_cons, List.sum_cons, List.map_map]
  congr 2
  apply List.map_congr_left
  intro r _
  simp only [Function.comp, Nat.succ_eq_add_one]
  omega

theorem segments_getD (n : ℕ) : ∀ (outs : List ℚ) (i : ℕ), i < n →
    (segments n outs).getD i [] = (outs.drop (rowOffset n i)).take (n - i) := by
  induction n with
  | zero => intro _ i hi; omega
  | succ n ih =>
    intro outs i hi
    cases i with
    | zero => simp [segments, rowOffset]
    | succ i =>
      have := ih (outs.drop (n + 1)) i (by omega)
      simp only [segments, List.getD_cons_succ]
      rw [this, rowOffset_succ, List.drop_drop, Nat.add_sub_add_right]

/-- **entry `(i, j)`, `i ≤ j`, of `adj_matrix` is the result of `vol_adjustment_ij(i, j)`**: the one at position
    `triIndex d i j` of the stream produced by `for i in range(d) for j in range(i, d)` -/
theorem assembleAdj_entry (d : ℕ) (outs : List ℚ) (i j : ℕ) (hij : i ≤ j) (hj : j < d) :
    entry (assembleAdj d false outs) i j = outs.getD (triIndex d i j) 0 := by
  have hi : i < d := by omega
  unfold assembleAdj
  simp only [Bool.false_eq_true, if_false]
  rw [entry_assembleInf d outs i j hi hj, if_pos hij, segments_getD d outs i hi]
  unfold triIndex
  have hlt : j - i < d - i := by omega
  rw [List.getD_eq_getElem?_getD, List.getD_eq_getElem?_getD, List.getElem?_take, if_pos hlt, List.getElem?_drop]
  rfl

/-- the diagonal entry `adj[i,i]` is `vol_adjustment_ij(i, i)` -/
theorem assembleAdj_diag (d : ℕ) (outs : List ℚ) (i : ℕ) (hi : i < d) :
    entry (assembleAdj d false outs) i i = outs.getD (triIndex d i i) 0 :=
  assembleAdj_entry d outs i i (le_refl _) hi

end Rpylib.Drift
