/-
C09, CGMY mass and first moment with an infinite end point (cgmy.py:127-168): the coded tails tend to 0 at +∞ under the
explicit limit hypotheses `E1 → 0`, `Gam a → 0` (the upper incomplete gamma function), hence the improper integrals over
(a, ∞), a > 0 and (−∞, b], b < 0.
-/
import RpylibModel.Proofs.Lemmas.C09Cgmy
import Mathlib.Analysis.SpecialFunctions.Pow.Asymptotics

namespace Rpylib.Integrals
open Real MeasureTheory Filter Topology Set

/-- `__integrate_h_to_inf_for_xx(alpha, h, u)` with both branches (cgmy.py:262-276): exp1 for alpha = 1 -/
noncomputable def cgmyTailXAll (E1 : ℝ → ℝ) (Gam : ℝ → ℝ → ℝ) (alpha u h : ℝ) : ℝ :=
  if alpha = 1 then E1 (u * h) else cgmyTailX (Gam alpha) alpha u h

theorem hasDerivAt_cgmyTailXAll (E1 : ℝ → ℝ) (Gam : ℝ → ℝ → ℝ)
    (hE1 : ∀ x, 0 < x → HasDerivAt E1 (-exp (-x) / x) x)
    (hG : ∀ a z, 0 < z → HasDerivAt (Gam a) (-(z ^ (1 - a) * exp (-z))) z)
    (alpha u : ℝ) (hu : 0 < u) (h : ℝ) (hh : 0 < h) :
    HasDerivAt (cgmyTailXAll E1 Gam alpha u) (-(exp (-(u * h)) * h ^ (-alpha))) h := by
  by_cases h1 : alpha = 1
  · have hf : cgmyTailXAll E1 Gam alpha u = fun v => E1 (u * v) := by funext v; simp [cgmyTailXAll, h1]
    rw [hf, h1]
    refine (hasDerivAt_E1_tail E1 hE1 u hu h hh).congr_deriv ?_
    rw [rpow_neg hh.le, rpow_one]; ring
  · have hf : cgmyTailXAll E1 Gam alpha u = cgmyTailX (Gam alpha) alpha u := by funext v; simp [cgmyTailXAll, h1]
    rw [hf]
    exact hasDerivAt_cgmyTailX (Gam alpha) alpha u h1 hu (hG alpha) h hh

theorem tendsto_mul_atTop (u : ℝ) (hu : 0 < u) : Tendsto (fun h : ℝ => u * h) atTop atTop :=
  tendsto_id.const_mul_atTop hu

/-- `h^s · e^{−u h} → 0` -/
theorem tendsto_rpow_exp (s u : ℝ) (hu : 0 < u) : Tendsto (fun h : ℝ => h ^ s * exp (-(u * h))) atTop (𝓝 0) := by
  refine (tendsto_rpow_mul_exp_neg_mul_atTop_nhds_zero s u hu).congr (fun h => ?_)
  rw [neg_mul]

theorem tendsto_exp_lin (u : ℝ) (hu : 0 < u) : Tendsto (fun h : ℝ => exp (-(u * h))) atTop (𝓝 0) := by
  have := tendsto_rpow_exp 0 u hu
  simpa using this

theorem tendsto_cgmyTailXAll (E1 : ℝ → ℝ) (Gam : ℝ → ℝ → ℝ) (hE1lim : Tendsto E1 atTop (𝓝 0))
    (hGlim : ∀ a, Tendsto (Gam a) atTop (𝓝 0)) (alpha u : ℝ) (hu : 0 < u) :
    Tendsto (cgmyTailXAll E1 Gam alpha u) atTop (𝓝 0) := by
  by_cases h1 : alpha = 1
  · have hf : cgmyTailXAll E1 Gam alpha u = fun v => E1 (u * v) := by funext v; simp [cgmyTailXAll, h1]
    rw [hf]
    exact hE1lim.comp (tendsto_mul_atTop u hu)
  · have hf : cgmyTailXAll E1 Gam alpha u = cgmyTailX (Gam alpha) alpha u := by funext v; simp [cgmyTailXAll, h1]
    rw [hf]
    have hA := tendsto_rpow_exp (1 - alpha) u hu
    have hB := ((hGlim alpha).comp (tendsto_mul_atTop u hu)).const_mul (u ^ (alpha - 1))
    have h := (hA.sub hB).div_const (alpha - 1)
    simp only [mul_zero, sub_zero, zero_div] at h
    exact h

/-- the closed branch `cgmyTail0` (alpha < 1, alpha ≠ 0) tends to 0: the factor h^alpha cancels against (u h)^alpha -/
theorem tendsto_cgmyTail0 (Gam : ℝ → ℝ) (hGlim : Tendsto Gam atTop (𝓝 0)) (alpha u : ℝ) (hu : 0 < u) :
    Tendsto (cgmyTail0 Gam alpha u) atTop (𝓝 0) := by
  -- tail0 h = e^{-uh} h^{-α}/α + (u/(α(1-α))) h^{1-α} e^{-uh} − u^α Gam(uh)/(α(1−α))   for h > 0
  have hA := (tendsto_rpow_exp (-alpha) u hu).const_mul (1 / alpha)
  have hB := (tendsto_rpow_exp (1 - alpha) u hu).const_mul (u / (alpha * (1 - alpha)))
  have hC := (hGlim.comp (tendsto_mul_atTop u hu)).const_mul (u ^ alpha / (alpha * (1 - alpha)))
  have h := (hA.add hB).sub hC
  simp only [mul_zero, add_zero, sub_zero] at h
  refine h.congr' ?_
  filter_upwards [eventually_gt_atTop (0 : ℝ)] with x hx
  have hQ : 0 < x ^ alpha := rpow_pos_of_pos hx alpha
  have e1 : x ^ (-alpha) = (x ^ alpha)⁻¹ := rpow_neg hx.le alpha
  have e2 : x ^ (1 - alpha) = x * (x ^ alpha)⁻¹ := by
    rw [show (1 - alpha) = 1 + -alpha by ring, rpow_add hx, rpow_one, rpow_neg hx.le]
  have e3 : (u * x) ^ alpha = u ^ alpha * x ^ alpha := mul_rpow hu.le hx.le
  simp only [cgmyTail0, Function.comp, e1, e2, e3]
  by_cases ha0 : alpha = 0
  · subst ha0; simp
  by_cases ha1 : 1 - alpha = 0
  · have : alpha = 1 := by linarith
    subst this; simp; ring
  have hQ' := hQ.ne'
  field_simp

theorem tendsto_cgmyTailLow (E1 : ℝ → ℝ) (Gam : ℝ → ℝ → ℝ) (hE1lim : Tendsto E1 atTop (𝓝 0))
    (hGlim : ∀ a, Tendsto (Gam a) atTop (𝓝 0)) (alpha u : ℝ) (hu : 0 < u) :
    Tendsto (cgmyTailLow E1 Gam alpha u) atTop (𝓝 0) := by
  by_cases h0 : alpha = 0
  · have hf : cgmyTailLow E1 Gam alpha u = fun v => E1 (u * v) := by funext v; simp [cgmyTailLow, h0]
    rw [hf]; exact hE1lim.comp (tendsto_mul_atTop u hu)
  · have hf : cgmyTailLow E1 Gam alpha u = cgmyTail0 (Gam alpha) alpha u := by funext v; simp [cgmyTailLow, h0]
    rw [hf]; exact tendsto_cgmyTail0 (Gam alpha) (hGlim alpha) alpha u hu

theorem tendsto_cgmyTailMass (E1 : ℝ → ℝ) (Gam : ℝ → ℝ → ℝ) (hE1lim : Tendsto E1 atTop (𝓝 0))
    (hGlim : ∀ a, Tendsto (Gam a) atTop (𝓝 0)) (alpha u : ℝ) (hu : 0 < u) :
    Tendsto (cgmyTailMass E1 Gam alpha u) atTop (𝓝 0) := by
  by_cases h0 : alpha = 0
  · have hf : cgmyTailMass E1 Gam alpha u = fun v => E1 (u * v) := by funext v; simp [cgmyTailMass, h0]
    rw [hf]; exact hE1lim.comp (tendsto_mul_atTop u hu)
  · by_cases h1 : 1 ≤ alpha
    · have hf : cgmyTailMass E1 Gam alpha u
          = fun v => exp (-(u * v)) / (alpha * v ^ alpha) - u / alpha * cgmyTailLow E1 Gam (alpha - 1) u v := by
        funext v; simp [cgmyTailMass, h0, h1]
      rw [hf]
      have hA := (tendsto_rpow_exp (-alpha) u hu).const_mul (1 / alpha)
      have hB := (tendsto_cgmyTailLow E1 Gam hE1lim hGlim (alpha - 1) u hu).const_mul (u / alpha)
      have h := hA.sub hB
      simp only [mul_zero, sub_zero] at h
      refine h.congr' ?_
      filter_upwards [eventually_gt_atTop (0 : ℝ)] with x hx
      have hQ : 0 < x ^ alpha := rpow_pos_of_pos hx alpha
      rw [rpow_neg hx.le alpha]
      have hQ' := hQ.ne'
      field_simp
    · have hf : cgmyTailMass E1 Gam alpha u = cgmyTail0 (Gam alpha) alpha u := by
        funext v; simp [cgmyTailMass, h0, h1]
      rw [hf]; exact tendsto_cgmyTail0 (Gam alpha) (hGlim alpha) alpha u hu

theorem cgmyDensity_nonneg (c g m y x : ℝ) (hc : 0 ≤ c) : 0 ≤ cgmyDensity c g m y x := by
  unfold cgmyDensity
  split_ifs
  · exact div_nonneg (mul_nonneg hc (exp_pos _).le) (rpow_nonneg (abs_nonneg x) _)
  · exact div_nonneg (mul_nonneg hc (exp_pos _).le) (rpow_nonneg (abs_nonneg x) _)
  · exact le_rfl

/-- CGMY mass over (a, ∞), a > 0: `c · tail(y, m, a)` (cgmy.py:128-132, 237-239) -/
theorem integral_Ioi_cgmy_mass (E1 : ℝ → ℝ) (Gam : ℝ → ℝ → ℝ)
    (hE1 : ∀ x, 0 < x → HasDerivAt E1 (-exp (-x) / x) x)
    (hG : ∀ a z, 0 < z → HasDerivAt (Gam a) (-(z ^ (1 - a) * exp (-z))) z)
    (hE1lim : Tendsto E1 atTop (𝓝 0)) (hGlim : ∀ a, Tendsto (Gam a) atTop (𝓝 0))
    (c g m y : ℝ) (hc : 0 ≤ c) (hy : y < 2) (hm : 0 < m) (a : ℝ) (ha : 0 < a) :
    ∫ x in Ioi a, cgmyDensity c g m y x = c * cgmyTailMass E1 Gam y m a := by
  have hderiv : ∀ x ∈ Ici a, HasDerivAt (fun v => -c * cgmyTailMass E1 Gam y m v) (cgmyDensity c g m y x) x := by
    intro x hx
    have hx0 : 0 < x := lt_of_lt_of_le ha hx
    have h := (hasDerivAt_cgmyTailMass E1 Gam hE1 hG y m hy hm x hx0).const_mul (-c)
    refine h.congr_deriv ?_
    have h1 : ¬ x < 0 := not_lt.mpr hx0.le
    simp only [cgmyDensity, h1, hx0, if_true, if_false, abs_of_pos hx0]
    ring
  have hpos : ∀ x ∈ Ioi a, 0 ≤ cgmyDensity c g m y x := fun x _ => cgmyDensity_nonneg c g m y x hc
  have hl : Tendsto (fun v => -c * cgmyTailMass E1 Gam y m v) atTop (𝓝 (-c * 0)) :=
    (tendsto_cgmyTailMass E1 Gam hE1lim hGlim y m hm).const_mul (-c)
  rw [integral_Ioi_of_hasDerivAt_of_nonneg' hderiv hpos hl]
  ring

/-- CGMY mass over (−∞, b], b < 0: `c · tail(y, g, −b)` (cgmy.py:134-138, 241-243) -/
theorem integral_Iic_cgmy_mass (E1 : ℝ → ℝ) (Gam : ℝ → ℝ → ℝ)
    (hE1 : ∀ x, 0 < x → HasDerivAt E1 (-exp (-x) / x) x)
    (hG : ∀ a z, 0 < z → HasDerivAt (Gam a) (-(z ^ (1 - a) * exp (-z))) z)
    (hE1lim : Tendsto E1 atTop (𝓝 0)) (hGlim : ∀ a, Tendsto (Gam a) atTop (𝓝 0))
    (c g m y : ℝ) (hc : 0 ≤ c) (hy : y < 2) (hg : 0 < g) (b : ℝ) (hb : b < 0) :
    ∫ x in Iic b, cgmyDensity c g m y x = c * cgmyTailMass E1 Gam y g (-b) := by
  have hrefl : ∫ x in Iic b, cgmyDensity c g m y x = ∫ x in Iic b, (fun t => cgmyDensity c g g y t) (-x) := by
    apply setIntegral_congr_fun measurableSet_Iic
    intro x hx
    have hx0 : x < 0 := lt_of_le_of_lt hx hb
    have h1 : ¬ -x < 0 := by linarith
    have h2 : 0 < -x := by linarith
    simp only [cgmyDensity, hx0, h1, h2, if_true, if_false, abs_neg]
  rw [hrefl, integral_comp_neg_Iic b (fun t => cgmyDensity c g g y t),
    integral_Ioi_cgmy_mass E1 Gam hE1 hG hE1lim hGlim c g g y hc hy hg (-b) (by linarith)]

theorem cgmy_x_on_pos (c g m y x : ℝ) (hx : 0 < x) :
    x ^ 1 * cgmyDensity c g m y x = c * (exp (-(m * x)) * x ^ (-y)) := by
  have h1 : ¬ x < 0 := not_lt.mpr hx.le
  have hxy : x ^ (y + 1) = x ^ y * x := by rw [rpow_add hx, rpow_one]
  have hneg : x ^ (-y) = (x ^ y)⁻¹ := rpow_neg hx.le y
  have hxyne : x ^ y ≠ 0 := (rpow_pos_of_pos hx y).ne'
  simp only [cgmyDensity, h1, hx, if_true, if_false, abs_of_pos hx, pow_one]
  rw [hxy, hneg]
  field_simp

/-- CGMY first moment over (a, ∞), a > 0: `c · tailX(y, m, a)` (cgmy.py:150-152), every y < 2 (y = 1: exp1) -/
theorem integral_Ioi_cgmy_x (E1 : ℝ → ℝ) (Gam : ℝ → ℝ → ℝ)
    (hE1 : ∀ x, 0 < x → HasDerivAt E1 (-exp (-x) / x) x)
    (hG : ∀ a z, 0 < z → HasDerivAt (Gam a) (-(z ^ (1 - a) * exp (-z))) z)
    (hE1lim : Tendsto E1 atTop (𝓝 0)) (hGlim : ∀ a, Tendsto (Gam a) atTop (𝓝 0))
    (c g m y : ℝ) (hc : 0 ≤ c) (hm : 0 < m) (a : ℝ) (ha : 0 < a) :
    ∫ x in Ioi a, x ^ 1 * cgmyDensity c g m y x = c * cgmyTailXAll E1 Gam y m a := by
  have hderiv : ∀ x ∈ Ici a, HasDerivAt (fun v => -c * cgmyTailXAll E1 Gam y m v) (x ^ 1 * cgmyDensity c g m y x) x := by
    intro x hx
    have hx0 : 0 < x := lt_of_lt_of_le ha hx
    have h := (hasDerivAt_cgmyTailXAll E1 Gam hE1 hG y m hm x hx0).const_mul (-c)
    refine h.congr_deriv ?_
    rw [cgmy_x_on_pos c g m y x hx0]; ring
  have hpos : ∀ x ∈ Ioi a, 0 ≤ x ^ 1 * cgmyDensity c g m y x := by
    intro x hx
    have hx0 : 0 < x := lt_trans ha hx
    exact mul_nonneg (by positivity) (cgmyDensity_nonneg c g m y x hc)
  have hl : Tendsto (fun v => -c * cgmyTailXAll E1 Gam y m v) atTop (𝓝 (-c * 0)) :=
    (tendsto_cgmyTailXAll E1 Gam hE1lim hGlim y m hm).const_mul (-c)
  rw [integral_Ioi_of_hasDerivAt_of_nonneg' hderiv hpos hl]
  ring

/-- CGMY first moment over (−∞, b], b < 0: `−c · tailX(y, g, −b)` (cgmy.py:159-161) -/
theorem integral_Iic_cgmy_x (E1 : ℝ → ℝ) (Gam : ℝ → ℝ → ℝ)
    (hE1 : ∀ x, 0 < x → HasDerivAt E1 (-exp (-x) / x) x)
    (hG : ∀ a z, 0 < z → HasDerivAt (Gam a) (-(z ^ (1 - a) * exp (-z))) z)
    (hE1lim : Tendsto E1 atTop (𝓝 0)) (hGlim : ∀ a, Tendsto (Gam a) atTop (𝓝 0))
    (c g m y : ℝ) (hc : 0 ≤ c) (hg : 0 < g) (b : ℝ) (hb : b < 0) :
    ∫ x in Iic b, x ^ 1 * cgmyDensity c g m y x = -c * cgmyTailXAll E1 Gam y g (-b) := by
  have hrefl : ∫ x in Iic b, x ^ 1 * cgmyDensity c g m y x
      = ∫ x in Iic b, (fun t => -(t ^ 1 * cgmyDensity c g g y t)) (-x) := by
    apply setIntegral_congr_fun measurableSet_Iic
    intro x hx
    have hx0 : x < 0 := lt_of_le_of_lt hx hb
    have h1 : ¬ -x < 0 := by linarith
    have h2 : 0 < -x := by linarith
    simp only [cgmyDensity, hx0, h1, h2, if_true, if_false, abs_neg, pow_one]
    ring
  rw [hrefl, integral_comp_neg_Iic b (fun t => -(t ^ 1 * cgmyDensity c g g y t)), MeasureTheory.integral_neg,
    integral_Ioi_cgmy_x E1 Gam hE1 hG hE1lim hGlim c g g y hc hg (-b) (by linarith)]
  ring

/-- finite one-sided first moment with both branches of y (y = 1 included), positive side -/
theorem integral_cgmy_xall_pos (E1 : ℝ → ℝ) (Gam : ℝ → ℝ → ℝ)
    (hE1 : ∀ x, 0 < x → HasDerivAt E1 (-exp (-x) / x) x)
    (hG : ∀ a z, 0 < z → HasDerivAt (Gam a) (-(z ^ (1 - a) * exp (-z))) z)
    (c g m y : ℝ) (hm : 0 < m) (a b : ℝ) (ha : 0 < a) (hab : a ≤ b) :
    ∫ x in a..b, x ^ 1 * cgmyDensity c g m y x = c * (cgmyTailXAll E1 Gam y m a - cgmyTailXAll E1 Gam y m b) := by
  by_cases h1 : y = 1
  · subst h1
    simp only [cgmyTailXAll, if_true]
    exact integral_cgmy_x_y1_pos E1 hE1 c g m hm a b ha hab
  · simp only [cgmyTailXAll, h1, if_false]
    exact integral_cgmy_x_pos (Gam y) c g m y h1 hm (hG y) a b ha hab

/-- … negative side -/
theorem integral_cgmy_xall_neg (E1 : ℝ → ℝ) (Gam : ℝ → ℝ → ℝ)
    (hE1 : ∀ x, 0 < x → HasDerivAt E1 (-exp (-x) / x) x)
    (hG : ∀ a z, 0 < z → HasDerivAt (Gam a) (-(z ^ (1 - a) * exp (-z))) z)
    (c g m y : ℝ) (hg : 0 < g) (a b : ℝ) (hb : b < 0) (hab : a ≤ b) :
    ∫ x in a..b, x ^ 1 * cgmyDensity c g m y x = c * (cgmyTailXAll E1 Gam y g (-a) - cgmyTailXAll E1 Gam y g (-b)) := by
  have hrefl : ∫ x in a..b, x ^ 1 * cgmyDensity c g m y x
      = ∫ x in a..b, (fun t => -(t ^ 1 * cgmyDensity c g g y t)) (-x) := by
    apply intervalIntegral.integral_congr
    intro x hx
    rw [Set.uIcc_of_le hab] at hx
    have hx0 : x < 0 := lt_of_le_of_lt hx.2 hb
    have h1 : ¬ -x < 0 := by linarith
    have h2 : 0 < -x := by linarith
    simp only [cgmyDensity, hx0, h1, h2, if_true, if_false, abs_neg, pow_one]
    ring
  rw [hrefl, intervalIntegral.integral_comp_neg (fun t => -(t ^ 1 * cgmyDensity c g g y t)),
    intervalIntegral.integral_neg,
    integral_cgmy_xall_pos E1 Gam hE1 hG c g g y hg (-b) (-a) (by linarith) (by linarith)]
  ring

end Rpylib.Integrals
