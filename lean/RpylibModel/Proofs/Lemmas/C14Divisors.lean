/-
C14 helper lemmas: `multiplicity`, trial-division factorisation, and the mixed-radix digits of the offsets `0 … d(n)-1`
enumerate the divisors of `n` exactly once (the second half of `HyperbolicPairing`).
-/
import RpylibModel.Proofs.Lemmas.C14Lazy
import RpylibModel.Model.PairingHyperbolic
import Mathlib.Data.Nat.Prime.Basic
import Mathlib.Tactic.Ring

namespace Rpylib.Pairing

/-! ## `mult p m` is the exponent of `p` in `m` -/

theorem mult_spec (p : Nat) (hp : 1 < p) : ∀ m, 0 < m → p ^ mult p m ∣ m ∧ ¬ p ^ (mult p m + 1) ∣ m := by
  intro m
  induction m using Nat.strong_induction_on with
  | _ m ih =>
    intro hm
    rw [mult]
    by_cases h : 1 < p ∧ 0 < m ∧ m % p = 0
    · rw [dif_pos h]
      obtain ⟨k, rfl⟩ := Nat.dvd_of_mod_eq_zero h.2.2
      have hk : 0 < k := Nat.pos_of_mul_pos_left hm
      have e : p * k / p = k := Nat.mul_div_cancel_left k (by omega)
      rw [e]
      have hlt : k < p * k := by
        have : 2 * k ≤ p * k := Nat.mul_le_mul_right k hp
        omega
      obtain ⟨a, b⟩ := ih k hlt hk
      constructor
      · rw [Nat.pow_succ, Nat.mul_comm]; exact Nat.mul_dvd_mul_left p a
      · intro hc; apply b
        rw [show p ^ (mult p k + 1 + 1) = p * p ^ (mult p k + 1) from by rw [Nat.pow_succ, Nat.mul_comm]] at hc
        exact Nat.dvd_of_mul_dvd_mul_left (by omega) hc
    · rw [dif_neg h]
      simp only [Nat.pow_zero, Nat.zero_add, Nat.pow_one]
      exact ⟨Nat.one_dvd _, fun hc => h ⟨hp, hm, Nat.mod_eq_zero_of_dvd hc⟩⟩

theorem mult_unique (p : Nat) (hp : 1 < p) (m r : Nat) (hm : 0 < m) (h1 : p ^ r ∣ m) (h2 : ¬ p ^ (r + 1) ∣ m) :
    mult p m = r := by
  obtain ⟨a, b⟩ := mult_spec p hp m hm
  by_contra hne
  rcases Nat.lt_or_gt_of_ne hne with c | c
  · exact b (Nat.dvd_trans (Nat.pow_dvd_pow p (by omega)) h1)
  · exact h2 (Nat.dvd_trans (Nat.pow_dvd_pow p (by omega)) a)

theorem mult_pow_mul (p : Nat) (hp : 1 < p) (r m : Nat) (hm : 0 < m) (h : ¬ p ∣ m) : mult p (p ^ r * m) = r := by
  have hpos : 0 < p ^ r := Nat.pow_pos (by omega)
  apply mult_unique p hp _ r (Nat.mul_pos hpos hm) (Nat.dvd_mul_right _ _)
  intro hc
  rw [Nat.pow_succ] at hc
  exact h (Nat.dvd_of_mul_dvd_mul_left hpos hc)

theorem mult_mul_coprime (q : Nat) (hq : q.Prime) (c m : Nat) (hc : 0 < c) (hm : 0 < m) (h : ¬ q ∣ c) :
    mult q (c * m) = mult q m := by
  obtain ⟨a, b⟩ := mult_spec q hq.one_lt m hm
  apply mult_unique q hq.one_lt _ _ (Nat.mul_pos hc hm) (Dvd.dvd.mul_left a c)
  intro hd
  have cop : Nat.Coprime (q ^ (mult q m + 1)) c :=
    Nat.Coprime.pow_left _ ((Nat.Prime.coprime_iff_not_dvd hq).2 h)
  exact b (Nat.Coprime.dvd_of_dvd_mul_left cop hd)

theorem mult_decomp (p : Nat) (hp : 1 < p) (x : Nat) (hx : 0 < x) :
    p ^ mult p x * (x / p ^ mult p x) = x ∧ 0 < x / p ^ mult p x ∧ ¬ p ∣ x / p ^ mult p x := by
  obtain ⟨a, b⟩ := mult_spec p hp x hx
  have e : p ^ mult p x * (x / p ^ mult p x) = x := Nat.mul_div_cancel' a
  refine ⟨e, ?_, ?_⟩
  · apply Nat.pos_of_ne_zero
    intro h0; rw [h0, Nat.mul_zero] at e; omega
  · intro hd; apply b
    have : p ^ mult p x * p ∣ p ^ mult p x * (x / p ^ mult p x) := Nat.mul_dvd_mul_left _ hd
    rw [e] at this
    rw [Nat.pow_succ]; exact this

theorem mult_le_of_dvd (p : Nat) (hp : p.Prime) (x e N : Nat) (hx : 0 < x) (hN : ¬ p ∣ N) (h : x ∣ p ^ e * N) :
    mult p x ≤ e := by
  obtain ⟨a, _⟩ := mult_spec p hp.one_lt x hx
  have h1 : p ^ mult p x ∣ p ^ e * N := Nat.dvd_trans a h
  have cop : Nat.Coprime (p ^ mult p x) N := Nat.Coprime.pow_left _ ((Nat.Prime.coprime_iff_not_dvd hp).2 hN)
  have h2 : p ^ mult p x ∣ p ^ e := Nat.Coprime.dvd_of_dvd_mul_right cop h1
  exact (Nat.pow_dvd_pow_iff_le_right hp.one_lt).1 h2

/-! ## factorisations as lists `(prime, exponent)` with increasing primes -/

/-- the number a factorisation stands for -/
def nOf : List (Nat × Nat) → Nat
  | [] => 1
  | (p, e) :: fs => p ^ e * nOf fs

/-- primes, strictly increasing -/
def GoodF : List (Nat × Nat) → Prop
  | [] => True
  | (p, _) :: fs => Nat.Prime p ∧ (∀ qe ∈ fs, p < qe.1) ∧ GoodF fs

theorem nOf_pos : ∀ fs, GoodF fs → 0 < nOf fs
  | [], _ => by simp [nOf]
  | (p, e) :: fs, h => by
    simp only [nOf]
    exact Nat.mul_pos (Nat.pow_pos h.1.pos) (nOf_pos fs h.2.2)

theorem prime_dvd_nOf (q : Nat) (hq : q.Prime) : ∀ fs, GoodF fs → q ∣ nOf fs → ∃ qe ∈ fs, qe.1 = q
  | [], _, h => by
    simp only [nOf] at h
    have := Nat.le_of_dvd (by omega) h
    have := hq.one_lt; omega
  | (p, e) :: fs, hg, h => by
    simp only [nOf] at h
    rcases (Nat.Prime.dvd_mul hq).1 h with c | c
    · have := (Nat.prime_dvd_prime_iff_eq hq hg.1).1 (Nat.Prime.dvd_of_dvd_pow hq c)
      exact ⟨(p, e), by simp, this.symm⟩
    · obtain ⟨qe, hm, he⟩ := prime_dvd_nOf q hq fs hg.2.2 c
      exact ⟨qe, by simp [hm], he⟩

theorem head_not_dvd_nOf (p e : Nat) (fs : List (Nat × Nat)) (hg : GoodF ((p, e) :: fs)) : ¬ p ∣ nOf fs := by
  intro h
  obtain ⟨qe, hm, he⟩ := prime_dvd_nOf p hg.1 fs hg.2.2 h
  have := hg.2.1 qe hm
  omega

theorem goodF_prime : ∀ fs, GoodF fs → ∀ qe ∈ fs, Nat.Prime qe.1
  | [], _, qe, h => by simp at h
  | (p, e) :: fs, hg, qe, h => by
    rcases List.mem_cons.1 h with c | c
    · subst c; exact hg.1
    · exact goodF_prime fs hg.2.2 qe c

/-! ## the offset loop of `pairing2d` in recursive form -/

theorem hypEncode_cum (x : Nat) : ∀ (fs : List (Nat × Nat)) (cum : Nat),
    hypEncode x cum fs = cum * hypEncode x 1 fs
  | [], cum => by simp [hypEncode]
  | (p, e) :: fs, cum => by
    simp only [hypEncode]
    rw [hypEncode_cum x fs (cum * (e + 1)), hypEncode_cum x fs (1 * (e + 1))]
    ring

theorem hypEncode_cons (x p e : Nat) (fs : List (Nat × Nat)) :
    hypEncode x 1 ((p, e) :: fs) = mult p x + (e + 1) * hypEncode x 1 fs := by
  simp only [hypEncode]
  rw [hypEncode_cum x fs (1 * (e + 1)), Nat.one_mul, Nat.mul_one]

theorem hypEncode_mul : ∀ (fs : List (Nat × Nat)), GoodF fs → ∀ (c x : Nat), 0 < c → 0 < x →
    (∀ qe ∈ fs, ¬ qe.1 ∣ c) → hypEncode (c * x) 1 fs = hypEncode x 1 fs
  | [], _, c, x, _, _, _ => by simp [hypEncode]
  | (p, e) :: fs, hg, c, x, hc, hx, h => by
    rw [hypEncode_cons, hypEncode_cons, mult_mul_coprime p hg.1 c x hc hx (h (p, e) (by simp)),
      hypEncode_mul fs hg.2.2 c x hc hx (fun qe hm => h qe (by simp [hm]))]

/-! ## mixed radix digits ↔ divisors -/

theorem radices_cons (p e : Nat) (fs : List (Nat × Nat)) : radices ((p, e) :: fs) = (e + 1) :: radices fs := rfl

/-- (a) every offset below `Π (e_i + 1)` decodes to a divisor, and the pairing's loop encodes it back -/
theorem decode_spec : ∀ (fs : List (Nat × Nat)), GoodF fs → ∀ off, off < prodL (radices fs) →
    prodPow fs (lazyNth (radices fs) off) ∣ nOf fs ∧ 0 < prodPow fs (lazyNth (radices fs) off) ∧
    hypEncode (prodPow fs (lazyNth (radices fs) off)) 1 fs = off
  | [], _, off, h => by
    simp only [radices, List.map_nil, prodL] at h
    simp [prodPow, nOf, hypEncode]; omega
  | (p, e) :: fs, hg, off, h => by
    rw [radices_cons] at h ⊢
    simp only [prodL] at h
    rw [lazyNth_cons]
    simp only [prodPow, nOf]
    have hq : off / (e + 1) < prodL (radices fs) := Nat.div_lt_of_lt_mul h
    obtain ⟨a, b, c⟩ := decode_spec fs hg.2.2 (off / (e + 1)) hq
    generalize prodPow fs (lazyNth (radices fs) (off / (e + 1))) = x' at a b c
    have hr : off % (e + 1) ≤ e := by have := Nat.mod_lt off (by omega : 0 < e + 1); omega
    have hnd : ¬ p ∣ x' := fun hd => head_not_dvd_nOf p e fs hg (Nat.dvd_trans hd a)
    have hpos : 0 < p ^ (off % (e + 1)) := Nat.pow_pos hg.1.pos
    refine ⟨Nat.mul_dvd_mul (Nat.pow_dvd_pow p hr) a, Nat.mul_pos hpos b, ?_⟩
    rw [hypEncode_cons, mult_pow_mul p hg.1.one_lt _ x' b hnd, hypEncode_mul fs hg.2.2 _ x' hpos b, c]
    · exact Nat.mod_add_div off (e + 1)
    · intro qe hm hd
      have hqp := goodF_prime fs hg.2.2 qe hm
      have := (Nat.prime_dvd_prime_iff_eq hqp hg.1).1 (Nat.Prime.dvd_of_dvd_pow hqp hd)
      have := hg.2.1 qe hm
      omega

/-- (b) every divisor encodes to an offset below `Π (e_i + 1)` that decodes back to it -/
theorem encode_spec : ∀ (fs : List (Nat × Nat)), GoodF fs → ∀ x, x ∣ nOf fs →
    hypEncode x 1 fs < prodL (radices fs) ∧ prodPow fs (lazyNth (radices fs) (hypEncode x 1 fs)) = x
  | [], _, x, h => by
    simp only [nOf] at h
    have : x = 1 := Nat.eq_one_of_dvd_one h
    simp [hypEncode, radices, prodL, prodPow, this]
  | (p, e) :: fs, hg, x, h => by
    simp only [nOf] at h
    have hN := nOf_pos fs hg.2.2
    have hx : 0 < x := Nat.pos_of_dvd_of_pos h (Nat.mul_pos (Nat.pow_pos hg.1.pos) hN)
    obtain ⟨d1, d2, d3⟩ := mult_decomp p hg.1.one_lt x hx
    have hnN := head_not_dvd_nOf p e fs hg
    have hr : mult p x ≤ e := mult_le_of_dvd p hg.1 x e (nOf fs) hx hnN h
    generalize hr' : mult p x = r at *
    generalize hx' : x / p ^ r = x' at *
    have hx'N : x' ∣ nOf fs := by
      have h1 : x' ∣ p ^ e * nOf fs := Nat.dvd_trans ⟨p ^ r, by rw [← d1, Nat.mul_comm]⟩ h
      have cop : Nat.Coprime x' (p ^ e) :=
        (Nat.Coprime.pow_left e ((Nat.Prime.coprime_iff_not_dvd hg.1).2 d3)).symm
      exact Nat.Coprime.dvd_of_dvd_mul_left cop h1
    obtain ⟨i1, i2⟩ := encode_spec fs hg.2.2 x' hx'N
    have hpos : 0 < p ^ r := Nat.pow_pos hg.1.pos
    have henc : hypEncode x 1 fs = hypEncode x' 1 fs := by
      rw [← d1]
      apply hypEncode_mul fs hg.2.2 _ x' hpos d2
      intro qe hm hd
      have hqp := goodF_prime fs hg.2.2 qe hm
      have := (Nat.prime_dvd_prime_iff_eq hqp hg.1).1 (Nat.Prime.dvd_of_dvd_pow hqp hd)
      have := hg.2.1 qe hm
      omega
    rw [hypEncode_cons, hr', henc, radices_cons]
    generalize hypEncode x' 1 fs = k at i1 i2
    simp only [prodL]
    constructor
    · calc r + (e + 1) * k < (e + 1) * (k + 1) := by rw [Nat.mul_add, Nat.mul_one]; omega
        _ ≤ (e + 1) * prodL (radices fs) := Nat.mul_le_mul_left _ i1
    · rw [lazyNth_cons]
      simp only [prodPow]
      have e1 : (r + (e + 1) * k) % (e + 1) = r := by
        rw [Nat.add_mul_mod_self_left]; exact Nat.mod_eq_of_lt (by omega)
      have e2 : (r + (e + 1) * k) / (e + 1) = k := by
        rw [Nat.add_mul_div_left _ _ (Nat.succ_pos e), Nat.div_eq_of_lt (by omega), Nat.zero_add]
      rw [e1, e2, i2, d1]

/-! ## the trial division is a factorisation -/

theorem prime_of_no_small_factor (n p : Nat) (hn : 2 ≤ n) (hsmall : ∀ q, q.Prime → q ∣ n → p ≤ q) (hlt : n < p * p) :
    n.Prime ∧ p ≤ n := by
  have hq := Nat.minFac_prime (n := n) (by omega)
  have hp := hsmall _ hq (Nat.minFac_dvd n)
  have hle : n.minFac ≤ n := Nat.minFac_le (by omega)
  refine ⟨?_, by omega⟩
  by_contra hnp
  have h2 := Nat.minFac_sq_le_self (by omega : 0 < n) hnp
  have : p * p ≤ n.minFac * n.minFac := Nat.mul_le_mul hp hp
  rw [Nat.pow_two] at h2
  omega

/-- what the trial division returns: increasing primes, all `≥ lo`, whose powers multiply to `n` -/
def FSpec (lo : Nat) (fs : List (Nat × Nat)) (n : Nat) : Prop :=
  GoodF fs ∧ (∀ qe ∈ fs, lo ≤ qe.1) ∧ nOf fs = n

theorem factorFrom_spec : ∀ (fuel n p : Nat), 1 ≤ n → 2 ≤ p → (∀ q, q.Prime → q ∣ n → p ≤ q) →
    n < (p + fuel) * (p + fuel) → FSpec p (factorFrom n p fuel) n := by
  intro fuel
  induction fuel with
  | zero =>
    intro n p hn hp hsmall hlt
    simp only [factorFrom]
    by_cases c : n ≤ 1
    · simp only [c, if_true]
      exact ⟨trivial, by simp, by simp [nOf]; omega⟩
    · simp only [c, if_false]
      obtain ⟨a, b⟩ := prime_of_no_small_factor n p (by omega) hsmall (by simpa using hlt)
      exact ⟨⟨a, by simp, trivial⟩, by simpa using b, by simp [nOf]⟩
  | succ fuel ih =>
    intro n p hn hp hsmall hlt
    simp only [factorFrom]
    by_cases c : n ≤ 1
    · simp only [c, if_true]
      exact ⟨trivial, by simp, by simp [nOf]; omega⟩
    simp only [c, if_false]
    by_cases c2 : n < p * p
    · simp only [c2, if_true]
      obtain ⟨a, b⟩ := prime_of_no_small_factor n p (by omega) hsmall c2
      exact ⟨⟨a, by simp, trivial⟩, by simpa using b, by simp [nOf]⟩
    simp only [c2, if_false]
    by_cases c3 : n % p = 0
    · simp only [c3, if_true]
      have hdvd : p ∣ n := Nat.dvd_of_mod_eq_zero c3
      have hpp : p.Prime := by
        have hq := Nat.minFac_prime (n := p) (by omega)
        have h1 := hsmall _ hq (Nat.dvd_trans (Nat.minFac_dvd p) hdvd)
        have h2 : p.minFac ≤ p := Nat.minFac_le (by omega)
        have : p.minFac = p := by omega
        rw [← this]; exact hq
      obtain ⟨d1, d2, d3⟩ := mult_decomp p (by omega) n (by omega)
      have hn'le : n / p ^ mult p n ≤ n := Nat.div_le_self _ _
      have hsm' : ∀ q, q.Prime → q ∣ n / p ^ mult p n → p + 1 ≤ q := by
        intro q hq hd
        have h1 : q ∣ n := by
          rw [← d1]; exact Dvd.dvd.mul_left hd _
        have := hsmall q hq h1
        have hne : q ≠ p := by intro he; subst he; exact d3 hd
        omega
      obtain ⟨g1, g2, g3⟩ := ih (n / p ^ mult p n) (p + 1) d2 (by omega) hsm' (by
        have : p + 1 + fuel = p + (fuel + 1) := by omega
        rw [this]; omega)
      refine ⟨⟨hpp, fun qe hm => ?_, g1⟩, fun qe hm => ?_, ?_⟩
      · have := g2 qe hm; omega
      · rcases List.mem_cons.1 hm with e | e
        · subst e; exact Nat.le_refl _
        · have := g2 qe e; omega
      · simp only [nOf]; rw [g3]; exact d1
    · simp only [c3, if_false]
      have hsm' : ∀ q, q.Prime → q ∣ n → p + 1 ≤ q := by
        intro q hq hd
        have := hsmall q hq hd
        have hne : q ≠ p := by intro he; subst he; exact c3 (Nat.mod_eq_zero_of_dvd hd)
        omega
      obtain ⟨g1, g2, g3⟩ := ih n (p + 1) hn (by omega) hsm' (by
        have : p + 1 + fuel = p + (fuel + 1) := by omega
        rw [this]; exact hlt)
      exact ⟨g1, fun qe hm => by have := g2 qe hm; omega, g3⟩

/-- `factor n` is the prime factorisation of `n ≥ 1` with increasing primes -/
theorem factor_spec (n : Nat) (hn : 1 ≤ n) : GoodF (factor n) ∧ nOf (factor n) = n := by
  have h := factorFrom_spec n n 2 hn (by omega) (fun q hq _ => hq.two_le) (by nlinarith)
  exact ⟨h.1, h.2.2⟩

end Rpylib.Pairing
