/-
C15 helper lemmas for the exact domains (iff statements) of the full running-sum / step-cap statements.
-/
import RpylibModel.Model.Path
import RpylibModel.Proofs.Lemmas.C15Lists
import Mathlib.Tactic.Linarith
import Mathlib.Tactic.Ring
import Mathlib.Algebra.Order.Field.Rat

namespace Rpylib.Path

/-- a list is its own cumulative sum continued from `acc` exactly when it is empty, or `acc = 0` and every entry but
    the last is 0 -/
theorem eq_cumsumFrom_iff (xs : List Rat) : ∀ acc : Rat,
    xs = cumsumFrom acc xs ↔ (xs = [] ∨ (acc = 0 ∧ zeroButLast xs = true)) := by
  induction xs with
  | nil => intro acc; simp [cumsumFrom]
  | cons x t ih =>
    intro acc
    cases t with
    | nil =>
      simp only [cumsumFrom, zeroButLast, List.cons.injEq, and_true, reduceCtorEq, false_or]
      constructor
      · intro h; linarith
      · intro h; rw [h]; ring
    | cons y r =>
      have ih' := ih (acc + x)
      simp only [reduceCtorEq, false_or] at ih'
      simp only [reduceCtorEq, false_or, zeroButLast, Bool.and_eq_true, decide_eq_true_eq]
      rw [show cumsumFrom acc (x :: y :: r) = (acc + x) :: cumsumFrom (acc + x) (y :: r) from rfl, List.cons.injEq, ih']
      constructor
      · rintro ⟨h1, h2, h3⟩
        have ha : acc = 0 := by linarith
        exact ⟨ha, by rw [ha] at h2; linarith, h3⟩
      · rintro ⟨ha, hx, h3⟩
        subst ha; subst hx
        exact ⟨by ring, by ring, h3⟩

theorem zeroButLast_iff (xs : List Rat) : zeroButLast xs = true ↔ ∀ x ∈ xs.dropLast, x = 0 := by
  induction xs with
  | nil => simp [zeroButLast]
  | cons x t ih =>
    cases t with
    | nil => simp [zeroButLast]
    | cons y r =>
      simp only [zeroButLast, Bool.and_eq_true, decide_eq_true_eq, ih, List.dropLast_cons_cons, List.mem_cons,
        forall_eq_or_imp]

theorem cumsumFrom_eq_iff (s : List Rat) (a b : Rat) : cumsumFrom a s = cumsumFrom b s ↔ (s = [] ∨ a = b) := by
  cases s with
  | nil => simp [cumsumFrom]
  | cons x t =>
    simp only [cumsumFrom, List.cons.injEq, reduceCtorEq, false_or]
    constructor
    · rintro ⟨h, _⟩; linarith
    · rintro rfl; exact ⟨rfl, rfl⟩

/-- per-interval cumulative sums concatenated = one cumulative sum continued from `acc`, exactly on `restartFreeB` -/
theorem flatMap_cumsum_eq_iff (ss : List (List Rat)) : ∀ acc : Rat,
    ss.flatMap cumsum = cumsumFrom acc ss.flatten ↔ restartFreeB acc ss = true := by
  induction ss with
  | nil => intro acc; simp [cumsumFrom, restartFreeB]
  | cons s r ih =>
    intro acc
    simp only [List.flatMap_cons, List.flatten_cons, cumsumFrom_append, restartFreeB, Bool.and_eq_true,
      Bool.or_eq_true, List.isEmpty_iff, decide_eq_true_eq]
    have key : ∀ X Y : List Rat, (cumsum s ++ X = cumsumFrom acc s ++ Y) ↔ (cumsum s = cumsumFrom acc s ∧ X = Y) := by
      intro X Y
      constructor
      · intro h; exact List.append_inj h (by simp [cumsum])
      · rintro ⟨a, b⟩; rw [a, b]
    rw [key, ← ih (acc + sumL s)]
    unfold cumsum
    rw [cumsumFrom_eq_iff]
    constructor
    · rintro ⟨h1, h2⟩
      exact ⟨h1.imp id (fun h => h.symm), h2⟩
    · rintro ⟨h1, h2⟩
      exact ⟨h1.imp id (fun h => h.symm), h2⟩

/-- readable form of `restartFreeB`: before every interval that has a jump the carried total is 0 -/
theorem restartFreeB_iff (ss : List (List Rat)) : ∀ acc : Rat,
    restartFreeB acc ss = true ↔ ∀ k (hk : k < ss.length), ss[k] ≠ [] → acc + sumL (ss.take k).flatten = 0 := by
  induction ss with
  | nil => intro acc; simp [restartFreeB]
  | cons s r ih =>
    intro acc
    simp only [restartFreeB, Bool.and_eq_true, Bool.or_eq_true, List.isEmpty_iff, decide_eq_true_eq, ih]
    constructor
    · rintro ⟨h0, h1⟩ k hk hne
      cases k with
      | zero =>
        simp only [List.getElem_cons_zero] at hne
        rcases h0 with h0 | h0
        · exact absurd h0 hne
        · simp [sumL, h0]
      | succ k =>
        have := h1 k (by simpa using hk) (by simpa using hne)
        simp only [List.take_succ_cons, List.flatten_cons, sumL_append]
        linarith
    · intro h
      constructor
      · by_cases hs : s = []
        · exact Or.inl hs
        · right
          have := h 0 (by simp) (by simpa using hs)
          simpa [sumL] using this
      · intro k hk hne
        have := h (k + 1) (by simpa using hk) (by simpa using hne)
        simp only [List.take_succ_cons, List.flatten_cons, sumL_append] at this
        linarith

/-! ### steps of a strictly increasing time list are bounded by its span -/

theorem le_lastD_of_pairwise (y : Rat) (t : List Rat) (h : (y :: t).Pairwise (· < ·)) : y ≤ lastD y t := by
  induction t generalizing y with
  | nil => simp [lastD]
  | cons z r ih =>
    rw [List.pairwise_cons] at h
    have hz : y < z := h.1 z (by simp)
    have := ih z h.2
    simp only [lastD]; linarith

theorem diffsFrom_le_span (p : Rat) (l : List Rat) (h : (p :: l).Pairwise (· < ·)) :
    ∀ x ∈ diffsFrom p l, x ≤ lastD p l - p := by
  induction l generalizing p with
  | nil => intro x hx; simp [diffsFrom] at hx
  | cons y t ih =>
    intro x hx
    rw [List.pairwise_cons] at h
    have hy : p < y := h.1 y (by simp)
    have hl := le_lastD_of_pairwise y t h.2
    simp only [diffsFrom, List.mem_cons] at hx
    simp only [lastD]
    rcases hx with rfl | hx
    · linarith
    · have := ih y h.2 x hx; linarith

end Rpylib.Path
