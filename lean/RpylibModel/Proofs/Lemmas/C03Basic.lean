/-
Helper lemmas for C03 (1-d): points and cells of a refined axis, the half-cell decomposition of an odd fine cell,
collapse of the sum over fine states.
-/
import RpylibModel.Model.Coupling
import RpylibModel.Proofs.C01
import Mathlib.Tactic.Linarith
import Mathlib.Tactic.Ring
import Mathlib.Tactic.FieldSimp
import Mathlib.Algebra.Order.Field.Rat
import Mathlib.Algebra.BigOperators.Intervals

set_option linter.dupNamespace false
set_option linter.unusedSectionVars false
set_option linter.unusedVariables false

namespace Rpylib.Coupling
open Rpylib.Grid Rpylib.Cells Finset

/-! ### points of the refined axis -/

theorem pt_eq (ax : List ℚ) (k : ℕ) : pt ax k = (ax[k]?).getD 0 := by
  unfold pt; rw [List.getD_eq_getElem?_getD]

theorem pt_of_some (ax : List ℚ) (k : ℕ) (hk : k < ax.length) : ax[k]? = some (pt ax k) := by
  rw [pt_eq, List.getElem?_eq_getElem hk]; rfl

/-- old states are kept at twice their index -/
theorem pt_refine_even (mid : ℚ → ℚ → ℚ) (ax : List ℚ) (j : ℕ) : pt (refine mid ax) (2 * j) = pt ax j := by
  rw [pt_eq, pt_eq, refine_even_old]

/-- the new state between the old states j and j+1 is the grid's own cell boundary of that gap -/
theorem pt_refine_odd (mid : ℚ → ℚ → ℚ) (ax : List ℚ) (j : ℕ) (hj : j + 1 < ax.length) :
    pt (refine mid ax) (2 * j + 1) = mid (pt ax j) (pt ax (j + 1)) := by
  rw [pt_eq, refine_odd_is_mid mid ax j _ _ (pt_of_some ax j (by omega)) (pt_of_some ax (j + 1) hj)]; rfl

theorem refine_len (mid : ℚ → ℚ → ℚ) (ax : List ℚ) : (refine mid ax).length = 2 * ax.length - 1 :=
  refine_length mid ax

/-! ### cells of the coarse axis are bounded by odd fine states -/

/-- lower boundary of the coarse cell j > 0 = the fine state 2j-1 -/
theorem coarse_cellLo (mid : ℚ → ℚ → ℚ) (ax : List ℚ) (j : ℕ) (h0 : 0 < j) (hj : j < ax.length) :
    cellLo mid ax j = pt (refine mid ax) (2 * j - 1) := by
  obtain ⟨i, rfl⟩ : ∃ i, j = i + 1 := ⟨j - 1, by omega⟩
  rw [cellLo_succ, show 2 * (i + 1) - 1 = 2 * i + 1 by omega, pt_refine_odd mid ax i hj]

/-- upper boundary of the coarse cell j (not the last one) = the fine state 2j+1 -/
theorem coarse_cellHi (mid : ℚ → ℚ → ℚ) (ax : List ℚ) (j : ℕ) (hj : j + 1 < ax.length) :
    cellHi mid ax j = pt (refine mid ax) (2 * j + 1) := by
  unfold cellHi; rw [cellHiN_lt mid _ ax j hj, pt_refine_odd mid ax j hj]

/-! ### arithmetic of one split cell -/

/-- `(L + R) * (R / (L + R)) = R` for non-negative parts, the zero cell included -/
theorem split_right (L R : ℚ) (hL : 0 ≤ L) (hR : 0 ≤ R) :
    (if L + R = 0 then 0 else (L + R) * (R / (L + R))) = R := by
  split_ifs with h
  · linarith
  · field_simp

theorem split_left (L R : ℚ) (hL : 0 ≤ L) (hR : 0 ≤ R) :
    (if L + R = 0 then 0 else (L + R) * (1 - R / (L + R))) = L := by
  split_ifs with h
  · linarith
  · field_simp; ring

section axis
variable (mid : ℚ → ℚ → ℚ) (hm : Between mid) (hi : MidIdem mid) (ax : List ℚ) (o : ℕ) (hax : AxisOK ax o)
  (m : ℚ → ℚ → ℚ) (hM : IsMass m)
include hm hi hax hM

/-- a non-origin cell is the disjoint union of its two halves -/
theorem rate_split (k : ℕ) (hk : k < ax.length) (hko : k ≠ o) :
    rate mid ax o m k = valLeft mid ax m k + valRight mid ax m k ∧ 0 ≤ valLeft mid ax m k ∧ 0 ≤ valRight mid ax m k := by
  have h1 := cellLo_le_pt mid hm hi ax hax.inc k hk
  have h2 : pt ax k ≤ cellHi mid ax k := pt_le_cellHi mid hm hi ax hax.inc k hk
  have haw := cell_away mid hm hi ax o hax k hk hko
  refine ⟨?_, ?_, ?_⟩
  · unfold rate valLeft valRight; rw [if_neg hko]
    exact hM.add _ _ _ h1 h2 haw
  · exact hM.nonneg _ _ h1 (away_sub haw (le_refl _) h2)
  · exact hM.nonneg _ _ h2 (away_sub haw h1 (le_refl _))

/-- the rate sent to the right neighbour is the mass of the right half cell (zero cells included) -/
theorem sentRight_eq (k : ℕ) (hk : k < ax.length) (hko : k ≠ o) :
    sentRight mid ax o m k = valRight mid ax m k := by
  obtain ⟨e, hL, hR⟩ := rate_split mid hm hi ax o hax m hM k hk hko
  unfold sentRight pRight; rw [e]
  exact split_right _ _ hL hR

theorem sentLeft_eq (k : ℕ) (hk : k < ax.length) (hko : k ≠ o) :
    sentLeft mid ax o m k = valLeft mid ax m k := by
  obtain ⟨e, hL, hR⟩ := rate_split mid hm hi ax o hax m hM k hk hko
  unfold sentLeft pRight; rw [e]
  exact split_left _ _ hL hR

end axis

/-! ### collapse of the sum over fine states -/

theorem flow1d_even_target (mid : ℚ → ℚ → ℚ) (ax : List ℚ) (o : ℕ) (m : ℚ → ℚ → ℚ) (k j : ℕ) :
    flow1d mid ax o m k (2 * j) =
      (if k = 2 * j then rate mid ax o m k else 0) + (if k + 1 = 2 * j then sentRight mid ax o m k else 0) +
        (if k = 2 * j + 1 then sentLeft mid ax o m k else 0) := by
  unfold flow1d
  by_cases hk : k % 2 = 0
  · rw [if_pos hk, if_neg (by omega : ¬ k + 1 = 2 * j), if_neg (by omega : ¬ k = 2 * j + 1)]; ring
  · rw [if_neg hk, if_neg (by omega : ¬ k = 2 * j)]; ring

/-- the coupled rate of the even fine index 2j has at most three non-zero terms -/
theorem coupledRate_three (mid : ℚ → ℚ → ℚ) (ax : List ℚ) (o : ℕ) (m : ℚ → ℚ → ℚ) (j : ℕ) (hj : 2 * j < ax.length) :
    coupledRate mid ax o m (2 * j) =
      rate mid ax o m (2 * j) + (if 0 < j then sentRight mid ax o m (2 * j - 1) else 0) +
        (if 2 * j + 1 < ax.length then sentLeft mid ax o m (2 * j + 1) else 0) := by
  unfold coupledRate
  rw [sum_map_range, sum_congr rfl (fun k _ => flow1d_even_target mid ax o m k j), sum_add_distrib, sum_add_distrib,
    sum_ite_eq' (range ax.length) (2 * j) (fun k => rate mid ax o m k), if_pos (mem_range.mpr hj)]
  congr 1
  · congr 1
    by_cases h0 : 0 < j
    · rw [if_pos h0]
      have : ∀ k ∈ range ax.length, (if k + 1 = 2 * j then sentRight mid ax o m k else 0) =
          (if k = 2 * j - 1 then sentRight mid ax o m k else 0) := by
        intro k _; congr 1; apply propext; omega
      rw [sum_congr rfl this, sum_ite_eq' (range ax.length) (2 * j - 1) (fun k => sentRight mid ax o m k),
        if_pos (mem_range.mpr (by omega))]
    · rw [if_neg h0]
      apply sum_eq_zero; intro k _; rw [if_neg (by omega)]
  · rw [sum_ite_eq' (range ax.length) (2 * j + 1) (fun k => sentLeft mid ax o m k)]
    by_cases h : 2 * j + 1 < ax.length
    · rw [if_pos h, if_pos (mem_range.mpr h)]
    · rw [if_neg h, if_neg (by rw [mem_range]; exact h)]

end Rpylib.Coupling
