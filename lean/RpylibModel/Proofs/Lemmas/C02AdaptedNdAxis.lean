/-
Helper lemmas for C02, n-dimensional adapted binary search: axis buckets (exactly one non-degenerate range).  Their
precomputed vector is the cumsum of the cell masses along the axis; with an additive `M` it ends at the box mass and
gives every state of the box the mass of its own cell.
-/
import RpylibModel.Model.Samplers.AdaptedNd
import RpylibModel.Proofs.Lemmas.C02AdaptedNdLaw
import Mathlib.Tactic.Linarith
import Mathlib.Tactic.Ring
import Mathlib.Algebra.Order.Field.Rat

namespace Rpylib.AdaptedNd

/-- the box `pre × [x, y] × post` -/
def B (pre post : Box) (x y : Nat) : Box := pre ++ (x, y) :: post

theorem allDeg_of_filter_nil : ∀ b : Box, b.filter (fun lr => lr.1 != lr.2) = [] → allDeg b = true := by
  intro b
  induction b with
  | nil => intro _; rfl
  | cons a b ih =>
    intro h
    obtain ⟨l, r⟩ := a
    by_cases hlr : l = r
    · subst hlr
      rw [List.filter_cons_of_neg (by simp)] at h
      exact (allDeg_cons _ _).mpr ⟨rfl, ih h⟩
    · rw [List.filter_cons_of_pos (by simpa using hlr)] at h; cases h

/-- an axis box is `pre × [l, r] × post` with degenerate `pre`, `post` and `l ≠ r` -/
theorem axis_shape : ∀ b : Box, (b.filter (fun lr => lr.1 != lr.2)).length = 1 →
    ∃ pre post l r, b = B pre post l r ∧ allDeg pre = true ∧ allDeg post = true ∧ l ≠ r := by
  intro b
  induction b with
  | nil => intro h; simp at h
  | cons a b ih =>
    intro h
    obtain ⟨l, r⟩ := a
    by_cases hlr : l = r
    · subst hlr
      rw [List.filter_cons_of_neg (by simp)] at h
      obtain ⟨pre, post, l', r', e, h1, h2, h3⟩ := ih h
      exact ⟨(l, l) :: pre, post, l', r', by rw [e]; rfl, (allDeg_cons _ _).mpr ⟨rfl, h1⟩, h2, h3⟩
    · rw [List.filter_cons_of_pos (by simpa using hlr), List.length_cons] at h
      have hnil : b.filter (fun lr => lr.1 != lr.2) = [] := List.eq_nil_of_length_eq_zero (by omega)
      exact ⟨[], b, l, r, rfl, rfl, allDeg_of_filter_nil b hnil, hlr⟩

theorem axisState_deg : ∀ (b : Box) (j : Nat), allDeg b = true → axisState b j = corner b := by
  intro b
  induction b with
  | nil => intro _ _; rfl
  | cons a b ih =>
    intro j h
    obtain ⟨l, r⟩ := a
    obtain ⟨h1, h2⟩ := (allDeg_cons _ _).mp h
    simp only at h1
    simp only [axisState, corner, List.map_cons, if_pos h1, List.cons.injEq, true_and]
    exact ih j h2

theorem fuelOf_deg : ∀ b : Box, allDeg b = true → fuelOf b = 0 := by
  intro b
  induction b with
  | nil => intro _; rfl
  | cons a b ih =>
    intro h
    obtain ⟨l, r⟩ := a
    obtain ⟨h1, h2⟩ := (allDeg_cons _ _).mp h
    simp only at h1
    have := ih h2
    simp only [fuelOf, List.map_cons, List.sum_cons] at this ⊢
    omega

theorem axisState_B (pre post : Box) (x y j : Nat) (h1 : allDeg pre = true) (h2 : allDeg post = true) (hxy : x ≠ y) :
    axisState (B pre post x y) j = corner pre ++ (x + j) :: corner post := by
  have e1 := axisState_deg pre j h1
  have e2 := axisState_deg post j h2
  simp only [axisState, B, List.map_append, List.map_cons, if_neg hxy] at e1 e2 ⊢
  rw [e1, e2]

theorem fuelOf_B (pre post : Box) (x y : Nat) (h1 : allDeg pre = true) (h2 : allDeg post = true) :
    fuelOf (B pre post x y) = y - x := by
  have e1 := fuelOf_deg pre h1
  have e2 := fuelOf_deg post h2
  simp only [fuelOf, B, List.map_append, List.map_cons, List.sum_append, List.sum_cons] at e1 e2 ⊢
  omega

theorem point_B (pre post : Box) (z : Nat) (h1 : allDeg pre = true) (h2 : allDeg post = true) :
    point (corner pre ++ z :: corner post) = B pre post z z := by
  have e1 := allDeg_point pre h1
  have e2 := allDeg_point post h2
  simp only [point, B, List.map_append, List.map_cons] at e1 e2 ⊢
  rw [e1, e2]

theorem inBox_B : ∀ (pre post : Box) (x y : Nat) (s : List Nat), allDeg pre = true → allDeg post = true →
    (inBox s (B pre post x y) = true ↔ ∃ z, x ≤ z ∧ z ≤ y ∧ s = corner pre ++ z :: corner post) := by
  intro pre
  induction pre with
  | nil =>
    intro post x y s _ h2
    cases s with
    | nil => simp [B, inBox]
    | cons v vs =>
      simp only [B, List.nil_append, inBox, Bool.and_eq_true, decide_eq_true_eq, allDeg_inBox post vs h2, corner,
        List.map_nil, List.cons.injEq]
      constructor
      · rintro ⟨⟨a, b⟩, c⟩; exact ⟨v, a, b, rfl, c.symm⟩
      · rintro ⟨z, a, b, rfl, c⟩; exact ⟨⟨a, b⟩, c.symm⟩
  | cons p pre ih =>
    intro post x y s h1 h2
    obtain ⟨l, r⟩ := p
    obtain ⟨h3, h4⟩ := (allDeg_cons _ _).mp h1
    simp only at h3; subst h3
    cases s with
    | nil => simp [B, inBox]
    | cons v vs =>
      have := ih post x y vs h4 h2
      simp only [B] at this
      simp only [B, List.cons_append, inBox, Bool.and_eq_true, decide_eq_true_eq, this, corner, List.map_cons,
        List.cons.injEq]
      constructor
      · rintro ⟨⟨a, b⟩, z, c, d, e⟩; exact ⟨z, c, d, by omega, e⟩
      · rintro ⟨z, c, d, a, e⟩; exact ⟨⟨by omega, by omega⟩, z, c, d, e⟩

theorem B_get (pre post : Box) (x y : Nat) : (B pre post x y)[pre.length]? = some (x, y) := by
  simp [B]

theorem B_set (pre post : Box) (x y x' y' : Nat) : (B pre post x y).set pre.length (x', y') = B pre post x' y' := by
  simp [B]

/-- additivity along one axis: the mass of `pre × [x, y] × post` is the sum of the masses of its cells -/
theorem mass_axis_sum (M : Box → Rat) (hadd : Additive M) (pre post : Box) : ∀ (d x y : Nat), y - x = d → x ≤ y →
    M (B pre post x y) = ((List.range' x (y - x + 1)).map (fun z => M (B pre post z z))).sum := by
  intro d
  induction d using Nat.strong_induction_on with
  | _ d ih =>
    intro x y hd hxy
    by_cases he : x = y
    · subst he; simp
    · have hlt : x < y := by omega
      have hA := hadd (B pre post x y) pre.length x y (B_get pre post x y) hlt
      rw [B_set, B_set] at hA
      have h1 := ih ((x + y) / 2 - x) (by omega) x ((x + y) / 2) rfl (by omega)
      have h2 := ih (y - ((x + y) / 2 + 1)) (by omega) ((x + y) / 2 + 1) y rfl (by omega)
      rw [hA, h1, h2, ← List.sum_append, ← List.map_append]
      congr 2
      have e : y - x + 1 = ((x + y) / 2 - x + 1) + (y - ((x + y) / 2 + 1) + 1) := by omega
      have e2 : (x + y) / 2 + 1 = x + ((x + y) / 2 - x + 1) := by omega
      rw [e, e2]
      exact List.range'_append_1

/-! ### the law of an axis vector -/

theorem diffs_cumsum : ∀ (w : List Rat) (prev : Rat), diffs prev (cumsum prev w) = w := by
  intro w
  induction w with
  | nil => intro _; rfl
  | cons x xs ih => intro prev; simp only [cumsum, diffs, add_sub_cancel_left, ih]

open scoped Classical in
theorem axisLaw_range (st : Nat → List Nat) (hinj : ∀ i j, st i = st j → i = j) (g : List Nat → Rat) (s : List Nat) :
    ∀ (m j0 : Nat), axisLaw st ((List.range' j0 m).map (fun j => g (st j))) j0 s =
      if (∃ j, j0 ≤ j ∧ j < j0 + m ∧ st j = s) then g s else 0 := by
  intro m
  induction m with
  | zero =>
    intro j0
    simp only [List.range'_zero, List.map_nil, axisLaw]
    rw [if_neg]; rintro ⟨j, h1, h2, _⟩; omega
  | succ m ih =>
    intro j0
    simp only [List.range'_succ, List.map_cons, axisLaw]
    rw [ih (j0 + 1)]
    by_cases h0 : st j0 = s
    · have hno : ¬ ∃ j, j0 + 1 ≤ j ∧ j < j0 + 1 + m ∧ st j = s := by
        rintro ⟨j, h1, _, h3⟩
        have := hinj j j0 (by rw [h3, h0]); omega
      rw [if_pos h0, if_neg hno, if_pos ⟨j0, le_refl _, by omega, h0⟩, h0, add_zero]
    · rw [if_neg h0, zero_add]
      by_cases h1 : ∃ j, j0 + 1 ≤ j ∧ j < j0 + 1 + m ∧ st j = s
      · obtain ⟨j, a, b, c⟩ := h1
        rw [if_pos ⟨j, a, b, c⟩, if_pos ⟨j, by omega, by omega, c⟩]
      · rw [if_neg h1, if_neg]
        rintro ⟨j, a, b, c⟩
        rcases Nat.eq_or_lt_of_le a with h | h
        · subst h; exact h0 c
        · exact h1 ⟨j, by omega, by omega, c⟩

/-- **axis bucket**: for an axis box `b` (one non-degenerate range, `l ≤ r` everywhere) and an additive `M`, the vector
    built by `_pre_computation` is non-decreasing from 0, ends at `M b`, and gives state `s` the mass of its own cell if
    `s ∈ b` and nothing otherwise -/
theorem axis_bucket (M : Box → Rat) (hadd : Additive M) (hnn : ∀ b, 0 ≤ M b) (b : Box) (hw : WfBox b)
    (hax : (b.filter (fun lr => lr.1 != lr.2)).length = 1) (s : List Nat) :
    (∀ x ∈ diffs 0 (axisVector M b), 0 ≤ x) ∧ (diffs 0 (axisVector M b)).sum = M b ∧
      axisLaw (axisState b) (diffs 0 (axisVector M b)) 0 s = cellMass M b s := by
  obtain ⟨pre, post, l, r, rfl, h1, h2, hlr⟩ := axis_shape b hax
  have hle : l ≤ r := hw (l, r) (by simp [B])
  unfold axisVector
  rw [diffs_cumsum, fuelOf_B pre post l r h1 h2]
  have hst : ∀ j, axisState (B pre post l r) j = corner pre ++ (l + j) :: corner post :=
    fun j => axisState_B pre post l r j h1 h2 hlr
  refine ⟨?_, ?_, ?_⟩
  · intro x hx
    obtain ⟨j, _, rfl⟩ := List.mem_map.mp hx
    exact hnn _
  · rw [mass_axis_sum M hadd pre post (r - l) l r rfl hle, List.range'_eq_map_range, List.map_map]
    congr 1
    apply List.map_congr_left
    intro j _
    simp only [Function.comp]
    rw [hst j, point_B pre post (l + j) h1 h2]
  · have hinj : ∀ i j, axisState (B pre post l r) i = axisState (B pre post l r) j → i = j := by
      intro i j h
      rw [hst i, hst j] at h
      have := List.append_cancel_left h
      simp only [List.cons.injEq] at this
      omega
    have hr := axisLaw_range (axisState (B pre post l r)) hinj (fun t => M (point t)) s (r - l + 1) 0
    rw [List.range_eq_range']
    rw [hr]
    unfold cellMass
    by_cases hin : inBox s (B pre post l r) = true
    · obtain ⟨z, a, b', c⟩ := (inBox_B pre post l r s h1 h2).mp hin
      have hex : ∃ j, 0 ≤ j ∧ j < 0 + (r - l + 1) ∧ axisState (B pre post l r) j = s :=
        ⟨z - l, Nat.zero_le _, by omega, by rw [hst, c]; congr 2; omega⟩
      rw [if_pos hin, if_pos hex]
    · rw [if_neg hin, if_neg]
      rintro ⟨j, _, hj, hs⟩
      apply hin
      rw [inBox_B pre post l r s h1 h2]
      exact ⟨l + j, by omega, by omega, by rw [← hs, hst]⟩

end Rpylib.AdaptedNd
