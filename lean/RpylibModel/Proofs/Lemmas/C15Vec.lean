/-
C15 helper lemmas: the d-dimensional (vector-valued) coupled copula simulator of RpylibModel/Model/Path.lean read
coordinate by coordinate, and naturality of the coupled maximum-step assembly in the value type.
-/
import RpylibModel.Model.Path
import RpylibModel.Proofs.Lemmas.C15Lists
import RpylibModel.Proofs.Lemmas.C15Finer
import Mathlib.Tactic.Linarith
import Mathlib.Algebra.Order.Field.Rat

namespace Rpylib.Path

theorem vcumsumFrom_coord (c : Nat) (acc : V) (l : List V) :
    coord c (vcumsumFrom acc l) = cumsumFrom (acc c) (coord c l) := by
  induction l generalizing acc with
  | nil => rfl
  | cons x r ih =>
    simp only [vcumsumFrom, coord, List.map_cons, cumsumFrom] at ih ⊢
    rw [ih]; rfl

theorem vcumsum_coord (c : Nat) (l : List V) : coord c (vcumsum l) = cumsum (coord c l) :=
  vcumsumFrom_coord c vzero l

theorem lastD_map {α β : Type} (g : α → β) (d : α) (l : List α) : lastD (g d) (l.map g) = g (lastD d l) := by
  induction l generalizing d with
  | nil => rfl
  | cons x r ih => simp only [List.map_cons, lastD]; exact ih x

theorem coord_lastD (c : Nat) (l : List V) : (lastD vzero l) c = lastD 0 (coord c l) := by
  have := lastD_map (fun v : V => v c) vzero l
  simpa [coord, vzero] using this.symm

theorem coord_cons (c : Nat) (v : V) (l : List V) : coord c (v :: l) = v c :: coord c l := rfl

theorem coord_append (c : Nat) (a b : List V) : coord c (a ++ b) = coord c a ++ coord c b := by
  simp [coord]

theorem jumpValsCopula_coord (c : Nat) (ss : List (List V)) :
    coord c (jumpValsCopula ss) = (coordSlices c ss).flatMap cumsum := by
  induction ss with
  | nil => rfl
  | cons s r ih =>
    simp only [jumpValsCopula, List.flatMap_cons, coordSlices, List.map_cons, coord_append] at ih ⊢
    rw [ih, vcumsum_coord]

theorem jumpValsCtmc_eq (Is : List Interval) : jumpValsCtmc Is = (Is.map ivSizes).flatMap cumsum := by
  simp [jumpValsCtmc, List.flatMap_map]

/-! ### naturality of the coupled maximum-step assembly in the value type -/

variable {β γ : Type}

theorem toGaps_map (g : β → γ) (jt : List Rat) (jv : List β) : toGaps jt (jv.map g) = mapV g (toGaps jt jv) := by
  unfold toGaps mapV
  generalize diffsFrom 0 jt = ds
  induction ds generalizing jv with
  | nil => simp
  | cons d t ih =>
    cases jv with
    | nil => simp
    | cons v vs => simp only [List.map_cons, List.zip_cons_cons]; rw [ih]

theorem zip_map_map (g : β → γ) (a b : List β) :
    List.zip (a.map g) (b.map g) = (List.zip a b).map (Prod.map g g) := by
  induction a generalizing b with
  | nil => simp
  | cons x r ih =>
    cases b with
    | nil => simp
    | cons y s => simp only [List.map_cons, List.zip_cons_cons]; rw [ih]; rfl

theorem finer_mapV {ε : Rat} (hε : 0 < ε) (g : β → γ) (z : β) (l : List (Rat × β)) :
    finer ε (g z) (mapV g l) = mapV g (finer ε z l) := by
  unfold finer
  rw [finerLoop_eq_spec hε (g z) _ _ le_rfl, finerLoop_eq_spec hε z _ _ le_rfl, finerSpec_mapV]

theorem buildFiner_map {ε : Rat} (hε : 0 < ε) (T : Rat) (g : β → γ) (z : β) (jt : List Rat) (jv : List β) :
    buildFiner ε T (g z) jt (jv.map g) = ((buildFiner ε T z jt jv).1, (buildFiner ε T z jt jv).2.map g) := by
  unfold buildFiner
  by_cases hT : T ≤ ε
  · simp [hT]
  · simp only [hT, if_false, capAll, toGaps_map, finer_mapV hε g z]
    simp [mapV, List.map_map, Function.comp_def]

/-- the coupled maximum-step assembly commutes with any map of the value type (the positions depend on the gaps only):
    same times, values mapped -/
theorem maxStepPairG_map {ε : Rat} (hε : 0 < ε) (T : Rat) (g : β → γ) (z : β) (jt : List Rat) (jf jc : List β) :
    (maxStepPairG (g z) ε T jt (jf.map g) (jc.map g)).times = (maxStepPairG z ε T jt jf jc).times ∧
    (maxStepPairG (g z) ε T jt (jf.map g) (jc.map g)).fine = (maxStepPairG z ε T jt jf jc).fine.map g ∧
    (maxStepPairG (g z) ε T jt (jf.map g) (jc.map g)).coarse = (maxStepPairG z ε T jt jf jc).coarse.map g := by
  have hb := buildFiner_map hε T (Prod.map g g) (z, z) jt (List.zip jf jc)
  simp only [Prod.map_apply] at hb
  unfold maxStepPairG
  rw [zip_map_map]
  by_cases he : jt.isEmpty
  · simp only [he, if_true, List.map_map, List.map_cons, List.map_append, List.map_nil, ← lastD_map g z]
    simp [Function.comp_def]
  · simp only [he, Bool.false_eq_true, if_false, hb, List.map_map, List.map_cons, List.map_append, List.map_nil,
      ← lastD_map g z]
    simp [Function.comp_def]

/-- the 1-d coupled assembly of the model is the generic one at `Rat` -/
theorem maxStepPair_eq_G (ε T : Rat) (jt jf jc : List Rat) :
    (maxStepPair ε T jt jf jc).times = (maxStepPairG (0 : Rat) ε T jt jf jc).times ∧
    (maxStepPair ε T jt jf jc).fine = (maxStepPairG (0 : Rat) ε T jt jf jc).fine ∧
    (maxStepPair ε T jt jf jc).coarse = (maxStepPairG (0 : Rat) ε T jt jf jc).coarse := ⟨rfl, rfl, rfl⟩

end Rpylib.Path
