/-
C18 — the COS prices as discounted expectations under the law of `S_T = e^z` with log-density `g` (helper file):
under "no truncation error, no series error" at the strike `K` the model's `cosPut` / `cosCall` / `cosDigital`, fed with
the series the code evaluates, return the spec-level `TLaw.put` / `call` / `digital` of that law.
-/
import RpylibModel.Proofs.Lemmas.C18Exact
import RpylibModel.Proofs.Lemmas.C18Law
import Mathlib.MeasureTheory.Group.Integral
import Mathlib.MeasureTheory.Measure.Lebesgue.Basic
import Mathlib.MeasureTheory.Measure.Haar.OfBasis
import Mathlib.Analysis.SpecialFunctions.Log.Basic
import Mathlib.Analysis.SpecialFunctions.Exp

namespace Rpylib.Pricers.Cos
open MeasureTheory Real Rpylib.Pricers.Law

/-- the terminal law of `S_T = e^z`, `z` with density `g` on ℝ -/
noncomputable def logLaw (g : ℝ → ℝ) (hg0 : ∀ z, 0 ≤ g z) (hgi : Integrable g) (hm : ∫ z, g z = 1)
    (hS : Integrable (fun z => exp z * g z)) : TLaw (volume : Measure ℝ) :=
  { ρ := g, S := exp, ρ_nonneg := hg0, S_nonneg := fun z => (exp_pos z).le, S_meas := measurable_exp,
    ρ_int := hgi, mass := hm, Sρ_int := hS }

/-- density of the log-moneyness `y = z - log K` (what the COS formula expands at the strike `K`) -/
noncomputable def shiftDensity (g : ℝ → ℝ) (K : ℝ) (y : ℝ) : ℝ := g (y + log K)

section
variable (g : ℝ → ℝ) (hg0 : ∀ z, 0 ≤ g z) (hgi : Integrable g) (hm : ∫ z, g z = 1)
  (hS : Integrable (fun z => exp z * g z))

include hg0 hgi hm hS in
/-- **COS put = discounted expectation of `(K - S_T)^+`** under (T) and (S) at the strike `K` -/
theorem cosPut_eq_spec (a b : ℝ) (hab : a < b) (ha : a ≤ 0) (hb : 0 ≤ b) (N : ℕ) (K : ℝ) (hK : 0 < K)
    (hex : ExactOn a b N (shiftDensity g K)) (df : ℝ) :
    cosPut df K (cosSeries a b N (shiftDensity g K) (uPutR a b)) = (logLaw g hg0 hgi hm hS).put df K := by
  rw [cosSeries_exact a b hab N _ hex putPay (continuous_putPay.intervalIntegrable a b) (uPutR a b)
    (fun k _ => uPutR_eq_integral a b hab ha hb k)]
  unfold TLaw.put cosPut cosPricing logLaw
  simp only
  rw [← integral_add_right_eq_self (fun z => max (K - exp z) 0 * g z) (log K)]
  have e : ∀ y, max (K - exp (y + log K)) 0 * g (y + log K) = K * (putPay y * shiftDensity g K y) := by
    intro y
    rw [exp_add, exp_log hK]
    unfold putPay shiftDensity
    have : K - exp y * K = K * (1 - exp y) := by ring
    rw [this, ← mul_assoc]
    congr 1
    rw [mul_max_of_nonneg _ _ hK.le, mul_zero]
  rw [integral_congr_ae (Filter.Eventually.of_forall e), integral_const_mul]
  ring

include hg0 hgi hm hS in
/-- **COS call = discounted expectation of `(S_T - K)^+`** when, in addition, the forward the pricer uses is the mean
of the law (the code takes it from the model: `spot * mean(T)`) -/
theorem cosCall_eq_spec (a b : ℝ) (hab : a < b) (ha : a ≤ 0) (hb : 0 ≤ b) (N : ℕ) (K : ℝ) (hK : 0 < K)
    (hex : ExactOn a b N (shiftDensity g K)) (df fwd : ℝ) (hfwd : fwd = (logLaw g hg0 hgi hm hS).fwd) :
    cosCall df fwd K (cosSeries a b N (shiftDensity g K) (uPutR a b)) = (logLaw g hg0 hgi hm hS).call df K := by
  have hp := cosPut_eq_spec g hg0 hgi hm hS a b hab ha hb N K hK hex df
  have hpar := (logLaw g hg0 hgi hm hS).parity df K
  unfold cosCall cosForward
  rw [hp, hfwd]; linarith

include hg0 hgi hm hS in
/-- **COS digital = discounted probability `df·P(S_T > K)`** under (T) and (S) at the strike `K` -/
theorem cosDigital_eq_spec (a b : ℝ) (hab : a < b) (ha : a ≤ 0) (hb : 0 ≤ b) (N : ℕ) (K : ℝ) (hK : 0 < K)
    (hex : ExactOn a b N (shiftDensity g K)) (df : ℝ) :
    cosDigital df (cosSeries a b N (shiftDensity g K) (vDigR a b)) = (logLaw g hg0 hgi hm hS).digital df K := by
  rw [cosSeries_exact a b hab N _ hex digPay (monotone_digPay.intervalIntegrable) (vDigR a b)
    (fun k _ => vDigR_eq_integral a b hab ha hb k)]
  unfold TLaw.digital cosDigital cosPricing logLaw
  simp only
  rw [← integral_add_right_eq_self (fun z => (if K < exp z then (1:ℝ) else 0) * g z) (log K)]
  congr 1
  refine integral_congr_ae (Filter.Eventually.of_forall fun y => ?_)
  simp only [digPay, shiftDensity]
  have : K < exp (y + log K) ↔ 0 < y := by
    rw [exp_add, exp_log hK]
    constructor
    · intro h
      have : 1 < exp y := by
        by_contra hc
        have : exp y * K ≤ 1 * K := mul_le_mul_of_nonneg_right (not_lt.mp hc) hK.le
        linarith
      exact Real.exp_pos y |> fun _ => (Real.one_lt_exp_iff.mp this)
    · intro h
      have : 1 < exp y := Real.one_lt_exp_iff.mpr h
      have := mul_lt_mul_of_pos_right this hK
      linarith
  simp only [this]

end

end Rpylib.Pricers.Cos
