/-
C06 — monotonicity facts the adaptive loop relies on, as invariants over ALL histories of RpylibModel/Model/Mlmc.lean:
the top level never decreases, `N_l` never decreases (even when the criteria return an optimal size below what was already
simulated: `dNl = max(0, Ns − Nl)`), the arrays never shrink, and no simulated sample is ever discarded or moved
(row k of level l keeps holding the k-th simulated sample for the rest of the run).
-/
import RpylibModel.Proofs.Lemmas.C05Core

namespace Rpylib.Mlmc

theorem writeFrom_length (mk : Nat → Sample) (n : Nat) :
    ∀ (start cnt : Nat) (rows : List Row), (writeFrom mk start cnt n rows).length = rows.length := by
  induction n with
  | zero => intro start cnt rows; rfl
  | succ n ih => intro start cnt rows; rw [writeFrom, ih]; simp

/-- `s'` is a later state than `s`: same configuration, at least as many levels, and on every level of `s` at least as many
    samples counted (`N`), simulated (`sim`) and rows allocated -/
def Mono (s s' : St) : Prop :=
  s.L ≤ s'.L ∧ s'.levelMax = s.levelMax ∧ s'.newInit = s.newInit ∧
  ∀ l, l ≤ s.L → (s.lv l).N ≤ (s'.lv l).N ∧ (s.lv l).sim ≤ (s'.lv l).sim ∧ (s.lv l).rows.length ≤ (s'.lv l).rows.length

theorem Mono.refl (s : St) : Mono s s := ⟨Nat.le_refl _, rfl, rfl, fun _ _ => ⟨Nat.le_refl _, Nat.le_refl _, Nat.le_refl _⟩⟩

theorem Mono.trans {a b c : St} (h1 : Mono a b) (h2 : Mono b c) : Mono a c := by
  obtain ⟨l1, m1, n1, f1⟩ := h1
  obtain ⟨l2, m2, n2, f2⟩ := h2
  refine ⟨by omega, by rw [m2, m1], by rw [n2, n1], ?_⟩
  intro l hl
  obtain ⟨a1, a2, a3⟩ := f1 l hl
  obtain ⟨b1, b2, b3⟩ := f2 l (by omega)
  exact ⟨by omega, by omega, by omega⟩

theorem afterPasses_mono (p : Proc) (s : St) : Mono s (afterPasses p s) := by
  refine ⟨Nat.le_refl _, rfl, rfl, ?_⟩
  intro l hl
  simp only [afterPasses, hl, if_true, passLvl, writeFrom_length]
  exact ⟨by omega, by omega, Nat.le_refl _⟩

theorem setDN_mono (Ns : List Nat) (s : St) : Mono s (setDN Ns s) :=
  ⟨Nat.le_refl _, rfl, rfl, fun _ _ => ⟨Nat.le_refl _, Nat.le_refl _, Nat.le_refl _⟩⟩

theorem addLevel_mono (s : St) : Mono s (addLevel s) := by
  refine ⟨by simp [addLevel], rfl, rfl, ?_⟩
  intro l hl
  have : l ≠ s.L + 1 := by omega
  simp only [addLevel, this, if_false]
  exact ⟨Nat.le_refl _, Nat.le_refl _, Nat.le_refl _⟩

theorem extendAll_mono (s : St) : Mono s (extendAll s) := by
  refine ⟨Nat.le_refl _, rfl, rfl, ?_⟩
  intro l hl
  simp only [extendAll, hl, if_true, extendLvl, List.length_append, List.length_replicate]
  exact ⟨Nat.le_refl _, Nat.le_refl _, by omega⟩

theorem loopHead_mono (s : St) :
    match loopHead s with
    | .cont s' => Mono s s'
    | .ret s' => Mono s s' := by
  unfold loopHead
  by_cases hs : sumDN s > 0
  · rw [if_pos hs]; exact Mono.refl s
  · rw [if_neg hs]; exact Mono.refl s

/-- **one iteration never loses anything**: L, every N_l, every simulation counter and every array length can only grow -/
theorem iter_mono (p : Proc) (o : Oracle) (s : St) :
    match iter p o s with
    | .cont s' => Mono s s'
    | .ret s' => Mono s s' := by
  have h2 : Mono s (setDN o.Ns (afterPasses p s)) := (afterPasses_mono p s).trans (setDN_mono _ _)
  have h3 : Mono s (extendAll (setDN o.Ns (afterPasses p s))) := h2.trans (extendAll_mono _)
  have h4 : Mono s (extendAll (setDN o.Ns2 (addLevel (setDN o.Ns (afterPasses p s))))) :=
    ((h2.trans (addLevel_mono _)).trans (setDN_mono _ _)).trans (extendAll_mono _)
  unfold iter
  simp only
  by_cases hsm : small (setDN o.Ns (afterPasses p s)) = true
  · rw [if_pos hsm]
    by_cases hcv : (o.conv || (setDN o.Ns (afterPasses p s)).L == (setDN o.Ns (afterPasses p s)).levelMax) = true
    · rw [if_pos hcv]; exact h2
    · rw [if_neg hcv]
      have := loopHead_mono (extendAll (setDN o.Ns2 (addLevel (setDN o.Ns (afterPasses p s)))))
      cases hh : loopHead (extendAll (setDN o.Ns2 (addLevel (setDN o.Ns (afterPasses p s))))) with
      | cont s' => rw [hh] at this; exact h4.trans this
      | ret s' => rw [hh] at this; exact h4.trans this
  · rw [if_neg hsm]
    have := loopHead_mono (extendAll (setDN o.Ns (afterPasses p s)))
    cases hh : loopHead (extendAll (setDN o.Ns (afterPasses p s))) with
    | cont s' => rw [hh] at this; exact h3.trans this
    | ret s' => rw [hh] at this; exact h3.trans this

/-- **every history**: `N_l` never decreases, `L` never decreases, the arrays never shrink -/
theorem run_mono (p : Proc) (os : List Oracle) (s : St) :
    match run p os s with
    | .cont s' => Mono s s'
    | .ret s' => Mono s s' := by
  induction os generalizing s with
  | nil => exact Mono.refl s
  | cons o os ih =>
    have hi := iter_mono p o s
    unfold run
    cases hit : iter p o s with
    | cont s' =>
      rw [hit] at hi
      have := ih s'
      show match run p os s' with
        | .cont s'' => Mono s s''
        | .ret s'' => Mono s s''
      cases hr : run p os s' with
      | cont s'' => rw [hr] at this; exact hi.trans this
      | ret s'' => rw [hr] at this; exact hi.trans this
    | ret s' => rw [hit] at hi; exact hi

/-! ### samples are never discarded -/

theorem inv_row (p : Proc) (l : Nat) (lv : Lvl) (h : LvlInv p l lv) (k : Nat) (hk : k < lv.N) :
    lv.rows[k]? = some (some (p.sample l k)) := by
  rw [h.1, List.getElem?_append_left (by rw [samplesOf_length]; exact hk)]
  simp [samplesOf, hk]

/-- row k of level l of `s` still holds the same sample in `s'`, for every sample counted in `s` -/
def Keeps (s s' : St) : Prop :=
  ∀ l, l ≤ s.L → ∀ k, k < (s.lv l).N → (s'.lv l).rows[k]? = (s.lv l).rows[k]? ∧ (s.lv l).rows[k]? ≠ some none

/-- **no simulated sample is ever discarded, moved or overwritten, whatever the history**: every sample present at a loop
    head is found in the same row when the run returns (or at any later loop head) -/
theorem run_keeps_samples (p : Proc) (os : List Oracle) (s : St) (h0 : s.newInit = 0) (h : Inv p s) :
    match run p os s with
    | .cont s' => Keeps s s'
    | .ret s' => Keeps s s' := by
  have hm := run_mono p os s
  have hr := run_rows_are_samples p os s h0 h
  cases hrun : run p os s with
  | cont s' =>
    rw [hrun] at hm hr
    intro l hl k hk
    have hN := (hm.2.2.2 l hl).1
    rw [inv_row p l _ (h l hl) k hk, inv_row p l _ (hr l (by have := hm.1; omega)) k (by omega)]
    exact ⟨rfl, by simp⟩
  | ret s' =>
    rw [hrun] at hm hr
    intro l hl k hk
    have hN := (hm.2.2.2 l hl).1
    rw [inv_row p l _ (h l hl) k hk, clean_row p l _ (hr l (by have := hm.1; omega)) k (by omega)]
    exact ⟨rfl, by simp⟩

/-- for `Engine.price` from its initial state: N_l, L only grow along the whole run -/
theorem price_mono (p : Proc) (L0 N0 levelMax newInit : Nat) (os : List Oracle) :
    match price p L0 N0 levelMax newInit os with
    | .cont s' => Mono (init L0 N0 levelMax newInit) s'
    | .ret s' => Mono (init L0 N0 levelMax newInit) s' := by
  unfold price loopHead
  by_cases hs : sumDN (init L0 N0 levelMax newInit) > 0
  · rw [if_pos hs]; exact run_mono p os _
  · rw [if_neg hs]; exact Mono.refl _

/-! ### non-vacuity: a history in which the criteria ask for FEWER samples than already simulated (N_l stays) -/
example : (match price demoProc 1 4 5 0 [⟨[2, 9], false, []⟩, ⟨[1, 1], true, []⟩] with
    | .ret s => (s.lv 0).N == 4 && (s.lv 1).N == 9 && s.L == 1
    | _ => false) = true := by
  decide +kernel

end Rpylib.Mlmc
