/-
Helper lemmas for C01: list sums as Finset sums, generic telescoping, points of a strictly increasing axis,
the boundary sequence `bnd` of the cells of one axis.
-/
import RpylibModel.Model.Cells
import RpylibModel.Proofs.C13
import Mathlib.Tactic.Linarith
import Mathlib.Tactic.Ring
import Mathlib.Algebra.Order.Field.Rat
import Mathlib.Algebra.BigOperators.Intervals

set_option linter.dupNamespace false
set_option linter.unusedSectionVars false

namespace Rpylib.Cells
open Rpylib.Grid Finset

/-! ### sums -/

theorem sum_map_range (f : ℕ → ℚ) (n : ℕ) : ((List.range n).map f).sum = ∑ k ∈ range n, f k := by
  induction n with
  | zero => simp
  | succ n ih => rw [List.range_succ, List.map_append, List.sum_append, ih, sum_range_succ]; simp

/-- split a sum over `range n` at an interior index -/
theorem sum_range_split (F : ℕ → ℚ) (o n : ℕ) (ho : o < n) :
    ∑ k ∈ range n, F k = ∑ k ∈ Ico 0 o, F k + F o + ∑ k ∈ Ico (o + 1) n, F k := by
  rw [range_eq_Ico, ← sum_Ico_consecutive F (Nat.zero_le o) (le_of_lt ho), sum_eq_sum_Ico_succ_bot ho]
  ring

/-- generic telescoping: only the additivity steps that are actually used are required -/
theorem tele (μ : ℚ → ℚ → ℚ) (f : ℕ → ℚ) (p : ℕ) : ∀ q, p < q →
    (∀ k, p < k → k < q → μ (f p) (f (k + 1)) = μ (f p) (f k) + μ (f k) (f (k + 1))) →
    ∑ k ∈ Ico p q, μ (f k) (f (k + 1)) = μ (f p) (f q) := by
  intro q
  induction q with
  | zero => intro h; omega
  | succ q ih =>
    intro hpq hstep
    rcases Nat.lt_or_ge p q with h | h
    · rw [sum_Ico_succ_top (le_of_lt h), ih h (fun k h1 h2 => hstep k h1 (by omega)), hstep q h (by omega)]
    · have : p = q := by omega
      subst this; simp

/-! ### points of an axis -/

theorem pt_cons_succ (x : ℚ) (t : List ℚ) (k : ℕ) : pt (x :: t) (k + 1) = pt t k := by
  simp [pt]

theorem strictInc_step (ax : List ℚ) (h : StrictInc ax) : ∀ k, k + 1 < ax.length → pt ax k < pt ax (k + 1) := by
  induction ax with
  | nil => intro k hk; simp at hk
  | cons x t ih =>
    cases t with
    | nil => intro k hk; simp at hk
    | cons y r =>
      intro k hk
      cases k with
      | zero => simpa [pt] using h.1
      | succ k =>
        rw [pt_cons_succ, pt_cons_succ]
        exact ih h.2 k (by simpa using hk)

theorem strictInc_lt (ax : List ℚ) (h : StrictInc ax) (i : ℕ) : ∀ j, i < j → j < ax.length → pt ax i < pt ax j := by
  intro j
  induction j with
  | zero => intro h0; omega
  | succ j ih =>
    intro hij hj
    rcases Nat.lt_or_ge i j with h1 | h1
    · exact lt_trans (ih h1 (by omega)) (strictInc_step ax h j hj)
    · have : i = j := by omega
      subst this; exact strictInc_step ax h i hj

theorem strictInc_le (ax : List ℚ) (h : StrictInc ax) (i j : ℕ) (hij : i ≤ j) (hj : j < ax.length) :
    pt ax i ≤ pt ax j := by
  rcases Nat.lt_or_ge i j with h1 | h1
  · exact le_of_lt (strictInc_lt ax h i j h1 hj)
  · have : i = j := by omega
    subst this; exact le_refl _

/-- one axis of a well-formed grid: strictly increasing, the value 0 at the interior index `o` -/
structure AxisOK (ax : List ℚ) (o : ℕ) : Prop where
  inc : StrictInc ax
  lo : 0 < o
  hi : o + 1 < ax.length
  zero : pt ax o = 0

/-! ### cell boundaries -/

/-- `mid a a = a` (true of the arithmetic mean; the clamped ends of an axis rely on it) -/
def MidIdem (mid : ℚ → ℚ → ℚ) : Prop := ∀ a, mid a a = a

theorem amid_idem : MidIdem amid := by intro a; unfold amid; ring

theorem leftPoint_eq (ax : List ℚ) (k : ℕ) : leftPoint ax k = pt ax (k - 1) := rfl

theorem rightPointN_eq (n0 : ℕ) (ax : List ℚ) (k : ℕ) (hk : k + 1 < n0) : rightPointN n0 ax k = pt ax (k + 1) := by
  unfold rightPointN pt; rw [Nat.min_eq_right (by omega)]

theorem rightPointN_last (n0 : ℕ) (ax : List ℚ) (k : ℕ) (hk : k + 1 = n0) : rightPointN n0 ax k = pt ax k := by
  unfold rightPointN pt; rw [Nat.min_eq_left (by omega)]; congr 1; omega

theorem cellLo_succ (mid) (ax : List ℚ) (k : ℕ) : cellLo mid ax (k + 1) = mid (pt ax k) (pt ax (k + 1)) := rfl

theorem cellHiN_lt (mid) (n0 : ℕ) (ax : List ℚ) (k : ℕ) (hk : k + 1 < n0) :
    cellHiN mid n0 ax k = mid (pt ax k) (pt ax (k + 1)) := by
  unfold cellHiN; rw [rightPointN_eq n0 ax k hk]

/-- the boundary sequence of one axis: `bnd k` is the lower end of cell k, `bnd n0` the upper end of the last cell -/
def bnd (mid : ℚ → ℚ → ℚ) (n0 : ℕ) (ax : List ℚ) (k : ℕ) : ℚ :=
  if k < n0 then cellLo mid ax k else cellHiN mid n0 ax (n0 - 1)

theorem cellLo_eq_bnd (mid) (n0 : ℕ) (ax : List ℚ) (k : ℕ) (hk : k < n0) : cellLo mid ax k = bnd mid n0 ax k := by
  unfold bnd; rw [if_pos hk]

theorem cellHiN_eq_bnd (mid) (n0 : ℕ) (ax : List ℚ) (k : ℕ) (hk : k < n0) :
    cellHiN mid n0 ax k = bnd mid n0 ax (k + 1) := by
  unfold bnd
  by_cases h : k + 1 < n0
  · rw [if_pos h, cellHiN_lt mid n0 ax k h, cellLo_succ]
  · rw [if_neg h]; congr 1; omega

section axis
variable (mid : ℚ → ℚ → ℚ) (hm : Between mid) (hi : MidIdem mid) (ax : List ℚ) (hs : StrictInc ax)
include hm hi hs

theorem cellLo_le_pt (k : ℕ) (hk : k < ax.length) : cellLo mid ax k ≤ pt ax k := by
  cases k with
  | zero => unfold cellLo; rw [leftPoint_eq]; simp only [Nat.zero_sub]; rw [hi]
  | succ k => rw [cellLo_succ]; exact le_of_lt (hm _ _ (strictInc_step ax hs k hk)).2

theorem cellLo_lt_pt (k : ℕ) (hk : k < ax.length) (h0 : 0 < k) : cellLo mid ax k < pt ax k := by
  cases k with
  | zero => omega
  | succ k => rw [cellLo_succ]; exact (hm _ _ (strictInc_step ax hs k hk)).2

theorem pt_le_cellHi (k : ℕ) (hk : k < ax.length) : pt ax k ≤ cellHiN mid ax.length ax k := by
  by_cases h : k + 1 < ax.length
  · rw [cellHiN_lt mid _ ax k h]; exact le_of_lt (hm _ _ (strictInc_step ax hs k h)).1
  · unfold cellHiN; rw [rightPointN_last _ ax k (by omega), hi]

theorem pt_lt_cellHi (k : ℕ) (h : k + 1 < ax.length) : pt ax k < cellHiN mid ax.length ax k := by
  rw [cellHiN_lt mid _ ax k h]; exact (hm _ _ (strictInc_step ax hs k h)).1

theorem pt_pred_lt_cellLo (k : ℕ) (hk : k < ax.length) (h0 : 0 < k) : pt ax (k - 1) < cellLo mid ax k := by
  cases k with
  | zero => omega
  | succ k => rw [cellLo_succ]; exact (hm _ _ (strictInc_step ax hs k hk)).1

/-- boundaries are weakly increasing -/
theorem bnd_mono_step (k : ℕ) (hk : k < ax.length) : bnd mid ax.length ax k ≤ bnd mid ax.length ax (k + 1) := by
  rw [← cellLo_eq_bnd mid _ ax k hk, ← cellHiN_eq_bnd mid _ ax k hk]
  exact le_trans (cellLo_le_pt mid hm hi ax hs k hk) (pt_le_cellHi mid hm hi ax hs k hk)

theorem bnd_mono (i : ℕ) : ∀ j, i ≤ j → j ≤ ax.length → bnd mid ax.length ax i ≤ bnd mid ax.length ax j := by
  intro j
  induction j with
  | zero => intro h _; have : i = 0 := by omega
            subst this; exact le_refl _
  | succ j ih =>
    intro hij hj
    rcases Nat.lt_or_ge i (j + 1) with h1 | h1
    · exact le_trans (ih (by omega) (by omega)) (bnd_mono_step mid hm hi ax hs j (by omega))
    · have : i = j + 1 := by omega
      subst this; exact le_refl _

/-- boundaries up to the origin's lower one are negative, those from its upper one on are positive -/
theorem bnd_neg (o : ℕ) (ho : 0 < o) (hon : o < ax.length) (hz : pt ax o = 0) (k : ℕ) (hk : k ≤ o) :
    bnd mid ax.length ax k < 0 := by
  rw [← cellLo_eq_bnd mid _ ax k (by omega)]
  rcases Nat.eq_zero_or_pos k with h0 | h0
  · subst h0
    have := cellLo_le_pt mid hm hi ax hs 0 (by omega)
    have h2 := strictInc_lt ax hs 0 o ho hon
    rw [hz] at h2; linarith
  · have := cellLo_lt_pt mid hm hi ax hs k (by omega) h0
    have h2 := strictInc_le ax hs k o hk hon
    rw [hz] at h2; linarith

theorem bnd_pos (o : ℕ) (hon : o + 1 < ax.length) (hz : pt ax o = 0) (k : ℕ) (hk : o < k) (hkn : k ≤ ax.length) :
    0 < bnd mid ax.length ax k := by
  rcases Nat.lt_or_ge k ax.length with h | h
  · rw [← cellLo_eq_bnd mid _ ax k h]
    have := pt_pred_lt_cellLo mid hm hi ax hs k h (by omega)
    have h2 := strictInc_le ax hs o (k - 1) (by omega) (by omega)
    rw [hz] at h2; linarith
  · have hk' : k = (ax.length - 1) + 1 := by omega
    rw [hk', ← cellHiN_eq_bnd mid _ ax (ax.length - 1) (by omega)]
    have := pt_le_cellHi mid hm hi ax hs (ax.length - 1) (by omega)
    have h2 := strictInc_lt ax hs o (ax.length - 1) (by omega) (by omega)
    rw [hz] at h2; linarith

theorem bnd_zero (hn : 0 < ax.length) : bnd mid ax.length ax 0 = pt ax 0 := by
  unfold bnd
  rw [if_pos hn]; unfold cellLo; rw [leftPoint_eq]; simp only [Nat.zero_sub]; rw [hi]

theorem bnd_last (hn : 0 < ax.length) : bnd mid ax.length ax ax.length = pt ax (ax.length - 1) := by
  unfold bnd; rw [if_neg (lt_irrefl _)]; unfold cellHiN
  rw [rightPointN_last _ ax (ax.length - 1) (by omega), hi]

end axis

theorem hLeft_eq_bnd (mid) (n0 : ℕ) (ax : List ℚ) (o : ℕ) (hon : o < n0) (hz : pt ax o = 0) :
    hLeft mid ax o = bnd mid n0 ax o := by
  rw [← cellLo_eq_bnd mid n0 ax o hon]; unfold hLeft cellLo; rw [hz]

theorem hRight_eq_bnd (mid) (n0 : ℕ) (ax : List ℚ) (o : ℕ) (hon : o < n0) (hz : pt ax o = 0) :
    hRight mid n0 ax o = bnd mid n0 ax (o + 1) := by
  rw [← cellHiN_eq_bnd mid n0 ax o hon]; unfold hRight cellHiN; rw [hz]

end Rpylib.Cells
