/-
Helper for C12: the comparisons the driver performs on `Ext Rat` (`Ext.lt`, `Ext.le`) form a linear order, so the
generic theorems of Proofs/C12.lean (stated for every `LinearOrder X`) apply to the very functions the driver runs.
-/
import RpylibModel.Model.CopulaMass
import Mathlib.Order.Defs.LinearOrder
import Mathlib.Algebra.Order.Field.Rat
import Mathlib.Tactic.Linarith

namespace Rpylib.CopulaMass
open Rpylib.Copula

instance extRatLinearOrder : LinearOrder (Ext Rat) where
  le a b := Ext.le a b = true
  lt a b := Ext.lt a b = true
  le_refl a := by cases a <;> simp [Ext.le]
  le_trans a b c := by
    cases a <;> cases b <;> cases c <;> simp [Ext.le]
    exact le_trans
  lt_iff_le_not_ge a b := by
    cases a <;> cases b <;> simp [Ext.le, Ext.lt]
    exact le_of_lt
  le_antisymm a b := by
    cases a <;> cases b <;> simp [Ext.le]
    exact le_antisymm
  le_total a b := by
    cases a <;> cases b <;> simp [Ext.le]
    exact le_total _ _
  toDecidableLE := fun a b => inferInstanceAs (Decidable (Ext.le a b = true))
  toDecidableLT := fun a b => inferInstanceAs (Decidable (Ext.lt a b = true))
  toDecidableEq := inferInstance

/-- the order relation of this instance is literally the `LT` instance the driver's definitions are compiled with -/
theorem extRat_lt_eq : (extRatLinearOrder.toLT : LT (Ext Rat)) = instLTExtRat := rfl

end Rpylib.CopulaMass
