/-
C15 helper lemmas: cumulative sums, differences and last elements of the lists of RpylibModel/Model/Path.lean.
-/
import RpylibModel.Model.Path
import Mathlib.Tactic.Linarith
import Mathlib.Tactic.Ring
import Mathlib.Algebra.Order.Field.Rat

namespace Rpylib.Path

theorem sumL_append (a b : List Rat) : sumL (a ++ b) = sumL a + sumL b := by
  induction a with
  | nil => simp [sumL]
  | cons x t ih => simp only [List.cons_append, sumL, ih]; ring

theorem sumL_flatten (ls : List (List Rat)) : sumL ls.flatten = sumL (ls.map sumL) := by
  induction ls with
  | nil => rfl
  | cons l t ih => simp only [List.flatten_cons, sumL_append, List.map_cons, sumL, ih]

@[simp] theorem cumsumFrom_length (acc : Rat) (l : List Rat) : (cumsumFrom acc l).length = l.length := by
  induction l generalizing acc with
  | nil => rfl
  | cons x t ih => simp [cumsumFrom, ih]

theorem cumsumFrom_append (acc : Rat) (a b : List Rat) :
    cumsumFrom acc (a ++ b) = cumsumFrom acc a ++ cumsumFrom (acc + sumL a) b := by
  induction a generalizing acc with
  | nil => simp [cumsumFrom, sumL]
  | cons x t ih =>
    simp only [List.cons_append, cumsumFrom, ih, sumL]
    congr 3; ring

/-- **running sum**: entry i of a cumulative sum is the sum of the first i+1 terms -/
theorem cumsumFrom_getElem? (acc : Rat) (l : List Rat) (i : Nat) :
    (cumsumFrom acc l)[i]? = if i < l.length then some (acc + sumL (l.take (i + 1))) else none := by
  induction l generalizing acc i with
  | nil => simp [cumsumFrom]
  | cons x t ih =>
    cases i with
    | zero => simp [cumsumFrom, sumL]
    | succ i =>
      simp only [cumsumFrom, List.getElem?_cons_succ, ih, List.length_cons, List.take_succ_cons, sumL]
      by_cases h : i < t.length
      · simp [h]; ring
      · simp [h]

theorem lastD_cumsumFrom (acc : Rat) (l : List Rat) : lastD acc (cumsumFrom acc l) = acc + sumL l := by
  induction l generalizing acc with
  | nil => simp [cumsumFrom, lastD, sumL]
  | cons x t ih => simp only [cumsumFrom, lastD, ih, sumL]; ring

/-- the last value of a slice's cumulative sum (0 for an empty slice) is the sum of the slice -/
theorem lastD_cumsum (l : List Rat) : lastD 0 (cumsum l) = sumL l := by
  have := lastD_cumsumFrom 0 l; simpa [cumsum] using this

theorem lastD_append_singleton {α} (d x : α) (l : List α) : lastD d (l ++ [x]) = x := by
  induction l generalizing d with
  | nil => rfl
  | cons y t ih => simp [lastD, ih]

theorem lastD_eq_getLast? {α} (d : α) (l : List α) : lastD d l = (l.getLast?).getD d := by
  induction l generalizing d with
  | nil => rfl
  | cons y t ih =>
    simp only [lastD, ih]
    cases t with
    | nil => rfl
    | cons z r =>
      rw [List.getLast?_cons_cons]
      have : (z :: r).getLast? = some ((z :: r).getLast (by simp)) := List.getLast?_eq_some_getLast (by simp)
      rw [this]; rfl

@[simp] theorem diffsFrom_length (p : Rat) (l : List Rat) : (diffsFrom p l).length = l.length := by
  induction l generalizing p with
  | nil => rfl
  | cons x t ih => simp [diffsFrom, ih]

/-- `np.cumsum(np.diff(x, prepend=p)) + p = x` -/
theorem cumsumFrom_diffsFrom (p : Rat) (l : List Rat) : cumsumFrom p (diffsFrom p l) = l := by
  induction l generalizing p with
  | nil => rfl
  | cons x t ih =>
    simp only [diffsFrom, cumsumFrom]
    have e : p + (x - p) = x := by ring
    rw [e, ih]

theorem diffsFrom_cumsumFrom (p : Rat) (l : List Rat) : diffsFrom p (cumsumFrom p l) = l := by
  induction l generalizing p with
  | nil => rfl
  | cons x t ih => simp only [cumsumFrom, diffsFrom, ih]; congr 1; ring

theorem sumL_diffsFrom (p : Rat) (l : List Rat) : p + sumL (diffsFrom p l) = lastD p l := by
  induction l generalizing p with
  | nil => simp [diffsFrom, sumL, lastD]
  | cons x t ih => simp only [diffsFrom, sumL, lastD, ← ih]; ring

theorem diffsFrom_append (p : Rat) (a b : List Rat) :
    diffsFrom p (a ++ b) = diffsFrom p a ++ diffsFrom (lastD p a) b := by
  induction a generalizing p with
  | nil => rfl
  | cons x t ih => simp [diffsFrom, lastD, ih]

/-- strictly increasing = pairwise `<`; a cumulative sum of positive steps is strictly increasing and stays above
    its start -/
theorem cumsumFrom_pairwise (acc : Rat) (l : List Rat) (h : ∀ x ∈ l, 0 < x) :
    (cumsumFrom acc l).Pairwise (· < ·) ∧ ∀ y ∈ cumsumFrom acc l, acc < y := by
  induction l generalizing acc with
  | nil => simp [cumsumFrom]
  | cons x t ih =>
    have hx : 0 < x := h x (by simp)
    obtain ⟨h1, h2⟩ := ih (acc + x) (fun y hy => h y (by simp [hy]))
    simp only [cumsumFrom, List.pairwise_cons, List.mem_cons]
    refine ⟨⟨fun y hy => h2 y hy, h1⟩, ?_⟩
    intro y hy
    rcases hy with rfl | hy
    · linarith
    · have := h2 y hy; linarith

theorem mem_cumsumFrom_le (acc : Rat) (l : List Rat) (h : ∀ x ∈ l, 0 ≤ x) :
    ∀ y ∈ cumsumFrom acc l, y ≤ acc + sumL l := by
  induction l generalizing acc with
  | nil => simp [cumsumFrom]
  | cons x t ih =>
    intro y hy
    simp only [cumsumFrom, List.mem_cons] at hy
    have ht : 0 ≤ sumL t := by
      clear ih hy
      induction t with
      | nil => simp [sumL]
      | cons z r ihr =>
        have := h z (by simp)
        have := ihr (fun w hw => h w (by
          simp only [List.mem_cons] at hw ⊢
          rcases hw with rfl | hw
          · left; rfl
          · right; right; exact hw))
        simp only [sumL]; linarith
    rcases hy with rfl | hy
    · simp only [sumL]; linarith
    · have := ih (acc + x) (fun w hw => h w (by simp [hw])) y hy
      simp only [sumL]; linarith

end Rpylib.Path
