/-
C18 — COS coefficient integrals (helper file): antiderivatives of `exp y * cos (u (y - a))` and `cos (u (y - a))`.
-/
import RpylibModel.Model.Pricers
import Mathlib.MeasureTheory.Integral.IntervalIntegral.FundThmCalculus
import Mathlib.Analysis.SpecialFunctions.Trigonometric.Deriv
import Mathlib.Analysis.SpecialFunctions.ExpDeriv
import Mathlib.Tactic.Linarith
import Mathlib.Tactic.Ring
import Mathlib.Tactic.FieldSimp

namespace Rpylib.Pricers.Integrals
open Real

/-- antiderivative of the χ integrand -/
noncomputable def chiPrim (u a y : ℝ) : ℝ := (cos (u * (y - a)) + u * sin (u * (y - a))) * exp y / (1 + u * u)

theorem hasDerivAt_arg (u a y : ℝ) : HasDerivAt (fun y => u * (y - a)) u y := by
  have h : HasDerivAt (fun y : ℝ => y - a) 1 y := (hasDerivAt_id y).sub_const a
  simpa using h.const_mul u

theorem hasDerivAt_chiPrim (u a y : ℝ) :
    HasDerivAt (chiPrim u a) (exp y * cos (u * (y - a))) y := by
  have harg := hasDerivAt_arg u a y
  have hc : HasDerivAt (fun y => cos (u * (y - a))) (-sin (u * (y - a)) * u) y := harg.cos
  have hs : HasDerivAt (fun y => sin (u * (y - a))) (cos (u * (y - a)) * u) y := harg.sin
  have hsum := hc.add (hs.const_mul u)
  have hprod := hsum.mul (hasDerivAt_exp y)
  have hdiv := hprod.div_const (1 + u * u)
  have hpos : (1 + u * u) ≠ 0 := by nlinarith [mul_self_nonneg u]
  have hfun : (fun x => (((fun y => cos (u * (y - a))) + fun y => u * sin (u * (y - a))) * rexp) x / (1 + u * u))
      = chiPrim u a := by
    funext x; simp [chiPrim]
  rw [hfun] at hdiv
  refine hdiv.congr_deriv ?_
  simp only [Pi.add_apply]
  field_simp
  ring

theorem hasDerivAt_psiPrim (u a y : ℝ) (hu : u ≠ 0) :
    HasDerivAt (fun y => sin (u * (y - a)) / u) (cos (u * (y - a))) y := by
  have hs : HasDerivAt (fun y => sin (u * (y - a))) (cos (u * (y - a)) * u) y := (hasDerivAt_arg u a y).sin
  refine (hs.div_const u).congr_deriv ?_
  field_simp

end Rpylib.Pricers.Integrals
