/-
C18 — COS coefficient integrals (helper file): antiderivatives of `exp y * cos (u (y - a))` and `cos (u (y - a))`.
-/
import RpylibModel.Model.Pricers
import Mathlib.MeasureTheory.Integral.IntervalIntegral.FundThmCalculus
import Mathlib.Analysis.SpecialFunctions.Trigonometric.Deriv
import Mathlib.Analysis.SpecialFunctions.ExpDeriv
import Mathlib.Tactic.Linarith
import Mathlib.Tactic.Ring
import Mathlib.Tactic.FieldSimp

namespace Rpylib.Pricers.Integrals
open Real

/-- antiderivative of the χ integrand -/
noncomputable def chiPrim (u a y : ℝ) : ℝ := (cos (u * (y - a)) + u * sin (u * (y - a))) * exp y / (1 + u * u)

theorem hasDerivAt_arg (u a y : ℝ) : HasDerivAt (fun y => u * (y - a)) u y := by
  have h : HasDerivAt (fun y : ℝ => y - a) 1 y := (hasDerivAt_id y).sub_const a
  simpa using h.const_mul u

theorem hasDerivAt_chiPrim (u a y : ℝ) :
    HasDerivAt (chiPrim u a) (exp y * cos (u * (y - a))) y := by
  have harg := hasDerivAt_arg u a y
  have hc : HasDerivAt (fun y => cos (u * (y - a))) (-sin (u * (y - a)) * u) y := harg.cos
  have hs : HasDerivAt (fun y => sin (u * (y - a))) (cos (u * (y - a)) * u) y := harg.sin
  have hsum := hc.add (hs.const_mul u)
  have hprod := hsum.mul (hasDerivAt_exp y)
  have hdiv := hprod.div_const (1 + u * u)
  have hpos : (1 + u * u) ≠ 0 := by nlinarith [mul_self_nonneg u]
  have hfun : (fun x => (((fun y => cos (u * (y - a))) + fun y => u * sin (u * (y - a))) * rexp) x / (1 + u * u))
      = chiPrim u a := by
    funext x; simp [chiPrim]
  rw [hfun] at hdiv
  refine hdiv.congr_deriv ?_
  simp only [Pi.add_apply]
  field_simp
  ring

theorem hasDerivAt_psiPrim (u a y : ℝ) (hu : u ≠ 0) :
    HasDerivAt (fun y => sin (u * (y - a)) / u) (cos (u * (y - a))) y := by
  have hs : HasDerivAt (fun y => sin (u * (y - a))) (cos (u * (y - a)) * u) y := (hasDerivAt_arg u a y).sin
  refine (hs.div_const u).congr_deriv ?_
  field_simp

open intervalIntegral

/-- χ_k(c,d) = ∫_c^d e^y cos(u (y-a)) dy  with u = kπ/(b-a): the closed form coded in `COSPricer.xi` -/
theorem chi_integral (u a c d : ℝ) :
    ∫ y in c..d, exp y * cos (u * (y - a))
      = chiOf u (cos (u * (d - a))) (sin (u * (d - a))) (exp d) (cos (u * (c - a))) (sin (u * (c - a))) (exp c) := by
  have hint : IntervalIntegrable (fun y => exp y * cos (u * (y - a))) MeasureTheory.volume c d :=
    (by fun_prop : Continuous fun y => exp y * cos (u * (y - a))).intervalIntegrable c d
  rw [integral_eq_sub_of_hasDerivAt (fun y _ => hasDerivAt_chiPrim u a y) hint]
  unfold chiPrim chiOf
  ring

/-- ψ_k(c,d) = ∫_c^d cos(u (y-a)) dy for k ≠ 0 -/
theorem psi_integral (u a c d : ℝ) (hu : u ≠ 0) :
    ∫ y in c..d, cos (u * (y - a)) = psiOf false u (sin (u * (d - a))) (sin (u * (c - a))) c d := by
  have hint : IntervalIntegrable (fun y => cos (u * (y - a))) MeasureTheory.volume c d :=
    (by fun_prop : Continuous fun y => cos (u * (y - a))).intervalIntegrable c d
  rw [integral_eq_sub_of_hasDerivAt (fun y _ => hasDerivAt_psiPrim u a y hu) hint]
  unfold psiOf
  simp only [Bool.false_eq_true, if_false]
  ring

/-- ψ_0(c,d) = ∫_c^d 1 dy = d - c (the `k = 0` branch) -/
theorem psi_integral_zero (a c d sd sc : ℝ) :
    ∫ y in c..d, cos (0 * (y - a)) = psiOf true 0 sd sc c d := by
  simp [psiOf]

/-- the put coefficient `u_put(k,a,b)` is `2/(b-a) ∫_a^0 (1 - e^y) cos(u (y-a)) dy` — the cosine coefficient of the
strike-normalised put payoff `(1 - e^y)^+` on `[a, b]` (a ≤ 0 ≤ b) — for k ≠ 0 -/
theorem uput_integral (u a b : ℝ) (hu : u ≠ 0) :
    2 / (b - a) * ∫ y in a..(0:ℝ), (1 - exp y) * cos (u * (y - a))
      = uPut a b
          (chiOf u (cos (u * (0 - a))) (sin (u * (0 - a))) (exp 0) (cos (u * (a - a))) (sin (u * (a - a))) (exp a))
          (psiOf false u (sin (u * (0 - a))) (sin (u * (a - a))) a 0) := by
  have h1 : IntervalIntegrable (fun y => cos (u * (y - a))) MeasureTheory.volume a 0 :=
    (by fun_prop : Continuous fun y => cos (u * (y - a))).intervalIntegrable a 0
  have h2 : IntervalIntegrable (fun y => exp y * cos (u * (y - a))) MeasureTheory.volume a 0 :=
    (by fun_prop : Continuous fun y => exp y * cos (u * (y - a))).intervalIntegrable a 0
  have e : (fun y => (1 - exp y) * cos (u * (y - a))) = fun y => cos (u * (y - a)) - exp y * cos (u * (y - a)) := by
    funext y; ring
  rw [e, integral_sub h1 h2, psi_integral u a a 0 hu, chi_integral u a a 0]
  unfold uPut
  ring

/-- the digital coefficient is `2/(b-a) ∫_0^b cos(u (y-a)) dy` for k ≠ 0 -/
theorem vdigital_integral (u a b : ℝ) (hu : u ≠ 0) :
    2 / (b - a) * ∫ y in (0:ℝ)..b, cos (u * (y - a))
      = vDigital a b (psiOf false u (sin (u * (b - a))) (sin (u * (0 - a))) 0 b) := by
  rw [psi_integral u a 0 b hu]; rfl

end Rpylib.Pricers.Integrals
