/-
Helper lemmas for C03 (n-d, written out for d = 3 on a grid whose three axes are equal): the corner probabilities of
`__coupling_state` for each of the seven parities of the increment, the boxes whose margin mass is `total_mass`.
-/
import RpylibModel.Proofs.Lemmas.C03Sub

set_option linter.dupNamespace false
set_option linter.unusedSectionVars false
set_option linter.unusedVariables false

namespace Rpylib.Coupling
open Rpylib.Grid Rpylib.Cells Finset

theorem oddAxes_three (i1 i2 i3 : ℤ) :
    oddAxes [i1, i2, i3] = (if i1 % 2 ≠ 0 then [0] else []) ++ (if i2 % 2 ≠ 0 then [1] else []) ++
      (if i3 % 2 ≠ 0 then [2] else []) := by
  unfold oddAxes
  simp [List.range_succ, List.filter_cons]
  split_ifs <;> simp_all

/-! ### corner probabilities by parity (1 = odd coordinate) -/

section probs
variable (ax : List ℚ) (o : ℕ) (m : MarginMass) (i1 i2 i3 : ℤ)

theorem cornerProbs3_100 (h1 : i1 % 2 ≠ 0) (h2 : i2 % 2 = 0) (h3 : i3 % 2 = 0) :
    cornerProbs [ax, ax, ax] o m [i1, i2, i3] =
      [m [0] [halfLo ax (posOf o i1)] / m [0] [wholeCell ax (posOf o i1)],
       m [0] [halfHi ax (posOf o i1)] / m [0] [wholeCell ax (posOf o i1)]] := by
  unfold cornerProbs halfLo halfHi wholeCell
  rw [oddAxes_three]
  simp [h1, h2, h3, signs, cartesian, cornerProb, cornerBox, totalBox, projVal, projPos, posNd, cornerVal, midT,
    projLeftPt, projRightPt, List.range_succ]

theorem cornerProbs3_010 (h1 : i1 % 2 = 0) (h2 : i2 % 2 ≠ 0) (h3 : i3 % 2 = 0) :
    cornerProbs [ax, ax, ax] o m [i1, i2, i3] =
      [m [1] [halfLo ax (posOf o i2)] / m [1] [wholeCell ax (posOf o i2)],
       m [1] [halfHi ax (posOf o i2)] / m [1] [wholeCell ax (posOf o i2)]] := by
  unfold cornerProbs halfLo halfHi wholeCell
  rw [oddAxes_three]
  simp [h1, h2, h3, signs, cartesian, cornerProb, cornerBox, totalBox, projVal, projPos, posNd, cornerVal, midT,
    projLeftPt, projRightPt, List.range_succ]

theorem cornerProbs3_001 (h1 : i1 % 2 = 0) (h2 : i2 % 2 = 0) (h3 : i3 % 2 ≠ 0) :
    cornerProbs [ax, ax, ax] o m [i1, i2, i3] =
      [m [2] [halfLo ax (posOf o i3)] / m [2] [wholeCell ax (posOf o i3)],
       m [2] [halfHi ax (posOf o i3)] / m [2] [wholeCell ax (posOf o i3)]] := by
  unfold cornerProbs halfLo halfHi wholeCell
  rw [oddAxes_three]
  simp [h1, h2, h3, signs, cartesian, cornerProb, cornerBox, totalBox, projVal, projPos, posNd, cornerVal, midT,
    projLeftPt, projRightPt, List.range_succ]

theorem cornerProbs3_110 (h1 : i1 % 2 ≠ 0) (h2 : i2 % 2 ≠ 0) (h3 : i3 % 2 = 0) :
    cornerProbs [ax, ax, ax] o m [i1, i2, i3] =
      let c := posOf o i1
      let d := posOf o i2
      let T := m [0, 1] [wholeCell ax c, wholeCell ax d]
      [m [0, 1] [halfLo ax c, halfLo ax d] / T, m [0, 1] [halfLo ax c, halfHi ax d] / T,
       m [0, 1] [halfHi ax c, halfLo ax d] / T, m [0, 1] [halfHi ax c, halfHi ax d] / T] := by
  unfold cornerProbs halfLo halfHi wholeCell
  rw [oddAxes_three]
  simp [h1, h2, h3, signs, cartesian, cornerProb, cornerBox, totalBox, projVal, projPos, posNd, cornerVal, midT,
    projLeftPt, projRightPt, List.range_succ]

theorem cornerProbs3_101 (h1 : i1 % 2 ≠ 0) (h2 : i2 % 2 = 0) (h3 : i3 % 2 ≠ 0) :
    cornerProbs [ax, ax, ax] o m [i1, i2, i3] =
      let c := posOf o i1
      let d := posOf o i3
      let T := m [0, 2] [wholeCell ax c, wholeCell ax d]
      [m [0, 2] [halfLo ax c, halfLo ax d] / T, m [0, 2] [halfLo ax c, halfHi ax d] / T,
       m [0, 2] [halfHi ax c, halfLo ax d] / T, m [0, 2] [halfHi ax c, halfHi ax d] / T] := by
  unfold cornerProbs halfLo halfHi wholeCell
  rw [oddAxes_three]
  simp [h1, h2, h3, signs, cartesian, cornerProb, cornerBox, totalBox, projVal, projPos, posNd, cornerVal, midT,
    projLeftPt, projRightPt, List.range_succ]

theorem cornerProbs3_011 (h1 : i1 % 2 = 0) (h2 : i2 % 2 ≠ 0) (h3 : i3 % 2 ≠ 0) :
    cornerProbs [ax, ax, ax] o m [i1, i2, i3] =
      let c := posOf o i2
      let d := posOf o i3
      let T := m [1, 2] [wholeCell ax c, wholeCell ax d]
      [m [1, 2] [halfLo ax c, halfLo ax d] / T, m [1, 2] [halfLo ax c, halfHi ax d] / T,
       m [1, 2] [halfHi ax c, halfLo ax d] / T, m [1, 2] [halfHi ax c, halfHi ax d] / T] := by
  unfold cornerProbs halfLo halfHi wholeCell
  rw [oddAxes_three]
  simp [h1, h2, h3, signs, cartesian, cornerProb, cornerBox, totalBox, projVal, projPos, posNd, cornerVal, midT,
    projLeftPt, projRightPt, List.range_succ]

theorem cornerProbs3_111 (h1 : i1 % 2 ≠ 0) (h2 : i2 % 2 ≠ 0) (h3 : i3 % 2 ≠ 0) :
    cornerProbs [ax, ax, ax] o m [i1, i2, i3] =
      let c := posOf o i1
      let d := posOf o i2
      let e := posOf o i3
      let T := m [0, 1, 2] [wholeCell ax c, wholeCell ax d, wholeCell ax e]
      [m [0, 1, 2] [halfLo ax c, halfLo ax d, halfLo ax e] / T, m [0, 1, 2] [halfLo ax c, halfLo ax d, halfHi ax e] / T,
       m [0, 1, 2] [halfLo ax c, halfHi ax d, halfLo ax e] / T, m [0, 1, 2] [halfLo ax c, halfHi ax d, halfHi ax e] / T,
       m [0, 1, 2] [halfHi ax c, halfLo ax d, halfLo ax e] / T, m [0, 1, 2] [halfHi ax c, halfLo ax d, halfHi ax e] / T,
       m [0, 1, 2] [halfHi ax c, halfHi ax d, halfLo ax e] / T, m [0, 1, 2] [halfHi ax c, halfHi ax d, halfHi ax e] / T] := by
  unfold cornerProbs halfLo halfHi wholeCell
  rw [oddAxes_three]
  simp [h1, h2, h3, signs, cartesian, cornerProb, cornerBox, totalBox, projVal, projPos, posNd, cornerVal, midT,
    projLeftPt, projRightPt, List.range_succ]

end probs

/-! ### the box of `total_mass`, for each set S of odd coordinates -/

section boxes
variable (ax : List ℚ) (o : ℕ) (i1 i2 i3 : ℤ)

theorem totalBox3_1 (s : ℕ) (hs : s < 3) :
    totalBox [ax, ax, ax] [s] (posNd o [i1, i2, i3]) = [wholeCell ax (posOf o ([i1, i2, i3].getD s 0))] := by
  unfold wholeCell
  obtain rfl | rfl | rfl : s = 0 ∨ s = 1 ∨ s = 2 := by omega
  all_goals simp [totalBox, projVal, projPos, posNd, midT, projLeftPt, projRightPt]

theorem totalBox3_2 (s t : ℕ) (hs : s < 3) (ht : t < 3) :
    totalBox [ax, ax, ax] [s, t] (posNd o [i1, i2, i3]) =
      [wholeCell ax (posOf o ([i1, i2, i3].getD s 0)), wholeCell ax (posOf o ([i1, i2, i3].getD t 0))] := by
  unfold wholeCell
  obtain rfl | rfl | rfl : s = 0 ∨ s = 1 ∨ s = 2 := by omega
  all_goals obtain rfl | rfl | rfl : t = 0 ∨ t = 1 ∨ t = 2 := by omega
  all_goals simp [totalBox, projVal, projPos, posNd, midT, projLeftPt, projRightPt, List.range_succ]

theorem totalBox3_3 :
    totalBox [ax, ax, ax] [0, 1, 2] (posNd o [i1, i2, i3]) =
      [wholeCell ax (posOf o i1), wholeCell ax (posOf o i2), wholeCell ax (posOf o i3)] := by
  unfold wholeCell
  simp [totalBox, projVal, projPos, posNd, midT, projLeftPt, projRightPt, List.range_succ]

end boxes

end Rpylib.Coupling
