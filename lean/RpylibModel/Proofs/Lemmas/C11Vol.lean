/-
Helper lemmas for C11: the 2-d volume as a four-term sum, additivity of the volume under a split of one side,
"2-increasing on the four closed quadrants ⇒ 2-increasing" (by splitting at the centre).
-/
import RpylibModel.Model.Copula
import Mathlib.Tactic.Linarith
import Mathlib.Tactic.Ring
import Mathlib.Algebra.Order.Field.Basic

set_option linter.unusedSectionVars false

namespace Rpylib.Copula

section vol
variable {K : Type} [Field K] [LinearOrder K] [IsStrictOrderedRing K]

/-- the F-volume of `(a1,b1] × (a2,b2]` -/
def V2 {T : Type} (F : T → T → K) (a1 b1 a2 b2 : T) : K := F b1 b2 + F a1 a2 - F a1 b2 - F b1 a2

theorem volume_two {T : Type} (f : List T → K) (a1 a2 b1 b2 : T) :
    volume f [a1, a2] [b1, b2] = V2 (fun u v => f [u, v]) a1 b1 a2 b2 := by
  simp [volume, corners, sumList, V2]; ring

theorem V2_split1 {T : Type} (F : T → T → K) (a1 c b1 a2 b2 : T) :
    V2 F a1 b1 a2 b2 = V2 F a1 c a2 b2 + V2 F c b1 a2 b2 := by unfold V2; ring

theorem V2_split2 {T : Type} (F : T → T → K) (a1 b1 a2 c b2 : T) :
    V2 F a1 b1 a2 b2 = V2 F a1 b1 a2 c + V2 F a1 b1 c b2 := by unfold V2; ring

/-- A function that gives non-negative volume to every admissible rectangle lying in one closed quadrant around `z`
    gives non-negative volume to every admissible rectangle (`P` = admissible, stable under splitting at `z`). -/
theorem two_increasing_of_quadrants {T : Type} (le : T → T → Prop) (z : T) (hrefl : le z z)
    (htot : ∀ u, le u z ∨ le z u) (F : T → T → K) (P : T → T → T → T → Prop)
    (hP1 : ∀ a1 b1 a2 b2, P a1 b1 a2 b2 → P a1 z a2 b2 ∧ P z b1 a2 b2)
    (hP2 : ∀ a1 b1 a2 b2, P a1 b1 a2 b2 → P a1 b1 a2 z ∧ P a1 b1 z b2)
    (hq : ∀ a1 b1 a2 b2, P a1 b1 a2 b2 → le a1 b1 → le a2 b2 → (le b1 z ∨ le z a1) → (le b2 z ∨ le z a2) →
      0 ≤ V2 F a1 b1 a2 b2) :
    ∀ a1 b1 a2 b2, P a1 b1 a2 b2 → le a1 b1 → le a2 b2 → 0 ≤ V2 F a1 b1 a2 b2 := by
  -- one-sided in the first coordinate, arbitrary second coordinate
  have h1 : ∀ a1 b1 a2 b2, P a1 b1 a2 b2 → le a1 b1 → le a2 b2 → (le b1 z ∨ le z a1) → 0 ≤ V2 F a1 b1 a2 b2 := by
    intro a1 b1 a2 b2 hP h1 h2 hs
    rcases htot b2 with hb | hb
    · exact hq _ _ _ _ hP h1 h2 hs (Or.inl hb)
    rcases htot a2 with ha | ha
    · rw [V2_split2 F a1 b1 a2 z b2]
      have := hq _ _ _ _ (hP2 _ _ _ _ hP).1 h1 ha hs (Or.inl hrefl)
      have := hq _ _ _ _ (hP2 _ _ _ _ hP).2 h1 hb hs (Or.inr hrefl)
      linarith
    · exact hq _ _ _ _ hP h1 h2 hs (Or.inr ha)
  intro a1 b1 a2 b2 hP h1' h2
  rcases htot b1 with hb | hb
  · exact h1 _ _ _ _ hP h1' h2 (Or.inl hb)
  rcases htot a1 with ha | ha
  · rw [V2_split1 F a1 z b1 a2 b2]
    have := h1 _ _ _ _ (hP1 _ _ _ _ hP).1 ha h2 (Or.inl hrefl)
    have := h1 _ _ _ _ (hP1 _ _ _ _ hP).2 hb h2 (Or.inr hrefl)
    linarith
  · exact h1 _ _ _ _ hP h1' h2 (Or.inr ha)

end vol

end Rpylib.Copula
