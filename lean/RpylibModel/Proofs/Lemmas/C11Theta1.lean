/-
Helper lemmas for C11: θ = 1 over ℚ satisfies `ClaytonGen`; the executable `clayton1` (EVal-valued) is the
abstract-generator Clayton of `gen1` wherever the floats stay finite; margins of the abstract-generator Clayton.
-/
import RpylibModel.Proofs.Lemmas.C11Clayton
import Mathlib.Tactic.FieldSimp
import Mathlib.Algebra.Order.Field.Rat

set_option linter.unusedSectionVars false

namespace Rpylib.Copula

theorem rabs_neg (a : Rat) : rabs (-a) = rabs a := by
  unfold rabs; split_ifs <;> linarith

theorem rabs_pos {a : Rat} (h : 0 < a) : rabs a = a := by
  unfold rabs; split_ifs <;> linarith

theorem rabs_of_neg {a : Rat} (h : a < 0) : rabs a = -a := by
  unfold rabs; split_ifs <;> linarith

/-- θ = 1: `g u = 1/|u|`, `psi s = 1/s` is a Clayton generator pair; in particular `1/s` has the slope property -/
theorem gen1_clayton : ClaytonGen gen1 where
  isZero_iff a := by simp [gen1]
  isNeg_iff a := by simp [gen1]
  g_even a := by simp [gen1, rabs_neg]
  g_pos a h := by simp only [gen1, rabs_pos h]; positivity
  g_anti a b ha hab := by
    have hb : 0 < b := lt_of_lt_of_le ha hab
    simp only [gen1, rabs_pos ha, rabs_pos hb]
    exact one_div_le_one_div_of_le ha hab
  psi_g a h := by simp [gen1, rabs_pos h]
  psi_nonneg s h := by simp only [gen1]; positivity
  psi_anti s t hs hst := by simp only [gen1]; exact one_div_le_one_div_of_le hs hst
  psi_slope s t δ hs hst hδ := by
    simp only [gen1]
    have ht : 0 < t := lt_of_lt_of_le hs hst
    have e1 : 1 / (s + δ) - 1 / s = -(δ / (s * (s + δ))) := by field_simp; ring
    have e2 : 1 / (t + δ) - 1 / t = -(δ / (t * (t + δ))) := by field_simp; ring
    rw [e1, e2, neg_le_neg_iff]
    apply div_le_div_of_nonneg_left hδ (by positivity)
    nlinarith

/-! ### EVal arithmetic on finite values -/

@[simp] theorem EVal.fin_add (a b : Rat) : (EVal.fin a + EVal.fin b : EVal) = EVal.fin (a + b) := rfl
@[simp] theorem EVal.neg_fin (a : Rat) : (-(EVal.fin a) : EVal) = EVal.fin (-a) := rfl
@[simp] theorem EVal.zero_def : (0 : EVal) = EVal.fin 0 := rfl

/-! ### `clayton1` versus `claytonOf gen1` -/

theorem gen1_arg_nonneg (u : Ext Rat) : 0 ≤ (gen1.arg u).2 := by
  rcases u with _ | a | _ <;> simp [Gen.arg, gen1]
  unfold rabs; split_ifs <;> linarith

theorem gen1_arg_pos (a : Rat) (h : gen1.argZero (.fin a) = false) : 0 < (gen1.arg (.fin a)).2 := by
  have ha : a ≠ 0 := by simpa [Gen.argZero, gen1] using h
  simp only [Gen.arg, gen1]
  rcases lt_or_gt_of_ne ha with h | h
  · rw [rabs_of_neg h]; have : 0 < -a := by linarith
    positivity
  · rw [rabs_pos h]; positivity

/-- in d = 2, away from the corners with two infinite entries, the float Clayton (θ=1) is the exact one -/
theorem clayton1_two (eta : Rat) (u v : Ext Rat) (h : u.isInf = false ∨ v.isInf = false) :
    clayton1 eta [u, v] = .fin (F2 gen1 eta u v) := by
  have hs : scalePow 2 = 1 := by norm_num [scalePow]
  unfold clayton1 F2
  by_cases hz : ([u, v].any gen1.argZero) = true
  · simp [hz, claytonOf]
  · have hz' : ([u, v].any gen1.argZero) = false := by simpa using hz
    have hu : gen1.argZero u = false := by
      rcases hh : gen1.argZero u with _ | _
      · rfl
      · simp [hh] at hz'
    have hv : gen1.argZero v = false := by
      rcases hh : gen1.argZero v with _ | _
      · rfl
      · simp [hh] at hz'
    have hsum : sumG ([u, v].map gen1.arg) ≠ 0 := by
      simp only [List.map, sumG]
      have nu := gen1_arg_nonneg u
      have nv := gen1_arg_nonneg v
      rcases h with h | h
      · rcases u with _ | a | _
        · simp [Ext.isInf] at h
        · have := gen1_arg_pos a hu; linarith
        · simp [Ext.isInf] at h
      · rcases v with _ | a | _
        · simp [Ext.isInf] at h
        · have := gen1_arg_pos a hv; linarith
        · simp [Ext.isInf] at h
    simp only [hz', hsum, if_false, List.length_cons, List.length_nil, hs]
    rfl

/-- the model's `volume` of the float Clayton (θ=1) over an admissible rectangle is the finite number `V2` -/
theorem clayton1_volume_two (eta : Rat) (a1 a2 b1 b2 : Ext Rat) (hP : Adm a1 b1 a2 b2) :
    volume (clayton1 eta) [a1, a2] [b1, b2] = .fin (V2 (F2 gen1 eta) a1 b1 a2 b2) := by
  have c : ∀ u v, (u = a1 ∨ u = b1) → (v = a2 ∨ v = b2) → clayton1 eta [u, v] = .fin (F2 gen1 eta u v) := by
    intro u v hu hv
    apply clayton1_two
    rcases hP with ⟨h1, h2⟩ | ⟨h1, h2⟩
    · left; rcases hu with rfl | rfl <;> assumption
    · right; rcases hv with rfl | rfl <;> assumption
  simp only [volume, corners, List.map, List.append, List.length_cons, List.length_nil, sumList,
    List.cons_append, List.nil_append]
  rw [c a1 a2 (Or.inl rfl) (Or.inl rfl), c a1 b2 (Or.inl rfl) (Or.inr rfl), c b1 a2 (Or.inr rfl) (Or.inl rfl),
    c b1 b2 (Or.inr rfl) (Or.inr rfl)]
  simp [V2]
  ring

end Rpylib.Copula
