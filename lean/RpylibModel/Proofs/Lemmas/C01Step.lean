/-
Helper lemmas for C01: the piecewise-constant density of the synthetic stream (`stepMass`, harness `zoo.TableMeasure`),
piece by piece: the mass of one piece on `[a, b]` is `height * length([a, b] ∩ [k0, k1])`, additive in `[a, b]`.
-/
import RpylibModel.Proofs.Lemmas.C01Basic

set_option linter.dupNamespace false

namespace Rpylib.Cells

/-- one piece of the step density -/
def piece (k0 k1 h a b : ℚ) : ℚ := if max k0 a < min k1 b then h * (min k1 b - max k0 a) else 0

/-- length of `[a, b] ∩ [k0, k1]` -/
def overlap (k0 k1 a b : ℚ) : ℚ := max 0 (min k1 b - max k0 a)

theorem piece_eq (k0 k1 h a b : ℚ) : piece k0 k1 h a b = h * overlap k0 k1 a b := by
  unfold piece overlap
  split_ifs with hc
  · rw [max_eq_right (show (0 : ℚ) ≤ min k1 b - max k0 a by linarith)]
  · rw [max_eq_left (show min k1 b - max k0 a ≤ (0 : ℚ) by linarith)]; ring

theorem overlap_add (k0 k1 a b c : ℚ) (hab : a ≤ b) (hbc : b ≤ c) :
    overlap k0 k1 a c = overlap k0 k1 a b + overlap k0 k1 b c := by
  unfold overlap
  simp only [max_def, min_def]
  split_ifs <;> linarith

theorem piece_add (k0 k1 h a b c : ℚ) (hab : a ≤ b) (hbc : b ≤ c) :
    piece k0 k1 h a c = piece k0 k1 h a b + piece k0 k1 h b c := by
  rw [piece_eq, piece_eq, piece_eq, overlap_add k0 k1 a b c hab hbc]; ring

theorem piece_nonneg (k0 k1 h a b : ℚ) (hh : 0 ≤ h) : 0 ≤ piece k0 k1 h a b := by
  unfold piece
  split_ifs with hc
  · exact mul_nonneg hh (by linarith)
  · exact le_refl _

theorem stepMass_cons (k0 k1 : ℚ) (ks : List ℚ) (h : ℚ) (hs : List ℚ) (a b : ℚ) :
    stepMass (k0 :: k1 :: ks) (h :: hs) a b = piece k0 k1 h a b + stepMass (k1 :: ks) hs a b := by
  simp [stepMass, piece]

end Rpylib.Cells
