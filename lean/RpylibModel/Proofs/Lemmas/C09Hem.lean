/-
C09, HEM: the three antiderivatives behind hem.py:76-166.
`Phi k w η u = −w e^{−ηu} q_k(η,u)` with q_0 = 1, q_1 = u + 1/η, q_2 = ((uη)(uη+2)+2)/η² satisfies
`Phi' = w η u^k e^{−ηu}`; the positive side uses (w, η) = (λp, η₁), the negative side (λ(1−p), −η₂).
-/
import RpylibModel.Proofs.Lemmas.C09Terms
import Mathlib.MeasureTheory.Measure.Typeclasses.NullSingletonClass
import Mathlib.MeasureTheory.Measure.Lebesgue.Basic

namespace Rpylib.Integrals
open Real

/-- the polynomial factor of the antiderivative -/
noncomputable def q (k : ℕ) (η u : ℝ) : ℝ :=
  match k with
  | 0 => 1
  | 1 => u + 1 / η
  | _ => ((u * η) * (u * η + 2) + 2) / η ^ 2

noncomputable def Phi (k : ℕ) (w η u : ℝ) : ℝ := -(w * exp (-(η * u)) * q k η u)

theorem hasDerivAt_exp_lin (η u : ℝ) : HasDerivAt (fun v : ℝ => exp (-(η * v))) (exp (-(η * u)) * (-η)) u := by
  have hlin : HasDerivAt (fun v : ℝ => η * v) η u := by simpa using (hasDerivAt_id u).const_mul η
  simpa using (hlin.neg).exp

theorem hasDerivAt_Phi (k : ℕ) (hk : k ≤ 2) (w η : ℝ) (hη : η ≠ 0) (u : ℝ) :
    HasDerivAt (Phi k w η) (w * η * u ^ k * exp (-(η * u))) u := by
  have he := hasDerivAt_exp_lin η u
  have hid : HasDerivAt (fun v : ℝ => v) 1 u := hasDerivAt_id u
  interval_cases k
  · -- k = 0
    have h : HasDerivAt (fun v => -(w * exp (-(η * v)) * 1)) (-(w * (exp (-(η * u)) * (-η)) * 1)) u :=
      ((he.const_mul w).mul_const 1).neg
    have heq : -(w * (exp (-(η * u)) * (-η)) * 1) = w * η * u ^ 0 * exp (-(η * u)) := by ring
    exact h.congr_deriv heq
  · -- k = 1
    have hq : HasDerivAt (fun v : ℝ => v + 1 / η) 1 u := hid.add_const (1 / η)
    have h : HasDerivAt (fun v => -(w * exp (-(η * v)) * (v + 1 / η)))
        (-(w * (exp (-(η * u)) * (-η)) * (u + 1 / η) + w * exp (-(η * u)) * 1)) u :=
      ((he.const_mul w).mul hq).neg
    have heq : -(w * (exp (-(η * u)) * (-η)) * (u + 1 / η) + w * exp (-(η * u)) * 1) = w * η * u ^ 1 * exp (-(η * u)) := by
      field_simp; ring
    exact h.congr_deriv heq
  · -- k = 2
    have hlin : HasDerivAt (fun v : ℝ => v * η) η u := by simpa using hid.mul_const η
    have hq : HasDerivAt (fun v : ℝ => ((v * η) * (v * η + 2) + 2) / η ^ 2)
        ((η * (u * η + 2) + (u * η) * η) / η ^ 2) u :=
      (((hlin.mul (hlin.add_const 2)).add_const 2).div_const (η ^ 2))
    have h : HasDerivAt (fun v => -(w * exp (-(η * v)) * (((v * η) * (v * η + 2) + 2) / η ^ 2)))
        (-(w * (exp (-(η * u)) * (-η)) * (((u * η) * (u * η + 2) + 2) / η ^ 2)
          + w * exp (-(η * u)) * ((η * (u * η + 2) + (u * η) * η) / η ^ 2))) u :=
      ((he.const_mul w).mul hq).neg
    have heq : -(w * (exp (-(η * u)) * (-η)) * (((u * η) * (u * η + 2) + 2) / η ^ 2)
          + w * exp (-(η * u)) * ((η * (u * η + 2) + (u * η) * η) / η ^ 2)) = w * η * u ^ 2 * exp (-(η * u)) := by
      field_simp; ring
    exact h.congr_deriv heq

theorem continuous_hem_integrand (k : ℕ) (w η : ℝ) : Continuous fun x : ℝ => w * η * x ^ k * exp (-(η * x)) := by
  fun_prop

/-- FTC: `∫_a^b w η x^k e^{−ηx} dx = Phi(b) − Phi(a)` for k ≤ 2, η ≠ 0, any real a, b -/
theorem integral_hem_smooth (k : ℕ) (hk : k ≤ 2) (w η : ℝ) (hη : η ≠ 0) (a b : ℝ) :
    ∫ x in a..b, w * η * x ^ k * exp (-(η * x)) = Phi k w η b - Phi k w η a := by
  have hderiv : ∀ x ∈ Set.uIcc a b, HasDerivAt (Phi k w η) (w * η * x ^ k * exp (-(η * x))) x :=
    fun x _ => hasDerivAt_Phi k hk w η hη x
  exact intervalIntegral.integral_eq_sub_of_hasDerivAt hderiv ((continuous_hem_integrand k w η).intervalIntegrable a b)

/-- the HEM Lévy density as `_HEMLevyMeasure.__call__` computes it (hem.py:55-62) -/
noncomputable def hemDensity (lam p eta1 eta2 x : ℝ) : ℝ :=
  lam * ((if 0 < x then p * eta1 * exp (-(eta1 * x)) else 0) + (if x < 0 then (1 - p) * eta2 * exp (eta2 * x) else 0))

/-- on [a,b] ⊂ [0,∞) -/
theorem integral_hem_pos (k : ℕ) (hk : k ≤ 2) (lam p eta1 eta2 : ℝ) (h1 : eta1 ≠ 0) (a b : ℝ) (ha : 0 ≤ a) (hab : a ≤ b) :
    ∫ x in a..b, x ^ k * hemDensity lam p eta1 eta2 x = Phi k (lam * p) eta1 b - Phi k (lam * p) eta1 a := by
  rw [← integral_hem_smooth k hk (lam * p) eta1 h1 a b]
  apply intervalIntegral.integral_congr_ae
  refine Filter.Eventually.of_forall (fun x hx => ?_)
  rw [Set.uIoc_of_le hab] at hx
  have hx0 : 0 < x := lt_of_le_of_lt ha hx.1
  have : ¬ x < 0 := not_lt.mpr hx0.le
  simp only [hemDensity, hx0, this, if_true, if_false]; ring

/-- on [a,b] ⊂ (−∞,0]; the single point 0 (where the density is 0, not λ(1−p)η₂) is Lebesgue-null -/
theorem integral_hem_neg (k : ℕ) (hk : k ≤ 2) (lam p eta1 eta2 : ℝ) (h2 : eta2 ≠ 0) (a b : ℝ) (hb : b ≤ 0) (hab : a ≤ b) :
    ∫ x in a..b, x ^ k * hemDensity lam p eta1 eta2 x
      = Phi k (lam * (1 - p)) (-eta2) a - Phi k (lam * (1 - p)) (-eta2) b := by
  have hs := integral_hem_smooth k hk (lam * (1 - p)) (-eta2) (neg_ne_zero.mpr h2) a b
  have hneg : Phi k (lam * (1 - p)) (-eta2) a - Phi k (lam * (1 - p)) (-eta2) b
      = ∫ x in a..b, -(lam * (1 - p) * (-eta2) * x ^ k * exp (-(-eta2 * x))) := by
    rw [intervalIntegral.integral_neg, hs]; ring
  rw [hneg]
  apply intervalIntegral.integral_congr_ae
  have hnull : ∀ᵐ x ∂(MeasureTheory.volume : MeasureTheory.Measure ℝ), x ∉ ({0} : Set ℝ) :=
    (Set.countable_singleton (0 : ℝ)).ae_notMem MeasureTheory.volume
  filter_upwards [hnull] with x hx0 hx
  rw [Set.uIoc_of_le hab] at hx
  have hxle : x ≤ 0 := le_trans hx.2 hb
  have hxne : x ≠ 0 := by simpa using hx0
  have hxneg : x < 0 := lt_of_le_of_ne hxle hxne
  have : ¬ 0 < x := not_lt.mpr hxle
  simp only [hemDensity, hxneg, this, if_true, if_false]
  have : -(-eta2 * x) = eta2 * x := by ring
  rw [this]; ring


open MeasureTheory in
theorem intervalIntegrable_hem_neg (k : ℕ) (lam p eta1 eta2 : ℝ) (a : ℝ) (ha : a ≤ 0) :
    IntervalIntegrable (fun x => x ^ k * hemDensity lam p eta1 eta2 x) volume a 0 := by
  have hc : Continuous fun x : ℝ => x ^ k * (lam * ((1 - p) * eta2 * exp (eta2 * x))) := by fun_prop
  refine (hc.intervalIntegrable a 0).congr_uIoo ?_
  intro x hx
  rw [Set.uIoo_of_le ha] at hx
  have hxneg : x < 0 := hx.2
  have : ¬ 0 < x := not_lt.mpr hxneg.le
  simp only [hemDensity, hxneg, this, if_true, if_false, zero_add]

open MeasureTheory in
theorem intervalIntegrable_hem_pos (k : ℕ) (lam p eta1 eta2 : ℝ) (b : ℝ) (hb : 0 ≤ b) :
    IntervalIntegrable (fun x => x ^ k * hemDensity lam p eta1 eta2 x) volume 0 b := by
  have hc : Continuous fun x : ℝ => x ^ k * (lam * (p * eta1 * exp (-(eta1 * x)))) := by fun_prop
  refine (hc.intervalIntegrable 0 b).congr_uIoo ?_
  intro x hx
  rw [Set.uIoo_of_le hb] at hx
  have hxpos : 0 < x := hx.1
  have : ¬ x < 0 := not_lt.mpr hxpos.le
  simp only [hemDensity, hxpos, this, if_true, if_false, add_zero]

/-- the split at zero for an interval a ≤ 0 ≤ b -/
theorem integral_hem_split (k : ℕ) (lam p eta1 eta2 : ℝ) (a b : ℝ) (ha : a ≤ 0) (hb : 0 ≤ b) :
    ∫ x in a..b, x ^ k * hemDensity lam p eta1 eta2 x
      = (∫ x in a..0, x ^ k * hemDensity lam p eta1 eta2 x) + ∫ x in (0:ℝ)..b, x ^ k * hemDensity lam p eta1 eta2 x :=
  (intervalIntegral.integral_add_adjacent_intervals (intervalIntegrable_hem_neg k lam p eta1 eta2 a ha)
    (intervalIntegrable_hem_pos k lam p eta1 eta2 b hb)).symm

/-! casts of the model's HEM terms -/

theorem cast_hemPosTerm (k : ℕ) (hk : k ≤ 2) (w η u : ℚ) :
    ((hemPosTerm k w η u).1 : ℝ) * exp ((hemPosTerm k w η u).2 : ℝ) = -Phi k w η u := by
  interval_cases k <;> simp only [hemPosTerm, Phi, q] <;> push_cast
  · have : -(η : ℝ) * u = -((η : ℝ) * u) := by ring
    rw [this]; ring
  · have : -(η : ℝ) * u = -((η : ℝ) * u) := by ring
    rw [this]; ring
  · have : -((u : ℝ) * η) = -((η : ℝ) * u) := by ring
    rw [this]; ring

theorem cast_hemNegTerm (k : ℕ) (hk : k ≤ 2) (w η u : ℚ) :
    ((hemNegTerm k w η u).1 : ℝ) * exp ((hemNegTerm k w η u).2 : ℝ) = -Phi k w (-(η : ℝ)) u := by
  interval_cases k <;> simp only [hemNegTerm, Phi, q] <;> push_cast
  · have : -(-(η : ℝ) * u) = (η : ℝ) * u := by ring
    rw [this]; ring
  · have : -(-(η : ℝ) * u) = (η : ℝ) * u := by ring
    rw [this]; ring
  · have : -(-(η : ℝ) * u) = (u : ℝ) * η := by ring
    rw [this]; ring

end Rpylib.Integrals
