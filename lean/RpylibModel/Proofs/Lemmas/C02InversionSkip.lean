/-
Helper lemmas for C02, inversion sampler with SKIPPED pairing indices (unequal-sided n-d boxes): as long as the storage
cap is never reached (number of admissible states < `_max_storage`, the default 10^6 for every real grid), one `step`
from a state satisfying `InvS` answers the canonical draw `spec` (first admissible state whose cumulative sum reaches
`u`) and re-establishes `InvS`.  The memo is a prefix of the canonical list `full` of (state, cumulative sum) pairs and
the skip pointer `_last_projected_index + 1` lies in the gap of inadmissible indices after the last memoised state.
-/
import RpylibModel.Model.Samplers.Inversion
import RpylibModel.Proofs.Lemmas.C02Inversion
import Mathlib.Tactic.Linarith
import Mathlib.Algebra.Order.Field.Rat

namespace Rpylib.Inversion

/-- canonical enumeration from pairing index `xx` on, `s` = cumulative sum so far: `(state, cumulative sum)` -/
def fullFrom (e : Env) : Nat → Nat → Rat → List (Nat × Rat)
  | 0, _, _ => []
  | fuel + 1, xx, s =>
    if xx ≤ e.maxFrontier then
      if e.inside xx then (xx, s + e.p xx) :: fullFrom e fuel (xx + 1) (s + e.p xx)
      else fullFrom e fuel (xx + 1) s
    else []

def tailFrom (e : Env) (xx : Nat) (s : Rat) : List (Nat × Rat) := fullFrom e (e.maxFrontier + 1 - xx) xx s

def full (e : Env) : List (Nat × Rat) := tailFrom e 0 0

/-- first entry whose cumulative sum reaches `u` -/
def firstLe : List (Nat × Rat) → Rat → Option Nat
  | [], _ => none
  | (k, c) :: r, u => if u ≤ c then some k else firstLe r u

/-- the canonical draw: independent of any instance state -/
def spec (e : Env) (u : Rat) : Option Nat := firstLe (full e) u

theorem tail_in {e : Env} {xx : Nat} (s : Rat) (h : xx ≤ e.maxFrontier) (hi : e.inside xx = true) :
    tailFrom e xx s = (xx, s + e.p xx) :: tailFrom e (xx + 1) (s + e.p xx) := by
  unfold tailFrom
  have : e.maxFrontier + 1 - xx = (e.maxFrontier + 1 - (xx + 1)) + 1 := by omega
  rw [this]; simp only [fullFrom, if_pos h, hi, if_true]

theorem tail_out {e : Env} {xx : Nat} (s : Rat) (h : xx ≤ e.maxFrontier) (hi : ¬ e.inside xx = true) :
    tailFrom e xx s = tailFrom e (xx + 1) s := by
  unfold tailFrom
  have : e.maxFrontier + 1 - xx = (e.maxFrontier + 1 - (xx + 1)) + 1 := by omega
  rw [this]; simp only [fullFrom, if_pos h, hi]; simp

theorem tail_beyond {e : Env} {xx : Nat} (s : Rat) (h : e.maxFrontier < xx) : tailFrom e xx s = [] := by
  unfold tailFrom
  have : e.maxFrontier + 1 - xx = 0 := by omega
  rw [this]; rfl

theorem scan_in {e : Env} {xx : Nat} (h : xx ≤ e.maxFrontier) (hi : e.inside xx = true) : scan e xx = (some xx, xx) := by
  unfold scan
  have : e.maxFrontier + 1 - xx = (e.maxFrontier + 1 - (xx + 1)) + 1 := by omega
  rw [this]; simp only [scanF, if_pos h, hi, if_true]

theorem scan_out {e : Env} {xx : Nat} (h : xx ≤ e.maxFrontier) (hi : ¬ e.inside xx = true) : scan e xx = scan e (xx + 1) := by
  unfold scan
  have : e.maxFrontier + 1 - xx = (e.maxFrontier + 1 - (xx + 1)) + 1 := by omega
  rw [this]; simp only [scanF, if_pos h, hi]; simp

/-- the scan from `xx` finds the head of the canonical tail from `xx`; every start inside the gap gives the same tail -/
theorem scan_tail (e : Env) (s : Rat) : ∀ (n xx : Nat), e.maxFrontier + 1 - xx = n →
    (tailFrom e xx s = [] ∧ ∃ xx', scan e xx = (none, xx') ∧ e.maxFrontier < xx' ∧ xx ≤ xx') ∨
    (∃ k, xx ≤ k ∧ k ≤ e.maxFrontier ∧ scan e xx = (some k, k) ∧
      tailFrom e xx s = (k, s + e.p k) :: tailFrom e (k + 1) (s + e.p k) ∧
      ∀ xx', xx ≤ xx' → xx' ≤ k → tailFrom e xx' s = tailFrom e xx s) := by
  intro n
  induction n with
  | zero =>
    intro xx h
    have hb : e.maxFrontier < xx := by omega
    exact Or.inl ⟨tail_beyond s hb, xx, scan_beyond hb, hb, le_refl _⟩
  | succ n ih =>
    intro xx h
    have hle : xx ≤ e.maxFrontier := by omega
    by_cases hi : e.inside xx = true
    · refine Or.inr ⟨xx, le_refl _, hle, scan_in hle hi, tail_in s hle hi, ?_⟩
      intro xx' h1 h2
      have : xx' = xx := by omega
      rw [this]
    · rcases ih (xx + 1) (by omega) with ⟨h1, xx', h2, h3, h3'⟩ | ⟨k, h1, h2, h3, h4, h5⟩
      · exact Or.inl ⟨by rw [tail_out s hle hi]; exact h1, xx', by rw [scan_out hle hi]; exact h2, h3, by omega⟩
      · refine Or.inr ⟨k, by omega, h2, by rw [scan_out hle hi]; exact h3, by rw [tail_out s hle hi]; exact h4, ?_⟩
        intro xx' h6 h7
        rcases Nat.eq_or_lt_of_le h6 with h8 | h8
        · rw [← h8]
        · rw [h5 xx' (by omega) h7, tail_out s hle hi]

theorem tail_length (e : Env) (s : Rat) : ∀ (n xx : Nat), e.maxFrontier + 1 - xx = n → (tailFrom e xx s).length ≤ n := by
  intro n
  induction n generalizing s with
  | zero => intro xx h; rw [tail_beyond s (by omega)]; simp
  | succ n ih =>
    intro xx h
    have hle : xx ≤ e.maxFrontier := by omega
    by_cases hi : e.inside xx = true
    · rw [tail_in s hle hi]; simp only [List.length_cons]
      have := ih (s + e.p xx) (xx + 1) (by omega); omega
    · rw [tail_out s hle hi]
      have := ih s (xx + 1) (by omega); omega

/-- cumulative sums only grow along the canonical tail -/
theorem tail_ge {e : Env} (hp : Nonneg e) : ∀ (n xx : Nat) (s : Rat), e.maxFrontier + 1 - xx = n →
    ∀ x ∈ tailFrom e xx s, s ≤ x.2 := by
  intro n
  induction n with
  | zero => intro xx s h x hx; rw [tail_beyond s (by omega)] at hx; simp at hx
  | succ n ih =>
    intro xx s h x hx
    have hle : xx ≤ e.maxFrontier := by omega
    by_cases hi : e.inside xx = true
    · rw [tail_in s hle hi] at hx
      have hpx := hp xx
      rcases List.mem_cons.mp hx with rfl | hx
      · simp only; linarith
      · have := ih (xx + 1) _ (by omega) x hx; linarith
    · rw [tail_out s hle hi] at hx
      exact ih (xx + 1) s (by omega) x hx

/-! ### list facts -/

theorem firstLe_append_found : ∀ (L T : List (Nat × Rat)) (u : Rat), (∃ x ∈ L, u ≤ x.2) →
    firstLe (L ++ T) u = firstLe L u ∧ (L.map (·.1))[bisectLeft (L.map (·.2)) u]? = firstLe L u := by
  intro L
  induction L with
  | nil => intro T u ⟨x, hx, _⟩; simp at hx
  | cons a L ih =>
    intro T u ⟨x, hx, hxu⟩
    obtain ⟨k, c⟩ := a
    simp only [List.cons_append, firstLe, List.map_cons, bisectLeft]
    by_cases h : u ≤ c
    · simp [h]
    · rw [if_neg h, if_neg h]
      have hx' : ∃ x ∈ L, u ≤ x.2 := by
        rcases List.mem_cons.mp hx with rfl | hx
        · exact absurd hxu h
        · exact ⟨x, hx, hxu⟩
      obtain ⟨h1, h2⟩ := ih T u hx'
      refine ⟨h1, ?_⟩
      rw [if_neg h, List.getElem?_cons_succ]; exact h2

theorem firstLe_append_skip : ∀ (L T : List (Nat × Rat)) (u : Rat), (∀ x ∈ L, x.2 < u) → firstLe (L ++ T) u = firstLe T u := by
  intro L
  induction L with
  | nil => intro T u _; rfl
  | cons a L ih =>
    intro T u h
    obtain ⟨k, c⟩ := a
    have hc : ¬ u ≤ c := not_le.mpr (h (k, c) (by simp))
    simp only [List.cons_append, firstLe, if_neg hc]
    exact ih T u (fun x hx => h x (by simp [hx]))

/-! ### the invariant -/

/-- instance invariant with skipped indices: the memo `L` (ending in `(k, c)`) is a prefix of the canonical list, its
    length does not exceed `k + 1`, every memoised sum is `≤ c`, and the skip pointer lies in the gap after `k` -/
def InvS (e : Env) (st : St) : Prop :=
  ∃ (L : List (Nat × Rat)) (k : Nat) (c : Rat),
    st.cum = (L ++ [(k, c)]).map (·.2) ∧ st.sts = (L ++ [(k, c)]).map (·.1) ∧
    full e = (L ++ [(k, c)]) ++ tailFrom e (k + 1) c ∧ L.length + 1 ≤ k + 1 ∧ (∀ x ∈ L, x.2 ≤ c) ∧
    k < st.last1 ∧ tailFrom e st.last1 c = tailFrom e (k + 1) c

theorem projectIndex_gap {e : Env} {last1 x : Nat} {ml : Option Nat} (hml : ml ≠ some x) (hx : x ≤ last1) :
    projectIndex e last1 x ml =
      match scan e last1 with
      | (some k, _) => (k + 1, some k)
      | (none, xx') => (xx' + 1, none) := by
  unfold projectIndex
  simp only [if_neg hml, max_eq_right hx]
  rfl

theorem lastD_snoc (l : List Rat) (c : Rat) : lastD (l ++ [c]) = c := by simp [lastD]

/-- the extension loop from a state satisfying the invariant, `x + 1` = memo length, `s` = last memoised sum -/
theorem extend_skip {e : Env} (hp : Nonneg e) (hcap : (full e).length < e.maxStorage) (u : Rat) :
    ∀ (fuel : Nat) (st : St) (L : List (Nat × Rat)) (k : Nat) (c : Rat) (res : Option Nat),
      st.cum = (L ++ [(k, c)]).map (·.2) → st.sts = (L ++ [(k, c)]).map (·.1) →
      full e = (L ++ [(k, c)]) ++ tailFrom e (k + 1) c → L.length + 1 ≤ k + 1 → (∀ x ∈ L, x.2 ≤ c) →
      k < st.last1 → tailFrom e st.last1 c = tailFrom e (k + 1) c →
      (tailFrom e (k + 1) c).length + 1 ≤ fuel → (u ≤ c → res = some k) →
      (extend e u fuel st L.length c res).2 = (if u ≤ c then some k else firstLe (tailFrom e (k + 1) c) u) ∧
        InvS e (extend e u fuel st L.length c res).1 := by
  intro fuel
  induction fuel with
  | zero => intro st L k c res _ _ _ _ _ _ _ hf; omega
  | succ fuel ih =>
    intro st L k c res hcum hsts hfull hlen hmono hlast hgap hf hres
    unfold extend
    by_cases hu : u > c
    · have hnle : ¬ u ≤ c := not_le.mpr hu
      simp only [hu, if_true, if_neg hnle]
      have hfl : (full e).length = L.length + 1 + (tailFrom e (k + 1) c).length := by
        rw [hfull]; simp only [List.length_append, List.length_cons, List.length_nil]
      have hml : (some e.maxStorage) ≠ some (L.length + 1) := by
        intro h; have := Option.some.inj h; omega
      rw [projectIndex_gap hml (by omega)]
      rcases scan_tail e c _ st.last1 rfl with ⟨h1, xx', h2, h3, h3'⟩ | ⟨k', h1, h2, h3, h4, h5⟩
      · -- exhausted
        rw [h2]
        simp only
        rw [← hgap, h1]
        refine ⟨rfl, L, k, c, hcum, hsts, hfull, hlen, hmono, by show k < xx' + 1; omega, ?_⟩
        show tailFrom e (xx' + 1) c = tailFrom e (k + 1) c
        rw [← hgap, h1, tail_beyond c (by omega)]
      · -- next admissible state k'
        rw [h3]
        simp only
        have hT : tailFrom e (k + 1) c = (k', c + e.p k') :: tailFrom e (k' + 1) (c + e.p k') := by rw [← hgap]; exact h4
        have hclen : st.cum.length < e.maxStorage := by
          rw [hcum]; simp only [List.length_map, List.length_append, List.length_cons, List.length_nil]; omega
        simp only [hclen, if_true]
        have hpk := hp k'
        have key := ih ⟨st.cum ++ [c + e.p k'], st.sts ++ [k'], k' + 1⟩ (L ++ [(k, c)]) k' (c + e.p k') (some k')
          (by simp [hcum]) (by simp [hsts])
          (by rw [hfull, hT]; simp)
          (by simp only [List.length_append, List.length_cons, List.length_nil]; omega)
          (by
            intro x hx
            rcases List.mem_append.mp hx with hx | hx
            · have := hmono x hx; linarith
            · simp at hx; subst hx; simp only; linarith)
          (by show k' < k' + 1; omega) rfl
          (by rw [hT] at hf; simp only [List.length_cons] at hf; omega)
          (fun _ => rfl)
        have hlen' : (L ++ [(k, c)]).length = L.length + 1 := by simp
        rw [hlen'] at key
        rw [hT]
        simp only [firstLe]
        exact key
    · have hle : u ≤ c := not_lt.mp hu
      simp only [hu, if_false, if_pos hle]
      exact ⟨hres hle, L, k, c, hcum, hsts, hfull, hlen, hmono, hlast, hgap⟩

/-- one draw from an instance satisfying the invariant (cap never reached) -/
theorem step_skip {e : Env} (hp : Nonneg e) (hcap : (full e).length < e.maxStorage) (st : St) (u : Rat)
    (hI : InvS e st) : (step e st u).2 = spec e u ∧ InvS e (step e st u).1 := by
  obtain ⟨L, k, c, hcum, hsts, hfull, hlen, hmono, hlast, hgap⟩ := hI
  unfold step
  have hlastD : lastD st.cum = c := by rw [hcum]; simp [lastD]
  have hclen : st.cum.length - 1 = L.length := by rw [hcum]; simp
  rw [hlastD, hclen]
  by_cases hu : u > c
  · simp only [hu, if_true]
    have hf : (tailFrom e (k + 1) c).length + 1 ≤ e.maxFrontier + 2 := by
      have h1 := tail_length e 0 (e.maxFrontier + 1) 0 rfl
      have h2 : (full e).length = L.length + 1 + (tailFrom e (k + 1) c).length := by
        rw [hfull]; simp only [List.length_append, List.length_cons, List.length_nil]
      unfold full at h2; omega
    obtain ⟨h1, h2⟩ := extend_skip hp hcap u (e.maxFrontier + 2) st L k c none hcum hsts hfull hlen hmono hlast hgap hf
      (fun h => absurd h (not_le.mpr hu))
    refine ⟨?_, h2⟩
    rw [h1, if_neg (not_le.mpr hu)]
    unfold spec
    rw [hfull, firstLe_append_skip _ _ u]
    intro x hx
    rcases List.mem_append.mp hx with hx | hx
    · exact lt_of_le_of_lt (hmono x hx) hu
    · simp at hx; subst hx; exact hu
  · have hle : u ≤ c := not_lt.mp hu
    simp only [hu, if_false]
    refine ⟨?_, L, k, c, hcum, hsts, hfull, hlen, hmono, hlast, hgap⟩
    obtain ⟨h1, h2⟩ := firstLe_append_found (L ++ [(k, c)]) (tailFrom e (k + 1) c) u ⟨(k, c), by simp, hle⟩
    unfold spec
    rw [hfull, h1, hsts, hcum]
    exact h2

theorem init_skip {e : Env} {st0 : St} (h0 : init e = some st0) : InvS e st0 := by
  unfold init projectIndex at h0
  simp only [reduceCtorEq, if_false, max_self] at h0
  rcases scan_tail e 0 _ 0 rfl with ⟨_, xx', h2, _, _⟩ | ⟨k, _, _, h3, h4, h5⟩
  · rw [h2] at h0; simp at h0
  · rw [h3] at h0
    simp only [Option.some.injEq] at h0
    subst h0
    refine ⟨[], k, e.p k, by simp, by simp, ?_, by simp, by simp, by show k < k + 1; omega, rfl⟩
    unfold full
    rw [h4]; simp

theorem run_skip {e : Env} (hp : Nonneg e) (hcap : (full e).length < e.maxStorage) (us : List Rat) :
    ∀ st, InvS e st → InvS e (run e st us) := by
  induction us with
  | nil => intro st h; exact h
  | cons u us ih => intro st h; exact ih _ (step_skip hp hcap st u h).2

/-! ### the canonical draw in terms of the cells `cellsGen` -/

theorem cellsFrom_lower {e : Env} (hp : Nonneg e) : ∀ (fuel xx : Nat) (lo : Rat),
    ∀ c ∈ cellsFrom e fuel xx lo, lo ≤ c.2.1 := by
  intro fuel
  induction fuel with
  | zero => intro xx lo c hc; simp [cellsFrom] at hc
  | succ fuel ih =>
    intro xx lo c hc
    simp only [cellsFrom] at hc
    split_ifs at hc with h1 h2
    · rcases List.mem_cons.mp hc with rfl | hc
      · exact le_refl _
      · have := ih _ _ c hc; have := hp xx; linarith
    · exact ih _ _ c hc
    · simp at hc

theorem firstLe_cells {e : Env} (hp : Nonneg e) (u : Rat) (k : Nat) : ∀ (fuel xx : Nat) (lo : Rat), lo < u →
    (firstLe (fullFrom e fuel xx lo) u = some k ↔ ∃ c ∈ cellsFrom e fuel xx lo, c.1 = k ∧ c.2.1 < u ∧ u ≤ c.2.2) := by
  intro fuel
  induction fuel with
  | zero => intro xx lo _; simp [fullFrom, cellsFrom, firstLe]
  | succ fuel ih =>
    intro xx lo hlo
    simp only [fullFrom, cellsFrom]
    by_cases h1 : xx ≤ e.maxFrontier
    · rw [if_pos h1, if_pos h1]
      by_cases h2 : e.inside xx = true
      · rw [if_pos h2, if_pos h2]
        simp only [firstLe]
        by_cases hu : u ≤ lo + e.p xx
        · rw [if_pos hu]
          constructor
          · intro h; cases h; exact ⟨_, List.mem_cons_self, rfl, hlo, hu⟩
          · rintro ⟨c, hc, rfl, hl, hr⟩
            rcases List.mem_cons.mp hc with rfl | hc
            · rfl
            · have := cellsFrom_lower hp _ _ _ c hc; linarith
        · rw [if_neg hu, ih _ _ (not_le.mp hu)]
          constructor
          · rintro ⟨c, hc, h⟩; exact ⟨c, List.mem_cons_of_mem _ hc, h⟩
          · rintro ⟨c, hc, hk, hl, hr⟩
            rcases List.mem_cons.mp hc with rfl | hc
            · exact absurd hr hu
            · exact ⟨c, hc, hk, hl, hr⟩
      · rw [if_neg h2, if_neg h2]; exact ih _ _ hlo
    · rw [if_neg h1, if_neg h1]; simp [firstLe]

/-- for `u > 0` the canonical draw is `k` exactly when `u` lies in the cell `(lo, hi]` of `k` in `cellsGen` -/
theorem spec_cells {e : Env} (hp : Nonneg e) (u : Rat) (hu : 0 < u) (k : Nat) :
    spec e u = some k ↔ ∃ c ∈ cellsGen e, c.1 = k ∧ c.2.1 < u ∧ u ≤ c.2.2 := by
  unfold spec full tailFrom cellsGen
  exact firstLe_cells hp u k _ 0 0 hu

theorem full_length_le (e : Env) : (full e).length ≤ e.maxFrontier + 1 := tail_length e 0 _ 0 rfl

end Rpylib.Inversion
