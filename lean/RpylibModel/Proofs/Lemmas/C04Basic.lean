/-
Helper lemmas for C04: the loop of `compute_mu_h` position by position, one cell of the second-moment sandwich.
-/
import RpylibModel.Model.Drift
import RpylibModel.Proofs.C01
import Mathlib.Tactic.Linarith
import Mathlib.Tactic.Ring
import Mathlib.Tactic.FieldSimp
import Mathlib.Algebra.Order.Field.Rat
import Mathlib.Algebra.BigOperators.Intervals
import Mathlib.Algebra.Order.BigOperators.Group.Finset

set_option linter.dupNamespace false
set_option linter.unusedSectionVars false
set_option linter.unusedVariables false

namespace Rpylib.Drift
open Rpylib.Grid Rpylib.Cells Finset

theorem muHState_zero (mid : ℚ → ℚ → ℚ) (ax0 axis : List ℚ) (o : ℕ) (m : ℚ → ℚ → ℚ) :
    muHState mid ax0 axis o m 0 = (mid (leftPoint ax0 0) (pt axis 0), 0) := rfl

theorem muHState_succ (mid : ℚ → ℚ → ℚ) (ax0 axis : List ℚ) (o : ℕ) (m : ℚ → ℚ → ℚ) (p : ℕ) :
    muHState mid ax0 axis o m (p + 1) = muHStep mid ax0 axis o m (muHState mid ax0 axis o m p) p := by
  unfold muHState; rw [List.range_succ, List.foldl_append]; rfl

theorem rightPoint_eq (ax : List ℚ) (k : ℕ) : rightPoint ax k = rightPointN ax.length ax k := rfl

theorem cellHi_def (mid : ℚ → ℚ → ℚ) (ax : List ℚ) (k : ℕ) : cellHi mid ax k = mid (pt ax k) (rightPoint ax k) := rfl

/-- the loop invariant: before position p is visited, the running left boundary is the lower boundary of cell p and the
    running sum is Σ_{k<p} x_k · rate k -/
theorem muHState_inv (mid : ℚ → ℚ → ℚ) (ax : List ℚ) (o : ℕ) (m : ℚ → ℚ → ℚ) (p : ℕ) (hp : p ≤ ax.length) :
    (p < ax.length → (muHState mid ax ax o m p).1 = cellLo mid ax p) ∧
    (muHState mid ax ax o m p).2 = ∑ k ∈ range p, pt ax k * rate mid ax o m k := by
  induction p with
  | zero => exact ⟨fun _ => rfl, by simp [muHState_zero]⟩
  | succ p ih =>
    obtain ⟨i1, i2⟩ := ih (by omega)
    have hlo := i1 (by omega)
    rw [muHState_succ, sum_range_succ]
    unfold muHStep
    by_cases hpo : p = o
    · rw [if_neg (by simpa using hpo)]
      refine ⟨fun _ => ?_, ?_⟩
      · subst hpo; rfl
      · show (muHState mid ax ax o m p).2 = _
        rw [i2]; unfold rate; rw [if_pos hpo]; ring
    · rw [if_pos hpo]
      refine ⟨fun h1 => ?_, ?_⟩
      · show mid (pt ax p) (rightPoint ax p) = _
        rw [← cellHi_def mid ax p, cells_tile mid ax p h1]
      · show (muHState mid ax ax o m p).2 + pt ax p * m (muHState mid ax ax o m p).1 (mid (pt ax p) (rightPoint ax p)) = _
        rw [i2, hlo, ← cellHi_def mid ax p]; unfold rate; rw [if_neg hpo]

/-! ### one cell of the sandwich -/

/-- second moments: `x² ν(dx)` is a measure, squeezed between the squared end points times the mass on one-sided intervals -/
structure IsSecondMoment (m m2 : ℚ → ℚ → ℚ) : Prop where
  mass : IsMass m2
  pos : ∀ a b, 0 < a → a ≤ b → a ^ 2 * m a b ≤ m2 a b ∧ m2 a b ≤ b ^ 2 * m a b
  neg : ∀ a b, a ≤ b → b < 0 → b ^ 2 * m a b ≤ m2 a b ∧ m2 a b ≤ a ^ 2 * m a b

/-- first moments: `x ν(dx)` squeezed between the end points times the mass on one-sided intervals -/
structure IsFirstMoment (m m1 : ℚ → ℚ → ℚ) : Prop where
  add : ∀ a b c, a ≤ b → b ≤ c → Away a c → m1 a c = m1 a b + m1 b c
  bound : ∀ a b, a ≤ b → Away a b → a * m a b ≤ m1 a b ∧ m1 a b ≤ b * m a b

theorem sq_le_sq_of_nonneg {a b : ℚ} (ha : 0 ≤ a) (hab : a ≤ b) : a ^ 2 ≤ b ^ 2 := by nlinarith

theorem sq_le_sq_of_nonpos {a b : ℚ} (hb : b ≤ 0) (hab : a ≤ b) : b ^ 2 ≤ a ^ 2 := by nlinarith

/-- one cell `[lo, hi]` strictly on one side of 0, a state x inside it: `|x² q − m2| ≤ osc(x²) · q` -/
theorem cell_second_moment (m m2 : ℚ → ℚ → ℚ) (hM : IsMass m) (h2 : IsSecondMoment m m2) (lo x hi : ℚ) (h1 : lo ≤ x)
    (h3 : x ≤ hi) (haw : Away lo hi) :
    |x ^ 2 * m lo hi - m2 lo hi| ≤ (max (lo ^ 2) (hi ^ 2) - min (lo ^ 2) (hi ^ 2)) * m lo hi := by
  have hq := hM.nonneg lo hi (le_trans h1 h3) haw
  rcases haw with h | h
  · obtain ⟨b1, b2⟩ := h2.neg lo hi (le_trans h1 h3) h
    have s1 : hi ^ 2 ≤ x ^ 2 := sq_le_sq_of_nonpos (by linarith) h3
    have s2 : x ^ 2 ≤ lo ^ 2 := sq_le_sq_of_nonpos (by linarith) h1
    rw [max_eq_left (le_trans s1 s2), min_eq_right (le_trans s1 s2), abs_le]
    constructor <;> nlinarith
  · obtain ⟨b1, b2⟩ := h2.pos lo hi h (le_trans h1 h3)
    have s1 : lo ^ 2 ≤ x ^ 2 := sq_le_sq_of_nonneg (le_of_lt h) h1
    have s2 : x ^ 2 ≤ hi ^ 2 := sq_le_sq_of_nonneg (by linarith) h3
    rw [max_eq_right (le_trans s1 s2), min_eq_left (le_trans s1 s2), abs_le]
    constructor <;> nlinarith

/-- the same for the first moment: `|x q − m1| ≤ (hi − lo) · q` -/
theorem cell_first_moment (m m1 : ℚ → ℚ → ℚ) (hM : IsMass m) (h1m : IsFirstMoment m m1) (lo x hi : ℚ) (h1 : lo ≤ x)
    (h3 : x ≤ hi) (haw : Away lo hi) :
    |x * m lo hi - m1 lo hi| ≤ (hi - lo) * m lo hi := by
  have hq := hM.nonneg lo hi (le_trans h1 h3) haw
  obtain ⟨b1, b2⟩ := h1m.bound lo hi (le_trans h1 h3) haw
  rw [abs_le]
  constructor <;> nlinarith

end Rpylib.Drift
