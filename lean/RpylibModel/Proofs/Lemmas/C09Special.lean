/-
C09, closed forms that need special functions.  Mathlib has neither erf nor the exponential integral E1, so the
function is a parameter and its defining derivative an explicit hypothesis (never a global assumption):
  `herf : ∀ x, HasDerivAt erf (2 / √π · exp (−x²)) x`,   `hE1 : ∀ x > 0, HasDerivAt E1 (−exp (−x) / x) x`.
The formulas are those of merton.py:61-114 and variancegamma.py:123-146 on one side of zero.
-/
import RpylibModel.Proofs.Lemmas.C09Vg
import Mathlib.Analysis.SpecialFunctions.Sqrt
import Mathlib.Analysis.SpecialFunctions.Trigonometric.Basic

namespace Rpylib.Integrals
open Real MeasureTheory

/-- merton.py:44-47 -/
noncomputable def mertonDensity (lam mu sigma x : ℝ) : ℝ :=
  lam / (sigma * √(2 * π)) * exp (-(x - mu) ^ 2 / (2 * sigma ^ 2))

/-- merton.py:61-63 `_helper_erf_aux` -/
noncomputable def erfAux (erf : ℝ → ℝ) (mu sigma x : ℝ) : ℝ := erf ((x - mu) / (sigma * √2))

/-- merton.py:65-78 -/
noncomputable def mertonMass (erf : ℝ → ℝ) (lam mu sigma a b : ℝ) : ℝ :=
  0.5 * lam * (erfAux erf mu sigma b - erfAux erf mu sigma a)

/-- merton.py:87-90 `fun_aux` of `integrate_against_x` -/
noncomputable def mertonAuxX (erf : ℝ → ℝ) (mu sigma x : ℝ) : ℝ :=
  0.5 * mu * erfAux erf mu sigma x - sigma / √(2 * π) * exp (-(x - mu) ^ 2 / (2 * sigma ^ 2))

/-- merton.py:101-112 `fun_aux` of `integrate_against_xx` (finite x) -/
noncomputable def mertonAuxXX (erf : ℝ → ℝ) (mu sigma x : ℝ) : ℝ :=
  0.5 * (mu ^ 2 + sigma ^ 2) * erfAux erf mu sigma x
    - sigma / √(2 * π) * (mu + x) * exp (-(x - mu) ^ 2 / (2 * sigma ^ 2))

theorem sqrt_two_pi : √(2 * π) = √2 * √π := Real.sqrt_mul (by norm_num) π

theorem hasDerivAt_gauss (mu sigma x : ℝ) :
    HasDerivAt (fun v : ℝ => exp (-(v - mu) ^ 2 / (2 * sigma ^ 2)))
      (exp (-(x - mu) ^ 2 / (2 * sigma ^ 2)) * (-(2 * (x - mu)) / (2 * sigma ^ 2))) x := by
  have h1 : HasDerivAt (fun v : ℝ => v - mu) 1 x := (hasDerivAt_id x).sub_const mu
  have h2 : HasDerivAt (fun v : ℝ => (v - mu) ^ 2) (2 * (x - mu)) x := by
    have h := h1.pow 2
    have e : ((2 : ℕ) : ℝ) * (x - mu) ^ (2 - 1) * 1 = 2 * (x - mu) := by norm_num
    exact h.congr_deriv e
  have h3 : HasDerivAt (fun v : ℝ => -(v - mu) ^ 2 / (2 * sigma ^ 2)) (-(2 * (x - mu)) / (2 * sigma ^ 2)) x :=
    (h2.neg).div_const _
  exact h3.exp

theorem hasDerivAt_erfAux (erf : ℝ → ℝ) (herf : ∀ x, HasDerivAt erf (2 / √π * exp (-x ^ 2)) x)
    (mu sigma : ℝ) (x : ℝ) :
    HasDerivAt (erfAux erf mu sigma)
      (2 / √π * exp (-(x - mu) ^ 2 / (2 * sigma ^ 2)) * (1 / (sigma * √2))) x := by
  have h2 : (√2 : ℝ) ≠ 0 := by positivity
  have hz : HasDerivAt (fun v : ℝ => (v - mu) / (sigma * √2)) (1 / (sigma * √2)) x :=
    ((hasDerivAt_id x).sub_const mu).div_const _
  have hcomp := (herf ((x - mu) / (sigma * √2))).comp x hz
  have hsq : -((x - mu) / (sigma * √2)) ^ 2 = -(x - mu) ^ 2 / (2 * sigma ^ 2) := by
    rw [div_pow, mul_pow, Real.sq_sqrt (by norm_num : (0 : ℝ) ≤ 2)]; ring
  rw [hsq] at hcomp
  exact hcomp

theorem continuous_merton (k : ℕ) (lam mu sigma : ℝ) : Continuous fun x : ℝ => x ^ k * mertonDensity lam mu sigma x := by
  unfold mertonDensity; fun_prop

/-- Merton mass on any real interval -/
theorem integral_merton_mass (erf : ℝ → ℝ) (herf : ∀ x, HasDerivAt erf (2 / √π * exp (-x ^ 2)) x)
    (lam mu sigma : ℝ) (hs : sigma ≠ 0) (a b : ℝ) :
    ∫ x in a..b, mertonDensity lam mu sigma x = mertonMass erf lam mu sigma a b := by
  have hπ : (√π : ℝ) ≠ 0 := by positivity
  have h2 : (√2 : ℝ) ≠ 0 := by positivity
  have hderiv : ∀ x ∈ Set.uIcc a b, HasDerivAt (fun v => 0.5 * lam * erfAux erf mu sigma v) (mertonDensity lam mu sigma x) x := by
    intro x _
    have h := (hasDerivAt_erfAux erf herf mu sigma x).const_mul (0.5 * lam)
    refine h.congr_deriv ?_
    unfold mertonDensity; rw [sqrt_two_pi]; field_simp; ring
  have hc : Continuous fun x : ℝ => mertonDensity lam mu sigma x := by simpa using continuous_merton 0 lam mu sigma
  rw [intervalIntegral.integral_eq_sub_of_hasDerivAt hderiv (hc.intervalIntegrable a b)]
  unfold mertonMass; ring

/-- Merton first moment -/
theorem integral_merton_x (erf : ℝ → ℝ) (herf : ∀ x, HasDerivAt erf (2 / √π * exp (-x ^ 2)) x)
    (lam mu sigma : ℝ) (hs : sigma ≠ 0) (a b : ℝ) :
    ∫ x in a..b, x ^ 1 * mertonDensity lam mu sigma x
      = lam * (mertonAuxX erf mu sigma b - mertonAuxX erf mu sigma a) := by
  have hπ : (√π : ℝ) ≠ 0 := by positivity
  have h2 : (√2 : ℝ) ≠ 0 := by positivity
  have hderiv : ∀ x ∈ Set.uIcc a b, HasDerivAt (fun v => lam * mertonAuxX erf mu sigma v) (x ^ 1 * mertonDensity lam mu sigma x) x := by
    intro x _
    have he := (hasDerivAt_erfAux erf herf mu sigma x).const_mul (0.5 * mu)
    have hg := (hasDerivAt_gauss mu sigma x).const_mul (sigma / √(2 * π))
    have h := (he.sub hg).const_mul lam
    refine h.congr_deriv ?_
    unfold mertonDensity; rw [sqrt_two_pi]; field_simp; ring
  rw [intervalIntegral.integral_eq_sub_of_hasDerivAt hderiv ((continuous_merton 1 lam mu sigma).intervalIntegrable a b)]
  ring

/-- Merton second moment -/
theorem integral_merton_xx (erf : ℝ → ℝ) (herf : ∀ x, HasDerivAt erf (2 / √π * exp (-x ^ 2)) x)
    (lam mu sigma : ℝ) (hs : sigma ≠ 0) (a b : ℝ) :
    ∫ x in a..b, x ^ 2 * mertonDensity lam mu sigma x
      = lam * (mertonAuxXX erf mu sigma b - mertonAuxXX erf mu sigma a) := by
  have hπ : (√π : ℝ) ≠ 0 := by positivity
  have h2 : (√2 : ℝ) ≠ 0 := by positivity
  have hderiv : ∀ x ∈ Set.uIcc a b, HasDerivAt (fun v => lam * mertonAuxXX erf mu sigma v) (x ^ 2 * mertonDensity lam mu sigma x) x := by
    intro x _
    have he := (hasDerivAt_erfAux erf herf mu sigma x).const_mul (0.5 * (mu ^ 2 + sigma ^ 2))
    have hlin : HasDerivAt (fun v : ℝ => sigma / √(2 * π) * (mu + v)) (sigma / √(2 * π) * 1) x :=
      ((hasDerivAt_id x).const_add mu).const_mul _
    have hg := hlin.mul (hasDerivAt_gauss mu sigma x)
    have h := (he.sub hg).const_mul lam
    refine h.congr_deriv ?_
    unfold mertonDensity; rw [sqrt_two_pi]; field_simp; ring
  rw [intervalIntegral.integral_eq_sub_of_hasDerivAt hderiv ((continuous_merton 2 lam mu sigma).intervalIntegrable a b)]
  ring

/-! ### variance-gamma mass on one side of zero (variancegamma.py:141-144) -/

theorem integral_vg_mass_pos (E1 : ℝ → ℝ) (hE1 : ∀ x, 0 < x → HasDerivAt E1 (-exp (-x) / x) x)
    (c lp lm : ℝ) (hlp : 0 < lp) (a b : ℝ) (ha : 0 < a) (hab : a ≤ b) :
    ∫ x in a..b, vgDensity c lp lm x = c * (E1 (lp * a) - E1 (lp * b)) := by
  have hpos : ∀ x ∈ Set.uIcc a b, 0 < x := by
    intro x hx; rw [Set.uIcc_of_le hab] at hx; exact lt_of_lt_of_le ha hx.1
  have hderiv : ∀ x ∈ Set.uIcc a b, HasDerivAt (fun v => -c * E1 (lp * v)) (vgDensity c lp lm x) x := by
    intro x hx
    have hx0 := hpos x hx
    have hlin : HasDerivAt (fun v : ℝ => lp * v) lp x := by simpa using (hasDerivAt_id x).const_mul lp
    have h := ((hE1 (lp * x) (mul_pos hlp hx0)).comp x hlin).const_mul (-c)
    refine h.congr_deriv ?_
    have : ¬ x < 0 := not_lt.mpr hx0.le
    simp only [vgDensity, this, hx0, if_true, if_false]
    field_simp
  have hcont : ContinuousOn (fun x : ℝ => vgDensity c lp lm x) (Set.uIcc a b) := by
    have hc : ContinuousOn (fun x : ℝ => c * exp (-(lp * x)) / x) (Set.uIcc a b) :=
      ContinuousOn.div (Continuous.continuousOn (by fun_prop)) continuousOn_id (fun x hx => (hpos x hx).ne')
    refine hc.congr (fun x hx => ?_)
    have hx0 := hpos x hx
    have : ¬ x < 0 := not_lt.mpr hx0.le
    simp only [vgDensity, this, hx0, if_true, if_false]
  rw [intervalIntegral.integral_eq_sub_of_hasDerivAt hderiv hcont.intervalIntegrable]
  ring

theorem integral_vg_mass_neg (E1 : ℝ → ℝ) (hE1 : ∀ x, 0 < x → HasDerivAt E1 (-exp (-x) / x) x)
    (c lp lm : ℝ) (hlm : 0 < lm) (a b : ℝ) (hb : b < 0) (hab : a ≤ b) :
    ∫ x in a..b, vgDensity c lp lm x = c * (E1 (-lm * b) - E1 (-lm * a)) := by
  have hneg : ∀ x ∈ Set.uIcc a b, x < 0 := by
    intro x hx; rw [Set.uIcc_of_le hab] at hx; exact lt_of_le_of_lt hx.2 hb
  have hderiv : ∀ x ∈ Set.uIcc a b, HasDerivAt (fun v => c * E1 (-lm * v)) (vgDensity c lp lm x) x := by
    intro x hx
    have hx0 := hneg x hx
    have hlin : HasDerivAt (fun v : ℝ => -lm * v) (-lm) x := by simpa using (hasDerivAt_id x).const_mul (-lm)
    have hp : 0 < -lm * x := by nlinarith
    have h := ((hE1 (-lm * x) hp).comp x hlin).const_mul c
    refine h.congr_deriv ?_
    have hxne : x ≠ 0 := hx0.ne
    simp only [vgDensity, hx0, if_true, abs_of_neg hx0]
    have e : -(-lm * x) = -(lm * -x) := by ring
    rw [e]
    field_simp
  have hcont : ContinuousOn (fun x : ℝ => vgDensity c lp lm x) (Set.uIcc a b) := by
    have hc : ContinuousOn (fun x : ℝ => c * exp (-(lm * |x|)) / |x|) (Set.uIcc a b) :=
      ContinuousOn.div (Continuous.continuousOn (by fun_prop)) (Continuous.continuousOn (by fun_prop))
        (fun x hx => abs_ne_zero.mpr (hneg x hx).ne)
    refine hc.congr (fun x hx => ?_)
    simp only [vgDensity, hneg x hx, if_true]
  rw [intervalIntegral.integral_eq_sub_of_hasDerivAt hderiv hcont.intervalIntegrable]
  ring

end Rpylib.Integrals
