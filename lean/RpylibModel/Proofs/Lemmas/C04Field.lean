/-
C04, values in an ordered field.  The axis, the cell boundaries and `mid` stay rational (floats are rationals); only the
*values* of the interval masses `m a b`, `m1 a b`, `m2 a b` live in an arbitrary linearly ordered field `V`
(`V = ℚ`: the statements of Proofs/C04.lean; `V = ℝ`: masses that are integrals of a density, Lemmas/C04Density.lean).

Polymorphic copies of the few definitions involved (`rateV`, `intensity1dV`, `truncateV`, the hypotheses `IsMassV`,
`IsFirstMomentV`, `IsSecondMomentV`) and the theorems re-proved for them: Σ rates = intensity, non-negative rates,
truncation does not change a rate, `variance_gap_V`, `mean_gap_V`.  For `V = ℚ` they are the originals (`*_rat`).
-/
import RpylibModel.Proofs.Lemmas.C04Basic
import Mathlib.Data.Rat.Cast.Order

set_option linter.dupNamespace false
set_option linter.unusedSectionVars false
set_option linter.unusedVariables false

namespace Rpylib.Drift
open Rpylib.Grid Rpylib.Cells Finset

section defs
variable {V : Type} [Field V] [LinearOrder V] [IsStrictOrderedRing V]

/-- `IsMass` with values in `V` -/
structure IsMassV (m : ℚ → ℚ → V) : Prop where
  add : ∀ a b c, a ≤ b → b ≤ c → Away a c → m a c = m a b + m b c
  nonneg : ∀ a b, a ≤ b → Away a b → 0 ≤ m a b

/-- `IsSecondMoment` with values in `V` (the end points are cast) -/
structure IsSecondMomentV (m m2 : ℚ → ℚ → V) : Prop where
  mass : IsMassV m2
  pos : ∀ a b : ℚ, 0 < a → a ≤ b → (a : V) ^ 2 * m a b ≤ m2 a b ∧ m2 a b ≤ (b : V) ^ 2 * m a b
  neg : ∀ a b : ℚ, a ≤ b → b < 0 → (b : V) ^ 2 * m a b ≤ m2 a b ∧ m2 a b ≤ (a : V) ^ 2 * m a b

/-- `IsFirstMoment` with values in `V` -/
structure IsFirstMomentV (m m1 : ℚ → ℚ → V) : Prop where
  add : ∀ a b c, a ≤ b → b ≤ c → Away a c → m1 a c = m1 a b + m1 b c
  bound : ∀ a b : ℚ, a ≤ b → Away a b → (a : V) * m a b ≤ m1 a b ∧ m1 a b ≤ (b : V) * m a b

/-- `Cells.rate` with values in `V` -/
def rateV (mid : ℚ → ℚ → ℚ) (ax : List ℚ) (o : ℕ) (m : ℚ → ℚ → V) (k : ℕ) : V :=
  if k = o then 0 else m (cellLo mid ax k) (cellHi mid ax k)

/-- `Cells.intensity1d` with values in `V`: left block + right block -/
def intensity1dV (mid : ℚ → ℚ → ℚ) (ax : List ℚ) (o : ℕ) (m : ℚ → ℚ → V) : V :=
  m (pt ax 0) (hLeft mid ax o) + m (hRight mid ax.length ax o) (pt ax (ax.length - 1))

/-- `Cells.truncate` with values in `V` -/
def truncateV (l r : ℚ) (m : ℚ → ℚ → V) : ℚ → ℚ → V :=
  fun a b => m (truncIv l r a b).1 (truncIv l r a b).2

/-- `Cells.chainMass` with values in `V` -/
def chainMassV (ax : List ℚ) (m : ℚ → ℚ → V) : ℚ → ℚ → V := truncateV (pt ax 0) (pt ax (ax.length - 1)) m

end defs

/-! ### `V = ℚ` gives back the originals -/

theorem isMassV_rat (m : ℚ → ℚ → ℚ) : IsMassV m ↔ IsMass m :=
  ⟨fun h => ⟨h.add, h.nonneg⟩, fun h => ⟨h.add, h.nonneg⟩⟩

theorem isSecondMomentV_rat (m m2 : ℚ → ℚ → ℚ) : IsSecondMomentV m m2 ↔ IsSecondMoment m m2 := by
  constructor
  · intro h
    exact ⟨(isMassV_rat m2).mp h.mass, fun a b h1 h2 => by simpa using h.pos a b h1 h2,
      fun a b h1 h2 => by simpa using h.neg a b h1 h2⟩
  · intro h
    exact ⟨(isMassV_rat m2).mpr h.mass, fun a b h1 h2 => by simpa using h.pos a b h1 h2,
      fun a b h1 h2 => by simpa using h.neg a b h1 h2⟩

theorem isFirstMomentV_rat (m m1 : ℚ → ℚ → ℚ) : IsFirstMomentV m m1 ↔ IsFirstMoment m m1 := by
  constructor
  · intro h; exact ⟨h.add, fun a b h1 h2 => by simpa using h.bound a b h1 h2⟩
  · intro h; exact ⟨h.add, fun a b h1 h2 => by simpa using h.bound a b h1 h2⟩

theorem rateV_rat (mid : ℚ → ℚ → ℚ) (ax : List ℚ) (o : ℕ) (m : ℚ → ℚ → ℚ) (k : ℕ) :
    rateV mid ax o m k = rate mid ax o m k := rfl

theorem intensity1dV_rat (mid : ℚ → ℚ → ℚ) (ax : List ℚ) (o : ℕ) (m : ℚ → ℚ → ℚ) :
    intensity1dV mid ax o m = intensity1d mid ax o m := by
  unfold intensity1dV intensity1d parts
  simp only [List.drop_succ_cons, List.drop_zero, List.map_cons, List.map_nil, List.sum_cons, List.sum_nil]
  ring

theorem chainMassV_rat (ax : List ℚ) (m : ℚ → ℚ → ℚ) : chainMassV ax m = chainMass ax m := rfl

section thms
variable {V : Type} [Field V] [LinearOrder V] [IsStrictOrderedRing V]

/-- generic telescoping with values in `V` -/
theorem teleV (μ : ℚ → ℚ → V) (f : ℕ → ℚ) (p : ℕ) : ∀ q, p < q →
    (∀ k, p < k → k < q → μ (f p) (f (k + 1)) = μ (f p) (f k) + μ (f k) (f (k + 1))) →
    ∑ k ∈ Ico p q, μ (f k) (f (k + 1)) = μ (f p) (f q) := by
  intro q
  induction q with
  | zero => intro h; omega
  | succ q ih =>
    intro hpq hstep
    rcases Nat.lt_or_ge p q with h | h
    · rw [sum_Ico_succ_top (le_of_lt h), ih h (fun k h1 h2 => hstep k h1 (by omega)), hstep q h (by omega)]
    · have : p = q := by omega
      subst this; simp

theorem sum_range_splitV (F : ℕ → V) (o n : ℕ) (ho : o < n) :
    ∑ k ∈ range n, F k = ∑ k ∈ Ico 0 o, F k + F o + ∑ k ∈ Ico (o + 1) n, F k := by
  rw [range_eq_Ico, ← sum_Ico_consecutive F (Nat.zero_le o) (le_of_lt ho), sum_eq_sum_Ico_succ_bot ho]
  ring

section one_axis
variable (mid : ℚ → ℚ → ℚ) (hm : Between mid) (hi : MidIdem mid) (ax : List ℚ) (o : ℕ) (hax : AxisOK ax o)
include hm hi hax

/-- Σ rates = intensity, values in `V` -/
theorem sum_rates_eq_intensity_1d_V (m : ℚ → ℚ → V) (hM : IsMassV m) :
    ∑ k ∈ range ax.length, rateV mid ax o m k = intensity1dV mid ax o m := by
  have hon : o < ax.length := by have := hax.hi; omega
  have hn : 0 < ax.length := by omega
  have hlo := hax.lo
  have hhi := hax.hi
  set f := bnd mid ax.length ax with hf
  have hcell : ∀ k, k < ax.length → k ≠ o → rateV mid ax o m k = m (f k) (f (k + 1)) := by
    intro k hk hko
    unfold rateV cellHi
    rw [if_neg hko, cellLo_eq_bnd mid _ ax k hk, cellHiN_eq_bnd mid _ ax k hk]
  have hmono := bnd_mono mid hm hi ax hax.inc
  rw [sum_range_splitV _ o _ hon]
  have e0 : rateV mid ax o m o = 0 := by unfold rateV; simp
  have eL : ∑ k ∈ Ico 0 o, rateV mid ax o m k = m (f 0) (f o) := by
    rw [sum_congr rfl (fun k hk => hcell k (by have := (mem_Ico.mp hk).2; omega) (by have := (mem_Ico.mp hk).2; omega))]
    apply teleV m f 0 o hlo
    intro k hk1 hk2
    exact hM.add _ _ _ (hmono 0 k (by omega) (by omega)) (hmono k (k + 1) (by omega) (by omega))
      (Or.inl (bnd_neg mid hm hi ax hax.inc o hlo hon hax.zero (k + 1) (by omega)))
  have eR : ∑ k ∈ Ico (o + 1) ax.length, rateV mid ax o m k = m (f (o + 1)) (f ax.length) := by
    rw [sum_congr rfl (fun k hk => hcell k (mem_Ico.mp hk).2 (by have := (mem_Ico.mp hk).1; omega))]
    apply teleV m f (o + 1) ax.length hhi
    intro k hk1 hk2
    exact hM.add _ _ _ (hmono (o + 1) k (by omega) (by omega)) (hmono k (k + 1) (by omega) (by omega))
      (Or.inr (bnd_pos mid hm hi ax hax.inc o hhi hax.zero (o + 1) (by omega) (by omega)))
  rw [e0, eL, eR]
  unfold intensity1dV
  rw [hLeft_eq_bnd mid _ ax o hon hax.zero, hRight_eq_bnd mid _ ax o hon hax.zero,
    ← bnd_zero mid hm hi ax hax.inc hn, ← bnd_last mid hm hi ax hax.inc hn]
  ring

/-- all rates are non-negative, values in `V` -/
theorem rates_nonneg_V (m : ℚ → ℚ → V) (hM : IsMassV m) (k : ℕ) (hk : k < ax.length) : 0 ≤ rateV mid ax o m k := by
  unfold rateV
  by_cases h : k = o
  · simp [h]
  · rw [if_neg h]
    exact hM.nonneg _ _ (le_trans (cellLo_le_pt mid hm hi ax hax.inc k hk) (pt_le_cellHi mid hm hi ax hax.inc k hk))
      (cell_away mid hm hi ax o hax k hk h)

/-- the chain's truncated measure gives each state the mass of its cell under the original measure, values in `V` -/
theorem rateV_chainMassV (m : ℚ → ℚ → V) (k : ℕ) (hk : k < ax.length) :
    rateV mid ax o (chainMassV ax m) k = rateV mid ax o m k := by
  unfold rateV chainMassV truncateV
  by_cases h : k = o
  · simp [h]
  · rw [if_neg h, if_neg h]
    obtain ⟨h1, h2⟩ := cell_inside_truncation mid hm hi ax o hax k hk
    have h3 : cellLo mid ax k ≤ cellHi mid ax k :=
      le_trans (cellLo_le_pt mid hm hi ax hax.inc k hk) (pt_le_cellHi mid hm hi ax hax.inc k hk)
    unfold truncIv; simp only
    rw [min_eq_left (le_trans h3 h2), max_eq_left h1, max_eq_left (le_trans h1 h3), min_eq_left h2]

end one_axis

/-! ### one cell of the sandwich, values in `V` -/

theorem cell_second_moment_V (m m2 : ℚ → ℚ → V) (hM : IsMassV m) (h2 : IsSecondMomentV m m2) (lo x hi : ℚ) (h1 : lo ≤ x)
    (h3 : x ≤ hi) (haw : Away lo hi) :
    |(x : V) ^ 2 * m lo hi - m2 lo hi| ≤ (((max (lo ^ 2) (hi ^ 2) - min (lo ^ 2) (hi ^ 2) : ℚ)) : V) * m lo hi := by
  have hq := hM.nonneg lo hi (le_trans h1 h3) haw
  have c1 : (lo : V) ≤ x := by exact_mod_cast h1
  have c3 : (x : V) ≤ hi := by exact_mod_cast h3
  rcases haw with h | h
  · obtain ⟨b1, b2⟩ := h2.neg lo hi (le_trans h1 h3) h
    have s1 : hi ^ 2 ≤ x ^ 2 := sq_le_sq_of_nonpos (by linarith) h3
    have s2 : x ^ 2 ≤ lo ^ 2 := sq_le_sq_of_nonpos (by linarith) h1
    have s1' : (hi : V) ^ 2 ≤ (x : V) ^ 2 := by exact_mod_cast s1
    have s2' : (x : V) ^ 2 ≤ (lo : V) ^ 2 := by exact_mod_cast s2
    rw [max_eq_left (le_trans s1 s2), min_eq_right (le_trans s1 s2), abs_le]
    push_cast
    constructor <;> nlinarith
  · obtain ⟨b1, b2⟩ := h2.pos lo hi h (le_trans h1 h3)
    have s1 : lo ^ 2 ≤ x ^ 2 := sq_le_sq_of_nonneg (le_of_lt h) h1
    have s2 : x ^ 2 ≤ hi ^ 2 := sq_le_sq_of_nonneg (by linarith) h3
    have s1' : (lo : V) ^ 2 ≤ (x : V) ^ 2 := by exact_mod_cast s1
    have s2' : (x : V) ^ 2 ≤ (hi : V) ^ 2 := by exact_mod_cast s2
    rw [max_eq_right (le_trans s1 s2), min_eq_left (le_trans s1 s2), abs_le]
    push_cast
    constructor <;> nlinarith

theorem cell_first_moment_V (m m1 : ℚ → ℚ → V) (hM : IsMassV m) (h1m : IsFirstMomentV m m1) (lo x hi : ℚ) (h1 : lo ≤ x)
    (h3 : x ≤ hi) (haw : Away lo hi) :
    |(x : V) * m lo hi - m1 lo hi| ≤ ((hi - lo : ℚ) : V) * m lo hi := by
  have hq := hM.nonneg lo hi (le_trans h1 h3) haw
  obtain ⟨b1, b2⟩ := h1m.bound lo hi (le_trans h1 h3) haw
  have c1 : (lo : V) ≤ x := by exact_mod_cast h1
  have c3 : (x : V) ≤ hi := by exact_mod_cast h3
  rw [abs_le]
  push_cast
  constructor <;> nlinarith

/-! ### the gaps, values in `V` -/

section gaps
variable (mid : ℚ → ℚ → ℚ) (hm : Between mid) (hi : MidIdem mid) (ax : List ℚ) (o : ℕ) (hax : AxisOK ax o)
include hm hi hax

/-- **variance gap for masses valued in an ordered field**: `|Σ x_k² q_k − (m2(left block) + m2(right block))| ≤ Σ osc_k(x²) q_k` -/
theorem variance_gap_V (m m2 : ℚ → ℚ → V) (hM : IsMassV m) (h2 : IsSecondMomentV m m2) :
    |∑ k ∈ range ax.length, ((pt ax k : ℚ) : V) ^ 2 * rateV mid ax o m k - intensity1dV mid ax o m2| ≤
      ∑ k ∈ range ax.length, ((oscSq mid ax k : ℚ) : V) * rateV mid ax o m k := by
  rw [← sum_rates_eq_intensity_1d_V mid hm hi ax o hax m2 h2.mass, ← sum_sub_distrib]
  refine le_trans (abs_sum_le_sum_abs _ _) (sum_le_sum ?_)
  intro k hk
  have hk' := mem_range.mp hk
  unfold rateV oscSq
  by_cases hko : k = o
  · simp [hko]
  · rw [if_neg hko, if_neg hko]
    have s := state_in_cell mid hm hi ax hax.inc k hk'
    exact cell_second_moment_V m m2 hM h2 _ _ _ s.1 s.2.1 (cell_away mid hm hi ax o hax k hk' hko)

/-- the same with the chain's own (truncated) rates -/
theorem variance_gap_chain_V (m m2 : ℚ → ℚ → V) (hM : IsMassV m) (h2 : IsSecondMomentV m m2) :
    |∑ k ∈ range ax.length, ((pt ax k : ℚ) : V) ^ 2 * rateV mid ax o (chainMassV ax m) k - intensity1dV mid ax o m2| ≤
      ∑ k ∈ range ax.length, ((oscSq mid ax k : ℚ) : V) * rateV mid ax o (chainMassV ax m) k := by
  have e : ∀ k ∈ range ax.length, rateV mid ax o (chainMassV ax m) k = rateV mid ax o m k :=
    fun k hk => rateV_chainMassV mid hm hi ax o hax m k (mem_range.mp hk)
  have e1 : ∑ k ∈ range ax.length, ((pt ax k : ℚ) : V) ^ 2 * rateV mid ax o (chainMassV ax m) k =
      ∑ k ∈ range ax.length, ((pt ax k : ℚ) : V) ^ 2 * rateV mid ax o m k :=
    sum_congr rfl (fun k hk => by rw [e k hk])
  have e2 : ∑ k ∈ range ax.length, ((oscSq mid ax k : ℚ) : V) * rateV mid ax o (chainMassV ax m) k =
      ∑ k ∈ range ax.length, ((oscSq mid ax k : ℚ) : V) * rateV mid ax o m k :=
    sum_congr rfl (fun k hk => by rw [e k hk])
  rw [e1, e2]
  exact variance_gap_V mid hm hi ax o hax m m2 hM h2

/-- **mean gap for masses valued in an ordered field** -/
theorem mean_gap_V (m m1 : ℚ → ℚ → V) (hM : IsMassV m) (h1 : IsFirstMomentV m m1) :
    |∑ k ∈ range ax.length, (((pt ax k : ℚ) : V) * rateV mid ax o m k - rateV mid ax o m1 k)| ≤
      ∑ k ∈ range ax.length, ((cellHi mid ax k - cellLo mid ax k : ℚ) : V) * rateV mid ax o m k := by
  refine le_trans (abs_sum_le_sum_abs _ _) (sum_le_sum ?_)
  intro k hk
  have hk' := mem_range.mp hk
  unfold rateV
  by_cases hko : k = o
  · simp [hko]
  · rw [if_neg hko, if_neg hko]
    have s := state_in_cell mid hm hi ax hax.inc k hk'
    exact cell_first_moment_V m m1 hM h1 _ _ _ s.1 s.2.1 (cell_away mid hm hi ax o hax k hk' hko)

end gaps

end thms

end Rpylib.Drift
