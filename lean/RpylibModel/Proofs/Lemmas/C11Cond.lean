/-
Helper lemmas for C11: the Clayton conditional distribution `F_ε(x)` (levycopula.py:89-106) is a distribution function
in `x`: values in [0,1], non-decreasing on x ≠ 0 (the jump at x = 0 is from below 1−η (resp. η) to above it), limits 0 at
−∞ and 1 at +∞.  Abstract powers first (`p = (·)^θ` non-decreasing and ≥ 0 on [0,∞), `q = (·)^(-1-1/θ)` non-increasing
with values in [0,1] on [1,∞)), then `Real.rpow` for every θ > 0, then the executable θ = 1 instance `condDist1`.
-/
import RpylibModel.Model.Copula
import RpylibModel.Proofs.Lemmas.C11Theta1
import Mathlib.Analysis.SpecialFunctions.Pow.Real
import Mathlib.Analysis.SpecialFunctions.Pow.Continuity
import Mathlib.Topology.Algebra.Order.Field
import Mathlib.Tactic.Linarith
import Mathlib.Tactic.Positivity

set_option linter.unusedSectionVars false
set_option linter.unusedSimpArgs false

namespace Rpylib.Copula

section abstract
variable {K : Type} [Field K] [LinearOrder K] [IsStrictOrderedRing K]

/-- what monotonicity / range need of the two powers -/
structure CondPowers (p q : K → K) : Prop where
  p_mono : ∀ s t, 0 ≤ s → s ≤ t → p s ≤ p t
  p_nonneg : ∀ s, 0 ≤ s → 0 ≤ p s
  q_anti : ∀ s t, 1 ≤ s → s ≤ t → q t ≤ q s
  q_nonneg : ∀ s, 1 ≤ s → 0 ≤ q s
  q_le_one : ∀ s, 1 ≤ s → q s ≤ 1

/-- `T(x) = q(1 + p|ε/x|)` -/
def condT (p q : K → K) (e x : K) : K := q (1 + p |e / x|)

theorem condT_range {p q : K → K} (h : CondPowers p q) (e x : K) : 0 ≤ condT p q e x ∧ condT p q e x ≤ 1 := by
  have h1 : (1 : K) ≤ 1 + p |e / x| := by have := h.p_nonneg _ (abs_nonneg (e / x)); linarith
  exact ⟨h.q_nonneg _ h1, h.q_le_one _ h1⟩

/-- `T` decreases towards 0 on both sides: `|x| ≤ |y|` (same side or not) ⇒ `T x ≤ T y` -/
theorem condT_mono_abs {p q : K → K} (h : CondPowers p q) (e x y : K) (hx : x ≠ 0) (hxy : |x| ≤ |y|) :
    condT p q e x ≤ condT p q e y := by
  unfold condT
  have hx' : 0 < |x| := abs_pos.mpr hx
  have hr : |e / y| ≤ |e / x| := by
    rw [abs_div, abs_div]
    exact div_le_div_of_nonneg_left (abs_nonneg e) hx' hxy
  have hp := h.p_mono _ _ (abs_nonneg _) hr
  have h1 : (1 : K) ≤ 1 + p |e / y| := by have := h.p_nonneg _ (abs_nonneg (e / y)); linarith
  exact h.q_anti _ _ h1 (by linarith)

theorem condDist_eq (p q : K → K) (eta e x : K) :
    condDist p q (fun a b => |a / b|) eta e x =
      if 0 ≤ e then 1 - eta + condT p q e x * (eta - (if x < 0 then 1 else 0))
      else eta + condT p q e x * ((if 0 ≤ x then 1 else 0) - eta) := rfl

/-- values in [0,1] -/
theorem cond_dist_range {p q : K → K} (h : CondPowers p q) (eta e x : K) (h0 : 0 ≤ eta) (h1 : eta ≤ 1) :
    0 ≤ condDist p q (fun a b => |a / b|) eta e x ∧ condDist p q (fun a b => |a / b|) eta e x ≤ 1 := by
  obtain ⟨t0, t1⟩ := condT_range h e x
  rw [condDist_eq]
  have m1 : condT p q e x * eta ≤ eta := by nlinarith
  have m2 : condT p q e x * (1 - eta) ≤ 1 - eta := by nlinarith
  have m3 : 0 ≤ condT p q e x * eta := mul_nonneg t0 h0
  have m4 : 0 ≤ condT p q e x * (1 - eta) := mul_nonneg t0 (by linarith)
  split_ifs <;> constructor <;> nlinarith

/-- non-decreasing in `x` on `x ≠ 0` -/
theorem cond_dist_mono {p q : K → K} (h : CondPowers p q) (eta e x y : K) (h0 : 0 ≤ eta) (h1 : eta ≤ 1) (hx : x ≠ 0)
    (hy : y ≠ 0) (hxy : x ≤ y) :
    condDist p q (fun a b => |a / b|) eta e x ≤ condDist p q (fun a b => |a / b|) eta e y := by
  obtain ⟨tx0, tx1⟩ := condT_range h e x
  obtain ⟨ty0, ty1⟩ := condT_range h e y
  have h1' : 0 ≤ 1 - eta := by linarith
  rw [condDist_eq, condDist_eq]
  rcases lt_or_gt_of_ne hx with hxn | hxp
  · rcases lt_or_gt_of_ne hy with hyn | hyp
    · -- both negative: |y| ≤ |x|, T y ≤ T x, coefficient ≤ 0
      have hT := condT_mono_abs h e y x hy (by rw [abs_of_neg hxn, abs_of_neg hyn]; linarith)
      have a1 := mul_le_mul_of_nonneg_right hT h1'
      have a2 := mul_le_mul_of_nonneg_right hT h0
      simp only [hxn, hyn, not_le.mpr hxn, not_le.mpr hyn, if_true, if_false]
      split_ifs <;> nlinarith
    · have a1 := mul_nonneg tx0 h1'
      have a2 := mul_nonneg ty0 h0
      have a3 := mul_nonneg tx0 h0
      have a4 := mul_nonneg ty0 h1'
      simp only [hxn, not_le.mpr hxn, not_lt.mpr hyp.le, hyp.le, if_true, if_false]
      split_ifs <;> nlinarith
  · have hyp : 0 < y := lt_of_lt_of_le hxp hxy
    have hT := condT_mono_abs h e x y hx (by rw [abs_of_pos hxp, abs_of_pos hyp]; exact hxy)
    have a1 := mul_le_mul_of_nonneg_right hT h1'
    have a2 := mul_le_mul_of_nonneg_right hT h0
    simp only [not_lt.mpr hxp.le, not_lt.mpr hyp.le, hxp.le, hyp.le, if_true, if_false]
    split_ifs <;> nlinarith

end abstract

/-! ### θ = 1 over ℚ: the executable `condDist1` -/

theorem rabs_eq_abs (x : Rat) : rabs x = |x| := by
  unfold rabs; split_ifs with h
  · exact (abs_of_neg h).symm
  · exact (abs_of_nonneg (not_lt.mp h)).symm

theorem condPowers_theta1 : CondPowers (fun r : Rat => r) (fun y => 1 / (y * y)) where
  p_mono s t _ h := h
  p_nonneg s h := h
  q_anti s t hs hst := by
    have : 0 < s := by linarith
    exact one_div_le_one_div_of_le (by positivity) (by nlinarith)
  q_nonneg s hs := by positivity
  q_le_one s hs := by
    rw [div_le_one (by nlinarith)]; nlinarith

theorem condDist1_eq (eta e x : Rat) :
    condDist1 eta e x = condDist (fun r : Rat => r) (fun y => 1 / (y * y)) (fun a b => |a / b|) eta e x := by
  unfold condDist1 condDist; simp only [rabs_eq_abs]

/-! ### every θ > 0 over ℝ -/

theorem condPowers_real (θ : ℝ) (hθ : 0 < θ) : CondPowers (fun t : ℝ => t ^ θ) (fun y => y ^ (-1 - 1 / θ)) where
  p_mono s t hs hst := Real.rpow_le_rpow hs hst hθ.le
  p_nonneg s hs := Real.rpow_nonneg hs _
  q_anti s t hs hst := by
    have hp : -1 - 1 / θ ≤ 0 := by have : 0 < 1 / θ := by positivity
                                   linarith
    exact Real.rpow_le_rpow_of_nonpos (by linarith) hst hp
  q_nonneg s hs := Real.rpow_nonneg (by linarith) _
  q_le_one s hs := by
    have hp : -1 - 1 / θ ≤ 0 := by have : 0 < 1 / θ := by positivity
                                   linarith
    exact Real.rpow_le_one_of_one_le_of_nonpos hs hp

open Filter Topology in
/-- `T(x) → 1` as `x → ±∞` -/
theorem condT_real_tendsto (θ : ℝ) (hθ : 0 < θ) (e : ℝ) (l : Filter ℝ) (hl : Tendsto (fun x : ℝ => e / x) l (𝓝 0)) :
    Tendsto (fun x => condT (fun t : ℝ => t ^ θ) (fun y => y ^ (-1 - 1 / θ)) e x) l (𝓝 1) := by
  unfold condT
  have h2 : Tendsto (fun x : ℝ => |e / x|) l (𝓝 0) := by simpa using hl.abs
  have h3 : Tendsto (fun x : ℝ => |e / x| ^ θ) l (𝓝 0) := by
    have := h2.rpow_const (p := θ) (Or.inr hθ.le)
    rwa [Real.zero_rpow hθ.ne'] at this
  have h4 : Tendsto (fun x : ℝ => 1 + |e / x| ^ θ) l (𝓝 1) := by simpa using tendsto_const_nhds.add h3
  have h5 := h4.rpow_const (p := -1 - 1 / θ) (Or.inl one_ne_zero)
  rwa [Real.one_rpow] at h5

open Filter Topology in
theorem cond_real_tendsto_atTop (θ : ℝ) (hθ : 0 < θ) (eta e : ℝ) :
    Tendsto (fun x => condDist (fun t : ℝ => t ^ θ) (fun y => y ^ (-1 - 1 / θ)) (fun a b => |a / b|) eta e x)
      atTop (𝓝 1) := by
  have hT := condT_real_tendsto θ hθ e atTop (tendsto_const_nhds.div_atTop tendsto_id)
  by_cases he : 0 ≤ e
  · have lim : Tendsto (fun x => 1 - eta + condT (fun t : ℝ => t ^ θ) (fun y => y ^ (-1 - 1 / θ)) e x * (eta - 0))
        atTop (𝓝 1) := by
      have := (tendsto_const_nhds (x := 1 - eta)).add (hT.mul_const (eta - 0))
      simpa using this
    refine lim.congr' ?_
    filter_upwards [eventually_gt_atTop 0] with x hx
    rw [condDist_eq, if_pos he, if_neg (not_lt.mpr hx.le)]
  · have lim : Tendsto (fun x => eta + condT (fun t : ℝ => t ^ θ) (fun y => y ^ (-1 - 1 / θ)) e x * (1 - eta))
        atTop (𝓝 1) := by
      have := (tendsto_const_nhds (x := eta)).add (hT.mul_const (1 - eta))
      simpa using this
    refine lim.congr' ?_
    filter_upwards [eventually_gt_atTop 0] with x hx
    rw [condDist_eq, if_neg he, if_pos hx.le]

open Filter Topology in
theorem cond_real_tendsto_atBot (θ : ℝ) (hθ : 0 < θ) (eta e : ℝ) :
    Tendsto (fun x => condDist (fun t : ℝ => t ^ θ) (fun y => y ^ (-1 - 1 / θ)) (fun a b => |a / b|) eta e x)
      atBot (𝓝 0) := by
  have hT := condT_real_tendsto θ hθ e atBot (tendsto_const_nhds.div_atBot tendsto_id)
  by_cases he : 0 ≤ e
  · have lim : Tendsto (fun x => 1 - eta + condT (fun t : ℝ => t ^ θ) (fun y => y ^ (-1 - 1 / θ)) e x * (eta - 1))
        atBot (𝓝 0) := by
      have := (tendsto_const_nhds (x := 1 - eta)).add (hT.mul_const (eta - 1))
      simpa using this
    refine lim.congr' ?_
    filter_upwards [eventually_lt_atBot 0] with x hx
    rw [condDist_eq, if_pos he, if_pos hx]
  · have lim : Tendsto (fun x => eta + condT (fun t : ℝ => t ^ θ) (fun y => y ^ (-1 - 1 / θ)) e x * (0 - eta))
        atBot (𝓝 0) := by
      have := (tendsto_const_nhds (x := eta)).add (hT.mul_const (0 - eta))
      simpa using this
    refine lim.congr' ?_
    filter_upwards [eventually_lt_atBot 0] with x hx
    rw [condDist_eq, if_neg he, if_neg (not_le.mpr hx)]

end Rpylib.Copula
