/-
C01 in general dimension d (the generic `_mass_nd` branch of `compute_intensity_of_jumps` / `create_sampling_method`):
list lemmas about `cartesian`, the decomposition of the states of a product grid into the 3^d products of
(centre, left, right) index ranges, and the grid-sum lemma for a box mass in any dimension.

Boxes are `List (ℚ × ℚ)`; a box mass is additive under a split of any one coordinate at a point ≠ 0 and non-negative on
boxes away from the origin (`IsBoxMassN`; `IsBoxMass2/3` are its d = 2, 3 instances).
-/
import RpylibModel.Proofs.Lemmas.C01Box

set_option linter.dupNamespace false
set_option linter.unusedSectionVars false
set_option linter.unusedVariables false

namespace Rpylib.Cells
open Rpylib.Grid Finset

/-! ### list sums -/

theorem list_sum_comm {α β : Type} (l1 : List α) (l2 : List β) (f : α → β → ℚ) :
    (l1.map (fun a => (l2.map (fun b => f a b)).sum)).sum = (l2.map (fun b => (l1.map (fun a => f a b)).sum)).sum := by
  induction l1 with
  | nil => simp
  | cons a t ih =>
    simp only [List.map_cons, List.sum_cons, ih]
    rw [List.sum_map_add]

theorem sum_map_range' (F : ℕ → ℚ) (p len : ℕ) : ((List.range' p len).map F).sum = ∑ k ∈ Ico p (p + len), F k := by
  induction len generalizing p with
  | zero => simp
  | succ n ih =>
    rw [List.range'_succ, List.map_cons, List.sum_cons, ih (p + 1)]
    rw [sum_eq_sum_Ico_succ_bot (show p < p + (n + 1) by omega)]
    have : p + 1 + n = p + (n + 1) := by omega
    rw [this]

theorem list_sum_congr {α : Type} (l : List α) (f g : α → ℚ) (h : ∀ x ∈ l, f x = g x) : (l.map f).sum = (l.map g).sum := by
  rw [List.map_congr_left h]

/-! ### `cartesian` -/

theorem cartesian_cons {α : Type} (xs : List α) (rest : List (List α)) :
    cartesian (xs :: rest) = xs.flatMap (fun x => (cartesian rest).map (fun t => x :: t)) := rfl

theorem sum_cartesian_cons {α : Type} (xs : List α) (rest : List (List α)) (F : List α → ℚ) :
    ((cartesian (xs :: rest)).map F).sum = (xs.map (fun x => ((cartesian rest).map (fun t => F (x :: t))).sum)).sum := by
  rw [cartesian_cons, sum_map_flatMap]
  simp only [List.map_map, Function.comp_def]

theorem mem_cartesian {α : Type} : ∀ (ls : List (List α)) (t : List α), t ∈ cartesian ls ↔ List.Forall₂ (· ∈ ·) t ls := by
  intro ls
  induction ls with
  | nil => intro t; simp [cartesian]
  | cons xs rest ih =>
    intro t
    rw [cartesian_cons, List.mem_flatMap]
    constructor
    · rintro ⟨x, hx, ht⟩
      obtain ⟨t', ht', rfl⟩ := List.mem_map.mp ht
      exact List.Forall₂.cons hx ((ih t').mp ht')
    · intro h
      cases h with
      | cons hx hrest => exact ⟨_, hx, List.mem_map.mpr ⟨_, (ih _).mpr hrest, rfl⟩⟩

theorem cartesian_ne_nil {α : Type} : ∀ (ls : List (List α)), (∀ l ∈ ls, l ≠ []) → cartesian ls ≠ [] := by
  intro ls
  induction ls with
  | nil => intro _; simp [cartesian]
  | cons xs rest ih =>
    intro h
    have hx : xs ≠ [] := h xs (List.mem_cons_self)
    have hr := ih (fun l hl => h l (List.mem_cons_of_mem _ hl))
    obtain ⟨x, xs', rfl⟩ := List.exists_cons_of_ne_nil hx
    obtain ⟨c, cs, hc⟩ := List.exists_cons_of_ne_nil hr
    rw [cartesian_cons, List.flatMap_cons, hc]
    simp

/-! ### boxes in any dimension -/

def BoxOrdered (b : Box) : Prop := ∀ I ∈ b, I.1 ≤ I.2

/-- some side lies strictly on one side of 0 -/
def BoxAway (b : Box) : Prop := ∃ I ∈ b, Away I.1 I.2

/-- `model.mass` on boxes of any dimension: additive under a split of one coordinate at a point `b ≠ 0`, non-negative, on
    boxes away from the origin -/
structure IsBoxMassN (m : Box → ℚ) : Prop where
  add : ∀ (pre post : Box) (a b c : ℚ), a ≤ b → b ≤ c → b ≠ 0 → BoxOrdered pre → BoxOrdered post →
    BoxAway (pre ++ (a, c) :: post) → m (pre ++ (a, c) :: post) = m (pre ++ (a, b) :: post) + m (pre ++ (b, c) :: post)
  nonneg : ∀ b, BoxOrdered b → BoxAway b → 0 ≤ m b

theorem boxAway_sub {pre post : Box} {a c a' c' : ℚ} (h : BoxAway (pre ++ (a, c) :: post)) (ha : a ≤ a') (hc : c' ≤ c) :
    BoxAway (pre ++ (a', c') :: post) := by
  obtain ⟨I, hI, hw⟩ := h
  rcases List.mem_append.mp hI with h1 | h1
  · exact ⟨I, List.mem_append.mpr (Or.inl h1), hw⟩
  · rcases List.mem_cons.mp h1 with h2 | h2
    · subst h2
      exact ⟨(a', c'), List.mem_append.mpr (Or.inr (List.mem_cons_self)), away_sub hw ha hc⟩
    · exact ⟨I, List.mem_append.mpr (Or.inr (List.mem_cons_of_mem _ h2)), hw⟩

theorem boxOrdered_append {b1 b2 : Box} (h1 : BoxOrdered b1) (h2 : BoxOrdered b2) : BoxOrdered (b1 ++ b2) := by
  intro I hI
  rcases List.mem_append.mp hI with h | h
  · exact h1 I h
  · exact h2 I h

/-! ### the grid-sum lemma in any dimension -/

/-- half-open index range `[p, q)` as the list of its indices -/
def rangeList (r : ℕ × ℕ) : List ℕ := List.range' r.1 (r.2 - r.1)

/-- cells of the index tuple `t` for the boundary sequences `fs` -/
def cellsOf (fs : List (ℕ → ℚ)) (t : List ℕ) : Box := List.zipWith (fun f i => (f i, f (i + 1))) fs t

/-- hulls of the index ranges `R` -/
def hullsOf (fs : List (ℕ → ℚ)) (R : List (ℕ × ℕ)) : Box := List.zipWith (fun f r => (f r.1, f r.2)) fs R

/-- a boundary sequence that is weakly increasing and non-zero inside the non-empty range `r` -/
def GoodRange (f : ℕ → ℚ) (r : ℕ × ℕ) : Prop :=
  r.1 < r.2 ∧ (∀ i, r.1 ≤ i → i < r.2 → f i ≤ f (i + 1)) ∧ (∀ i, r.1 < i → i < r.2 → f i ≠ 0)

theorem hullsOf_ordered : ∀ (fs : List (ℕ → ℚ)) (R : List (ℕ × ℕ)), List.Forall₂ GoodRange fs R → BoxOrdered (hullsOf fs R) := by
  intro fs R h
  induction h with
  | nil => intro I hI; simp [hullsOf] at hI
  | cons hg _ ih =>
    intro I hI
    simp only [hullsOf, List.zipWith_cons_cons, List.mem_cons] at hI
    rcases hI with rfl | hI
    · exact mono_of_step _ _ _ hg.2.1 _ _ (le_refl _) (le_of_lt hg.1) (le_refl _)
    · exact ih I hI

/-- **grid-sum lemma, any dimension**: behind a fixed prefix `pre`, the masses of the cells of a product of index ranges add
    up to the mass of the product of their hulls, provided the hull box is away from the origin -/
theorem grid_sum_nd (m : Box → ℚ) (hM : IsBoxMassN m) : ∀ (fs : List (ℕ → ℚ)) (R : List (ℕ × ℕ)),
    List.Forall₂ GoodRange fs R → ∀ pre : Box, BoxOrdered pre → BoxAway (pre ++ hullsOf fs R) →
    ((cartesian (R.map rangeList)).map (fun t => m (pre ++ cellsOf fs t))).sum = m (pre ++ hullsOf fs R) := by
  intro fs R h
  induction h with
  | nil => intro pre _ _; simp [cartesian, cellsOf, hullsOf]
  | @cons f r fs' R' hg hrest ih =>
    intro pre hpre haw
    obtain ⟨hlt, hstep, hnz⟩ := hg
    have mf := mono_of_step f r.1 r.2 hstep
    have hH : BoxOrdered (hullsOf fs' R') := hullsOf_ordered fs' R' hrest
    have hhull : hullsOf (f :: fs') (r :: R') = (f r.1, f r.2) :: hullsOf fs' R' := rfl
    rw [hhull] at haw ⊢
    rw [List.map_cons, sum_cartesian_cons]
    -- inner sums by the induction hypothesis with the prefix extended by the cell of coordinate 0
    have inner : ∀ i ∈ rangeList r,
        ((cartesian (R'.map rangeList)).map (fun t => m (pre ++ cellsOf (f :: fs') (i :: t)))).sum =
          m (pre ++ (f i, f (i + 1)) :: hullsOf fs' R') := by
      intro i hi
      have hi' : r.1 ≤ i ∧ i < r.2 := by
        unfold rangeList at hi
        have := List.mem_range'_1.mp hi
        omega
      have e : ∀ t, pre ++ cellsOf (f :: fs') (i :: t) = (pre ++ [(f i, f (i + 1))]) ++ cellsOf fs' t := by
        intro t; simp [cellsOf]
      simp only [e]
      have hpre' : BoxOrdered (pre ++ [(f i, f (i + 1))]) :=
        boxOrdered_append hpre (by intro I hI; simp at hI; subst hI; exact hstep i hi'.1 hi'.2)
      have haw' : BoxAway ((pre ++ [(f i, f (i + 1))]) ++ hullsOf fs' R') := by
        rw [List.append_assoc]; simp only [List.singleton_append]
        exact boxAway_sub haw (mf r.1 i (le_refl _) hi'.1 (le_of_lt hi'.2)) (mf (i + 1) r.2 (by omega) (by omega) (le_refl _))
      rw [ih _ hpre' haw', List.append_assoc]; rfl
    rw [list_sum_congr _ _ _ inner]
    unfold rangeList
    rw [sum_map_range', Nat.add_sub_cancel' (le_of_lt hlt)]
    refine tele (fun a c => m (pre ++ (a, c) :: hullsOf fs' R')) f r.1 r.2 hlt ?_
    intro k hk1 hk2
    exact hM.add pre (hullsOf fs' R') (f r.1) (f k) (f (k + 1)) (mf r.1 k (le_refl _) (le_of_lt hk1) (le_of_lt hk2))
      (hstep k (le_of_lt hk1) hk2) (hnz k hk1 hk2) hpre hH
      (boxAway_sub haw (le_refl _) (mf (k + 1) r.2 (by omega) (by omega) (le_refl _)))

end Rpylib.Cells
