/-
Helper lemmas for C11: the completely dependent copula in d = 3 on boxes of (−∞,∞]³ with infinite end points.
Truncation: with `M` larger than every finite end point, replacing ±∞ by ±M does not change `dep` at any corner that is
not (+∞,+∞,+∞) or (−∞,−∞,−∞); those two corners contribute +∞ to the volume; so the volume is +∞ or the volume of
a finite box.
-/
import RpylibModel.Proofs.Lemmas.C11Dep3
import RpylibModel.Proofs.Lemmas.C11Inf
import RpylibModel.Proofs.Lemmas.C11DepInf

set_option linter.unusedSectionVars false
set_option linter.unusedSimpArgs false
set_option linter.unusedTactic false
set_option linter.unreachableTactic false

namespace Rpylib.Copula

/-- truncation of the extended line at ±M -/
def trM (M : Rat) : Ext Rat → Rat
  | .negInf => -M
  | .fin r => r
  | .posInf => M

def BddM (M : Rat) : Ext Rat → Prop
  | .fin r => -M < r ∧ r < M
  | _ => True

theorem dep_trunc (M : Rat) (hM : 0 < M) (u v w : Ext Rat) (bu : BddM M u) (bv : BddM M v) (bw : BddM M w)
    (np : ¬ (u = .posInf ∧ v = .posInf ∧ w = .posInf)) (nn : ¬ (u = .negInf ∧ v = .negInf ∧ w = .negInf)) :
    dep [u, v, w] = .fin (depq3 (trM M u) (trM M v) (trM M w)) := by
  have hM' : ¬ (M < 0) := not_lt.mpr hM.le
  have hM'' : -M < 0 := by linarith
  have hM3 : ¬ (0 < -M) := by linarith
  rcases u with _ | u | _ <;> rcases v with _ | v | _ <;> rcases w with _ | w | _ <;>
    simp only [BddM, trM, not_true_eq_false, and_self, not_false_eq_true, reduceCtorEq, false_and, and_false]
      at bu bv bw np nn ⊢
  all_goals first
    | exact dep_fin_three _ _ _
    | contradiction
    | skip
  all_goals
    simp [dep, depq3, Ext.isPos, Ext.isNeg, extMin, extMax, Ext.min, Ext.max, Ext.le, Ext.toEVal, hM, hM', hM'', hM3]
  all_goals
    (simp only [min_def, max_def]
     split_ifs <;> first
       | rfl
       | (exfalso; linarith [bu.1, bu.2])
       | (exfalso; linarith [bv.1, bv.2])
       | (exfalso; linarith [bw.1, bw.2])
       | (simp_all; done))

/-- `trM` is monotone on bounded arguments -/
theorem trM_mono (M : Rat) (hM : 0 < M) (a b : Ext Rat) (l : Ext.LE a b) (ba : BddM M a) (bb : BddM M b) :
    trM M a ≤ trM M b := by
  rcases a with _ | a | _ <;> rcases b with _ | b | _ <;> simp only [Ext.LE, BddM, trM] at l ba bb ⊢ <;>
    first | linarith | linarith [bb.1] | linarith [ba.2] | exact l | skip

/-- size of an end point: |r| for a finite one, 0 at ±∞ -/
def absE : Ext Rat → Rat
  | .fin r => |r|
  | _ => 0

theorem absE_nonneg (x : Ext Rat) : 0 ≤ absE x := by
  rcases x with _ | r | _ <;> simp [absE]

theorem bdd_of_absE_lt (M : Rat) (x : Ext Rat) (h : absE x < M) : BddM M x := by
  rcases x with _ | r | _ <;> simp only [BddM, absE] at h ⊢
  exact abs_lt.mp h

@[simp] theorem EVal.neg_negInf : (-(EVal.negInf) : EVal) = EVal.posInf := rfl

theorem dep_ppp : dep [.posInf, .posInf, .posInf] = .posInf := by decide
theorem dep_nnn : dep [.negInf, .negInf, .negInf] = .negInf := by decide

/-- **dependent copula, d = 3, every box of (−∞,∞]³** (sides `(a,b]` with `a ≠ +∞`, `b ≠ −∞`) -/
theorem dep_three_increasing_all_aux (a1 b1 a2 b2 a3 b3 : Ext Rat) (l1 : Ext.LE a1 b1) (l2 : Ext.LE a2 b2)
    (l3 : Ext.LE a3 b3) (na1 : a1 ≠ .posInf) (na2 : a2 ≠ .posInf) (na3 : a3 ≠ .posInf) (nb1 : b1 ≠ .negInf)
    (nb2 : b2 ≠ .negInf) (nb3 : b3 ≠ .negInf) :
    EVal.Nonneg (volume dep [a1, a2, a3] [b1, b2, b3]) := by
  -- the cut-off
  set M : Rat := 1 + absE a1 + absE b1 + absE a2 + absE b2 + absE a3 + absE b3 with hMdef
  have p1 := absE_nonneg a1; have p2 := absE_nonneg b1; have p3 := absE_nonneg a2
  have p4 := absE_nonneg b2; have p5 := absE_nonneg a3; have p6 := absE_nonneg b3
  have hM : 0 < M := by rw [hMdef]; linarith
  have Ba1 : BddM M a1 := bdd_of_absE_lt M a1 (by rw [hMdef]; linarith)
  have Bb1 : BddM M b1 := bdd_of_absE_lt M b1 (by rw [hMdef]; linarith)
  have Ba2 : BddM M a2 := bdd_of_absE_lt M a2 (by rw [hMdef]; linarith)
  have Bb2 : BddM M b2 := bdd_of_absE_lt M b2 (by rw [hMdef]; linarith)
  have Ba3 : BddM M a3 := bdd_of_absE_lt M a3 (by rw [hMdef]; linarith)
  have Bb3 : BddM M b3 := bdd_of_absE_lt M b3 (by rw [hMdef]; linarith)
  -- the six mixed corners are finite
  have c_aab := dep_trunc M hM a1 a2 b3 Ba1 Ba2 Bb3 (fun h => na1 h.1) (fun h => nb3 h.2.2)
  have c_aba := dep_trunc M hM a1 b2 a3 Ba1 Bb2 Ba3 (fun h => na1 h.1) (fun h => nb2 h.2.1)
  have c_abb := dep_trunc M hM a1 b2 b3 Ba1 Bb2 Bb3 (fun h => na1 h.1) (fun h => nb2 h.2.1)
  have c_baa := dep_trunc M hM b1 a2 a3 Bb1 Ba2 Ba3 (fun h => na2 h.2.1) (fun h => nb1 h.1)
  have c_bab := dep_trunc M hM b1 a2 b3 Bb1 Ba2 Bb3 (fun h => na2 h.2.1) (fun h => nb1 h.1)
  have c_bba := dep_trunc M hM b1 b2 a3 Bb1 Bb2 Ba3 (fun h => na3 h.2.2) (fun h => nb1 h.1)
  have e : volume dep [a1, a2, a3] [b1, b2, b3] =
      -(dep [a1, a2, a3]) + (dep [a1, a2, b3] + (dep [a1, b2, a3] + (-(dep [a1, b2, b3]) + (dep [b1, a2, a3] +
        (-(dep [b1, a2, b3]) + (-(dep [b1, b2, a3]) + (dep [b1, b2, b3] + 0))))))) := by
    simp [volume, corners, sumList]
  rw [e, c_aab, c_aba, c_abb, c_baa, c_bab, c_bba]
  by_cases ha : a1 = .negInf ∧ a2 = .negInf ∧ a3 = .negInf
  · -- the corner (−∞,−∞,−∞) contributes −(−∞) = +∞
    obtain ⟨rfl, rfl, rfl⟩ := ha
    rw [dep_nnn]
    by_cases hb : b1 = .posInf ∧ b2 = .posInf ∧ b3 = .posInf
    · obtain ⟨rfl, rfl, rfl⟩ := hb
      rw [dep_ppp]
      simp only [EVal.neg_negInf, EVal.neg_fin, EVal.fin_add, EVal.zero_def, EVal.fin_add_posInf, EVal.posInf_add_fin,
        EVal.posInf_add_posInf]; trivial
    · rw [dep_trunc M hM b1 b2 b3 Bb1 Bb2 Bb3 hb (fun h => nb1 h.1)]
      simp only [EVal.neg_negInf, EVal.neg_fin, EVal.fin_add, EVal.zero_def, EVal.fin_add_posInf, EVal.posInf_add_fin,
        EVal.posInf_add_posInf]; trivial
  · rw [dep_trunc M hM a1 a2 a3 Ba1 Ba2 Ba3 (fun h => na1 h.1) ha]
    by_cases hb : b1 = .posInf ∧ b2 = .posInf ∧ b3 = .posInf
    · obtain ⟨rfl, rfl, rfl⟩ := hb
      rw [dep_ppp]
      simp only [EVal.neg_negInf, EVal.neg_fin, EVal.fin_add, EVal.zero_def, EVal.fin_add_posInf, EVal.posInf_add_fin,
        EVal.posInf_add_posInf]; trivial
    · rw [dep_trunc M hM b1 b2 b3 Bb1 Bb2 Bb3 hb (fun h => nb1 h.1)]
      simp only [EVal.neg_fin, EVal.fin_add, EVal.zero_def, EVal.nonneg_fin]
      have := depq3_three_increasing (trM M a1) (trM M b1) (trM M a2) (trM M b2) (trM M a3) (trM M b3)
        (trM_mono M hM a1 b1 l1 Ba1 Bb1) (trM_mono M hM a2 b2 l2 Ba2 Bb2) (trM_mono M hM a3 b3 l3 Ba3 Bb3)
      linarith

end Rpylib.Copula
