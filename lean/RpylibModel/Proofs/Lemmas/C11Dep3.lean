/-
Helper lemmas for C11: the completely dependent copula in d = 3 on finite arguments.
`dep [u,v,w] = m3(u⁺,v⁺,w⁺) − m3(u⁻,v⁻,w⁻)` with `m3 = min`; `min` of three is 3-increasing because its increment in the
first argument is a non-decreasing function of `min` of the other two, and `φ ∘ min` is 2-increasing for monotone `φ`.
-/
import RpylibModel.Proofs.Lemmas.C11IndepDep
import Mathlib.Algebra.Order.Group.MinMax

set_option linter.unusedSectionVars false
set_option linter.unusedSimpArgs false

namespace Rpylib.Copula

/-- `φ ∘ min` gives non-negative volume to every rectangle when `φ` is non-decreasing -/
theorem mono_min_two_increasing (φ : Rat → Rat) (hφ : ∀ s t, s ≤ t → φ s ≤ φ t) (y y' w w' : Rat) (hy : y ≤ y')
    (hw : w ≤ w') : 0 ≤ φ (min y' w') + φ (min y w) - φ (min y w') - φ (min y' w) := by
  rcases le_total y w with h | h
  · -- min y w = y = min y w'
    have e1 : min y w = y := min_eq_left h
    have e2 : min y w' = y := min_eq_left (le_trans h hw)
    have := hφ (min y' w) (min y' w') (min_le_min le_rfl hw)
    rw [e1, e2]; linarith
  · have e1 : min y w = w := min_eq_right h
    have e2 : min y' w = w := min_eq_right (le_trans h hy)
    have := hφ (min y w') (min y' w') (min_le_min hy le_rfl)
    rw [e1, e2]; linarith

/-- the increment of `min x ·` in `x` is non-decreasing in the other argument (`min` is 2-increasing) -/
theorem min_incr_mono (x x' : Rat) (hx : x ≤ x') (s t : Rat) (hst : s ≤ t) :
    min x' s - min x s ≤ min x' t - min x t := by
  simp only [min_def]; split_ifs <;> linarith

def m3 (x y w : Rat) : Rat := min x (min y w)

/-- `min` of three is 3-increasing -/
theorem m3_three_increasing (x x' y y' w w' : Rat) (hx : x ≤ x') (hy : y ≤ y') (hw : w ≤ w') :
    0 ≤ m3 x' y' w' - m3 x y' w' - m3 x' y w' - m3 x' y' w + m3 x y w' + m3 x y' w + m3 x' y w - m3 x y w := by
  have := mono_min_two_increasing (fun t => min x' t - min x t) (fun s t => min_incr_mono x x' hx s t) y y' w w' hy hw
  beta_reduce at this
  simp only [m3]; linarith

/-- the dependent copula on finite arguments, d = 3 (all negative: `-max * eps`, `eps = -1` for odd d, i.e. `max`) -/
def depq3 (u v w : Rat) : Rat :=
  if 0 < u ∧ 0 < v ∧ 0 < w then min u (min v w) else if u < 0 ∧ v < 0 ∧ w < 0 then max u (max v w) else 0

theorem depq3_eq (u v w : Rat) :
    depq3 u v w = m3 (max u 0) (max v 0) (max w 0) - m3 (max (-u) 0) (max (-v) 0) (max (-w) 0) := by
  unfold depq3 m3
  by_cases h1 : 0 < u ∧ 0 < v ∧ 0 < w
  · obtain ⟨hu, hv, hw⟩ := h1
    rw [if_pos ⟨hu, hv, hw⟩, max_eq_left hu.le, max_eq_left hv.le, max_eq_left hw.le,
      max_eq_right (by linarith : -u ≤ 0), max_eq_right (by linarith : -v ≤ 0), max_eq_right (by linarith : -w ≤ 0)]
    simp
  · rw [if_neg h1]
    by_cases h2 : u < 0 ∧ v < 0 ∧ w < 0
    · obtain ⟨hu, hv, hw⟩ := h2
      rw [if_pos ⟨hu, hv, hw⟩, max_eq_right hu.le, max_eq_right hv.le, max_eq_right hw.le,
        max_eq_left (by linarith : 0 ≤ -u), max_eq_left (by linarith : 0 ≤ -v), max_eq_left (by linarith : 0 ≤ -w)]
      simp only [min_self, zero_sub]
      rw [min_neg_neg v w, min_neg_neg, neg_neg]
    · rw [if_neg h2]
      -- some argument is ≤ 0 and some is ≥ 0: both minima vanish
      have hp : min (max u 0) (min (max v 0) (max w 0)) = 0 := by
        apply le_antisymm
        · by_contra hc
          push Not at hc
          have h1' := lt_of_lt_of_le hc (min_le_left _ _)
          have h2' := lt_of_lt_of_le hc (le_trans (min_le_right _ _) (min_le_left _ _))
          have h3' := lt_of_lt_of_le hc (le_trans (min_le_right _ _) (min_le_right _ _))
          exact h1 ⟨by simpa using h1', by simpa using h2', by simpa using h3'⟩
        · exact le_min (le_max_right _ _) (le_min (le_max_right _ _) (le_max_right _ _))
      have hn : min (max (-u) 0) (min (max (-v) 0) (max (-w) 0)) = 0 := by
        apply le_antisymm
        · by_contra hc
          push Not at hc
          have h1' := lt_of_lt_of_le hc (min_le_left _ _)
          have h2' := lt_of_lt_of_le hc (le_trans (min_le_right _ _) (min_le_left _ _))
          have h3' := lt_of_lt_of_le hc (le_trans (min_le_right _ _) (min_le_right _ _))
          exact h2 ⟨by simpa using h1', by simpa using h2', by simpa using h3'⟩
        · exact le_min (le_max_right _ _) (le_min (le_max_right _ _) (le_max_right _ _))
      rw [hp, hn]; simp

/-- the dependent copula is 3-increasing on finite boxes -/
theorem depq3_three_increasing (a1 b1 a2 b2 a3 b3 : Rat) (h1 : a1 ≤ b1) (h2 : a2 ≤ b2) (h3 : a3 ≤ b3) :
    0 ≤ depq3 b1 b2 b3 - depq3 a1 b2 b3 - depq3 b1 a2 b3 - depq3 b1 b2 a3 + depq3 a1 a2 b3 + depq3 a1 b2 a3
      + depq3 b1 a2 a3 - depq3 a1 a2 a3 := by
  simp only [depq3_eq]
  have p := m3_three_increasing (max a1 0) (max b1 0) (max a2 0) (max b2 0) (max a3 0) (max b3 0)
    (max_le_max h1 le_rfl) (max_le_max h2 le_rfl) (max_le_max h3 le_rfl)
  have n := m3_three_increasing (max (-b1) 0) (max (-a1) 0) (max (-b2) 0) (max (-a2) 0) (max (-b3) 0) (max (-a3) 0)
    (max_le_max (by linarith) le_rfl) (max_le_max (by linarith) le_rfl) (max_le_max (by linarith) le_rfl)
  linarith

theorem extMin_fin2 (a b : Rat) : Ext.min (.fin a) (.fin b) = .fin (min a b) := by
  simp only [Ext.min, Ext.le, min_def, decide_eq_true_eq]; split_ifs <;> rfl

theorem extMax_fin2 (a b : Rat) : Ext.max (.fin a) (.fin b) = .fin (max a b) := by
  simp only [Ext.max, Ext.le, max_def, decide_eq_true_eq]; split_ifs <;> rfl

theorem dep_fin_three (u v w : Rat) : dep [.fin u, .fin v, .fin w] = .fin (depq3 u v w) := by
  unfold dep depq3
  by_cases h1 : 0 < u ∧ 0 < v ∧ 0 < w
  · have : [Ext.fin u, Ext.fin v, Ext.fin w].all Ext.isPos = true := by simp [Ext.isPos, h1.1, h1.2.1, h1.2.2]
    rw [if_pos this, if_pos h1]
    simp only [extMin, extMin_fin2, Ext.toEVal]
  · have hp : [Ext.fin u, Ext.fin v, Ext.fin w].all Ext.isPos = false := by
      simp only [List.all_cons, List.all_nil, Ext.isPos, Bool.and_true, Bool.and_eq_false_iff, decide_eq_false_iff_not]
      tauto
    rw [hp, if_neg h1]
    by_cases h2 : u < 0 ∧ v < 0 ∧ w < 0
    · have : [Ext.fin u, Ext.fin v, Ext.fin w].all Ext.isNeg = true := by simp [Ext.isNeg, h2.1, h2.2.1, h2.2.2]
      rw [if_pos this, if_pos h2]
      simp [extMax, extMax_fin2, Ext.toEVal]
    · have hn : [Ext.fin u, Ext.fin v, Ext.fin w].all Ext.isNeg = false := by
        simp only [List.all_cons, List.all_nil, Ext.isNeg, Bool.and_true, Bool.and_eq_false_iff, decide_eq_false_iff_not]
        tauto
      rw [hn, if_neg h2]; simp

end Rpylib.Copula
