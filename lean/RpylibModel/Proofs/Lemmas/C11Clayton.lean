/-
Helper lemmas for C11: the abstract-generator Clayton copula `claytonOf` in d = 2 is 2-increasing.
Generator coordinates: a non-negative argument `u` is sent to `X u ∈ [0, ∞]` (`none` = ∞ for `u = 0`,
`some 0` for `u = +∞`, `some (g u)` otherwise); on the closed positive quadrant `F(u,v) = η · Φ(X u, X v)` with
`Φ(x,y) = ψ(x+y)` (0 when a coordinate is ∞), and `X` reverses the order.  The other quadrants follow by reflection.
-/
import RpylibModel.Proofs.Lemmas.C11Vol

set_option linter.unusedSectionVars false

namespace Rpylib.Copula

variable {K : Type} [Field K] [LinearOrder K] [IsStrictOrderedRing K]

/-- what the theorems need of a generator pair (`g u = |u|^(-θ)`, `psi s = s^(-1/θ)`) -/
structure ClaytonGen (G : Gen K) : Prop where
  isZero_iff : ∀ a, G.isZero a = true ↔ a = 0
  isNeg_iff : ∀ a, G.isNeg a = true ↔ a < 0
  g_even : ∀ a, G.g (-a) = G.g a
  g_pos : ∀ a, 0 < a → 0 < G.g a
  g_anti : ∀ a b, 0 < a → a ≤ b → G.g b ≤ G.g a
  psi_g : ∀ a, 0 < a → G.psi (G.g a) = a
  psi_nonneg : ∀ s, 0 < s → 0 ≤ G.psi s
  psi_anti : ∀ s t, 0 < s → s ≤ t → G.psi t ≤ G.psi s
  /-- increments of `psi` over a step `δ` increase with the base point (convexity of `psi` on (0,∞)) -/
  psi_slope : ∀ s t δ, 0 < s → s ≤ t → 0 ≤ δ → G.psi (s + δ) - G.psi s ≤ G.psi (t + δ) - G.psi t

/-- order of the extended line -/
def Ext.LE : Ext K → Ext K → Prop
  | .negInf, _ => True
  | _, .posInf => True
  | .fin a, .fin b => a ≤ b
  | _, _ => False

def Ext.neg : Ext K → Ext K
  | .negInf => .posInf | .fin a => .fin (-a) | .posInf => .negInf

/-- the 2-d abstract Clayton copula -/
def F2 (G : Gen K) (eta : K) (u v : Ext K) : K := claytonOf G 1 eta [u, v]

/-- generator coordinate of a non-negative argument, `none` = ∞ -/
def X (G : Gen K) : Ext K → Option K
  | .fin a => if a = 0 then none else some (G.g a)
  | _ => some 0

def Phi (psi : K → K) : Option K → Option K → K
  | some x, some y => psi (x + y)
  | _, _ => 0

def leT : Option K → Option K → Prop
  | _, none => True
  | some x, some y => x ≤ y
  | none, some _ => False

def nn : Option K → Prop
  | none => True
  | some x => 0 ≤ x

/-- `Φ` has non-negative mixed increments on `[0,∞]²` as long as the smallest corner is not `(0,0)` -/
theorem Phi_increasing {G : Gen K} (hG : ClaytonGen G) (x1 x2 y1 y2 : Option K) (hx : leT x1 x2) (hy : leT y1 y2)
    (nx : nn x1) (ny : nn y1) (h0 : ∀ x y, x1 = some x → y1 = some y → 0 < x + y) :
    0 ≤ Phi G.psi x1 y1 - Phi G.psi x1 y2 - Phi G.psi x2 y1 + Phi G.psi x2 y2 := by
  rcases x1 with _ | x1
  · rcases x2 with _ | x2
    · simp [Phi]
    · exact absurd hx (by simp [leT])
  have hp := fun y (h : y1 = some y) => h0 x1 y rfl h
  rcases y1 with _ | y1
  · rcases y2 with _ | y2
    · cases x2 <;> simp [Phi]
    · exact absurd hy (by simp [leT])
  have hpos : 0 < x1 + y1 := hp y1 rfl
  simp only [nn] at nx ny
  rcases x2 with _ | x2 <;> rcases y2 with _ | y2 <;> simp only [Phi, leT] at *
  · have := hG.psi_nonneg _ hpos; linarith
  · have := hG.psi_anti (x1 + y1) (x1 + y2) hpos (by linarith); linarith
  · have := hG.psi_anti (x1 + y1) (x2 + y1) hpos (by linarith); linarith
  · have := hG.psi_slope (x1 + y1) (x1 + y2) (x2 - x1) hpos (by linarith) (by linarith)
    have e1 : x1 + y1 + (x2 - x1) = x2 + y1 := by ring
    have e2 : x1 + y2 + (x2 - x1) = x2 + y2 := by ring
    rw [e1, e2] at this; linarith

theorem X_nn {G : Gen K} (hG : ClaytonGen G) (u : Ext K) (hu : Ext.LE (.fin 0) u) : nn (X G u) := by
  rcases u with _ | a | _
  · exact absurd hu (by simp [Ext.LE])
  · simp only [X]; split_ifs with h
    · trivial
    · have : 0 < a := lt_of_le_of_ne hu (Ne.symm h)
      exact le_of_lt (hG.g_pos a this)
  · simp [X, nn]

/-- `X` reverses the order on the non-negative half line -/
theorem X_anti {G : Gen K} (hG : ClaytonGen G) (a b : Ext K) (ha : Ext.LE (.fin 0) a) (hab : Ext.LE a b) :
    leT (X G b) (X G a) := by
  rcases a with _ | a | _
  · exact absurd ha (by simp [Ext.LE])
  · rcases b with _ | b | _
    · exact absurd hab (by simp [Ext.LE])
    · simp only [Ext.LE] at ha hab
      simp only [X]
      by_cases h0 : a = 0
      · simp only [h0, if_true]; split_ifs <;> trivial
      · have hpos : 0 < a := lt_of_le_of_ne ha (Ne.symm h0)
        have hb : b ≠ 0 := ne_of_gt (lt_of_lt_of_le hpos hab)
        simp only [h0, hb, if_false, leT]
        exact hG.g_anti a b hpos hab
    · simp only [Ext.LE] at ha
      simp only [X]
      split_ifs with h0
      · trivial
      · have hpos : 0 < a := lt_of_le_of_ne ha (Ne.symm h0)
        exact le_of_lt (hG.g_pos a hpos)
  · rcases b with _ | b | _
    · exact absurd hab (by simp [Ext.LE])
    · exact absurd hab (by simp [Ext.LE])
    · simp [X, leT]

/-- a finite non-negative argument has generator coordinate ∞ or a strictly positive one -/
theorem X_fin_pos {G : Gen K} (hG : ClaytonGen G) (a : K) (ha : 0 ≤ a) (x : K) (hx : X G (.fin a) = some x) : 0 < x := by
  simp only [X] at hx
  split_ifs at hx with h0
  have hpos : 0 < a := lt_of_le_of_ne ha (Ne.symm h0)
  cases hx; exact hG.g_pos a hpos

/-- on the closed positive quadrant `F = η · Φ(X u, X v)` -/
theorem F2_pos {G : Gen K} (hG : ClaytonGen G) (eta : K) (u v : Ext K) (hu : Ext.LE (.fin 0) u)
    (hv : Ext.LE (.fin 0) v) : F2 G eta u v = eta * Phi G.psi (X G u) (X G v) := by
  have key : ∀ w : Ext K, Ext.LE (.fin 0) w →
      (G.argZero w = true ∧ X G w = none) ∨ (G.argZero w = false ∧ ∃ x, X G w = some x ∧ G.arg w = (false, x)) := by
    intro w hw
    rcases w with _ | a | _
    · exact absurd hw (by simp [Ext.LE])
    · by_cases h0 : a = 0
      · left; simp [Gen.argZero, X, h0, (hG.isZero_iff 0).mpr rfl]
      · right
        have hz : G.isZero a = false := by
          rcases hzz : G.isZero a with _ | _
          · rfl
          · exact absurd ((hG.isZero_iff a).mp hzz) h0
        have hn : G.isNeg a = false := by
          rcases hnn : G.isNeg a with _ | _
          · rfl
          · exact absurd ((hG.isNeg_iff a).mp hnn) (not_lt.mpr hw)
        exact ⟨by simp [Gen.argZero, hz], G.g a, by simp [X, h0], by simp [Gen.arg, hn]⟩
    · right; exact ⟨by simp [Gen.argZero], 0, by simp [X], by simp [Gen.arg]⟩
  rcases key u hu with ⟨zu, xu⟩ | ⟨zu, x, xu, au⟩ <;> rcases key v hv with ⟨zv, xv⟩ | ⟨zv, y, xv, av⟩
  · simp [F2, claytonOf, zu, xu, Phi]
  · simp [F2, claytonOf, zu, xu, Phi]
  · simp [F2, claytonOf, zv, xv, xu, Phi]
  · simp [F2, claytonOf, claytonG, sumG, countNeg, zu, zv, xu, xv, au, av, Phi]; ring

/-! ### order facts on the extended line -/

theorem Ext.LE_refl (u : Ext K) : Ext.LE u u := by cases u <;> simp [Ext.LE]

theorem Ext.LE_trans {a b c : Ext K} (h1 : Ext.LE a b) (h2 : Ext.LE b c) : Ext.LE a c := by
  cases a <;> cases b <;> cases c <;> simp_all [Ext.LE]
  exact le_trans h1 h2

theorem Ext.LE_total0 (u : Ext K) : Ext.LE u (.fin 0) ∨ Ext.LE (.fin 0) u := by
  rcases u with _ | a | _
  · left; trivial
  · simp only [Ext.LE]; exact le_total a 0
  · right; trivial

theorem Ext.neg_neg (u : Ext K) : Ext.neg (Ext.neg u) = u := by cases u <;> simp [Ext.neg]

theorem Ext.LE_neg {a b : Ext K} (h : Ext.LE a b) : Ext.LE (Ext.neg b) (Ext.neg a) := by
  cases a <;> cases b <;> simp_all [Ext.LE, Ext.neg]

theorem Ext.neg_nonneg {b : Ext K} (h : Ext.LE b (.fin 0)) : Ext.LE (.fin 0) (Ext.neg b) := by
  cases b <;> simp_all [Ext.LE, Ext.neg]

theorem Ext.isInf_neg (u : Ext K) : (Ext.neg u).isInf = u.isInf := by cases u <;> rfl

/-- admissible rectangle: no corner has two infinite entries -/
def Adm (a1 b1 a2 b2 : Ext K) : Prop :=
  (a1.isInf = false ∧ b1.isInf = false) ∨ (a2.isInf = false ∧ b2.isInf = false)

/-! ### the closed positive quadrant -/

theorem quad_pp {G : Gen K} (hG : ClaytonGen G) (eta : K) (h0 : 0 ≤ eta) (a1 b1 a2 b2 : Ext K)
    (hP : Adm a1 b1 a2 b2) (h1 : Ext.LE a1 b1) (h2 : Ext.LE a2 b2) (z1 : Ext.LE (.fin 0) a1)
    (z2 : Ext.LE (.fin 0) a2) : 0 ≤ V2 (F2 G eta) a1 b1 a2 b2 := by
  have zb1 := Ext.LE_trans z1 h1
  have zb2 := Ext.LE_trans z2 h2
  unfold V2
  rw [F2_pos hG eta _ _ zb1 zb2, F2_pos hG eta _ _ z1 z2, F2_pos hG eta _ _ z1 zb2, F2_pos hG eta _ _ zb1 z2]
  have key := Phi_increasing hG (X G b1) (X G a1) (X G b2) (X G a2) (X_anti hG _ _ z1 h1) (X_anti hG _ _ z2 h2)
    (X_nn hG _ zb1) (X_nn hG _ zb2) (by
      intro x y hx hy
      have nx := X_nn hG _ zb1; have ny := X_nn hG _ zb2
      rw [hx] at nx; rw [hy] at ny; simp only [nn] at nx ny
      rcases hP with ⟨_, hb⟩ | ⟨_, hb⟩
      · rcases b1 with _ | b | _
        · simp [Ext.isInf] at hb
        · have := X_fin_pos hG b zb1 x hx; linarith
        · simp [Ext.isInf] at hb
      · rcases b2 with _ | b | _
        · simp [Ext.isInf] at hb
        · have := X_fin_pos hG b zb2 y hy; linarith
        · simp [Ext.isInf] at hb)
  nlinarith [mul_nonneg h0 key]

/-! ### reflections -/

theorem F2_eval (G : Gen K) (eta : K) (u v : Ext K) :
    F2 G eta u v = if (G.argZero u || G.argZero v) then 0
      else G.psi ((G.arg u).2 + (G.arg v).2) * (if (G.arg u).1 = (G.arg v).1 then eta else -(1 - eta)) := by
  simp only [F2, claytonOf, claytonG, sumG, countNeg, List.any_cons, List.any_nil, Bool.or_false, List.map]
  rcases (G.arg u).1 <;> rcases (G.arg v).1 <;> simp

theorem argZero_neg {G : Gen K} (hG : ClaytonGen G) (u : Ext K) : G.argZero (Ext.neg u) = G.argZero u := by
  rcases u with _ | a | _
  · rfl
  · simp only [Ext.neg, Gen.argZero]
    rcases h : G.isZero a with _ | _
    · rcases h' : G.isZero (-a) with _ | _
      · rfl
      · have := (hG.isZero_iff (-a)).mp h'
        have : a = 0 := by linarith
        rw [(hG.isZero_iff a).mpr this] at h; cases h
    · have := (hG.isZero_iff a).mp h
      exact (hG.isZero_iff (-a)).mpr (by rw [this]; ring)
  · rfl

theorem arg_neg {G : Gen K} (hG : ClaytonGen G) (u : Ext K) (hz : G.argZero u = false) :
    G.arg (Ext.neg u) = (!(G.arg u).1, (G.arg u).2) := by
  rcases u with _ | a | _
  · rfl
  · simp only [Gen.argZero] at hz
    have ha : a ≠ 0 := fun h => by rw [(hG.isZero_iff a).mpr h] at hz; cases hz
    simp only [Ext.neg, Gen.arg, hG.g_even]
    rcases lt_or_gt_of_ne ha with h | h
    · have e1 : G.isNeg a = true := (hG.isNeg_iff a).mpr h
      have e2 : G.isNeg (-a) = false := by
        rcases h' : G.isNeg (-a) with _ | _
        · rfl
        · have := (hG.isNeg_iff (-a)).mp h'; linarith
      simp [e1, e2]
    · have e1 : G.isNeg (-a) = true := (hG.isNeg_iff (-a)).mpr (by linarith)
      have e2 : G.isNeg a = false := by
        rcases h' : G.isNeg a with _ | _
        · rfl
        · have := (hG.isNeg_iff a).mp h'; linarith
      simp [e1, e2]
  · rfl

theorem F2_neg1 {G : Gen K} (hG : ClaytonGen G) (eta : K) (u v : Ext K) :
    F2 G eta (Ext.neg u) v = -F2 G (1 - eta) u v := by
  rw [F2_eval, F2_eval, argZero_neg hG]
  rcases hz : G.argZero u with _ | _
  · rw [arg_neg hG u hz]
    rcases G.argZero v with _ | _
    · rcases (G.arg u).1 <;> rcases (G.arg v).1 <;> simp <;> ring
    · simp
  · simp

theorem F2_neg2 {G : Gen K} (hG : ClaytonGen G) (eta : K) (u v : Ext K) :
    F2 G eta u (Ext.neg v) = -F2 G (1 - eta) u v := by
  rw [F2_eval, F2_eval, argZero_neg hG]
  rcases hz : G.argZero v with _ | _
  · rw [arg_neg hG v hz]
    rcases G.argZero u with _ | _
    · rcases (G.arg u).1 <;> rcases (G.arg v).1 <;> simp <;> ring
    · simp
  · simp

theorem V2_refl1 {G : Gen K} (hG : ClaytonGen G) (eta : K) (a1 b1 a2 b2 : Ext K) :
    V2 (F2 G eta) a1 b1 a2 b2 = V2 (F2 G (1 - eta)) (Ext.neg b1) (Ext.neg a1) a2 b2 := by
  have e : ∀ u v, F2 G eta u v = -F2 G (1 - eta) (Ext.neg u) v := by
    intro u v; rw [← F2_neg1 hG, Ext.neg_neg]
  unfold V2; rw [e b1, e a1 a2, e a1 b2, e b1 a2]; ring

theorem V2_refl2 {G : Gen K} (hG : ClaytonGen G) (eta : K) (a1 b1 a2 b2 : Ext K) :
    V2 (F2 G eta) a1 b1 a2 b2 = V2 (F2 G (1 - eta)) a1 b1 (Ext.neg b2) (Ext.neg a2) := by
  have e : ∀ u v, F2 G eta u v = -F2 G (1 - eta) u (Ext.neg v) := by
    intro u v; rw [← F2_neg2 hG, Ext.neg_neg]
  unfold V2; rw [e b1, e a1 a2, e a1 b2, e b1 a2]; ring

theorem Adm_refl1 {a1 b1 a2 b2 : Ext K} (h : Adm a1 b1 a2 b2) : Adm (Ext.neg b1) (Ext.neg a1) a2 b2 := by
  unfold Adm at *; rw [Ext.isInf_neg, Ext.isInf_neg]; tauto

theorem Adm_refl2 {a1 b1 a2 b2 : Ext K} (h : Adm a1 b1 a2 b2) : Adm a1 b1 (Ext.neg b2) (Ext.neg a2) := by
  unfold Adm at *; rw [Ext.isInf_neg, Ext.isInf_neg]; tauto

/-- the abstract-generator Clayton copula gives non-negative volume to every admissible rectangle of the extended
    plane: any sign pattern, straddling or not, infinite end points included -/
theorem F2_two_increasing {G : Gen K} (hG : ClaytonGen G) (eta : K) (h0 : 0 ≤ eta) (h1 : eta ≤ 1)
    (a1 b1 a2 b2 : Ext K) (hP : Adm a1 b1 a2 b2) (l1 : Ext.LE a1 b1) (l2 : Ext.LE a2 b2) :
    0 ≤ V2 (F2 G eta) a1 b1 a2 b2 := by
  have h1' : 0 ≤ 1 - eta := by linarith
  have e11 : 1 - (1 - eta) = eta := by ring
  refine two_increasing_of_quadrants Ext.LE (.fin 0) (Ext.LE_refl _) Ext.LE_total0 (F2 G eta) Adm ?_ ?_ ?_
    a1 b1 a2 b2 hP l1 l2
  · intro a1 b1 a2 b2 h; unfold Adm at *; simp only [Ext.isInf]; tauto
  · intro a1 b1 a2 b2 h; unfold Adm at *; simp only [Ext.isInf]; tauto
  · intro a1 b1 a2 b2 hP l1 l2 s1 s2
    rcases s1 with s1 | s1 <;> rcases s2 with s2 | s2
    · rw [V2_refl1 hG, V2_refl2 hG, e11]
      exact quad_pp hG eta h0 _ _ _ _ (Adm_refl2 (Adm_refl1 hP)) (Ext.LE_neg l1) (Ext.LE_neg l2)
        (Ext.neg_nonneg s1) (Ext.neg_nonneg s2)
    · rw [V2_refl1 hG]
      exact quad_pp hG _ h1' _ _ _ _ (Adm_refl1 hP) (Ext.LE_neg l1) l2 (Ext.neg_nonneg s1) s2
    · rw [V2_refl2 hG]
      exact quad_pp hG _ h1' _ _ _ _ (Adm_refl2 hP) l1 (Ext.LE_neg l2) s1 (Ext.neg_nonneg s2)
    · exact quad_pp hG eta h0 _ _ _ _ hP l1 l2 s1 s2

end Rpylib.Copula
