/-
C15 helper lemmas: the gap list and the gap-by-gap specification of a (times, values) pair extended by one final point
(the maturity), used to compare the coded and the specified maximum-step paths.
-/
import RpylibModel.Model.Path
import RpylibModel.Proofs.Lemmas.C15Lists
import RpylibModel.Proofs.Lemmas.C15Finer
import Mathlib.Tactic.Linarith
import Mathlib.Algebra.Order.Field.Rat

namespace Rpylib.Path

variable {α : Type}

theorem toGaps_append_singleton (jt : List Rat) (jv : List α) (T : Rat) (v : α) (h : jt.length = jv.length) :
    toGaps (jt ++ [T]) (jv ++ [v]) = toGaps jt jv ++ [(T - lastD 0 jt, v)] := by
  unfold toGaps
  rw [diffsFrom_append, List.zip_append (by simp [h])]
  simp [diffsFrom]

theorem finerSpec_append (ε : Rat) (z : α) (l : List (Rat × α)) (p : Rat × α) :
    finerSpec ε z (l ++ [p]) = finerSpec ε z l ++ block ε (lastD z (l.map (fun q => q.2))) p := by
  induction l generalizing z with
  | nil => simp [finerSpec, lastD]
  | cons q r ih => simp only [List.cons_append, finerSpec, ih, List.map_cons, lastD, List.append_assoc]

/-- the refined value list ends with the last original value -/
theorem lastD_snd_finerSpec (ε : Rat) (z z' : α) (l : List (Rat × α)) :
    lastD z' ((finerSpec ε z l).map (fun q => q.2)) = lastD z' (l.map (fun q => q.2)) := by
  induction l using List.reverseRecOn with
  | nil => rfl
  | append_singleton l' p _ =>
    rw [finerSpec_append]
    simp only [block, List.map_append, List.map_cons, List.map_nil, ← List.append_assoc, lastD_append_singleton]

theorem map_snd_toGaps (jt : List Rat) (jv : List α) (h : jt.length = jv.length) :
    (toGaps jt jv).map (fun p => p.2) = jv := by
  unfold toGaps
  exact List.map_snd_zip (by simp [h])

end Rpylib.Path
