/-
Helper lemmas for C03 (d = 2 on a grid whose two axes differ, e.g. `CTMCCredit` with one threshold per margin).
`__coupling_state` takes the value of an odd coordinate from its own axis, but the neighbours (`grid.left_point`,
`grid.right_point`, `grid[projected_position + p]`) of the k-th *projected* coordinate from `axes[k]`: right when the odd
coordinates are a prefix (S = [0] or [0, 1]), the first axis instead of the second when S = [1].
-/
import RpylibModel.Proofs.Lemmas.C03Sub

set_option linter.dupNamespace false
set_option linter.unusedSectionVars false
set_option linter.unusedVariables false
set_option linter.unusedSimpArgs false

namespace Rpylib.Coupling
open Rpylib.Grid Rpylib.Cells Finset

/-! ### the boxes built with the value of axis `axv` and the neighbours of axis `axr` -/

def halfLoX (axr axv : List ℚ) (c : ℕ) : ℚ × ℚ :=
  (min (pt axv c) (amid (pt axr (posOf c (-1))) (pt axv c)), max (pt axv c) (amid (pt axr (posOf c (-1))) (pt axv c)))

def halfHiX (axr axv : List ℚ) (c : ℕ) : ℚ × ℚ :=
  (min (pt axv c) (amid (pt axr (posOf c 1)) (pt axv c)), max (pt axv c) (amid (pt axr (posOf c 1)) (pt axv c)))

def wholeCellX (axr axv : List ℚ) (c : ℕ) : ℚ × ℚ :=
  (amid (leftPoint axr c) (pt axv c), amid (pt axv c) (rightPoint axr c))

theorem halfX_self (ax : List ℚ) (c : ℕ) :
    halfLoX ax ax c = halfLo ax c ∧ halfHiX ax ax c = halfHi ax c ∧ wholeCellX ax ax c = wholeCell ax c :=
  ⟨rfl, rfl, rfl⟩

/-- the crossed boxes only look at the reading axis at c - 1 and c + 1 -/
theorem halfX_of_agree (axr axv : List ℚ) (c : ℕ) (h0 : 0 < c) (h1 : c + 1 < axr.length) (h1' : c + 1 < axv.length)
    (hL : pt axr (c - 1) = pt axv (c - 1)) (hR : pt axr (c + 1) = pt axv (c + 1)) :
    halfLoX axr axv c = halfLo axv c ∧ halfHiX axr axv c = halfHi axv c ∧ wholeCellX axr axv c = wholeCell axv c := by
  have e1 : posOf c (-1) = c - 1 := by unfold posOf; omega
  have e2 : posOf c 1 = c + 1 := by unfold posOf; omega
  have r1 : rightPoint axr c = pt axr (c + 1) := by unfold rightPoint pt; rw [Nat.min_eq_right (by omega)]
  have r2 : rightPoint axv c = pt axv (c + 1) := by unfold rightPoint pt; rw [Nat.min_eq_right (by omega)]
  unfold halfLoX halfHiX wholeCellX halfLo halfHi wholeCell
  rw [e1, e2, hL, hR, leftPoint_eq, leftPoint_eq, r1, r2, hL, hR]
  exact ⟨rfl, rfl, rfl⟩

/-! ### corner probabilities by parity, any two axes -/

section probs
variable (ax1 ax2 : List ℚ) (o : ℕ) (m : MarginMass) (i1 i2 : ℤ)

/-- first coordinate odd: everything is read from the first axis, as it should be -/
theorem cornerProbsA_10 (h1 : i1 % 2 ≠ 0) (h2 : i2 % 2 = 0) :
    cornerProbs [ax1, ax2] o m [i1, i2] =
      [m [0] [halfLo ax1 (posOf o i1)] / m [0] [wholeCell ax1 (posOf o i1)],
       m [0] [halfHi ax1 (posOf o i1)] / m [0] [wholeCell ax1 (posOf o i1)]] := by
  unfold cornerProbs halfLo halfHi wholeCell
  rw [oddAxes_two]
  simp [h1, h2, signs, cartesian, cornerProb, cornerBox, totalBox, projVal, projPos, posNd, cornerVal, midT,
    projLeftPt, projRightPt, List.range_succ]

/-- both coordinates odd: each coordinate is read from its own axis -/
theorem cornerProbsA_11 (h1 : i1 % 2 ≠ 0) (h2 : i2 % 2 ≠ 0) :
    cornerProbs [ax1, ax2] o m [i1, i2] =
      let c := posOf o i1
      let d := posOf o i2
      let T := m [0, 1] [wholeCell ax1 c, wholeCell ax2 d]
      [m [0, 1] [halfLo ax1 c, halfLo ax2 d] / T, m [0, 1] [halfLo ax1 c, halfHi ax2 d] / T,
       m [0, 1] [halfHi ax1 c, halfLo ax2 d] / T, m [0, 1] [halfHi ax1 c, halfHi ax2 d] / T] := by
  unfold cornerProbs halfLo halfHi wholeCell
  rw [oddAxes_two]
  simp [h1, h2, signs, cartesian, cornerProb, cornerBox, totalBox, projVal, projPos, posNd, cornerVal, midT,
    projLeftPt, projRightPt, List.range_succ]

/-- only the second coordinate odd: its value comes from the second axis, its neighbours from the *first* -/
theorem cornerProbsA_01 (h1 : i1 % 2 = 0) (h2 : i2 % 2 ≠ 0) :
    cornerProbs [ax1, ax2] o m [i1, i2] =
      [m [1] [halfLoX ax1 ax2 (posOf o i2)] / m [1] [wholeCellX ax1 ax2 (posOf o i2)],
       m [1] [halfHiX ax1 ax2 (posOf o i2)] / m [1] [wholeCellX ax1 ax2 (posOf o i2)]] := by
  unfold cornerProbs halfLoX halfHiX wholeCellX
  rw [oddAxes_two]
  simp [h1, h2, signs, cartesian, cornerProb, cornerBox, totalBox, projVal, projPos, posNd, cornerVal, midT,
    projLeftPt, projRightPt, List.range_succ]

theorem totalBoxA_10 : totalBox [ax1, ax2] [0] (posNd o [i1, i2]) = [wholeCell ax1 (posOf o i1)] := by
  unfold wholeCell
  simp [totalBox, projVal, projPos, posNd, midT, projLeftPt, projRightPt]

theorem totalBoxA_11 :
    totalBox [ax1, ax2] [0, 1] (posNd o [i1, i2]) = [wholeCell ax1 (posOf o i1), wholeCell ax2 (posOf o i2)] := by
  unfold wholeCell
  simp [totalBox, projVal, projPos, posNd, midT, projLeftPt, projRightPt, List.range_succ]

theorem totalBoxA_01 : totalBox [ax1, ax2] [1] (posNd o [i1, i2]) = [wholeCellX ax1 ax2 (posOf o i2)] := by
  unfold wholeCellX
  simp [totalBox, projVal, projPos, posNd, midT, projLeftPt, projRightPt]

/-! ### the values returned -/

/-- first coordinate odd: the returned value is the grid state one step left / right on the first axis -/
theorem cornerResA_10 (c d : ℕ) (s : ℤ) :
    cornerRes [ax1, ax2] [0] [c, d] [s] = [pt ax1 (posOf c s), pt ax2 d] := by
  simp [cornerRes, cornerVal, projPos, valuesAt, List.range_succ]

theorem cornerResA_11 (c d : ℕ) (s t : ℤ) :
    cornerRes [ax1, ax2] [0, 1] [c, d] [s, t] = [pt ax1 (posOf c s), pt ax2 (posOf d t)] := by
  simp [cornerRes, cornerVal, projPos, valuesAt, List.range_succ]

/-- only the second coordinate odd: the second component of the returned value is a point of the *first* axis -/
theorem cornerResA_01 (c d : ℕ) (s : ℤ) :
    cornerRes [ax1, ax2] [1] [c, d] [s] = [pt ax1 c, pt ax1 (posOf d s)] := by
  simp [cornerRes, cornerVal, projPos, valuesAt, List.range_succ]

end probs

/-! ### where a fine state is sent (by index), any axes -/

section send
variable (axes : List (List ℚ)) (o : ℕ) (m : MarginMass) (i j : ℕ) (y : List ℕ)

theorem sendProbA_00 (h1 : ((i : ℤ) - o) % 2 = 0) (h2 : ((j : ℤ) - o) % 2 = 0) :
    sendProbNd axes o m [i, j] y = if [i, j] = y then 1 else 0 := by
  unfold sendProbNd
  simp only [List.map_cons, List.map_nil]
  rw [oddAxes_two]
  simp [h1, h2]

theorem sendProbA_10 (h1 : ((i : ℤ) - o) % 2 ≠ 0) (h2 : ((j : ℤ) - o) % 2 = 0) :
    sendProbNd axes o m [i, j] y =
      (if [posOf i (-1), j] = y then cornerProb axes m [0] [i, j] [-1] else 0) +
      (if [posOf i 1, j] = y then cornerProb axes m [0] [i, j] [1] else 0) := by
  unfold sendProbNd
  simp only [List.map_cons, List.map_nil]
  rw [oddAxes_two]
  simp [h1, h2, signs, cartesian, cornerIdx, List.range_succ, List.filter_cons]
  split_ifs <;> simp_all

theorem sendProbA_01 (h1 : ((i : ℤ) - o) % 2 = 0) (h2 : ((j : ℤ) - o) % 2 ≠ 0) :
    sendProbNd axes o m [i, j] y =
      (if [i, posOf j (-1)] = y then cornerProb axes m [1] [i, j] [-1] else 0) +
      (if [i, posOf j 1] = y then cornerProb axes m [1] [i, j] [1] else 0) := by
  unfold sendProbNd
  simp only [List.map_cons, List.map_nil]
  rw [oddAxes_two]
  simp [h1, h2, signs, cartesian, cornerIdx, List.range_succ, List.filter_cons]
  split_ifs <;> simp_all

end send

theorem cornerProbA_10 (ax1 ax2 : List ℚ) (m : MarginMass) (i j : ℕ) :
    cornerProb [ax1, ax2] m [0] [i, j] [-1] = m [0] [halfLo ax1 i] / m [0] [wholeCell ax1 i] ∧
    cornerProb [ax1, ax2] m [0] [i, j] [1] = m [0] [halfHi ax1 i] / m [0] [wholeCell ax1 i] := by
  unfold halfLo halfHi wholeCell
  constructor <;>
  simp [cornerProb, cornerBox, totalBox, projVal, projPos, cornerVal, midT, projLeftPt, projRightPt]

/-! ### rates on two different axes, measure carried by the coordinate axes -/

theorem rateNd_joint_twoA (ax1 ax2 : List ℚ) (o : ℕ) (m : MarginMass) (i j : ℕ) :
    rateNd amid [ax1, ax2] o (joint 2 m) [i, j] =
      if i = o ∧ j = o then 0
      else m [0, 1] [(cellLo amid ax1 i, cellHi amid ax1 i), (cellLo amid ax2 j, cellHi amid ax2 j)] := by
  rw [joint_two]
  unfold rateNd cellBox
  simp

section indepA0
variable (ax1 ax2 : List ℚ) (o : ℕ) (hax1 : AxisOK ax1 o) (hax2 : AxisOK ax2 o) (m : MarginMass) (m1 m2 : ℚ → ℚ → ℚ)
  (hC : CarriedByAxes m m1 m2)
include hax1 hax2 hC

theorem rateA_on_axis1 (i : ℕ) (hi' : i < ax1.length) :
    rateNd amid [ax1, ax2] o (joint 2 m) [i, o] = rate amid ax1 o m1 i := by
  rw [rateNd_joint_twoA]
  unfold rate
  by_cases h : i = o
  · simp [h]
  · rw [if_neg (by tauto), if_neg h]
    obtain ⟨s1, s2⟩ := origin_cell_straddles ax2 o hax2 m m1 m2 hC
    exact hC.on1 _ _ _ _ (cell_away amid amid_between amid_idem ax1 o hax1 i hi' h) s1 s2

theorem rateA_on_axis2 (j : ℕ) (hj : j < ax2.length) :
    rateNd amid [ax1, ax2] o (joint 2 m) [o, j] = rate amid ax2 o m2 j := by
  rw [rateNd_joint_twoA]
  unfold rate
  by_cases h : j = o
  · simp [h]
  · rw [if_neg (by tauto), if_neg h]
    obtain ⟨s1, s2⟩ := origin_cell_straddles ax1 o hax1 m m1 m2 hC
    exact hC.on2 _ _ _ _ s1 s2 (cell_away amid amid_between amid_idem ax2 o hax2 j hj h)

theorem rateA_off_axes (i j : ℕ) (hi' : i < ax1.length) (hj : j < ax2.length) (h1 : i ≠ o) (h2 : j ≠ o) :
    rateNd amid [ax1, ax2] o (joint 2 m) [i, j] = 0 := by
  rw [rateNd_joint_twoA, if_neg (by tauto)]
  exact hC.off _ _ _ _ (cell_away amid amid_between amid_idem ax1 o hax1 i hi' h1)
    (cell_away amid amid_between amid_idem ax2 o hax2 j hj h2)

end indepA0

section indepA
variable (ax1 ax2 : List ℚ) (o : ℕ) (hax1 : AxisOK ax1 (2 * o)) (hax2 : AxisOK ax2 (2 * o)) (hlen : ax1.length % 2 = 1)
  (m : MarginMass) (m1 m2 : ℚ → ℚ → ℚ) (hM1 : IsMass m1) (hM2 : IsMass m2) (hC : CarriedByAxes m m1 m2)
include hax1 hax2 hlen hM1 hM2 hC

/-- on the first axis the 2-d coupling is the 1-d coupling of the first margin, whatever the second axis is -/
theorem flowA_on_axis1 (i y : ℕ) (hi' : i < ax1.length) :
    flowNd [ax1, ax2] (2 * o) m [i, 2 * o] [y, 2 * o] = flow1d amid ax1 (2 * o) m1 i y := by
  have hr := rateA_on_axis1 ax1 ax2 (2 * o) hax1 hax2 m m1 m2 hC i hi'
  unfold flowNd flow1d
  simp only [List.length_cons, List.length_nil, Nat.zero_add, Nat.reduceAdd]
  rw [hr]
  by_cases hpar : i % 2 = 0
  · rw [if_pos hpar, sendProbA_00 _ (2 * o) m i (2 * o) _ (parity_even o i hpar) (by omega)]
    by_cases hy : i = y
    · subst hy; simp; intro h; exact h.symm
    · have : ¬ [i, 2 * o] = [y, 2 * o] := by simp [hy]
      rw [if_neg this, if_neg hy]; simp
  · have hodd : i % 2 = 1 := by omega
    have hne : i ≠ 2 * o := by omega
    have h0 : 0 < i := by omega
    have h1 : i + 1 < ax1.length := by omega
    obtain ⟨e, hL, hR⟩ := rate_split amid amid_between amid_idem ax1 (2 * o) hax1 m1 hM1 i hi' hne
    obtain ⟨c1, c2, c3⟩ := half_cells ax1 hax1.inc i h0 h1
    rw [if_neg hpar, sendProbA_10 _ (2 * o) m i (2 * o) _ (parity_odd o i hodd) (by omega),
      (cornerProbA_10 ax1 ax2 m i (2 * o)).1, (cornerProbA_10 ax1 ax2 m i (2 * o)).2, c1, c2, c3, hC.margin1, hC.margin1,
      hC.margin1]
    have e1 : posOf i (-1) = i - 1 := by unfold posOf; omega
    have e2 : posOf i 1 = i + 1 := by unfold posOf; omega
    rw [e1, e2]
    have cell_eq : m1 (cellLo amid ax1 i) (cellHi amid ax1 i) = valLeft amid ax1 m1 i + valRight amid ax1 m1 i := by
      rw [← e]; unfold rate; rw [if_neg hne]
    have vL : m1 (cellLo amid ax1 i) (pt ax1 i) = valLeft amid ax1 m1 i := rfl
    have vR : m1 (pt ax1 i) (cellHi amid ax1 i) = valRight amid ax1 m1 i := rfl
    rw [cell_eq, vL, vR]
    unfold sentRight sentLeft pRight
    by_cases hz : rate amid ax1 (2 * o) m1 i = 0
    · simp [hz]
    · rw [if_neg hz, if_neg hz, if_neg hz]
      have hne0 : valLeft amid ax1 m1 i + valRight amid ax1 m1 i ≠ 0 := by rw [← e]; exact hz
      have cL : ([i - 1, 2 * o] = [y, 2 * o]) = (i = y + 1) := by
        apply propext; simp; omega
      have cR : ([i + 1, 2 * o] = [y, 2 * o]) = (i + 1 = y) := by
        apply propext; simp
      simp only [cL, cR]
      by_cases a1 : i = y + 1 <;> by_cases a2 : i + 1 = y
      · omega
      · simp only [if_pos a1, if_neg a2]; rw [e]; field_simp; ring
      · simp only [if_neg a1, if_pos a2]; ring
      · simp only [if_neg a1, if_neg a2]; ring

/-- a state on the second axis is never sent (by index) to a state `[y, 2o]` with `y ≠ 2o` -/
theorem flowA_axis2_to_axis1 (j y : ℕ) (hy : y ≠ 2 * o) :
    flowNd [ax1, ax2] (2 * o) m [2 * o, j] [y, 2 * o] = 0 := by
  unfold flowNd
  simp only
  split_ifs with hr
  · rfl
  · have hs : sendProbNd [ax1, ax2] (2 * o) m [2 * o, j] [y, 2 * o] = 0 := by
      by_cases hpar : j % 2 = 0
      · rw [sendProbA_00 _ (2 * o) m (2 * o) j _ (by omega) (parity_even o j hpar), if_neg (pair_ne (by omega))]
      · rw [sendProbA_01 _ (2 * o) m (2 * o) j _ (by omega) (parity_odd o j (by omega)),
          if_neg (pair_ne (by omega)), if_neg (pair_ne (by omega))]; ring
    rw [hs]; ring

end indepA

end Rpylib.Coupling
