/-
Helper lemmas for C02, inversion sampler: one `step` from a state satisfying `Inv` answers the canonical draw
(`IsFirst`) and re-establishes `Inv`.
-/
import RpylibModel.Model.Samplers.Inversion
import Mathlib.Tactic.Linarith
import Mathlib.Algebra.Order.Field.Rat

namespace Rpylib.Inversion

/-- no pairing index up to the frontier maximum is outside the grid (every 1-d chain; equal-sided n-d boxes) -/
def NoSkip (e : Env) : Prop := ∀ xx, xx ≤ e.maxFrontier → e.inside xx = true

def Nonneg (e : Env) : Prop := ∀ xx, 0 ≤ e.p xx

/-- `o` is the canonical answer for `u`: the first `k ≤ maxFrontier` with `u ≤ c_k`, `none` if there is none -/
def IsFirst (e : Env) (u : Rat) : Option Nat → Prop
  | some k => k ≤ e.maxFrontier ∧ u ≤ csum e k ∧ ∀ j, j < k → csum e j < u
  | none => ∀ j, j ≤ e.maxFrontier → csum e j < u

theorem IsFirst.unique {e : Env} {u : Rat} {a b : Option Nat} (ha : IsFirst e u a) (hb : IsFirst e u b) : a = b := by
  cases a with
  | none =>
    cases b with
    | none => rfl
    | some k => exact absurd (ha k hb.1) (not_lt.mpr hb.2.1)
  | some k =>
    cases b with
    | none => exact absurd (hb k ha.1) (not_lt.mpr ha.2.1)
    | some k' =>
      rcases Nat.lt_trichotomy k k' with h | h | h
      · exact absurd (hb.2.2 k h) (not_lt.mpr ha.2.1)
      · rw [h]
      · exact absurd (ha.2.2 k' h) (not_lt.mpr hb.2.1)

theorem csum_mono {e : Env} (hp : Nonneg e) : ∀ {i j : Nat}, i ≤ j → csum e i ≤ csum e j := by
  intro i j h
  induction h with
  | refl => exact le_refl _
  | @step m _ ih => simp only [csum]; have := hp (m + 1); linarith

theorem scan_inside {e : Env} (hs : NoSkip e) {xx : Nat} (h : xx ≤ e.maxFrontier) : scan e xx = (some xx, xx) := by
  unfold scan
  have : e.maxFrontier + 1 - xx = (e.maxFrontier - xx) + 1 := by omega
  rw [this]; simp [scanF, h, hs xx h]

theorem scan_beyond {e : Env} {xx : Nat} (h : e.maxFrontier < xx) : scan e xx = (none, xx) := by
  unfold scan
  have : e.maxFrontier + 1 - xx = 0 := by omega
  rw [this]; simp [scanF]

theorem projectIndex_found {e : Env} (hs : NoSkip e) {last1 x : Nat} {ml : Option Nat} (hx : x ≤ e.maxFrontier)
    (h : ml = some x ∨ last1 ≤ x) : projectIndex e last1 x ml = (x + 1, some x) := by
  unfold projectIndex
  have : max x (if ml = some x then 0 else last1) = x := by
    rcases h with h | h
    · simp [h]
    · split <;> omega
  simp only [this, scan_inside hs hx]

theorem projectIndex_beyond {e : Env} {last1 x : Nat} {ml : Option Nat} (hx : e.maxFrontier < x) :
    ∃ l, projectIndex e last1 x ml = (l, none) := by
  unfold projectIndex
  have : e.maxFrontier < max x (if ml = some x then 0 else last1) := lt_of_lt_of_le hx (le_max_left _ _)
  simp only [scan_beyond this]; exact ⟨_, rfl⟩

/-- canonical memo of length `m` -/
def prefixCum (e : Env) (m : Nat) : List Rat := (List.range m).map (csum e)

/-- the instance invariant: the memo is a prefix of the canonical cumulative sequence, and the skip pointer is
    not ahead of it (or will be reset / is irrelevant) -/
def Inv (e : Env) (st : St) : Prop :=
  ∃ m, 1 ≤ m ∧ m ≤ e.maxFrontier + 1 ∧ m ≤ e.maxStorage ∧ st.cum = prefixCum e m ∧ st.sts = List.range m ∧
    (m = e.maxStorage ∨ st.last1 ≤ m ∨ m = e.maxFrontier + 1)

theorem prefixCum_length (e : Env) (m : Nat) : (prefixCum e m).length = m := by simp [prefixCum]

theorem prefixCum_succ (e : Env) (m : Nat) : prefixCum e (m + 1) = prefixCum e m ++ [csum e m] := by
  simp [prefixCum, List.range_succ]

theorem lastD_prefixCum (e : Env) (m : Nat) : lastD (prefixCum e (m + 1)) = csum e m := by
  simp [lastD, prefixCum_succ]

theorem prefixCum_get (e : Env) (m i : Nat) (h : i < m) : (prefixCum e m)[i]? = some (csum e i) := by
  simp [prefixCum, h]

/-- characterisation of `bisectLeft` -/
theorem bisectLeft_spec (l : List Rat) (u : Rat) :
    bisectLeft l u ≤ l.length ∧ (∀ i c, i < bisectLeft l u → l[i]? = some c → c < u) ∧
      (∀ c, l[bisectLeft l u]? = some c → u ≤ c) := by
  induction l with
  | nil => simp [bisectLeft]
  | cons c cs ih =>
    unfold bisectLeft
    split
    · rename_i h; simp [h]
    · rename_i h
      refine ⟨by simpa using ih.1, ?_, ?_⟩
      · intro i c' hi hc
        cases i with
        | zero => simp at hc; rw [← hc]; exact not_le.mp h
        | succ i => simp at hc; exact ih.2.1 i c' (by omega) hc
      · intro c' hc; simp at hc; exact ih.2.2 c' hc

/-- loop invariant of the extension loop at its head, loop variable `x` -/
def LI (e : Env) (st : St) (x : Nat) : Prop :=
  st.cum = prefixCum e (min (x + 1) e.maxStorage) ∧ st.sts = List.range (min (x + 1) e.maxStorage) ∧
    (x + 1 = e.maxStorage ∨ st.last1 ≤ x + 1 ∨ e.maxFrontier < x + 1) ∧ x ≤ e.maxFrontier

theorem LI.inv {e : Env} {st : St} {x : Nat} (hM : 1 ≤ e.maxStorage) (h : LI e st x) : Inv e st := by
  obtain ⟨h1, h2, h3, h4⟩ := h
  refine ⟨min (x + 1) e.maxStorage, by omega, by omega, by omega, h1, h2, ?_⟩
  omega

theorem extend_spec {e : Env} (hs : NoSkip e) (hM : 1 ≤ e.maxStorage) (u : Rat) :
    ∀ (fuel : Nat) (st : St) (x : Nat) (res : Option Nat), LI e st x → e.maxFrontier + 2 ≤ fuel + x →
      (∀ j, j < x → csum e j < u) → (u ≤ csum e x → res = some x) →
      IsFirst e u (extend e u fuel st x (csum e x) res).2 ∧ Inv e (extend e u fuel st x (csum e x) res).1 := by
  intro fuel
  induction fuel with
  | zero => intro st x res h hf; have := h.2.2.2; omega
  | succ fuel ih =>
    intro st x res hLI hf hlt hres
    unfold extend
    by_cases hu : u > csum e x
    · simp only [hu, if_true]
      by_cases hx : x + 1 ≤ e.maxFrontier
      · -- a state is found at index x + 1
        have hfound : projectIndex e st.last1 (x + 1) (some e.maxStorage) = (x + 1 + 1, some (x + 1)) := by
          apply projectIndex_found hs hx
          rcases hLI.2.2.1 with h | h | h
          · left; rw [h]
          · right; exact h
          · omega
        simp only [hfound]
        have hcs : csum e x + e.p (x + 1) = csum e (x + 1) := rfl
        rw [hcs]
        apply ih
        · -- LI for the new state
          obtain ⟨h1, h2, _, _⟩ := hLI
          by_cases hlen : st.cum.length < e.maxStorage
          · simp only [hlen, if_true]
            rw [h1, prefixCum_length] at hlen
            have e1 : min (x + 1) e.maxStorage = x + 1 := by omega
            have e2 : min (x + 1 + 1) e.maxStorage = x + 1 + 1 := by omega
            refine ⟨?_, ?_, Or.inr (Or.inl (le_refl _)), hx⟩
            · simp only [h1, e1, e2]; exact (prefixCum_succ e (x + 1)).symm
            · simp only [h2, e1, e2]; exact List.range_succ.symm
          · simp only [hlen, if_false]
            rw [h1, prefixCum_length] at hlen
            have e1 : min (x + 1) e.maxStorage = e.maxStorage := by omega
            have e2 : min (x + 1 + 1) e.maxStorage = e.maxStorage := by omega
            refine ⟨?_, ?_, Or.inr (Or.inl (le_refl _)), hx⟩
            · simp only [h1, e1, e2]
            · simp only [h2, e1, e2]
        · omega
        · intro j hj
          rcases Nat.lt_succ_iff_lt_or_eq.mp hj with h | h
          · exact hlt j h
          · rw [h]; exact hu
        · intro _; rfl
      · -- exhausted: break
        have hx' : e.maxFrontier < x + 1 := by omega
        obtain ⟨l, hl⟩ := projectIndex_beyond (e := e) (last1 := st.last1) (ml := some e.maxStorage) hx'
        simp only [hl]
        constructor
        · intro j hj
          have hxm : x = e.maxFrontier := by have := hLI.2.2.2; omega
          rcases Nat.lt_or_ge j x with h | h
          · exact hlt j h
          · have : j = x := by omega
            rw [this]; exact hu
        · obtain ⟨h1, h2, _, h4⟩ := hLI
          refine ⟨min (x + 1) e.maxStorage, by omega, by omega, by omega, h1, h2, ?_⟩
          omega
    · simp only [hu, if_false]
      have hle : u ≤ csum e x := not_lt.mp hu
      rw [hres hle]
      exact ⟨⟨hLI.2.2.2, hle, hlt⟩, hLI.inv hM⟩

/-- one draw from an instance satisfying the invariant -/
theorem step_spec {e : Env} (hs : NoSkip e) (hp : Nonneg e) (hM : 1 ≤ e.maxStorage) (st : St) (u : Rat)
    (hI : Inv e st) : IsFirst e u (step e st u).2 ∧ Inv e (step e st u).1 := by
  obtain ⟨m, hm1, hm2, hm3, hc, hsts, hl⟩ := hI
  obtain ⟨m', rfl⟩ : ∃ m', m = m' + 1 := ⟨m - 1, by omega⟩
  unfold step
  have hlast : lastD st.cum = csum e m' := by rw [hc]; exact lastD_prefixCum e m'
  have hlen : st.cum.length - 1 = m' := by rw [hc, prefixCum_length]; omega
  rw [hlast, hlen]
  by_cases hu : u > csum e m'
  · simp only [hu, if_true]
    apply extend_spec hs hM u
    · refine ⟨?_, ?_, ?_, by omega⟩
      · rw [hc]; congr 1; omega
      · rw [hsts]; congr 1; omega
      · omega
    · omega
    · intro j hj; exact lt_of_le_of_lt (csum_mono hp (Nat.le_of_lt hj)) hu
    · intro h; exact absurd h (not_le.mpr hu)
  · simp only [hu, if_false]
    have hle : u ≤ csum e m' := not_lt.mp hu
    obtain ⟨b1, b2, b3⟩ := bisectLeft_spec st.cum u
    generalize bisectLeft st.cum u = jj at b1 b2 b3 ⊢
    have hj : jj < m' + 1 := by
      by_contra hcon
      have hge : m' < jj := by omega
      have := b2 m' (csum e m') hge (by rw [hc]; exact prefixCum_get e _ _ (by omega))
      exact absurd hle (not_le.mpr this)
    refine ⟨?_, ⟨m' + 1, hm1, hm2, hm3, hc, hsts, hl⟩⟩
    have hget : st.sts[jj]? = some jj := by
      rw [hsts]; simp [hj]
    rw [hget]
    refine ⟨by omega, ?_, ?_⟩
    · exact b3 _ (by rw [hc]; exact prefixCum_get e _ _ hj)
    · intro j hjk
      exact b2 j _ hjk (by rw [hc]; exact prefixCum_get e _ _ (by omega))

theorem init_spec {e : Env} (hs : NoSkip e) (hM : 1 ≤ e.maxStorage) :
    ∃ st, init e = some st ∧ Inv e st := by
  have h := projectIndex_found hs (last1 := 0) (x := 0) (ml := none) (Nat.zero_le _) (Or.inr (le_refl _))
  refine ⟨⟨[e.p 0], [0], 1⟩, by simp [init, h], 1, le_refl _, by omega, hM, ?_, ?_, Or.inr (Or.inl (le_refl _))⟩
  · simp [prefixCum, csum]
  · simp [List.range_succ]

theorem run_inv {e : Env} (hs : NoSkip e) (hp : Nonneg e) (hM : 1 ≤ e.maxStorage) (us : List Rat) :
    ∀ st, Inv e st → Inv e (run e st us) := by
  induction us with
  | nil => intro st h; exact h
  | cons u us ih => intro st h; exact ih _ (step_spec hs hp hM st u h).2

end Rpylib.Inversion
