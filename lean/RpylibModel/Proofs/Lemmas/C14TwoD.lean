/-
C14 helper lemmas: the four 2-d pairings are mutually inverse with their projections.
-/
import RpylibModel.Proofs.Lemmas.C14Roots

namespace Rpylib.Pairing

private theorem sq_succ (m : Nat) : (m + 1) * (m + 1) = m * m + 2 * m + 1 := by ring

/-! ### Rosenberg–Strong, d = 2 -/

theorem rs2_proj_pair (x y : Nat) : rs2Proj (rs2Pair x y) = (x, y) := by
  unfold rs2Proj rs2Pair
  by_cases h : x < y
  · have hmax : max x y = y := by omega
    have hs : Nat.sqrt (y * (y + 1) + x - y) = y :=
      sqrt_of_sandwich _ y (by have := Nat.mul_succ y y; rw [Nat.mul_add]; omega)
        (by rw [sq_succ, Nat.mul_add]; omega)
    simp only [hmax, hs]
    have e : y * (y + 1) + x - y - y ^ 2 = x := by rw [Nat.pow_two, Nat.mul_add]; omega
    rw [e]; simp [h]
  · have hmax : max x y = x := by omega
    have hs : Nat.sqrt (x * (x + 1) + x - y) = x :=
      sqrt_of_sandwich _ x (by rw [Nat.mul_add]; omega) (by rw [sq_succ, Nat.mul_add]; omega)
    simp only [hmax, hs]
    have e : x * (x + 1) + x - y - x ^ 2 = 2 * x - y := by rw [Nat.pow_two, Nat.mul_add]; omega
    rw [e]
    have : ¬ (2 * x - y < x) := by omega
    simp only [this, if_false]
    congr 1; omega

theorem rs2_pair_proj (z : Nat) : rs2Pair (rs2Proj z).1 (rs2Proj z).2 = z := by
  unfold rs2Proj rs2Pair
  have h1 := Nat.sqrt_le z
  have h2 := Nat.lt_succ_sqrt z
  generalize Nat.sqrt z = m at *
  rw [Nat.succ_eq_add_one, sq_succ] at h2
  dsimp only
  rw [Nat.pow_two]
  by_cases h : z - m * m < m
  · simp only [h, if_true]
    have : max (z - m * m) m = m := by omega
    rw [this, Nat.mul_add]; omega
  · simp only [h, if_false]
    have : max m (2 * m - (z - m * m)) = m := by omega
    rw [this, Nat.mul_add]; omega

/-! ### Szudzik -/

theorem szudzik_proj_pair (x y : Nat) : szudzikProj (szudzikPair x y) = (x, y) := by
  unfold szudzikProj szudzikPair
  by_cases h : x ≥ y
  · simp only [h, if_true]
    have hs : Nat.sqrt (x ^ 2 + x + y) = x :=
      sqrt_of_sandwich _ x (by rw [Nat.pow_two]; omega) (by rw [sq_succ, Nat.pow_two]; omega)
    simp only [hs]
    have e : x ^ 2 + x + y - x ^ 2 = x + y := by omega
    rw [e]
    have : ¬ (x + y < x) := by omega
    simp only [this, if_false]
    congr 1; omega
  · simp only [h, if_false]
    have hs : Nat.sqrt (x + y ^ 2) = y :=
      sqrt_of_sandwich _ y (by rw [Nat.pow_two]; omega) (by rw [sq_succ, Nat.pow_two]; omega)
    simp only [hs]
    have e : x + y ^ 2 - y ^ 2 = x := by omega
    rw [e]
    have : x < y := by omega
    simp [this]

theorem szudzik_pair_proj (z : Nat) : szudzikPair (szudzikProj z).1 (szudzikProj z).2 = z := by
  unfold szudzikProj szudzikPair
  have h1 := Nat.sqrt_le z
  have h2 := Nat.lt_succ_sqrt z
  generalize Nat.sqrt z = m at *
  rw [Nat.succ_eq_add_one, sq_succ] at h2
  dsimp only
  by_cases h : z - m ^ 2 < m
  · simp only [h, if_true]
    have : ¬ (z - m ^ 2 ≥ m) := by omega
    simp only [this, if_false]
    rw [Nat.pow_two] at *; omega
  · simp only [h, if_false]
    have : m ≥ z - m ^ 2 - m := by rw [Nat.pow_two] at *; omega
    simp only [this, if_true]
    rw [Nat.pow_two] at *; omega

/-! ### Cantor -/

private theorem tri (s : Nat) : ∃ t, s * s + s = 2 * t := by
  induction s with
  | zero => exact ⟨0, rfl⟩
  | succ n ih =>
    obtain ⟨t, ht⟩ := ih
    exact ⟨t + n + 1, by rw [sq_succ]; omega⟩

theorem cantor_proj_pair (x y : Nat) : cantorProj (cantorPair x y) = (x, y) := by
  obtain ⟨t, ht⟩ := tri (x + y)
  have hp : cantorPair x y = t + x := by
    unfold cantorPair
    rw [Nat.pow_two]; omega
  rw [hp]
  unfold cantorProj
  have e1 : (2 * (x + y) + 1) * (2 * (x + y) + 1) = 8 * t + 1 := by
    have : (2 * (x + y) + 1) * (2 * (x + y) + 1) = 4 * ((x + y) * (x + y) + (x + y)) + 1 := by ring
    rw [this, ht]; ring
  have e3 : (2 * (x + y) + 3) * (2 * (x + y) + 3) = 8 * t + 8 * (x + y) + 9 := by
    have : (2 * (x + y) + 3) * (2 * (x + y) + 3) = 4 * ((x + y) * (x + y) + (x + y)) + 8 * (x + y) + 9 := by ring
    rw [this, ht]; ring
  have l1 : 2 * (x + y) + 1 ≤ Nat.sqrt (1 + 8 * (t + x)) := Nat.le_sqrt.mpr (by rw [e1]; omega)
  have l2 : Nat.sqrt (1 + 8 * (t + x)) < 2 * (x + y) + 3 := Nat.sqrt_lt.mpr (by rw [e3]; omega)
  have hw : (Nat.sqrt (1 + 8 * (t + x)) - 1) / 2 = x + y := by omega
  simp only [hw]
  have a1 : (x + y) * (x + y + 1) / 2 = t := by rw [Nat.mul_add]; omega
  have a2 : (x + y) * (x + y + 3) / 2 = t + (x + y) := by rw [Nat.mul_add]; omega
  rw [a1, a2]
  congr 1 <;> omega

theorem cantor_pair_proj (z : Nat) : cantorPair (cantorProj z).1 (cantorProj z).2 = z := by
  unfold cantorProj
  have h1 := Nat.sqrt_le (1 + 8 * z)
  have h2 := Nat.lt_succ_sqrt (1 + 8 * z)
  have h0 : 1 ≤ Nat.sqrt (1 + 8 * z) := Nat.le_sqrt.mpr (by omega)
  generalize Nat.sqrt (1 + 8 * z) = r at *
  generalize hw : (r - 1) / 2 = w
  obtain ⟨t, ht⟩ := tri w
  have lo : (2 * w + 1) * (2 * w + 1) ≤ r * r := Nat.mul_le_mul (by omega) (by omega)
  have hi : (r + 1) * (r + 1) ≤ (2 * w + 3) * (2 * w + 3) := Nat.mul_le_mul (by omega) (by omega)
  have e1 : (2 * w + 1) * (2 * w + 1) = 8 * t + 1 := by
    have : (2 * w + 1) * (2 * w + 1) = 4 * (w * w + w) + 1 := by ring
    rw [this, ht]; ring
  have e3 : (2 * w + 3) * (2 * w + 3) = 8 * t + 8 * w + 9 := by
    have : (2 * w + 3) * (2 * w + 3) = 4 * (w * w + w) + 8 * w + 9 := by ring
    rw [this, ht]; ring
  rw [Nat.succ_eq_add_one] at h2
  have b1 : t ≤ z := by omega
  have b2 : z ≤ t + w := by omega
  have a1 : w * (w + 1) / 2 = t := by rw [Nat.mul_add]; omega
  have a2 : w * (w + 3) / 2 = t + w := by rw [Nat.mul_add]; omega
  simp only [a1, a2]
  unfold cantorPair
  have es : z - t + (t + w - z) = w := by omega
  rw [es, Nat.pow_two]; omega

/-! ### Pepis–Kalmár -/

theorem pepis_kj (q : Nat) : 2 ^ (pepisJ q) * (2 * pepisK q + 1) = q + 1 := by
  induction q using Nat.strong_induction_on with
  | _ q ih =>
    rw [pepisJ, pepisK]
    by_cases h : q % 2 = 0
    · simp only [h, if_true]; omega
    · simp only [h, if_false]
      have := ih (q / 2) (by omega)
      have e : 2 ^ (pepisJ (q / 2) + 1) * (2 * pepisK (q / 2) + 1)
          = 2 * (2 ^ pepisJ (q / 2) * (2 * pepisK (q / 2) + 1)) := by ring
      rw [e, this]; omega

theorem pepis_pair_proj (z : Nat) : pepisPair (pepisProj z).1 (pepisProj z).2 = z := by
  unfold pepisProj pepisPair
  by_cases h : z % 2 = 0
  · simp only [h, if_true]; omega
  · simp only [h, if_false]
    have := pepis_kj (z / 2)
    have e : 2 ^ (pepisJ (z / 2) + 1) * (2 * pepisK (z / 2) + 1)
        = 2 * (2 ^ pepisJ (z / 2) * (2 * pepisK (z / 2) + 1)) := by ring
    rw [e, this]; omega

private theorem pepis_pos (x y : Nat) : 1 ≤ 2 ^ y * (2 * x + 1) :=
  Nat.mul_pos (Nat.two_pow_pos y) (by omega)

theorem pepis_kj_pair (x y : Nat) : pepisK (pepisPair x y) = x ∧ pepisJ (pepisPair x y) = y := by
  induction y with
  | zero =>
    have e : pepisPair x 0 = 2 * x := by unfold pepisPair; omega
    rw [e, pepisK, pepisJ]
    have : 2 * x % 2 = 0 := by omega
    simp only [this, if_true]
    exact ⟨Nat.mul_div_cancel_left x (by omega), trivial⟩
  | succ y ih =>
    have hp := pepis_pos x y
    have e : pepisPair x (y + 1) = 2 * pepisPair x y + 1 := by
      unfold pepisPair; rw [Nat.pow_succ, Nat.mul_assoc, Nat.mul_comm 2 (2 * x + 1), ← Nat.mul_assoc]; omega
    rw [e, pepisK, pepisJ]
    have h1 : ¬ ((2 * pepisPair x y + 1) % 2 = 0) := by omega
    have h2 : (2 * pepisPair x y + 1) / 2 = pepisPair x y := by omega
    simp only [h1, if_false, h2]
    exact ⟨ih.1, by rw [ih.2]⟩

theorem pepis_proj_pair (x y : Nat) : pepisProj (pepisPair x y) = (x, y) := by
  cases y with
  | zero =>
    have e : pepisPair x 0 = 2 * x := by unfold pepisPair; omega
    unfold pepisProj
    rw [e]
    have : 2 * x % 2 = 0 := by omega
    simp only [this, if_true]; congr 1; omega
  | succ y =>
    have hp := pepis_pos x y
    have e : pepisPair x (y + 1) = 2 * pepisPair x y + 1 := by
      unfold pepisPair; rw [Nat.pow_succ, Nat.mul_assoc, Nat.mul_comm 2 (2 * x + 1), ← Nat.mul_assoc]; omega
    unfold pepisProj
    rw [e]
    have h1 : ¬ ((2 * pepisPair x y + 1) % 2 = 0) := by omega
    have h2 : (2 * pepisPair x y + 1) / 2 = pepisPair x y := by omega
    simp only [h1, if_false, h2]
    obtain ⟨a, b⟩ := pepis_kj_pair x y
    rw [a, b]

end Rpylib.Pairing
