/-
C18 — the transform values of the COS formula (helper file): for an integrable real density `f` with characteristic function
`φ(u) = ∫ f(y) e^{iuy} dy`, `Re(φ(u)·e^{-iua}) = ∫ f(y) cos(u (y-a)) dy`; under (T) at the k-th COS frequency this is `Cos.reCoef`.
-/
import RpylibModel.Proofs.Lemmas.C18Exact
import Mathlib.MeasureTheory.Integral.Bochner.ContinuousLinearMap
import Mathlib.Analysis.Complex.Trigonometric
import Mathlib.Analysis.SpecialFunctions.Complex.Circle
import Mathlib.MeasureTheory.Function.SpecialFunctions.Basic

namespace Rpylib.Pricers.Cos
open MeasureTheory Complex

/-- characteristic function of a real density (as a Bochner integral over ℝ) -/
noncomputable def cfOf (f : ℝ → ℝ) (u : ℝ) : ℂ := ∫ y, (f y : ℂ) * Complex.exp (Complex.I * (u * y))

theorem cf_pointwise (f : ℝ → ℝ) (u a y : ℝ) :
    ((f y : ℂ) * Complex.exp (Complex.I * (u * y)) * Complex.exp (-(Complex.I * (u * a)))).re
      = f y * Real.cos (u * (y - a)) := by
  rw [mul_assoc, ← Complex.exp_add]
  have e : Complex.I * (u * y) + -(Complex.I * (u * a)) = ((u * (y - a) : ℝ) : ℂ) * Complex.I := by
    push_cast; ring
  rw [e, Complex.exp_mul_I, ← Complex.ofReal_cos, ← Complex.ofReal_sin, Complex.re_ofReal_mul]
  congr 1
  rw [Complex.add_re, Complex.ofReal_re, Complex.mul_re, Complex.ofReal_re, Complex.ofReal_im, Complex.I_re, Complex.I_im]
  ring

theorem cf_integrable (f : ℝ → ℝ) (hf : Integrable f) (u a : ℝ) :
    Integrable (fun y : ℝ => (f y : ℂ) * Complex.exp (Complex.I * (u * y)) * Complex.exp (-(Complex.I * (u * a)))) := by
  have h1 : Integrable (fun y : ℝ => (f y : ℂ)) := hf.ofReal
  have hm : AEStronglyMeasurable (fun y : ℝ => Complex.exp (Complex.I * (u * y))) volume := by
    apply Continuous.aestronglyMeasurable; fun_prop
  have h2 := h1.mul_bdd (c := 1) hm (Filter.Eventually.of_forall fun y => by
    have := Complex.norm_exp_I_mul_ofReal (u * y)
    push_cast at this
    exact this.le)
  exact h2.mul_const _

/-- **`Re(φ(u) e^{-iua}) = ∫ f(y) cos(u (y-a)) dy`**: the number the code takes from the characteristic function -/
theorem cf_re_eq (f : ℝ → ℝ) (hf : Integrable f) (u a : ℝ) :
    (cfOf f u * Complex.exp (-(Complex.I * (u * a)))).re = ∫ y, f y * Real.cos (u * (y - a)) := by
  unfold cfOf
  rw [← integral_mul_const]
  have := (Complex.reCLM.integral_comp_comm (cf_integrable f hf u a)).symm
  simp only [Complex.reCLM_apply] at this
  rw [this]
  exact integral_congr_ae (Filter.Eventually.of_forall fun y => cf_pointwise f u a y)

/-- under (T): the transform value at the k-th COS frequency is `reCoef` -/
theorem cf_re_eq_reCoef (f : ℝ → ℝ) (hf : Integrable f) (a b : ℝ) (hab : a ≤ b) (hsupp : ∀ y, y ∉ Set.Icc a b → f y = 0)
    (k : ℕ) : (cfOf f (freq a b k) * Complex.exp (-(Complex.I * (freq a b k * a)))).re = reCoef a b f k := by
  rw [cf_re_eq f hf]
  unfold reCoef cosK
  exact integral_eq_interval _ a b hab (fun y hy => by rw [hsupp y hy, zero_mul])

end Rpylib.Pricers.Cos
