/-
C18 — spec-level no-arbitrage shape (helper file).  Finitely supported laws of the terminal spot over ℝ, Finset sums,
no measure theory.  The numerical prices of the implementation are *compared* against this shape by the harness; the
link "COS/FFT series value = expectation under the model's law" is NOT proved (truncation and series error).
-/
import Mathlib.Algebra.Order.BigOperators.Group.Finset
import Mathlib.Algebra.BigOperators.Ring.Finset
import Mathlib.Data.Real.Basic
import Mathlib.Tactic.Linarith
import Mathlib.Tactic.Ring

namespace Rpylib.Pricers.Spec
open Finset

/-- a finitely supported probability law of the terminal spot: atoms `x i ≥ 0` with weights `w i ≥ 0`, `Σ w = 1` -/
structure FinLaw (ι : Type) where
  s : Finset ι
  w : ι → ℝ
  x : ι → ℝ
  w_nonneg : ∀ i ∈ s, 0 ≤ w i
  w_sum : ∑ i ∈ s, w i = 1
  x_nonneg : ∀ i ∈ s, 0 ≤ x i

variable {ι : Type} (L : FinLaw ι)

/-- forward = mean of the law -/
noncomputable def fwd : ℝ := ∑ i ∈ L.s, L.w i * L.x i
/-- call price `df * E[(S - K)^+]` -/
noncomputable def call (df K : ℝ) : ℝ := df * ∑ i ∈ L.s, L.w i * max (L.x i - K) 0
/-- put price `df * E[(K - S)^+]` -/
noncomputable def put (df K : ℝ) : ℝ := df * ∑ i ∈ L.s, L.w i * max (K - L.x i) 0
/-- digital price `df * P(S > K)` -/
noncomputable def digital (df K : ℝ) : ℝ := df * ∑ i ∈ L.s, L.w i * (if K < L.x i then 1 else 0)

/-! per-atom facts -/

theorem atom_antitone (x K1 K2 : ℝ) (h : K1 ≤ K2) : max (x - K2) 0 ≤ max (x - K1) 0 :=
  max_le_max (by linarith) le_rfl

theorem atom_convex (x K1 K2 t : ℝ) (h0 : 0 ≤ t) (h1 : t ≤ 1) :
    max (x - (t * K1 + (1 - t) * K2)) 0 ≤ t * max (x - K1) 0 + (1 - t) * max (x - K2) 0 := by
  have a1 : x - K1 ≤ max (x - K1) 0 := le_max_left _ _
  have a2 : x - K2 ≤ max (x - K2) 0 := le_max_left _ _
  have b1 : 0 ≤ max (x - K1) 0 := le_max_right _ _
  have b2 : 0 ≤ max (x - K2) 0 := le_max_right _ _
  have h1' : 0 ≤ 1 - t := by linarith
  apply max_le
  · have : x - (t * K1 + (1 - t) * K2) = t * (x - K1) + (1 - t) * (x - K2) := by ring
    rw [this]
    have := mul_le_mul_of_nonneg_left a1 h0
    have := mul_le_mul_of_nonneg_left a2 h1'
    linarith
  · have := mul_nonneg h0 b1
    have := mul_nonneg h1' b2
    linarith

theorem atom_parity (x K : ℝ) : max (x - K) 0 - max (K - x) 0 = x - K := by
  rcases le_total x K with h | h
  · rw [max_eq_right (by linarith), max_eq_left (by linarith)]; ring
  · rw [max_eq_left (by linarith), max_eq_right (by linarith)]; ring

theorem atom_slope (x K1 K2 : ℝ) (h : K1 ≤ K2) : max (x - K1) 0 - max (x - K2) 0 ≤ K2 - K1 := by
  have b2 : 0 ≤ max (x - K2) 0 := le_max_right _ _
  have a2 : x - K2 ≤ max (x - K2) 0 := le_max_left _ _
  have : max (x - K1) 0 ≤ max (x - K2) 0 + (K2 - K1) := by
    apply max_le <;> linarith
  linarith

/-! sums -/

theorem sum_w_mul_le {f g : ι → ℝ} (h : ∀ i ∈ L.s, f i ≤ g i) :
    ∑ i ∈ L.s, L.w i * f i ≤ ∑ i ∈ L.s, L.w i * g i :=
  sum_le_sum fun i hi => mul_le_mul_of_nonneg_left (h i hi) (L.w_nonneg i hi)

theorem sum_w_const (c : ℝ) : ∑ i ∈ L.s, L.w i * c = c := by
  rw [← sum_mul, L.w_sum, one_mul]

theorem fwd_nonneg : 0 ≤ fwd L :=
  sum_nonneg fun i hi => mul_nonneg (L.w_nonneg i hi) (L.x_nonneg i hi)

theorem call_sum_nonneg (K : ℝ) : 0 ≤ ∑ i ∈ L.s, L.w i * max (L.x i - K) 0 :=
  sum_nonneg fun i hi => mul_nonneg (L.w_nonneg i hi) (le_max_right _ _)

theorem put_sum_nonneg (K : ℝ) : 0 ≤ ∑ i ∈ L.s, L.w i * max (K - L.x i) 0 :=
  sum_nonneg fun i hi => mul_nonneg (L.w_nonneg i hi) (le_max_right _ _)

/-- undiscounted parity `E(S-K)^+ - E(K-S)^+ = F - K` -/
theorem sum_parity (K : ℝ) :
    (∑ i ∈ L.s, L.w i * max (L.x i - K) 0) - (∑ i ∈ L.s, L.w i * max (K - L.x i) 0) = fwd L - K := by
  rw [← sum_sub_distrib]
  have : ∀ i ∈ L.s, L.w i * max (L.x i - K) 0 - L.w i * max (K - L.x i) 0 = L.w i * L.x i - L.w i * K := by
    intro i _
    rw [← mul_sub, atom_parity]; ring
  rw [sum_congr rfl this, sum_sub_distrib, sum_w_const]
  rfl

end Rpylib.Pricers.Spec
