/-
C16 helper lemmas: the NumPy-shape model of RpylibModel/Model/Sde.lean evaluated on the column state (m, 1) and on the
stacked state (2, m, 1).
-/
import RpylibModel.Model.Sde
import RpylibModel.Proofs.Lemmas.C16Sum
import Mathlib.Tactic.Linarith
import Mathlib.Tactic.Ring
import Mathlib.Algebra.Order.Field.Rat

namespace Rpylib.Sde

theorem bshape_mat_col (m d : Nat) : bshape [m, d] [m, 1] = some [m, d] := by
  simp [bshape, bshapeRev]

theorem bshape_mat_stack (m d : Nat) : bshape [m, d] [2, m, 1] = some [2, m, d] := by
  simp [bshape, bshapeRev]

/-- entries read by the matrix operand, for an in-range index -/
theorem bidx_mat2 (m d k j : Nat) (hk : k < m) (hj : j < d) : bidx [m, d] [k, j] = [k, j] := by
  have h1 : (if m = 1 then 0 else k) = k := by split <;> omega
  have h2 : (if d = 1 then 0 else j) = j := by split <;> omega
  simp [bidx, h1, h2]

theorem bidx_mat3 (m d c k j : Nat) (hk : k < m) (hj : j < d) : bidx [m, d] [c, k, j] = [k, j] := by
  have h1 : (if m = 1 then 0 else k) = k := by split <;> omega
  have h2 : (if d = 1 then 0 else j) = j := by split <;> omega
  simp [bidx, h1, h2]

theorem bidx_col2 (m k j : Nat) (hk : k < m) : bidx [m, 1] [k, j] = [k, 0] := by
  have h1 : (if m = 1 then 0 else k) = k := by split <;> omega
  simp [bidx, h1]

theorem bidx_stack3 (m c k j : Nat) (hk : k < m) : bidx [2, m, 1] [c, k, j] = [c, k, 0] := by
  have h1 : (if m = 1 then 0 else k) = k := by split <;> omega
  simp [bidx, h1]

end Rpylib.Sde
