/-
Helper lemmas for C02, n-dimensional adapted binary search: when the box-mass table `M` is non-negative and additive
along the bisection (what `_compute_probability` is for a measure), the cells of state `s` produced by the axis-cycling
bisection of a bucket have total length `M (point s)`; same for the precomputed axis vectors and the bucket search.
-/
import RpylibModel.Model.Samplers.AdaptedNd
import Mathlib.Tactic.Linarith
import Mathlib.Tactic.Ring
import Mathlib.Algebra.Order.Field.Rat

namespace Rpylib.AdaptedNd

/-- every range is non-empty (`l ≤ r`) -/
def WfBox (b : Box) : Prop := ∀ lr ∈ b, lr.1 ≤ lr.2

/-- additivity of the box mass when one axis is cut at its (integer) midpoint -/
def Additive (M : Box → Rat) : Prop :=
  ∀ (b : Box) (k l r : Nat), b[k]? = some (l, r) → l < r →
    M b = M (b.set k (l, (l + r) / 2)) + M (b.set k ((l + r) / 2 + 1, r))

/-- what state `s` should receive from box `b` -/
def cellMass (M : Box → Rat) (b : Box) (s : List Nat) : Rat := if inBox s b then M (point s) else 0

theorem lengthOf_append (l1 l2 : List Cell) (s : List Nat) : lengthOf (l1 ++ l2) s = lengthOf l1 s + lengthOf l2 s := by
  simp [lengthOf, List.map_append, List.sum_append]

theorem lengthOf_leaf (st s : List Nat) (lo w : Rat) (hw : 0 ≤ w) :
    lengthOf (leaf st lo (lo + w)) s = if st = s then w else 0 := by
  unfold leaf
  by_cases h : lo < lo + w
  · rw [if_pos h]
    simp only [lengthOf, List.map_cons, List.map_nil, List.sum_cons, List.sum_nil, add_zero]
    split_ifs <;> ring
  · rw [if_neg h]
    have : w = 0 := by linarith
    simp [lengthOf, this]

/-! ### boxes -/

theorem wf_set {b : Box} (hb : WfBox b) (k l r : Nat) (h : l ≤ r) : WfBox (b.set k (l, r)) := by
  intro lr hlr
  rcases List.mem_or_eq_of_mem_set hlr with h' | h'
  · exact hb lr h'
  · subst h'; exact h

theorem fuelOf_set : ∀ (b : Box) (k l r l' r' : Nat), b[k]? = some (l, r) →
    fuelOf (b.set k (l', r')) + (r - l) = fuelOf b + (r' - l') := by
  intro b
  induction b with
  | nil => intro k l r l' r' h; simp at h
  | cons x b ih =>
    intro k l r l' r' h
    cases k with
    | zero =>
      simp only [List.getElem?_cons_zero, Option.some.injEq] at h
      subst h
      simp only [List.set_cons_zero, fuelOf, List.map_cons, List.sum_cons]
      omega
    | succ k =>
      simp only [List.getElem?_cons_succ] at h
      have := ih k l r l' r' h
      simp only [List.set_cons_succ, fuelOf, List.map_cons, List.sum_cons] at this ⊢
      omega

/-- membership in a box with one range shrunk -/
theorem inBox_set_iff : ∀ (b : Box) (k l r l' r' : Nat) (s : List Nat), b[k]? = some (l, r) → l ≤ l' → r' ≤ r →
    (inBox s (b.set k (l', r')) = true ↔ inBox s b = true ∧ ∃ x, s[k]? = some x ∧ l' ≤ x ∧ x ≤ r') := by
  intro b
  induction b with
  | nil => intro k l r l' r' s h; simp at h
  | cons x b ih =>
    intro k l r l' r' s h h1 h2
    obtain ⟨l0, r0⟩ := x
    cases s with
    | nil => cases k <;> simp [inBox]
    | cons y ys =>
      cases k with
      | zero =>
        simp only [List.getElem?_cons_zero, Option.some.injEq, Prod.mk.injEq] at h
        obtain ⟨rfl, rfl⟩ := h
        simp only [List.set_cons_zero, inBox, Bool.and_eq_true, decide_eq_true_eq, List.getElem?_cons_zero,
          Option.some.injEq]
        constructor
        · rintro ⟨⟨a, b'⟩, c⟩; exact ⟨⟨⟨by omega, by omega⟩, c⟩, y, rfl, a, b'⟩
        · rintro ⟨⟨_, c⟩, x, rfl, a, b'⟩; exact ⟨⟨a, b'⟩, c⟩
      | succ k =>
        simp only [List.getElem?_cons_succ] at h
        have := ih k l r l' r' ys h h1 h2
        simp only [List.set_cons_succ, inBox, Bool.and_eq_true, decide_eq_true_eq, List.getElem?_cons_succ, this]
        constructor
        · rintro ⟨a, b', c⟩; exact ⟨⟨a, b'⟩, c⟩
        · rintro ⟨⟨a, b'⟩, c⟩; exact ⟨a, b', c⟩

theorem inBox_get (b : Box) (k l r : Nat) (s : List Nat) (h : b[k]? = some (l, r)) (hin : inBox s b = true) :
    ∃ x, s[k]? = some x ∧ l ≤ x ∧ x ≤ r := by
  have e : b.set k (l, r) = b := by
    apply List.ext_getElem?
    intro i
    by_cases hi : k = i
    · subst hi
      have hlt : k < b.length := by
        by_contra hc
        rw [List.getElem?_eq_none (by omega)] at h; cases h
      rw [List.getElem?_set_self hlt, h]
    · rw [List.getElem?_set_ne hi]
  have := (inBox_set_iff b k l r l r s h (le_refl _) (le_refl _)).mp (by rw [e]; exact hin)
  exact this.2

theorem cellMass_split (M : Box → Rat) (b : Box) (k l r m : Nat) (s : List Nat) (h : b[k]? = some (l, r)) (h1 : l ≤ m)
    (h2 : m < r) : cellMass M b s = cellMass M (b.set k (l, m)) s + cellMass M (b.set k (m + 1, r)) s := by
  have hL := inBox_set_iff b k l r l m s h (le_refl _) (by omega)
  have hR := inBox_set_iff b k l r (m + 1) r s h (by omega) (le_refl _)
  unfold cellMass
  by_cases hin : inBox s b = true
  · obtain ⟨x, hx, hx1, hx2⟩ := inBox_get b k l r s h hin
    by_cases hxm : x ≤ m
    · have eL : inBox s (b.set k (l, m)) = true := hL.mpr ⟨hin, x, hx, hx1, hxm⟩
      have eR : ¬ inBox s (b.set k (m + 1, r)) = true := by
        intro hc; obtain ⟨_, x', hx', a, _⟩ := hR.mp hc
        rw [hx] at hx'; cases hx'; omega
      rw [if_pos hin, if_pos eL, if_neg eR, add_zero]
    · have eL : ¬ inBox s (b.set k (l, m)) = true := by
        intro hc; obtain ⟨_, x', hx', _, a⟩ := hL.mp hc
        rw [hx] at hx'; cases hx'; omega
      have eR : inBox s (b.set k (m + 1, r)) = true := hR.mpr ⟨hin, x, hx, by omega, hx2⟩
      rw [if_pos hin, if_neg eL, if_pos eR, zero_add]
  · have eL : ¬ inBox s (b.set k (l, m)) = true := fun hc => hin (hL.mp hc).1
    have eR : ¬ inBox s (b.set k (m + 1, r)) = true := fun hc => hin (hR.mp hc).1
    rw [if_neg hin, if_neg eL, if_neg eR, add_zero]

/-! ### degenerate boxes -/

theorem allDeg_cons (x : Nat × Nat) (b : Box) : allDeg (x :: b) = true ↔ x.1 = x.2 ∧ allDeg b = true := by
  simp [allDeg]

/-- for a one-cell box, `s` is inside iff it is its corner, and the box is the point of its corner -/
theorem allDeg_inBox : ∀ (b : Box) (s : List Nat), allDeg b = true → (inBox s b = true ↔ corner b = s) := by
  intro b
  induction b with
  | nil => intro s _; cases s <;> simp [inBox, corner]
  | cons x b ih =>
    intro s h
    obtain ⟨l, r⟩ := x
    obtain ⟨h1, h2⟩ := (allDeg_cons _ _).mp h
    simp only at h1; subst h1
    cases s with
    | nil => simp [inBox, corner]
    | cons y ys =>
      have := ih ys h2
      simp only [inBox, Bool.and_eq_true, decide_eq_true_eq, this, corner, List.map_cons, List.cons.injEq]
      constructor
      · rintro ⟨⟨a, b'⟩, c⟩; exact ⟨by omega, c⟩
      · rintro ⟨a, c⟩; exact ⟨⟨by omega, by omega⟩, c⟩

theorem allDeg_point : ∀ (b : Box), allDeg b = true → point (corner b) = b := by
  intro b
  induction b with
  | nil => intro _; rfl
  | cons x b ih =>
    intro h
    obtain ⟨l, r⟩ := x
    obtain ⟨h1, h2⟩ := (allDeg_cons _ _).mp h
    simp only at h1; subst h1
    simp only [corner, point, List.map_cons, List.cons.injEq, true_and]
    exact ih h2

theorem allDeg_of_fuel_zero : ∀ (b : Box), WfBox b → fuelOf b = 0 → allDeg b = true := by
  intro b
  induction b with
  | nil => intro _ _; rfl
  | cons x b ih =>
    intro hw hf
    simp only [fuelOf, List.map_cons, List.sum_cons] at hf
    have h1 := hw x (by simp)
    rw [allDeg_cons]
    exact ⟨by omega, ih (fun lr hlr => hw lr (by simp [hlr])) (by simp only [fuelOf]; omega)⟩

theorem exists_nondeg : ∀ (b : Box), ¬ allDeg b = true → ∃ k ∈ List.range b.length, ∃ l r, b[k]? = some (l, r) ∧ l ≠ r := by
  intro b
  induction b with
  | nil => intro h; exact absurd rfl h
  | cons x b ih =>
    intro h
    obtain ⟨l, r⟩ := x
    by_cases hlr : l = r
    · have hb : ¬ allDeg b = true := fun hb => h ((allDeg_cons _ _).mpr ⟨hlr, hb⟩)
      obtain ⟨k, hk, l', r', e, ne⟩ := ih hb
      refine ⟨k + 1, ?_, l', r', by simpa using e, ne⟩
      simp only [List.mem_range, List.length_cons] at hk ⊢; omega
    · exact ⟨0, by simp, l, r, by simp, hlr⟩

/-- a degenerate (or fuel-exhausted) box is a leaf carrying its own mass -/
theorem leaf_law (M : Box → Rat) (hnn : ∀ b, 0 ≤ M b) (res : Box) (base : Rat) (s : List Nat) (hd : allDeg res = true) :
    lengthOf (leaf (corner res) base (base + M res)) s = cellMass M res s := by
  rw [lengthOf_leaf _ _ _ _ (hnn res)]
  unfold cellMass
  by_cases h : corner res = s
  · rw [if_pos h, if_pos ((allDeg_inBox res s hd).mpr h), ← h, allDeg_point res hd]
  · rw [if_neg h, if_neg (fun hc => h ((allDeg_inBox res s hd).mp hc))]

/-! ### sweeps and the while loop -/

theorem sweep_law (M : Box → Rat) (hadd : Additive M) (hnn : ∀ b, 0 ≤ M b) (s : List Nat) (n : Nat)
    (cont : Box → Rat → Rat → Rat → List Cell)
    (hcont : ∀ res base, WfBox res → fuelOf res ≤ n → lengthOf (cont res base base (base + M res)) s = cellMass M res s) :
    ∀ (ks : List Nat) (res : Box) (base : Rat), WfBox res →
      (fuelOf res ≤ n ∨ (fuelOf res ≤ n + 1 ∧ ∃ k ∈ ks, ∃ l r, res[k]? = some (l, r) ∧ l ≠ r)) →
      lengthOf (cellsSweep M ks res base base (base + M res) cont) s = cellMass M res s := by
  intro ks
  induction ks with
  | nil =>
    intro res base hw h
    rcases h with h | ⟨_, k, hk, _⟩
    · simpa only [cellsSweep] using hcont res base hw h
    · simp at hk
  | cons k ks ih =>
    intro res base hw h
    -- if axis `k` is skipped, a witness of non-degeneracy lies in `ks`
    have hskip : (∀ l r, res[k]? = some (l, r) → l = r) →
        (fuelOf res ≤ n ∨ (fuelOf res ≤ n + 1 ∧ ∃ k' ∈ ks, ∃ l r, res[k']? = some (l, r) ∧ l ≠ r)) := by
      intro hk
      rcases h with h | ⟨h, k', hk', l, r, e, ne⟩
      · exact Or.inl h
      · rcases List.mem_cons.mp hk' with rfl | hk'
        · exact absurd (hk l r e) ne
        · exact Or.inr ⟨h, k', hk', l, r, e, ne⟩
    cases hk : res[k]? with
    | none =>
      simp only [cellsSweep, hk]
      exact ih res base hw (hskip (fun l r e => by rw [hk] at e; cases e))
    | some lr =>
      obtain ⟨l, r⟩ := lr
      by_cases hlr : l = r
      · simp only [cellsSweep, hk, if_pos hlr]
        exact ih res base hw (hskip (fun l' r' e => by rw [hk] at e; cases e; exact hlr))
      · simp only [cellsSweep, hk, if_neg hlr]
        have hmem : (l, r) ∈ res := List.mem_of_getElem? hk
        have hle : l ≤ r := hw _ hmem
        have hlt : l < r := by omega
        have hm1 : l ≤ (l + r) / 2 := by omega
        have hm2 : (l + r) / 2 < r := by omega
        have hmin : min r ((l + r) / 2 + 1) = (l + r) / 2 + 1 := by omega
        rw [hmin]
        have hA := hadd res k l r hk hlt
        have hfL := fuelOf_set res k l r l ((l + r) / 2) hk
        have hfR := fuelOf_set res k l r ((l + r) / 2 + 1) r hk
        have hfuel : fuelOf res ≤ n + 1 := by rcases h with h | h; omega; exact h.1
        have hnL := hnn (res.set k (l, (l + r) / 2))
        have hnR := hnn (res.set k ((l + r) / 2 + 1, r))
        have e1 : min (base + M res) (base + M (res.set k (l, (l + r) / 2))) = base + M (res.set k (l, (l + r) / 2)) :=
          min_eq_right (by linarith)
        have e2 : max base (base + M (res.set k (l, (l + r) / 2))) = base + M (res.set k (l, (l + r) / 2)) :=
          max_eq_right (by linarith)
        have e3 : base + M res = base + M (res.set k (l, (l + r) / 2)) + M (res.set k ((l + r) / 2 + 1, r)) := by
          rw [hA]; ring
        rw [lengthOf_append, e1, e2]
        rw [ih _ base (wf_set hw k _ _ hm1) (Or.inl (by omega))]
        conv_lhs => rw [e3]
        rw [ih _ _ (wf_set hw k _ _ (by omega)) (Or.inl (by omega))]
        exact (cellMass_split M res k l r ((l + r) / 2) s hk hm1 hm2).symm

/-- **bucket law**: the cells of `s` produced by the bisection of a box `b` placed on `(base, base + M b]` have total
    length `M (point s)` if `s ∈ b`, else 0 -/
theorem search_law (M : Box → Rat) (hadd : Additive M) (hnn : ∀ b, 0 ≤ M b) (s : List Nat) : ∀ (n : Nat) (res : Box)
    (base : Rat), WfBox res → fuelOf res ≤ n →
    lengthOf (cellsSearch M n res base base (base + M res)) s = cellMass M res s := by
  intro n
  induction n with
  | zero =>
    intro res base hw hf
    simp only [cellsSearch]
    exact leaf_law M hnn res base s (allDeg_of_fuel_zero res hw (by omega))
  | succ n ih =>
    intro res base hw hf
    by_cases hd : allDeg res = true
    · simp only [cellsSearch, if_pos hd]
      exact leaf_law M hnn res base s hd
    · simp only [cellsSearch, if_neg hd]
      exact sweep_law M hadd hnn s n (cellsSearch M n) ih (List.range res.length) res base hw
        (Or.inr ⟨hf, exists_nondeg res hd⟩)

/-! ### precomputed axis vectors -/

/-- successive differences of a cumulative vector -/
def diffs : Rat → List Rat → List Rat
  | _, [] => []
  | prev, c :: cs => (c - prev) :: diffs c cs

theorem cumsum_diffs : ∀ (cs : List Rat) (prev : Rat), cumsum prev (diffs prev cs) = cs := by
  intro cs
  induction cs with
  | nil => intro _; rfl
  | cons c cs ih => intro prev; simp only [diffs, cumsum, add_sub_cancel, ih]

/-- what state `s` receives from an axis vector with weights `w` whose position `j + i` is state `st (j + i)` -/
def axisLaw (st : Nat → List Nat) : List Rat → Nat → List Nat → Rat
  | [], _, _ => 0
  | x :: xs, j, s => (if st j = s then x else 0) + axisLaw st xs (j + 1) s

theorem list_sum_nonneg : ∀ (l : List Rat), (∀ x ∈ l, 0 ≤ x) → 0 ≤ l.sum
  | [], _ => by simp
  | a :: l, h => by
    have := list_sum_nonneg l (fun x hx => h x (by simp [hx]))
    have := h a (by simp)
    simp only [List.sum_cons]; linarith

theorem bisect_law (st : Nat → List Nat) (base : Rat) (s : List Nat) : ∀ (w : List Rat) (acc : Rat) (j : Nat),
    (∀ x ∈ w, 0 ≤ x) →
    lengthOf (cellsBisect st (cumsum acc w) j base (base + acc) (base + acc + w.sum)) s = axisLaw st w j s := by
  intro w
  induction w with
  | nil =>
    intro acc j _
    simp only [cumsum, cellsBisect, List.sum_nil, axisLaw]
    rw [lengthOf_leaf _ _ _ _ (le_refl _)]; simp
  | cons x xs ih =>
    intro acc j hw
    have hx : 0 ≤ x := hw x (by simp)
    have hxs : 0 ≤ xs.sum := list_sum_nonneg xs (fun y hy => hw y (by simp [hy]))
    simp only [cumsum, cellsBisect, List.sum_cons, axisLaw]
    have e1 : min (base + acc + (x + xs.sum)) (base + (acc + x)) = base + acc + x := by
      rw [min_eq_right (by linarith)]; ring
    have e2 : max (base + acc) (base + (acc + x)) = base + (acc + x) := max_eq_right (by linarith)
    have e3 : base + acc + (x + xs.sum) = base + (acc + x) + xs.sum := by ring
    rw [lengthOf_append, e1, e2, e3, lengthOf_leaf _ _ _ _ hx, ih (acc + x) (j + 1) (fun y hy => hw y (by simp [hy]))]

/-! ### the chain of buckets -/

/-- the tables are consistent with `M`: `_cum_ps` are the cumulated box masses, boxes are non-empty, the axis vectors
    are non-decreasing from 0 and end at the box mass -/
def Consistent (M : Box → Rat) : List Bucket → Rat → Prop
  | [], _ => True
  | bk :: bks, prev =>
    bk.cumP = prev + M bk.box ∧ WfBox bk.box ∧
      (bk.isAxis = true → (∀ x ∈ diffs 0 bk.axisCum, 0 ≤ x) ∧ (diffs 0 bk.axisCum).sum = M bk.box) ∧
      Consistent M bks bk.cumP

/-- the length state `s` receives from one bucket -/
def bucketLaw (M : Box → Rat) (bk : Bucket) (s : List Nat) : Rat :=
  if bk.isAxis then axisLaw (axisState bk.box) (diffs 0 bk.axisCum) 0 s else cellMass M bk.box s

theorem from_law (M : Box → Rat) (hadd : Additive M) (hnn : ∀ b, 0 ≤ M b) (s : List Nat) : ∀ (bks : List Bucket)
    (prev : Rat), Consistent M bks prev →
    lengthOf (cellsFrom M bks prev prev) s = (bks.map (fun bk => bucketLaw M bk s)).sum := by
  intro bks
  induction bks with
  | nil => intro prev _; simp [cellsFrom, lengthOf]
  | cons bk bks ih =>
    intro prev ⟨h1, h2, h3, h4⟩
    simp only [cellsFrom, List.map_cons, List.sum_cons]
    have hmax : max prev bk.cumP = bk.cumP := max_eq_right (by rw [h1]; linarith [hnn bk.box])
    rw [lengthOf_append, hmax, ih bk.cumP h4]
    congr 1
    unfold cellsBucket bucketLaw
    by_cases ha : bk.isAxis = true
    · obtain ⟨hw, hs⟩ := h3 ha
      rw [if_pos ha, if_pos ha]
      have := bisect_law (axisState bk.box) prev s (diffs 0 bk.axisCum) 0 0 hw
      rw [cumsum_diffs, hs, add_zero] at this
      rw [h1]; exact this
    · rw [if_neg ha, if_neg ha, h1]
      exact search_law M hadd hnn s _ bk.box prev h2 (le_refl _)

end Rpylib.AdaptedNd
