/-
C20 — helper lemmas about RpylibModel/Model/Params.lean (invariants of one step, frame lemmas, constructor = initialisation
on the same primaries).
-/
import RpylibModel.Model.Params
import Mathlib.Tactic.Linarith
import Mathlib.Algebra.Order.Field.Rat

set_option linter.unusedVariables false
set_option linter.unusedSimpArgs false

namespace Rpylib.Params

/-- every stored attribute satisfies the constraint its class declares for it -/
def Inv (f : Fam) (d : Dict) : Prop := ∀ a v, d a = some v → (cons f a).ok v = true

/-- the constructor arguments are present (nothing ever deletes an attribute) -/
def HasPrims (f : Fam) (d : Dict) : Prop := ∀ a ∈ prims f, (d a).isSome = true

theorem assign_cases (f : Fam) (d : Dict) (a : Attr) (v : Rat) :
    ((cons f a).ok v = true ∧ assign f d a v = (d.set a v, .ok)) ∨
    ((cons f a).ok v = false ∧ assign f d a v = (d, .valueError)) := by
  unfold assign
  cases h : (cons f a).ok v <;> simp

theorem set_inv (f : Fam) (d : Dict) (a : Attr) (v : Rat) (h : Inv f d) (hv : (cons f a).ok v = true) :
    Inv f (d.set a v) := by
  intro b w hb
  unfold Dict.set at hb
  by_cases hba : b = a
  · subst hba; simp at hb; subst hb; exact hv
  · simp [hba] at hb; exact h b w hb

theorem set_free_inv (f : Fam) (d : Dict) (a : Attr) (v : Rat) (h : Inv f d) (hfree : cons f a = .free) :
    Inv f (d.set a v) := set_inv f d a v h (by rw [hfree]; rfl)

theorem assign_inv (f : Fam) (d : Dict) (a : Attr) (v : Rat) (h : Inv f d) : Inv f (assign f d a v).1 := by
  rcases assign_cases f d a v with ⟨hv, he⟩ | ⟨hv, he⟩
  · rw [he]; exact set_inv f d a v h hv
  · rw [he]; exact h

theorem initialisation_inv (irr : Irr) (f : Fam) (d : Dict) (h : Inv f d) : Inv f (initialisation irr f d).1 := by
  cases f with
  | bs => exact set_free_inv _ _ _ _ h rfl
  | merton => exact h
  | hem =>
    unfold initialisation; simp only
    split
    · exact h
    · exact set_free_inv _ _ _ _ h rfl
  | vg =>
    unfold initialisation; simp only
    split
    · exact h
    · split
      · exact set_free_inv _ _ _ _ h rfl
      · exact set_free_inv _ _ _ _ (set_free_inv _ _ _ _ (set_free_inv _ _ _ _ h rfl) rfl) rfl
  | cgmy => exact set_free_inv _ _ _ _ (set_free_inv _ _ _ _ (set_free_inv _ _ _ _ h rfl) rfl) rfl

theorem assignAll_inv (f : Fam) : ∀ (l : List (Attr × Rat)) (d : Dict), Inv f d → Inv f (assignAll f d l).1
  | [], d, h => h
  | (a, v) :: rest, d, h => by
    rcases assign_cases f d a v with ⟨hv, he⟩ | ⟨hv, he⟩
    · simp only [assignAll, he]; exact assignAll_inv f rest _ (set_inv f d a v h hv)
    · simp only [assignAll, he]; exact h

/-- all sets applied, in order -/
def setAll (args : Attr → Rat) (l : List Attr) (d : Dict) : Dict := l.foldl (fun d a => d.set a (args a)) d

theorem assignAll_of_valid (f : Fam) (args : Attr → Rat) : ∀ (l : List Attr) (d : Dict),
    (∀ a ∈ l, (cons f a).ok (args a) = true) →
    assignAll f d (l.map (fun a => (a, args a))) = (setAll args l d, .ok)
  | [], d, _ => rfl
  | a :: rest, d, h => by
    rcases assign_cases f d a (args a) with ⟨hv, he⟩ | ⟨hv, he⟩
    · simp only [List.map_cons, assignAll, he]
      exact assignAll_of_valid f args rest _ (fun b hb => h b (List.mem_cons_of_mem _ hb))
    · rw [h a (List.mem_cons_self ..)] at hv; cases hv

theorem assignAll_ok (f : Fam) (args : Attr → Rat) : ∀ (l : List Attr) (d : Dict),
    (assignAll f d (l.map (fun a => (a, args a)))).2 = .ok →
    (∀ a ∈ l, (cons f a).ok (args a) = true)
  | [], d, _ => by simp
  | a :: rest, d, h => by
    rcases assign_cases f d a (args a) with ⟨hv, he⟩ | ⟨hv, he⟩
    · simp only [List.map_cons, assignAll, he] at h
      intro b hb
      rcases List.mem_cons.mp hb with rfl | hb
      · exact hv
      · exact assignAll_ok f args rest _ h b hb
    · simp [assignAll, he] at h

theorem construct_of_valid (irr : Irr) (f : Fam) (args : Attr → Rat)
    (h : ∀ a ∈ prims f, (cons f a).ok (args a) = true) :
    construct irr f args = initialisation irr f (setAll args (prims f) Dict.empty) := by
  unfold construct
  rw [assignAll_of_valid f args (prims f) Dict.empty h]

theorem construct_valid_of_ok (irr : Irr) (f : Fam) (args : Attr → Rat) (h : (construct irr f args).2 = .ok) :
    ∀ a ∈ prims f, (cons f a).ok (args a) = true := by
  apply assignAll_ok f args (prims f) Dict.empty
  unfold construct at h
  generalize assignAll f Dict.empty ((prims f).map (fun a => (a, args a))) = r at h ⊢
  obtain ⟨d, o⟩ := r
  cases o <;> simp_all

theorem prims_not_derived (f : Fam) (a : Attr) (ha : a ∈ prims f) : a ∉ derivedNames f := by
  intro hd
  cases f <;> simp [prims, derivedNames] at ha hd <;> (try (rcases hd with rfl | rfl | rfl)) <;>
    simp at ha

/-- `initialisation` writes cached attributes only (whatever its outcome) -/
theorem init_frame (irr : Irr) (f : Fam) (d : Dict) (h : (initialisation irr f d).2 = .ok) (a : Attr)
    (ha : a ∉ derivedNames f) : (initialisation irr f d).1 a = d a := by
  cases f with
  | bs => simp [derivedNames] at ha; simp [initialisation, Dict.set, ha]
  | merton => rfl
  | hem =>
    simp [derivedNames] at ha
    unfold initialisation; simp only
    split <;> simp [Dict.set, ha]
  | vg =>
    simp [derivedNames] at ha
    unfold initialisation; simp only
    split
    · rfl
    · split <;> simp [Dict.set, ha]
  | cgmy => simp [derivedNames] at ha; simp [initialisation, Dict.set, ha]

theorem init_get_prim (irr : Irr) (f : Fam) (d : Dict) (h : (initialisation irr f d).2 = .ok) (a : Attr)
    (ha : a ∉ derivedNames f) : (initialisation irr f d).1.get a = d.get a := by
  unfold Dict.get; rw [init_frame irr f d h a ha]

theorem init_derived (irr : Irr) (f : Fam) (d : Dict) (h : (initialisation irr f d).2 = .ok) :
    ∀ a ∈ derivedNames f, (initialisation irr f d).1 a = deriveOf irr f (initialisation irr f d).1 a := by
  intro a ha
  cases f with
  | bs =>
    simp [derivedNames] at ha; subst ha
    simp [initialisation, deriveOf, Dict.set, Dict.get]
  | merton => simp [derivedNames] at ha
  | hem =>
    simp [derivedNames] at ha; subst ha
    unfold initialisation at h ⊢; simp only at h ⊢
    split
    · next hc => simp [hc] at h
    · simp [deriveOf, Dict.set, Dict.get]
  | vg =>
    simp [derivedNames] at ha
    unfold initialisation at h ⊢; simp only at h ⊢
    split
    · next hc => simp [hc] at h
    · next hc =>
      simp only [hc, if_false] at h
      split
      · next hc2 => simp [hc2] at h
      · rcases ha with rfl | rfl | rfl <;> simp [deriveOf, Dict.set, Dict.get, vgLambdaM]
  | cgmy =>
    simp [derivedNames] at ha
    rcases ha with rfl | rfl | rfl <;> simp [initialisation, deriveOf, Dict.set, Dict.get]

theorem set_hasPrims (f : Fam) (d : Dict) (a : Attr) (v : Rat) (h : HasPrims f d) : HasPrims f (d.set a v) := by
  intro b hb
  unfold Dict.set
  by_cases hba : b = a
  · simp [hba]
  · simp [hba]; exact h b hb

theorem step_hasPrims (irr : Irr) (f : Fam) (d : Dict) (op : Op) (h : HasPrims f d) : HasPrims f (step irr f d op).1 := by
  cases op with
  | set a v =>
    rcases assign_cases f d a v with ⟨_, he⟩ | ⟨_, he⟩
    · simp only [step, he]; exact set_hasPrims f d a v h
    · simp only [step, he]; exact h
  | init =>
    simp only [step]
    cases f with
    | bs => exact set_hasPrims _ _ _ _ h
    | merton => exact h
    | hem =>
      unfold initialisation; simp only
      split
      · exact h
      · exact set_hasPrims _ _ _ _ h
    | vg =>
      unfold initialisation; simp only
      split
      · exact h
      · split
        · exact set_hasPrims _ _ _ _ h
        · exact set_hasPrims _ _ _ _ (set_hasPrims _ _ _ _ (set_hasPrims _ _ _ _ h))
    | cgmy => exact set_hasPrims _ _ _ _ (set_hasPrims _ _ _ _ (set_hasPrims _ _ _ _ h))

theorem run_hasPrims (irr : Irr) (f : Fam) : ∀ (ops : List Op) (d : Dict), HasPrims f d → HasPrims f (run irr f d ops)
  | [], d, h => h
  | op :: rest, d, h => by
    simp only [run, List.foldl_cons]
    exact run_hasPrims irr f rest _ (step_hasPrims irr f d op h)

theorem get_of_some (d : Dict) (a : Attr) (h : (d a).isSome = true) : d a = some (d.get a) := by
  unfold Dict.get
  cases hd : d a with
  | none => simp [hd] at h
  | some v => simp

theorem setAll_notin (args : Attr → Rat) : ∀ (l : List Attr) (d : Dict) (a : Attr), a ∉ l → setAll args l d a = d a
  | [], d, a, _ => rfl
  | b :: rest, d, a, h => by
    have h1 : a ≠ b := fun e => h (e ▸ List.mem_cons_self ..)
    have h2 : a ∉ rest := fun e => h (List.mem_cons_of_mem _ e)
    simp only [setAll, List.foldl_cons]
    have := setAll_notin args rest (d.set b (args b)) a h2
    simp only [setAll] at this
    rw [this]; simp [Dict.set, h1]

theorem setAll_mem (args : Attr → Rat) : ∀ (l : List Attr) (d : Dict) (a : Attr), a ∈ l → setAll args l d a = some (args a)
  | [], d, a, h => by simp at h
  | b :: rest, d, a, h => by
    simp only [setAll, List.foldl_cons]
    by_cases hr : a ∈ rest
    · have := setAll_mem args rest (d.set b (args b)) a hr
      simpa [setAll] using this
    · have hab : a = b := by
        rcases List.mem_cons.mp h with e | e
        · exact e
        · exact absurd e hr
      have := setAll_notin args rest (d.set b (args b)) a hr
      simp only [setAll] at this
      rw [this]; subst hab; simp [Dict.set]

/-- the cached attributes depend on the stored primaries only -/
theorem deriveOf_congr (irr : Irr) (f : Fam) (d1 d2 : Dict) (h : ∀ q ∈ prims f, d1.get q = d2.get q) (a : Attr) :
    deriveOf irr f d1 a = deriveOf irr f d2 a := by
  cases f <;> simp [prims] at h <;> cases a <;> simp [deriveOf, h]

theorem init_outcome_congr (irr : Irr) (f : Fam) (d1 d2 : Dict) (h : ∀ q ∈ prims f, d1.get q = d2.get q) :
    (initialisation irr f d1).2 = (initialisation irr f d2).2 := by
  cases f with
  | bs => rfl
  | merton => rfl
  | hem =>
    simp [prims] at h
    unfold initialisation; simp only [h]
    split <;> rfl
  | vg =>
    simp [prims] at h
    unfold initialisation; simp only [h]
    split
    · rfl
    · split <;> rfl
  | cgmy => rfl

/-- the constructor called with the primaries an object holds after a successful `initialisation` succeeds and produces
    the same attributes -/
theorem construct_eq_of_init (irr : Irr) (f : Fam) (d : Dict) (hinv : Inv f d) (hp : HasPrims f d)
    (h : (initialisation irr f d).2 = .ok) :
    (construct irr f (initialisation irr f d).1.get).2 = .ok ∧
    ∀ a, a ∈ prims f ∨ a ∈ derivedNames f →
      (construct irr f (initialisation irr f d).1.get).1 a = (initialisation irr f d).1 a := by
  have hg : ∀ a ∈ prims f, (initialisation irr f d).1.get a = d.get a :=
    fun a ha => init_get_prim irr f d h a (prims_not_derived f a ha)
  have hval : ∀ a ∈ prims f, (cons f a).ok ((initialisation irr f d).1.get a) = true := by
    intro a ha
    rw [hg a ha]
    exact hinv a _ (get_of_some d a (hp a ha))
  rw [construct_of_valid irr f _ hval]
  generalize hD : setAll (initialisation irr f d).1.get (prims f) Dict.empty = D
  have hDp : ∀ a ∈ prims f, D a = some (d.get a) := by
    intro a ha; rw [← hD, setAll_mem _ _ _ _ ha, hg a ha]
  have hDg : ∀ a ∈ prims f, D.get a = d.get a := by
    intro a ha; unfold Dict.get; rw [hDp a ha]; rfl
  have hok : (initialisation irr f D).2 = .ok := by rw [init_outcome_congr irr f D d hDg]; exact h
  refine ⟨hok, ?_⟩
  intro a ha
  rcases ha with ha | ha
  · rw [init_frame irr f D hok a (prims_not_derived f a ha), init_frame irr f d h a (prims_not_derived f a ha), hDp a ha]
    exact (get_of_some d a (hp a ha)).symm
  · rw [init_derived irr f D hok a ha, init_derived irr f d h a ha]
    apply deriveOf_congr
    intro q hpp
    rw [init_get_prim irr f D hok q (prims_not_derived f q hpp), init_get_prim irr f d h q (prims_not_derived f q hpp)]
    exact hDg q hpp

theorem construct_prims (irr : Irr) (f : Fam) (args : Attr → Rat) (h : (construct irr f args).2 = .ok) :
    ∀ a ∈ prims f, (construct irr f args).1 a = some (args a) := by
  have hv := construct_valid_of_ok irr f args h
  rw [construct_of_valid irr f args hv] at h ⊢
  intro a ha
  rw [init_frame irr f _ h a (prims_not_derived f a ha)]
  exact setAll_mem args (prims f) Dict.empty a ha

theorem rebuild_accepts (irr : Irr) (f : Fam) (d : Dict) (a : Attr) (x : Rat) (d2 : Dict)
    (h : rebuild irr f d a x = some d2) : (cons f a).ok x = true := by
  rcases assign_cases f d a x with ⟨hv, he⟩ | ⟨hv, he⟩
  · exact hv
  · simp [rebuild, he] at h

theorem rebuild_spec (irr : Irr) (f : Fam) (d : Dict) (a : Attr) (x : Rat) (d2 : Dict) (hinv : Inv f d)
    (ha : a ∉ derivedNames f) (h : rebuild irr f d a x = some d2) :
    Inv f d2 ∧ d2 a = some x ∧ (∀ b, b ≠ a → b ∉ derivedNames f → d2 b = d b) ∧
    (∀ b ∈ derivedNames f, d2 b = deriveOf irr f d2 b) := by
  rcases assign_cases f d a x with ⟨hv, he⟩ | ⟨hv, he⟩
  · simp only [rebuild, he] at h
    cases hi : initialisation irr f (d.set a x) with
    | mk d3 o =>
      cases o with
      | ok =>
        simp [hi] at h; subst h
        have hok : (initialisation irr f (d.set a x)).2 = .ok := by rw [hi]
        have hd3 : d3 = (initialisation irr f (d.set a x)).1 := by rw [hi]
        refine ⟨?_, ?_, ?_, ?_⟩
        · rw [hd3]; exact initialisation_inv irr f _ (set_inv f d a x hinv hv)
        · rw [hd3, init_frame irr f _ hok a ha]; simp [Dict.set]
        · intro b hb hbd
          rw [hd3, init_frame irr f _ hok b hbd]; simp [Dict.set, hb]
        · rw [hd3]; exact init_derived irr f _ hok
      | valueError => simp [hi] at h
      | zeroDiv => simp [hi] at h
  · simp [rebuild, he] at h

theorem evalAt_frame (irr : Irr) (f : Fam) (a : Attr) (i j : Nat) (hne : j ≠ i) (h : Heap) (v : Rat) :
    (h.evalAt irr f i a v).obj j = h.obj j := by
  unfold Heap.evalAt
  split <;> simp [Heap.write, hne]

theorem evalAt_next (irr : Irr) (f : Fam) (a : Attr) (i : Nat) (h : Heap) (v : Rat) :
    (h.evalAt irr f i a v).next = h.next := by
  unfold Heap.evalAt
  split <;> simp [Heap.write]

theorem foldl_evalAt_frame (irr : Irr) (f : Fam) (a : Attr) (i j : Nat) (hne : j ≠ i) :
    ∀ (trace : List Rat) (h : Heap), (trace.foldl (fun h v => h.evalAt irr f i a v) h).obj j = h.obj j
  | [], h => rfl
  | v :: rest, h => by
    simp only [List.foldl_cons]
    rw [foldl_evalAt_frame irr f a i j hne rest _, evalAt_frame irr f a i j hne]

end Rpylib.Params
