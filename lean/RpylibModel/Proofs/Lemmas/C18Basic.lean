/- C18 — small algebra helpers about the model's `rmax` (helper file). -/
import RpylibModel.Model.Pricers
import Mathlib.Tactic.Linarith
import Mathlib.Algebra.Order.Field.Rat

namespace Rpylib.Pricers

theorem rmax_sub_rmax_neg (x : Rat) : rmax 0 x - rmax 0 (-x) = x := by
  unfold rmax; split <;> split <;> linarith

theorem rmax_nonneg (x : Rat) : 0 ≤ rmax 0 x := by
  unfold rmax; split <;> linarith

end Rpylib.Pricers
