/-
C14 helper lemmas: the bound of the states enumeration since /repo commit 94bedf1 (`maxEnum`) exceeds the index of every
state of the box, for every pairing.
-/
import RpylibModel.Model.PairingBound
import RpylibModel.Proofs.Lemmas.C14Lazy
import RpylibModel.Proofs.Lemmas.C14Fold

namespace Rpylib.Pairing

theorem le_maxFrom0 : ∀ (l : List Int) (x : Int), x ∈ l → x ≤ maxFrom0 l
  | [], x, h => by simp at h
  | y :: t, x, h => by
    simp only [maxFrom0]
    rcases List.mem_cons.1 h with c | c
    · subst c; exact Int.le_max_left _ _
    · exact Int.le_trans (le_maxFrom0 t x c) (Int.le_max_right _ _)

theorem maxFrom0_nonneg : ∀ (l : List Int), 0 ≤ maxFrom0 l
  | [] => by simp [maxFrom0]
  | y :: t => by
    simp only [maxFrom0]
    exact Int.le_trans (maxFrom0_nonneg t) (Int.le_max_right _ _)

/-- a state of the box is the shifted image of an index tuple of the axis sizes -/
theorem inBox_index_tuple (o : Nat) : ∀ (ns : List Nat) (v : List Int), inBox o ns v = true →
    Below (v.map (fun x => (x + (o : Int)).toNat)) ns ∧
    (v.map (fun x => (x + (o : Int)).toNat)).map (fun (k : Nat) => (k : Int) - (o : Int)) = v
  | [], [], _ => ⟨trivial, rfl⟩
  | [], _ :: _, h => by simp [inBox] at h
  | _ :: _, [], h => by simp [inBox] at h
  | n :: ns, x :: v, h => by
    simp only [inBox, Bool.and_eq_true, decide_eq_true_eq] at h
    obtain ⟨⟨h1, h2⟩, h3⟩ := h
    obtain ⟨a, b⟩ := inBox_index_tuple o ns v h3
    refine ⟨⟨by show (x + (o : Int)).toNat < n; omega, a⟩, ?_⟩
    simp only [List.map_cons, List.cons.injEq]
    exact ⟨by omega, b⟩

theorem inBox_mem_boxStates (o : Nat) (ns : List Nat) (v : List Int) (h : inBox o ns v = true) : v ∈ boxStates o ns := by
  obtain ⟨a, b⟩ := inBox_index_tuple o ns v h
  have hlen := lazyProduct_length' ns
  have hm : v.map (fun x => (x + (o : Int)).toNat) ∈ lazyProduct ns := by
    have hlt := undigits_lt ns _ a
    have hg := lazyProduct_getElem? ns (undigits ns (v.map (fun x => (x + (o : Int)).toNat)))
    simp only [hlt, if_true, lazyNth_undigits ns _ a] at hg
    exact List.mem_of_getElem? hg
  unfold boxStates
  exact List.mem_map.2 ⟨_, hm, b⟩

/-- the index of every state of the box is at most `max_inside_index` -/
theorem le_maxInside (pairZ : List Int → Int) (o : Nat) (ns : List Nat) (v : List Int) (h : inBox o ns v = true) :
    pairZ v ≤ maxInside pairZ o ns :=
  le_maxFrom0 _ _ (List.mem_map.2 ⟨v, inBox_mem_boxStates o ns v h, rfl⟩)

/-- … hence, in dimension ≥ 2, strictly below the bound `max_frontier_indices + 1` the code now uses -/
theorem lt_maxEnum_succ (pairZ : List Int → Int) (o : Nat) (ns : List Nat) (hd : 2 ≤ ns.length) (v : List Int)
    (h : inBox o ns v = true) : pairZ v < (((maxEnum pairZ o ns + 1).toNat : Nat) : Int) := by
  have h1 := le_maxInside pairZ o ns v h
  have h2 : maxInside pairZ o ns ≤ maxEnum pairZ o ns := by
    unfold maxEnum
    rw [if_neg (by omega)]
    exact Int.le_max_right _ _
  omega

theorem maxEnum_nonneg (pairZ : List Int → Int) (o : Nat) (ns : List Nat) : 0 ≤ maxEnum pairZ o ns := by
  unfold maxEnum
  split
  · exact Int.le_max_right _ _
  · exact Int.le_trans (maxFrom0_nonneg _) (Int.le_max_right _ _)

end Rpylib.Pairing
