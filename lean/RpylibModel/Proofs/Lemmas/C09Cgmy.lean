/-
C09, CGMY first moment on one side of zero (cgmy.py:142-168, 262-276) and the two E1 cases (y = 0 mass, y = 1 first
moment).  The upper incomplete gamma function z ↦ Γ(2−α, z) = Γ(2−α)·gammaincc(2−α, z) is a parameter `Gam` with
the explicit hypothesis `Gam' z = −z^(1−α) e^{−z}` for z > 0 (Mathlib has no incomplete gamma function).
-/
import RpylibModel.Proofs.Lemmas.C09SpecialInf
import Mathlib.Analysis.SpecialFunctions.Pow.Deriv
import Mathlib.Analysis.SpecialFunctions.Pow.Continuity

namespace Rpylib.Integrals
open Real MeasureTheory

/-- cgmy.py:95-103 `_CGMYLevyMeasure.__call__` -/
noncomputable def cgmyDensity (c g m y x : ℝ) : ℝ :=
  if x < 0 then c * exp (-(g * |x|)) / |x| ^ (y + 1)
  else if 0 < x then c * exp (-(m * |x|)) / |x| ^ (y + 1) else 0

/-- cgmy.py:262-276 `__integrate_h_to_inf_for_xx(alpha, h, u)` for alpha ≠ 1, i.e. ∫_h^∞ e^{−ux} x^{−α} dx;
    `Gam z` stands for `gamma(2 − alpha) * gammaincc(2 − alpha, z)` -/
noncomputable def cgmyTailX (Gam : ℝ → ℝ) (alpha u h : ℝ) : ℝ :=
  (h ^ (1 - alpha) * exp (-(u * h)) - u ^ (alpha - 1) * Gam (u * h)) / (alpha - 1)

theorem hasDerivAt_cgmyTailX (Gam : ℝ → ℝ) (alpha u : ℝ) (hα : alpha ≠ 1) (hu : 0 < u)
    (hG : ∀ z, 0 < z → HasDerivAt Gam (-(z ^ (1 - alpha) * exp (-z))) z) (h : ℝ) (hh : 0 < h) :
    HasDerivAt (cgmyTailX Gam alpha u) (-(exp (-(u * h)) * h ^ (-alpha))) h := by
  have hpow : HasDerivAt (fun v : ℝ => v ^ (1 - alpha)) ((1 - alpha) * h ^ (1 - alpha - 1)) h :=
    Real.hasDerivAt_rpow_const (Or.inl hh.ne')
  have hexp := hasDerivAt_exp_lin u h
  have hlin : HasDerivAt (fun v : ℝ => u * v) u h := by simpa using (hasDerivAt_id h).const_mul u
  have hGc : HasDerivAt (fun v : ℝ => Gam (u * v)) (-((u * h) ^ (1 - alpha) * exp (-(u * h))) * u) h :=
    (hG (u * h) (mul_pos hu hh)).comp h hlin
  have hall : HasDerivAt (fun v : ℝ => (v ^ (1 - alpha) * exp (-(u * v)) - u ^ (alpha - 1) * Gam (u * v)) / (alpha - 1))
      (((1 - alpha) * h ^ (1 - alpha - 1) * exp (-(u * h)) + h ^ (1 - alpha) * (exp (-(u * h)) * (-u))
        - u ^ (alpha - 1) * (-((u * h) ^ (1 - alpha) * exp (-(u * h))) * u)) / (alpha - 1)) h :=
    ((hpow.mul hexp).sub (hGc.const_mul (u ^ (alpha - 1)))).div_const (alpha - 1)
  refine hall.congr_deriv ?_
  have e1 : h ^ (1 - alpha - 1) = h ^ (-alpha) := by congr 1; ring
  have e2 : h ^ (1 - alpha) = h * h ^ (-alpha) := by
    rw [show (1 - alpha) = 1 + -alpha by ring, rpow_add hh, rpow_one]
  have e3 : (u * h) ^ (1 - alpha) = u ^ (1 - alpha) * h ^ (1 - alpha) := mul_rpow hu.le hh.le
  have e4 : u ^ (alpha - 1) * u ^ (1 - alpha) = 1 := by
    rw [← rpow_add hu, show alpha - 1 + (1 - alpha) = 0 by ring, rpow_zero]
  have hα' : alpha - 1 ≠ 0 := sub_ne_zero.mpr hα
  rw [e1, e3, e2]
  have key : u ^ (alpha - 1) * (-(u ^ (1 - alpha) * (h * h ^ (-alpha)) * exp (-(u * h))) * u)
      = -(h * h ^ (-alpha) * exp (-(u * h)) * u) := by
    calc u ^ (alpha - 1) * (-(u ^ (1 - alpha) * (h * h ^ (-alpha)) * exp (-(u * h))) * u)
        = -((u ^ (alpha - 1) * u ^ (1 - alpha)) * (h * h ^ (-alpha)) * exp (-(u * h)) * u) := by ring
      _ = -(h * h ^ (-alpha) * exp (-(u * h)) * u) := by rw [e4]; ring
  rw [key]
  field_simp
  ring

/-- FTC: `∫_a^b e^{−ux} x^{−α} dx = tail(a) − tail(b)` for 0 < a ≤ b, u > 0, α ≠ 1 -/
theorem integral_exp_rpow (Gam : ℝ → ℝ) (alpha u : ℝ) (hα : alpha ≠ 1) (hu : 0 < u)
    (hG : ∀ z, 0 < z → HasDerivAt Gam (-(z ^ (1 - alpha) * exp (-z))) z) (a b : ℝ) (ha : 0 < a) (hab : a ≤ b) :
    ∫ x in a..b, exp (-(u * x)) * x ^ (-alpha) = cgmyTailX Gam alpha u a - cgmyTailX Gam alpha u b := by
  have hpos : ∀ x ∈ Set.uIcc a b, 0 < x := by
    intro x hx; rw [Set.uIcc_of_le hab] at hx; exact lt_of_lt_of_le ha hx.1
  have hderiv : ∀ x ∈ Set.uIcc a b, HasDerivAt (fun v => -cgmyTailX Gam alpha u v) (exp (-(u * x)) * x ^ (-alpha)) x := by
    intro x hx
    have h := (hasDerivAt_cgmyTailX Gam alpha u hα hu hG x (hpos x hx)).neg
    rw [neg_neg] at h
    exact h
  have hcont : ContinuousOn (fun x : ℝ => exp (-(u * x)) * x ^ (-alpha)) (Set.uIcc a b) :=
    ContinuousOn.mul (Continuous.continuousOn (by fun_prop))
      (continuousOn_id.rpow_const (fun x hx => Or.inl (hpos x hx).ne'))
  rw [intervalIntegral.integral_eq_sub_of_hasDerivAt hderiv hcont.intervalIntegrable]
  ring

/-- CGMY first moment on [a,b] ⊂ (0,∞), y ≠ 1: `c (tail(a) − tail(b))` with (α, u) = (y, m)  (cgmy.py:150-157) -/
theorem integral_cgmy_x_pos (Gam : ℝ → ℝ) (c g m y : ℝ) (hy : y ≠ 1) (hm : 0 < m)
    (hG : ∀ z, 0 < z → HasDerivAt Gam (-(z ^ (1 - y) * exp (-z))) z) (a b : ℝ) (ha : 0 < a) (hab : a ≤ b) :
    ∫ x in a..b, x ^ 1 * cgmyDensity c g m y x = c * (cgmyTailX Gam y m a - cgmyTailX Gam y m b) := by
  rw [← integral_exp_rpow Gam y m hy hm hG a b ha hab, ← intervalIntegral.integral_const_mul]
  apply intervalIntegral.integral_congr
  intro x hx
  rw [Set.uIcc_of_le hab] at hx
  have hx0 : 0 < x := lt_of_lt_of_le ha hx.1
  have h1 : ¬ x < 0 := not_lt.mpr hx0.le
  have hxy : x ^ (y + 1) = x ^ y * x := by rw [rpow_add hx0, rpow_one]
  have hneg : x ^ (-y) = (x ^ y)⁻¹ := rpow_neg hx0.le y
  have hxyne : x ^ y ≠ 0 := (rpow_pos_of_pos hx0 y).ne'
  simp only [cgmyDensity, h1, hx0, if_true, if_false, abs_of_pos hx0, pow_one]
  rw [hxy, hneg]
  field_simp

/-- CGMY first moment on [a,b] ⊂ (−∞,0), y ≠ 1: `c (tail(−a) − tail(−b))` with (α, u) = (y, g)  (cgmy.py:159-166) -/
theorem integral_cgmy_x_neg (Gam : ℝ → ℝ) (c g m y : ℝ) (hy : y ≠ 1) (hg : 0 < g)
    (hG : ∀ z, 0 < z → HasDerivAt Gam (-(z ^ (1 - y) * exp (-z))) z) (a b : ℝ) (hb : b < 0) (hab : a ≤ b) :
    ∫ x in a..b, x ^ 1 * cgmyDensity c g m y x = c * (cgmyTailX Gam y g (-a) - cgmyTailX Gam y g (-b)) := by
  have hrefl : ∫ x in a..b, x ^ 1 * cgmyDensity c g m y x
      = ∫ x in a..b, (fun t => -(t ^ 1 * cgmyDensity c g g y t)) (-x) := by
    apply intervalIntegral.integral_congr
    intro x hx
    rw [Set.uIcc_of_le hab] at hx
    have hx0 : x < 0 := lt_of_le_of_lt hx.2 hb
    have h1 : ¬ -x < 0 := by linarith
    have h2 : 0 < -x := by linarith
    simp only [cgmyDensity, hx0, h1, h2, if_true, if_false, abs_neg, pow_one]
    ring
  rw [hrefl, intervalIntegral.integral_comp_neg (fun t => -(t ^ 1 * cgmyDensity c g g y t)),
    intervalIntegral.integral_neg,
    integral_cgmy_x_pos Gam c g g y hy hg hG (-b) (-a) (by linarith) (by linarith)]
  ring

/-! ### the mass on one side of zero, y ∉ {0, 1} branch of `__integrate_h_to_inf` (cgmy.py:215-235) -/

/-- cgmy.py:227-235 `__integrate_h_to_inf(alpha, h, u)` (the closed branch, used for alpha < 1, alpha ≠ 0), i.e.
    ∫_h^∞ e^{−ux} x^{−1−α} dx; `Gam z` stands for `gamma(2 − alpha) * gammaincc(2 − alpha, z)` -/
noncomputable def cgmyTail0 (Gam : ℝ → ℝ) (alpha u h : ℝ) : ℝ :=
  (exp (-(u * h)) * (1 + u * h / (1 - alpha)) - (u * h) ^ alpha * Gam (u * h) / (1 - alpha)) / (alpha * h ^ alpha)

theorem hasDerivAt_cgmyTail0 (Gam : ℝ → ℝ) (alpha u : ℝ) (hα0 : alpha ≠ 0) (hα1 : alpha ≠ 1) (hu : 0 < u)
    (hG : ∀ z, 0 < z → HasDerivAt Gam (-(z ^ (1 - alpha) * exp (-z))) z) (h : ℝ) (hh : 0 < h) :
    HasDerivAt (cgmyTail0 Gam alpha u) (-(exp (-(u * h)) / h ^ (alpha + 1))) h := by
  have huh : 0 < u * h := mul_pos hu hh
  have hexp := hasDerivAt_exp_lin u h
  have hlin : HasDerivAt (fun v : ℝ => u * v) u h := by simpa using (hasDerivAt_id h).const_mul u
  have hGc : HasDerivAt (fun v : ℝ => Gam (u * v)) (-((u * h) ^ (1 - alpha) * exp (-(u * h))) * u) h :=
    (hG (u * h) huh).comp h hlin
  have hzpow : HasDerivAt (fun v : ℝ => (u * v) ^ alpha) (alpha * (u * h) ^ (alpha - 1) * u) h :=
    (Real.hasDerivAt_rpow_const (Or.inl huh.ne')).comp h hlin
  have hpoly : HasDerivAt (fun v : ℝ => 1 + u * v / (1 - alpha)) (u / (1 - alpha)) h :=
    (hlin.div_const (1 - alpha)).const_add 1
  have hden : HasDerivAt (fun v : ℝ => alpha * v ^ alpha) (alpha * (alpha * h ^ (alpha - 1))) h :=
    (Real.hasDerivAt_rpow_const (Or.inl hh.ne')).const_mul alpha
  have hnum : HasDerivAt
      (fun v : ℝ => exp (-(u * v)) * (1 + u * v / (1 - alpha)) - (u * v) ^ alpha * Gam (u * v) / (1 - alpha))
      (exp (-(u * h)) * -u * (1 + u * h / (1 - alpha)) + exp (-(u * h)) * (u / (1 - alpha))
        - (alpha * (u * h) ^ (alpha - 1) * u * Gam (u * h)
            + (u * h) ^ alpha * (-((u * h) ^ (1 - alpha) * exp (-(u * h))) * u)) / (1 - alpha)) h :=
    (hexp.mul hpoly).sub ((hzpow.mul hGc).div_const (1 - alpha))
  have hdne : alpha * h ^ alpha ≠ 0 := mul_ne_zero hα0 (rpow_pos_of_pos hh alpha).ne'
  have hall : HasDerivAt
      (fun v : ℝ => (exp (-(u * v)) * (1 + u * v / (1 - alpha)) - (u * v) ^ alpha * Gam (u * v) / (1 - alpha))
        / (alpha * v ^ alpha))
      (((exp (-(u * h)) * -u * (1 + u * h / (1 - alpha)) + exp (-(u * h)) * (u / (1 - alpha))
        - (alpha * (u * h) ^ (alpha - 1) * u * Gam (u * h)
            + (u * h) ^ alpha * (-((u * h) ^ (1 - alpha) * exp (-(u * h))) * u)) / (1 - alpha)) * (alpha * h ^ alpha)
        - (exp (-(u * h)) * (1 + u * h / (1 - alpha)) - (u * h) ^ alpha * Gam (u * h) / (1 - alpha))
          * (alpha * (alpha * h ^ (alpha - 1)))) / (alpha * h ^ alpha) ^ 2) h :=
    hnum.div hden hdne
  refine hall.congr_deriv ?_
  -- atoms: Q = h^α, Z = (uh)^(α−1)
  have hQ : 0 < h ^ alpha := rpow_pos_of_pos hh alpha
  have hZ : 0 < (u * h) ^ (alpha - 1) := rpow_pos_of_pos huh _
  have e1 : h ^ (alpha - 1) = h ^ alpha / h := rpow_sub_one hh.ne' alpha
  have e2 : h ^ (alpha + 1) = h ^ alpha * h := by rw [rpow_add hh, rpow_one]
  have e3 : (u * h) ^ alpha = (u * h) ^ (alpha - 1) * (u * h) := by
    rw [show alpha = (alpha - 1) + 1 by ring, rpow_add huh, rpow_one]; ring_nf
  have e4 : (u * h) ^ (1 - alpha) = ((u * h) ^ (alpha - 1))⁻¹ := by
    rw [show (1 - alpha) = -(alpha - 1) by ring, rpow_neg huh.le]
  have h1α : (1 - alpha) ≠ 0 := sub_ne_zero.mpr (Ne.symm hα1)
  simp only [e1, e2, e4]
  rw [e3]
  generalize (u * h) ^ (alpha - 1) = Z at hZ ⊢
  generalize h ^ alpha = Q at hQ hdne ⊢
  generalize exp (-(u * h)) = e
  generalize Gam (u * h) = Gv
  have hZ' := hZ.ne'
  have hQ' := hQ.ne'
  have hh' := hh.ne'
  field_simp
  ring

/-- one step of the recursion of cgmy.py:222-225 (integration by parts): if `T' = −e^{−uh}/h^α` then
    `e^{−uh}/(α h^α) − (u/α) T` has derivative `−e^{−uh}/h^(α+1)` -/
theorem hasDerivAt_cgmy_recursion (T : ℝ → ℝ) (alpha u : ℝ) (hα0 : alpha ≠ 0) (h : ℝ) (hh : 0 < h)
    (hT : HasDerivAt T (-(exp (-(u * h)) / h ^ alpha)) h) :
    HasDerivAt (fun v : ℝ => exp (-(u * v)) / (alpha * v ^ alpha) - u / alpha * T v)
      (-(exp (-(u * h)) / h ^ (alpha + 1))) h := by
  have hexp := hasDerivAt_exp_lin u h
  have hden : HasDerivAt (fun v : ℝ => alpha * v ^ alpha) (alpha * (alpha * h ^ (alpha - 1))) h :=
    (Real.hasDerivAt_rpow_const (Or.inl hh.ne')).const_mul alpha
  have hQ : 0 < h ^ alpha := rpow_pos_of_pos hh alpha
  have hdne : alpha * h ^ alpha ≠ 0 := mul_ne_zero hα0 hQ.ne'
  have hall : HasDerivAt (fun v : ℝ => exp (-(u * v)) / (alpha * v ^ alpha) - u / alpha * T v)
      ((exp (-(u * h)) * -u * (alpha * h ^ alpha) - exp (-(u * h)) * (alpha * (alpha * h ^ (alpha - 1)))) / (alpha * h ^ alpha) ^ 2
        - u / alpha * -(exp (-(u * h)) / h ^ alpha)) h :=
    (hexp.div hden hdne).sub (hT.const_mul (u / alpha))
  refine hall.congr_deriv ?_
  have e1 : h ^ (alpha - 1) = h ^ alpha / h := rpow_sub_one hh.ne' alpha
  have e2 : h ^ (alpha + 1) = h ^ alpha * h := by rw [rpow_add hh, rpow_one]
  rw [e1, e2]
  generalize h ^ alpha = Q at hQ hdne ⊢
  have hQ' := hQ.ne'
  have hh' := hh.ne'
  field_simp
  ring

theorem hasDerivAt_E1_tail (E1 : ℝ → ℝ) (hE1 : ∀ x, 0 < x → HasDerivAt E1 (-exp (-x) / x) x) (u : ℝ) (hu : 0 < u)
    (h : ℝ) (hh : 0 < h) : HasDerivAt (fun v : ℝ => E1 (u * v)) (-(exp (-(u * h)) / h)) h := by
  have hlin : HasDerivAt (fun v : ℝ => u * v) u h := by simpa using (hasDerivAt_id h).const_mul u
  have hc : HasDerivAt (fun v : ℝ => E1 (u * v)) (-exp (-(u * h)) / (u * h) * u) h :=
    (hE1 (u * h) (mul_pos hu hh)).comp h hlin
  refine hc.congr_deriv ?_
  have := hu.ne'; have := hh.ne'
  field_simp

/-- `__integrate_h_to_inf(alpha, h, u)` for alpha < 1 (cgmy.py:218-219, 227-235): E1 for alpha = 0, else the closed branch.
    `Gam a z` stands for `gamma(2 − a) * gammaincc(2 − a, z)` -/
noncomputable def cgmyTailLow (E1 : ℝ → ℝ) (Gam : ℝ → ℝ → ℝ) (alpha u h : ℝ) : ℝ :=
  if alpha = 0 then E1 (u * h) else cgmyTail0 (Gam alpha) alpha u h

/-- `__integrate_h_to_inf(alpha, h, u)` for alpha < 2 as coded: one recursion step when alpha ≥ 1 (cgmy.py:222-225) -/
noncomputable def cgmyTailMass (E1 : ℝ → ℝ) (Gam : ℝ → ℝ → ℝ) (alpha u h : ℝ) : ℝ :=
  if alpha = 0 then E1 (u * h)
  else if 1 ≤ alpha then exp (-(u * h)) / (alpha * h ^ alpha) - u / alpha * cgmyTailLow E1 Gam (alpha - 1) u h
  else cgmyTail0 (Gam alpha) alpha u h

theorem hasDerivAt_cgmyTailLow (E1 : ℝ → ℝ) (Gam : ℝ → ℝ → ℝ)
    (hE1 : ∀ x, 0 < x → HasDerivAt E1 (-exp (-x) / x) x)
    (hG : ∀ a z, 0 < z → HasDerivAt (Gam a) (-(z ^ (1 - a) * exp (-z))) z)
    (alpha u : ℝ) (hα1 : alpha ≠ 1) (hu : 0 < u) (h : ℝ) (hh : 0 < h) :
    HasDerivAt (cgmyTailLow E1 Gam alpha u) (-(exp (-(u * h)) / h ^ (alpha + 1))) h := by
  by_cases h0 : alpha = 0
  · have hf : cgmyTailLow E1 Gam alpha u = fun v => E1 (u * v) := by funext v; simp [cgmyTailLow, h0]
    rw [hf, h0, zero_add, rpow_one]
    exact hasDerivAt_E1_tail E1 hE1 u hu h hh
  · have hf : cgmyTailLow E1 Gam alpha u = cgmyTail0 (Gam alpha) alpha u := by funext v; simp [cgmyTailLow, h0]
    rw [hf]
    exact hasDerivAt_cgmyTail0 (Gam alpha) alpha u h0 hα1 hu (hG alpha) h hh

/-- every branch of the activity index y < 2: the coded tail has derivative `−e^{−uh}/h^(y+1)` -/
theorem hasDerivAt_cgmyTailMass (E1 : ℝ → ℝ) (Gam : ℝ → ℝ → ℝ)
    (hE1 : ∀ x, 0 < x → HasDerivAt E1 (-exp (-x) / x) x)
    (hG : ∀ a z, 0 < z → HasDerivAt (Gam a) (-(z ^ (1 - a) * exp (-z))) z)
    (alpha u : ℝ) (hα2 : alpha < 2) (hu : 0 < u) (h : ℝ) (hh : 0 < h) :
    HasDerivAt (cgmyTailMass E1 Gam alpha u) (-(exp (-(u * h)) / h ^ (alpha + 1))) h := by
  by_cases h0 : alpha = 0
  · have hf : cgmyTailMass E1 Gam alpha u = fun v => E1 (u * v) := by funext v; simp [cgmyTailMass, h0]
    rw [hf, h0, zero_add, rpow_one]
    exact hasDerivAt_E1_tail E1 hE1 u hu h hh
  · by_cases h1 : 1 ≤ alpha
    · have hf : cgmyTailMass E1 Gam alpha u
          = fun v => exp (-(u * v)) / (alpha * v ^ alpha) - u / alpha * cgmyTailLow E1 Gam (alpha - 1) u v := by
        funext v; simp [cgmyTailMass, h0, h1]
      rw [hf]
      have hT := hasDerivAt_cgmyTailLow E1 Gam hE1 hG (alpha - 1) u (by intro hc; linarith) hu h hh
      rw [show alpha - 1 + 1 = alpha by ring] at hT
      exact hasDerivAt_cgmy_recursion _ alpha u h0 h hh hT
    · have hf : cgmyTailMass E1 Gam alpha u = cgmyTail0 (Gam alpha) alpha u := by
        funext v; simp [cgmyTailMass, h0, h1]
      rw [hf]
      exact hasDerivAt_cgmyTail0 (Gam alpha) alpha u h0 (by intro hc; rw [hc] at h1; exact h1 le_rfl) hu (hG alpha) h hh

/-- CGMY mass on [a,b] ⊂ (0,∞), every y < 2: `c (tail(a) − tail(b))` with (α, u) = (y, m)  (cgmy.py:237-249) -/
theorem integral_cgmy_mass_pos (E1 : ℝ → ℝ) (Gam : ℝ → ℝ → ℝ)
    (hE1 : ∀ x, 0 < x → HasDerivAt E1 (-exp (-x) / x) x)
    (hG : ∀ a z, 0 < z → HasDerivAt (Gam a) (-(z ^ (1 - a) * exp (-z))) z)
    (c g m y : ℝ) (hy : y < 2) (hm : 0 < m) (a b : ℝ) (ha : 0 < a) (hab : a ≤ b) :
    ∫ x in a..b, cgmyDensity c g m y x = c * (cgmyTailMass E1 Gam y m a - cgmyTailMass E1 Gam y m b) := by
  have hpos : ∀ x ∈ Set.uIcc a b, 0 < x := by
    intro x hx; rw [Set.uIcc_of_le hab] at hx; exact lt_of_lt_of_le ha hx.1
  have hderiv : ∀ x ∈ Set.uIcc a b, HasDerivAt (fun v => -c * cgmyTailMass E1 Gam y m v) (cgmyDensity c g m y x) x := by
    intro x hx
    have hx0 := hpos x hx
    have h := (hasDerivAt_cgmyTailMass E1 Gam hE1 hG y m hy hm x hx0).const_mul (-c)
    refine h.congr_deriv ?_
    have h1 : ¬ x < 0 := not_lt.mpr hx0.le
    simp only [cgmyDensity, h1, hx0, if_true, if_false, abs_of_pos hx0]
    ring
  have hcont : ContinuousOn (fun x : ℝ => cgmyDensity c g m y x) (Set.uIcc a b) := by
    have hc : ContinuousOn (fun x : ℝ => c * exp (-(m * x)) / x ^ (y + 1)) (Set.uIcc a b) :=
      ContinuousOn.div (Continuous.continuousOn (by fun_prop))
        (continuousOn_id.rpow_const (fun x hx => Or.inl (hpos x hx).ne'))
        (fun x hx => (rpow_pos_of_pos (hpos x hx) _).ne')
    refine hc.congr (fun x hx => ?_)
    have hx0 := hpos x hx
    have h1 : ¬ x < 0 := not_lt.mpr hx0.le
    simp only [cgmyDensity, h1, hx0, if_true, if_false, abs_of_pos hx0]
  rw [intervalIntegral.integral_eq_sub_of_hasDerivAt hderiv hcont.intervalIntegrable]
  ring

/-- CGMY mass on [a,b] ⊂ (−∞,0), every y < 2: `c (tail(−b) − tail(−a))` with (α, u) = (y, g)  (cgmy.py:250-253) -/
theorem integral_cgmy_mass_neg (E1 : ℝ → ℝ) (Gam : ℝ → ℝ → ℝ)
    (hE1 : ∀ x, 0 < x → HasDerivAt E1 (-exp (-x) / x) x)
    (hG : ∀ a z, 0 < z → HasDerivAt (Gam a) (-(z ^ (1 - a) * exp (-z))) z)
    (c g m y : ℝ) (hy : y < 2) (hg : 0 < g) (a b : ℝ) (hb : b < 0) (hab : a ≤ b) :
    ∫ x in a..b, cgmyDensity c g m y x = c * (cgmyTailMass E1 Gam y g (-b) - cgmyTailMass E1 Gam y g (-a)) := by
  have hrefl : ∫ x in a..b, cgmyDensity c g m y x = ∫ x in a..b, (fun t => cgmyDensity c g g y t) (-x) := by
    apply intervalIntegral.integral_congr
    intro x hx
    rw [Set.uIcc_of_le hab] at hx
    have hx0 : x < 0 := lt_of_le_of_lt hx.2 hb
    have h1 : ¬ -x < 0 := by linarith
    have h2 : 0 < -x := by linarith
    simp only [cgmyDensity, hx0, h1, h2, if_true, if_false, abs_neg]
  rw [hrefl, intervalIntegral.integral_comp_neg (fun t => cgmyDensity c g g y t),
    integral_cgmy_mass_pos E1 Gam hE1 hG c g g y hy hg (-b) (-a) (by linarith) (by linarith)]

/-! ### the exponential-integral cases -/

theorem cgmyDensity_y0 (c g m x : ℝ) : cgmyDensity c g m 0 x = vgDensity c m g x := by
  unfold cgmyDensity vgDensity
  split_ifs with h1 h2
  · simp
  · simp [abs_of_pos h2]
  · rfl

/-- CGMY with y = 0: the mass on [a,b] ⊂ (0,∞) is `c (E1(m a) − E1(m b))` (cgmy.py:218-219) -/
theorem integral_cgmy_mass_y0_pos (E1 : ℝ → ℝ) (hE1 : ∀ x, 0 < x → HasDerivAt E1 (-exp (-x) / x) x)
    (c g m : ℝ) (hm : 0 < m) (a b : ℝ) (ha : 0 < a) (hab : a ≤ b) :
    ∫ x in a..b, cgmyDensity c g m 0 x = c * (E1 (m * a) - E1 (m * b)) := by
  simp only [cgmyDensity_y0]
  exact integral_vg_mass_pos E1 hE1 c m g hm a b ha hab

/-- CGMY with y = 1: the first moment on [a,b] ⊂ (0,∞) is `c (E1(m a) − E1(m b))` (cgmy.py:266-267) -/
theorem integral_cgmy_x_y1_pos (E1 : ℝ → ℝ) (hE1 : ∀ x, 0 < x → HasDerivAt E1 (-exp (-x) / x) x)
    (c g m : ℝ) (hm : 0 < m) (a b : ℝ) (ha : 0 < a) (hab : a ≤ b) :
    ∫ x in a..b, x ^ 1 * cgmyDensity c g m 1 x = c * (E1 (m * a) - E1 (m * b)) := by
  rw [← integral_vg_mass_pos E1 hE1 c m g hm a b ha hab]
  apply intervalIntegral.integral_congr
  intro x hx
  rw [Set.uIcc_of_le hab] at hx
  have hx0 : 0 < x := lt_of_lt_of_le ha hx.1
  have h1 : ¬ x < 0 := not_lt.mpr hx0.le
  have h2 : x ^ ((1 : ℝ) + 1) = x * x := by rw [rpow_add hx0, rpow_one]
  simp only [cgmyDensity, vgDensity, h1, hx0, if_true, if_false, abs_of_pos hx0, pow_one, h2]
  field_simp

end Rpylib.Integrals
