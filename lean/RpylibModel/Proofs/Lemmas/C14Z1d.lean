/-
C14 helper lemmas: the interval enumeration `PairingToZ1d` — pure function of the index, and the object as coded
asked in increasing index order.
-/
import RpylibModel.Proofs.Lemmas.C14Fold

namespace Rpylib.Pairing

/-! ### pure function of the index -/

theorem z1d_mem (L R i : Nat) (hL : 0 < L) (hR : 0 < R) (hi : i < L + R) :
    -(L : Int) ≤ z1dProject L R 1 i ∧ z1dProject L R 1 i ≤ R ∧ z1dProject L R 1 i ≠ 0 := by
  unfold z1dProject
  simp only [toZ_eq]
  split_ifs <;> omega

theorem z1d_pair_project' (L R i : Nat) (hL : 0 < L) (hR : 0 < R) (hi : i < L + R) :
    z1dPair L R 1 (z1dProject L R 1 i) = i := by
  unfold z1dProject z1dPair ofZ
  simp only [toZ_eq]
  split_ifs <;> omega

theorem z1d_project_pair' (L R : Nat) (v : Int) (hL : 0 < L) (hR : 0 < R) (h1 : -(L : Int) ≤ v) (h2 : v ≤ R)
    (h0 : v ≠ 0) : ∃ i : Nat, i < L + R ∧ z1dPair L R 1 v = i ∧ z1dProject L R 1 i = v := by
  refine ⟨(z1dPair L R 1 v).toNat, ?_, ?_, ?_⟩
  · unfold z1dPair ofZ; split_ifs <;> omega
  · unfold z1dPair ofZ; split_ifs <;> omega
  · unfold z1dProject z1dPair ofZ
    simp only [toZ_eq]
    split_ifs <;> omega

/-- with the origin kept (`omit_zero=False`): indices `0 … L+R` ↔ all states of `[-L, R]` -/
theorem z1d0_mem (L R i : Nat) (hL : 0 < L) (hR : 0 < R) (hi : i ≤ L + R) :
    -(L : Int) ≤ z1dProject L R 0 i ∧ z1dProject L R 0 i ≤ R := by
  unfold z1dProject
  simp only [toZ_eq]
  split_ifs <;> omega

theorem z1d0_pair_project (L R i : Nat) (hL : 0 < L) (hR : 0 < R) (hi : i ≤ L + R) :
    z1dPair L R 0 (z1dProject L R 0 i) = i := by
  unfold z1dProject z1dPair ofZ
  simp only [toZ_eq]
  split_ifs <;> omega

theorem z1d0_project_pair (L R : Nat) (v : Int) (hL : 0 < L) (hR : 0 < R) (h1 : -(L : Int) ≤ v) (h2 : v ≤ R) :
    ∃ i : Nat, i ≤ L + R ∧ z1dPair L R 0 v = i ∧ z1dProject L R 0 i = v := by
  refine ⟨(z1dPair L R 0 v).toNat, ?_, ?_, ?_⟩
  · unfold z1dPair ofZ; split_ifs <;> omega
  · unfold z1dPair ofZ; split_ifs <;> omega
  · unfold z1dProject z1dPair ofZ
    simp only [toZ_eq]
    split_ifs <;> omega

/-! ### the object as coded, asked 0, 1, 2, … -/

/-- what `_switch`, `_kk` and the cache hold after the calls `0 … a-1` on a fresh object -/
def Z1dInv (L R o a : Nat) (s : Z1dState) : Prop :=
  (∀ p ∈ s.cache, p.1 < a) ∧
  (L < R → s.switch = decide (2 * L + 2 < a + o) ∧ s.kk = a + o - (2 * L + 2)) ∧
  (R < L → s.switch = decide (2 * R + 1 < a + o) ∧ s.kk = a + o - (2 * R + 1))

theorem z1dInv_fresh (L R o : Nat) (ho : o ≤ 1) (hL : 0 < L) (hR : 0 < R) : Z1dInv L R o 0 Z1dState.fresh := by
  refine ⟨fun p hp => by simp [Z1dState.fresh] at hp, fun _ => ⟨?_, ?_⟩, fun _ => ⟨?_, ?_⟩⟩ <;>
    simp [Z1dState.fresh] <;> omega

theorem z1dStep_inv (L R o a : Nat) (s : Z1dState) (ho : o ≤ 1) (hL : 0 < L) (hR : 0 < R)
    (h : Z1dInv L R o a s) :
    (z1dStep L R o s a).2 = z1dProject L R o a ∧ Z1dInv L R o (a + 1) (z1dStep L R o s a).1 := by
  obtain ⟨hc, hlt, hgt⟩ := h
  have hl : s.cache.lookup a = none := by
    rw [List.lookup_eq_none_iff]
    intro p hp
    have := hc p hp
    simp only [bne_iff_ne, ne_eq]; omega
  have hc' : ∀ (v : Int), ∀ p ∈ (a, v) :: s.cache, p.1 < a + 1 := by
    intro v p hp
    rcases List.mem_cons.mp hp with rfl | hp
    · simp
    · have := hc p hp; omega
  unfold z1dStep z1dProject
  rw [hl]
  dsimp only
  by_cases c1 : L < R
  · obtain ⟨hs, hk⟩ := hlt c1
    simp only [c1, if_true]
    by_cases c2 : 2 * L + 2 ≤ a + o
    · have hcond : (s.switch || decide (toZ (a + o) < -(L : Int))) = true := by
        by_cases c3 : 2 * L + 2 < a + o
        · rw [hs]; simp [c3]
        · have : a + o = 2 * L + 2 := by omega
          rw [this, toZ_eq]; simp
      simp only [hcond, if_true, c2]
      refine ⟨by omega, hc' _, fun _ => ⟨by simp; omega, by simp only []; omega⟩, fun c => by omega⟩
    · have hcond : (s.switch || decide (toZ (a + o) < -(L : Int))) = false := by
        rw [hs, toZ_eq]; simp; constructor
        · omega
        · split_ifs <;> omega
      simp only [hcond, c2, if_false, Bool.false_eq_true]
      refine ⟨trivial, hc' _, fun _ => ⟨by rw [hs]; simp; omega, by simp only []; omega⟩, fun c => by omega⟩
  · by_cases c1' : R < L
    · obtain ⟨hs, hk⟩ := hgt c1'
      simp only [c1, c1', if_true, if_false]
      by_cases c2 : 2 * R + 1 ≤ a + o
      · have hcond : (s.switch || decide (toZ (a + o) > (R : Int))) = true := by
          by_cases c3 : 2 * R + 1 < a + o
          · rw [hs]; simp [c3]
          · have : a + o = 2 * R + 1 := by omega
            rw [this, toZ_eq]; simp; omega
        simp only [hcond, if_true, c2]
        refine ⟨by omega, hc' _, fun c => by omega, fun _ => ⟨by simp; omega, by simp only []; omega⟩⟩
      · have hcond : (s.switch || decide (toZ (a + o) > (R : Int))) = false := by
          rw [hs, toZ_eq]; simp; constructor
          · omega
          · split_ifs <;> omega
        simp only [hcond, c2, if_false, Bool.false_eq_true]
        refine ⟨trivial, hc' _, fun c => by omega, fun _ => ⟨by rw [hs]; simp; omega, by simp only []; omega⟩⟩
    · simp only [c1, c1', if_false]
      exact ⟨trivial, hc' _, fun c => by omega, fun c => by omega⟩

theorem z1dRun_range' (L R o : Nat) (ho : o ≤ 1) (hL : 0 < L) (hR : 0 < R) (n : Nat) :
    ∀ (a : Nat) (s : Z1dState), Z1dInv L R o a s →
      (z1dRun L R o s (List.range' a n)).2 = (List.range' a n).map (z1dProject L R o) := by
  induction n with
  | zero => intro a s _; rfl
  | succ n ih =>
    intro a s h
    obtain ⟨hv, hinv⟩ := z1dStep_inv L R o a s ho hL hR h
    simp only [List.range'_succ, z1dRun, List.map_cons]
    rw [ih (a + 1) _ hinv, hv]

/-! ### the `@cache` of `project`: memo of the first answer per index, never evicted -/

/-- after a call `project(i)` the memo holds the answer just given -/
theorem z1dStep_lookup (L R o : Nat) (s : Z1dState) (i : Nat) :
    (z1dStep L R o s i).1.cache.lookup i = some (z1dStep L R o s i).2 := by
  unfold z1dStep
  cases h : s.cache.lookup i with
  | some v => simp [h]
  | none =>
    dsimp only
    split_ifs <;> simp [List.lookup_cons_self]

theorem z1dStep_hit (L R o : Nat) (s : Z1dState) (i : Nat) (v : Int) (h : s.cache.lookup i = some v) :
    z1dStep L R o s i = (s, v) := by
  unfold z1dStep; rw [h]

/-- a memoised answer survives every later call -/
theorem z1dStep_preserves (L R o : Nat) (s : Z1dState) (i j : Nat) (v : Int) (h : s.cache.lookup i = some v) :
    (z1dStep L R o s j).1.cache.lookup i = some v := by
  unfold z1dStep
  cases hj : s.cache.lookup j with
  | some w => simpa [hj] using h
  | none =>
    have hne : (i == j) = false := by
      by_cases e : i = j
      · subst e; rw [h] at hj; cases hj
      · simpa using e
    dsimp only
    split_ifs <;> simp [List.lookup_cons, hne, h]

theorem z1dRun_preserves (L R o : Nat) (i : Nat) (v : Int) : ∀ (hist : List Nat) (s : Z1dState),
    s.cache.lookup i = some v → (z1dRun L R o s hist).1.cache.lookup i = some v := by
  intro hist
  induction hist with
  | nil => intro s h; exact h
  | cons j t ih =>
    intro s h
    simp only [z1dRun]
    exact ih _ (z1dStep_preserves L R o s i j v h)

/-- a repeated ask returns the first answer, whatever was asked in between (any state, any history) -/
theorem z1d_memo_stable' (L R o : Nat) (s : Z1dState) (i : Nat) (hist : List Nat) :
    (z1dStep L R o (z1dRun L R o (z1dStep L R o s i).1 hist).1 i).2 = (z1dStep L R o s i).2 := by
  have h := z1dRun_preserves L R o i _ hist _ (z1dStep_lookup L R o s i)
  rw [z1dStep_hit L R o _ i _ h]

end Rpylib.Pairing
