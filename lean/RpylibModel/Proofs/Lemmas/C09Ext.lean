/-
C09, extended end points: the real set a pair of extended end points denotes (`eSet`), and the generic composition
"one-sided closed forms + the coded split at zero ⇒ closed form on every proper interval", used for
x^n e^{-α|x|}, HEM and VG x^n with an infinite end point together with a straddled zero.
-/
import RpylibModel.Proofs.Lemmas.C09Abstract
import RpylibModel.Proofs.Lemmas.C09Improper

namespace Rpylib.Integrals
open Real MeasureTheory Set

/-- the subset of ℝ that the end points `a`, `b` of the Python call denote: (a, b], (−∞, b], (a, ∞), ℝ
    (Lebesgue-null changes of the end points do not matter for the integrals) -/
def eSet : ExtRat → ExtRat → Set ℝ
  | .fin a, .fin b => Ioc (a : ℝ) (b : ℝ)
  | .negInf, .fin b => Iic (b : ℝ)
  | .fin a, .posInf => Ioi (a : ℝ)
  | .negInf, .posInf => univ
  | _, _ => ∅

/-- a proper pair of end points: the left one is not +∞, the right one is not −∞ -/
def Proper (a b : ExtRat) : Prop := a ≠ .posInf ∧ b ≠ .negInf

theorem measurableSet_eSet (a b : ExtRat) : MeasurableSet (eSet a b) := by
  cases a <;> cases b <;> simp [eSet]

/-- a finite interval integral is the integral over `eSet` -/
theorem intervalIntegral_eq_eSet (f : ℝ → ℝ) (a b : ℚ) (hab : a ≤ b) :
    ∫ x in (a : ℝ)..(b : ℝ), f x = ∫ x in eSet (.fin a) (.fin b), f x := by
  have : (a : ℝ) ≤ b := by exact_mod_cast hab
  rw [intervalIntegral.integral_of_le this]; rfl

theorem eSet_subset_Iic (a b : ExtRat) (hb : ELe b (.fin 0)) : eSet a b ⊆ Iic 0 := by
  cases b with
  | negInf => cases a <;> simp [eSet]
  | posInf => simp [ELe, ExtRat.le, ExtRat.lt] at hb
  | fin b =>
    have hb' : (b : ℝ) ≤ 0 := by exact_mod_cast (ELe_fin b 0).mp hb
    cases a with
    | negInf => exact fun x hx => le_trans hx hb'
    | fin a => exact fun x hx => le_trans hx.2 hb'
    | posInf => simp [eSet]

theorem eSet_subset_Ioi (a b : ExtRat) (ha : ELe (.fin 0) a) : eSet a b ⊆ Ioi 0 := by
  cases a with
  | posInf => cases b <;> simp [eSet]
  | negInf => simp [ELe, ExtRat.le, ExtRat.lt] at ha
  | fin a =>
    have ha' : (0 : ℝ) ≤ a := by exact_mod_cast (ELe_fin 0 a).mp ha
    cases b with
    | posInf => exact fun x hx => lt_of_le_of_lt ha' hx
    | fin b => exact fun x hx => lt_of_le_of_lt ha' hx.1
    | negInf => simp [eSet]

theorem integrable_of_halves {f : ℝ → ℝ} (hn : IntegrableOn f (Iic 0)) (hp : IntegrableOn f (Ioi 0)) : Integrable f := by
  have h := hn.union hp
  rwa [Iic_union_Ioi, integrableOn_univ] at h

/-- the split at zero for extended end points `a < 0 < b` -/
theorem setIntegral_eSet_split {f : ℝ → ℝ} (hn : IntegrableOn f (Iic 0)) (hp : IntegrableOn f (Ioi 0)) (a b : ExtRat)
    (ha : ¬ ELe (.fin 0) a) (hb : ¬ ELe b (.fin 0)) :
    ∫ x in eSet a b, f x = (∫ x in eSet a (.fin 0), f x) + ∫ x in eSet (.fin 0) b, f x := by
  have hf := integrable_of_halves hn hp
  cases a with
  | posInf => simp [ELe, ExtRat.le, ExtRat.lt] at ha
  | negInf =>
    cases b with
    | negInf => simp [ELe, ExtRat.le, ExtRat.lt] at hb
    | posInf =>
      simp only [eSet, Rat.cast_zero, Measure.restrict_univ]
      exact (intervalIntegral.integral_Iic_add_Ioi hn hp).symm
    | fin b =>
      have hb' : (0 : ℝ) < b := by
        have : ¬ b ≤ 0 := fun h => hb ((ELe_fin b 0).mpr h)
        exact_mod_cast not_le.mp this
      simp only [eSet, Rat.cast_zero]
      have h := intervalIntegral.integral_Iic_sub_Iic hn (hf.integrableOn (s := Iic (b : ℝ)))
      rw [intervalIntegral.integral_of_le hb'.le] at h
      linarith
  | fin a =>
    have ha' : (a : ℝ) < 0 := by
      have : ¬ 0 ≤ a := fun h => ha ((ELe_fin 0 a).mpr h)
      exact_mod_cast not_le.mp this
    cases b with
    | negInf => simp [ELe, ExtRat.le, ExtRat.lt] at hb
    | posInf =>
      simp only [eSet, Rat.cast_zero]
      have h := intervalIntegral.integral_interval_add_Ioi (hf.integrableOn (s := Ioi (a : ℝ))) hp
      rw [intervalIntegral.integral_of_le ha'.le] at h
      linarith
    | fin b =>
      have hb' : (0 : ℝ) < b := by
        have : ¬ b ≤ 0 := fun h => hb ((ELe_fin b 0).mpr h)
        exact_mod_cast not_le.mp this
      simp only [eSet, Rat.cast_zero]
      have h := intervalIntegral.integral_add_adjacent_intervals (hf.intervalIntegrable (a := (a : ℝ)) (b := 0))
        (hf.intervalIntegrable (a := 0) (b := (b : ℝ)))
      rw [intervalIntegral.integral_of_le ha'.le, intervalIntegral.integral_of_le hb'.le,
        intervalIntegral.integral_of_le (ha'.le.trans hb'.le)] at h
      linarith

/-- one-sided closed forms + the coded split at zero ⇒ the closed form on every proper interval a ≤ b
    (finite or infinite end points, one side of zero or straddling it) -/
theorem ext_of_sides (T : ExtRat → ExtRat → Option Terms) (f : ℝ → ℝ)
    (hn : IntegrableOn f (Iic 0)) (hp : IntegrableOn f (Ioi 0))
    (h_str : ∀ a b, ¬ ELe (.fin 0) a → ¬ ELe b (.fin 0) →
      T a b = (match T a (.fin 0), T (.fin 0) b with
        | some t1, some t2 => some (t1 ++ t2)
        | _, _ => none))
    (e_neg : ∀ a b, ELe a b → ELe b (.fin 0) → Proper a b → ∃ ts, T a b = some ts ∧ evalTerms ts = ∫ x in eSet a b, f x)
    (e_pos : ∀ a b, ELe a b → ELe (.fin 0) a → Proper a b → ∃ ts, T a b = some ts ∧ evalTerms ts = ∫ x in eSet a b, f x)
    (a b : ExtRat) (hab : ELe a b) (hpr : Proper a b) :
    ∃ ts, T a b = some ts ∧ evalTerms ts = ∫ x in eSet a b, f x := by
  by_cases hb : ELe b (.fin 0)
  · exact e_neg a b hab hb hpr
  by_cases ha : ELe (.fin 0) a
  · exact e_pos a b hab ha hpr
  have ha0 : ELe a (.fin 0) := by
    cases a <;> simp_all [ELe, ExtRat.le, ExtRat.lt]
    exact le_of_lt ha
  have hb0 : ELe (.fin 0) b := by
    cases b <;> simp_all [ELe, ExtRat.le, ExtRat.lt]
    exact le_of_lt hb
  obtain ⟨t1, h1, v1⟩ := e_neg a (.fin 0) ha0 (by simp [ELe, ExtRat.le, ExtRat.lt]) ⟨hpr.1, by simp⟩
  obtain ⟨t2, h2, v2⟩ := e_pos (.fin 0) b hb0 (by simp [ELe, ExtRat.le, ExtRat.lt]) ⟨by simp, hpr.2⟩
  refine ⟨t1 ++ t2, ?_, ?_⟩
  · rw [h_str a b ha hb, h1, h2]
  · rw [evalTerms_append, v1, v2, setIntegral_eSet_split hn hp a b ha hb]

end Rpylib.Integrals
