/-
C15 helper lemmas: the ε-step insertion loop (`pass`, `finerLoop`, `remaining`) and its gap-by-gap specification
(`block`, `finerSpec`) of RpylibModel/Model/Path.lean.
-/
import RpylibModel.Model.Path
import RpylibModel.Proofs.Lemmas.C15Lists
import Mathlib.Tactic.Linarith
import Mathlib.Tactic.Ring
import Mathlib.Tactic.FieldSimp
import Mathlib.Tactic.Positivity
import Mathlib.Algebra.Order.Field.Rat

namespace Rpylib.Path

variable {α : Type}

/-! ### the number of insertions a gap still needs -/

theorem need_eq_zero_iff {ε : Rat} (hε : 0 < ε) (d : Rat) : need ε d = 0 ↔ d ≤ ε := by
  unfold need
  rw [Int.toNat_eq_zero]
  have h1 : (d / ε).ceil - 1 ≤ 0 ↔ (d / ε).ceil ≤ (1 : Int) := by omega
  rw [h1, Rat.ceil_le_iff]
  simp only [Int.cast_one]
  rw [div_le_one hε]

theorem need_sub {ε : Rat} (hε : 0 < ε) {d : Rat} (h : ε < d) : need ε d = need ε (d - ε) + 1 := by
  unfold need
  have e : (d - ε) / ε = d / ε - 1 := by field_simp
  rw [e, Rat.ceil_sub_one]
  have h2 : (1 : Int) < (d / ε).ceil := by
    rw [Rat.lt_ceil_iff]; simp only [Int.cast_one]; rw [lt_div_iff₀ hε]; linarith
  omega

theorem need_self {ε : Rat} (hε : 0 < ε) : need ε ε = 0 := (need_eq_zero_iff hε ε).mpr le_rfl

/-- the remainder of a gap after its ε-steps is in `(0, ε]` -/
theorem remainder_bounds {ε : Rat} (hε : 0 < ε) {d : Rat} (hd : 0 < d) :
    0 < d - need ε d * ε ∧ d - need ε d * ε ≤ ε := by
  unfold need
  have hc1 : d / ε ≤ (d / ε).ceil := Rat.le_ceil
  have hc2 : ((d / ε).ceil : Rat) < d / ε + 1 := Rat.ceil_lt
  have hpos : (0 : Int) < (d / ε).ceil := by
    rw [Rat.lt_ceil_iff]; simp only [Int.cast_zero]; positivity
  have hcast : (((d / ε).ceil - 1).toNat : Rat) = ((d / ε).ceil : Rat) - 1 := by
    have : (((d / ε).ceil - 1).toNat : Int) = (d / ε).ceil - 1 := Int.toNat_of_nonneg (by omega)
    have h2 : ((((d / ε).ceil - 1).toNat : Int) : Rat) = (((d / ε).ceil - 1 : Int) : Rat) := by rw [this]
    simpa using h2
  rw [hcast]
  have h3 : d = d / ε * ε := by field_simp
  constructor
  · have : (((d / ε).ceil : Rat) - 1) * ε < d / ε * ε := by
      apply mul_lt_mul_of_pos_right _ hε; linarith
    linarith
  · have : d / ε * ε ≤ ((d / ε).ceil : Rat) * ε := mul_le_mul_of_nonneg_right hc1 hε.le
    nlinarith

/-! ### loop condition and measure -/

theorem anyGt_eq_false_iff (ε : Rat) (l : List (Rat × α)) : anyGt ε l = false ↔ ∀ p ∈ l, p.1 ≤ ε := by
  induction l with
  | nil => simp [anyGt]
  | cons p r ih => simp [anyGt, ih, not_lt]

theorem anyGt_eq_true_iff (ε : Rat) (l : List (Rat × α)) : anyGt ε l = true ↔ ∃ p ∈ l, ε < p.1 := by
  induction l with
  | nil => simp [anyGt]
  | cons p r ih => simp [anyGt, ih]

theorem remaining_eq_zero_iff {ε : Rat} (hε : 0 < ε) (l : List (Rat × α)) :
    remaining ε l = 0 ↔ ∀ p ∈ l, p.1 ≤ ε := by
  induction l with
  | nil => simp [remaining]
  | cons p r ih => simp [remaining, ih, need_eq_zero_iff hε]

theorem pass_noop (ε : Rat) (prev : α) (l : List (Rat × α)) (h : ∀ p ∈ l, p.1 ≤ ε) : pass ε prev l = l := by
  induction l generalizing prev with
  | nil => rfl
  | cons p r ih =>
    have hp : ¬ ε < p.1 := not_lt.mpr (h p (by simp))
    simp only [pass, hp, if_false]
    rw [ih _ (fun q hq => h q (by simp [hq]))]

/-- one pass never increases the measure, and decreases it when there is a position -/
theorem remaining_pass {ε : Rat} (hε : 0 < ε) (prev : α) (l : List (Rat × α)) :
    remaining ε (pass ε prev l) ≤ remaining ε l ∧ (anyGt ε l = true → remaining ε (pass ε prev l) < remaining ε l) := by
  induction l generalizing prev with
  | nil => simp [pass, remaining, anyGt]
  | cons p r ih =>
    obtain ⟨h1, h2⟩ := ih p.2
    by_cases hp : ε < p.1
    · simp only [pass, hp, if_true, remaining, need_self hε, need_sub hε hp, anyGt, decide_true, Bool.true_or]
      constructor
      · omega
      · intro _; omega
    · simp only [pass, hp, if_false, remaining, anyGt, decide_false, Bool.false_or]
      constructor
      · omega
      · intro h; have := h2 h; omega

/-! ### the gap-by-gap specification -/

theorem block_of_le {ε : Rat} (hε : 0 < ε) (prev : α) (p : Rat × α) (h : p.1 ≤ ε) : block ε prev p = [p] := by
  simp [block, (need_eq_zero_iff hε p.1).mpr h]

theorem finerSpec_noop {ε : Rat} (hε : 0 < ε) (prev : α) (l : List (Rat × α)) (h : ∀ p ∈ l, p.1 ≤ ε) :
    finerSpec ε prev l = l := by
  induction l generalizing prev with
  | nil => rfl
  | cons p r ih =>
    simp only [finerSpec, block_of_le hε prev p (h p (by simp)), ih _ (fun q hq => h q (by simp [hq]))]
    rfl

/-- one pass does not change what the specification produces -/
theorem finerSpec_pass {ε : Rat} (hε : 0 < ε) (prev : α) (l : List (Rat × α)) :
    finerSpec ε prev (pass ε prev l) = finerSpec ε prev l := by
  induction l generalizing prev with
  | nil => rfl
  | cons p r ih =>
    by_cases hp : ε < p.1
    · simp only [pass, hp, if_true, finerSpec, ih]
      rw [block_of_le hε prev (ε, prev) le_rfl]
      simp only [block, need_sub hε hp, List.replicate_succ, List.cons_append, List.nil_append, List.append_assoc]
      congr 4
      push_cast; ring
    · simp only [pass, hp, if_false, finerSpec, ih]

/-- with enough passes the loop computes the specification -/
theorem finerLoop_eq_spec {ε : Rat} (hε : 0 < ε) (z : α) (n : Nat) (l : List (Rat × α)) (h : remaining ε l ≤ n) :
    finerLoop ε z n l = finerSpec ε z l := by
  induction n generalizing l with
  | zero =>
    have h0 : remaining ε l = 0 := by omega
    rw [finerLoop, finerSpec_noop hε z l ((remaining_eq_zero_iff hε l).mp h0)]
  | succ n ih =>
    rw [finerLoop]
    by_cases hg : anyGt ε l = true
    · rw [if_pos hg, ih _ (by have := (remaining_pass hε z l).2 hg; omega), finerSpec_pass hε]
    · rw [if_neg hg]
      have : anyGt ε l = false := by simpa using hg
      rw [finerSpec_noop hε z l ((anyGt_eq_false_iff ε l).mp this)]

theorem mem_finerSpec_le {ε : Rat} (hε : 0 < ε) (prev : α) (l : List (Rat × α)) (hpos : ∀ p ∈ l, 0 < p.1) :
    ∀ q ∈ finerSpec ε prev l, 0 < q.1 ∧ q.1 ≤ ε := by
  induction l generalizing prev with
  | nil => simp [finerSpec]
  | cons p r ih =>
    intro q hq
    simp only [finerSpec, block, List.mem_append, List.mem_replicate, List.mem_singleton] at hq
    rcases hq with (⟨_, rfl⟩ | rfl) | hq
    · exact ⟨hε, le_rfl⟩
    · exact remainder_bounds hε (hpos p (by simp))
    · exact ih p.2 (fun x hx => hpos x (by simp [hx])) q hq

/-- steps of the specification are at most ε even without positivity of the gaps -/
theorem mem_finerSpec_le' {ε : Rat} (hε : 0 < ε) (prev : α) (l : List (Rat × α)) :
    ∀ q ∈ finerSpec ε prev l, q.1 ≤ ε := by
  induction l generalizing prev with
  | nil => simp [finerSpec]
  | cons p r ih =>
    intro q hq
    simp only [finerSpec, block, List.mem_append, List.mem_replicate, List.mem_singleton] at hq
    rcases hq with (⟨_, rfl⟩ | rfl) | hq
    · exact le_rfl
    · by_cases hp : 0 < p.1
      · exact (remainder_bounds hε hp).2
      · have hle : p.1 ≤ ε := by linarith
        simp only [(need_eq_zero_iff hε p.1).mpr hle]; simpa using hle
    · exact ih p.2 q hq

theorem sumL_block (ε : Rat) (prev : α) (p : Rat × α) : sumL ((block ε prev p).map (fun q => q.1)) = p.1 := by
  unfold block
  generalize need ε p.1 = k
  induction k with
  | zero => simp [sumL]
  | succ k ih =>
    simp only [List.replicate_succ, List.cons_append, List.map_cons, sumL] at ih ⊢
    have e : sumL (List.map (fun q => q.1) (List.replicate k (ε, prev) ++ [(p.1 - ((k + 1 : Nat) : Rat) * ε, p.2)]))
        = sumL (List.map (fun q => q.1) (List.replicate k (ε, prev) ++ [(p.1 - (k : Rat) * ε, p.2)])) - ε := by
      simp only [List.map_append, sumL_append, List.map_cons, List.map_nil, sumL]; push_cast; ring
    rw [e, ih]; ring

/-- the total time span is unchanged: the last time of the refined grid is the last original time -/
theorem sumL_finerSpec (ε : Rat) (prev : α) (l : List (Rat × α)) :
    sumL ((finerSpec ε prev l).map (fun q => q.1)) = sumL (l.map (fun q => q.1)) := by
  induction l generalizing prev with
  | nil => rfl
  | cons p r ih => simp only [finerSpec, List.map_append, sumL_append, sumL_block, ih, List.map_cons, sumL]

theorem finerSpec_ne_nil (ε : Rat) (prev : α) (l : List (Rat × α)) (h : l ≠ []) : finerSpec ε prev l ≠ [] := by
  cases l with
  | nil => exact absurd rfl h
  | cons p r => simp [finerSpec, block]

/-! ### naturality in the value type: the positions depend on the gaps only -/

variable {β : Type}

def mapV (g : α → β) (l : List (Rat × α)) : List (Rat × β) := l.map (fun p => (p.1, g p.2))

theorem finerSpec_mapV (ε : Rat) (g : α → β) (prev : α) (l : List (Rat × α)) :
    finerSpec ε (g prev) (mapV g l) = mapV g (finerSpec ε prev l) := by
  induction l generalizing prev with
  | nil => rfl
  | cons p r ih =>
    simp only [mapV, List.map_cons, finerSpec, List.map_append] at ih ⊢
    rw [ih]
    simp [block]

theorem remaining_mapV (ε : Rat) (g : α → β) (l : List (Rat × α)) : remaining ε (mapV g l) = remaining ε l := by
  induction l with
  | nil => rfl
  | cons p r ih => simp only [mapV, List.map_cons, remaining] at ih ⊢; rw [ih]

end Rpylib.Path
