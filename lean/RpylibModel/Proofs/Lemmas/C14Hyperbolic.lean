/-
C14 helper lemmas: `HyperbolicPairing` — the number of offsets of block `n` is the number of divisors of `n`, and the
pairing and the projection are mutually inverse.
-/
import RpylibModel.Proofs.Lemmas.C14Hyperbola
import RpylibModel.Proofs.Lemmas.C14Divisors

namespace Rpylib.Pairing

open Finset

/-- the divisor count is the product of the radices `e_i + 1` of the factorisation: the mixed-radix digits of
`0 … Π(e_i+1) - 1` enumerate the divisors exactly once -/
theorem dcount_eq_prod (fs : List (Nat × Nat)) (hg : GoodF fs) : dcount (nOf fs) = prodL (radices fs) := by
  have hN := nOf_pos fs hg
  unfold dcount
  rw [← Finset.card_range (prodL (radices fs))]
  symm
  refine Finset.card_bij (fun off _ => prodPow fs (lazyNth (radices fs) off)) ?_ ?_ ?_
  · intro off h
    obtain ⟨a, b, _⟩ := decode_spec fs hg off (Finset.mem_range.1 h)
    simp only [mem_filter, mem_Icc]
    exact ⟨⟨b, Nat.le_of_dvd hN a⟩, a⟩
  · intro a ha b hb h
    have ea := (decode_spec fs hg a (Finset.mem_range.1 ha)).2.2
    have eb := (decode_spec fs hg b (Finset.mem_range.1 hb)).2.2
    rw [h] at ea
    omega
  · intro x hx
    simp only [mem_filter, mem_Icc] at hx
    obtain ⟨i1, i2⟩ := encode_spec fs hg x hx.2
    exact ⟨hypEncode x 1 fs, Finset.mem_range.2 i1, i2⟩

theorem dcount_factor (n : Nat) (hn : 1 ≤ n) : dcount n = prodL (radices (factor n)) := by
  obtain ⟨g, e⟩ := factor_spec n hn
  have := dcount_eq_prod (factor n) g
  rw [e] at this; exact this

/-- block `n` of the enumeration is `[a_n(n-1), a_n(n-1) + d(n))` -/
theorem aN_block (n : Nat) (hn : 1 ≤ n) : aN n = aN (n - 1) + prodL (radices (factor n)) := by
  obtain ⟨m, rfl⟩ : ∃ m, n = m + 1 := ⟨n - 1, by omega⟩
  rw [aN_succ, dcount_factor (m + 1) hn]; rfl

theorem hyp_pair_proj (z : Nat) : hypPair (hypProj z).1 (hypProj z).2 = z := by
  obtain ⟨h1, h2, h3⟩ := upperBound_spec z
  simp only [hypProj, hypDivisor]
  generalize upperBound z = n at *
  obtain ⟨g, e⟩ := factor_spec n h1
  rw [aN_block n h1] at h3
  obtain ⟨a, b, c⟩ := decode_spec (factor n) g (z - aN (n - 1)) (by omega)
  rw [e] at a
  generalize prodPow (factor n) (lazyNth (radices (factor n)) (z - aN (n - 1))) = x at a b c
  have hy : 0 < n / x := Nat.div_pos (Nat.le_of_dvd (by omega) a) b
  have e1 : (x - 1 + 1) * (n / x - 1 + 1) = n := by
    rw [Nat.sub_add_cancel b, Nat.sub_add_cancel hy]; exact Nat.mul_div_cancel' a
  simp only [hypPair]
  rw [e1, Nat.sub_add_cancel b, c]
  omega

theorem hyp_proj_pair (x y : Nat) : hypProj (hypPair x y) = (x, y) := by
  have hn : 1 ≤ (x + 1) * (y + 1) := Nat.mul_pos (by omega) (by omega)
  simp only [hypPair]
  generalize hn' : (x + 1) * (y + 1) = n at *
  obtain ⟨g, e⟩ := factor_spec n hn
  have hd : x + 1 ∣ nOf (factor n) := by rw [e, ← hn']; exact Nat.dvd_mul_right _ _
  obtain ⟨i1, i2⟩ := encode_spec (factor n) g (x + 1) hd
  have hb := aN_block n hn
  have hu : upperBound (aN (n - 1) + hypEncode (x + 1) 1 (factor n)) = n :=
    upperBound_unique _ n hn (by omega) (by omega)
  simp only [hypProj, hypDivisor, hu, Nat.add_sub_cancel_left, i2, Nat.add_sub_cancel]
  rw [← hn', Nat.mul_div_cancel_left _ (by omega : 0 < x + 1)]
  rfl

end Rpylib.Pairing
