/-
C07 — vector payoffs and k ≥ 2 control variates: the shapes `compute_coefficients` works with (Model/Stats.lean, `adjustVec`:
one coefficient vector per payoff component), `cv_mean_identity` per component for every kernel, and for the exact two-control
kernel (`kernel2`: guard on every entry of Σ_X, inverse, or pseudo-inverse when Σ_X is singular) the normal equations — hence
the variance inequality — in all three branches, collinear controls included.
-/
import RpylibModel.Proofs.Lemmas.C07Basic
import Mathlib.Tactic.LinearCombination

namespace Rpylib.Stats

/-- **cv_mean_identity per component** (vector payoff, any number of controls, any kernel): if for component c every
    control's sample mean equals its price for that component, the adjusted price of component c is the raw mean -/
theorem cv_mean_identity_vec (n k : Nat) (hn : 0 < n) (ker : Kernel) (pr : Nat → Nat → Rat) (x : Nat → Nat → Nat → Rat)
    (y : Nat → Nat → Rat) (c : Nat) (h : ∀ j, j < k → mean n (x j c) = pr j c) :
    mean n (adjustVec k ker pr x y n c) = mean n (y c) :=
  cv_mean_identity_k n k hn _ (fun j => pr j c) (fun j => x j c) (y c) h

/-- the adjusted mean of component c in general: raw mean minus `Σ_j b_j(c) (mean X_j(c) − price_j(c))` with the
    component's own coefficient vector -/
theorem adjustVec_mean (n k : Nat) (hn : 0 < n) (ker : Kernel) (pr : Nat → Nat → Rat) (x : Nat → Nat → Nat → Rat)
    (y : Nat → Nat → Rat) (c : Nat) :
    mean n (adjustVec k ker pr x y n c)
      = mean n (y c) - sumTo k (fun j => ker n (fun j => x j c) (y c) j * (mean n (x j c) - pr j c)) :=
  adjustK_mean n k hn _ (fun j => pr j c) (fun j => x j c) (y c)

/-- a component is adjusted with its own data only: changing the payoff / controls / prices of another component does not
    change the adjusted values of component c (one coefficient vector per component, not a global one) -/
theorem adjustVec_component_local (n k : Nat) (ker : Kernel) (pr pr' : Nat → Nat → Rat) (x x' : Nat → Nat → Nat → Rat)
    (y y' : Nat → Nat → Rat) (c : Nat) (hy : y c = y' c) (hx : ∀ j, x j c = x' j c) (hp : ∀ j, pr j c = pr' j c) :
    adjustVec k ker pr x y n c = adjustVec k ker pr' x' y' n c := by
  unfold adjustVec
  have e1 : (fun j => x j c) = (fun j => x' j c) := funext hx
  have e2 : (fun j => pr j c) = (fun j => pr' j c) := funext hp
  rw [hy, e1, e2]

theorem adjustK_congr_coef (k : Nat) (b b' cc : Nat → Rat) (x : Nat → Nat → Rat) (y : Nat → Rat)
    (h : ∀ j, j < k → b j = b' j) : adjustK k b cc x y = adjustK k b' cc x y := by
  funext i
  unfold adjustK
  rw [sumTo_congr k _ (fun j => b' j * (x j i - cc j)) (fun j hj => by rw [h j hj])]

/-- the executable column (coefficients computed once, then applied to every row) is the column of `adjustVec` -/
theorem adjustVecRow_eq (k : Nat) (ker : Kernel) (pr : Nat → Nat → Rat) (x : Nat → Nat → Nat → Rat) (y : Nat → Nat → Rat)
    (n c : Nat) : adjustVecRow k ker pr x y n c = (List.range n).map (adjustVec k ker pr x y n c) := by
  unfold adjustVecRow adjustVec
  simp only
  rw [adjustK_congr_coef k _ (ker n (fun j => x j c) (y c)) _ _ _ (fun j hj => by simp [coefVec, hj])]

/-- **shape**: the adjusted array has exactly one entry per (path, payoff component) -/
theorem adjustVecRow_length (k : Nat) (ker : Kernel) (pr : Nat → Nat → Rat) (x : Nat → Nat → Nat → Rat) (y : Nat → Nat → Rat)
    (n c : Nat) : (adjustVecRow k ker pr x y n c).length = n := by
  simp [adjustVecRow]

/-! ### sums of squares -/

theorem sumTo_eq_zero_of_nonneg (n : Nat) (f : Nat → Rat) (h : ∀ i, 0 ≤ f i) (hs : sumTo n f = 0) :
    ∀ i, i < n → f i = 0 := by
  induction n with
  | zero => intro i hi; omega
  | succ n ih =>
    rw [sumTo_succ] at hs
    have h1 := sumTo_nonneg n f h
    have h2 := h n
    intro i hi
    rcases Nat.lt_or_ge i n with hlt | hge
    · exact ih (by linarith) i hlt
    · have : i = n := by omega
      subst this; linarith

/-- equality case of Cauchy–Schwarz for sample covariances: if `var X₀ · var X₁ = cov(X₀,X₁)²` and `var X₀ > 0`, the centred
    X₁ is a multiple of the centred X₀, so `var X₀ · cov(X₁,Y) = cov(X₀,X₁) · cov(X₀,Y)` for every Y -/
theorem cov_collinear (n : Nat) (hn : 0 < n) (x0 x1 y : Nat → Rat) (ha : 0 < varB n x0)
    (hdet : varB n x0 * varB n x1 = covB n x0 x1 * covB n x0 x1) :
    varB n x0 * covB n x1 y = covB n x0 x1 * covB n x0 y := by
  have hn' : (n : Rat) ≠ 0 := by exact_mod_cast hn.ne'
  have ha' : varB n x0 ≠ 0 := ha.ne'
  set a := varB n x0 with haDef
  set c := covB n x0 x1 with hcDef
  -- z_i = a (x1_i − m1) − c (x0_i − m0)
  let z : Nat → Rat := fun i => a * (x1 i - mean n x1) - c * (x0 i - mean n x0)
  have hz2 : sumTo n (fun i => z i * z i) = 0 := by
    have e : (fun i => z i * z i) = (fun i => (a * a) * ((x1 i - mean n x1) * (x1 i - mean n x1))
        + ((-2 * a * c) * ((x0 i - mean n x0) * (x1 i - mean n x1)) + (c * c) * ((x0 i - mean n x0) * (x0 i - mean n x0)))) := by
      funext i; simp only [z]; ring
    rw [e, sumTo_add, sumTo_add, sumTo_mul, sumTo_mul, sumTo_mul]
    have e1 : sumTo n (fun i => (x1 i - mean n x1) * (x1 i - mean n x1)) = n * varB n x1 := by
      unfold varB; simp only [covB_def]; field_simp
    have e2 : sumTo n (fun i => (x0 i - mean n x0) * (x1 i - mean n x1)) = n * c := by
      rw [hcDef]; simp only [covB_def]; field_simp
    have e3 : sumTo n (fun i => (x0 i - mean n x0) * (x0 i - mean n x0)) = n * a := by
      rw [haDef]; unfold varB; simp only [covB_def]; field_simp
    rw [e1, e2, e3]
    have : a * a * (n * varB n x1) = a * n * (c * c) := by rw [← hdet]; ring
    rw [this]; ring
  have hz : ∀ i, i < n → z i = 0 := by
    intro i hi
    have := sumTo_eq_zero_of_nonneg n (fun i => z i * z i) (fun i => mul_self_nonneg _) hz2 i hi
    exact mul_self_eq_zero.mp this
  have hzy : sumTo n (fun i => z i * (y i - mean n y)) = 0 := by
    rw [sumTo_congr n _ (fun _ => 0) (fun i hi => by rw [hz i hi]; ring), sumTo_const]; ring
  have e : (fun i => z i * (y i - mean n y)) = (fun i => a * ((x1 i - mean n x1) * (y i - mean n y))
      + (-c) * ((x0 i - mean n x0) * (y i - mean n y))) := by
    funext i; simp only [z]; ring
  rw [e, sumTo_add, sumTo_mul, sumTo_mul] at hzy
  have f1 : sumTo n (fun i => (x1 i - mean n x1) * (y i - mean n y)) = n * covB n x1 y := by
    simp only [covB_def]; field_simp
  have f0 : sumTo n (fun i => (x0 i - mean n x0) * (y i - mean n y)) = n * covB n x0 y := by
    simp only [covB_def]; field_simp
  rw [f1, f0] at hzy
  have : (n : Rat) * (a * covB n x1 y - c * covB n x0 y) = 0 := by linarith
  rcases mul_eq_zero.mp this with h | h
  · exact absurd h hn'
  · linarith

theorem rabs_ge_guard_pos (v : Rat) (hv : 0 ≤ v) (hg : ¬ rabs v < guard) : 0 < v := by
  rcases hv.lt_or_eq with h | h
  · exact h
  · exfalso; apply hg; rw [← h]; unfold rabs guard; norm_num

/-- **the two-control kernel as coded solves the normal equations** `Σ_X b = Σ_XY` whenever the guard lets it compute —
    with the inverse when Σ_X is regular and with the pseudo-inverse when the two controls are collinear -/
theorem kernel2_normal_equations (n : Nat) (hn : 0 < n) (x : Nat → Nat → Rat) (y : Nat → Rat)
    (hg : ¬ (rabs (varB n (x 0)) < guard ∨ rabs (varB n (x 1)) < guard ∨ rabs (covB n (x 0) (x 1)) < guard)) :
    varB n (x 0) * kernel2 n x y 0 + covB n (x 0) (x 1) * kernel2 n x y 1 = covB n (x 0) y ∧
    covB n (x 0) (x 1) * kernel2 n x y 0 + varB n (x 1) * kernel2 n x y 1 = covB n (x 1) y := by
  have hg' := hg
  simp only [not_or] at hg'
  obtain ⟨g0, g1, _⟩ := hg'
  have ha : 0 < varB n (x 0) := rabs_ge_guard_pos _ (varB_nonneg n _) g0
  have hd : 0 < varB n (x 1) := rabs_ge_guard_pos _ (varB_nonneg n _) g1
  unfold kernel2
  simp only [if_neg hg, if_true, if_false, one_ne_zero, zero_ne_one]
  by_cases hdet : varB n (x 0) * varB n (x 1) - covB n (x 0) (x 1) * covB n (x 0) (x 1) = 0
  · rw [if_pos hdet, if_pos hdet]
    have hdet' : varB n (x 0) * varB n (x 1) = covB n (x 0) (x 1) * covB n (x 0) (x 1) := by linarith
    have k1 := cov_collinear n hn (x 0) (x 1) y ha hdet'
    have hdet'' : varB n (x 1) * varB n (x 0) = covB n (x 1) (x 0) * covB n (x 1) (x 0) := by
      rw [covB_comm n (x 1) (x 0)]; linarith
    have k2 := cov_collinear n hn (x 1) (x 0) y hd hdet''
    rw [covB_comm n (x 1) (x 0)] at k2
    have hT : (varB n (x 0) + varB n (x 1)) * (varB n (x 0) + varB n (x 1)) ≠ 0 := by
      have : 0 < varB n (x 0) + varB n (x 1) := by linarith
      positivity
    set a := varB n (x 0)
    set d := varB n (x 1)
    set c := covB n (x 0) (x 1)
    set s0 := covB n (x 0) y
    set s1 := covB n (x 1) y
    constructor
    · field_simp
      -- a (a s0 + c s1) + c (c s0 + d s1) = (a + d)² s0, using c² = a d, a s1 = c s0, d s0 = c s1
      linear_combination c * k1 - d * k2 - 2 * s0 * hdet'
    · field_simp
      linear_combination (-a) * k1 + c * k2 - 2 * s1 * hdet'
  · rw [if_neg hdet, if_neg hdet]
    have hdet' : varB n (x 0) * varB n (x 1) - covB n (x 0) (x 1) * covB n (x 0) (x 1) ≠ 0 := hdet
    set a := varB n (x 0)
    set d := varB n (x 1)
    set c := covB n (x 0) (x 1)
    set s0 := covB n (x 0) y
    set s1 := covB n (x 1) y
    constructor
    · rw [← mul_div_assoc, ← mul_div_assoc, ← add_div, div_eq_iff hdet']; ring
    · rw [← mul_div_assoc, ← mul_div_assoc, ← add_div, div_eq_iff hdet']; ring

theorem sumTo_one (f : Nat → Rat) : sumTo 1 f = f 0 := by rw [sumTo_succ, sumTo_zero]; ring
theorem sumTo_two (f : Nat → Rat) : sumTo 2 f = f 0 + f 1 := by rw [sumTo_succ, sumTo_one]

theorem adjustK_zero (k : Nat) (b cc : Nat → Rat) (x : Nat → Nat → Rat) (y : Nat → Rat)
    (hb : ∀ j, j < k → b j = 0) : adjustK k b cc x y = y := by
  funext i
  unfold adjustK
  have : sumTo k (fun j => b j * (x j i - cc j)) = sumTo k (fun _ => 0) := by
    apply sumTo_congr; intro j hj; rw [hb j hj]; ring
  rw [this, sumTo_const]; ring

/-- **two controls, the kernel as coded**: the sample variance of the adjusted estimator never exceeds the raw one — in the
    fallback branch (b = 0), in the regular branch and in the pseudo-inverse branch (collinear controls) -/
theorem cv_var_le_raw_two_controls (n : Nat) (hn : 0 < n) (cc : Nat → Rat) (x : Nat → Nat → Rat) (y : Nat → Rat) :
    varB n (adjustK 2 (kernel2 n x y) cc x y) ≤ varB n y := by
  by_cases hg : rabs (varB n (x 0)) < guard ∨ rabs (varB n (x 1)) < guard ∨ rabs (covB n (x 0) (x 1)) < guard
  · have hb : ∀ j, j < 2 → kernel2 n x y j = 0 := by
      intro j _; unfold kernel2; simp only [if_pos hg]
    rw [adjustK_zero 2 _ cc x y hb]
  · obtain ⟨e0, e1⟩ := kernel2_normal_equations n hn x y hg
    refine (cv_var_le_raw_normal_equations n 2 hn _ cc x y ?_).2
    intro j hj
    rw [sumTo_two]
    rcases (by omega : j = 0 ∨ j = 1) with rfl | rfl
    · exact e0
    · rw [covB_comm n (x 1) (x 0)]; exact e1

/-- **vector payoff, up to two controls, the kernel as coded**: for every payoff component the adjusted sample variance is at
    most the raw one (each component with its own coefficient vector) -/
theorem cv_var_le_raw_vec (n k : Nat) (hn : 0 < n) (hk : k ≤ 2) (pr : Nat → Nat → Rat) (x : Nat → Nat → Nat → Rat)
    (y : Nat → Nat → Rat) (c : Nat) :
    varB n (adjustVec k (kernelOf k) pr x y n c) ≤ varB n (y c) := by
  unfold adjustVec kernelOf
  rcases (by omega : k = 0 ∨ k = 1 ∨ k = 2) with rfl | rfl | rfl
  · have : adjustK 0 ((if (0:Nat) = 1 then kernel1 else if (0:Nat) = 2 then kernel2 else fun _ _ _ _ => 0) n (fun j => x j c) (y c))
        (fun j => pr j c) (fun j => x j c) (y c) = y c := adjustK_zero 0 _ _ _ _ (fun j hj => by omega)
    rw [this]
  · simp only [if_true]
    have : adjustK 1 (kernel1 n (fun j => x j c) (y c)) (fun j => pr j c) (fun j => x j c) (y c)
        = adjust (bStar n (x 0 c) (y c)) (pr 0 c) (x 0 c) (y c) := by
      funext i; unfold adjustK adjust kernel1; rw [sumTo_one]
    rw [this]
    exact cv_var_le_raw_one_control n hn _ _ _
  · simp only [show (2:Nat) ≠ 1 by omega, if_false, if_true]
    exact cv_var_le_raw_two_controls n hn _ _ _

/-! ### non-vacuity: two collinear controls (X₁ = 2 X₀): Σ_X is singular, the pseudo-inverse branch is taken and b solves the
normal equations; and a regular pair -/
example : kernel2 4 (fun j i => if j = 0 then i else 2 * i) (fun i => 3 * i + 1) 0 = 3 / 5 ∧
          kernel2 4 (fun j i => if j = 0 then i else 2 * i) (fun i => 3 * i + 1) 1 = 6 / 5 := by
  constructor <;> decide +kernel

example : kernel2 4 (fun j i => if j = 0 then i else i * i) (fun i => i * i + i) 0 = 1 ∧
          kernel2 4 (fun j i => if j = 0 then i else i * i) (fun i => i * i + i) 1 = 1 := by
  constructor <;> decide +kernel

end Rpylib.Stats
