/-
Helper lemmas for C19: sums over the default region of a product grid (states with a coordinate index below the
threshold's boundary index), list sums over filtered state lists as Finset sums, "value below the threshold" as
"index below the boundary index".
-/
import RpylibModel.Model.Credit
import RpylibModel.Proofs.C01

set_option linter.dupNamespace false
set_option linter.unusedVariables false
set_option linter.unusedSectionVars false

namespace Rpylib.Credit
open Rpylib.Grid Rpylib.Cells Finset

/-! ### lists -/

theorem sum_filter_map {α : Type} (l : List α) (p : α → Bool) (F : α → ℚ) :
    ((l.filter p).map F).sum = (l.map (fun x => if p x then F x else 0)).sum := by
  induction l with
  | nil => simp
  | cons x t ih =>
    by_cases h : p x
    · simp [h, ih]
    · simp [h, ih]

theorem sum_states_2d (F : List ℕ → ℚ) (n1 n2 : ℕ) :
    ((cartesian [List.range n1, List.range n2]).map F).sum = ∑ i ∈ range n1, ∑ j ∈ range n2, F [i, j] := by
  rw [cartesian_two, sum_map_flatMap]
  simp only [List.map_map, Function.comp_def]
  rw [sum_map_range]
  apply sum_congr rfl
  intro i _
  rw [sum_map_range]

theorem sum_states_3d (F : List ℕ → ℚ) (n1 n2 n3 : ℕ) :
    ((cartesian [List.range n1, List.range n2, List.range n3]).map F).sum =
      ∑ i ∈ range n1, ∑ j ∈ range n2, ∑ k ∈ range n3, F [i, j, k] := by
  rw [cartesian_three, sum_map_flatMap, sum_map_range]
  apply sum_congr rfl
  intro i _
  rw [sum_map_flatMap]
  simp only [List.map_map, Function.comp_def]
  rw [sum_map_range]
  apply sum_congr rfl
  intro j _
  rw [sum_map_range]

/-! ### sums with an index threshold -/

theorem sum_range_ite (G G' : ℕ → ℚ) (t n : ℕ) (h : t ≤ n) :
    ∑ k ∈ range n, (if k < t then G k else G' k) = ∑ k ∈ Ico 0 t, G k + ∑ k ∈ Ico t n, G' k := by
  rw [range_eq_Ico, ← sum_Ico_consecutive _ (Nat.zero_le t) h]
  congr 1
  · apply sum_congr rfl
    intro k hk; rw [if_pos (mem_Ico.mp hk).2]
  · apply sum_congr rfl
    intro k hk; rw [if_neg (by have := (mem_Ico.mp hk).1; omega)]

theorem sum_range_ite_zero (G : ℕ → ℚ) (t n : ℕ) (h : t ≤ n) :
    ∑ k ∈ range n, (if k < t then G k else 0) = ∑ k ∈ Ico 0 t, G k := by
  rw [sum_range_ite G (fun _ => 0) t n h]; simp

/-! ### a state value lies below a cell boundary iff its index lies below the boundary's index -/

theorem pt_lt_bnd_iff (mid : ℚ → ℚ → ℚ) (hm : Between mid) (hi : MidIdem mid) (ax : List ℚ) (hs : StrictInc ax)
    (t k : ℕ) (ht : t < ax.length) (hk : k < ax.length) :
    pt ax k < bnd mid ax.length ax t ↔ k < t := by
  constructor
  · intro h
    by_contra hc
    have h1 := bnd_mono mid hm hi ax hs t k (by omega) (by omega)
    rw [← cellLo_eq_bnd mid _ ax k hk] at h1
    have h2 := cellLo_le_pt mid hm hi ax hs k hk
    linarith
  · intro h
    have h1 := pt_lt_cellHi mid hm hi ax hs k (by omega)
    rw [cellHiN_eq_bnd mid _ ax k hk] at h1
    have h2 := bnd_mono mid hm hi ax hs (k + 1) t (by omega) (by omega)
    linarith

end Rpylib.Credit
