/-
C07 — Standard Monte-Carlo price, error and control-variate adjustment are textbook.
Theorems about RpylibModel/Model/Stats.lean for one payoff component, for every number of paths and every sample
(imported by Proofs/C07.lean; the vector-payoff / k-control shapes are in Lemmas/C07Vec.lean).
-/
import RpylibModel.Model.Stats
import Mathlib.Tactic.Linarith
import Mathlib.Tactic.Ring
import Mathlib.Tactic.FieldSimp
import Mathlib.Tactic.Positivity
import Mathlib.Algebra.Order.Field.Rat

namespace Rpylib.Stats

/-- defining equations (the model binds the means once with `let`, as numpy computes them once) -/
theorem covB_def (n : Nat) (x y : Nat → Rat) :
    covB n x y = sumTo n (fun i => (x i - mean n x) * (y i - mean n y)) / n := rfl
theorem varU_def (n : Nat) (y : Nat → Rat) :
    varU n y = sumTo n (fun i => (y i - mean n y) * (y i - mean n y)) / (n - 1) := rfl

/-! ### linearity of the finite sum (helper lemmas) -/

theorem listSum_append (a b : List Rat) : listSum (a ++ b) = listSum a + listSum b := by
  induction a with
  | nil => simp [listSum]
  | cons x t ih => simp only [listSum, List.cons_append, List.foldr_cons] at ih ⊢; rw [ih]; ring

theorem sumTo_zero (f : Nat → Rat) : sumTo 0 f = 0 := by simp [sumTo, listSum]

theorem sumTo_succ (n : Nat) (f : Nat → Rat) : sumTo (n + 1) f = sumTo n f + f n := by
  simp only [sumTo, List.range_succ, List.map_append, listSum_append]
  simp [listSum]

theorem sumTo_add (n : Nat) (f g : Nat → Rat) : sumTo n (fun i => f i + g i) = sumTo n f + sumTo n g := by
  induction n with
  | zero => simp [sumTo_zero]
  | succ n ih => rw [sumTo_succ, sumTo_succ, sumTo_succ, ih]; ring

theorem sumTo_mul (n : Nat) (c : Rat) (f : Nat → Rat) : sumTo n (fun i => c * f i) = c * sumTo n f := by
  induction n with
  | zero => simp [sumTo_zero]
  | succ n ih => rw [sumTo_succ, sumTo_succ, ih]; ring

theorem sumTo_const (n : Nat) (c : Rat) : sumTo n (fun _ => c) = n * c := by
  induction n with
  | zero => simp [sumTo_zero]
  | succ n ih => rw [sumTo_succ, ih]; push_cast; ring

theorem sumTo_congr (n : Nat) (f g : Nat → Rat) (h : ∀ i, i < n → f i = g i) : sumTo n f = sumTo n g := by
  induction n with
  | zero => simp [sumTo_zero]
  | succ n ih =>
    rw [sumTo_succ, sumTo_succ, ih (fun i hi => h i (by omega)), h n (by omega)]

theorem sumTo_nonneg (n : Nat) (f : Nat → Rat) (h : ∀ i, 0 ≤ f i) : 0 ≤ sumTo n f := by
  induction n with
  | zero => simp [sumTo_zero]
  | succ n ih => rw [sumTo_succ]; have := h n; linarith

/-- centred values sum to zero -/
theorem sumTo_centred (n : Nat) (hn : 0 < n) (y : Nat → Rat) : sumTo n (fun i => y i - mean n y) = 0 := by
  have h : (fun i => y i - mean n y) = (fun i => y i + (-1) * mean n y) := by funext i; ring
  rw [h, sumTo_add, sumTo_mul, sumTo_const]
  unfold mean
  have : (n : Rat) ≠ 0 := by exact_mod_cast hn.ne'
  field_simp; ring

/-! ### the engine's path loop: each path is used once, at its own index -/

theorem storeLoop_spec (mk : Nat → Rat) (n : Nat) :
    ∀ (pre : List (Option Rat)) (post : List (Option Rat)),
      storeLoop mk pre.length n (pre ++ List.replicate n none ++ post)
        = pre ++ (List.range n).map (fun i => some (mk (pre.length + i))) ++ post := by
  induction n with
  | zero => intro pre post; simp [storeLoop]
  | succ n ih =>
    intro pre post
    have hset : (pre ++ List.replicate (n + 1) none ++ post).set pre.length (some (mk pre.length))
        = (pre ++ [some (mk pre.length)]) ++ List.replicate n none ++ post := by
      simp [List.replicate_succ]
    rw [storeLoop, hset]
    have hlen : pre.length + 1 = (pre ++ [some (mk pre.length)]).length := by simp
    rw [hlen, ih (pre ++ [some (mk pre.length)]) post]
    simp only [List.range_succ_eq_map, List.map_cons, List.map_map, List.append_assoc, List.singleton_append,
      Nat.add_zero, List.length_append, List.length_cons, List.length_nil]
    congr 3
    apply List.map_congr_left
    intro i _; simp [Function.comp]; congr 1; omega

/-- **each path used once**: after the loop the array holds, at row i, the discounted notional-scaled payoff of
    path i, for exactly the configured number of paths — no placeholder left, nothing overwritten. -/
theorem each_path_once (n : Nat) (df notional : Rat) (payoff : Nat → Rat) :
    stdRows n df notional payoff = (List.range n).map (fun i => some (df * (notional * payoff i))) := by
  have := storeLoop_spec (fun i => df * (notional * payoff i)) n [] []
  simpa [stdRows] using this

/-- **price = discount factor × notional × arithmetic mean of the payoff over the n paths** -/
theorem price_is_df_notional_mean (n : Nat) (df notional : Rat) (payoff : Nat → Rat) :
    mean n (fun i => df * (notional * payoff i)) = df * (notional * mean n payoff) := by
  unfold mean
  rw [sumTo_mul, sumTo_mul]; ring

/-! ### error: unbiased variance over the number of paths, per component -/

/-- the reported squared error is `varU / n` whatever the payoff dimension; the pre-fix code was too small by the
    factor `d` -/
theorem stderr_per_component (n d : Nat) (hd : 0 < d) (hn : 0 < n) (y : Nat → Rat) :
    stderrSq n y = d * stderrSqOld n d y := by
  unfold stderrSq stderrSqOld
  have h1 : (n : Rat) ≠ 0 := by exact_mod_cast hn.ne'
  have h2 : (d : Rat) ≠ 0 := by exact_mod_cast hd.ne'
  field_simp

/-- witness: for d = 2 the old error differs whenever the variance is not zero -/
theorem stderr_old_wrong : stderrSqOld 3 2 (fun i => i) ≠ stderrSq 3 (fun i => i) := by
  unfold stderrSqOld stderrSq
  rw [varU_def]
  unfold mean sumTo listSum
  simp [List.range_succ]; norm_num

/-! ### control variates -/

/-- mean of the adjusted sample, one control, any coefficient -/
theorem adjust_mean (n : Nat) (hn : 0 < n) (b c : Rat) (x y : Nat → Rat) :
    mean n (adjust b c x y) = mean n y - b * (mean n x - c) := by
  unfold mean adjust
  have h : (fun i => y i - b * (x i - c)) = (fun i => y i + ((-b) * x i + b * c)) := by funext i; ring
  rw [h, sumTo_add, sumTo_add, sumTo_mul, sumTo_const]
  have : (n : Rat) ≠ 0 := by exact_mod_cast hn.ne'
  field_simp; ring

/-- **the adjusted price coincides with the raw mean when the control's sample mean equals its given price**
    (one control, whatever coefficient the regression produced) -/
theorem cv_mean_identity (n : Nat) (hn : 0 < n) (b c : Rat) (x y : Nat → Rat) (h : mean n x = c) :
    mean n (adjust b c x y) = mean n y := by
  rw [adjust_mean n hn, h]; ring

/-- the same for any number of controls and any coefficient vector -/
theorem cv_mean_identity_k (n k : Nat) (hn : 0 < n) (b c : Nat → Rat) (x : Nat → Nat → Rat) (y : Nat → Rat)
    (h : ∀ j, j < k → mean n (x j) = c j) : mean n (adjustK k b c x y) = mean n y := by
  have hn' : (n : Rat) ≠ 0 := by exact_mod_cast hn.ne'
  -- Σ_i Σ_j b_j (x_j i − c_j) = 0
  have key : sumTo n (fun i => sumTo k (fun j => b j * (x j i - c j))) = 0 := by
    induction k with
    | zero => simp [sumTo_zero, sumTo_const]
    | succ k ih =>
      have hs : (fun i => sumTo (k + 1) (fun j => b j * (x j i - c j)))
          = (fun i => sumTo k (fun j => b j * (x j i - c j)) + b k * (x k i - c k)) := by
        funext i; rw [sumTo_succ]
      rw [hs, sumTo_add, ih (fun j hj => h j (by omega)), sumTo_mul]
      have hk := h k (by omega)
      have hc : sumTo n (fun i => x k i - c k) = 0 := by
        rw [← hk]; exact sumTo_centred n hn (x k)
      rw [hc]; ring
  unfold mean adjustK
  have h2 : (fun i => y i - sumTo k (fun j => b j * (x j i - c j)))
      = (fun i => y i + (-1) * sumTo k (fun j => b j * (x j i - c j))) := by funext i; ring
  rw [h2, sumTo_add, sumTo_mul, key]; ring

/-- Σ_i Σ_j b_j (x_j i − c_j) = Σ_j b_j (Σ_i x_j i − n c_j) -/
theorem sumTo_adjust_swap (n k : Nat) (b c : Nat → Rat) (x : Nat → Nat → Rat) :
    sumTo n (fun i => sumTo k (fun j => b j * (x j i - c j))) = sumTo k (fun j => b j * (sumTo n (x j) - n * c j)) := by
  induction k with
  | zero => simp [sumTo_zero, sumTo_const]
  | succ k ih =>
    have hs : (fun i => sumTo (k + 1) (fun j => b j * (x j i - c j)))
        = (fun i => sumTo k (fun j => b j * (x j i - c j)) + b k * (x k i - c k)) := by
      funext i; rw [sumTo_succ]
    rw [hs, sumTo_add, ih, sumTo_succ, sumTo_mul]
    have hx : (fun i => x k i - c k) = (fun i => x k i + (-1) * c k) := by funext i; ring
    rw [hx, sumTo_add, sumTo_const]; ring

/-- **mean of the adjusted sample, any number of controls, any coefficient vector**:
    `mean(Y − Σ_j b_j (X_j − c_j)) = mean Y − Σ_j b_j (mean X_j − c_j)` -/
theorem adjustK_mean (n k : Nat) (hn : 0 < n) (b c : Nat → Rat) (x : Nat → Nat → Rat) (y : Nat → Rat) :
    mean n (adjustK k b c x y) = mean n y - sumTo k (fun j => b j * (mean n (x j) - c j)) := by
  have hn' : (n : Rat) ≠ 0 := by exact_mod_cast hn.ne'
  unfold mean adjustK
  have h2 : (fun i => y i - sumTo k (fun j => b j * (x j i - c j)))
      = (fun i => y i + (-1) * sumTo k (fun j => b j * (x j i - c j))) := by funext i; ring
  rw [h2, sumTo_add, sumTo_mul, sumTo_adjust_swap]
  have h3 : sumTo k (fun j => b j * (sumTo n (x j) / n - c j))
      = sumTo k (fun j => (1 / (n : Rat)) * (b j * (sumTo n (x j) - n * c j))) := by
    apply sumTo_congr; intro j _; field_simp
  rw [h3, sumTo_mul]; field_simp; ring

/-- biased sample variance of the adjusted sample: `var Y − 2 b cov(X,Y) + b² var X` -/
theorem adjust_var (n : Nat) (hn : 0 < n) (b c : Rat) (x y : Nat → Rat) :
    varB n (adjust b c x y) = varB n y - 2 * b * covB n x y + b * b * varB n x := by
  have hn' : (n : Rat) ≠ 0 := by exact_mod_cast hn.ne'
  unfold varB
  simp only [covB_def]
  rw [adjust_mean n hn]
  have h : (fun i => (adjust b c x y i - (mean n y - b * (mean n x - c))) * (adjust b c x y i - (mean n y - b * (mean n x - c))))
      = (fun i => (y i - mean n y) * (y i - mean n y) + ((-2 * b) * ((x i - mean n x) * (y i - mean n y))
          + (b * b) * ((x i - mean n x) * (x i - mean n x)))) := by
    funext i; unfold adjust; ring
  rw [h, sumTo_add, sumTo_add, sumTo_mul, sumTo_mul]
  field_simp; ring

theorem varB_nonneg (n : Nat) (y : Nat → Rat) : 0 ≤ varB n y := by
  unfold varB
  simp only [covB_def]
  apply div_nonneg
  · apply sumTo_nonneg; intro i; exact mul_self_nonneg _
  · exact_mod_cast Nat.zero_le n

/-- **the sample variance of the adjusted estimator never exceeds the raw one** (one control, b* the sample
    regression coefficient as the code computes it, including the fallback b* = 0) -/
theorem cv_var_le_raw_one_control (n : Nat) (hn : 0 < n) (c : Rat) (x y : Nat → Rat) :
    varB n (adjust (bStar n x y) c x y) ≤ varB n y := by
  rw [adjust_var n hn]
  unfold bStar
  split_ifs with hg
  · simp
  · have hv : 0 ≤ varB n x := varB_nonneg n x
    have hne : varB n x ≠ 0 := by
      intro h0; apply hg; rw [h0]; unfold rabs guard; norm_num
    have hpos : 0 < varB n x := lt_of_le_of_ne hv (Ne.symm hne)
    have : varB n y - 2 * (covB n x y / varB n x) * covB n x y + covB n x y / varB n x * (covB n x y / varB n x) * varB n x
        = varB n y - covB n x y * covB n x y / varB n x := by field_simp; ring
    rw [this]
    have : 0 ≤ covB n x y * covB n x y / varB n x := div_nonneg (mul_self_nonneg _) hv
    linarith

/-- the unbiased variance (what `mc_stddev` reports) is the biased one times n/(n−1), so the inequality carries over -/
theorem varU_eq (n : Nat) (hn : 1 < n) (y : Nat → Rat) : varU n y = varB n y * (n / (n - 1)) := by
  rw [varU_def]
  unfold varB
  rw [covB_def]
  have h1 : (n : Rat) ≠ 0 := by exact_mod_cast (by omega : n ≠ 0)
  have h2 : ((n : Rat) - 1) ≠ 0 := by
    have : (1 : Rat) < n := by exact_mod_cast hn
    linarith
  field_simp

theorem cv_stderr_le_raw_one_control (n : Nat) (hn : 1 < n) (c : Rat) (x y : Nat → Rat) :
    stderrSq n (adjust (bStar n x y) c x y) ≤ stderrSq n y := by
  unfold stderrSq
  rw [varU_eq n hn, varU_eq n hn]
  have hpos : (0 : Rat) < n := by exact_mod_cast (by omega : 0 < n)
  have h1 : (0 : Rat) < (n : Rat) - 1 := by
    have : (1 : Rat) < n := by exact_mod_cast hn
    linarith
  have hle := cv_var_le_raw_one_control n (by omega) c x y
  apply div_le_div_of_nonneg_right _ hpos.le
  apply mul_le_mul_of_nonneg_right hle
  positivity

/-! ### non-vacuity -/
example : mean 4 (fun i => i) = 3 / 2 ∧ varU 4 (fun i => i) = 5 / 3 ∧ bStar 4 (fun i => i) (fun i => 2 * i + 1) = 2 := by
  refine ⟨?_, ?_, ?_⟩ <;> decide +kernel

end Rpylib.Stats

namespace Rpylib.Stats

/-! ### any number of controls: coefficients solving the normal equations never increase the sample variance

`helper_compute_coefficients` takes `b* = pinv(Σ_X) Σ_XY` (since /repo b087fd1), the least-squares solution of
`Σ_X b = Σ_XY`; the covariance vector of a sample always lies in the range of its covariance matrix, so the
pseudo-inverse solves the system exactly.  That `numpy.linalg.pinv` returns such a solution is checked on the
implementation by the harness (residual of the normal equations), not proved. -/

/-- the combined control `Z_i = Σ_j b_j X_j(i)` -/
def combo (k : Nat) (b : Nat → Rat) (x : Nat → Nat → Rat) : Nat → Rat := fun i => sumTo k (fun j => b j * x j i)

theorem mean_add (n : Nat) (f g : Nat → Rat) : mean n (fun i => f i + g i) = mean n f + mean n g := by
  unfold mean; rw [sumTo_add]; ring

theorem mean_smul (n : Nat) (c : Rat) (f : Nat → Rat) : mean n (fun i => c * f i) = c * mean n f := by
  unfold mean; rw [sumTo_mul]; ring

theorem covB_add_left (n : Nat) (f g y : Nat → Rat) :
    covB n (fun i => f i + g i) y = covB n f y + covB n g y := by
  simp only [covB_def]
  rw [mean_add]
  have h : (fun i => (f i + g i - (mean n f + mean n g)) * (y i - mean n y))
      = (fun i => (f i - mean n f) * (y i - mean n y) + (g i - mean n g) * (y i - mean n y)) := by funext i; ring
  rw [h, sumTo_add]; ring

theorem covB_smul_left (n : Nat) (c : Rat) (f y : Nat → Rat) : covB n (fun i => c * f i) y = c * covB n f y := by
  simp only [covB_def]
  rw [mean_smul]
  have h : (fun i => (c * f i - c * mean n f) * (y i - mean n y)) = (fun i => c * ((f i - mean n f) * (y i - mean n y))) := by
    funext i; ring
  rw [h, sumTo_mul]; ring

theorem covB_comm (n : Nat) (f g : Nat → Rat) : covB n f g = covB n g f := by
  simp only [covB_def]; congr 1; apply sumTo_congr; intro i _; ring

theorem covB_zero_left (n : Nat) (y : Nat → Rat) : covB n (fun _ => 0) y = 0 := by
  simp only [covB_def]; unfold mean; simp [sumTo_const]

/-- covariance is linear in the combined control -/
theorem covB_combo_left (n k : Nat) (b : Nat → Rat) (x : Nat → Nat → Rat) (y : Nat → Rat) :
    covB n (combo k b x) y = sumTo k (fun j => b j * covB n (x j) y) := by
  induction k with
  | zero =>
    have : combo 0 b x = fun _ => 0 := by funext i; simp [combo, sumTo_zero]
    rw [this, covB_zero_left, sumTo_zero]
  | succ k ih =>
    have : combo (k + 1) b x = fun i => combo k b x i + b k * x k i := by funext i; simp [combo, sumTo_succ]
    rw [this, covB_add_left, ih, covB_smul_left, sumTo_succ]

/-- the adjusted sample is `Y − Z + const` -/
theorem adjustK_eq (k : Nat) (b c : Nat → Rat) (x : Nat → Nat → Rat) (y : Nat → Rat) (i : Nat) :
    adjustK k b c x y i = y i - combo k b x i + sumTo k (fun j => b j * c j) := by
  unfold adjustK combo
  have : (fun j => b j * (x j i - c j)) = (fun j => b j * x j i + (-1) * (b j * c j)) := by funext j; ring
  rw [this, sumTo_add, sumTo_mul]; ring

theorem varB_shift (n : Nat) (hn : 0 < n) (f : Nat → Rat) (c : Rat) : varB n (fun i => f i + c) = varB n f := by
  have hn' : (n : Rat) ≠ 0 := by exact_mod_cast hn.ne'
  have hm : mean n (fun i => f i + c) = mean n f + c := by
    unfold mean; rw [sumTo_add, sumTo_const]; field_simp
  unfold varB
  simp only [covB_def]
  rw [hm]; congr 1; apply sumTo_congr; intro i _; ring

theorem varB_sub (n : Nat) (f g : Nat → Rat) :
    varB n (fun i => f i - g i) = varB n f - 2 * covB n g f + varB n g := by
  have h : (fun i => f i - g i) = (fun i => f i + (-1) * g i) := by funext i; ring
  unfold varB
  rw [h, covB_add_left, covB_smul_left]
  rw [covB_comm n f (fun i => f i + (-1) * g i), covB_comm n g (fun i => f i + (-1) * g i)]
  rw [covB_add_left, covB_add_left, covB_smul_left, covB_smul_left, covB_comm n f g]
  ring

/-- **k controls**: if the coefficient vector solves the normal equations `Σ_l cov(X_j, X_l) b_l = cov(X_j, Y)` for
    every control j, the sample variance of the adjusted estimator is `var Y − var(Σ b_j X_j) ≤ var Y`. -/
theorem cv_var_le_raw_normal_equations (n k : Nat) (hn : 0 < n) (b c : Nat → Rat) (x : Nat → Nat → Rat) (y : Nat → Rat)
    (hne : ∀ j, j < k → sumTo k (fun l => covB n (x j) (x l) * b l) = covB n (x j) y) :
    varB n (adjustK k b c x y) = varB n y - varB n (combo k b x) ∧ varB n (adjustK k b c x y) ≤ varB n y := by
  have hadj : adjustK k b c x y = fun i => (y i - combo k b x i) + sumTo k (fun j => b j * c j) := by
    funext i; exact adjustK_eq k b c x y i
  -- cov(Z, Y) = var Z from the normal equations
  have hzy : covB n (combo k b x) y = varB n (combo k b x) := by
    unfold varB
    rw [covB_combo_left, covB_combo_left]
    apply sumTo_congr; intro j hj
    rw [covB_comm n (x j) (combo k b x), covB_combo_left, ← hne j hj]
    congr 1
    apply sumTo_congr; intro l _
    rw [covB_comm n (x l) (x j)]; ring
  have e : varB n (adjustK k b c x y) = varB n y - varB n (combo k b x) := by
    rw [hadj, varB_shift n hn, varB_sub, hzy]; ring
  exact ⟨e, by rw [e]; have := varB_nonneg n (combo k b x); linarith⟩

end Rpylib.Stats
