/-
Helper lemmas for C02, Huffman tree: cells of a consistent tree; the merge loop preserves the forest's law whatever
the insertion position.
-/
import RpylibModel.Model.Samplers.Huffman
import RpylibModel.Model.Samplers.Alias
import Mathlib.Tactic.Linarith
import Mathlib.Tactic.Ring
import Mathlib.Algebra.Order.Field.Rat

namespace Rpylib.Huffman
open Rpylib.Alias (lengthOf)

/-- consistent tree: an internal node's value is the sum of its children's, leaf values are non-negative -/
def Wf : Tree → Prop
  | .leaf _ v => 0 ≤ v
  | .node v l r => v = l.value + r.value ∧ Wf l ∧ Wf r

/-- probability carried by the leaves of state `k` -/
def law : Tree → Nat → Rat
  | .leaf s v, k => if s = k then v else 0
  | .node _ l r, k => law l k + law r k

theorem value_nonneg : ∀ t, Wf t → 0 ≤ t.value
  | .leaf _ _, h => h
  | .node _ l r, h => by
    have := value_nonneg l h.2.1; have := value_nonneg r h.2.2
    simp only [Tree.value]; rw [h.1]; linarith

theorem cellsFrom_bounds : ∀ (t : Tree) (lo : Rat), Wf t → ∀ c ∈ cellsFrom t lo, lo ≤ c.2.1 ∧ c.2.2 ≤ lo + t.value ∧ c.2.1 ≤ c.2.2
  | .leaf s v, lo, h => by
    intro c hc; simp [cellsFrom] at hc; subst hc
    have : 0 ≤ v := h
    simp only [Tree.value]; exact ⟨le_refl _, le_refl _, by linarith⟩
  | .node v l r, lo, h => by
    intro c hc
    have hl := value_nonneg l h.2.1; have hr := value_nonneg r h.2.2
    simp only [cellsFrom] at hc
    simp only [Tree.value]; rw [h.1]
    rcases List.mem_append.mp hc with hc | hc
    · obtain ⟨a, b, c'⟩ := cellsFrom_bounds l lo h.2.1 c hc; exact ⟨a, by linarith, c'⟩
    · obtain ⟨a, b, c'⟩ := cellsFrom_bounds r _ h.2.2 c hc; exact ⟨by linarith, by linarith, c'⟩

theorem draw_cells (u : Rat) : ∀ (t : Tree) (lo : Rat), Wf t → lo ≤ u → u < lo + t.value →
    (∃ c ∈ cellsFrom t lo, c.1 = draw t (u - lo) ∧ c.2.1 ≤ u ∧ u < c.2.2) ∧
    (∀ c ∈ cellsFrom t lo, c.2.1 ≤ u → u < c.2.2 → c.1 = draw t (u - lo))
  | .leaf s v, lo, _, h1, h2 => by
    simp only [cellsFrom, draw, Tree.value] at *
    exact ⟨⟨(s, lo, lo + v), by simp, rfl, h1, h2⟩, by intro c hc _ _; simp at hc; subst hc; rfl⟩
  | .node v l r, lo, h, h1, h2 => by
    simp only [Tree.value] at h2; rw [h.1] at h2
    simp only [cellsFrom, draw]
    by_cases hu : u - lo < l.value
    · simp only [if_pos hu]
      obtain ⟨⟨c, hc, e1, e2, e3⟩, hb⟩ := draw_cells u l lo h.2.1 h1 (by linarith)
      refine ⟨⟨c, List.mem_append.mpr (Or.inl hc), e1, e2, e3⟩, ?_⟩
      intro c' hc' hl hr
      rcases List.mem_append.mp hc' with hm | hm
      · exact hb c' hm hl hr
      · have := (cellsFrom_bounds r _ h.2.2 c' hm).1; linarith
    · simp only [if_neg hu]
      have hu' : l.value ≤ u - lo := not_lt.mp hu
      have e : u - lo - l.value = u - (lo + l.value) := by ring
      rw [e]
      obtain ⟨⟨c, hc, e1, e2, e3⟩, hb⟩ := draw_cells u r (lo + l.value) h.2.2 (by linarith) (by linarith)
      refine ⟨⟨c, List.mem_append.mpr (Or.inr hc), e1, e2, e3⟩, ?_⟩
      intro c' hc' hl hr
      rcases List.mem_append.mp hc' with hm | hm
      · have := (cellsFrom_bounds l lo h.2.1 c' hm).2.1; linarith
      · exact hb c' hm hl hr

theorem lengthOf_append (a b : List (Nat × Rat × Rat)) (k : Nat) : lengthOf (a ++ b) k = lengthOf a k + lengthOf b k := by
  simp [lengthOf, List.map_append, List.sum_append]

theorem lengthOf_cellsFrom : ∀ (t : Tree) (lo : Rat) (k : Nat), lengthOf (cellsFrom t lo) k = law t k
  | .leaf s v, lo, k => by simp [cellsFrom, lengthOf, law]
  | .node _ l r, lo, k => by
    simp only [cellsFrom, law, lengthOf_append, lengthOf_cellsFrom l, lengthOf_cellsFrom r]

/-! ### the construction -/

def lawForest (ns : List Tree) (k : Nat) : Rat := (ns.map (fun t => law t k)).sum
def valueForest (ns : List Tree) : Rat := (ns.map Tree.value).sum

theorem lawForest_insertAt (x : Tree) (k : Nat) : ∀ (i : Nat) (l : List Tree),
    lawForest (insertAt x i l) k = law x k + lawForest l k
  | 0, l => by simp [insertAt, lawForest]
  | _ + 1, [] => by simp [insertAt, lawForest]
  | i + 1, y :: ys => by
    have := lawForest_insertAt x k i ys
    simp only [insertAt, lawForest, List.map_cons, List.sum_cons] at this ⊢; linarith

theorem valueForest_insertAt (x : Tree) : ∀ (i : Nat) (l : List Tree),
    valueForest (insertAt x i l) = x.value + valueForest l
  | 0, l => by simp [insertAt, valueForest]
  | _ + 1, [] => by simp [insertAt, valueForest]
  | i + 1, y :: ys => by
    have := valueForest_insertAt x i ys
    simp only [insertAt, valueForest, List.map_cons, List.sum_cons] at this ⊢; linarith

theorem mem_insertAt {α} (x : α) : ∀ (i : Nat) (l : List α) (y : α), y ∈ insertAt x i l ↔ y = x ∨ y ∈ l
  | 0, l, y => by simp [insertAt]
  | _ + 1, [], y => by simp [insertAt]
  | i + 1, z :: zs, y => by
    simp only [insertAt, List.mem_cons, mem_insertAt x i zs y]; tauto

theorem length_insertAt {α} (x : α) : ∀ (i : Nat) (l : List α), (insertAt x i l).length = l.length + 1
  | 0, l => by simp [insertAt]
  | _ + 1, [] => by simp [insertAt]
  | i + 1, z :: zs => by simp [insertAt, length_insertAt x i zs]

/-- `pop` splits the node list into its last element and the rest -/
theorem pop_spec (h : Heap) (n : Tree) (h' : Heap) (hp : h.pop = some (n, h')) : h.nodes = h'.nodes ++ [n] := by
  unfold Heap.pop at hp
  cases hl : h.nodes.getLast? with
  | none => rw [hl] at hp; simp at hp
  | some m =>
    rw [hl] at hp; simp only [Option.some.injEq, Prod.mk.injEq] at hp
    obtain ⟨rfl, rfl⟩ := hp
    have hne : h.nodes ≠ [] := by intro h0; rw [h0] at hl; simp at hl
    have hm : h.nodes.getLast hne = m := by
      rw [List.getLast?_eq_some_getLast hne] at hl; exact Option.some.inj hl
    rw [← hm]; exact (List.dropLast_concat_getLast hne).symm

theorem lawForest_append (a b : List Tree) (k : Nat) : lawForest (a ++ b) k = lawForest a k + lawForest b k := by
  simp [lawForest, List.map_append, List.sum_append]

theorem valueForest_append (a b : List Tree) : valueForest (a ++ b) = valueForest a + valueForest b := by
  simp [valueForest, List.map_append, List.sum_append]

theorem merges_succ {m : Nat} {h h1 h2 : Heap} {n1 n2 : Tree} (hp1 : h.pop = some (n1, h1)) (hp2 : h1.pop = some (n2, h2)) :
    merges (m + 1) h = merges m (h2.insert (.node (n1.value + n2.value) n1 n2)) := by
  simp [merges, hp1, hp2]

theorem lawForest_single (t : Tree) (k : Nat) : lawForest [t] k = law t k := by simp [lawForest]
theorem valueForest_single (t : Tree) : valueForest [t] = t.value := by simp [valueForest]

/-- the merge loop keeps: all trees consistent, the forest's law, the forest's total value; and ends with one tree -/
theorem merges_spec (k : Nat) : ∀ (m : Nat) (h : Heap), h.nodes.length = m + 1 → (∀ t ∈ h.nodes, Wf t) →
    ((merges m h).nodes.length = 1) ∧ (∀ t ∈ (merges m h).nodes, Wf t) ∧
      lawForest (merges m h).nodes k = lawForest h.nodes k ∧ valueForest (merges m h).nodes = valueForest h.nodes := by
  intro m
  induction m with
  | zero => intro h hl hw; exact ⟨by simpa [merges] using hl, by simpa [merges] using hw, rfl, rfl⟩
  | succ m ih =>
    intro h hl hw
    cases hp1 : h.pop with
    | none =>
      unfold Heap.pop at hp1
      cases hg : h.nodes.getLast? with
      | none => rw [List.getLast?_eq_none_iff] at hg; rw [hg] at hl; simp at hl
      | some x => rw [hg] at hp1; simp at hp1
    | some r1 =>
      obtain ⟨n1, h1⟩ := r1
      have s1 := pop_spec h n1 h1 hp1
      have l1 : h1.nodes.length = m + 1 := by rw [s1] at hl; simp at hl; omega
      cases hp2 : h1.pop with
      | none =>
        unfold Heap.pop at hp2
        cases hg : h1.nodes.getLast? with
        | none => rw [List.getLast?_eq_none_iff] at hg; rw [hg] at l1; simp at l1
        | some x => rw [hg] at hp2; simp at hp2
      | some r2 =>
        obtain ⟨n2, h2⟩ := r2
        have s2 := pop_spec h1 n2 h2 hp2
        have l2 : h2.nodes.length = m := by rw [s2] at l1; simp at l1; omega
        rw [merges_succ hp1 hp2]
        have hwn1 : Wf n1 := hw n1 (by rw [s1]; simp)
        have hwn2 : Wf n2 := hw n2 (by rw [s1, s2]; simp)
        have hw2 : ∀ t ∈ h2.nodes, Wf t := fun t ht => hw t (by rw [s1, s2]; simp [ht])
        set nn : Tree := .node (n1.value + n2.value) n1 n2 with hnn
        have hins : (h2.insert nn).nodes.length = m + 1 := by simp [Heap.insert, length_insertAt, l2]
        have hwi : ∀ t ∈ (h2.insert nn).nodes, Wf t := by
          intro t ht
          simp only [Heap.insert] at ht
          rcases (mem_insertAt _ _ _ _).mp ht with rfl | ht
          · exact ⟨rfl, hwn1, hwn2⟩
          · exact hw2 t ht
        obtain ⟨a, b, c, d⟩ := ih (h2.insert nn) hins hwi
        refine ⟨a, b, ?_, ?_⟩
        · rw [c]; simp only [Heap.insert, lawForest_insertAt]
          rw [s1, s2, lawForest_append, lawForest_append, lawForest_single, lawForest_single]
          simp only [hnn, law]; ring
        · rw [d]; simp only [Heap.insert, valueForest_insertAt]
          rw [s1, s2, valueForest_append, valueForest_append, valueForest_single, valueForest_single]
          have : nn.value = n1.value + n2.value := by rw [hnn]; rfl
          rw [this]; ring

theorem lawForest_insertDesc (t : Tree) (k : Nat) : ∀ l, lawForest (insertDesc t l) k = law t k + lawForest l k
  | [] => by simp [insertDesc, lawForest]
  | x :: xs => by
    unfold insertDesc; split
    · simp [lawForest]
    · have := lawForest_insertDesc t k xs
      simp only [lawForest, List.map_cons, List.sum_cons] at this ⊢; linarith

theorem valueForest_insertDesc (t : Tree) : ∀ l, valueForest (insertDesc t l) = t.value + valueForest l
  | [] => by simp [insertDesc, valueForest]
  | x :: xs => by
    unfold insertDesc; split
    · simp [valueForest]
    · have := valueForest_insertDesc t xs
      simp only [valueForest, List.map_cons, List.sum_cons] at this ⊢; linarith

theorem mem_insertDesc (t : Tree) : ∀ l y, y ∈ insertDesc t l ↔ y = t ∨ y ∈ l
  | [], y => by simp [insertDesc]
  | x :: xs, y => by
    unfold insertDesc; split
    · simp
    · simp only [List.mem_cons, mem_insertDesc t xs y]; tauto

theorem length_insertDesc (t : Tree) : ∀ l, (insertDesc t l).length = l.length + 1
  | [] => by simp [insertDesc]
  | x :: xs => by unfold insertDesc; split <;> simp [length_insertDesc t xs]

theorem sortDesc_spec (k : Nat) : ∀ l : List Tree, lawForest (sortDesc l) k = lawForest l k ∧
    valueForest (sortDesc l) = valueForest l ∧ (sortDesc l).length = l.length ∧ (∀ y, y ∈ sortDesc l ↔ y ∈ l)
  | [] => by simp [sortDesc]
  | x :: xs => by
    obtain ⟨a, b, c, d⟩ := sortDesc_spec k xs
    have e : sortDesc (x :: xs) = insertDesc x (sortDesc xs) := rfl
    rw [e]
    refine ⟨?_, ?_, ?_, ?_⟩
    · rw [lawForest_insertDesc, a]; simp [lawForest]
    · rw [valueForest_insertDesc, b]; simp [valueForest]
    · rw [length_insertDesc, c]; simp
    · intro y; rw [mem_insertDesc, d]; simp

end Rpylib.Huffman
