/-
C09, infinite end points: ∫_{(a,∞)} for a ≥ 0 and ∫_{(-∞,b]} for b ≤ 0 of x^n e^{-α|x|} and of x^k · HEM density.
The antiderivatives H and Phi tend to 0 at +∞ (polynomial × decaying exponential).
-/
import RpylibModel.Proofs.Lemmas.C09Hem
import Mathlib.MeasureTheory.Integral.IntegralEqImproper
import Mathlib.Analysis.SpecialFunctions.Exp
import Mathlib.MeasureTheory.Measure.Lebesgue.Integral

namespace Rpylib.Integrals
open Real MeasureTheory Filter Topology

theorem tendsto_lin_atTop (α : ℝ) (hα : 0 < α) : Tendsto (fun u : ℝ => α * u) atTop atTop :=
  tendsto_id.const_mul_atTop hα

theorem tendsto_pow_mul_exp_lin (k : ℕ) (α : ℝ) (hα : 0 < α) :
    Tendsto (fun u : ℝ => (α * u) ^ k * exp (-(α * u))) atTop (𝓝 0) :=
  (tendsto_pow_mul_exp_neg_atTop_nhds_zero k).comp (tendsto_lin_atTop α hα)

theorem tendsto_exp_SR (n : ℕ) (α : ℝ) (hα : 0 < α) :
    Tendsto (fun u : ℝ => exp (-(α * u)) * SR n (α * u)) atTop (𝓝 0) := by
  induction n with
  | zero =>
    have h := tendsto_pow_mul_exp_lin 0 α hα
    simpa [SR] using h
  | succ n ih =>
    have h := (tendsto_pow_mul_exp_lin (n + 1) α hα).div_const (fact (n + 1) : ℝ)
    have hsum := ih.add h
    simp only [zero_div, add_zero] at hsum
    refine hsum.congr (fun u => ?_)
    simp only [SR]; ring

theorem tendsto_H (n : ℕ) (α : ℝ) (hα : 0 < α) : Tendsto (H n α) atTop (𝓝 0) := by
  have h := (tendsto_exp_SR n α hα).const_mul ((fact n : ℝ) / α ^ (n + 1))
  simp only [mul_zero] at h
  refine h.congr (fun u => ?_)
  simp only [H]; ring

/-- `∫_{(a,∞)} x^n e^{-α|x|} dx = H(a)` for a ≥ 0, α > 0 -/
theorem integral_Ioi_xn_exp (n : ℕ) (α : ℝ) (hα : 0 < α) (a : ℝ) (ha : 0 ≤ a) :
    ∫ x in Set.Ioi a, x ^ n * exp (-(α * |x|)) = H n α a := by
  have hcongr : ∫ x in Set.Ioi a, x ^ n * exp (-(α * |x|)) = ∫ x in Set.Ioi a, x ^ n * exp (-(α * x)) := by
    apply setIntegral_congr_fun measurableSet_Ioi
    intro x hx
    have hx0 : 0 ≤ x := le_trans ha (le_of_lt hx)
    simp only [abs_of_nonneg hx0]
  have hderiv : ∀ x ∈ Set.Ici a, HasDerivAt (fun u => -H n α u) (x ^ n * exp (-(α * x))) x := by
    intro x _
    have h := (hasDerivAt_H n α hα.ne' x).neg
    rw [neg_neg] at h
    exact h
  have hpos : ∀ x ∈ Set.Ioi a, 0 ≤ x ^ n * exp (-(α * x)) := by
    intro x hx
    have hx0 : 0 ≤ x := le_trans ha (le_of_lt hx)
    positivity
  have hlim : Tendsto (fun u => -H n α u) atTop (𝓝 0) := by
    have := (tendsto_H n α hα).neg
    simpa using this
  rw [hcongr, integral_Ioi_of_hasDerivAt_of_nonneg' hderiv hpos hlim]
  ring

theorem tendsto_Phi (k : ℕ) (hk : k ≤ 2) (w η : ℝ) (hη : 0 < η) : Tendsto (Phi k w η) atTop (𝓝 0) := by
  have h0 := tendsto_pow_mul_exp_lin 0 η hη
  have h1 := tendsto_pow_mul_exp_lin 1 η hη
  have h2 := tendsto_pow_mul_exp_lin 2 η hη
  have hη' := hη.ne'
  interval_cases k
  · have h := (h0.const_mul (-w))
    simp only [mul_zero] at h
    refine h.congr (fun u => ?_)
    simp only [Phi, q]; ring
  · have h := ((h1.const_mul (-w / η)).add (h0.const_mul (-w / η)))
    simp only [mul_zero, add_zero] at h
    refine h.congr (fun u => ?_)
    simp only [Phi, q]; field_simp; ring
  · have h := ((h2.const_mul (-w / η ^ 2)).add ((h1.const_mul (-2 * w / η ^ 2)).add (h0.const_mul (-2 * w / η ^ 2))))
    simp only [mul_zero, add_zero] at h
    refine h.congr (fun u => ?_)
    simp only [Phi, q]; field_simp; ring

/-- `∫_{(a,∞)} x^k · HEM density = −Phi(a)` for a ≥ 0 (λ, p ≥ 0, η₁ > 0), k ≤ 2 -/
theorem integral_Ioi_hem (k : ℕ) (hk : k ≤ 2) (lam p eta1 eta2 : ℝ) (hl : 0 ≤ lam) (hp : 0 ≤ p) (h1 : 0 < eta1)
    (a : ℝ) (ha : 0 ≤ a) :
    ∫ x in Set.Ioi a, x ^ k * hemDensity lam p eta1 eta2 x = -Phi k (lam * p) eta1 a := by
  have hcongr : ∫ x in Set.Ioi a, x ^ k * hemDensity lam p eta1 eta2 x
      = ∫ x in Set.Ioi a, lam * p * eta1 * x ^ k * exp (-(eta1 * x)) := by
    apply setIntegral_congr_fun measurableSet_Ioi
    intro x hx
    have hx0 : 0 < x := lt_of_le_of_lt ha hx
    have : ¬ x < 0 := not_lt.mpr hx0.le
    simp only [hemDensity, hx0, this, if_true, if_false]; ring
  have hderiv : ∀ x ∈ Set.Ici a, HasDerivAt (Phi k (lam * p) eta1) (lam * p * eta1 * x ^ k * exp (-(eta1 * x))) x :=
    fun x _ => hasDerivAt_Phi k hk (lam * p) eta1 h1.ne' x
  have hpos : ∀ x ∈ Set.Ioi a, 0 ≤ lam * p * eta1 * x ^ k * exp (-(eta1 * x)) := by
    intro x hx
    have hx0 : 0 ≤ x := le_trans ha (le_of_lt hx)
    positivity
  rw [hcongr, integral_Ioi_of_hasDerivAt_of_nonneg' hderiv hpos (tendsto_Phi k hk (lam * p) eta1 h1)]
  ring

/-- `∫_{(-∞,b]} x^n e^{-α|x|} dx = (−1)^n H(−b)` for b ≤ 0, α > 0 (the code's `-helper(b)` with sign (−1)^(n+1)) -/
theorem integral_Iic_xn_exp (n : ℕ) (α : ℝ) (hα : 0 < α) (b : ℝ) (hb : b ≤ 0) :
    ∫ x in Set.Iic b, x ^ n * exp (-(α * |x|)) = (-1) ^ n * H n α (-b) := by
  have h1 : ∫ x in Set.Iic b, x ^ n * exp (-(α * |x|))
      = ∫ x in Set.Iic b, (fun y : ℝ => (-1) ^ n * (y ^ n * exp (-(α * |y|)))) (-x) := by
    congr 1; funext x
    simp only [abs_neg]
    rw [neg_pow x n]; ring_nf
    have e : ((-1 : ℝ)) ^ (n * 2) = 1 := by rw [mul_comm, pow_mul]; norm_num
    rw [e]; ring
  rw [h1, integral_comp_neg_Iic b (fun y : ℝ => (-1) ^ n * (y ^ n * exp (-(α * |y|)))),
    MeasureTheory.integral_const_mul, integral_Ioi_xn_exp n α hα (-b) (by linarith)]

theorem Phi_neg_eta (k : ℕ) (hk : k ≤ 2) (w η u : ℝ) : Phi k w (-η) u = (-1) ^ k * Phi k w η (-u) := by
  interval_cases k <;> simp only [Phi, q]
  · have : -(-η * u) = -(η * -u) := by ring
    rw [this]; ring
  · have : -(-η * u) = -(η * -u) := by ring
    rw [this]; ring
  · have : -(-η * u) = -(η * -u) := by ring
    rw [this]; ring

/-- `∫_{(-∞,b]} x^k · HEM density = −Phi_k(λ(1−p), −η₂, b)` for b ≤ 0 (λ ≥ 0, p ≤ 1, η₂ > 0), k ≤ 2 -/
theorem integral_Iic_hem (k : ℕ) (hk : k ≤ 2) (lam p eta1 eta2 : ℝ) (hl : 0 ≤ lam) (hp : p ≤ 1) (h2 : 0 < eta2)
    (b : ℝ) (hb : b ≤ 0) :
    ∫ x in Set.Iic b, x ^ k * hemDensity lam p eta1 eta2 x = -Phi k (lam * (1 - p)) (-eta2) b := by
  have h1 : ∫ x in Set.Iic b, x ^ k * hemDensity lam p eta1 eta2 x
      = ∫ x in Set.Iic b, (fun y : ℝ => (-y) ^ k * hemDensity lam p eta1 eta2 (-y)) (-x) := by
    congr 1; funext x; simp only [neg_neg]
  rw [h1, integral_comp_neg_Iic b (fun y : ℝ => (-y) ^ k * hemDensity lam p eta1 eta2 (-y))]
  have hcongr : ∫ y in Set.Ioi (-b), (-y) ^ k * hemDensity lam p eta1 eta2 (-y)
      = ∫ y in Set.Ioi (-b), (-1) ^ k * (lam * (1 - p) * eta2 * y ^ k * exp (-(eta2 * y))) := by
    apply setIntegral_congr_fun measurableSet_Ioi
    intro y hy
    have hy0 : 0 < y := lt_of_le_of_lt (by linarith) hy
    have hn1 : -y < 0 := by linarith
    have hn2 : ¬ 0 < -y := by linarith
    simp only [hemDensity, hn1, hn2, if_true, if_false]
    rw [neg_pow y k]
    have : eta2 * -y = -(eta2 * y) := by ring
    rw [this]; ring
  have hderiv : ∀ x ∈ Set.Ici (-b), HasDerivAt (Phi k (lam * (1 - p)) eta2)
      (lam * (1 - p) * eta2 * x ^ k * exp (-(eta2 * x))) x :=
    fun x _ => hasDerivAt_Phi k hk (lam * (1 - p)) eta2 h2.ne' x
  have hp' : 0 ≤ 1 - p := by linarith
  have hpos : ∀ x ∈ Set.Ioi (-b), 0 ≤ lam * (1 - p) * eta2 * x ^ k * exp (-(eta2 * x)) := by
    intro x hx
    have hx0 : 0 ≤ x := le_trans (by linarith) (le_of_lt hx)
    positivity
  rw [hcongr, MeasureTheory.integral_const_mul,
    integral_Ioi_of_hasDerivAt_of_nonneg' hderiv hpos (tendsto_Phi k hk (lam * (1 - p)) eta2 h2), Phi_neg_eta k hk]
  ring

end Rpylib.Integrals
