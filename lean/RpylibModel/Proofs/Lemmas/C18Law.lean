/-
C18 — spec-level no-arbitrage shape for a GENERAL terminal law (helper file): a weight `ρ ≥ 0` of total mass 1 with
respect to any reference measure `m` (counting measure: finitely supported laws; Lebesgue measure: densities; `ρ = 1`:
any probability measure) and a non-negative terminal spot `S` of finite mean.  Bochner integrals.
-/
import RpylibModel.Proofs.Lemmas.C18Shape
import Mathlib.MeasureTheory.Integral.Bochner.Basic
import Mathlib.MeasureTheory.Integral.Bochner.Set
import Mathlib.MeasureTheory.Function.L1Space.Integrable
import Mathlib.MeasureTheory.Integral.IntegrableOn
import Mathlib.Tactic.Linarith
import Mathlib.Tactic.Ring

namespace Rpylib.Pricers.Law
open MeasureTheory Rpylib.Pricers.Spec

variable {Ω : Type} [MeasurableSpace Ω]

/-- a terminal law -/
structure TLaw (m : Measure Ω) where
  ρ : Ω → ℝ
  S : Ω → ℝ
  ρ_nonneg : ∀ ω, 0 ≤ ρ ω
  S_nonneg : ∀ ω, 0 ≤ S ω
  S_meas : Measurable S
  ρ_int : Integrable ρ m
  mass : ∫ ω, ρ ω ∂m = 1
  Sρ_int : Integrable (fun ω => S ω * ρ ω) m

namespace TLaw
variable {m : Measure Ω} (L : TLaw m)

/-- forward = mean -/
noncomputable def fwd : ℝ := ∫ ω, L.S ω * L.ρ ω ∂m
/-- `df·E[(S-K)^+]` -/
noncomputable def call (df K : ℝ) : ℝ := df * ∫ ω, max (L.S ω - K) 0 * L.ρ ω ∂m
/-- `df·E[(K-S)^+]` -/
noncomputable def put (df K : ℝ) : ℝ := df * ∫ ω, max (K - L.S ω) 0 * L.ρ ω ∂m
/-- `df·P(S > K)` -/
noncomputable def digital (df K : ℝ) : ℝ := df * ∫ ω, (if K < L.S ω then 1 else 0) * L.ρ ω ∂m

theorem int_linear (c d : ℝ) : Integrable (fun ω => (c * L.S ω + d) * L.ρ ω) m := by
  have := (L.Sρ_int.const_mul c).add (L.ρ_int.const_mul d)
  refine this.congr (Filter.Eventually.of_forall fun ω => ?_)
  simp only [Pi.add_apply]; ring

theorem int_call (K : ℝ) : Integrable (fun ω => max (L.S ω - K) 0 * L.ρ ω) m := by
  have h := (L.int_linear 1 (-K)).pos_part
  refine h.congr (Filter.Eventually.of_forall fun ω => ?_)
  simp only
  rw [max_mul_of_nonneg _ _ (L.ρ_nonneg ω), zero_mul]
  congr 1; ring

theorem int_put (K : ℝ) : Integrable (fun ω => max (K - L.S ω) 0 * L.ρ ω) m := by
  have h := (L.int_linear (-1) K).pos_part
  refine h.congr (Filter.Eventually.of_forall fun ω => ?_)
  simp only
  rw [max_mul_of_nonneg _ _ (L.ρ_nonneg ω), zero_mul]
  congr 1; ring

theorem int_digital (K : ℝ) : Integrable (fun ω => (if K < L.S ω then (1:ℝ) else 0) * L.ρ ω) m := by
  have hs : MeasurableSet {ω | K < L.S ω} := measurableSet_lt measurable_const L.S_meas
  refine (L.ρ_int.indicator hs).congr (Filter.Eventually.of_forall fun ω => ?_)
  by_cases h : K < L.S ω <;> simp [Set.indicator, h]

/-- pointwise comparison of payoffs passes to the weighted integrals -/
theorem int_mono {f g : Ω → ℝ} (hf : Integrable (fun ω => f ω * L.ρ ω) m) (hg : Integrable (fun ω => g ω * L.ρ ω) m)
    (h : ∀ ω, f ω ≤ g ω) : ∫ ω, f ω * L.ρ ω ∂m ≤ ∫ ω, g ω * L.ρ ω ∂m :=
  integral_mono hf hg fun ω => mul_le_mul_of_nonneg_right (h ω) (L.ρ_nonneg ω)

theorem int_const (c : ℝ) : ∫ ω, c * L.ρ ω ∂m = c := by
  rw [integral_const_mul, L.mass, mul_one]

theorem fwd_nonneg : 0 ≤ fwd L :=
  integral_nonneg fun ω => mul_nonneg (L.S_nonneg ω) (L.ρ_nonneg ω)

/-- call prices decrease in the strike -/
theorem call_antitone (df : ℝ) (hdf : 0 ≤ df) {K1 K2 : ℝ} (h : K1 ≤ K2) : call L df K2 ≤ call L df K1 :=
  mul_le_mul_of_nonneg_left (L.int_mono (L.int_call K2) (L.int_call K1) fun ω => atom_antitone (L.S ω) K1 K2 h) hdf

/-- call prices are convex in the strike -/
theorem call_convex (df : ℝ) (hdf : 0 ≤ df) (K1 K2 t : ℝ) (h0 : 0 ≤ t) (h1 : t ≤ 1) :
    call L df (t * K1 + (1 - t) * K2) ≤ t * call L df K1 + (1 - t) * call L df K2 := by
  unfold call
  have hi : Integrable (fun ω => (t * max (L.S ω - K1) 0 + (1 - t) * max (L.S ω - K2) 0) * L.ρ ω) m := by
    refine (((L.int_call K1).const_mul t).add ((L.int_call K2).const_mul (1 - t))).congr
      (Filter.Eventually.of_forall fun ω => ?_)
    simp only [Pi.add_apply]; ring
  have h := L.int_mono (L.int_call (t * K1 + (1 - t) * K2)) hi fun ω => atom_convex (L.S ω) K1 K2 t h0 h1
  have e : ∫ ω, (t * max (L.S ω - K1) 0 + (1 - t) * max (L.S ω - K2) 0) * L.ρ ω ∂m
      = t * ∫ ω, max (L.S ω - K1) 0 * L.ρ ω ∂m + (1 - t) * ∫ ω, max (L.S ω - K2) 0 * L.ρ ω ∂m := by
    rw [← integral_const_mul, ← integral_const_mul,
      ← integral_add ((L.int_call K1).const_mul t) ((L.int_call K2).const_mul (1 - t))]
    exact integral_congr_ae (Filter.Eventually.of_forall fun ω => by ring)
  rw [e] at h
  have := mul_le_mul_of_nonneg_left h hdf
  linarith

/-- undiscounted parity -/
theorem int_parity (K : ℝ) :
    (∫ ω, max (L.S ω - K) 0 * L.ρ ω ∂m) - (∫ ω, max (K - L.S ω) 0 * L.ρ ω ∂m) = fwd L - K := by
  rw [← integral_sub (L.int_call K) (L.int_put K)]
  have e : ∀ ω, max (L.S ω - K) 0 * L.ρ ω - max (K - L.S ω) 0 * L.ρ ω = L.S ω * L.ρ ω - K * L.ρ ω := by
    intro ω; rw [← sub_mul, atom_parity]; ring
  rw [integral_congr_ae (Filter.Eventually.of_forall e), integral_sub L.Sρ_int (L.ρ_int.const_mul K), L.int_const]
  rfl

/-- put–call parity -/
theorem parity (df K : ℝ) : call L df K - put L df K = df * (fwd L - K) := by
  unfold call put; rw [← mul_sub, int_parity]

theorem call_int_nonneg (K : ℝ) : 0 ≤ ∫ ω, max (L.S ω - K) 0 * L.ρ ω ∂m :=
  integral_nonneg fun ω => mul_nonneg (le_max_right _ _) (L.ρ_nonneg ω)

theorem put_int_nonneg (K : ℝ) : 0 ≤ ∫ ω, max (K - L.S ω) 0 * L.ρ ω ∂m :=
  integral_nonneg fun ω => mul_nonneg (le_max_right _ _) (L.ρ_nonneg ω)

/-- intrinsic ≤ call ≤ discounted forward -/
theorem call_band (df : ℝ) (hdf : 0 ≤ df) (K : ℝ) (hK : 0 ≤ K) :
    df * max (fwd L - K) 0 ≤ call L df K ∧ call L df K ≤ df * fwd L := by
  unfold call
  constructor
  · apply mul_le_mul_of_nonneg_left _ hdf
    apply max_le
    · have := L.int_parity K; have := L.put_int_nonneg K; linarith
    · exact L.call_int_nonneg K
  · apply mul_le_mul_of_nonneg_left _ hdf
    exact L.int_mono (L.int_call K) L.Sρ_int fun ω => max_le (by linarith) (L.S_nonneg ω)

/-- `df·(K-F)^+ ≤ put ≤ df·K` -/
theorem put_band (df : ℝ) (hdf : 0 ≤ df) (K : ℝ) (hK : 0 ≤ K) :
    df * max (K - fwd L) 0 ≤ put L df K ∧ put L df K ≤ df * K := by
  unfold put
  constructor
  · apply mul_le_mul_of_nonneg_left _ hdf
    apply max_le
    · have := L.int_parity K; have := L.call_int_nonneg K; linarith
    · exact L.put_int_nonneg K
  · apply mul_le_mul_of_nonneg_left _ hdf
    have h := L.int_mono (L.int_put K) (L.ρ_int.const_mul K |>.congr
      (Filter.Eventually.of_forall fun ω => rfl)) fun ω => max_le (by linarith [L.S_nonneg ω]) hK
    rwa [L.int_const] at h

/-- slope of the call in `[-df, 0]` -/
theorem call_spread (df : ℝ) (hdf : 0 ≤ df) {K1 K2 : ℝ} (h : K1 ≤ K2) :
    0 ≤ call L df K1 - call L df K2 ∧ call L df K1 - call L df K2 ≤ df * (K2 - K1) := by
  constructor
  · have := L.call_antitone df hdf h; linarith
  · unfold call
    rw [← mul_sub, ← integral_sub (L.int_call K1) (L.int_call K2)]
    apply mul_le_mul_of_nonneg_left _ hdf
    have hi : Integrable (fun ω => (max (L.S ω - K1) 0 - max (L.S ω - K2) 0) * L.ρ ω) m :=
      ((L.int_call K1).sub (L.int_call K2)).congr (Filter.Eventually.of_forall fun ω => by
        simp only [Pi.sub_apply]; ring)
    have h2 := L.int_mono hi (L.ρ_int.const_mul (K2 - K1)) fun ω => atom_slope (L.S ω) K1 K2 h
    rw [L.int_const] at h2
    calc ∫ ω, (max (L.S ω - K1) 0 * L.ρ ω - max (L.S ω - K2) 0 * L.ρ ω) ∂m
        = ∫ ω, (max (L.S ω - K1) 0 - max (L.S ω - K2) 0) * L.ρ ω ∂m :=
          integral_congr_ae (Filter.Eventually.of_forall fun ω => by ring)
      _ ≤ K2 - K1 := h2

/-- the digital decreases in the strike -/
theorem digital_antitone (df : ℝ) (hdf : 0 ≤ df) {K1 K2 : ℝ} (h : K1 ≤ K2) : digital L df K2 ≤ digital L df K1 := by
  unfold digital
  apply mul_le_mul_of_nonneg_left _ hdf
  refine L.int_mono (L.int_digital K2) (L.int_digital K1) fun ω => ?_
  by_cases h2 : K2 < L.S ω
  · have h1 : K1 < L.S ω := lt_of_le_of_lt h h2
    simp [h1, h2]
  · simp only [h2, if_false]; split <;> norm_num

/-- the digital is a discounted probability -/
theorem digital_range (df : ℝ) (hdf : 0 ≤ df) (K : ℝ) : 0 ≤ digital L df K ∧ digital L df K ≤ df := by
  unfold digital
  constructor
  · exact mul_nonneg hdf (integral_nonneg fun ω => mul_nonneg (by split <;> norm_num) (L.ρ_nonneg ω))
  · have h := L.int_mono (L.int_digital K) (L.ρ_int.const_mul 1) fun ω => by split <;> norm_num
    rw [L.int_const] at h
    calc df * _ ≤ df * 1 := mul_le_mul_of_nonneg_left h hdf
      _ = df := mul_one df

/-! ### transfer to a price function known up to an error `ε` (truncation + series error of the numerical method) -/

/-- any price function within `ε` of the spec call on a set of strikes has the no-arbitrage shape up to `2ε` there -/
theorem shape_transfer (df : ℝ) (hdf : 0 ≤ df) (c : ℝ → ℝ) (ε : ℝ) (Ks : Set ℝ)
    (h : ∀ K ∈ Ks, |c K - call L df K| ≤ ε) :
    (∀ K ∈ Ks, 0 ≤ K → df * max (fwd L - K) 0 - ε ≤ c K ∧ c K ≤ df * fwd L + ε) ∧
    (∀ K1 ∈ Ks, ∀ K2 ∈ Ks, K1 ≤ K2 → c K2 ≤ c K1 + 2 * ε ∧ c K1 - c K2 ≤ df * (K2 - K1) + 2 * ε) ∧
    (∀ K1 ∈ Ks, ∀ K2 ∈ Ks, ∀ t, 0 ≤ t → t ≤ 1 → t * K1 + (1 - t) * K2 ∈ Ks →
      c (t * K1 + (1 - t) * K2) ≤ t * c K1 + (1 - t) * c K2 + 2 * ε) := by
  refine ⟨fun K hK hK0 => ?_, fun K1 h1 K2 h2 h12 => ?_, fun K1 h1 K2 h2 t ht0 ht1 hm => ?_⟩
  · have := abs_le.mp (h K hK)
    have b := L.call_band df hdf K hK0
    constructor <;> linarith [this.1, this.2, b.1, b.2]
  · have a1 := abs_le.mp (h K1 h1)
    have a2 := abs_le.mp (h K2 h2)
    have s := L.call_spread df hdf h12
    constructor <;> linarith [a1.1, a1.2, a2.1, a2.2, s.1, s.2]
  · have a1 := abs_le.mp (h K1 h1)
    have a2 := abs_le.mp (h K2 h2)
    have am := abs_le.mp (h _ hm)
    have cv := L.call_convex df hdf K1 K2 t ht0 ht1
    have ht1' : 0 ≤ 1 - t := by linarith
    nlinarith [a1.1, a1.2, a2.1, a2.2, am.1, am.2, mul_le_mul_of_nonneg_left a1.2 ht0,
      mul_le_mul_of_nonneg_left a2.2 ht1']

end TLaw
end Rpylib.Pricers.Law
