/-
Helper lemmas for C11, d = 3: the volume as an eight-term sum, additivity under a split of one side,
"3-increasing on the eight closed octants ⇒ 3-increasing" (by splitting at the centre).
-/
import RpylibModel.Proofs.Lemmas.C11Vol

set_option linter.unusedSectionVars false

namespace Rpylib.Copula

section vol3
variable {K : Type} [Field K] [LinearOrder K] [IsStrictOrderedRing K]

/-- the F-volume of `(a1,b1] × (a2,b2] × (a3,b3]` -/
def V3 {T : Type} (F : T → T → T → K) (a1 b1 a2 b2 a3 b3 : T) : K :=
  F b1 b2 b3 - F a1 b2 b3 - F b1 a2 b3 - F b1 b2 a3 + F a1 a2 b3 + F a1 b2 a3 + F b1 a2 a3 - F a1 a2 a3

theorem volume_three {T : Type} (f : List T → K) (a1 a2 a3 b1 b2 b3 : T) :
    volume f [a1, a2, a3] [b1, b2, b3] = V3 (fun u v w => f [u, v, w]) a1 b1 a2 b2 a3 b3 := by
  simp [volume, corners, sumList, V3]; ring

theorem V3_split1 {T : Type} (F : T → T → T → K) (a1 c b1 a2 b2 a3 b3 : T) :
    V3 F a1 b1 a2 b2 a3 b3 = V3 F a1 c a2 b2 a3 b3 + V3 F c b1 a2 b2 a3 b3 := by unfold V3; ring

theorem V3_split2 {T : Type} (F : T → T → T → K) (a1 b1 a2 c b2 a3 b3 : T) :
    V3 F a1 b1 a2 b2 a3 b3 = V3 F a1 b1 a2 c a3 b3 + V3 F a1 b1 c b2 a3 b3 := by unfold V3; ring

theorem V3_split3 {T : Type} (F : T → T → T → K) (a1 b1 a2 b2 a3 c b3 : T) :
    V3 F a1 b1 a2 b2 a3 b3 = V3 F a1 b1 a2 b2 a3 c + V3 F a1 b1 a2 b2 c b3 := by unfold V3; ring

/-- A function that gives non-negative volume to every admissible box lying in one closed octant around `z` gives
    non-negative volume to every admissible box (`P` = admissible, stable under splitting at `z`). -/
theorem three_increasing_of_octants {T : Type} (le : T → T → Prop) (z : T) (hrefl : le z z)
    (htot : ∀ u, le u z ∨ le z u) (F : T → T → T → K) (P : T → T → T → T → T → T → Prop)
    (hP1 : ∀ a1 b1 a2 b2 a3 b3, P a1 b1 a2 b2 a3 b3 → P a1 z a2 b2 a3 b3 ∧ P z b1 a2 b2 a3 b3)
    (hP2 : ∀ a1 b1 a2 b2 a3 b3, P a1 b1 a2 b2 a3 b3 → P a1 b1 a2 z a3 b3 ∧ P a1 b1 z b2 a3 b3)
    (hP3 : ∀ a1 b1 a2 b2 a3 b3, P a1 b1 a2 b2 a3 b3 → P a1 b1 a2 b2 a3 z ∧ P a1 b1 a2 b2 z b3)
    (hq : ∀ a1 b1 a2 b2 a3 b3, P a1 b1 a2 b2 a3 b3 → le a1 b1 → le a2 b2 → le a3 b3 → (le b1 z ∨ le z a1) →
      (le b2 z ∨ le z a2) → (le b3 z ∨ le z a3) → 0 ≤ V3 F a1 b1 a2 b2 a3 b3) :
    ∀ a1 b1 a2 b2 a3 b3, P a1 b1 a2 b2 a3 b3 → le a1 b1 → le a2 b2 → le a3 b3 → 0 ≤ V3 F a1 b1 a2 b2 a3 b3 := by
  -- coordinates 1, 2 one-sided, coordinate 3 arbitrary
  have h2 : ∀ a1 b1 a2 b2 a3 b3, P a1 b1 a2 b2 a3 b3 → le a1 b1 → le a2 b2 → le a3 b3 → (le b1 z ∨ le z a1) →
      (le b2 z ∨ le z a2) → 0 ≤ V3 F a1 b1 a2 b2 a3 b3 := by
    intro a1 b1 a2 b2 a3 b3 hP l1 l2 l3 s1 s2
    rcases htot b3 with hb | hb
    · exact hq _ _ _ _ _ _ hP l1 l2 l3 s1 s2 (Or.inl hb)
    rcases htot a3 with ha | ha
    · rw [V3_split3 F a1 b1 a2 b2 a3 z b3]
      have := hq _ _ _ _ _ _ (hP3 _ _ _ _ _ _ hP).1 l1 l2 ha s1 s2 (Or.inl hrefl)
      have := hq _ _ _ _ _ _ (hP3 _ _ _ _ _ _ hP).2 l1 l2 hb s1 s2 (Or.inr hrefl)
      linarith
    · exact hq _ _ _ _ _ _ hP l1 l2 l3 s1 s2 (Or.inr ha)
  -- coordinate 1 one-sided
  have h1 : ∀ a1 b1 a2 b2 a3 b3, P a1 b1 a2 b2 a3 b3 → le a1 b1 → le a2 b2 → le a3 b3 → (le b1 z ∨ le z a1) →
      0 ≤ V3 F a1 b1 a2 b2 a3 b3 := by
    intro a1 b1 a2 b2 a3 b3 hP l1 l2 l3 s1
    rcases htot b2 with hb | hb
    · exact h2 _ _ _ _ _ _ hP l1 l2 l3 s1 (Or.inl hb)
    rcases htot a2 with ha | ha
    · rw [V3_split2 F a1 b1 a2 z b2 a3 b3]
      have := h2 _ _ _ _ _ _ (hP2 _ _ _ _ _ _ hP).1 l1 ha l3 s1 (Or.inl hrefl)
      have := h2 _ _ _ _ _ _ (hP2 _ _ _ _ _ _ hP).2 l1 hb l3 s1 (Or.inr hrefl)
      linarith
    · exact h2 _ _ _ _ _ _ hP l1 l2 l3 s1 (Or.inr ha)
  intro a1 b1 a2 b2 a3 b3 hP l1 l2 l3
  rcases htot b1 with hb | hb
  · exact h1 _ _ _ _ _ _ hP l1 l2 l3 (Or.inl hb)
  rcases htot a1 with ha | ha
  · rw [V3_split1 F a1 z b1 a2 b2 a3 b3]
    have := h1 _ _ _ _ _ _ (hP1 _ _ _ _ _ _ hP).1 ha l2 l3 (Or.inl hrefl)
    have := h1 _ _ _ _ _ _ (hP1 _ _ _ _ _ _ hP).2 hb l2 l3 (Or.inr hrefl)
    linarith
  · exact h1 _ _ _ _ _ _ hP l1 l2 l3 (Or.inr ha)

end vol3

end Rpylib.Copula
