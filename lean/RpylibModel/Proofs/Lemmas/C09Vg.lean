/-
C09, variance gamma: x^n · density for n ≥ 1 is ±c · x^(n-1) e^{-λ|x|} on each side of 0 (variancegamma.py:85-96, 194-208).
-/
import RpylibModel.Proofs.Lemmas.C09Terms
import Mathlib.MeasureTheory.Measure.Typeclasses.NullSingletonClass
import Mathlib.MeasureTheory.Measure.Lebesgue.Basic

namespace Rpylib.Integrals
open Real MeasureTheory

/-- the VG Lévy density as `_VGLevyMeasure.__call__` computes it -/
noncomputable def vgDensity (c lp lm x : ℝ) : ℝ :=
  if x < 0 then c * exp (-(lm * |x|)) / |x| else if 0 < x then c * exp (-(lp * x)) / x else 0

theorem vg_pointwise_pos (m : ℕ) (c lp lm x : ℝ) (hx : 0 < x) :
    x ^ (m + 1) * vgDensity c lp lm x = c * (x ^ m * exp (-(lp * |x|))) := by
  have h1 : ¬ x < 0 := not_lt.mpr hx.le
  simp only [vgDensity, h1, hx, if_true, if_false, abs_of_pos hx]
  field_simp
  ring

theorem vg_pointwise_neg (m : ℕ) (c lp lm x : ℝ) (hx : x < 0) :
    x ^ (m + 1) * vgDensity c lp lm x = -c * (x ^ m * exp (-(lm * |x|))) := by
  have hne : x ≠ 0 := hx.ne
  simp only [vgDensity, hx, if_true, abs_of_neg hx]
  rw [div_neg, pow_succ]
  field_simp

theorem integral_vg_pos (m : ℕ) (c lp lm a b : ℝ) (ha : 0 ≤ a) (hab : a ≤ b) :
    ∫ x in a..b, x ^ (m + 1) * vgDensity c lp lm x = c * ∫ x in a..b, x ^ m * exp (-(lp * |x|)) := by
  rw [← intervalIntegral.integral_const_mul]
  apply intervalIntegral.integral_congr_ae
  refine Filter.Eventually.of_forall (fun x hx => ?_)
  rw [Set.uIoc_of_le hab] at hx
  exact vg_pointwise_pos m c lp lm x (lt_of_le_of_lt ha hx.1)

theorem integral_vg_neg (m : ℕ) (c lp lm a b : ℝ) (hb : b ≤ 0) (hab : a ≤ b) :
    ∫ x in a..b, x ^ (m + 1) * vgDensity c lp lm x = -c * ∫ x in a..b, x ^ m * exp (-(lm * |x|)) := by
  rw [← intervalIntegral.integral_const_mul]
  apply intervalIntegral.integral_congr_ae
  have hnull : ∀ᵐ x ∂(volume : Measure ℝ), x ∉ ({0} : Set ℝ) := (Set.countable_singleton (0 : ℝ)).ae_notMem volume
  filter_upwards [hnull] with x hx0 hx
  rw [Set.uIoc_of_le hab] at hx
  have hxne : x ≠ 0 := by simpa using hx0
  exact vg_pointwise_neg m c lp lm x (lt_of_le_of_ne (le_trans hx.2 hb) hxne)

theorem intervalIntegrable_vg_neg (m : ℕ) (c lp lm a : ℝ) (ha : a ≤ 0) :
    IntervalIntegrable (fun x => x ^ (m + 1) * vgDensity c lp lm x) volume a 0 := by
  have hc : Continuous fun x : ℝ => -c * (x ^ m * exp (-(lm * |x|))) := by fun_prop
  refine (hc.intervalIntegrable a 0).congr_uIoo ?_
  intro x hx
  rw [Set.uIoo_of_le ha] at hx
  exact (vg_pointwise_neg m c lp lm x hx.2).symm

theorem intervalIntegrable_vg_pos (m : ℕ) (c lp lm b : ℝ) (hb : 0 ≤ b) :
    IntervalIntegrable (fun x => x ^ (m + 1) * vgDensity c lp lm x) volume 0 b := by
  have hc : Continuous fun x : ℝ => c * (x ^ m * exp (-(lp * |x|))) := by fun_prop
  refine (hc.intervalIntegrable 0 b).congr_uIoo ?_
  intro x hx
  rw [Set.uIoo_of_le hb] at hx
  exact (vg_pointwise_pos m c lp lm x hx.1).symm

theorem integral_vg_split (m : ℕ) (c lp lm a b : ℝ) (ha : a ≤ 0) (hb : 0 ≤ b) :
    ∫ x in a..b, x ^ (m + 1) * vgDensity c lp lm x
      = (∫ x in a..0, x ^ (m + 1) * vgDensity c lp lm x) + ∫ x in (0:ℝ)..b, x ^ (m + 1) * vgDensity c lp lm x :=
  (intervalIntegral.integral_add_adjacent_intervals (intervalIntegrable_vg_neg m c lp lm a ha)
    (intervalIntegrable_vg_pos m c lp lm b hb)).symm

end Rpylib.Integrals
