/-
C05 / C06 — the quantities the adaptive loop hands to the criteria at EVERY iteration (not only when it returns):
`ml, vl, cl` as read by `set_mlmc_results` right after the passes (engine.py:237-258) are functions of exactly the samples
simulated so far and of the accumulated cost.  For every scripted process, every history, every iteration reached.
-/
import RpylibModel.Proofs.Lemmas.C05Core

namespace Rpylib.Mlmc

/-- **every iteration**: at every read point of every history the arrays are exactly the samples simulated so far -/
theorem reads_clean (p : Proc) (os : List Oracle) (s : St) (h0 : s.newInit = 0) (h : Inv p s) :
    ∀ r ∈ reads p os s, Clean p r := by
  induction os generalizing s with
  | nil => intro r hr; simp [reads] at hr
  | cons o os ih =>
    intro r hr
    unfold reads at hr
    rcases List.mem_cons.mp hr with rfl | hr
    · exact afterPasses_clean p s h
    · have hi := iter_inv p o s h0 h
      cases hit : iter p o s with
      | cont s' => rw [hit] at hr hi; exact ih s' hi.2 hi.1 r hr
      | ret s' => rw [hit] at hr; simp at hr

/-- all loop-head states of a run satisfy the loop-head invariant -/
theorem heads_inv (p : Proc) (os : List Oracle) (s : St) (h0 : s.newInit = 0) (h : Inv p s) :
    ∀ r ∈ heads p os s, Inv p r ∧ r.newInit = 0 := by
  induction os generalizing s with
  | nil => intro r hr; simp [heads] at hr; subst hr; exact ⟨h, h0⟩
  | cons o os ih =>
    intro r hr
    unfold heads at hr
    rcases List.mem_cons.mp hr with rfl | hr
    · exact ⟨h, h0⟩
    · have hi := iter_inv p o s h0 h
      cases hit : iter p o s with
      | cont s' => rw [hit] at hr hi; exact ih s' hi.2 hi.1 r hr
      | ret s' => rw [hit] at hr; simp at hr

/-! ### accumulated cost -/

/-- `sum_cost[l]` = (cost of one simulation of level l) × (number of samples simulated at level l) -/
def CostOk (p : Proc) (s : St) : Prop := ∀ l, l ≤ s.L → (s.lv l).cost = p.cst l * (s.lv l).N

theorem afterPasses_cost (p : Proc) (s : St) (h : CostOk p s) : CostOk p (afterPasses p s) := by
  intro l hl
  have hl' : l ≤ s.L := hl
  simp only [afterPasses, hl', if_true, passLvl]
  rw [h l hl']; push_cast; ring

theorem loopHead_cost (p : Proc) (s : St) (h : CostOk p s) :
    match loopHead s with
    | .cont s' => CostOk p s'
    | .ret s' => CostOk p s' := by
  unfold loopHead
  by_cases hs : sumDN s > 0
  · rw [if_pos hs]; exact h
  · rw [if_neg hs]; exact h

theorem iter_cost (p : Proc) (o : Oracle) (s : St) (h0 : s.newInit = 0) (h : CostOk p s) :
    match iter p o s with
    | .cont s' => CostOk p s'
    | .ret s' => CostOk p s' := by
  have ha := afterPasses_cost p s h
  have h1 : CostOk p (extendAll (setDN o.Ns (afterPasses p s))) := by
    intro l hl
    have hl' : l ≤ s.L := hl
    have := ha l hl'
    simp only [extendAll, setDN, extendLvl]
    have e : (afterPasses p s).L = s.L := rfl
    simp only [e, hl', if_true]
    exact this
  have h2 : CostOk p (extendAll (setDN o.Ns2 (addLevel (setDN o.Ns (afterPasses p s))))) := by
    intro l hl
    have hl' : l ≤ s.L + 1 := hl
    have eL : (afterPasses p s).L = s.L := rfl
    have eI : (afterPasses p s).newInit = s.newInit := rfl
    simp only [extendAll, setDN, addLevel, extendLvl, eL, eI, hl', if_true]
    by_cases hnew : l = s.L + 1
    · simp [hnew, h0]
    · simp only [hnew, if_false]
      exact ha l (by omega)
  unfold iter
  simp only
  split_ifs
  · exact fun l hl => ha l hl
  · exact loopHead_cost p _ h2
  · exact loopHead_cost p _ h1

theorem reads_cost (p : Proc) (os : List Oracle) (s : St) (h0 : s.newInit = 0) (h : CostOk p s) :
    ∀ r ∈ reads p os s, CostOk p r := by
  induction os generalizing s with
  | nil => intro r hr; simp [reads] at hr
  | cons o os ih =>
    intro r hr
    unfold reads at hr
    rcases List.mem_cons.mp hr with rfl | hr
    · exact afterPasses_cost p s h
    · have hi := iter_cost p o s h0 h
      have hn : ∀ s', iter p o s = .cont s' → s'.newInit = 0 := by
        intro s' hs'
        unfold iter loopHead at hs'
        simp only at hs'
        split_ifs at hs' <;> (injection hs' with hs'; subst hs'; exact h0)
      cases hit : iter p o s with
      | cont s' => rw [hit] at hr hi; exact ih s' (hn s' hit) hi r hr
      | ret s' => rw [hit] at hr; simp at hr

/-! ### the fed quantities are functions of the simulated samples -/

/-- correction term of the k-th sample of level l -/
def dpS (p : Proc) (l k : Nat) : Rat := (p.sample l k).fine - (p.sample l k).coarse

/-- `ml, vl` of a level from its N simulated samples, and `cl` from the cost of one simulation -/
def mlIdeal (p : Proc) (l N : Nat) : Rat := rabs (listSum ((List.range N).map (dpS p l)) / N)
def vlIdeal (p : Proc) (l N : Nat) : Rat :=
  max 0 (listSum ((List.range N).map (fun k => dpS p l k * dpS p l k)) / N
    - listSum ((List.range N).map (dpS p l)) / N * (listSum ((List.range N).map (dpS p l)) / N))

theorem clean_ml (p : Proc) (l : Nat) (lv : Lvl) (h : LvlClean p l lv) : mlOf lv = mlIdeal p l lv.N := by
  unfold mlOf dpMean mlIdeal
  rw [clean_mean p l lv h]; rfl

theorem clean_vl (p : Proc) (l : Nat) (lv : Lvl) (h : LvlClean p l lv) : vlOf lv = vlIdeal p l lv.N := by
  unfold vlOf dpSecond dpMean vlIdeal
  rw [clean_mean p l lv h, clean_mean p l lv h]; rfl

/-- `cl` = cost of one simulation of the level (for a level that has samples) -/
theorem cost_cl (p : Proc) (l : Nat) (lv : Lvl) (hc : lv.cost = p.cst l * lv.N) (hN : 0 < lv.N) : clOf lv = p.cst l := by
  unfold clOf
  rw [hc]
  have : (lv.N : Rat) ≠ 0 := by exact_mod_cast hN.ne'
  rw [mul_div_assoc, div_self this, mul_one]

/-- **what `compute_mc_paths` / `criteria` receive at a read point is computed from exactly the simulated samples**:
    the vectors `ml`, `vl` (after the work-around) are the work-around applied to the sample moments of the `N_l` samples
    of each level, `cl` is the per-simulation cost of each level that has samples. -/
theorem feeds_from_samples (p : Proc) (qa qb : Rat) (s : St) (h : Clean p s) (hc : CostOk p s) :
    mlFed qa s.L s.lv = fix3 qa ((List.range (s.L + 1)).map (fun l => mlIdeal p l (s.lv l).N)) ∧
    vlFed qb s.L s.lv = fix3 qb ((List.range (s.L + 1)).map (fun l => vlIdeal p l (s.lv l).N)) ∧
    (∀ l, l ≤ s.L → 0 < (s.lv l).N → (clFed s.L s.lv)[l]? = some (p.cst l)) := by
  refine ⟨?_, ?_, ?_⟩
  · unfold mlFed levelsOf
    rw [List.map_map]
    congr 1
    apply List.map_congr_left
    intro l hl
    exact clean_ml p l _ (h l (by have := List.mem_range.mp hl; omega))
  · unfold vlFed levelsOf
    rw [List.map_map]
    congr 1
    apply List.map_congr_left
    intro l hl
    exact clean_vl p l _ (h l (by have := List.mem_range.mp hl; omega))
  · intro l hl hN
    unfold clFed levelsOf
    have hl' : l < s.L + 1 := by omega
    simp [hl', cost_cl p l _ (hc l hl) hN]

/-- **every iteration of every run of `Engine.price`**: the arrays read are exactly the samples simulated so far, the
    accumulated cost is the per-simulation cost times their number, hence the fed vectors are those of `feeds_from_samples` -/
theorem price_reads_clean (p : Proc) (L0 N0 levelMax : Nat) (os : List Oracle) :
    ∀ r ∈ reads p os (init L0 N0 levelMax 0), Clean p r ∧ CostOk p r := by
  intro r hr
  refine ⟨reads_clean p os _ rfl (init_inv p L0 N0 levelMax 0) r hr, reads_cost p os _ rfl ?_ r hr⟩
  intro l _; simp [init]

/-! ### non-vacuity -/
example : (reads demoProc demoHist (init 1 2 5 0)).length = 2 ∧
    vlFed 4 1 (afterPasses demoProc (init 1 2 5 0)).lv = [1 / 4194304, 1 / 16777216] := by
  constructor <;> decide +kernel

end Rpylib.Mlmc
