/-
Helper lemmas for C01, n-d part: monotone sequences, sub-intervals of one-sided intervals, the three index ranges
(centre, left, right) of one axis, non-vanishing of cell boundaries.
-/
import RpylibModel.Proofs.Lemmas.C01Basic

set_option linter.dupNamespace false
set_option linter.unusedSectionVars false
set_option linter.unusedVariables false

namespace Rpylib.Cells
open Rpylib.Grid Finset

theorem away_sub {a c a' c' : ℚ} (h : Away a c) (ha : a ≤ a') (hc : c' ≤ c) : Away a' c' := by
  rcases h with h | h
  · exact Or.inl (lt_of_le_of_lt hc h)
  · exact Or.inr (lt_of_lt_of_le h ha)

/-- a sequence that is weakly increasing step by step on `[p, q]` is weakly increasing there -/
theorem mono_of_step (f : ℕ → ℚ) (p q : ℕ) (hstep : ∀ i, p ≤ i → i < q → f i ≤ f (i + 1)) (i : ℕ) :
    ∀ j, p ≤ i → i ≤ j → j ≤ q → f i ≤ f j := by
  intro j
  induction j with
  | zero => intro _ h _; have : i = 0 := by omega
            subst this; exact le_refl _
  | succ j ih =>
    intro hp hij hj
    rcases Nat.lt_or_ge i (j + 1) with h1 | h1
    · exact le_trans (ih hp (by omega) (by omega)) (hstep j (by omega) (by omega))
    · have : i = j + 1 := by omega
      subst this; exact le_refl _

/-- centre, left, right: the order in which the code enumerates the three pieces of an axis -/
theorem sum_range_three (F : ℕ → ℚ) (o n : ℕ) (ho : o < n) :
    ∑ k ∈ range n, F k = ∑ k ∈ Ico o (o + 1), F k + ∑ k ∈ Ico 0 o, F k + ∑ k ∈ Ico (o + 1) n, F k := by
  rw [sum_range_split F o n ho, Nat.Ico_succ_singleton, sum_singleton]; ring

/-! ### lists -/

theorem sum_map_flatMap {α β : Type} (l : List α) (g : α → List β) (F : β → ℚ) :
    ((l.flatMap g).map F).sum = (l.map (fun x => ((g x).map F).sum)).sum := by
  induction l with
  | nil => simp
  | cons x t ih => simp [List.flatMap_cons, List.map_append, List.sum_append, ih]

theorem cartesian_two {α : Type} (l1 l2 : List α) :
    cartesian [l1, l2] = l1.flatMap (fun i => l2.map (fun j => [i, j])) := by
  simp [cartesian, List.map_flatMap]
  congr 1; funext x; rw [List.map_eq_flatMap]

theorem cartesian_three {α : Type} (l1 l2 l3 : List α) :
    cartesian [l1, l2, l3] = l1.flatMap (fun i => l2.flatMap (fun j => l3.map (fun k => [i, j, k]))) := by
  simp [cartesian, List.map_flatMap]
  congr 1; funext x; congr 1; funext y; rw [List.map_eq_flatMap]

section axis
variable (mid : ℚ → ℚ → ℚ) (hm : Between mid) (hi : MidIdem mid) (ax : List ℚ) (o : ℕ) (hax : AxisOK ax o)
include hm hi hax

theorem bnd_ne_zero (k : ℕ) (hk : k ≤ ax.length) : bnd mid ax.length ax k ≠ 0 := by
  have hon : o < ax.length := by have := hax.hi; omega
  rcases Nat.lt_or_ge o k with h | h
  · exact ne_of_gt (bnd_pos mid hm hi ax hax.inc o hax.hi hax.zero k h hk)
  · exact ne_of_lt (bnd_neg mid hm hi ax hax.inc o hax.lo hon hax.zero k h)

/-- an index range `[p, q)` that does not contain the origin's index spans an interval strictly on one side of 0 -/
theorem range_away (p q : ℕ) (hq : q ≤ ax.length) (hex : ¬(p ≤ o ∧ o < q)) :
    Away (bnd mid ax.length ax p) (bnd mid ax.length ax q) := by
  have hon : o < ax.length := by have := hax.hi; omega
  rcases Nat.lt_or_ge o p with h | h
  · right
    rcases Nat.lt_or_ge ax.length p with h' | h'
    · -- p beyond the axis: `bnd` is constant there
      have : bnd mid ax.length ax p = bnd mid ax.length ax ax.length := by
        unfold bnd; rw [if_neg (by omega), if_neg (by omega)]
      rw [this]; exact bnd_pos mid hm hi ax hax.inc o hax.hi hax.zero _ (by omega) (le_refl _)
    · exact bnd_pos mid hm hi ax hax.inc o hax.hi hax.zero p h h'
  · left; exact bnd_neg mid hm hi ax hax.inc o hax.lo hon hax.zero q (by omega)

end axis

end Rpylib.Cells
