/-
Helper lemmas for C11: independent and completely dependent copulas (d = 2): closed forms on finite arguments,
2-increasing by min/max case analysis.
-/
import RpylibModel.Proofs.Lemmas.C11Theta1

set_option linter.unusedSectionVars false

namespace Rpylib.Copula

/-- the dependent copula on finite arguments, d = 2 -/
def depq (u v : Rat) : Rat :=
  if 0 < u then (if 0 < v then min u v else 0) else if u < 0 then (if v < 0 then -(max u v) else 0) else 0

theorem dep_fin_two (u v : Rat) : dep [.fin u, .fin v] = .fin (depq u v) := by
  unfold dep depq
  by_cases hu : 0 < u <;> by_cases hv : 0 < v <;> by_cases hu' : u < 0 <;> by_cases hv' : v < 0 <;>
    simp [Ext.isPos, Ext.isNeg, extMin, extMax, Ext.min, Ext.max, Ext.le, Ext.toEVal, EVal.neg, hu, hv, hu', hv',
      min_def, max_def] <;>
    first
      | (split_ifs <;> first | rfl | (exfalso; linarith))
      | (exfalso; linarith)
      | skip

theorem depq_two_increasing (a1 b1 a2 b2 : Rat) (h1 : a1 ≤ b1) (h2 : a2 ≤ b2) :
    0 ≤ depq b1 b2 + depq a1 a2 - depq a1 b2 - depq b1 a2 := by
  unfold depq
  simp only [min_def, max_def]
  split_ifs <;> linarith

/-! ### independent copula, d = 2 -/

/-- corners at which the coded independent copula differs from Kallsen–Tankov (4.2): all entries infinite and
    at least d−1 = 1 of them +∞ -/
def indepBad (a1 b1 a2 b2 : Ext Rat) : Prop :=
  (b1 = .posInf ∧ b2 = .posInf) ∨ (a1 = .negInf ∧ b2 = .posInf) ∨ (b1 = .posInf ∧ a2 = .negInf)

theorem indep_two_increasing_aux (a1 b1 a2 b2 : Ext Rat) (l1 : Ext.LE a1 b1) (l2 : Ext.LE a2 b2)
    (n1 : a1 ≠ .posInf) (n2 : a2 ≠ .posInf) (hb : ¬ indepBad a1 b1 a2 b2) :
    EVal.Nonneg (volume indep [a1, a2] [b1, b2]) := by
  unfold indepBad at hb
  rcases a1 with _ | a1 | _ <;> rcases b1 with _ | b1 | _ <;> rcases a2 with _ | a2 | _ <;>
    rcases b2 with _ | b2 | _ <;>
    simp [volume, corners, sumList, indep, indepTerms, allPosInfExcept, Ext.isPosInf, EVal.Nonneg, Ext.LE] at * <;>
    linarith

end Rpylib.Copula
