/-
Helper lemmas for C12: the general recursion `massGo` / `massNd` (`_mass_nd`) in EVERY dimension.

* `volume_cons`: the signed corner sum peels off one coordinate;  `volume_split`: it is additive in every coordinate.
* `massGo_done_split`: additivity in a coordinate already scanned (pure algebra, no order condition);
  `massGo_done_degenerate`: an empty side gives mass 0.
* `massGo_rest_split`: additivity in a coordinate still to be scanned, split point `c ≠ z` (induction on the list of
  coordinates: every straddling coordinate before it contributes three recursive calls).
* `massGo_rest_whole`: a coordinate ranging over the whole line `(ni, pi]` can be erased.
* `zip3_at`: position `k` of `zip3 I a b` and what `List.set` / `List.eraseIdx` do to it.
-/
import RpylibModel.Model.CopulaMass
import Mathlib.Tactic.Ring
import Mathlib.Order.Defs.LinearOrder
import Mathlib.Order.Basic

set_option linter.unusedSimpArgs false
set_option linter.unusedSectionVars false

namespace Rpylib.CopulaMass
open Rpylib.Copula

/-! ### the signed corner sum -/

section volume
variable {X : Type} {R : Type} [CommRing R]

theorem sumList_append (l1 l2 : List R) : sumList (l1 ++ l2) = sumList l1 + sumList l2 := by
  induction l1 with
  | nil => simp [sumList]
  | cons x xs ih => simp [sumList, ih, add_assoc]

theorem sumList_map_neg {α : Type} (cs : List α) (g h : α → R) (H : ∀ c ∈ cs, g c = -h c) :
    sumList (cs.map g) = -sumList (cs.map h) := by
  induction cs with
  | nil => simp [sumList]
  | cons c cs ih =>
    simp only [List.map_cons, sumList]
    rw [ih (fun c' hc' => H c' (List.mem_cons_of_mem _ hc')), H c (List.mem_cons_self ..)]
    ring

theorem corners_fst_le (a b : List X) : ∀ kc ∈ corners a b, kc.1 ≤ a.length := by
  induction a generalizing b with
  | nil => intro kc h; simp [corners] at h; simp [h]
  | cons x xs ih =>
    cases b with
    | nil => intro kc h; simp [corners] at h; simp [h]
    | cons y ys =>
      intro kc h
      simp only [corners, List.mem_append, List.mem_map] at h
      rcases h with ⟨kc', h', rfl⟩ | ⟨kc', h', rfl⟩
      · have := ih ys kc' h'; simp only [List.length_cons]; omega
      · have := ih ys kc' h'; simp only [List.length_cons]; omega

/-- `volume` peels off the first coordinate: upper end minus lower end -/
theorem volume_cons (f : List X → R) (x y : X) (xs ys : List X) :
    volume f (x :: xs) (y :: ys) = volume (fun t => f (y :: t)) xs ys - volume (fun t => f (x :: t)) xs ys := by
  unfold volume
  simp only [corners, List.map_append, List.map_map, sumList_append, List.length_cons]
  have e1 : sumList ((corners xs ys).map
        ((fun kc : Nat × List X => if (xs.length + 1 - kc.1) % 2 = 1 then -(f kc.2) else f kc.2) ∘
          (fun kc => (kc.1, x :: kc.2)))) =
      -sumList ((corners xs ys).map
        (fun kc : Nat × List X => if (xs.length - kc.1) % 2 = 1 then -(f (x :: kc.2)) else f (x :: kc.2))) := by
    apply sumList_map_neg
    intro kc hkc
    have hle := corners_fst_le xs ys kc hkc
    simp only [Function.comp]
    have hpar : (xs.length + 1 - kc.1) % 2 = 1 ↔ ¬ (xs.length - kc.1) % 2 = 1 := by omega
    by_cases hp : (xs.length - kc.1) % 2 = 1
    · rw [if_neg (by rw [hpar]; exact not_not.mpr hp), if_pos hp]; ring
    · rw [if_pos (hpar.mpr hp), if_neg hp]
  have e2 : sumList ((corners xs ys).map
        ((fun kc : Nat × List X => if (xs.length + 1 - kc.1) % 2 = 1 then -(f kc.2) else f kc.2) ∘
          (fun kc => (kc.1 + 1, y :: kc.2)))) =
      sumList ((corners xs ys).map
        (fun kc : Nat × List X => if (xs.length - kc.1) % 2 = 1 then -(f (y :: kc.2)) else f (y :: kc.2))) := by
    congr 1
    apply List.map_congr_left
    intro kc _
    simp only [Function.comp, Nat.add_sub_add_right]
  rw [e1, e2]; ring

theorem volume_nil (f : List X → R) : volume f [] [] = f [] := by
  simp [volume, corners, sumList]

/-- the corner sum is additive in every coordinate (telescoping), whatever the split point -/
theorem volume_split (f : List X → R) (d1 d2 : List (Nat × X × X)) (i : Nat) (a c b : X) :
    volume f ((d1 ++ (i, a, b) :: d2).map (·.2.1)) ((d1 ++ (i, a, b) :: d2).map (·.2.2)) =
      volume f ((d1 ++ (i, a, c) :: d2).map (·.2.1)) ((d1 ++ (i, a, c) :: d2).map (·.2.2)) +
        volume f ((d1 ++ (i, c, b) :: d2).map (·.2.1)) ((d1 ++ (i, c, b) :: d2).map (·.2.2)) := by
  induction d1 generalizing f with
  | nil => simp only [List.nil_append, List.map_cons, volume_cons]; ring
  | cons p d1 ih =>
    simp only [List.cons_append, List.map_cons, volume_cons]
    rw [ih, ih]; ring

end volume

/-! ### the recursion -/

section go
variable {X : Type} [LinearOrder X] {R : Type} [CommRing R]

theorem straddle_iff (z a b : X) : straddle z a b = true ↔ a < z ∧ z < b := by simp [straddle]

/-- a split point on the positive side: the right piece does not straddle, the left piece straddles iff the whole does -/
theorem straddle_split_pos (z a b c : X) (hzc : z < c) (hcb : c < b) :
    straddle z c b = false ∧ straddle z a b = straddle z a c := by
  have : z < b := lt_trans hzc hcb
  simp [straddle, hzc, this, not_lt_of_gt hzc]

theorem straddle_split_neg (z a b c : X) (hac : a < c) (hcz : c < z) :
    straddle z a c = false ∧ straddle z a b = straddle z c b := by
  have : a < z := lt_trans hac hcz
  simp [straddle, hcz, this, not_lt_of_gt hcz]

theorem straddle_whole (z ni pi : X) (hni : ni < z) (hpi : z < pi) : straddle z ni pi = true := by
  simp [straddle, hni, hpi]

theorem signedVolume_split (U : Tail X R) (d1 d2 : List (Nat × X × X)) (i : Nat) (a c b : X) :
    signedVolume U ((d1 ++ (i, a, b) :: d2).map (·.1)) ((d1 ++ (i, a, b) :: d2).map (·.2.1))
        ((d1 ++ (i, a, b) :: d2).map (·.2.2)) =
      signedVolume U ((d1 ++ (i, a, c) :: d2).map (·.1)) ((d1 ++ (i, a, c) :: d2).map (·.2.1))
          ((d1 ++ (i, a, c) :: d2).map (·.2.2)) +
        signedVolume U ((d1 ++ (i, c, b) :: d2).map (·.1)) ((d1 ++ (i, c, b) :: d2).map (·.2.1))
          ((d1 ++ (i, c, b) :: d2).map (·.2.2)) := by
  have eI : ∀ x y : X, (d1 ++ (i, x, y) :: d2).map (·.1) = (d1 ++ (i, a, b) :: d2).map (·.1) := by
    intro x y; simp
  have eL : ∀ x y : X, ((d1 ++ (i, x, y) :: d2).map (·.2.1)).length = ((d1 ++ (i, a, b) :: d2).map (·.2.1)).length := by
    intro x y; simp
  unfold signedVolume
  rw [eI a c, eI c b, eL a c, eL c b, volume_split (U ((d1 ++ (i, a, b) :: d2).map (·.1))) d1 d2 i a c b]
  split_ifs <;> ring

/-- additivity in a coordinate that has already been scanned: no condition on the split point -/
theorem massGo_done_split (U : Tail X R) (z ni pi : X) (rest : List (Nat × X × X)) :
    ∀ (d1 d2 : List (Nat × X × X)) (i : Nat) (a c b : X),
      massGo U z ni pi (d1 ++ (i, a, b) :: d2) rest =
        massGo U z ni pi (d1 ++ (i, a, c) :: d2) rest + massGo U z ni pi (d1 ++ (i, c, b) :: d2) rest := by
  induction rest with
  | nil => intro d1 d2 i a c b; simp only [massGo]; exact signedVolume_split U d1 d2 i a c b
  | cons p rest ih =>
    intro d1 d2 i a c b
    obtain ⟨j, a', b'⟩ := p
    have assoc : ∀ (x y : X) (q : Nat × X × X),
        (d1 ++ (i, x, y) :: d2) ++ [q] = d1 ++ (i, x, y) :: (d2 ++ [q]) := by intro x y q; simp
    simp only [massGo]
    split_ifs
    · rw [assoc, assoc, assoc, assoc, assoc, assoc, ih d1 d2 i a c b, ih d1 (d2 ++ [(j, b', pi)]) i a c b,
        ih d1 (d2 ++ [(j, ni, a')]) i a c b]
      ring
    · rw [assoc, assoc, assoc, ih d1 (d2 ++ [(j, a', b')]) i a c b]

/-- an empty side `(a, a]` among the scanned coordinates: the mass is 0 -/
theorem massGo_done_degenerate (U : Tail X R) (z ni pi : X) (rest d1 d2 : List (Nat × X × X)) (i : Nat) (a : X) :
    massGo U z ni pi (d1 ++ (i, a, a) :: d2) rest = 0 := by
  have h := massGo_done_split U z ni pi rest d1 d2 i a a a
  exact add_eq_left.mp h.symm

/-- additivity in a coordinate still to be scanned, split point different from the centre -/
theorem massGo_rest_split (U : Tail X R) (z ni pi : X) (pre : List (Nat × X × X)) :
    ∀ (done post : List (Nat × X × X)) (i : Nat) (a c b : X), a < c → c < b → c ≠ z →
      massGo U z ni pi done (pre ++ (i, a, b) :: post) =
        massGo U z ni pi done (pre ++ (i, a, c) :: post) + massGo U z ni pi done (pre ++ (i, c, b) :: post) := by
  induction pre with
  | nil =>
    intro done post i a c b hac hcb hc
    simp only [List.nil_append, massGo]
    rcases lt_or_gt_of_ne hc with hcz | hzc
    · obtain ⟨e1, e2⟩ := straddle_split_neg z a b c hac hcz
      rw [e1, e2]
      rcases h : straddle z c b
      · simp only [Bool.false_eq_true, if_false]
        exact massGo_done_split U z ni pi post done [] i a c b
      · simp only [if_true, Bool.false_eq_true, if_false]
        rw [massGo_done_split U z ni pi post done [] i ni a c]; ring
    · obtain ⟨e1, e2⟩ := straddle_split_pos z a b c hzc hcb
      rw [e1, e2]
      rcases h : straddle z a c
      · simp only [Bool.false_eq_true, if_false]
        exact massGo_done_split U z ni pi post done [] i a c b
      · simp only [if_true, Bool.false_eq_true, if_false]
        rw [massGo_done_split U z ni pi post done [] i c b pi]; ring
  | cons p pre ih =>
    intro done post i a c b hac hcb hc
    obtain ⟨j, a', b'⟩ := p
    simp only [List.cons_append, massGo]
    split_ifs
    · rw [ih done post i a c b hac hcb hc, ih (done ++ [(j, b', pi)]) post i a c b hac hcb hc,
        ih (done ++ [(j, ni, a')]) post i a c b hac hcb hc]
      ring
    · rw [ih (done ++ [(j, a', b')]) post i a c b hac hcb hc]

/-- a coordinate ranging over the whole line is erased (the two unbounded pieces are empty sides) -/
theorem massGo_rest_whole (U : Tail X R) (z ni pi : X) (hni : ni < z) (hpi : z < pi) (pre : List (Nat × X × X)) :
    ∀ (done post : List (Nat × X × X)) (i : Nat),
      massGo U z ni pi done (pre ++ (i, ni, pi) :: post) = massGo U z ni pi done (pre ++ post) := by
  induction pre with
  | nil =>
    intro done post i
    simp only [List.nil_append, massGo, straddle_whole z ni pi hni hpi, if_true]
    rw [massGo_done_degenerate U z ni pi post done [] i pi, massGo_done_degenerate U z ni pi post done [] i ni]
    ring
  | cons p pre ih =>
    intro done post i
    obtain ⟨j, a', b'⟩ := p
    simp only [List.cons_append, massGo]
    split_ifs
    · rw [ih, ih, ih]
    · rw [ih]

end go

/-! ### positions of `zip3` -/

section zip
variable {X : Type}

/-- position `k` of `zip3 I a b`, and the effect of `List.set` / `List.eraseIdx` at that position -/
theorem zip3_at (k : Nat) : ∀ (I : List Nat) (a b : List X) (i : Nat) (ak bk : X),
    I[k]? = some i → a[k]? = some ak → b[k]? = some bk →
    ∃ pre post : List (Nat × X × X),
      zip3 I a b = pre ++ (i, ak, bk) :: post ∧
      (∀ a' b' : X, zip3 I (a.set k a') (b.set k b') = pre ++ (i, a', b') :: post) ∧
      zip3 (I.eraseIdx k) (a.eraseIdx k) (b.eraseIdx k) = pre ++ post := by
  induction k with
  | zero =>
    intro I a b i ak bk hI ha hb
    rcases I with _ | ⟨i0, I⟩ <;> rcases a with _ | ⟨a0, a⟩ <;> rcases b with _ | ⟨b0, b⟩ <;> simp at hI ha hb
    subst hI ha hb
    exact ⟨[], zip3 I a b, by simp [zip3], by intro a' b'; simp [zip3], by simp⟩
  | succ k ih =>
    intro I a b i ak bk hI ha hb
    rcases I with _ | ⟨i0, I⟩ <;> rcases a with _ | ⟨a0, a⟩ <;> rcases b with _ | ⟨b0, b⟩ <;> simp at hI ha hb
    obtain ⟨pre, post, h1, h2, h3⟩ := ih I a b i ak bk hI ha hb
    refine ⟨(i0, a0, b0) :: pre, post, by simp [zip3, h1], ?_, by simp [zip3, h3]⟩
    intro a' b'; simp [zip3, h2]

theorem set_self_of_getElem? (l : List X) (k : Nat) (x : X) (h : l[k]? = some x) : l.set k x = l := by
  induction l generalizing k with
  | nil => simp
  | cons y ys ih =>
    cases k with
    | zero => simp at h; simp [h]
    | succ k => simp at h; simp [ih k h]

end zip

end Rpylib.CopulaMass
