/-
C10: the cumulant generating exponent s ↦ a s + σ² s²/2 + ∫ (e^{s x} − 1) ν(dx) (the Lévy–Khintchine integral in the ZERO
representation, which is the one HEM / Merton / Black–Scholes declare) and ALL its derivatives, for HEM (on the strip
−η₂ < s < η₁) and Merton (every s).  The first two derivatives of the jump part at 0 are also identified with the first two
moments ∫ x ν(dx), ∫ x² ν(dx) of the density (C09's integrals).
-/
import RpylibModel.Proofs.Lemmas.C10HemExp
import RpylibModel.Proofs.Lemmas.C10HemDeriv
import RpylibModel.Proofs.Lemmas.C10MertonExp
import RpylibModel.Proofs.Lemmas.C10MertonDeriv
import RpylibModel.Proofs.Lemmas.C09ExtFam
import RpylibModel.Proofs.Lemmas.C09MertonInf

namespace Rpylib.Triplet
open Real MeasureTheory Set Filter Topology Rpylib.Integrals

/-! ### HEM -/

/-- Lévy–Khintchine cumulant generating exponent of the triplet (a, σ, ν_HEM, ZERO) -/
noncomputable def hemCgfLK (a sigma lam p eta1 eta2 : ℝ) (s : ℝ) : ℝ :=
  a * s + sigma ^ 2 * s ^ 2 / 2 + ∫ x, (exp (s * x) - 1) * hemDensity lam p eta1 eta2 x

theorem hemKappaD_zero (lam p eta1 eta2 s : ℝ) : hemKappaD lam p eta1 eta2 0 s = hemKappaR lam p eta1 eta2 s := by
  unfold hemKappaD hemKappaR
  simp only [Nat.factorial_zero, Nat.cast_one, mul_one, zero_add, pow_one, pow_zero, one_mul, if_true]
  ring

/-- every derivative of the HEM cumulant generating exponent, everywhere on the strip -/
theorem hem_cgf_iteratedDeriv (a sigma lam p eta1 eta2 : ℝ) (h1 : 0 < eta1) (h2 : 0 < eta2) (n : ℕ) (s : ℝ)
    (hs : s ∈ Ioo (-eta2) eta1) :
    iteratedDeriv n (hemCgfLK a sigma lam p eta1 eta2) s = polyD a sigma n s + hemKappaD lam p eta1 eta2 n s := by
  refine iteratedDeriv_of_chain isOpen_Ioo (fun k v => polyD a sigma k v + hemKappaD lam p eta1 eta2 k v) ?_
    (hemCgfLK a sigma lam p eta1 eta2) ?_ n s hs
  · intro k v hv
    have hv1 : eta1 - v ≠ 0 := by have := hv.2; intro h; linarith
    have hv2 : eta2 + v ≠ 0 := by have := hv.1; intro h; linarith
    exact (hasDerivAt_polyD a sigma k v).add (hasDerivAt_hemKappaD lam p eta1 eta2 k v hv1 hv2)
  · intro v hv
    simp only [hemCgfLK, hem_LK_integral_real lam p eta1 eta2 v h1 h2 ⟨hv.1, hv.2⟩, hemKappaD_zero, polyD]

theorem zero_mem_strip (eta1 eta2 : ℝ) (h1 : 0 < eta1) (h2 : 0 < eta2) : (0 : ℝ) ∈ Ioo (-eta2) eta1 :=
  ⟨by linarith, h1⟩

/-- first and second moments of the HEM density over the whole line (C09's improper integrals) -/
theorem integral_hem_moment (k : ℕ) (hk : k ≤ 2) (lam p eta1 eta2 : ℝ) (h1 : 0 < eta1) (h2 : 0 < eta2) :
    ∫ x, x ^ k * hemDensity lam p eta1 eta2 x = -Phi k (lam * (1 - p)) (-eta2) 0 + -Phi k (lam * p) eta1 0 := by
  rw [← intervalIntegral.integral_Iic_add_Ioi (integrableOn_Iic_hem k lam p eta1 eta2 h2)
      (integrableOn_Ioi_hem k lam p eta1 eta2 h1),
    integral_Iic_hem' k hk lam p eta1 eta2 h2 0 le_rfl, integral_Ioi_hem' k hk lam p eta1 eta2 h1 0 le_rfl]

/-- the first / second derivative at 0 of the jump exponent is the first / second moment of the density -/
theorem hem_moment_eq_deriv (k : ℕ) (hk1 : 1 ≤ k) (hk : k ≤ 2) (lam p eta1 eta2 : ℝ) (h1 : 0 < eta1) (h2 : 0 < eta2) :
    ∫ x, x ^ k * hemDensity lam p eta1 eta2 x = hemKappaD lam p eta1 eta2 k 0 := by
  rw [integral_hem_moment k hk lam p eta1 eta2 h1 h2]
  have e1 := h1.ne'
  have e2 := h2.ne'
  interval_cases k
  · simp only [Phi, q, hemKappaD]; norm_num; field_simp; ring
  · simp only [Phi, q, hemKappaD]; norm_num [Nat.factorial]; field_simp; ring

/-! ### Merton -/

noncomputable def mertonCgfLK (a sigma lam mu sigmaJ : ℝ) (s : ℝ) : ℝ :=
  a * s + sigma ^ 2 * s ^ 2 / 2 + ∫ x, (exp (s * x) - 1) * mertonDensity lam mu sigmaJ x

theorem mertonKappaD_zero (lam mu sigmaJ s : ℝ) : mertonKappaD lam mu sigmaJ 0 s = mertonKappaR lam mu sigmaJ s := by
  unfold mertonKappaD mertonKappaR
  simp only [mertonP, Polynomial.eval_one, one_mul, if_true]

/-- every derivative of the Merton cumulant generating exponent, at every real s -/
theorem merton_cgf_iteratedDeriv (a sigma lam mu sigmaJ : ℝ) (hs : 0 < sigmaJ) (n : ℕ) (s : ℝ) :
    iteratedDeriv n (mertonCgfLK a sigma lam mu sigmaJ) s = polyD a sigma n s + mertonKappaD lam mu sigmaJ n s := by
  refine iteratedDeriv_of_chain isOpen_univ (fun k v => polyD a sigma k v + mertonKappaD lam mu sigmaJ k v) ?_
    (mertonCgfLK a sigma lam mu sigmaJ) ?_ n s (mem_univ s)
  · intro k v _
    exact (hasDerivAt_polyD a sigma k v).add (hasDerivAt_mertonKappaD lam mu sigmaJ k v)
  · intro v _
    simp only [mertonCgfLK, merton_LK_integral_real lam mu sigmaJ v hs, mertonKappaD_zero, polyD]

theorem mertonKappaD_at_zero (lam mu sigmaJ : ℝ) (n : ℕ) (hn : n ≠ 0) :
    mertonKappaD lam mu sigmaJ n 0 = lam * (mertonP mu (sigmaJ ^ 2) n).eval 0 := by
  unfold mertonKappaD
  simp [hn]

/-- first and second moments of the Merton density over the whole line (C09, under its erf hypotheses) equal the first
    two derivatives of the jump exponent at 0 -/
theorem merton_moment_eq_deriv (erf : ℝ → ℝ) (herf : ∀ x, HasDerivAt erf (2 / √π * exp (-x ^ 2)) x)
    (hp : Tendsto erf atTop (𝓝 1)) (hm : Tendsto erf atBot (𝓝 (-1)))
    (k : ℕ) (hk1 : 1 ≤ k) (hk : k ≤ 2) (lam mu sigmaJ : ℝ) (hs : 0 < sigmaJ) :
    ∫ x, x ^ k * mertonDensity lam mu sigmaJ x = mertonKappaD lam mu sigmaJ k 0 := by
  rw [integral_univ_merton erf herf hp hm k hk lam mu sigmaJ hs]
  interval_cases k
  · rw [mertonKappaD_at_zero _ _ _ _ (by norm_num), mertonP_one]; simp only [mertonFInf]; ring
  · rw [mertonKappaD_at_zero _ _ _ _ (by norm_num), mertonP_two]; simp only [mertonFInf]; ring

end Rpylib.Triplet
