/-
C05 — Multilevel estimator = sum of per-level means over exactly the simulated samples.
Core invariant of RpylibModel/Model/Mlmc.lean (payoff arrays and counters) and its consequences for the reported numbers.
All theorems are for every scripted process `p`, every oracle history and every initial configuration.
(Imported by Proofs/C05.lean; the control-variate path is in Lemmas/C05Cv.lean, the per-iteration and monotonicity
statements in Lemmas/C05Iter.lean.)
-/
import RpylibModel.Model.Mlmc
import Mathlib.Tactic.Linarith
import Mathlib.Tactic.Ring
import Mathlib.Algebra.Order.Field.Rat

namespace Rpylib.Mlmc

/-- rows 0 … N−1 hold the samples simulated at level l, in simulation order -/
def samplesOf (p : Proc) (l N : Nat) : List Row := (List.range N).map (fun k => some (p.sample l k))

/-- loop-head invariant of one level: the N simulated samples, in order, followed by exactly dN pads;
    and the process has simulated exactly N samples -/
def LvlInv (p : Proc) (l : Nat) (lv : Lvl) : Prop :=
  lv.rows = samplesOf p l lv.N ++ List.replicate lv.dN none ∧ lv.sim = lv.N

/-- what must hold whenever results are read: the array is exactly the simulated samples — no placeholder,
    nothing dropped, duplicated or overwritten -/
def LvlClean (p : Proc) (l : Nat) (lv : Lvl) : Prop :=
  lv.rows = samplesOf p l lv.N ∧ lv.sim = lv.N

def Inv (p : Proc) (s : St) : Prop := ∀ l, l ≤ s.L → LvlInv p l (s.lv l)
def Clean (p : Proc) (s : St) : Prop := ∀ l, l ≤ s.L → LvlClean p l (s.lv l)

/-! ### helper lemmas -/

theorem samplesOf_length (p : Proc) (l N : Nat) : (samplesOf p l N).length = N := by
  simp [samplesOf]

theorem samplesOf_succ (p : Proc) (l N : Nat) :
    samplesOf p l (N + 1) = samplesOf p l N ++ [some (p.sample l N)] := by
  simp [samplesOf, List.range_succ]

theorem writeFrom_spec (mk : Nat → Sample) (n : Nat) :
    ∀ (pre : List Row) (cnt : Nat) (post : List Row),
      writeFrom mk pre.length cnt n (pre ++ List.replicate n none ++ post)
        = pre ++ (List.range n).map (fun i => some (mk (cnt + i))) ++ post := by
  induction n with
  | zero => intro pre cnt post; simp [writeFrom]
  | succ n ih =>
    intro pre cnt post
    have hset : (pre ++ List.replicate (n + 1) none ++ post).set pre.length (some (mk cnt))
        = (pre ++ [some (mk cnt)]) ++ List.replicate n none ++ post := by
      simp [List.replicate_succ]
    rw [writeFrom, hset]
    have hlen : pre.length + 1 = (pre ++ [some (mk cnt)]).length := by simp
    rw [hlen, ih (pre ++ [some (mk cnt)]) (cnt + 1) post]
    simp only [List.range_succ_eq_map, List.map_cons, List.map_map, List.append_assoc, List.singleton_append,
      Nat.add_zero]
    congr 3
    apply List.map_congr_left
    intro i _; simp [Function.comp]; congr 1; omega

theorem samplesOf_add (p : Proc) (l N d : Nat) :
    samplesOf p l (N + d) = samplesOf p l N ++ (List.range d).map (fun i => some (p.sample l (N + i))) := by
  induction d with
  | zero => simp
  | succ d ih =>
    rw [← Nat.add_assoc, samplesOf_succ, ih, List.range_succ, List.map_append]
    simp

/-! ### one level -/

/-- a pass turns the pads into exactly the newly simulated samples -/
theorem passLvl_clean (p : Proc) (l : Nat) (lv : Lvl) (h : LvlInv p l lv) : LvlClean p l (passLvl p l lv) := by
  obtain ⟨hr, hs⟩ := h
  refine ⟨?_, by simp [passLvl, hs]⟩
  have := writeFrom_spec (p.sample l) lv.dN (samplesOf p l lv.N) lv.sim []
  simp only [List.append_nil, samplesOf_length] at this
  simp only [passLvl]
  rw [hr, this, hs, samplesOf_add]

/-- re-computing `dN` and zero-padding re-establishes the loop-head invariant -/
theorem extend_inv (p : Proc) (l : Nat) (lv : Lvl) (d : Nat) (h : LvlClean p l lv) :
    LvlInv p l (extendLvl { lv with dN := d }) := by
  obtain ⟨hr, hs⟩ := h
  refine ⟨?_, hs⟩
  simp only [extendLvl]
  rw [hr, samplesOf_length]
  congr 2; omega

/-- a level appended with counter 0 and an empty array satisfies the invariant after padding -/
theorem newLevel_inv (p : Proc) (l d : Nat) : LvlInv p l (extendLvl ⟨[], 0, d, 0, 0⟩) := by
  refine ⟨?_, rfl⟩
  simp [extendLvl, samplesOf]

/-! ### the loop -/

theorem init_inv (p : Proc) (L0 N0 levelMax newInit : Nat) : Inv p (init L0 N0 levelMax newInit) := by
  intro l _; exact ⟨by simp [init, samplesOf], rfl⟩

/-- every array is clean right after the passes — this is where `set_mlmc_results` reads them (engine.py:237) -/
theorem afterPasses_clean (p : Proc) (s : St) (h : Inv p s) : Clean p (afterPasses p s) := by
  intro l hl
  have hl' : l ≤ s.L := hl
  simp only [afterPasses, hl', if_true]
  exact passLvl_clean p l _ (h l hl')

theorem setDN_clean (p : Proc) (Ns : List Nat) (s : St) (h : Clean p s) : Clean p (setDN Ns s) := by
  intro l hl; exact h l hl

theorem extendAll_setDN_inv (p : Proc) (Ns : List Nat) (s : St) (h : Clean p s) :
    Inv p (extendAll (setDN Ns s)) := by
  intro l hl
  have hl' : l ≤ s.L := hl
  simp only [extendAll, setDN, hl', if_true]
  exact extend_inv p l (s.lv l) _ (h l hl')

theorem extendAll_addLevel_inv (p : Proc) (Ns : List Nat) (s : St) (h0 : s.newInit = 0) (h : Clean p s) :
    Inv p (extendAll (setDN Ns (addLevel s))) := by
  intro l hl
  have hl' : l ≤ s.L + 1 := hl
  simp only [extendAll, setDN, addLevel, hl', if_true]
  by_cases hnew : l = s.L + 1
  · subst hnew; simp only [if_true, h0, Nat.sub_zero]; exact newLevel_inv p _ _
  · simp only [hnew, if_false]
    exact extend_inv p l (s.lv l) _ (h l (by omega))

theorem sum_zero_mem (l : List Nat) (h : l.sum = 0) : ∀ x ∈ l, x = 0 := by
  induction l with
  | nil => intro x hx; cases hx
  | cons a t ih =>
    simp only [List.sum_cons] at h
    intro x hx
    rcases List.mem_cons.mp hx with rfl | hx
    · omega
    · exact ih (by omega) x hx

theorem dN_zero_of_sum (s : St) (h : ¬ sumDN s > 0) (l : Nat) (hl : l ≤ s.L) : (s.lv l).dN = 0 := by
  have : sumDN s = 0 := by omega
  unfold sumDN at this
  exact sum_zero_mem _ this _ (List.mem_map.mpr ⟨l, List.mem_range.mpr (by omega), rfl⟩)

/-- the loop head: continue with the invariant, or fall out of the loop with clean arrays -/
theorem loopHead_inv (p : Proc) (s : St) (h0 : s.newInit = 0) (h : Inv p s) :
    match loopHead s with
    | .cont s' => Inv p s' ∧ s'.newInit = 0
    | .ret s' => Clean p s' := by
  unfold loopHead
  by_cases hs : sumDN s > 0
  · rw [if_pos hs]; exact ⟨h, h0⟩
  · rw [if_neg hs]
    intro l hl
    obtain ⟨hr, hsim⟩ := h l hl
    exact ⟨by rw [hr, dN_zero_of_sum s hs l hl]; simp, hsim⟩

/-- **one iteration**: from the loop-head invariant, either the loop continues with the invariant, or it returns
    and the arrays the results are read from are exactly the simulated samples. -/
theorem iter_inv (p : Proc) (o : Oracle) (s : St) (h0 : s.newInit = 0) (h : Inv p s) :
    match iter p o s with
    | .cont s' => Inv p s' ∧ s'.newInit = 0
    | .ret s' => Clean p s' := by
  have hc := setDN_clean p o.Ns _ (afterPasses_clean p s h)
  have hn : (setDN o.Ns (afterPasses p s)).newInit = 0 := h0
  unfold iter
  simp only
  by_cases hsm : small (setDN o.Ns (afterPasses p s)) = true
  · rw [if_pos hsm]
    by_cases hcv : (o.conv || (setDN o.Ns (afterPasses p s)).L == (setDN o.Ns (afterPasses p s)).levelMax) = true
    · rw [if_pos hcv]; exact hc
    · rw [if_neg hcv]
      exact loopHead_inv p _ h0 (extendAll_addLevel_inv p o.Ns2 _ hn hc)
  · rw [if_neg hsm]
    exact loopHead_inv p _ h0 (extendAll_setDN_inv p o.Ns _ (afterPasses_clean p s h))

/-- **every history**: whatever sequence of sample-size updates, convergence verdicts and level additions the run
    goes through, when it returns the arrays are exactly the simulated samples, and while it is still running
    the loop-head invariant holds. -/
theorem run_rows_are_samples (p : Proc) (os : List Oracle) (s : St) (h0 : s.newInit = 0) (h : Inv p s) :
    match run p os s with
    | .cont s' => Inv p s'
    | .ret s' => Clean p s' := by
  induction os generalizing s with
  | nil => exact h
  | cons o os ih =>
    have hi := iter_inv p o s h0 h
    unfold run
    cases hit : iter p o s with
    | cont s' => rw [hit] at hi; exact ih s' hi.2 hi.1
    | ret s' => rw [hit] at hi; exact hi

/-- the statement for `Engine.price` from its actual initial state (new levels start at counter 0) -/
theorem price_rows_are_samples (p : Proc) (L0 N0 levelMax : Nat) (os : List Oracle) :
    match price p L0 N0 levelMax 0 os with
    | .cont s' => Inv p s'
    | .ret s' => Clean p s' := by
  have hl := loopHead_inv p (init L0 N0 levelMax 0) rfl (init_inv p L0 N0 levelMax 0)
  unfold price
  cases hh : loopHead (init L0 N0 levelMax 0) with
  | cont s' => rw [hh] at hl; exact run_rows_are_samples p os s' hl.2 hl.1
  | ret s' => rw [hh] at hl; exact hl

/-- fixed-level variant: every level's array is exactly its `mc` simulated samples -/
theorem fixedRun_clean (p : Proc) (maxLevel mc : Nat) : Clean p (fixedRun p maxLevel mc) := by
  apply afterPasses_clean
  intro l _; exact ⟨by simp [samplesOf], rfl⟩

/-! ### consequences for the reported numbers -/

theorem listSum_append (a b : List Rat) : listSum (a ++ b) = listSum a + listSum b := by
  induction a with
  | nil => simp [listSum]
  | cons x t ih => simp only [listSum, List.cons_append, List.foldr_cons] at ih ⊢; rw [ih]; ring

/-- reported `N_l` = number of rows = number of samples simulated at the level -/
theorem clean_counts (p : Proc) (l : Nat) (lv : Lvl) (h : LvlClean p l lv) :
    lv.rows.length = lv.N ∧ lv.sim = lv.N := ⟨by rw [h.1, samplesOf_length], h.2⟩

/-- every simulated sample sits in exactly one row (row k holds sample k), so none is dropped or duplicated -/
theorem clean_row (p : Proc) (l : Nat) (lv : Lvl) (h : LvlClean p l lv) (k : Nat) (hk : k < lv.N) :
    lv.rows[k]? = some (some (p.sample l k)) := by
  rw [h.1]; simp [samplesOf, hk]

/-- no placeholder row is ever part of a clean array -/
theorem clean_no_pad (p : Proc) (l : Nat) (lv : Lvl) (h : LvlClean p l lv) : none ∉ lv.rows := by
  rw [h.1]; simp [samplesOf]

/-- the level mean is the sample mean over exactly the N simulated samples -/
theorem clean_mean (p : Proc) (l : Nat) (lv : Lvl) (h : LvlClean p l lv) (f : Row → Rat) :
    meanOf f lv.rows = listSum ((List.range lv.N).map (fun k => f (some (p.sample l k)))) / lv.N := by
  unfold meanOf; rw [h.1, samplesOf_length]; simp [samplesOf, Function.comp_def]

/-- coarse payoff identically zero at level 0 -/
theorem level0_coarse_zero (p : Proc) (lv : Lvl) (h : LvlClean p 0 lv) : meanOf rowCoarse lv.rows = 0 := by
  rw [clean_mean p 0 lv h]
  have : (List.range lv.N).map (fun k => rowCoarse (some (p.sample 0 k))) = (List.range lv.N).map (fun _ => (0:Rat)) := by
    apply List.map_congr_left; intro k _; simp [rowCoarse, Proc.sample]
  rw [this]
  have hz : ∀ n : Nat, listSum ((List.range n).map (fun _ => (0:Rat))) = 0 := by
    intro n; induction n with
    | zero => simp [listSum]
    | succ n ih => rw [List.range_succ, List.map_append, listSum_append, ih]; simp [listSum]
  rw [hz]; simp

/-- the multilevel price is the sum over levels of (mean fine − mean coarse) over exactly the simulated samples -/
theorem price_is_sum_of_level_means (p : Proc) (s : St) (h : Clean p s) :
    priceOf s = listSum ((List.range (s.L + 1)).map (fun l =>
      listSum ((List.range (s.lv l).N).map (fun k => (p.sample l k).fine)) / (s.lv l).N
      - listSum ((List.range (s.lv l).N).map (fun k => (p.sample l k).coarse)) / (s.lv l).N)) := by
  unfold priceOf
  congr 1
  apply List.map_congr_left
  intro l hl
  have hl' : l ≤ s.L := by have := List.mem_range.mp hl; omega
  rw [clean_mean p l _ (h l hl') rowFine, clean_mean p l _ (h l hl') rowCoarse]
  rfl

/-! ### non-vacuity and the negation witness for the pre-fix engine (`np.append(Nl, 1)`) -/

def demoProc : Proc := ⟨fun l k => l + (k + 1) / 1024, fun l k => l - 1 + (k + 1) / 2048, fun l => 2 ^ l⟩
def demoHist : List Oracle := [⟨[2, 2], false, [2, 2, 3]⟩, ⟨[2, 2, 3], true, []⟩]

/-- a history that adds a level and then returns -/
example : (match price demoProc 1 2 5 0 demoHist with | .ret s => s.L == 2 && ((s.lv 2).rows.length == 3) | _ => false) = true := by
  decide +kernel

/-- with the old initial counter 1 the same history returns an array whose row 0 is a placeholder counted in N_l -/
theorem old_counter_counts_a_placeholder :
    (match price demoProc 1 2 5 1 demoHist with
     | .ret s => (s.lv 2).rows.head? == some none && (s.lv 2).N == 3 && (s.lv 2).sim == 2
     | _ => false) = true := by
  decide +kernel

end Rpylib.Mlmc
