/-
Helper lemmas for C02, binary search tree on an implicit heap: the in-order construction `walk`/`build` as coded gives
every internal node the sum of the leaves visited before it, every leaf `K+1 … 2K+1` of the heap is visited exactly
once, hence the cells of state `k` (characterised by `descend_cells`) have total length `p k`.
-/
import RpylibModel.Model.Samplers.Bst
import RpylibModel.Model.Samplers.Alias
import RpylibModel.Proofs.Lemmas.C02Bst
import Mathlib.Algebra.BigOperators.Intervals
import Mathlib.Tactic.Linarith
import Mathlib.Tactic.Ring
import Mathlib.Algebra.Order.Field.Rat

namespace Rpylib.Bst
open Rpylib.Alias (lengthOf)
open Finset

/-! ### ancestors in the implicit heap: `n / 2^j` is the `j`-th ancestor of node `n` -/

theorem div_pow_succ (n j : Nat) : n / 2 ^ (j + 1) = n / 2 ^ j / 2 := by
  rw [Nat.pow_succ, Nat.div_div_eq_div_mul]

theorem div_pow_succ' (n j : Nat) : n / 2 ^ (j + 1) = n / 2 / 2 ^ j := by
  rw [Nat.pow_succ', Nat.div_div_eq_div_mul]

theorem div_pow_add (n j d : Nat) : n / 2 ^ (j + d) = n / 2 ^ j / 2 ^ d := by
  rw [Nat.pow_add, Nat.div_div_eq_div_mul]

/-- the two children of a node have disjoint sets of descendants -/
theorem anc_excl {n ptr j1 j2 : Nat} (hp : 1 ≤ ptr) (h1 : n / 2 ^ j1 = 2 * ptr) (h2 : n / 2 ^ j2 = 2 * ptr + 1) : False := by
  rcases Nat.lt_trichotomy j1 j2 with h | h | h
  · obtain ⟨d, rfl⟩ : ∃ d, j2 = j1 + (d + 1) := ⟨j2 - j1 - 1, by omega⟩
    rw [div_pow_add, h1, div_pow_succ'] at h2
    have : 2 * ptr / 2 / 2 ^ d ≤ 2 * ptr / 2 := Nat.div_le_self _ _
    omega
  · subst h; omega
  · obtain ⟨d, rfl⟩ : ∃ d, j1 = j2 + (d + 1) := ⟨j1 - j2 - 1, by omega⟩
    rw [div_pow_add, h2, div_pow_succ'] at h1
    have : (2 * ptr + 1) / 2 / 2 ^ d ≤ (2 * ptr + 1) / 2 := Nat.div_le_self _ _
    omega

/-- a leaf below an internal node is below exactly one of its children -/
theorem anc_split {K n ptr : Nat} (hn : K < n) (hp : ptr ≤ K) :
    (∃ j, n / 2 ^ j = ptr) ↔ ((∃ j, n / 2 ^ j = 2 * ptr) ∨ (∃ j, n / 2 ^ j = 2 * ptr + 1)) := by
  constructor
  · rintro ⟨j, hj⟩
    cases j with
    | zero => simp at hj; omega
    | succ j =>
      rw [div_pow_succ] at hj
      rcases Nat.mod_two_eq_zero_or_one (n / 2 ^ j) with h | h
      · exact Or.inl ⟨j, by omega⟩
      · exact Or.inr ⟨j, by omega⟩
  · rintro (⟨j, hj⟩ | ⟨j, hj⟩)
    · exact ⟨j + 1, by rw [div_pow_succ, hj]; omega⟩
    · exact ⟨j + 1, by rw [div_pow_succ, hj]; omega⟩

/-- a node of the leaf range `K+1 … 2K+1` has no other node of that range below it -/
theorem anc_leaf {K n ptr : Nat} (hn : n ≤ 2 * K + 1) (hp : K < ptr) : (∃ j, n / 2 ^ j = ptr) ↔ n = ptr := by
  constructor
  · rintro ⟨j, hj⟩
    cases j with
    | zero => simpa using hj
    | succ j =>
      rw [div_pow_succ'] at hj
      have : n / 2 / 2 ^ j ≤ n / 2 := Nat.div_le_self _ _
      omega
  · rintro rfl; exact ⟨0, by simp⟩

/-- every node is below the root -/
theorem anc_root : ∀ n, 1 ≤ n → ∃ j, n / 2 ^ j = 1 := by
  intro n
  induction n using Nat.strong_induction_on with
  | _ n ih =>
    intro hn
    by_cases h1 : n = 1
    · exact ⟨0, by simp [h1]⟩
    · obtain ⟨j, hj⟩ := ih (n / 2) (by omega) (by omega)
      exact ⟨j + 1, by rw [div_pow_succ', hj]⟩

/-! ### the fuel is sufficient: `2K+1 < ptr * 2^fuel` -/

/-- `ptr` is a node of the heap whose whole subtree is explored with `fuel` levels -/
def Ok (K fuel ptr : Nat) : Prop := 1 ≤ ptr ∧ ptr ≤ 2 * K + 1 ∧ 2 * K + 1 < ptr * 2 ^ fuel

theorem Ok.zero {K ptr : Nat} (h : Ok K 0 ptr) : False := by
  obtain ⟨_, h2, h3⟩ := h; simp at h3; omega

theorem Ok.left {K fuel ptr : Nat} (h : Ok K (fuel + 1) ptr) (hp : ptr ≤ K) : Ok K fuel (2 * ptr) := by
  obtain ⟨h1, _, h3⟩ := h
  refine ⟨by omega, by omega, ?_⟩
  rw [Nat.pow_succ] at h3
  calc 2 * K + 1 < ptr * (2 ^ fuel * 2) := h3
    _ = 2 * ptr * 2 ^ fuel := by ring

theorem Ok.right {K fuel ptr : Nat} (h : Ok K (fuel + 1) ptr) (hp : ptr ≤ K) : Ok K fuel (2 * ptr + 1) := by
  obtain ⟨_, _, h3⟩ := h.left hp
  refine ⟨by omega, by omega, ?_⟩
  calc 2 * K + 1 < 2 * ptr * 2 ^ fuel := h3
    _ ≤ (2 * ptr + 1) * 2 ^ fuel := Nat.mul_le_mul_right _ (by omega)

theorem Ok.root (K : Nat) : Ok K (K + 1) 1 := by
  refine ⟨le_refl _, by omega, ?_⟩
  have : K < 2 ^ K := Nat.lt_two_pow_self
  rw [Nat.pow_succ]; omega

/-! ### mass of the leaves below a node -/

/-- `Σ f leaf` over the leaves reached from `ptr` (same recursion as `walk` / `cellsFrom`) -/
def massOf (K : Nat) (f : Nat → Rat) : Nat → Nat → Rat
  | 0, ptr => f ptr
  | fuel + 1, ptr => if ptr ≤ K then massOf K f fuel (2 * ptr) + massOf K f fuel (2 * ptr + 1) else f ptr

open scoped Classical in
/-- every leaf `K+1+i`, `i ≤ K`, below `ptr` contributes exactly once -/
theorem massOf_eq_sum (K : Nat) (f : Nat → Rat) : ∀ (fuel ptr : Nat), Ok K fuel ptr →
    massOf K f fuel ptr = ∑ i ∈ range (K + 1), if (∃ j, (K + 1 + i) / 2 ^ j = ptr) then f (K + 1 + i) else 0 := by
  intro fuel
  induction fuel with
  | zero => intro ptr h; exact h.zero.elim
  | succ fuel ih =>
    intro ptr h
    simp only [massOf]
    by_cases hp : ptr ≤ K
    · rw [if_pos hp, ih _ (h.left hp), ih _ (h.right hp), ← sum_add_distrib]
      apply sum_congr rfl
      intro i _
      have hs := anc_split (K := K) (n := K + 1 + i) (ptr := ptr) (by omega) hp
      by_cases hA : ∃ j, (K + 1 + i) / 2 ^ j = 2 * ptr
      · have hB : ¬ ∃ j, (K + 1 + i) / 2 ^ j = 2 * ptr + 1 := by
          rintro ⟨j2, h2⟩; obtain ⟨j1, h1⟩ := hA; exact anc_excl h.1 h1 h2
        rw [if_pos hA, if_neg hB, if_pos (hs.mpr (Or.inl hA)), add_zero]
      · by_cases hB : ∃ j, (K + 1 + i) / 2 ^ j = 2 * ptr + 1
        · rw [if_neg hA, if_pos hB, if_pos (hs.mpr (Or.inr hB)), zero_add]
        · have hC : ¬ ∃ j, (K + 1 + i) / 2 ^ j = ptr := fun hc => (hs.mp hc).elim hA hB
          rw [if_neg hA, if_neg hB, if_neg hC, add_zero]
    · rw [if_neg hp]
      have hpK : K < ptr := Nat.lt_of_not_le hp
      have hi : ptr - K - 1 ∈ range (K + 1) := by have := h.2.1; simp; omega
      rw [sum_eq_single_of_mem (ptr - K - 1) hi]
      · have e : K + 1 + (ptr - K - 1) = ptr := by omega
        rw [e, if_pos ⟨0, by simp⟩]
      · intro i hi' hne
        have hil : i < K + 1 := by simpa using hi'
        rw [if_neg]
        rw [anc_leaf (by omega) hpK]
        omega

theorem massOf_nonneg (K : Nat) (f : Nat → Rat) (hf : ∀ n, K < n → n ≤ 2 * K + 1 → 0 ≤ f n) : ∀ (fuel ptr : Nat),
    Ok K fuel ptr → 0 ≤ massOf K f fuel ptr := by
  intro fuel
  induction fuel with
  | zero => intro ptr h; exact h.zero.elim
  | succ fuel ih =>
    intro ptr h
    simp only [massOf]
    by_cases hp : ptr ≤ K
    · rw [if_pos hp]; exact add_nonneg (ih _ (h.left hp)) (ih _ (h.right hp))
    · rw [if_neg hp]; exact hf ptr (Nat.lt_of_not_le hp) h.2.1

/-! ### the walk -/

theorem walk_le (K : Nat) (p : Nat → Rat) (fuel ptr : Nat) (acc : Rat) (h : ptr ≤ K) :
    walk K p (fuel + 1) ptr acc =
      ((walk K p fuel (2 * ptr) acc).1 ++ (ptr, (walk K p fuel (2 * ptr) acc).2) ::
          (walk K p fuel (2 * ptr + 1) (walk K p fuel (2 * ptr) acc).2).1,
        (walk K p fuel (2 * ptr + 1) (walk K p fuel (2 * ptr) acc).2).2) := by
  simp only [walk, if_pos h]

theorem walk_gt (K : Nat) (p : Nat → Rat) (fuel ptr : Nat) (acc : Rat) (h : ¬ ptr ≤ K) :
    walk K p (fuel + 1) ptr acc = ([], acc + p (ptr - K - 1)) := by
  simp only [walk, if_neg h]

/-- the running cumulative probability after a subtree = before + mass of its leaves -/
theorem walk_snd (K : Nat) (p : Nat → Rat) : ∀ (fuel ptr : Nat) (acc : Rat), Ok K fuel ptr →
    (walk K p fuel ptr acc).2 = acc + massOf K (fun n => p (n - K - 1)) fuel ptr := by
  intro fuel
  induction fuel with
  | zero => intro ptr acc h; exact h.zero.elim
  | succ fuel ih =>
    intro ptr acc h
    by_cases hp : ptr ≤ K
    · rw [walk_le K p fuel ptr acc hp]
      simp only [massOf, if_pos hp]
      rw [ih _ _ (h.right hp), ih _ _ (h.left hp)]; ring
    · rw [walk_gt K p fuel ptr acc hp]
      simp only [massOf, if_neg hp]

/-- keys of the table of a subtree are descendants of its root -/
theorem walk_keys (K : Nat) (p : Nat → Rat) : ∀ (fuel ptr : Nat) (acc : Rat),
    ∀ e ∈ (walk K p fuel ptr acc).1, ∃ j, e.1 / 2 ^ j = ptr := by
  intro fuel
  induction fuel with
  | zero => intro ptr acc e he; simp [walk] at he
  | succ fuel ih =>
    intro ptr acc e he
    by_cases hp : ptr ≤ K
    · rw [walk_le K p fuel ptr acc hp] at he
      simp only [List.mem_append, List.mem_cons] at he
      rcases he with he | rfl | he
      · obtain ⟨j, hj⟩ := ih _ _ e he
        exact ⟨j + 1, by rw [div_pow_succ, hj]; omega⟩
      · exact ⟨0, by simp⟩
      · obtain ⟨j, hj⟩ := ih _ _ e he
        exact ⟨j + 1, by rw [div_pow_succ, hj]; omega⟩
    · rw [walk_gt K p fuel ptr acc hp] at he; simp at he

theorem desc_ge {n ptr j : Nat} (h : n / 2 ^ j = ptr) : ptr ≤ n := by
  rw [← h]; exact Nat.div_le_self _ _

/-- every internal node is assigned at most once -/
theorem walk_pairwise (K : Nat) (p : Nat → Rat) : ∀ (fuel ptr : Nat) (acc : Rat), 1 ≤ ptr →
    List.Pairwise (fun a b : Nat × Rat => a.1 ≠ b.1) (walk K p fuel ptr acc).1 := by
  intro fuel
  induction fuel with
  | zero => intro ptr acc _; simp [walk]
  | succ fuel ih =>
    intro ptr acc h1
    by_cases hp : ptr ≤ K
    · rw [walk_le K p fuel ptr acc hp]
      simp only
      rw [List.pairwise_append, List.pairwise_cons]
      refine ⟨ih _ _ (by omega), ⟨?_, ih _ _ (by omega)⟩, ?_⟩
      · intro b hb
        obtain ⟨j, hj⟩ := walk_keys K p _ _ _ b hb
        have := desc_ge hj
        simp only; omega
      · intro a ha b hb
        obtain ⟨j1, hj1⟩ := walk_keys K p _ _ _ a ha
        rcases List.mem_cons.mp hb with rfl | hb
        · have := desc_ge hj1
          simp only; omega
        · obtain ⟨j2, hj2⟩ := walk_keys K p _ _ _ b hb
          intro heq; rw [heq] at hj1
          exact anc_excl h1 hj1 hj2
    · rw [walk_gt K p fuel ptr acc hp]; simp

theorem find_of_pairwise : ∀ (T : List (Nat × Rat)), List.Pairwise (fun a b : Nat × Rat => a.1 ≠ b.1) T →
    ∀ e ∈ T, T.find? (fun x => x.1 == e.1) = some e
  | [], _, e, he => by simp at he
  | x :: xs, hT, e, he => by
    rw [List.pairwise_cons] at hT
    rcases List.mem_cons.mp he with rfl | he'
    · simp
    · have hne : x.1 ≠ e.1 := hT.1 e he'
      rw [List.find?_cons_of_neg (by simpa using hne)]
      exact find_of_pairwise xs hT.2 e he'

/-- `build` returns for every assigned node the value the walk gave it -/
theorem build_agrees (K : Nat) (p : Nat → Rat) : ∀ e ∈ (walk K p (K + 1) 1 0).1, build K p e.1 = e.2 := by
  intro e he
  simp only [build]
  rw [find_of_pairwise _ (walk_pairwise K p (K + 1) 1 0 (le_refl _)) e he]

/-! ### cells of the constructed table -/

theorem lengthOf_append (l1 l2 : List (Nat × Rat × Rat)) (k : Nat) :
    lengthOf (l1 ++ l2) k = lengthOf l1 k + lengthOf l2 k := by
  simp [lengthOf, List.map_append, List.sum_append]

/-- for a threshold table that agrees with the walk on the subtree of `ptr`, the cells of state `k` inside
    `[acc before, acc after)` have total length = mass of the leaves of state `k` below `ptr` -/
theorem cells_of_walk (K : Nat) (p : Nat → Rat) (hp0 : ∀ i, i ≤ K → 0 ≤ p i) (bst : Nat → Rat) (k : Nat) :
    ∀ (fuel ptr : Nat) (acc : Rat), Ok K fuel ptr → (∀ e ∈ (walk K p fuel ptr acc).1, bst e.1 = e.2) →
      lengthOf (cellsFrom K bst fuel ptr acc (walk K p fuel ptr acc).2) k =
        massOf K (fun n => if n - K - 1 = k then p (n - K - 1) else 0) fuel ptr := by
  have hf : ∀ n, K < n → n ≤ 2 * K + 1 → 0 ≤ (fun n => p (n - K - 1)) n := fun n h1 h2 => hp0 _ (by omega)
  intro fuel
  induction fuel with
  | zero => intro ptr acc h; exact h.zero.elim
  | succ fuel ih =>
    intro ptr acc h hb
    by_cases hp : ptr ≤ K
    · rw [walk_le K p fuel ptr acc hp] at hb ⊢
      simp only [cellsFrom, massOf, if_pos hp]
      have hmid : bst ptr = (walk K p fuel (2 * ptr) acc).2 := hb (ptr, _) (by simp)
      have h1 : acc ≤ (walk K p fuel (2 * ptr) acc).2 := by
        rw [walk_snd K p fuel _ acc (h.left hp)]
        linarith [massOf_nonneg K _ hf fuel _ (h.left hp)]
      have h2 : (walk K p fuel (2 * ptr) acc).2 ≤ (walk K p fuel (2 * ptr + 1) (walk K p fuel (2 * ptr) acc).2).2 := by
        rw [walk_snd K p fuel _ _ (h.right hp)]
        linarith [massOf_nonneg K _ hf fuel _ (h.right hp)]
      rw [hmid, min_eq_right h2, max_eq_right h1, lengthOf_append,
        ih _ _ (h.left hp) (fun e he => hb e (by simp [he])),
        ih _ _ (h.right hp) (fun e he => hb e (by simp [he]))]
    · rw [walk_gt K p fuel ptr acc hp]
      simp only [cellsFrom, massOf, if_neg hp]
      have hpk : 0 ≤ p (ptr - K - 1) := hp0 _ (by have := h.2.1; omega)
      by_cases hlt : acc < acc + p (ptr - K - 1)
      · rw [if_pos hlt]
        simp only [lengthOf, List.map_cons, List.map_nil, List.sum_cons, List.sum_nil, add_zero]
        split_ifs <;> ring
      · rw [if_neg hlt]
        have : p (ptr - K - 1) = 0 := by linarith
        simp [lengthOf, this]

/-- the descent stays inside the heap: the state returned is one of `0 … K` -/
theorem descend_le (K : Nat) (bst : Nat → Rat) (u : Rat) : ∀ (fuel ptr : Nat), ptr ≤ 2 * K + 1 →
    descend K bst u fuel ptr ≤ K := by
  intro fuel
  induction fuel with
  | zero => intro ptr h; simp only [descend]; omega
  | succ fuel ih =>
    intro ptr h
    simp only [descend]
    by_cases hp : ptr ≤ K
    · rw [if_pos hp]; apply ih; split_ifs <;> omega
    · rw [if_neg hp]; omega

end Rpylib.Bst
