/-
Helper lemmas for C19: finitely additive set functions on the subsets of a set `U` (the union of the default
half-spaces, which stays away from the origin: a Lévy measure is finite there), inclusion–exclusion for two and
three sets, monotonicity.
-/
import Mathlib.Data.Set.Basic
import Mathlib.Order.BooleanAlgebra.Set
import Mathlib.Tactic.Linarith
import Mathlib.Algebra.Order.Field.Rat

namespace Rpylib.Credit

/-- `μ` is finitely additive and non-negative on the subsets of `U` (nothing is assumed about sets that leave `U`:
    a Lévy measure is infinite around the origin) -/
structure AdditiveOn {α : Type} (μ : Set α → ℚ) (U : Set α) : Prop where
  add : ∀ A B, A ⊆ U → B ⊆ U → Disjoint A B → μ (A ∪ B) = μ A + μ B
  nonneg : ∀ A, A ⊆ U → 0 ≤ μ A

variable {α : Type} {μ : Set α → ℚ} {U : Set α}

theorem AdditiveOn.mono_set (h : AdditiveOn μ U) {V : Set α} (hV : V ⊆ U) : AdditiveOn μ V :=
  ⟨fun A B hA hB hd => h.add A B (hA.trans hV) (hB.trans hV) hd, fun A hA => h.nonneg A (hA.trans hV)⟩

/-- inclusion–exclusion for two sets -/
theorem AdditiveOn.union (h : AdditiveOn μ U) (A B : Set α) (hA : A ⊆ U) (hB : B ⊆ U) :
    μ (A ∪ B) = μ A + μ B - μ (A ∩ B) := by
  have h1 : μ (A ∪ B \ A) = μ A + μ (B \ A) :=
    h.add A (B \ A) hA (Set.sdiff_subset.trans hB) Set.disjoint_sdiff_right
  have h2 : μ (B ∩ A ∪ B \ A) = μ (B ∩ A) + μ (B \ A) :=
    h.add (B ∩ A) (B \ A) (Set.inter_subset_left.trans hB) (Set.sdiff_subset.trans hB)
      (Set.disjoint_sdiff_right.mono_left Set.inter_subset_right)
  rw [Set.union_sdiff_self] at h1
  rw [Set.inter_union_sdiff] at h2
  rw [Set.inter_comm A B]
  linarith

/-- inclusion–exclusion for three sets -/
theorem AdditiveOn.union3 (h : AdditiveOn μ U) (A B C : Set α) (hA : A ⊆ U) (hB : B ⊆ U) (hC : C ⊆ U) :
    μ (A ∪ B ∪ C) = μ A + μ B + μ C - μ (A ∩ B) - μ (A ∩ C) - μ (B ∩ C) + μ (A ∩ B ∩ C) := by
  have hAB : A ∪ B ⊆ U := Set.union_subset hA hB
  rw [h.union (A ∪ B) C hAB hC, h.union A B hA hB, Set.union_inter_distrib_right,
    h.union (A ∩ C) (B ∩ C) (Set.inter_subset_left.trans hA) (Set.inter_subset_left.trans hB)]
  have e : A ∩ C ∩ (B ∩ C) = A ∩ B ∩ C := by
    ext x; simp only [Set.mem_inter_iff]; tauto
  rw [e]; linarith

/-- a finitely additive non-negative set function is monotone -/
theorem AdditiveOn.mono (h : AdditiveOn μ U) (A B : Set α) (hAB : A ⊆ B) (hB : B ⊆ U) : μ A ≤ μ B := by
  have h1 := h.add A (B \ A) (hAB.trans hB) (Set.sdiff_subset.trans hB) Set.disjoint_sdiff_right
  rw [Set.union_sdiff_cancel hAB] at h1
  have := h.nonneg (B \ A) (Set.sdiff_subset.trans hB)
  linarith

end Rpylib.Credit
