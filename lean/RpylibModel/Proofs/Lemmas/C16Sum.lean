/-
C16 helper lemmas: algebra of the finite sums / products `sumTo`, `prodTo` and of `mv` (matrix times vector) of
RpylibModel/Model/Sde.lean.
-/
import RpylibModel.Model.Sde
import Mathlib.Tactic.Linarith
import Mathlib.Tactic.Ring
import Mathlib.Algebra.Order.Field.Rat

namespace Rpylib.Sde

@[simp] theorem sumTo_zero (f : Nat → Rat) : sumTo 0 f = 0 := rfl
theorem sumTo_succ (n : Nat) (f : Nat → Rat) : sumTo (n + 1) f = sumTo n f + f n := rfl
@[simp] theorem prodTo_zero (f : Nat → Rat) : prodTo 0 f = 1 := rfl
theorem prodTo_succ (n : Nat) (f : Nat → Rat) : prodTo (n + 1) f = prodTo n f * f n := rfl

theorem sumTo_add (n : Nat) (f g : Nat → Rat) : sumTo n (fun i => f i + g i) = sumTo n f + sumTo n g := by
  induction n with
  | zero => simp
  | succ n ih => rw [sumTo_succ, sumTo_succ, sumTo_succ, ih]; ring

theorem sumTo_mul (n : Nat) (c : Rat) (f : Nat → Rat) : sumTo n (fun i => c * f i) = c * sumTo n f := by
  induction n with
  | zero => simp
  | succ n ih => rw [sumTo_succ, sumTo_succ, ih]; ring

theorem sumTo_congr (n : Nat) (f g : Nat → Rat) (h : ∀ i, i < n → f i = g i) : sumTo n f = sumTo n g := by
  induction n with
  | zero => simp
  | succ n ih => rw [sumTo_succ, sumTo_succ, ih (fun i hi => h i (by omega)), h n (by omega)]

/-- a sum against an indicator picks one term -/
theorem sumTo_ite (d k : Nat) (hk : k < d) (c : Rat) (v : Nat → Rat) :
    sumTo d (fun j => (if k = j then c else 0) * v j) = c * v k := by
  induction d with
  | zero => omega
  | succ d ih =>
    rw [sumTo_succ]
    by_cases h : k = d
    · subst h
      have : sumTo k (fun j => (if k = j then c else 0) * v j) = sumTo k (fun _ => 0) := by
        apply sumTo_congr; intro i hi
        have : k ≠ i := by omega
        simp [this]
      rw [this]
      have z : sumTo k (fun _ => (0 : Rat)) = 0 := by
        have := sumTo_mul k 0 (fun _ => (0 : Rat)); simpa using this
      rw [z]; simp
    · have hk' : k < d := by omega
      rw [ih hk']; simp [h]

/-! ### `mv` is linear in the vector -/

theorem mv_add (d : Nat) (A : Mat) (u v : Vec) (k : Nat) :
    mv d A (fun j => u j + v j) k = mv d A u k + mv d A v k := by
  unfold mv
  rw [← sumTo_add]; apply sumTo_congr; intro j _; ring

theorem mv_smul (d : Nat) (A : Mat) (c : Rat) (u : Vec) (k : Nat) :
    mv d A (fun j => c * u j) k = c * mv d A u k := by
  unfold mv
  rw [← sumTo_mul]; apply sumTo_congr; intro j _; ring

theorem mv_sub (d : Nat) (A : Mat) (u v : Vec) (k : Nat) :
    mv d A (fun j => u j - v j) k = mv d A u k - mv d A v k := by
  have h : (fun j => u j - v j) = (fun j => u j + (-1) * v j) := by funext j; ring
  rw [h, mv_add, mv_smul]; ring

theorem mv_diag (d : Nat) (t : Rat) (x v : Vec) (k : Nat) (hk : k < d) : mv d (diagA t x) v k = x k * v k := by
  unfold mv diagA
  exact sumTo_ite d k hk (x k) v

/-! ### products of factors ≥ 1 -/

theorem prodTo_ge_one (n : Nat) (f : Nat → Rat) (h : ∀ i, i < n → 1 ≤ f i) : 1 ≤ prodTo n f := by
  induction n with
  | zero => simp
  | succ n ih =>
    rw [prodTo_succ]
    have h1 := ih (fun i hi => h i (by omega))
    have h2 := h n (by omega)
    nlinarith

end Rpylib.Sde
