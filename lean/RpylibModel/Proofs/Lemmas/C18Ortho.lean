/-
C18 — the cosine system of the COS method on [a,b] (helper file): orthogonality, recovery of the coefficients of a
finite cosine expansion from the coefficient integrals, and the finite Parseval identity
  ∫_a^b v·f = Σ'_{k<N} (∫_a^b f cos_k) · (2/(b-a) ∫_a^b v cos_k)      for  f = Σ'_{k<N} A_k cos_k.
`Σ'` = first term halved (cosmethod.py:38-40).
-/
import RpylibModel.Model.Pricers
import RpylibModel.Proofs.Lemmas.C18Integrals
import Mathlib.MeasureTheory.Integral.IntervalIntegral.Basic
import Mathlib.MeasureTheory.Integral.IntervalIntegral.FundThmCalculus
import Mathlib.Analysis.SpecialFunctions.Trigonometric.Basic
import Mathlib.Analysis.SpecialFunctions.Trigonometric.Deriv
import Mathlib.Algebra.BigOperators.Intervals
import Mathlib.Tactic.Linarith
import Mathlib.Tactic.Ring
import Mathlib.Tactic.FieldSimp

namespace Rpylib.Pricers.Cos
open Real intervalIntegral Finset Rpylib.Pricers.Integrals MeasureTheory

/-- frequency of the k-th COS term: `cst = k*pi/(b-a)` (cosmethod.py:110, 135) -/
noncomputable def freq (a b : ℝ) (k : ℕ) : ℝ := (k : ℝ) * π / (b - a)

/-- k-th basis function `cos(cst*(y-a))` -/
noncomputable def cosK (a b : ℝ) (k : ℕ) (y : ℝ) : ℝ := cos (freq a b k * (y - a))

/-- series weights `(1/2, 1, 1, …)` (cosmethod.py:38-40) -/
noncomputable def wt (k : ℕ) : ℝ := if k = 0 then 1 / 2 else 1

/-- finite cosine expansion with N terms, first term halved -/
noncomputable def cosPoly (a b : ℝ) (N : ℕ) (A : ℕ → ℝ) (y : ℝ) : ℝ :=
  ∑ k ∈ range N, wt k * A k * cosK a b k y

theorem continuous_cosK (a b : ℝ) (k : ℕ) : Continuous (cosK a b k) := by
  unfold cosK; fun_prop

theorem continuous_cosPoly (a b : ℝ) (N : ℕ) (A : ℕ → ℝ) : Continuous (cosPoly a b N A) := by
  unfold cosPoly
  exact continuous_finsetSum _ fun k _ => (continuous_const.mul (continuous_cosK a b k))

/-- `∫_a^b cos(mπ(y-a)/(b-a)) dy = b-a` for `m = 0`, `0` for any other integer `m` -/
theorem integral_cos_int (a b : ℝ) (hab : a < b) (m : ℤ) :
    ∫ y in a..b, cos ((m : ℝ) * π / (b - a) * (y - a)) = if m = 0 then b - a else 0 := by
  have hL : b - a ≠ 0 := by linarith
  by_cases hm : m = 0
  · subst hm; simp
  · have hu : (m : ℝ) * π / (b - a) ≠ 0 := by
      have : (m : ℝ) ≠ 0 := by exact_mod_cast hm
      have hpi := Real.pi_ne_zero
      positivity
    have hint : IntervalIntegrable (fun y => cos ((m : ℝ) * π / (b - a) * (y - a))) volume a b :=
      (by fun_prop : Continuous fun y => cos ((m : ℝ) * π / (b - a) * (y - a))).intervalIntegrable a b
    rw [integral_eq_sub_of_hasDerivAt (fun y _ => hasDerivAt_psiPrim _ a y hu) hint]
    have e1 : (m : ℝ) * π / (b - a) * (b - a) = m * π := by field_simp
    simp [hm, e1, Real.sin_int_mul_pi]

/-- product of two basis functions as a sum of two cosines with integer frequencies -/
theorem cosK_mul_cosK (a b : ℝ) (k j : ℕ) (y : ℝ) :
    cosK a b k y * cosK a b j y
      = (cos ((((k : ℤ) - (j : ℤ) : ℤ) : ℝ) * π / (b - a) * (y - a))
          + cos ((((k : ℤ) + (j : ℤ) : ℤ) : ℝ) * π / (b - a) * (y - a))) / 2 := by
  unfold cosK freq
  have e1 : (((k : ℤ) - (j : ℤ) : ℤ) : ℝ) * π / (b - a) * (y - a)
      = (k : ℝ) * π / (b - a) * (y - a) - (j : ℝ) * π / (b - a) * (y - a) := by push_cast; ring
  have e2 : (((k : ℤ) + (j : ℤ) : ℤ) : ℝ) * π / (b - a) * (y - a)
      = (k : ℝ) * π / (b - a) * (y - a) + (j : ℝ) * π / (b - a) * (y - a) := by push_cast; ring
  rw [e1, e2, cos_sub, cos_add]; ring

/-- **orthogonality** of the COS basis on [a,b] -/
theorem cos_orthogonality (a b : ℝ) (hab : a < b) (k j : ℕ) :
    ∫ y in a..b, cosK a b k y * cosK a b j y
      = if k = j then (if k = 0 then b - a else (b - a) / 2) else 0 := by
  have h1 : ∀ m : ℤ, IntervalIntegrable (fun y => cos ((m : ℝ) * π / (b - a) * (y - a))) volume a b := fun m =>
    (by fun_prop : Continuous fun y => cos ((m : ℝ) * π / (b - a) * (y - a))).intervalIntegrable a b
  simp_rw [cosK_mul_cosK]
  rw [intervalIntegral.integral_div, intervalIntegral.integral_add (h1 _) (h1 _), integral_cos_int a b hab, integral_cos_int a b hab]
  by_cases hkj : k = j
  · subst hkj
    by_cases hk : k = 0
    · subst hk; simp
    · have : ((k : ℤ) + (k : ℤ)) ≠ 0 := by omega
      simp [hk, this]
  · have h2 : ((k : ℤ) - (j : ℤ)) ≠ 0 := by omega
    have h3 : ((k : ℤ) + (j : ℤ)) ≠ 0 := by omega
    simp [hkj, h2, h3]

/-- with the series weight: `wt k * ∫ cos_k cos_j = (b-a)/2` on the diagonal -/
theorem wt_mul_orthogonality (a b : ℝ) (hab : a < b) (k j : ℕ) :
    wt k * ∫ y in a..b, cosK a b k y * cosK a b j y = if k = j then (b - a) / 2 else 0 := by
  rw [cos_orthogonality a b hab]
  unfold wt
  by_cases hkj : k = j
  · subst hkj
    by_cases hk : k = 0
    · simp [hk]; ring
    · simp [hk]
  · simp [hkj]

/-- integral of a function against a finite cosine expansion, term by term -/
theorem integral_mul_cosPoly (a b : ℝ) (N : ℕ) (A : ℕ → ℝ) (v : ℝ → ℝ) (hv : IntervalIntegrable v volume a b) :
    ∫ y in a..b, v y * cosPoly a b N A y
      = ∑ k ∈ range N, wt k * A k * ∫ y in a..b, v y * cosK a b k y := by
  unfold cosPoly
  have e : ∀ y, v y * ∑ k ∈ range N, wt k * A k * cosK a b k y
      = ∑ k ∈ range N, wt k * A k * (v y * cosK a b k y) := by
    intro y; rw [mul_sum]; exact sum_congr rfl fun k _ => by ring
  simp_rw [e]
  rw [intervalIntegral.integral_finsetSum]
  · exact sum_congr rfl fun k _ => by rw [intervalIntegral.integral_const_mul]
  · intro k _
    exact (hv.mul_continuousOn (continuous_cosK a b k).continuousOn).const_mul _

/-- **recovery of the coefficients**: the coefficient integral `2/(b-a) ∫_a^b f cos_j` of a finite cosine expansion is
its j-th coefficient -/
theorem coeff_cosPoly (a b : ℝ) (hab : a < b) (N : ℕ) (A : ℕ → ℝ) (j : ℕ) (hj : j < N) :
    2 / (b - a) * ∫ y in a..b, cosPoly a b N A y * cosK a b j y = A j := by
  have hL : b - a ≠ 0 := by linarith
  have e : ∀ y, cosPoly a b N A y * cosK a b j y = cosK a b j y * cosPoly a b N A y := fun y => mul_comm _ _
  simp_rw [e]
  rw [integral_mul_cosPoly a b N A _ ((continuous_cosK a b j).intervalIntegrable a b)]
  have e2 : ∀ k ∈ range N, wt k * A k * ∫ y in a..b, cosK a b j y * cosK a b k y
      = if k = j then A k * ((b - a) / 2) else 0 := by
    intro k _
    have e3 : ∀ y, cosK a b j y * cosK a b k y = cosK a b k y * cosK a b j y := fun y => mul_comm _ _
    simp_rw [e3]
    have := wt_mul_orthogonality a b hab k j
    calc wt k * A k * ∫ y in a..b, cosK a b k y * cosK a b j y
        = A k * (wt k * ∫ y in a..b, cosK a b k y * cosK a b j y) := by ring
      _ = _ := by rw [this]; split <;> simp
  rw [sum_congr rfl e2, sum_ite_eq' (range N) j]
  simp [mem_range.mpr hj]
  field_simp

/-- **finite Parseval identity** in the form the COS formula uses: with `R k = ∫_a^b f cos_k` (the real part of
`φ(u_k) e^{-i u_k a}` when `f` is a density supported in [a,b]) and `V k = 2/(b-a) ∫_a^b v cos_k`,
`∫_a^b v f = Σ_k wt k · R k · V k`. -/
theorem cos_parseval (a b : ℝ) (hab : a < b) (N : ℕ) (A : ℕ → ℝ) (v : ℝ → ℝ) (hv : IntervalIntegrable v volume a b) :
    ∫ y in a..b, v y * cosPoly a b N A y
      = ∑ k ∈ range N, wt k * ((∫ y in a..b, cosPoly a b N A y * cosK a b k y)
          * (2 / (b - a) * ∫ y in a..b, v y * cosK a b k y)) := by
  have hL : b - a ≠ 0 := by linarith
  rw [integral_mul_cosPoly a b N A v hv]
  refine sum_congr rfl fun k hk => ?_
  have hc := coeff_cosPoly a b hab N A k (mem_range.mp hk)
  have : ∫ y in a..b, cosPoly a b N A y * cosK a b k y = (b - a) / 2 * A k := by
    rw [← hc]; field_simp
  rw [this]; field_simp

end Rpylib.Pricers.Cos
