/-
C09: the hypotheses of the special-function theorems are jointly satisfiable (derivative AND limits at infinity):
erf (Gaussian integral), E1 and the upper / lower incomplete gamma functions as improper / proper integrals.
-/
import RpylibModel.Proofs.Lemmas.C09MertonInf
import Mathlib.Analysis.SpecialFunctions.Gamma.Basic
import Mathlib.Analysis.SpecialFunctions.Integrals.Basic
import Mathlib.Analysis.SpecialFunctions.Integrability.Basic
import Mathlib.Analysis.SpecialFunctions.Pow.Continuity
import Mathlib.MeasureTheory.Integral.DominatedConvergence

namespace Rpylib.Integrals
open Real MeasureTheory Filter Topology Set

/-- there is a function with erf' x = 2/√π·e^{−x²}, erf(+∞) = 1 and erf(−∞) = −1 -/
theorem erf_hypotheses_satisfiable :
    ∃ erf : ℝ → ℝ, (∀ x, HasDerivAt erf (2 / √π * exp (-x ^ 2)) x) ∧ Tendsto erf atTop (𝓝 1) ∧
      Tendsto erf atBot (𝓝 (-1)) := by
  have hπ : (√π : ℝ) ≠ 0 := by positivity
  have hc : Continuous fun t : ℝ => 2 / √π * exp (-t ^ 2) := by fun_prop
  have hint : Integrable (fun t : ℝ => 2 / √π * exp (-t ^ 2)) := by
    have h := (integrable_exp_neg_mul_sq (b := 1) one_pos).const_mul (2 / √π)
    refine h.congr (ae_of_all _ (fun t => ?_))
    simp
  have hIoi : ∫ t in Ioi (0 : ℝ), 2 / √π * exp (-t ^ 2) = 1 := by
    have h := integral_gaussian_Ioi 1
    have e : (fun t : ℝ => 2 / √π * exp (-t ^ 2)) = fun t : ℝ => 2 / √π * exp (-1 * t ^ 2) := by
      funext t; simp
    rw [e, MeasureTheory.integral_const_mul, h]
    simp only [div_one]
    field_simp
  have hIic : ∫ t in Iic (0 : ℝ), 2 / √π * exp (-t ^ 2) = 1 := by
    have h := integral_comp_neg_Ioi (0 : ℝ) (fun t : ℝ => 2 / √π * exp (-t ^ 2))
    simp only [neg_sq, neg_zero] at h
    rw [← h, hIoi]
  refine ⟨fun x => ∫ t in (0:ℝ)..x, 2 / √π * exp (-t ^ 2), fun x => ?_, ?_, ?_⟩
  · exact intervalIntegral.integral_hasDerivAt_right (hc.intervalIntegrable 0 x)
      (hc.stronglyMeasurableAtFilter _ _) hc.continuousAt
  · have h := intervalIntegral_tendsto_integral_Ioi (0 : ℝ) hint.integrableOn tendsto_id
    rw [hIoi] at h
    exact h
  · have h := (intervalIntegral_tendsto_integral_Iic (0 : ℝ) hint.integrableOn tendsto_id).neg
    rw [hIic] at h
    refine h.congr (fun x => ?_)
    simp only [id]
    rw [intervalIntegral.integral_symm, neg_neg]

/-- `t^e·e^{−t}` is integrable on (1, ∞) for every real exponent e -/
theorem integrableOn_Ioi_one_rpow_exp (e : ℝ) : IntegrableOn (fun t : ℝ => t ^ e * exp (-t)) (Ioi 1) := by
  have hdom : IntegrableOn (fun t : ℝ => exp (-t) * t ^ ((max e 0 + 1) - 1)) (Ioi 1) :=
    (Real.GammaIntegral_convergent (s := max e 0 + 1) (by positivity)).mono_set (Ioi_subset_Ioi zero_le_one)
  refine Integrable.mono' hdom ?_ ?_
  · refine ContinuousOn.aestronglyMeasurable ?_ measurableSet_Ioi
    exact ContinuousOn.mul (continuousOn_id.rpow_const (fun t ht => Or.inl (ne_of_gt (lt_trans one_pos ht))))
      (Continuous.continuousOn (by fun_prop))
  · filter_upwards [ae_restrict_mem measurableSet_Ioi] with t ht
    have ht1 : (1 : ℝ) ≤ t := le_of_lt ht
    have ht0 : (0 : ℝ) < t := lt_of_lt_of_le one_pos ht1
    rw [Real.norm_eq_abs, abs_of_nonneg (mul_nonneg (rpow_nonneg ht0.le _) (exp_pos _).le), add_sub_cancel_right, mul_comm]
    exact mul_le_mul_of_nonneg_left (Real.rpow_le_rpow_of_exponent_le ht1 (le_max_left e 0)) (exp_pos _).le

/-- the upper tail `U e z = ∫_z^∞ t^e e^{−t} dt`, written as `∫_1^∞ − ∫_1^z` -/
noncomputable def upperTail (e z : ℝ) : ℝ := (∫ t in Ioi (1:ℝ), t ^ e * exp (-t)) - ∫ t in (1:ℝ)..z, t ^ e * exp (-t)

theorem hasDerivAt_upperTail (e z : ℝ) (hz : 0 < z) : HasDerivAt (upperTail e) (-(z ^ e * exp (-z))) z := by
  have hcont : ContinuousOn (fun t : ℝ => t ^ e * exp (-t)) (Ioi 0) :=
    ContinuousOn.mul (continuousOn_id.rpow_const (fun t ht => Or.inl (ne_of_gt ht))) (Continuous.continuousOn (by fun_prop))
  have hint : IntervalIntegrable (fun t : ℝ => t ^ e * exp (-t)) volume 1 z := by
    apply ContinuousOn.intervalIntegrable
    apply hcont.mono
    intro t ht
    exact lt_of_lt_of_le (lt_min one_pos hz) ht.1
  have h := intervalIntegral.integral_hasDerivAt_right hint
    (hcont.stronglyMeasurableAtFilter isOpen_Ioi z hz) (hcont.continuousAt (Ioi_mem_nhds hz))
  exact h.const_sub _

theorem tendsto_upperTail (e : ℝ) : Tendsto (upperTail e) atTop (𝓝 0) := by
  have h := (intervalIntegral_tendsto_integral_Ioi (1 : ℝ) (integrableOn_Ioi_one_rpow_exp e) tendsto_id).const_sub
    (∫ t in Ioi (1:ℝ), t ^ e * exp (-t))
  simp only [sub_self, id] at h
  exact h.congr (fun x => rfl)

/-- there is a function with E1' x = −e^{−x}/x on x > 0 and E1 → 0 at +∞ -/
theorem E1_hypotheses_satisfiable :
    ∃ E1 : ℝ → ℝ, (∀ x, 0 < x → HasDerivAt E1 (-exp (-x) / x) x) ∧ Tendsto E1 atTop (𝓝 0) := by
  refine ⟨upperTail (-1), fun x hx => ?_, tendsto_upperTail (-1)⟩
  refine (hasDerivAt_upperTail (-1) x hx).congr_deriv ?_
  rw [rpow_neg_one]; field_simp

/-- there is a family with d/dz Gam(a, z) = −z^(1−a) e^{−z} on z > 0 and Gam(a, ·) → 0 at +∞, for every index a at once -/
theorem Gam_hypotheses_satisfiable :
    ∃ Gam : ℝ → ℝ → ℝ, (∀ a z, 0 < z → HasDerivAt (Gam a) (-(z ^ (1 - a) * exp (-z))) z) ∧
      ∀ a, Tendsto (Gam a) atTop (𝓝 0) :=
  ⟨fun a => upperTail (1 - a), fun a z hz => hasDerivAt_upperTail (1 - a) z hz, fun a => tendsto_upperTail (1 - a)⟩

/-- there is a family with d/dz gl(s, z) = z^(s−1) e^{−z} on z > 0, gl(s, 0) = 0 and gl(s, ·) continuous at 0, for every s > 0 -/
theorem gl_hypotheses_satisfiable :
    ∃ gl : ℝ → ℝ → ℝ, (∀ s, 0 < s → ∀ z, 0 < z → HasDerivAt (gl s) (z ^ (s - 1) * exp (-z)) z) ∧
      (∀ s, 0 < s → gl s 0 = 0) ∧ (∀ s, 0 < s → ContinuousWithinAt (gl s) (Ici 0) 0) := by
  have hint : ∀ s : ℝ, 0 < s → ∀ a b : ℝ, IntervalIntegrable (fun t : ℝ => t ^ (s - 1) * exp (-t)) volume a b := by
    intro s hs a b
    exact (intervalIntegral.intervalIntegrable_rpow' (by linarith : -1 < s - 1)).mul_continuousOn
      (Continuous.continuousOn (by fun_prop))
  refine ⟨fun s z => ∫ t in (0:ℝ)..z, t ^ (s - 1) * exp (-t), fun s hs z hz => ?_, fun s _ => by simp, fun s hs => ?_⟩
  · have hcont : ContinuousOn (fun t : ℝ => t ^ (s - 1) * exp (-t)) (Ioi 0) :=
      ContinuousOn.mul (continuousOn_id.rpow_const (fun t ht => Or.inl (ne_of_gt ht))) (Continuous.continuousOn (by fun_prop))
    exact intervalIntegral.integral_hasDerivAt_right (hint s hs 0 z)
      (hcont.stronglyMeasurableAtFilter isOpen_Ioi z hz) (hcont.continuousAt (Ioi_mem_nhds hz))
  · exact (intervalIntegral.continuous_primitive (hint s hs) 0).continuousAt.continuousWithinAt

/-- … and gl(s, ·) → Γ(s) at +∞ (Mathlib's `Real.Gamma`): all four hypotheses of `cgmy_xx_correct_ext` hold jointly -/
theorem gl_GamC_hypotheses_satisfiable :
    ∃ (gl : ℝ → ℝ → ℝ) (GamC : ℝ → ℝ), (∀ s, 0 < s → ∀ z, 0 < z → HasDerivAt (gl s) (z ^ (s - 1) * exp (-z)) z) ∧
      (∀ s, 0 < s → gl s 0 = 0) ∧ (∀ s, 0 < s → ContinuousWithinAt (gl s) (Ici 0) 0) ∧
      (∀ s, 0 < s → Tendsto (gl s) atTop (𝓝 (GamC s))) := by
  have hint : ∀ s : ℝ, 0 < s → ∀ a b : ℝ, IntervalIntegrable (fun t : ℝ => t ^ (s - 1) * exp (-t)) volume a b := by
    intro s hs a b
    exact (intervalIntegral.intervalIntegrable_rpow' (by linarith : -1 < s - 1)).mul_continuousOn
      (Continuous.continuousOn (by fun_prop))
  refine ⟨fun s z => ∫ t in (0:ℝ)..z, t ^ (s - 1) * exp (-t), Real.Gamma, fun s hs z hz => ?_, fun s _ => by simp,
    fun s hs => ?_, fun s hs => ?_⟩
  · have hcont : ContinuousOn (fun t : ℝ => t ^ (s - 1) * exp (-t)) (Ioi 0) :=
      ContinuousOn.mul (continuousOn_id.rpow_const (fun t ht => Or.inl (ne_of_gt ht))) (Continuous.continuousOn (by fun_prop))
    exact intervalIntegral.integral_hasDerivAt_right (hint s hs 0 z)
      (hcont.stronglyMeasurableAtFilter isOpen_Ioi z hz) (hcont.continuousAt (Ioi_mem_nhds hz))
  · exact (intervalIntegral.continuous_primitive (hint s hs) 0).continuousAt.continuousWithinAt
  · have hI : IntegrableOn (fun t : ℝ => t ^ (s - 1) * exp (-t)) (Ioi 0) :=
      (Real.GammaIntegral_convergent hs).congr_fun (fun t _ => mul_comm _ _) measurableSet_Ioi
    have h := intervalIntegral_tendsto_integral_Ioi (0 : ℝ) hI tendsto_id
    have e : Real.Gamma s = ∫ t in Ioi (0:ℝ), t ^ (s - 1) * exp (-t) := by
      rw [Real.Gamma_eq_integral hs]
      exact setIntegral_congr_fun measurableSet_Ioi (fun t _ => mul_comm _ _)
    rw [e]
    exact h

end Rpylib.Integrals
