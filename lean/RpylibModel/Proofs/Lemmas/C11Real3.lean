/-
Helper lemmas for C11, d = 3: third-order differences of a negative real power are ≤ 0 on (0,∞) (`Slope3`), for every
exponent p < 0 — the second-order difference `Δ_{h1}Δ_{h2} s^p` is antitone because its derivative is `p` times the
second-order difference of `s^(p-1)`, which is ≥ 0 by convexity.  Instances: `genReal θ` (every θ > 0) and `gen1` (ℚ,
by casting to ℝ).
-/
import RpylibModel.Proofs.Lemmas.C11Clayton3
import RpylibModel.Proofs.Lemmas.C11Real
import RpylibModel.Proofs.Lemmas.C11Theta1
import Mathlib.Analysis.SpecialFunctions.Pow.Deriv
import Mathlib.Analysis.Calculus.Deriv.MeanValue

set_option linter.unusedSectionVars false
set_option linter.unusedSimpArgs false

namespace Rpylib.Copula

open Real Set

/-- second-order difference of `s ↦ s^p` with steps `h1`, `h2` -/
noncomputable def diff2 (p h1 h2 s : ℝ) : ℝ := (s + (h1 + h2)) ^ p - (s + h1) ^ p - (s + h2) ^ p + (s + 0) ^ p

theorem hasDerivAt_shift_rpow (p c x : ℝ) (hx : 0 < x + c) :
    HasDerivAt (fun s : ℝ => (s + c) ^ p) (p * (x + c) ^ (p - 1)) x := by
  have := ((hasDerivAt_id x).add_const c).rpow_const (p := p) (Or.inl (ne_of_gt hx))
  simpa using this

theorem diff2_hasDerivAt (p h1 h2 x : ℝ) (hx : 0 < x) (p1 : 0 ≤ h1) (p2 : 0 ≤ h2) :
    HasDerivAt (diff2 p h1 h2) (p * diff2 (p - 1) h1 h2 x) x := by
  have d1 := hasDerivAt_shift_rpow p (h1 + h2) x (by linarith)
  have d2 := hasDerivAt_shift_rpow p h1 x (by linarith)
  have d3 := hasDerivAt_shift_rpow p h2 x (by linarith)
  have d4 := hasDerivAt_shift_rpow p 0 x (by linarith)
  have := ((d1.sub d2).sub d3).add d4
  have e : p * diff2 (p - 1) h1 h2 x =
      p * (x + (h1 + h2)) ^ (p - 1) - p * (x + h1) ^ (p - 1) - p * (x + h2) ^ (p - 1) + p * (x + 0) ^ (p - 1) := by
    unfold diff2; ring
  rw [e]
  exact this

theorem diff2_nonneg_of_nonpos_exp (q h1 h2 x : ℝ) (hq : q ≤ 0) (hx : 0 < x) (p1 : 0 ≤ h1) (p2 : 0 ≤ h2) :
    0 ≤ diff2 q h1 h2 x := by
  have := slope_of_convexOn (fun s : ℝ => s ^ q) (convexOn_rpow_nonpos hq) x (x + h2) h1 hx (by linarith) p1
  beta_reduce at this
  unfold diff2
  have e1 : x + h2 + h1 = x + (h1 + h2) := by ring
  rw [e1] at this
  rw [add_zero]; linarith

theorem diff2_antitoneOn (p h1 h2 : ℝ) (hp : p ≤ 0) (p1 : 0 ≤ h1) (p2 : 0 ≤ h2) :
    AntitoneOn (diff2 p h1 h2) (Ioi 0) := by
  apply antitoneOn_of_deriv_nonpos (convex_Ioi 0)
  · intro x hx
    exact (diff2_hasDerivAt p h1 h2 x hx p1 p2).continuousAt.continuousWithinAt
  · rw [interior_Ioi]
    intro x hx
    exact (diff2_hasDerivAt p h1 h2 x hx p1 p2).differentiableAt.differentiableWithinAt
  · rw [interior_Ioi]
    intro x hx
    rw [(diff2_hasDerivAt p h1 h2 x hx p1 p2).deriv]
    have := diff2_nonneg_of_nonpos_exp (p - 1) h1 h2 x (by linarith) hx p1 p2
    nlinarith

/-- third-order differences of a non-positive power are ≤ 0 on (0,∞) -/
theorem slope3_rpow (p : ℝ) (hp : p ≤ 0) : Slope3 (fun s : ℝ => s ^ p) := by
  intro s h1 h2 h3 hs p1 p2 p3
  have hs3 : s + h3 ∈ Ioi (0 : ℝ) := by show 0 < s + h3; linarith
  have := diff2_antitoneOn p h1 h2 hp p1 p2 (show s ∈ Ioi (0 : ℝ) from hs) hs3 (by linarith)
  unfold diff2 at this
  simp only
  have e1 : s + h3 + (h1 + h2) = s + h1 + h2 + h3 := by ring
  have e2 : s + h3 + h1 = s + h1 + h3 := by ring
  have e3 : s + h3 + h2 = s + h2 + h3 := by ring
  have e4 : s + (h1 + h2) = s + h1 + h2 := by ring
  rw [e1, e2, e3, e4, add_zero, add_zero] at this
  linarith

/-- every θ > 0 -/
theorem slope3_genReal (θ : ℝ) (hθ : 0 < θ) : Slope3 (genReal θ).psi := by
  have hp : -(1 / θ) ≤ 0 := by
    have : 0 < 1 / θ := by positivity
    linarith
  exact slope3_rpow _ hp

/-- θ = 1 over ℚ (`psi s = 1/s`), by casting to ℝ -/
theorem slope3_gen1 : Slope3 gen1.psi := by
  intro s h1 h2 h3 hs p1 p2 p3
  have key := slope3_rpow (-1) (by norm_num) (s : ℝ) (h1 : ℝ) (h2 : ℝ) (h3 : ℝ) (by exact_mod_cast hs)
    (by exact_mod_cast p1) (by exact_mod_cast p2) (by exact_mod_cast p3)
  simp only [Real.rpow_neg_one] at key
  simp only [gen1, one_div]
  have : (((s + h1 + h2 + h3)⁻¹ - (s + h1 + h2)⁻¹ - (s + h1 + h3)⁻¹ - (s + h2 + h3)⁻¹ + (s + h1)⁻¹ + (s + h2)⁻¹
      + (s + h3)⁻¹ - s⁻¹ : ℚ) : ℝ) ≤ 0 := by
    push_cast; exact key
  exact_mod_cast this

end Rpylib.Copula
