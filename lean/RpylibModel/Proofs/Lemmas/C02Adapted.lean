/-
Helper lemmas for C02, one-dimensional adapted bisection: the bisection finds the first index whose cumulative mass
reaches the running probability.
-/
import RpylibModel.Model.Samplers.Adapted
import Mathlib.Tactic.Linarith
import Mathlib.Tactic.Ring
import Mathlib.Algebra.Order.Field.Rat

namespace Rpylib.Adapted

/-- prefix sums `Σ_{i<n} w i` -/
def pre (w : Nat → Rat) : Nat → Rat
  | 0 => 0
  | n + 1 => pre w n + w n

theorem sum_range_shift (w : Nat → Rat) (l : Nat) : ∀ d, ((List.range d).map (fun i => w (l + i))).sum = pre w (l + d) - pre w l := by
  intro d
  induction d with
  | zero => simp
  | succ d ih =>
    rw [List.range_succ, List.map_append, List.sum_append, ih]
    have e : pre w (l + (d + 1)) = pre w (l + d) + w (l + d) := rfl
    rw [e]; simp only [List.map_cons, List.map_nil, List.sum_cons, List.sum_nil]; ring

theorem rangeMass_eq (w : Nat → Rat) (l r : Nat) (h : l ≤ r + 1) : rangeMass w l r = pre w (r + 1) - pre w l := by
  unfold rangeMass; rw [sum_range_shift]; congr 2; omega

theorem pre_mono {w : Nat → Rat} (hw : ∀ i, 0 ≤ w i) : ∀ {i j : Nat}, i ≤ j → pre w i ≤ pre w j := by
  intro i j h
  induction h with
  | refl => exact le_refl _
  | @step m _ ih => simp only [pre]; have := hw m; linarith

/-- the bisection returns the first index `k ∈ [left, right]` with `cp + pre left ≤ pre (k+1)` (`right` if none) -/
theorem bisect_spec (w : Nat → Rat) : ∀ (fuel left right : Nat) (cp : Rat), left ≤ right → right - left ≤ fuel →
    left ≤ bisect w fuel left right cp ∧ bisect w fuel left right cp ≤ right ∧
    (left < bisect w fuel left right cp → pre w (bisect w fuel left right cp) < cp + pre w left) ∧
    (bisect w fuel left right cp < right → cp + pre w left ≤ pre w (bisect w fuel left right cp + 1)) := by
  intro fuel
  induction fuel with
  | zero =>
    intro left right cp h1 h2
    have : left = right := by omega
    subst this; simp [bisect]
  | succ fuel ih =>
    intro left right cp h1 h2
    unfold bisect
    by_cases he : left = right
    · subst he; simp
    · simp only [if_neg he]
      have hm1 : left ≤ (left + right) / 2 := by omega
      have hm2 : (left + right) / 2 < right := by omega
      have hp : rangeMass w left ((left + right) / 2) = pre w ((left + right) / 2 + 1) - pre w left :=
        rangeMass_eq w _ _ (by omega)
      have hmin : min right ((left + right) / 2 + 1) = (left + right) / 2 + 1 := by omega
      rw [hp, hmin]
      by_cases hc : cp > pre w ((left + right) / 2 + 1) - pre w left
      · simp only [if_pos hc]
        obtain ⟨a, b, c, d⟩ := ih ((left + right) / 2 + 1) right (cp - (pre w ((left + right) / 2 + 1) - pre w left))
          (by omega) (by omega)
        refine ⟨by omega, b, ?_, ?_⟩
        · intro _
          rcases Nat.lt_or_ge ((left + right) / 2 + 1) (bisect w fuel ((left + right) / 2 + 1) right
              (cp - (pre w ((left + right) / 2 + 1) - pre w left))) with h | h
          · have := c h; linarith
          · have e : bisect w fuel ((left + right) / 2 + 1) right
              (cp - (pre w ((left + right) / 2 + 1) - pre w left)) = (left + right) / 2 + 1 := by omega
            rw [e]; linarith
        · intro h; have := d h; linarith
      · simp only [if_neg hc]
        obtain ⟨a, b, c, d⟩ := ih left ((left + right) / 2) cp hm1 (by omega)
        refine ⟨a, by omega, c, ?_⟩
        intro _
        rcases Nat.lt_or_ge (bisect w fuel left ((left + right) / 2) cp) ((left + right) / 2) with h | h
        · exact d h
        · have e : bisect w fuel left ((left + right) / 2) cp = (left + right) / 2 := by omega
          rw [e]; linarith

end Rpylib.Adapted
