/-
C17 helper: the hypotheses made of the abstract `exp` / `log` pair (`InversePair`, and the homomorphism property the
performance underlyings need) are theorems for the real exponential and logarithm.
-/
import Mathlib.Analysis.SpecialFunctions.Log.Basic

namespace Rpylib.Payoff

theorem real_exp_log (s : ℝ) (hs : 0 < s) : Real.exp (Real.log s) = s := Real.exp_log hs
theorem real_log_exp (x : ℝ) : Real.log (Real.exp x) = x := Real.log_exp x
theorem real_exp_strictMono (x y : ℝ) (h : x < y) : Real.exp x < Real.exp y := Real.exp_lt_exp.mpr h

/-- `exp(x − log s) = exp(x) / s`: what `Performances._value_log` / `MaximumOfPerformances._value_log` rely on -/
theorem real_exp_sub_log (x s : ℝ) (hs : 0 < s) : Real.exp (x - Real.log s) = Real.exp x / s := by
  rw [Real.exp_sub, Real.exp_log hs]

end Rpylib.Payoff
