/-
Helper lemmas for C11: the independent-components copula in d = 3 on the extended line.
`indep [u,v,w] = fv u · p v · p w + p u · fv v · p w + p u · p v · fv w` with `fv` = the finite value (0 at ±∞) and
`p` = indicator of +∞; a sum of products, so its volume over a box is a sum of products of one-dimensional increments.
-/
import RpylibModel.Proofs.Lemmas.C11IndepDep

set_option linter.unusedSectionVars false
set_option linter.unusedSimpArgs false

namespace Rpylib.Copula

/-- finite value of an extended number, 0 at ±∞ (the code skips both infinities in the sum) -/
def fv : Ext Rat → Rat
  | .fin r => r
  | _ => 0

/-- Kronecker symbol of +∞ -/
def pinf : Ext Rat → Rat
  | .posInf => 1
  | _ => 0

theorem indep_three (u v w : Ext Rat) :
    indep [u, v, w] = .fin (fv u * pinf v * pinf w + pinf u * fv v * pinf w + pinf u * pinf v * fv w) := by
  rcases u with _ | u | _ <;> rcases v with _ | v | _ <;> rcases w with _ | w | _ <;>
    simp [indep, indepTerms, allPosInfExcept, Ext.isPosInf, fv, pinf]

/-- corners at which the coded independent copula differs from Kallsen–Tankov (4.2) in d = 3: all entries infinite and
    at least d−1 = 2 of them +∞ -/
def indepBad3 (a1 b1 a2 b2 a3 b3 : Ext Rat) : Prop :=
  (b2 = .posInf ∧ b3 = .posInf ∧ (a1 = .negInf ∨ b1 = .posInf)) ∨
  (b1 = .posInf ∧ b3 = .posInf ∧ (a2 = .negInf ∨ b2 = .posInf)) ∨
  (b1 = .posInf ∧ b2 = .posInf ∧ (a3 = .negInf ∨ b3 = .posInf))

theorem pinf_cases (b : Ext Rat) : (pinf b = 0 ∧ b ≠ .posInf) ∨ (pinf b = 1 ∧ b = .posInf) := by
  rcases b with _ | b | _ <;> simp [pinf]

theorem pinf_lower (a : Ext Rat) (h : a ≠ .posInf) : pinf a = 0 := by
  rcases a with _ | a | _ <;> simp [pinf] at h ⊢

theorem fv_incr (a b : Ext Rat) (l : Ext.LE a b) (na : a ≠ .negInf) (nb : b ≠ .posInf) (na' : a ≠ .posInf) :
    0 ≤ fv b - fv a := by
  rcases a with _ | a | _ <;> rcases b with _ | b | _ <;> simp [Ext.LE, fv] at l na nb na' ⊢
  exact l

/-- one product term of the volume -/
theorem indep_term_nonneg (a b x y : Ext Rat) (l : Ext.LE a b) (na' : a ≠ .posInf)
    (h : x = .posInf → y = .posInf → a ≠ .negInf ∧ b ≠ .posInf) : 0 ≤ (fv b - fv a) * pinf x * pinf y := by
  rcases pinf_cases x with ⟨hx, _⟩ | ⟨hx, ex⟩
  · rw [hx]; simp
  rcases pinf_cases y with ⟨hy, _⟩ | ⟨hy, ey⟩
  · rw [hy]; simp
  obtain ⟨na, nb⟩ := h ex ey
  rw [hx, hy]; simpa using fv_incr a b l na nb na'

theorem indep_three_increasing_aux (a1 b1 a2 b2 a3 b3 : Ext Rat) (l1 : Ext.LE a1 b1) (l2 : Ext.LE a2 b2)
    (l3 : Ext.LE a3 b3) (n1 : a1 ≠ .posInf) (n2 : a2 ≠ .posInf) (n3 : a3 ≠ .posInf)
    (hb : ¬ indepBad3 a1 b1 a2 b2 a3 b3) :
    EVal.Nonneg (volume indep [a1, a2, a3] [b1, b2, b3]) := by
  have e : volume indep [a1, a2, a3] [b1, b2, b3] =
      .fin ((fv b1 - fv a1) * pinf b2 * pinf b3 + (fv b2 - fv a2) * pinf b1 * pinf b3
        + (fv b3 - fv a3) * pinf b1 * pinf b2) := by
    simp only [volume, corners, List.map, List.append, List.length_cons, List.length_nil, sumList,
      List.cons_append, List.nil_append, indep_three, pinf_lower a1 n1, pinf_lower a2 n2, pinf_lower a3 n3]
    simp
    ring
  rw [e]
  unfold indepBad3 at hb
  have t1 := indep_term_nonneg a1 b1 b2 b3 l1 n1
    (fun h2 h3 => ⟨fun h => hb (Or.inl ⟨h2, h3, Or.inl h⟩), fun h => hb (Or.inl ⟨h2, h3, Or.inr h⟩)⟩)
  have t2 := indep_term_nonneg a2 b2 b1 b3 l2 n2
    (fun h2 h3 => ⟨fun h => hb (Or.inr (Or.inl ⟨h2, h3, Or.inl h⟩)), fun h => hb (Or.inr (Or.inl ⟨h2, h3, Or.inr h⟩))⟩)
  have t3 := indep_term_nonneg a3 b3 b1 b2 l3 n3
    (fun h2 h3 => ⟨fun h => hb (Or.inr (Or.inr ⟨h2, h3, Or.inl h⟩)), fun h => hb (Or.inr (Or.inr ⟨h2, h3, Or.inr h⟩))⟩)
  show (0 : Rat) ≤ _
  linarith

end Rpylib.Copula
