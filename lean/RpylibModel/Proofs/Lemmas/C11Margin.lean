/-
Helper lemmas for C11: one-dimensional margins of the abstract-generator Clayton copula in d = 2, 3.
-/
import RpylibModel.Proofs.Lemmas.C11Clayton

set_option linter.unusedSectionVars false

namespace Rpylib.Copula

variable {K : Type} [Field K] [LinearOrder K] [IsStrictOrderedRing K]

theorem arg_negInf (G : Gen K) : G.arg .negInf = (true, 0) := rfl
theorem arg_posInf (G : Gen K) : G.arg .posInf = (false, 0) := rfl
theorem argZero_negInf (G : Gen K) : G.argZero .negInf = false := rfl
theorem argZero_posInf (G : Gen K) : G.argZero .posInf = false := rfl

theorem arg_fin_zero {G : Gen K} (hG : ClaytonGen G) : G.argZero (.fin 0) = true := by
  simp [Gen.argZero, (hG.isZero_iff 0).mpr rfl]

theorem arg_fin_pos {G : Gen K} (hG : ClaytonGen G) {a : K} (h : 0 < a) :
    G.argZero (.fin a) = false ∧ G.arg (.fin a) = (false, G.g a) ∧ G.psi (G.g a) = a := by
  refine ⟨?_, ?_, hG.psi_g a h⟩
  · rcases hz : G.isZero a with _ | _
    · simp [Gen.argZero, hz]
    · have := (hG.isZero_iff a).mp hz; linarith
  · rcases hn : G.isNeg a with _ | _
    · simp [Gen.arg, hn]
    · have := (hG.isNeg_iff a).mp hn; linarith

theorem arg_fin_neg {G : Gen K} (hG : ClaytonGen G) {a : K} (h : a < 0) :
    G.argZero (.fin a) = false ∧ G.arg (.fin a) = (true, G.g a) ∧ G.psi (G.g a) = -a := by
  refine ⟨?_, ?_, ?_⟩
  · rcases hz : G.isZero a with _ | _
    · simp [Gen.argZero, hz]
    · have := (hG.isZero_iff a).mp hz; linarith
  · simp [Gen.arg, (hG.isNeg_iff a).mpr h]
  · rw [← hG.g_even a]; exact hG.psi_g (-a) (by linarith)

/-- d = 2: both one-dimensional margins are the identity (every sign of the argument, every η) -/
theorem claytonOf_margin_d2 {G : Gen K} (hG : ClaytonGen G) (eta a : K) (i : Nat) (hi : i < 2) :
    margin (claytonOf G 1 eta) [i] 2 [.fin a] = a := by
  have hi' : i = 0 ∨ i = 1 := by omega
  rcases lt_trichotomy a 0 with h | h | h
  · obtain ⟨z, ar, pg⟩ := arg_fin_neg hG h
    rcases hi' with rfl | rfl <;>
      simp [margin, marginArgs, slot, findIdx, sumList, claytonOf, claytonG, sumG, countNeg, arg_negInf, arg_posInf,
        argZero_negInf, argZero_posInf, z, ar, pg] <;> ring
  · subst h
    have z := arg_fin_zero hG
    rcases hi' with rfl | rfl <;>
      simp [margin, marginArgs, slot, findIdx, sumList, claytonOf, z]
  · obtain ⟨z, ar, pg⟩ := arg_fin_pos hG h
    rcases hi' with rfl | rfl <;>
      simp [margin, marginArgs, slot, findIdx, sumList, claytonOf, claytonG, sumG, countNeg, arg_negInf, arg_posInf,
        argZero_negInf, argZero_posInf, z, ar, pg] <;> ring

/-- d = 3 (scale `2^(2-3) = 1/2`): the three one-dimensional margins are the identity -/
theorem claytonOf_margin_d3 {G : Gen K} (hG : ClaytonGen G) (eta a : K) (i : Nat) (hi : i < 3) :
    margin (claytonOf G (1 / 2) eta) [i] 3 [.fin a] = a := by
  have hi' : i = 0 ∨ i = 1 ∨ i = 2 := by omega
  rcases lt_trichotomy a 0 with h | h | h
  · obtain ⟨z, ar, pg⟩ := arg_fin_neg hG h
    rcases hi' with rfl | rfl | rfl <;>
      simp [margin, marginArgs, slot, findIdx, sumList, claytonOf, claytonG, sumG, countNeg, arg_negInf, arg_posInf,
        argZero_negInf, argZero_posInf, z, ar, pg] <;> ring
  · subst h
    have z := arg_fin_zero hG
    rcases hi' with rfl | rfl | rfl <;>
      simp [margin, marginArgs, slot, findIdx, sumList, claytonOf, z]
  · obtain ⟨z, ar, pg⟩ := arg_fin_pos hG h
    rcases hi' with rfl | rfl | rfl <;>
      simp [margin, marginArgs, slot, findIdx, sumList, claytonOf, claytonG, sumG, countNeg, arg_negInf, arg_posInf,
        argZero_negInf, argZero_posInf, z, ar, pg] <;> ring

/-- groundedness (the guard `if 0 in us: return 0.0`), any dimension -/
theorem claytonOf_grounded {G : Gen K} (hG : ClaytonGen G) (scale eta : K) (us : List (Ext K))
    (h : Ext.fin 0 ∈ us) : claytonOf G scale eta us = 0 := by
  have : us.any G.argZero = true := List.any_eq_true.mpr ⟨_, h, arg_fin_zero hG⟩
  simp [claytonOf, this]

end Rpylib.Copula
