/-
Helper lemmas for C02, n-dimensional adapted binary search: the draw function (bucket search, then axis-cycling
bisection / precomputed axis vector) returns `s` exactly on the explicit cells of `s`, for an arbitrary box-mass table `M`.
-/
import RpylibModel.Model.Samplers.AdaptedNd
import Mathlib.Tactic.Linarith
import Mathlib.Tactic.Ring
import Mathlib.Algebra.Order.Field.Rat

namespace Rpylib.AdaptedNd

/-- `u` lies in the cell -/
def Cell.has (c : Cell) (u : Rat) : Prop := c.2.1 < u ∧ u ≤ c.2.2

/-- a family of cells indexed by the enclosing interval `(lo, hi]` sends `u` to `v` -/
def Spec (u : Rat) (G : Rat → Rat → List Cell) (v : List Nat) : Prop :=
  ∀ lo hi, lo < u → u ≤ hi → (∃ c ∈ G lo hi, c.1 = v ∧ c.has u) ∧ (∀ c ∈ G lo hi, c.has u → c.1 = v)

/-- the cells stay inside the enclosing interval and are non-empty -/
def Bounds (G : Rat → Rat → List Cell) : Prop :=
  ∀ lo hi, ∀ c ∈ G lo hi, lo ≤ c.2.1 ∧ c.2.2 ≤ hi ∧ c.2.1 < c.2.2

theorem leaf_spec (u : Rat) (st : List Nat) : Spec u (leaf st) st := by
  intro lo hi h1 h2
  have hlt : lo < hi := lt_of_lt_of_le h1 h2
  simp only [leaf, if_pos hlt]
  exact ⟨⟨(st, lo, hi), by simp, rfl, ⟨h1, h2⟩⟩, by intro c hc _; simp at hc; subst hc; rfl⟩

theorem leaf_bounds (st : List Nat) : Bounds (leaf st) := by
  intro lo hi c hc
  simp only [leaf] at hc
  split_ifs at hc with h
  · simp at hc; subst hc; exact ⟨le_refl _, le_refl _, h⟩
  · simp at hc

/-- two families glued at a threshold `th`: left one on `(lo, min hi th]`, right one on `(max lo th, hi]` -/
theorem glue_spec {u th : Rat} {A B : Rat → Rat → List Cell} {va vb : List Nat}
    (hA : Spec u A va) (hAb : Bounds A) (hB : Spec u B vb) (hBb : Bounds B) :
    Spec u (fun lo hi => A lo (min hi th) ++ B (max lo th) hi) (if u > th then vb else va) := by
  intro lo hi h1 h2
  by_cases hu : u > th
  · rw [if_pos hu]
    obtain ⟨⟨c, hc, e1, e2⟩, hb⟩ := hB (max lo th) hi (max_lt h1 hu) h2
    refine ⟨⟨c, List.mem_append.mpr (Or.inr hc), e1, e2⟩, ?_⟩
    intro c' hc' hh
    rcases List.mem_append.mp hc' with h | h
    · have := (hAb _ _ c' h).2.1
      have : c'.2.2 ≤ th := le_trans this (min_le_right _ _)
      have := hh.2
      linarith
    · exact hb c' h hh
  · rw [if_neg hu]
    have hu' : u ≤ th := not_lt.mp hu
    obtain ⟨⟨c, hc, e1, e2⟩, hb⟩ := hA lo (min hi th) h1 (le_min h2 hu')
    refine ⟨⟨c, List.mem_append.mpr (Or.inl hc), e1, e2⟩, ?_⟩
    intro c' hc' hh
    rcases List.mem_append.mp hc' with h | h
    · exact hb c' h hh
    · have := (hBb _ _ c' h).1
      have : th ≤ c'.2.1 := le_trans (le_max_right _ _) this
      have := hh.1
      linarith

theorem glue_bounds {th : Rat} {A B : Rat → Rat → List Cell} (hAb : Bounds A) (hBb : Bounds B) :
    Bounds (fun lo hi => A lo (min hi th) ++ B (max lo th) hi) := by
  intro lo hi c hc
  rcases List.mem_append.mp hc with h | h
  · obtain ⟨a, b, c'⟩ := hAb _ _ c h
    exact ⟨a, le_trans b (min_le_left _ _), c'⟩
  · obtain ⟨a, b, c'⟩ := hBb _ _ c h
    exact ⟨le_trans (le_max_left _ _) a, b, c'⟩

/-! ### one sweep over the axes -/

theorem sweep_good (M : Box → Rat) (u : Rat) (cont : Box → Rat → Rat → Rat → List Cell) (F : Box → Rat → List Nat)
    (hc : ∀ res base, Spec u (cont res base) (F res (u - base)) ∧ Bounds (cont res base)) :
    ∀ (ks : List Nat) (res : Box) (base : Rat),
      Spec u (fun lo hi => cellsSweep M ks res base lo hi cont)
        (F (sweep M ks res (u - base)).1 (sweep M ks res (u - base)).2) ∧
      Bounds (fun lo hi => cellsSweep M ks res base lo hi cont) := by
  intro ks
  induction ks with
  | nil => intro res base; simpa only [cellsSweep, sweep] using hc res base
  | cons k ks ih =>
    intro res base
    cases hk : res[k]? with
    | none =>
      have e1 : stepAxis M k res (u - base) = (res, u - base) := by simp only [stepAxis, hk]
      simp only [cellsSweep, sweep, hk, e1]
      exact ih res base
    | some lr =>
      obtain ⟨l, r⟩ := lr
      by_cases hlr : l = r
      · have e1 : stepAxis M k res (u - base) = (res, u - base) := by simp only [stepAxis, hk, if_pos hlr]
        simp only [cellsSweep, sweep, hk, if_pos hlr, e1]
        exact ih res base
      · simp only [cellsSweep, sweep, hk, if_neg hlr]
        obtain ⟨hA, hAb⟩ := ih (res.set k (l, (l + r) / 2)) base
        obtain ⟨hB, hBb⟩ := ih (res.set k (min r ((l + r) / 2 + 1), r)) (base + M (res.set k (l, (l + r) / 2)))
        refine ⟨?_, glue_bounds hAb hBb⟩
        have hg := glue_spec (th := base + M (res.set k (l, (l + r) / 2))) hA hAb hB hBb
        have e : stepAxis M k res (u - base) =
            if u - base > M (res.set k (l, (l + r) / 2))
            then (res.set k (min r ((l + r) / 2 + 1), r), u - base - M (res.set k (l, (l + r) / 2)))
            else (res.set k (l, (l + r) / 2), u - base) := by
          simp only [stepAxis, hk, if_neg hlr]
        rw [e]
        by_cases hu : u > base + M (res.set k (l, (l + r) / 2))
        · have hu' : u - base > M (res.set k (l, (l + r) / 2)) := by linarith
          rw [if_pos hu] at hg
          rw [if_pos hu']
          have e2 : u - base - M (res.set k (l, (l + r) / 2)) = u - (base + M (res.set k (l, (l + r) / 2))) := by ring
          simp only [e2]
          exact hg
        · have hu' : ¬ u - base > M (res.set k (l, (l + r) / 2)) := by intro h; apply hu; linarith
          rw [if_neg hu] at hg
          rw [if_neg hu']
          exact hg

/-! ### the while loop -/

theorem search_good (M : Box → Rat) (u : Rat) : ∀ (fuel : Nat) (res : Box) (base : Rat),
    Spec u (cellsSearch M fuel res base) (corner (search M fuel res (u - base))) ∧ Bounds (cellsSearch M fuel res base) := by
  intro fuel
  induction fuel with
  | zero =>
    intro res base
    exact ⟨by simpa only [cellsSearch, search] using leaf_spec u (corner res),
      by simpa only [cellsSearch] using leaf_bounds (corner res)⟩
  | succ fuel ih =>
    intro res base
    by_cases hd : allDeg res
    · have e1 : cellsSearch M (fuel + 1) res base = leaf (corner res) := by
        funext lo hi; simp only [cellsSearch, if_pos hd]
      have e2 : search M (fuel + 1) res (u - base) = res := by simp only [search, if_pos hd]
      rw [e1, e2]
      exact ⟨leaf_spec u _, leaf_bounds _⟩
    · have e1 : cellsSearch M (fuel + 1) res base =
          fun lo hi => cellsSweep M (List.range res.length) res base lo hi (cellsSearch M fuel) := by
        funext lo hi; simp only [cellsSearch, if_neg hd]
      have e2 : search M (fuel + 1) res (u - base) =
          search M fuel (sweep M (List.range res.length) res (u - base)).1 (sweep M (List.range res.length) res (u - base)).2 := by
        simp only [search, if_neg hd]
      rw [e1, e2]
      exact sweep_good M u (cellsSearch M fuel) (fun r cp => corner (search M fuel r cp)) ih (List.range res.length) res base

/-! ### precomputed axis vector -/

theorem bisect_good (u : Rat) (st : Nat → List Nat) (base : Rat) : ∀ (cs : List Rat) (j : Nat),
    Spec u (cellsBisect st cs j base) (st (j + bisectLeft cs (u - base))) ∧ Bounds (cellsBisect st cs j base) := by
  intro cs
  induction cs with
  | nil =>
    intro j
    exact ⟨by simpa only [cellsBisect, bisectLeft, Nat.add_zero] using leaf_spec u (st j),
      by simpa only [cellsBisect] using leaf_bounds (st j)⟩
  | cons c cs ih =>
    intro j
    obtain ⟨hB, hBb⟩ := ih (j + 1)
    have e1 : cellsBisect st (c :: cs) j base =
        fun lo hi => leaf (st j) lo (min hi (base + c)) ++ cellsBisect st cs (j + 1) base (max lo (base + c)) hi := by
      funext lo hi; simp only [cellsBisect]
    rw [e1]
    refine ⟨?_, glue_bounds (leaf_bounds _) hBb⟩
    have hg := glue_spec (th := base + c) (leaf_spec u (st j)) (leaf_bounds _) hB hBb
    simp only [bisectLeft]
    by_cases hu : u > base + c
    · have hu' : ¬ u - base ≤ c := by intro h; linarith
      rw [if_pos hu] at hg
      rw [if_neg hu']
      have e : j + (bisectLeft cs (u - base) + 1) = j + 1 + bisectLeft cs (u - base) := by omega
      rw [e]; exact hg
    · have hu' : u - base ≤ c := by linarith
      rw [if_neg hu] at hg
      rw [if_pos hu', Nat.add_zero]; exact hg

theorem bucket_good (M : Box → Rat) (u : Rat) (bk : Bucket) (base : Rat) :
    Spec u (cellsBucket M bk base) (drawBucket M bk (u - base)) ∧ Bounds (cellsBucket M bk base) := by
  by_cases ha : bk.isAxis
  · have e1 : cellsBucket M bk base = cellsBisect (axisState bk.box) bk.axisCum 0 base := by
      funext lo hi; simp only [cellsBucket, if_pos ha]
    have e2 : drawBucket M bk (u - base) = axisState bk.box (bisectLeft bk.axisCum (u - base)) := by
      simp only [drawBucket, if_pos ha]
    rw [e1, e2]
    simpa only [Nat.zero_add] using bisect_good u (axisState bk.box) base bk.axisCum 0
  · have e1 : cellsBucket M bk base = cellsSearch M (fuelOf bk.box) bk.box base := by
      funext lo hi; simp only [cellsBucket, if_neg ha]
    have e2 : drawBucket M bk (u - base) = corner (search M (fuelOf bk.box) bk.box (u - base)) := by
      simp only [drawBucket, if_neg ha]; rfl
    rw [e1, e2]
    exact search_good M u _ _ _

/-! ### the bucket search -/

theorem cellsFrom_lower (M : Box → Rat) : ∀ (bks : List Bucket) (base lo : Rat),
    ∀ c ∈ cellsFrom M bks base lo, lo ≤ c.2.1 ∧ c.2.1 < c.2.2 := by
  intro bks
  induction bks with
  | nil => intro base lo c hc; simp [cellsFrom] at hc
  | cons bk bks ih =>
    intro base lo c hc
    simp only [cellsFrom] at hc
    rcases List.mem_append.mp hc with h | h
    · obtain ⟨a, _, b⟩ := (bucket_good M 0 bk base).2 lo bk.cumP c h
      exact ⟨a, b⟩
    · obtain ⟨a, b⟩ := ih _ _ c h
      exact ⟨le_trans (le_max_left _ _) a, b⟩

/-- the bucket search: beyond the last cumulated probability no cell, otherwise exactly the cells of the drawn state -/
theorem from_spec (M : Box → Rat) (u : Rat) : ∀ (bks : List Bucket) (base lo : Rat), lo < u →
    match findBucket bks u base with
    | none => ∀ c ∈ cellsFrom M bks base lo, ¬ c.has u
    | some (bk, b') =>
      (∃ c ∈ cellsFrom M bks base lo, c.1 = drawBucket M bk (u - b') ∧ c.has u) ∧
      (∀ c ∈ cellsFrom M bks base lo, c.has u → c.1 = drawBucket M bk (u - b')) := by
  intro bks
  induction bks with
  | nil => intro base lo _; simp [findBucket, cellsFrom]
  | cons bk bks ih =>
    intro base lo hlo
    simp only [findBucket, cellsFrom]
    obtain ⟨hS, hBd⟩ := bucket_good M u bk base
    by_cases hu : u ≤ bk.cumP
    · rw [if_pos hu]
      obtain ⟨⟨c, hc, e1, e2⟩, hb⟩ := hS lo bk.cumP hlo hu
      refine ⟨⟨c, List.mem_append.mpr (Or.inl hc), e1, e2⟩, ?_⟩
      intro c' hc' hh
      rcases List.mem_append.mp hc' with h | h
      · exact hb c' h hh
      · have := (cellsFrom_lower M bks _ _ c' h).1
        have : bk.cumP ≤ c'.2.1 := le_trans (le_max_right _ _) this
        have := hh.1
        linarith
    · rw [if_neg hu]
      have hu' : bk.cumP < u := not_le.mp hu
      have hrec := ih bk.cumP (max lo bk.cumP) (max_lt hlo hu')
      have hnot : ∀ c ∈ cellsBucket M bk base lo bk.cumP, ¬ c.has u := by
        intro c hc hh
        have := (hBd lo bk.cumP c hc).2.1
        have := hh.2
        linarith
      cases hf : findBucket bks u bk.cumP with
      | none =>
        rw [hf] at hrec
        intro c hc
        rcases List.mem_append.mp hc with h | h
        · exact hnot c h
        · exact hrec c h
      | some p =>
        obtain ⟨bk', b'⟩ := p
        rw [hf] at hrec
        obtain ⟨⟨c, hc, e1, e2⟩, hb⟩ := hrec
        refine ⟨⟨c, List.mem_append.mpr (Or.inr hc), e1, e2⟩, ?_⟩
        intro c' hc' hh
        rcases List.mem_append.mp hc' with h | h
        · exact absurd hh (hnot c' h)
        · exact hb c' h hh

theorem findBucket_none (u : Rat) : ∀ (bks : List Bucket) (base : Rat),
    findBucket bks u base = none ↔ ∀ bk ∈ bks, bk.cumP < u := by
  intro bks
  induction bks with
  | nil => intro base; simp [findBucket]
  | cons bk bks ih =>
    intro base
    simp only [findBucket]
    by_cases hu : u ≤ bk.cumP
    · rw [if_pos hu]
      constructor
      · intro h; cases h
      · intro h; have := h bk (by simp); linarith
    · rw [if_neg hu, ih]
      constructor
      · intro h b hb
        rcases List.mem_cons.mp hb with rfl | hb
        · exact not_le.mp hu
        · exact h b hb
      · intro h b hb; exact h b (by simp [hb])

end Rpylib.AdaptedNd
