/-
C06 — the Giles allocation does not depend on the unit in which costs are expressed: `N_l` is invariant under `C ↦ k·C` for
every k > 0 (over ℝ with exact square roots, and for the executable root-form model), so the budget theorem
`alloc_budget_partial` needs `C_l > 0` only — no lower bound on the costs.  Only a cost that is *exactly* zero is special
(it is replaced by 1e30 inside the first root, criteria.py:36-39; known finding C06-zero-cost-level).
-/
import RpylibModel.Model.Alloc
import Mathlib.Tactic.Linarith
import Mathlib.Tactic.Ring
import Mathlib.Tactic.FieldSimp
import Mathlib.Tactic.Positivity
import Mathlib.Algebra.Order.Field.Rat
import Mathlib.Algebra.BigOperators.Group.Finset.Basic
import Mathlib.Algebra.Order.BigOperators.Group.Finset
import Mathlib.Algebra.Order.Floor.Ring
import Mathlib.Analysis.SpecialFunctions.Sqrt

open Finset

namespace Rpylib.Alloc

/-- **over ℝ**: the sample sizes for costs `k·C` are those for costs `C`, for every positive factor k -/
theorem alloc_scale_invariant (n : ℕ) (V C : ℕ → ℝ) (B k : ℝ) (hk : 0 < k) (l : ℕ) :
    ⌈Real.sqrt (V l / (k * C l)) * (∑ j ∈ range n, Real.sqrt (V j * (k * C j))) / B⌉
      = ⌈Real.sqrt (V l / C l) * (∑ j ∈ range n, Real.sqrt (V j * C j)) / B⌉ := by
  have hsk : 0 < Real.sqrt k := Real.sqrt_pos.mpr hk
  have h1 : Real.sqrt (V l / (k * C l)) = Real.sqrt (V l / C l) / Real.sqrt k := by
    have : V l / (k * C l) = (V l / C l) / k := by rw [div_div, mul_comm]
    rw [this, Real.sqrt_div' _ hk.le]
  have h2 : ∀ j, Real.sqrt (V j * (k * C j)) = Real.sqrt k * Real.sqrt (V j * C j) := by
    intro j
    have : V j * (k * C j) = k * (V j * C j) := by ring
    rw [this, Real.sqrt_mul hk.le]
  have h3 : (∑ j ∈ range n, Real.sqrt (V j * (k * C j))) = Real.sqrt k * ∑ j ∈ range n, Real.sqrt (V j * C j) := by
    rw [Finset.mul_sum]; exact Finset.sum_congr rfl (fun j _ => h2 j)
  rw [h1, h3]
  congr 1
  field_simp

theorem listSum_map_mul (κ : Rat) (b : List Rat) : listSum (b.map (κ * ·)) = κ * listSum b := by
  induction b with
  | nil => simp [listSum]
  | cons x t ih => simp only [listSum, List.map_cons, List.foldr_cons] at ih ⊢; rw [ih]; ring

/-- root form: dividing every `a_l` and multiplying every `b_l` by the same κ ≠ 0 leaves every `N_l` unchanged -/
theorem allocFromRoots_scale (a b : List Rat) (B κ : Rat) (hκ : κ ≠ 0) :
    allocFromRoots (a.map (· / κ)) (b.map (κ * ·)) B = allocFromRoots a b B := by
  unfold allocFromRoots
  simp only [List.map_map, listSum_map_mul]
  apply List.map_congr_left
  intro al _
  simp only [Function.comp]
  congr 1
  field_simp

theorem zipWith_rootA_scale (κ : Rat) (hκ : κ ≠ 0) : ∀ (v c : List Rat), (∀ x ∈ c, x ≠ 0) →
    List.zipWith rootA v (c.map (κ * ·)) = (List.zipWith rootA v c).map (· / κ)
  | [], _, _ => by simp
  | _ :: _, [], _ => by simp
  | x :: v, y :: c, h => by
    have hy : y ≠ 0 := h y (by simp)
    have hky : κ * y ≠ 0 := mul_ne_zero hκ hy
    simp only [List.map_cons, List.zipWith_cons_cons]
    rw [zipWith_rootA_scale κ hκ v c (fun z hz => h z (by simp [hz]))]
    congr 1
    unfold rootA
    rw [if_neg hy, if_neg hky]
    field_simp

theorem zipWith_rootB_scale (κ : Rat) : ∀ (v c : List Rat),
    List.zipWith rootB v (c.map (κ * ·)) = (List.zipWith rootB v c).map (κ * ·)
  | [], _ => by simp
  | _ :: _, [] => by simp
  | x :: v, y :: c => by
    simp only [List.map_cons, List.zipWith_cons_cons]
    rw [zipWith_rootB_scale κ v c]
    congr 1
    unfold rootB; ring

/-- **the executable allocation is invariant under a rescaling of all (non-zero) costs**: with cost roots `κ·c_l`
    (costs `κ²·C_l`), `giles` returns the same sample sizes -/
theorem giles_scale_invariant (theta rmse κ : Rat) (hκ : κ ≠ 0) (v c : List Rat) (hc : ∀ x ∈ c, x ≠ 0) :
    giles theta rmse v (c.map (κ * ·)) = giles theta rmse v c := by
  unfold giles
  rw [zipWith_rootA_scale κ hκ v c hc, zipWith_rootB_scale κ v c]
  exact allocFromRoots_scale _ _ _ κ hκ

/-- non-vacuity: costs scaled by 2^-40 (roots by 2^-20) give the same sizes; a cost of exactly 0 is NOT covered (known finding) -/
example : giles (1/4) (1/8) [1, 1/2, 1/4] [1 / 1048576, 2 / 1048576, 4 / 1048576] = giles (1/4) (1/8) [1, 1/2, 1/4] [1, 2, 4] := by
  decide +kernel

end Rpylib.Alloc
