/-
C18 — Black–Scholes closed form as a function of the strike (helper file), over ℝ, for the model's own `bsRegular` /
`bsDigitalRegular` (Model/Pricers.lean) with `lg = log(F/K)`, `sd = σ√T > 0`.
Hypotheses on the normal distribution function: `Φ' = φ`, `φ x = c·exp(-x²/2)` with `c > 0` (Gaussian shape; only the
ratio `φ(d1)/φ(d2) = K/F` is used), and `0 ≤ Φ` for the sign of the slope.
-/
import RpylibModel.Model.Pricers
import Mathlib.Analysis.SpecialFunctions.Log.Deriv
import Mathlib.Analysis.SpecialFunctions.ExpDeriv
import Mathlib.Analysis.Calculus.Deriv.MeanValue
import Mathlib.Analysis.Convex.Deriv
import Mathlib.Tactic.Linarith
import Mathlib.Tactic.Ring
import Mathlib.Tactic.FieldSimp

namespace Rpylib.Pricers.BS
open Real Set

/-- the hypotheses on `(Φ, φ)` -/
structure NormalLike (Φ φ : ℝ → ℝ) (c : ℝ) : Prop where
  deriv : ∀ x, HasDerivAt Φ (φ x) x
  shape : ∀ x, φ x = c * exp (-(x ^ 2) / 2)
  cpos : 0 < c

/-- Black–Scholes call as a function of the strike: the model's regular branch at `lg = log(F/K)` -/
noncomputable def callK (Φ : ℝ → ℝ) (df F sd K : ℝ) : ℝ := bsRegular Φ 1 df F K (log (F / K)) sd

/-- Black–Scholes digital as a function of the strike, computed with the forward `F'` (the code recomputes the forward
inside `digital`) -/
noncomputable def digitalK (Φ : ℝ → ℝ) (df F' sd K : ℝ) : ℝ := bsDigitalRegular Φ df (log (F' / K)) sd

/-- the digital's own `d2` is `_call_put`'s `d2` -/
theorem digitalArg_eq_d2 (lg sd : ℝ) : bsDigitalArg lg sd = bsD2 lg sd := by
  unfold bsDigitalArg bsD2 bsD1; ring

variable {Φ φ : ℝ → ℝ} {c : ℝ}

theorem NormalLike.phi_pos (h : NormalLike Φ φ c) (x : ℝ) : 0 < φ x := by
  rw [h.shape]; exact mul_pos h.cpos (exp_pos _)

theorem NormalLike.strictMono (h : NormalLike Φ φ c) : StrictMono Φ :=
  strictMono_of_deriv_pos fun x => by rw [(h.deriv x).deriv]; exact h.phi_pos x

theorem NormalLike.continuous (h : NormalLike Φ φ c) : Continuous Φ :=
  continuous_iff_continuousAt.mpr fun x => (h.deriv x).continuousAt

/-- Gaussian ratio: `F·φ(d1) = K·φ(d2)` -/
theorem gaussian_ratio (h : NormalLike Φ φ c) (F K sd : ℝ) (hF : 0 < F) (hK : 0 < K) (hsd : sd ≠ 0) :
    F * φ (bsD1 (log (F / K)) sd) = K * φ (bsD2 (log (F / K)) sd) := by
  rw [h.shape, h.shape]
  have e : -(bsD1 (log (F / K)) sd ^ 2) / 2 = -(bsD2 (log (F / K)) sd ^ 2) / 2 - log (F / K) := by
    unfold bsD2 bsD1; field_simp; ring
  rw [e, sub_eq_add_neg, exp_add, exp_neg, exp_log (div_pos hF hK)]
  field_simp

theorem hasDerivAt_logFK (F K : ℝ) (hF : 0 < F) (hK : 0 < K) : HasDerivAt (fun k => log (F / k)) (-(1 / K)) K := by
  have h1 : HasDerivAt (fun k : ℝ => F / k) (-(F / K ^ 2)) K := by
    have := (hasDerivAt_inv hK.ne').const_mul F
    refine (this.congr_deriv ?_).congr_of_eventuallyEq (Filter.Eventually.of_forall fun k => ?_)
    · field_simp
    · simp [div_eq_mul_inv]
  have h2 := h1.log (div_pos hF hK).ne'
  refine h2.congr_deriv ?_
  field_simp

theorem hasDerivAt_d (F K sd : ℝ) (hF : 0 < F) (hK : 0 < K) :
    HasDerivAt (fun k => bsD1 (log (F / k)) sd) (-(1 / K) / sd) K ∧
    HasDerivAt (fun k => bsD2 (log (F / k)) sd) (-(1 / K) / sd) K := by
  have h := hasDerivAt_logFK F K hF hK
  have h1 : HasDerivAt (fun k => bsD1 (log (F / k)) sd) (-(1 / K) / sd) K := by
    unfold bsD1
    exact (h.div_const sd).add_const _
  refine ⟨h1, ?_⟩
  unfold bsD2
  exact h1.sub_const sd

/-- **digital = −∂call/∂K**: the strike derivative of the closed-form call is minus the closed-form digital computed
with the SAME forward and the same `sd` -/
theorem hasDerivAt_callK (h : NormalLike Φ φ c) (df F sd K : ℝ) (hF : 0 < F) (hK : 0 < K) (hsd : 0 < sd) :
    HasDerivAt (callK Φ df F sd) (-(digitalK Φ df F sd K)) K := by
  obtain ⟨hd1, hd2⟩ := hasDerivAt_d F K sd hF hK
  have hΦ1 := (h.deriv (bsD1 (log (F / K)) sd)).comp K hd1
  have hΦ2 := (h.deriv (bsD2 (log (F / K)) sd)).comp K hd2
  have hK' : HasDerivAt (fun k : ℝ => k) 1 K := hasDerivAt_id K
  have hmain := ((hΦ1.const_mul F).sub (hK'.mul hΦ2)).const_mul (df * 1)
  have hmain2 : HasDerivAt (callK Φ df F sd) (df * 1 *
      (F * (φ (bsD1 (log (F / K)) sd) * (-(1 / K) / sd)) -
        (1 * (Φ ∘ fun k => bsD2 (log (F / k)) sd) K + K * (φ (bsD2 (log (F / K)) sd) * (-(1 / K) / sd))))) K := by
    refine hmain.congr_of_eventuallyEq (Filter.Eventually.of_forall fun k => ?_)
    simp [callK, bsRegular]
  refine hmain2.congr_deriv ?_
  have hg := gaussian_ratio h F K sd hF hK hsd.ne'
  unfold digitalK bsDigitalRegular
  rw [digitalArg_eq_d2]
  have hK0 := hK.ne'
  have hs0 := hsd.ne'
  simp only [Function.comp_apply]
  field_simp
  linear_combination (-df) * hg

theorem continuousOn_callK (h : NormalLike Φ φ c) (df F sd : ℝ) (hF : 0 < F) (hsd : 0 < sd) :
    ContinuousOn (callK Φ df F sd) (Ioi 0) :=
  fun K hK => (hasDerivAt_callK h df F sd K hF hK hsd).continuousAt.continuousWithinAt

theorem deriv_callK (h : NormalLike Φ φ c) (df F sd K : ℝ) (hF : 0 < F) (hK : 0 < K) (hsd : 0 < sd) :
    deriv (callK Φ df F sd) K = -(digitalK Φ df F sd K) :=
  (hasDerivAt_callK h df F sd K hF hK hsd).deriv

/-- `d2` decreases in the strike -/
theorem d2_antitone (F sd : ℝ) (hF : 0 < F) (hsd : 0 < sd) {K1 K2 : ℝ} (h1 : 0 < K1) (h12 : K1 ≤ K2) :
    bsD2 (log (F / K2)) sd ≤ bsD2 (log (F / K1)) sd := by
  unfold bsD2 bsD1
  have : log (F / K2) ≤ log (F / K1) :=
    log_le_log (div_pos hF (lt_of_lt_of_le h1 h12)) (div_le_div_of_nonneg_left hF.le h1 h12)
  have := div_le_div_of_nonneg_right this hsd.le
  linarith

/-- the closed-form digital decreases in the strike -/
theorem digitalK_antitoneOn (h : NormalLike Φ φ c) (df F sd : ℝ) (hdf : 0 ≤ df) (hF : 0 < F) (hsd : 0 < sd) :
    AntitoneOn (digitalK Φ df F sd) (Ioi 0) := by
  intro K1 h1 K2 _ h12
  unfold digitalK bsDigitalRegular
  rw [digitalArg_eq_d2, digitalArg_eq_d2]
  exact mul_le_mul_of_nonneg_left (h.strictMono.monotone (d2_antitone F sd hF hsd h1 h12)) hdf

/-- the closed-form call decreases in the strike (needs `Φ ≥ 0`) -/
theorem callK_antitoneOn (h : NormalLike Φ φ c) (h0 : ∀ x, 0 ≤ Φ x) (df F sd : ℝ) (hdf : 0 ≤ df) (hF : 0 < F)
    (hsd : 0 < sd) : AntitoneOn (callK Φ df F sd) (Ioi 0) := by
  refine antitoneOn_of_deriv_nonpos (convex_Ioi 0) (continuousOn_callK h df F sd hF hsd) ?_ ?_
  · rw [interior_Ioi]
    exact fun K hK => (hasDerivAt_callK h df F sd K hF hK hsd).differentiableAt.differentiableWithinAt
  · rw [interior_Ioi]
    intro K hK
    rw [deriv_callK h df F sd K hF hK hsd]
    unfold digitalK bsDigitalRegular
    have := mul_nonneg hdf (h0 (bsDigitalArg (log (F / K)) sd))
    linarith

/-- the closed-form call is convex in the strike -/
theorem callK_convexOn (h : NormalLike Φ φ c) (df F sd : ℝ) (hdf : 0 ≤ df) (hF : 0 < F) (hsd : 0 < sd) :
    ConvexOn ℝ (Ioi 0) (callK Φ df F sd) := by
  refine MonotoneOn.convexOn_of_deriv (convex_Ioi 0) (continuousOn_callK h df F sd hF hsd) ?_ ?_
  · rw [interior_Ioi]
    exact fun K hK => (hasDerivAt_callK h df F sd K hF hK hsd).differentiableAt.differentiableWithinAt
  · rw [interior_Ioi]
    intro K1 h1 K2 h2 h12
    rw [deriv_callK h df F sd K1 hF h1 hsd, deriv_callK h df F sd K2 hF h2 hsd]
    have := digitalK_antitoneOn h df F sd hdf hF hsd h1 h2 h12
    linarith

/-- the slope of the call lies in `[-df, 0]` when `0 ≤ Φ ≤ 1` -/
theorem callK_slope (h : NormalLike Φ φ c) (h0 : ∀ x, 0 ≤ Φ x) (h1 : ∀ x, Φ x ≤ 1) (df F sd K : ℝ) (hdf : 0 ≤ df)
    (hF : 0 < F) (hK : 0 < K) (hsd : 0 < sd) :
    -df ≤ deriv (callK Φ df F sd) K ∧ deriv (callK Φ df F sd) K ≤ 0 := by
  rw [deriv_callK h df F sd K hF hK hsd]
  unfold digitalK bsDigitalRegular
  have a := mul_nonneg hdf (h0 (bsDigitalArg (log (F / K)) sd))
  have b := mul_le_mul_of_nonneg_left (h1 (bsDigitalArg (log (F / K)) sd)) hdf
  constructor <;> linarith

/-- **a forward with a dropped (or otherwise wrong) carry inside the digital is a contradiction**: if the digital computed
with a forward `F'` is minus the strike derivative of the call computed with `F`, then `F' = F` -/
theorem digital_forward_unique (h : NormalLike Φ φ c) (df F F' sd K : ℝ) (hdf : 0 < df) (hF : 0 < F) (hF' : 0 < F')
    (hK : 0 < K) (hsd : 0 < sd) (hD : HasDerivAt (callK Φ df F sd) (-(digitalK Φ df F' sd K)) K) : F' = F := by
  have huniq := hD.unique (hasDerivAt_callK h df F sd K hF hK hsd)
  unfold digitalK bsDigitalRegular at huniq
  have h2 : Φ (bsDigitalArg (log (F' / K)) sd) = Φ (bsDigitalArg (log (F / K)) sd) := by
    have := neg_injective huniq
    exact mul_left_cancel₀ hdf.ne' this
  have h3 := h.strictMono.injective h2
  unfold bsDigitalArg at h3
  have h4 : log (F' / K) = log (F / K) := by
    have : log (F' / K) / sd = log (F / K) / sd := by linarith
    field_simp at this
    exact this
  have h5 := log_injOn_pos (Set.mem_Ioi.mpr (div_pos hF' hK)) (Set.mem_Ioi.mpr (div_pos hF hK)) h4
  field_simp at h5
  exact h5

/-- in particular: with a non-zero dividend yield `q` and `T > 0`, the digital built from `spot·e^{rT}` (dividend dropped,
seeded change C18-c) cannot be minus the strike derivative of the call built from `spot·e^{(r-q)T}` -/
theorem dropped_dividend_contradiction (h : NormalLike Φ φ c) (df spot r q T sd K : ℝ) (hdf : 0 < df) (hspot : 0 < spot)
    (hq : q ≠ 0) (hT : 0 < T) (hK : 0 < K) (hsd : 0 < sd) :
    ¬ HasDerivAt (callK Φ df (spot * exp ((r - q) * T)) sd) (-(digitalK Φ df (spot * exp (r * T)) sd K)) K := by
  intro hD
  have := digital_forward_unique h df _ _ sd K hdf (mul_pos hspot (exp_pos _)) (mul_pos hspot (exp_pos _)) hK hsd hD
  have h2 : exp (r * T) = exp ((r - q) * T) := mul_left_cancel₀ hspot.ne' this
  have h3 := exp_injective h2
  have : q * T = 0 := by linarith
  rcases mul_eq_zero.mp this with h4 | h4
  · exact hq h4
  · exact hT.ne' h4

end Rpylib.Pricers.BS
