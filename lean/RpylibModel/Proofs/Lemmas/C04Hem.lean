/-
C04, HEM instance: the closed forms of `hem.py` (`integrate`, `integrate_against_x`, `integrate_against_xx`; model
`Integrals.hemTerms k`, k = 0, 1, 2, the very lists of exponential terms C09 compares with the implementation) satisfy
additivity, non-negativity and the sandwich laws on one-sided intervals with no special-function hypothesis:
`hemVal 0 / 1 / 2` are `IsMassV`, `IsFirstMomentV`, `IsSecondMomentV` over ℝ, hence `variance_gap_hem`, `mean_gap_hem`.

Uses C09's lemmas (Lemmas/C09Hem.lean: `integral_hem_pos`, `integral_hem_neg`, `cast_hemPosTerm`, `cast_hemNegTerm`,
the antiderivative `Phi`), unchanged.  On one-sided intervals `hemVal_eq_integral` is C09's `hem_correct` (re-derived here
from the same lemmas so that this file does not depend on the whole of Proofs/C09.lean).
-/
import RpylibModel.Proofs.Lemmas.C04Density
import RpylibModel.Proofs.Lemmas.C09Hem

set_option linter.dupNamespace false
set_option linter.unusedSectionVars false
set_option linter.unusedVariables false

namespace Rpylib.Drift
open Rpylib.Grid Rpylib.Cells Rpylib.Integrals Finset MeasureTheory Real

/-! ### transfer of the hypotheses along agreement on one-sided intervals -/

theorem IsMassV.congr {m m' : ℚ → ℚ → ℝ} (h : IsMassV m) (e : ∀ a b, a ≤ b → Away a b → m' a b = m a b) : IsMassV m' := by
  constructor
  · intro a b c hab hbc haw
    rw [e a c (le_trans hab hbc) haw, e a b hab (away_sub haw (le_refl _) hbc), e b c hbc (away_sub haw hab (le_refl _))]
    exact h.add a b c hab hbc haw
  · intro a b hab haw; rw [e a b hab haw]; exact h.nonneg a b hab haw

theorem IsFirstMomentV.congr {m m' m1 m1' : ℚ → ℚ → ℝ} (h : IsFirstMomentV m m1)
    (e : ∀ a b, a ≤ b → Away a b → m' a b = m a b) (e1 : ∀ a b, a ≤ b → Away a b → m1' a b = m1 a b) :
    IsFirstMomentV m' m1' := by
  constructor
  · intro a b c hab hbc haw
    rw [e1 a c (le_trans hab hbc) haw, e1 a b hab (away_sub haw (le_refl _) hbc), e1 b c hbc (away_sub haw hab (le_refl _))]
    exact h.add a b c hab hbc haw
  · intro a b hab haw; rw [e a b hab haw, e1 a b hab haw]; exact h.bound a b hab haw

theorem IsSecondMomentV.congr {m m' m2 m2' : ℚ → ℚ → ℝ} (h : IsSecondMomentV m m2)
    (e : ∀ a b, a ≤ b → Away a b → m' a b = m a b) (e2 : ∀ a b, a ≤ b → Away a b → m2' a b = m2 a b) :
    IsSecondMomentV m' m2' := by
  refine ⟨h.mass.congr e2, ?_, ?_⟩
  · intro a b ha hab
    rw [e a b hab (Or.inr ha), e2 a b hab (Or.inr ha)]; exact h.pos a b ha hab
  · intro a b hab hb
    rw [e a b hab (Or.inl hb), e2 a b hab (Or.inl hb)]; exact h.neg a b hab hb

/-! ### the HEM density is a Lévy density -/

theorem isLevyDensity_hem (lam p eta1 eta2 : ℝ) (hl : 0 ≤ lam) (hp0 : 0 ≤ p) (hp1 : p ≤ 1) (h1 : 0 ≤ eta1) (h2 : 0 ≤ eta2) :
    IsLevyDensity (hemDensity lam p eta1 eta2) := by
  constructor
  · intro x _
    unfold hemDensity
    have : 0 ≤ 1 - p := by linarith
    apply mul_nonneg hl
    apply add_nonneg <;> split_ifs <;> positivity
  · intro a b hab haw
    rcases haw with hb | ha
    · have hc : Continuous fun x : ℝ => lam * ((1 - p) * eta2 * exp (eta2 * x)) := by fun_prop
      refine (hc.intervalIntegrable a b).congr_uIoo ?_
      intro x hx
      rw [Set.uIoo_of_le hab] at hx
      have hxneg : x < 0 := lt_trans hx.2 hb
      have : ¬ 0 < x := not_lt.mpr hxneg.le
      simp only [hemDensity, hxneg, this, if_true, if_false, zero_add]
    · have hc : Continuous fun x : ℝ => lam * (p * eta1 * exp (-(eta1 * x))) := by fun_prop
      refine (hc.intervalIntegrable a b).congr_uIoo ?_
      intro x hx
      rw [Set.uIoo_of_le hab] at hx
      have hxpos : 0 < x := lt_trans ha hx.1
      have : ¬ x < 0 := not_lt.mpr hxpos.le
      simp only [hemDensity, hxpos, this, if_true, if_false, add_zero]

/-! ### the closed forms as real numbers -/

/-- real value of the HEM closed form for `∫_a^b x^k ν(dx)` as `hem.py` computes it (0 where the code raises) -/
noncomputable def hemVal (k : ℕ) (lam p eta1 eta2 : ℚ) (a b : ℚ) : ℝ :=
  match hemTerms k lam p eta1 eta2 (.fin a) (.fin b) with
  | some ts => evalTerms ts
  | none => 0

/-- on one-sided intervals the closed form is the integral of `x^k ·` the model's own density (C09 `hem_correct`) -/
theorem hemVal_eq_integral (k : ℕ) (hk : k ≤ 2) (lam p eta1 eta2 : ℚ) (h1 : eta1 ≠ 0) (h2 : eta2 ≠ 0) (a b : ℚ)
    (hab : a ≤ b) (haw : Away a b) :
    hemVal k lam p eta1 eta2 a b = densMoment k (hemDensity lam p eta1 eta2) a b := by
  have h1R : ((eta1 : ℚ) : ℝ) ≠ 0 := by exact_mod_cast h1
  have h2R : ((eta2 : ℚ) : ℝ) ≠ 0 := by exact_mod_cast h2
  have habR : (a : ℝ) ≤ b := by exact_mod_cast hab
  have hnlt : ¬ b < a := not_lt.mpr hab
  unfold densMoment
  rcases haw with hb | ha
  · have hbR : (b : ℝ) ≤ 0 := by exact_mod_cast hb.le
    have ht : hemTerms k lam p eta1 eta2 (.fin a) (.fin b) =
        some [hemNegTerm k (lam * (1 - p)) eta2 b, negTerm (hemNegTerm k (lam * (1 - p)) eta2 a)] := by
      simp only [hemTerms, ExtRat.lt, ExtRat.le, hemNeg, decide_eq_true_eq, hnlt, not_lt.mpr hb.le]
      simp
    unfold hemVal; rw [ht]; simp only
    rw [eval_pair_neg, cast_hemNegTerm k hk, cast_hemNegTerm k hk]
    have := integral_hem_neg k hk (lam : ℝ) (p : ℝ) (eta1 : ℝ) (eta2 : ℝ) h2R a b hbR habR
    rw [this]; push_cast; ring
  · have haR : (0 : ℝ) ≤ a := by exact_mod_cast ha.le
    have hb' : 0 < b := lt_of_lt_of_le ha hab
    have ht : hemTerms k lam p eta1 eta2 (.fin a) (.fin b) =
        some [hemPosTerm k (lam * p) eta1 a, negTerm (hemPosTerm k (lam * p) eta1 b)] := by
      simp only [hemTerms, ExtRat.lt, ExtRat.le, hemPos, decide_eq_true_eq, hnlt, hb', not_lt.mpr ha.le]
      simp
    unfold hemVal; rw [ht]; simp only
    rw [eval_pair_neg, cast_hemPosTerm k hk, cast_hemPosTerm k hk]
    have := integral_hem_pos k hk (lam : ℝ) (p : ℝ) (eta1 : ℝ) (eta2 : ℝ) h1R a b haR habR
    rw [this]; push_cast; ring

section hem
variable (lam p eta1 eta2 : ℚ) (hl : 0 ≤ lam) (hp0 : 0 ≤ p) (hp1 : p ≤ 1) (h1 : 0 < eta1) (h2 : 0 < eta2)
include hl hp0 hp1 h1 h2

theorem hem_levyDensity : IsLevyDensity (hemDensity lam p eta1 eta2) :=
  isLevyDensity_hem _ _ _ _ (by exact_mod_cast hl) (by exact_mod_cast hp0) (by exact_mod_cast hp1)
    (by exact_mod_cast h1.le) (by exact_mod_cast h2.le)

/-- **HEM `integrate` is additive and non-negative on one-sided intervals** -/
theorem hem_isMassV : IsMassV (hemVal 0 lam p eta1 eta2) :=
  (densMoment_isMassV (hem_levyDensity lam p eta1 eta2 hl hp0 hp1 h1 h2)).congr
    (fun a b hab haw => hemVal_eq_integral 0 (by omega) lam p eta1 eta2 h1.ne' h2.ne' a b hab haw)

/-- **HEM `integrate_against_x` is additive and squeezed between the end points times `integrate`** -/
theorem hem_isFirstMomentV : IsFirstMomentV (hemVal 0 lam p eta1 eta2) (hemVal 1 lam p eta1 eta2) :=
  (densMoment_isFirstMomentV (hem_levyDensity lam p eta1 eta2 hl hp0 hp1 h1 h2)).congr
    (fun a b hab haw => hemVal_eq_integral 0 (by omega) lam p eta1 eta2 h1.ne' h2.ne' a b hab haw)
    (fun a b hab haw => hemVal_eq_integral 1 (by omega) lam p eta1 eta2 h1.ne' h2.ne' a b hab haw)

/-- **HEM `integrate_against_xx` is a mass squeezed between the squared end points times `integrate`** -/
theorem hem_isSecondMomentV : IsSecondMomentV (hemVal 0 lam p eta1 eta2) (hemVal 2 lam p eta1 eta2) :=
  (densMoment_isSecondMomentV (hem_levyDensity lam p eta1 eta2 hl hp0 hp1 h1 h2)).congr
    (fun a b hab haw => hemVal_eq_integral 0 (by omega) lam p eta1 eta2 h1.ne' h2.ne' a b hab haw)
    (fun a b hab haw => hemVal_eq_integral 2 (by omega) lam p eta1 eta2 h1.ne' h2.ne' a b hab haw)

variable (mid : ℚ → ℚ → ℚ) (hm : Between mid) (hi : MidIdem mid) (ax : List ℚ) (o : ℕ) (hax : AxisOK ax o)
include hm hi hax

/-- **variance gap of the HEM chain, closed forms as coded, no hypothesis on the measure** -/
theorem variance_gap_hem :
    |∑ k ∈ range ax.length, ((pt ax k : ℚ) : ℝ) ^ 2 * rateV mid ax o (chainMassV ax (hemVal 0 lam p eta1 eta2)) k -
        intensity1dV mid ax o (hemVal 2 lam p eta1 eta2)| ≤
      ∑ k ∈ range ax.length, ((oscSq mid ax k : ℚ) : ℝ) * rateV mid ax o (chainMassV ax (hemVal 0 lam p eta1 eta2)) k :=
  variance_gap_chain_V mid hm hi ax o hax _ _ (hem_isMassV lam p eta1 eta2 hl hp0 hp1 h1 h2)
    (hem_isSecondMomentV lam p eta1 eta2 hl hp0 hp1 h1 h2)

/-- **mean gap of the HEM chain** -/
theorem mean_gap_hem :
    |∑ k ∈ range ax.length, (((pt ax k : ℚ) : ℝ) * rateV mid ax o (hemVal 0 lam p eta1 eta2) k -
        rateV mid ax o (hemVal 1 lam p eta1 eta2) k)| ≤
      ∑ k ∈ range ax.length, ((cellHi mid ax k - cellLo mid ax k : ℚ) : ℝ) * rateV mid ax o (hemVal 0 lam p eta1 eta2) k :=
  mean_gap_V mid hm hi ax o hax _ _ (hem_isMassV lam p eta1 eta2 hl hp0 hp1 h1 h2)
    (hem_isFirstMomentV lam p eta1 eta2 hl hp0 hp1 h1 h2)

/-- C01 for HEM: the rates computed from the closed form are non-negative and sum to the reported intensity -/
theorem sum_rates_hem :
    (∀ k, k < ax.length → 0 ≤ rateV mid ax o (hemVal 0 lam p eta1 eta2) k) ∧
    ∑ k ∈ range ax.length, rateV mid ax o (hemVal 0 lam p eta1 eta2) k = intensity1dV mid ax o (hemVal 0 lam p eta1 eta2) :=
  ⟨fun k hk => rates_nonneg_V mid hm hi ax o hax _ (hem_isMassV lam p eta1 eta2 hl hp0 hp1 h1 h2) k hk,
   sum_rates_eq_intensity_1d_V mid hm hi ax o hax _ (hem_isMassV lam p eta1 eta2 hl hp0 hp1 h1 h2)⟩

end hem

/-- non-vacuity: the default HEM parameters of the library (λ = 1, p = 0.4, η₁ = 10, η₂ = 5) on the 7-point axis -/
example : |∑ k ∈ range 7, ((pt [-4, -2, -1, 0, 1, 3, 7] k : ℚ) : ℝ) ^ 2 *
      rateV amid [-4, -2, -1, 0, 1, 3, 7] 3 (chainMassV [-4, -2, -1, 0, 1, 3, 7] (hemVal 0 1 (2 / 5) 10 5)) k -
        intensity1dV amid [-4, -2, -1, 0, 1, 3, 7] 3 (hemVal 2 1 (2 / 5) 10 5)| ≤
      ∑ k ∈ range 7, ((oscSq amid [-4, -2, -1, 0, 1, 3, 7] k : ℚ) : ℝ) *
        rateV amid [-4, -2, -1, 0, 1, 3, 7] 3 (chainMassV [-4, -2, -1, 0, 1, 3, 7] (hemVal 0 1 (2 / 5) 10 5)) k :=
  variance_gap_hem 1 (2 / 5) 10 5 (by norm_num) (by norm_num) (by norm_num) (by norm_num) (by norm_num) amid amid_between
    amid_idem _ 3 example_axisOK

end Rpylib.Drift
