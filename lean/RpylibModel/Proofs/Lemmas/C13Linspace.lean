/-
C13 helper lemmas: `StrictInc` under append / map-of-range, and the closed form of `linspace`
(Model/GridCtor.lean): length, first and last point, bounds of every point, strict monotonicity.
-/
import RpylibModel.Model.GridCtor
import Mathlib.Tactic.Linarith
import Mathlib.Tactic.Ring
import Mathlib.Tactic.FieldSimp
import Mathlib.Algebra.Order.Field.Rat

set_option linter.dupNamespace false

namespace Rpylib.Grid

/-! ### StrictInc -/

theorem strictInc_cons (x : Rat) (ys : List Rat) (hys : StrictInc ys) (hx : ∀ b ∈ ys, x < b) :
    StrictInc (x :: ys) := by
  cases ys with
  | nil => trivial
  | cons y t => exact ⟨hx y (by simp), hys⟩

theorem strictInc_tail (x : Rat) (ys : List Rat) (h : StrictInc (x :: ys)) : StrictInc ys := by
  cases ys with
  | nil => trivial
  | cons y t => exact h.2

theorem strictInc_append_of_lt (xs ys : List Rat) (hxs : StrictInc xs) (hys : StrictInc ys)
    (hlt : ∀ a ∈ xs, ∀ b ∈ ys, a < b) : StrictInc (xs ++ ys) := by
  induction xs with
  | nil => simpa using hys
  | cons x t ih =>
    cases t with
    | nil => exact strictInc_cons x ys hys (fun b hb => hlt x (by simp) b hb)
    | cons y r =>
      refine ⟨hxs.1, ?_⟩
      exact ih hxs.2 (fun a ha b hb => hlt a (List.mem_cons_of_mem _ ha) b hb)

theorem strictInc_map_range (f : Nat → Rat) (hf : ∀ i j, i < j → f i < f j) (m : Nat) :
    StrictInc ((List.range m).map f) := by
  induction m with
  | zero => trivial
  | succ m ih =>
    rw [List.range_succ, List.map_append]
    refine strictInc_append_of_lt _ _ ih (by simp [StrictInc]) ?_
    intro a ha b hb
    simp only [List.mem_map, List.mem_range] at ha
    obtain ⟨i, hi, rfl⟩ := ha
    simp only [List.map_cons, List.map_nil, List.mem_singleton] at hb
    subst hb
    exact hf i m hi

/-- the same for a function that is increasing only on the indices used -/
theorem strictInc_map_range_lt (f : Nat → Rat) (m : Nat) (hf : ∀ i j, i < j → j < m → f i < f j) :
    StrictInc ((List.range m).map f) := by
  induction m with
  | zero => trivial
  | succ m ih =>
    rw [List.range_succ, List.map_append]
    refine strictInc_append_of_lt _ _ (ih (fun i j hij hj => hf i j hij (by omega))) (by simp [StrictInc]) ?_
    intro a ha b hb
    simp only [List.mem_map, List.mem_range] at ha
    obtain ⟨i, hi, rfl⟩ := ha
    simp only [List.map_cons, List.map_nil, List.mem_singleton] at hb
    subst hb
    exact hf i m hi (by omega)

/-- in a strictly increasing list the first point is strictly below every later one -/
theorem strictInc_head_lt (x : Rat) (ys : List Rat) (h : StrictInc (x :: ys)) : ∀ b ∈ ys, x < b := by
  induction ys generalizing x with
  | nil => intro b hb; simp at hb
  | cons y t ih =>
    intro b hb
    rcases List.mem_cons.mp hb with rfl | hb
    · exact h.1
    · have h2 : StrictInc (y :: t) := h.2
      have : StrictInc (x :: t) := by
        cases t with
        | nil => trivial
        | cons z t' => exact ⟨lt_trans h.1 h2.1, h2.2⟩
      exact ih x this b hb

/-! ### linspace -/

theorem linspace_length (a b : Rat) (n : Nat) : (linspace a b n).length = n := by
  match n with
  | 0 => rfl
  | 1 => rfl
  | n + 2 => simp [linspace]

theorem linspace_zero (a b : Rat) : linspace a b 0 = [] := rfl
theorem linspace_one (a b : Rat) : linspace a b 1 = [a] := rfl

/-- the first point is `start` as soon as there is a point -/
theorem linspace_head (a b : Rat) (n : Nat) (hn : 1 ≤ n) : (linspace a b n)[0]? = some a := by
  match n, hn with
  | 1, _ => rfl
  | n + 2, _ => simp [linspace, List.range_succ_eq_map]

/-- the last point is `stop` as soon as there are two points -/
theorem linspace_last (a b : Rat) (n : Nat) (hn : 2 ≤ n) : (linspace a b n)[n - 1]? = some b := by
  match n, hn with
  | n + 2, _ =>
    have hl : ((List.range (n + 1)).map
        (fun (k : Nat) => a + (k : Rat) * ((b - a) / ((n + 1 : Nat) : Rat)))).length = n + 1 := by simp
    show (_ ++ [b])[n + 2 - 1]? = some b
    rw [List.getElem?_append_right (by rw [hl]; omega), hl]
    have : n + 2 - 1 - (n + 1) = 0 := by omega
    rw [this]; rfl

/-- interior points: `start + k * (stop - start)/(n-1)` -/
theorem linspace_interior (a b : Rat) (n k : Nat) (hk : k + 1 < n) :
    (linspace a b n)[k]? = some (a + (k : Rat) * ((b - a) / ((n - 1 : Nat) : Rat))) := by
  match n, hk with
  | n + 2, hk =>
    have hk' : k < n + 1 := by omega
    show (_ ++ [b])[k]? = _
    rw [List.getElem?_append_left (by simpa using hk')]
    simp [hk']

/-- every point lies between `start` and `stop` -/
theorem linspace_mem_bounds (a b : Rat) (hab : a ≤ b) (n : Nat) (x : Rat) (hx : x ∈ linspace a b n) :
    a ≤ x ∧ x ≤ b := by
  match n with
  | 0 => simp [linspace] at hx
  | 1 => simp [linspace] at hx; subst hx; exact ⟨le_refl _, hab⟩
  | n + 2 =>
    simp only [linspace, List.mem_append, List.mem_map, List.mem_range, List.mem_singleton] at hx
    rcases hx with ⟨k, hk, rfl⟩ | rfl
    · have hn : (0 : Rat) < ((n + 1 : Nat) : Rat) := by exact_mod_cast Nat.succ_pos n
      have hk' : (k : Rat) ≤ ((n + 1 : Nat) : Rat) := by exact_mod_cast le_of_lt hk
      have hd : 0 ≤ (b - a) / ((n + 1 : Nat) : Rat) := div_nonneg (by linarith) (le_of_lt hn)
      have h1 : (k : Rat) * ((b - a) / ((n + 1 : Nat) : Rat)) ≤
          ((n + 1 : Nat) : Rat) * ((b - a) / ((n + 1 : Nat) : Rat)) := mul_le_mul_of_nonneg_right hk' hd
      have h2 : ((n + 1 : Nat) : Rat) * ((b - a) / ((n + 1 : Nat) : Rat)) = b - a := by
        field_simp
      have h0 : 0 ≤ (k : Rat) * ((b - a) / ((n + 1 : Nat) : Rat)) := mul_nonneg (by exact_mod_cast Nat.zero_le k) hd
      constructor <;> linarith
    · exact ⟨hab, le_refl _⟩

theorem linspace_strictInc (a b : Rat) (hab : a < b) (n : Nat) : StrictInc (linspace a b n) := by
  match n with
  | 0 => trivial
  | 1 => trivial
  | n + 2 =>
    have hn : (0 : Rat) < ((n + 1 : Nat) : Rat) := by exact_mod_cast Nat.succ_pos n
    have hd : 0 < (b - a) / ((n + 1 : Nat) : Rat) := div_pos (by linarith) hn
    have h2 : ((n + 1 : Nat) : Rat) * ((b - a) / ((n + 1 : Nat) : Rat)) = b - a := by
      field_simp
    refine strictInc_append_of_lt _ _ (strictInc_map_range _ ?_ _) (by simp [StrictInc]) ?_
    · intro i j hij
      have : (i : Rat) < (j : Rat) := by exact_mod_cast hij
      have := mul_lt_mul_of_pos_right this hd
      linarith
    · intro x hx y hy
      simp only [List.mem_map, List.mem_range] at hx
      obtain ⟨k, hk, rfl⟩ := hx
      simp only [List.mem_singleton] at hy
      subst hy
      have hk' : (k : Rat) < ((n + 1 : Nat) : Rat) := by exact_mod_cast hk
      have := mul_lt_mul_of_pos_right hk' hd
      linarith

/-! ### Python `int()` -/

theorem pyInt_of_nonneg (q : Rat) (hq : 0 ≤ q) : pyInt q = q.floor := by
  unfold pyInt; rw [if_neg (by linarith)]

theorem pyInt_nonpos_of_neg (q : Rat) (hq : q < 0) : pyInt q ≤ 0 := by
  unfold pyInt; rw [if_pos hq]
  have : (0 : Int) ≤ (-q).floor := Rat.le_floor_iff.mpr (by simp; linarith)
  omega

/-- `k ≤ int(q)` for a positive integer `k` says `k ≤ q` -/
theorem le_pyInt_iff (q : Rat) (k : Int) (hk : 1 ≤ k) : k ≤ pyInt q ↔ (k : Rat) ≤ q := by
  by_cases hq : q < 0
  · have := pyInt_nonpos_of_neg q hq
    have hk' : (1 : Rat) ≤ (k : Rat) := by exact_mod_cast hk
    constructor
    · intro h; omega
    · intro h; linarith
  · rw [pyInt_of_nonneg q (by linarith)]; exact Rat.le_floor_iff

end Rpylib.Grid
