/-
C14 helper lemmas: the divisor summatory function as coded (`aN`, numbers.py `a_n`) — Dirichlet's hyperbola identity,
its increments, strict monotonicity, and the exact inverse `upperBound`.
-/
import RpylibModel.Model.PairingHyperbolic
import Mathlib.Data.Nat.Sqrt
import Mathlib.Algebra.BigOperators.Intervals
import Mathlib.Algebra.Order.BigOperators.Group.Finset
import Mathlib.Order.Interval.Finset.Nat
import Mathlib.Data.Finset.Prod
import Mathlib.Tactic.Linarith
import Mathlib.Tactic.Ring

namespace Rpylib.Pairing

open Finset

/-- `sumDiv n m = Σ_{k=1}^{m} ⌊n/k⌋` -/
theorem sumDiv_eq_sum (n m : Nat) : sumDiv n m = ∑ k ∈ Icc 1 m, n / k := by
  induction m with
  | zero => simp [sumDiv]
  | succ m ih =>
    rw [sumDiv, ih, Finset.sum_Icc_succ_top (by omega)]

/-- lattice points under the hyperbola with first coordinate at most `m` -/
def hypSet (n m l : Nat) : Finset (Nat × Nat) := (Icc 1 m ×ˢ Icc 1 l).filter (fun p => p.1 * p.2 ≤ n)

theorem card_row (n a : Nat) (ha : 1 ≤ a) : ((Icc 1 n).filter (fun b => a * b ≤ n)).card = n / a := by
  have : (Icc 1 n).filter (fun b => a * b ≤ n) = Icc 1 (n / a) := by
    ext b
    simp only [mem_filter, mem_Icc]
    constructor
    · rintro ⟨⟨h1, _⟩, h3⟩
      exact ⟨h1, (Nat.le_div_iff_mul_le (by omega)).2 (by rw [Nat.mul_comm]; exact h3)⟩
    · rintro ⟨h1, h2⟩
      have h3 := (Nat.le_div_iff_mul_le (by omega : 0 < a)).1 h2
      refine ⟨⟨h1, ?_⟩, by rw [Nat.mul_comm]; exact h3⟩
      calc b ≤ b * a := Nat.le_mul_of_pos_right _ (by omega)
        _ ≤ n := h3
  rw [this]; simp

theorem card_hypSet (n m : Nat) : (hypSet n m n).card = ∑ a ∈ Icc 1 m, n / a := by
  unfold hypSet
  rw [Finset.card_filter, Finset.sum_product]
  refine Finset.sum_congr rfl (fun a ha => ?_)
  rw [← Finset.card_filter]
  exact card_row n a (by simp only [mem_Icc] at ha; omega)

/-- **Dirichlet's hyperbola identity**: `Σ_{k≤n} ⌊n/k⌋ + ⌊√n⌋² = 2 Σ_{k≤⌊√n⌋} ⌊n/k⌋` -/
theorem hyperbola (n : Nat) :
    (∑ k ∈ Icc 1 n, n / k) + (Nat.sqrt n) ^ 2 = 2 * ∑ k ∈ Icc 1 (Nat.sqrt n), n / k := by
  set s := Nat.sqrt n with hs
  have hs1 : s * s ≤ n := by have := Nat.sqrt_le' n; rw [Nat.pow_two] at this; exact this
  have hs2 : n < (s + 1) * (s + 1) := by have := Nat.lt_succ_sqrt' n; rw [Nat.pow_two] at this; exact this
  have hsn : s ≤ n := Nat.sqrt_le_self n
  -- the two half regions
  let A := hypSet n s n
  let B : Finset (Nat × Nat) := (Icc 1 n ×ˢ Icc 1 s).filter (fun p => p.1 * p.2 ≤ n)
  have hU : A ∪ B = hypSet n n n := by
    ext ⟨a, b⟩
    simp only [A, B, hypSet, mem_union, mem_filter, mem_product, mem_Icc]
    constructor
    · rintro (⟨⟨⟨h1, h2⟩, h3, h4⟩, h5⟩ | ⟨⟨⟨h1, h2⟩, h3, h4⟩, h5⟩)
      · exact ⟨⟨⟨h1, by omega⟩, h3, h4⟩, h5⟩
      · exact ⟨⟨⟨h1, h2⟩, h3, by omega⟩, h5⟩
    · rintro ⟨⟨⟨h1, h2⟩, h3, h4⟩, h5⟩
      by_cases c : a ≤ s
      · exact Or.inl ⟨⟨⟨h1, c⟩, h3, h4⟩, h5⟩
      · refine Or.inr ⟨⟨⟨h1, h2⟩, h3, ?_⟩, h5⟩
        by_contra c2
        have : (s + 1) * (s + 1) ≤ a * b := Nat.mul_le_mul (by omega) (by omega)
        omega
  have hI : A ∩ B = Icc 1 s ×ˢ Icc 1 s := by
    ext ⟨a, b⟩
    simp only [A, B, hypSet, mem_inter, mem_filter, mem_product, mem_Icc]
    constructor
    · rintro ⟨⟨⟨⟨h1, h2⟩, h3, h4⟩, h5⟩, ⟨⟨h6, h7⟩, h8, h9⟩, _⟩
      exact ⟨⟨h1, h2⟩, h8, h9⟩
    · rintro ⟨⟨h1, h2⟩, h3, h4⟩
      have : a * b ≤ s * s := Nat.mul_le_mul h2 h4
      exact ⟨⟨⟨⟨h1, h2⟩, h3, by omega⟩, by omega⟩, ⟨⟨h1, by omega⟩, h3, h4⟩, by omega⟩
  have hB : B.card = A.card := by
    refine Finset.card_bij (fun p _ => (p.2, p.1)) ?_ ?_ ?_
    · rintro ⟨a, b⟩ h
      simp only [A, B, hypSet, mem_filter, mem_product, mem_Icc] at h ⊢
      obtain ⟨⟨⟨h1, h2⟩, h3, h4⟩, h5⟩ := h
      exact ⟨⟨⟨h3, h4⟩, h1, h2⟩, by rw [Nat.mul_comm]; exact h5⟩
    · rintro ⟨a, b⟩ _ ⟨c, d⟩ _ h
      simp only [Prod.mk.injEq] at h ⊢
      exact ⟨h.2, h.1⟩
    · rintro ⟨a, b⟩ h
      refine ⟨(b, a), ?_, rfl⟩
      simp only [A, B, hypSet, mem_filter, mem_product, mem_Icc] at h ⊢
      obtain ⟨⟨⟨h1, h2⟩, h3, h4⟩, h5⟩ := h
      exact ⟨⟨⟨h3, h4⟩, h1, h2⟩, by rw [Nat.mul_comm]; exact h5⟩
  have hc := Finset.card_union_add_card_inter A B
  rw [hU, hI, hB, card_hypSet, Finset.card_product] at hc
  have hA : A.card = ∑ a ∈ Icc 1 s, n / a := card_hypSet n s
  rw [hA] at hc
  simp only [Nat.card_Icc, Nat.add_sub_cancel] at hc
  rw [Nat.pow_two, hc]; ring

/-- the code's closed form is the full sum -/
theorem aN_eq_sum (n : Nat) : aN n = ∑ k ∈ Icc 1 n, n / k := by
  have h := hyperbola n
  unfold aN
  rw [sumDiv_eq_sum]
  omega

/-- number of divisors, counted directly -/
def dcount (n : Nat) : Nat := ((Icc 1 n).filter (fun k => k ∣ n)).card

/-- the increments of `a_n` are the divisor counts -/
theorem aN_succ (n : Nat) : aN (n + 1) = aN n + dcount (n + 1) := by
  rw [aN_eq_sum, aN_eq_sum, dcount, Finset.card_filter]
  have h1 : ∑ k ∈ Icc 1 (n + 1), (n + 1) / k = ∑ k ∈ Icc 1 (n + 1), (n / k + if k ∣ n + 1 then 1 else 0) :=
    Finset.sum_congr rfl (fun k _ => Nat.succ_div)
  rw [h1, Finset.sum_add_distrib, Finset.sum_Icc_succ_top (by omega)]
  have : n / (n + 1) = 0 := Nat.div_eq_of_lt (by omega)
  rw [this, Nat.add_zero]

theorem dcount_pos (n : Nat) (hn : 1 ≤ n) : 1 ≤ dcount n := by
  unfold dcount
  apply Finset.card_pos.2
  exact ⟨1, by simp [hn]⟩

theorem aN_zero : aN 0 = 0 := by decide

theorem aN_lt_succ (n : Nat) : aN n < aN (n + 1) := by
  have := dcount_pos (n + 1) (by omega)
  rw [aN_succ]; omega

theorem aN_strictMono {a b : Nat} (h : a < b) : aN a < aN b := by
  induction b with
  | zero => omega
  | succ b ih =>
    rcases Nat.lt_succ_iff_lt_or_eq.1 h with c | c
    · exact Nat.lt_trans (ih c) (aN_lt_succ b)
    · subst c; exact aN_lt_succ a

theorem aN_mono {a b : Nat} (h : a ≤ b) : aN a ≤ aN b := by
  rcases Nat.lt_or_eq_of_le h with c | c
  · exact Nat.le_of_lt (aN_strictMono c)
  · subst c; exact Nat.le_refl _

theorem le_aN (n : Nat) : n ≤ aN n := by
  induction n with
  | zero => omega
  | succ n ih => have := aN_lt_succ n; omega

theorem ubAux_spec (z : Nat) : ∀ (k lo hi : Nat), hi - lo ≤ k → lo < hi → aN lo ≤ z → z < aN hi →
    1 ≤ ubAux z lo hi ∧ aN (ubAux z lo hi - 1) ≤ z ∧ z < aN (ubAux z lo hi) := by
  intro k
  induction k with
  | zero => intro lo hi h1 h2; omega
  | succ k ih =>
    intro lo hi hk hlt hlo hhi
    rw [ubAux]
    by_cases h : lo + 1 < hi
    · simp only [h, if_true]
      by_cases c : aN ((lo + hi) / 2) ≤ z
      · simp only [c, if_true]
        exact ih _ _ (by omega) (by omega) c hhi
      · simp only [c, if_false]
        exact ih _ _ (by omega) (by omega) hlo (by omega)
    · simp only [h, if_false]
      have e : hi = lo + 1 := by omega
      subst e
      exact ⟨by omega, by simpa using hlo, hhi⟩

/-- `upper_bound_a_n(z)` (exact result): the `n ≥ 1` with `a_n(n-1) ≤ z < a_n(n)` -/
theorem upperBound_spec (z : Nat) :
    1 ≤ upperBound z ∧ aN (upperBound z - 1) ≤ z ∧ z < aN (upperBound z) := by
  unfold upperBound
  refine ubAux_spec z (z + 1) 0 (z + 1) (by omega) (by omega) (by rw [aN_zero]; omega) ?_
  have := le_aN (z + 1); omega

/-- … and it is the only such `n` -/
theorem upperBound_unique (z n : Nat) (hn : 1 ≤ n) (h1 : aN (n - 1) ≤ z) (h2 : z < aN n) : upperBound z = n := by
  obtain ⟨g0, g1, g2⟩ := upperBound_spec z
  by_contra hne
  rcases Nat.lt_or_gt_of_ne hne with c | c
  · have : aN (upperBound z) ≤ aN (n - 1) := aN_mono (by omega)
    omega
  · have : aN n ≤ aN (upperBound z - 1) := aN_mono (by omega)
    omega

end Rpylib.Pairing
