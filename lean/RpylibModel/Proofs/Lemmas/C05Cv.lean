/-
C05 — control-variate path of the multilevel engine (RpylibModel/Model/MlmcCv.lean): for every scripted process, every
scripted control set (any number of controls, any regression kernel), every oracle history and every initial configuration

* the control array and the adjusted array of every level have exactly the rows of the payoff array at every point where
  results are read, `compute_coefficients_mlmc` never meets arrays of different lengths (`err` stays false);
* adjusted row i is `Y_i − Σ_j b_j (X_{j,i} − price_j)` over the simulated samples of the level, fine and coarse column with
  their own coefficient vector;
* the reported price is the sum over levels of the adjusted means, and equals the raw multilevel price whenever the controls'
  sample means equal their prices (`cv_mean_identity_mlmc`).
-/
import RpylibModel.Model.MlmcCv
import RpylibModel.Proofs.Lemmas.C05Core
import RpylibModel.Proofs.Lemmas.C07Basic

namespace Rpylib.MlmcCv
open Rpylib.Mlmc

/-- rows 0 … N−1 of the control array hold the control values of the samples simulated at level l, in simulation order -/
def ctlSamplesOf (c : CvProc) (l N : Nat) : List CRow := (List.range N).map (fun i => some (c.ctl l i))

/-- loop-head invariant of the control side of one level -/
def CvLvlInv (p : Proc) (c : CvProc) (l : Nat) (lv : Lvl) (cl : CvLvl) : Prop :=
  cl.xrows = ctlSamplesOf c l lv.N ++ List.replicate lv.dN none ∧
  cl.adj = computeAdj c (samplesOf p l lv.N) (ctlSamplesOf c l lv.N) ++ List.replicate lv.dN none ∧ cl.err = false

/-- what holds whenever results are read: control rows = the simulated samples' controls, adjusted array = the adjustment
    computed from exactly the simulated samples, no shape error so far -/
def CvLvlClean (p : Proc) (c : CvProc) (l : Nat) (lv : Lvl) (cl : CvLvl) : Prop :=
  cl.xrows = ctlSamplesOf c l lv.N ∧ cl.adj = computeAdj c (samplesOf p l lv.N) (ctlSamplesOf c l lv.N) ∧ cl.err = false

def CvInv (p : Proc) (c : CvProc) (s : CvSt) : Prop :=
  Inv p s.base ∧ ∀ l, l ≤ s.base.L → CvLvlInv p c l (s.base.lv l) (s.cv l)

def CvClean (p : Proc) (c : CvProc) (s : CvSt) : Prop :=
  Clean p s.base ∧ ∀ l, l ≤ s.base.L → CvLvlClean p c l (s.base.lv l) (s.cv l)

/-! ### helper lemmas -/

theorem ctlSamplesOf_length (c : CvProc) (l N : Nat) : (ctlSamplesOf c l N).length = N := by
  simp [ctlSamplesOf]

theorem computeAdj_length (c : CvProc) (rows : List Row) (xrows : List CRow) :
    (computeAdj c rows xrows).length = rows.length := by
  simp [computeAdj]

theorem fromList_range_map (n : Nat) (f g : Nat → CvLvl) (i : Nat) :
    fromList ((List.range (n + 1)).map f) g i = if i ≤ n then f i else g i := by
  unfold fromList
  by_cases h : i ≤ n
  · have : i < n + 1 := by omega
    simp [h, this]
  · have : ¬ i < n + 1 := by omega
    simp [h, this]

theorem writeFromG_spec {α : Type} (mk : Nat → α) (n : Nat) :
    ∀ (pre : List (Option α)) (cnt : Nat) (post : List (Option α)),
      writeFromG mk pre.length cnt n (pre ++ List.replicate n none ++ post)
        = pre ++ (List.range n).map (fun i => some (mk (cnt + i))) ++ post := by
  induction n with
  | zero => intro pre cnt post; simp [writeFromG]
  | succ n ih =>
    intro pre cnt post
    have hset : (pre ++ List.replicate (n + 1) none ++ post).set pre.length (some (mk cnt))
        = (pre ++ [some (mk cnt)]) ++ List.replicate n none ++ post := by
      simp [List.replicate_succ]
    rw [writeFromG, hset]
    have hlen : pre.length + 1 = (pre ++ [some (mk cnt)]).length := by simp
    rw [hlen, ih (pre ++ [some (mk cnt)]) (cnt + 1) post]
    simp only [List.range_succ_eq_map, List.map_cons, List.map_map, List.append_assoc, List.singleton_append,
      Nat.add_zero]
    congr 3
    apply List.map_congr_left
    intro i _; simp [Function.comp]; congr 1; omega

theorem ctlSamplesOf_add (c : CvProc) (l N d : Nat) :
    ctlSamplesOf c l (N + d) = ctlSamplesOf c l N ++ (List.range d).map (fun i => some (c.ctl l (N + i))) := by
  induction d with
  | zero => simp
  | succ d ih =>
    have hs : ctlSamplesOf c l (N + d + 1) = ctlSamplesOf c l (N + d) ++ [some (c.ctl l (N + d))] := by
      simp [ctlSamplesOf, List.range_succ]
    rw [← Nat.add_assoc, hs, ih, List.range_succ, List.map_append]
    simp

/-! ### one level -/

/-- a pass writes the controls of exactly the newly simulated samples into the pads, the three arrays then have the same
    rows and the adjusted array is recomputed from them -/
theorem passCv_clean (p : Proc) (c : CvProc) (l : Nat) (lv : Lvl) (cl : CvLvl)
    (h : LvlInv p l lv) (hc : CvLvlInv p c l lv cl) :
    CvLvlClean p c l (passLvl p l lv) (passCv c l lv (passLvl p l lv).rows cl) := by
  obtain ⟨hx, ha', he⟩ := hc
  have ha : cl.adj.length = lv.N + lv.dN := by
    rw [ha', List.length_append, computeAdj_length, samplesOf_length, List.length_replicate]
  have hrows := (passLvl_clean p l lv h).1
  have hN : (passLvl p l lv).N = lv.N + lv.dN := rfl
  rw [hN] at hrows
  have hw : writeFromG (c.ctl l) lv.N lv.sim lv.dN cl.xrows = ctlSamplesOf c l (lv.N + lv.dN) := by
    have := writeFromG_spec (c.ctl l) lv.dN (ctlSamplesOf c l lv.N) lv.sim []
    simp only [List.append_nil, ctlSamplesOf_length] at this
    rw [hx, this, h.2, ctlSamplesOf_add]
  have hbad : ((writeFromG (c.ctl l) lv.N lv.sim lv.dN cl.xrows).length != (passLvl p l lv).rows.length
      || cl.adj.length != (passLvl p l lv).rows.length) = false := by
    rw [hw, hrows, ctlSamplesOf_length, samplesOf_length, ha]; simp
  refine ⟨?_, ?_, ?_⟩
  · show writeFromG (c.ctl l) lv.N lv.sim lv.dN cl.xrows = ctlSamplesOf c l (lv.N + lv.dN)
    exact hw
  · show (if ((writeFromG (c.ctl l) lv.N lv.sim lv.dN cl.xrows).length != (passLvl p l lv).rows.length
        || cl.adj.length != (passLvl p l lv).rows.length) = true then cl.adj
        else computeAdj c (passLvl p l lv).rows (writeFromG (c.ctl l) lv.N lv.sim lv.dN cl.xrows))
      = computeAdj c (samplesOf p l (lv.N + lv.dN)) (ctlSamplesOf c l (lv.N + lv.dN))
    rw [hbad, hw, hrows]; simp
  · show (cl.err || ((writeFromG (c.ctl l) lv.N lv.sim lv.dN cl.xrows).length != (passLvl p l lv).rows.length
        || cl.adj.length != (passLvl p l lv).rows.length)) = false
    rw [hbad, he]; rfl

/-- re-computing `dN` and zero-padding the three arrays re-establishes the loop-head invariant -/
theorem extendCv_inv (p : Proc) (c : CvProc) (l : Nat) (lv : Lvl) (cl : CvLvl) (d : Nat)
    (hc : CvLvlClean p c l lv cl) : CvLvlInv p c l { lv with dN := d } (extendCv { lv with dN := d } cl) := by
  obtain ⟨hx, ha, he⟩ := hc
  refine ⟨?_, ?_, he⟩
  · simp only [extendCv]
    rw [hx, ctlSamplesOf_length]
    congr 2; omega
  · simp only [extendCv]
    rw [ha, computeAdj_length, samplesOf_length]
    congr 2; omega

/-- the arrays of a freshly appended level (0 rows each) satisfy the invariant after padding -/
theorem newLevelCv_inv (p : Proc) (c : CvProc) (l d : Nat) :
    CvLvlInv p c l ⟨[], 0, d, 0, 0⟩ (extendCv ⟨[], 0, d, 0, 0⟩ ⟨[], [], false⟩) := by
  refine ⟨?_, ?_, rfl⟩ <;> simp [extendCv, ctlSamplesOf, samplesOf, computeAdj]

/-! ### the loop -/

/-- the control-variate engine runs the payoff/counter loop of Mlmc.lean unchanged -/
theorem iterCv_base (p : Proc) (c : CvProc) (o : Oracle) (s : CvSt) : (iterCv p c o s).base = iter p o s.base := by
  have hh : ∀ t : CvSt, (cvLoopHead t).base = loopHead t.base := by
    intro t; unfold cvLoopHead loopHead; split_ifs <;> rfl
  unfold iterCv iterCvAfter iter
  simp only
  have e2 : (cvSetDN o.Ns (cvAfterPasses p c s)).base = setDN o.Ns (afterPasses p s.base) := rfl
  rw [e2]
  by_cases hsm : small (setDN o.Ns (afterPasses p s.base)) = true
  · rw [if_pos hsm, if_pos hsm]
    by_cases hcv : (o.conv || (setDN o.Ns (afterPasses p s.base)).L == (setDN o.Ns (afterPasses p s.base)).levelMax) = true
    · rw [if_pos hcv, if_pos hcv]; rfl
    · rw [if_neg hcv, if_neg hcv, hh]; rfl
  · rw [if_neg hsm, if_neg hsm, hh]; rfl

theorem runCv_base (p : Proc) (c : CvProc) (os : List Oracle) (s : CvSt) : (runCv p c os s).base = run p os s.base := by
  induction os generalizing s with
  | nil => rfl
  | cons o os ih =>
    have hb := iterCv_base p c o s
    unfold runCv run
    cases hi : iterCv p c o s with
    | cont s' => rw [hi] at hb; simp only [StepCv.base] at hb; rw [← hb]; exact ih s'
    | ret s' => rw [hi] at hb; simp only [StepCv.base] at hb; rw [← hb]; rfl

theorem priceCv_base (p : Proc) (c : CvProc) (L0 N0 levelMax newInit : Nat) (os : List Oracle) :
    (priceCv p c L0 N0 levelMax newInit os).base = price p L0 N0 levelMax newInit os := by
  unfold priceCv price cvLoopHead loopHead
  have e : (initCv L0 N0 levelMax newInit).base = init L0 N0 levelMax newInit := rfl
  rw [e]
  by_cases hs : sumDN (init L0 N0 levelMax newInit) > 0
  · rw [if_pos hs, if_pos hs]; exact runCv_base p c os _
  · rw [if_neg hs, if_neg hs]; rfl

theorem initCv_inv (p : Proc) (c : CvProc) (L0 N0 levelMax newInit : Nat) : CvInv p c (initCv L0 N0 levelMax newInit) := by
  refine ⟨init_inv p L0 N0 levelMax newInit, ?_⟩
  intro l _
  refine ⟨?_, ?_, rfl⟩ <;> simp [initCv, init, ctlSamplesOf, samplesOf, computeAdj]

/-- every array — payoff, controls, adjusted — is clean right after the passes, where `set_mlmc_results` reads them -/
theorem cvAfterPasses_clean (p : Proc) (c : CvProc) (s : CvSt) (h : CvInv p c s) : CvClean p c (cvAfterPasses p c s) := by
  refine ⟨afterPasses_clean p s.base h.1, ?_⟩
  intro l hl
  have hl' : l ≤ s.base.L := hl
  simp only [cvAfterPasses, afterPasses, fromList_range_map, hl', if_true]
  exact passCv_clean p c l _ _ (h.1 l hl') (h.2 l hl')

theorem cvSetDN_clean (p : Proc) (c : CvProc) (Ns : List Nat) (s : CvSt) (h : CvClean p c s) :
    CvClean p c (cvSetDN Ns s) := ⟨setDN_clean p Ns s.base h.1, fun l hl => h.2 l hl⟩

theorem cvExtendAll_setDN_inv (p : Proc) (c : CvProc) (Ns : List Nat) (s : CvSt) (h : CvClean p c s) :
    CvInv p c (cvExtendAll (cvSetDN Ns s)) := by
  refine ⟨extendAll_setDN_inv p Ns s.base h.1, ?_⟩
  intro l hl
  have hl' : l ≤ s.base.L := hl
  simp only [cvExtendAll, cvSetDN, extendAll, setDN, fromList_range_map, hl', if_true]
  exact extendCv_inv p c l (s.base.lv l) (s.cv l) _ (h.2 l hl')

theorem cvExtendAll_addLevel_inv (p : Proc) (c : CvProc) (Ns : List Nat) (s : CvSt) (h0 : s.base.newInit = 0)
    (h : CvClean p c s) : CvInv p c (cvExtendAll (cvSetDN Ns (cvAddLevel s))) := by
  refine ⟨extendAll_addLevel_inv p Ns s.base h0 h.1, ?_⟩
  intro l hl
  have hl' : l ≤ s.base.L + 1 := hl
  simp only [cvExtendAll, cvSetDN, cvAddLevel, extendAll, setDN, addLevel, fromList_range_map, hl', if_true]
  by_cases hnew : l = s.base.L + 1
  · subst hnew; simp only [if_true, h0, Nat.sub_zero]; exact newLevelCv_inv p c _ _
  · simp only [hnew, if_false]
    exact extendCv_inv p c l (s.base.lv l) (s.cv l) _ (h.2 l (by omega))

theorem cvLoopHead_inv (p : Proc) (c : CvProc) (s : CvSt) (h0 : s.base.newInit = 0) (h : CvInv p c s) :
    match cvLoopHead s with
    | .cont s' => CvInv p c s' ∧ s'.base.newInit = 0
    | .ret s' => CvClean p c s' := by
  unfold cvLoopHead
  by_cases hs : sumDN s.base > 0
  · rw [if_pos hs]; exact ⟨h, h0⟩
  · rw [if_neg hs]
    have hb := loopHead_inv p s.base h0 h.1
    unfold loopHead at hb
    rw [if_neg hs] at hb
    refine ⟨hb, ?_⟩
    intro l hl
    obtain ⟨hx, ha, he⟩ := h.2 l hl
    have hd := dN_zero_of_sum s.base hs l hl
    have hrows := (h.1 l hl).1
    rw [hd] at hx ha hrows
    simp only [List.replicate_zero, List.append_nil] at hx ha hrows
    exact ⟨hx, ha, he⟩

/-- **one iteration with control variates** -/
theorem iterCv_inv (p : Proc) (c : CvProc) (o : Oracle) (s : CvSt) (h0 : s.base.newInit = 0) (h : CvInv p c s) :
    match iterCv p c o s with
    | .cont s' => CvInv p c s' ∧ s'.base.newInit = 0
    | .ret s' => CvClean p c s' := by
  have hc := cvSetDN_clean p c o.Ns _ (cvAfterPasses_clean p c s h)
  have hn : (cvSetDN o.Ns (cvAfterPasses p c s)).base.newInit = 0 := h0
  unfold iterCv iterCvAfter
  simp only
  by_cases hsm : small (cvSetDN o.Ns (cvAfterPasses p c s)).base = true
  · rw [if_pos hsm]
    by_cases hcv : (o.conv || (cvSetDN o.Ns (cvAfterPasses p c s)).base.L == (cvSetDN o.Ns (cvAfterPasses p c s)).base.levelMax) = true
    · rw [if_pos hcv]; exact hc
    · rw [if_neg hcv]
      exact cvLoopHead_inv p c _ h0 (cvExtendAll_addLevel_inv p c o.Ns2 _ hn hc)
  · rw [if_neg hsm]
    exact cvLoopHead_inv p c _ h0 (cvExtendAll_setDN_inv p c o.Ns _ (cvAfterPasses_clean p c s h))

/-- **every history, with control variates**: when the run returns, the payoff arrays, the control arrays and the adjusted
    arrays of all levels are exactly those of the simulated samples -/
theorem runCv_clean (p : Proc) (c : CvProc) (os : List Oracle) (s : CvSt) (h0 : s.base.newInit = 0) (h : CvInv p c s) :
    match runCv p c os s with
    | .cont s' => CvInv p c s'
    | .ret s' => CvClean p c s' := by
  induction os generalizing s with
  | nil => exact h
  | cons o os ih =>
    have hi := iterCv_inv p c o s h0 h
    unfold runCv
    cases hit : iterCv p c o s with
    | cont s' => rw [hit] at hi; exact ih s' hi.2 hi.1
    | ret s' => rw [hit] at hi; exact hi

/-- **every iteration, with control variates**: at every read point the payoff, control and adjusted arrays of every level
    are those of exactly the samples simulated so far — so the `ml, vl` handed to the criteria (read from the adjusted
    arrays, `adjLvl`) are computed from `Y − b (X − price)` over exactly those samples -/
theorem readsCv_clean (p : Proc) (c : CvProc) (os : List Oracle) (s : CvSt) (h0 : s.base.newInit = 0) (h : CvInv p c s) :
    ∀ r ∈ readsCv p c os s, CvClean p c r := by
  induction os generalizing s with
  | nil => intro r hr; simp [readsCv] at hr
  | cons o os ih =>
    intro r hr
    unfold readsCv at hr
    rcases List.mem_cons.mp hr with rfl | hr
    · exact cvAfterPasses_clean p c s h
    · have hi := iterCv_inv p c o s h0 h
      cases hit : iterCv p c o s with
      | cont s' => rw [hit] at hr hi; exact ih s' hi.2 hi.1 r hr
      | ret s' => rw [hit] at hr; simp at hr

/-- the level record `set_mlmc_results` reads with control variates holds the adjusted rows of exactly the simulated samples -/
theorem adjLvl_rows (p : Proc) (c : CvProc) (s : CvSt) (h : CvClean p c s) (l : Nat) (hl : l ≤ s.base.L) :
    (adjLvl s l).rows = computeAdj c (samplesOf p l (s.base.lv l).N) (ctlSamplesOf c l (s.base.lv l).N) ∧
    (adjLvl s l).N = (s.base.lv l).N ∧ (adjLvl s l).cost = (s.base.lv l).cost :=
  ⟨(h.2 l hl).2.1, rfl, rfl⟩

/-- the statement for `Engine.price` with control variates from its actual initial state -/
theorem priceCv_clean (p : Proc) (c : CvProc) (L0 N0 levelMax : Nat) (os : List Oracle) :
    match priceCv p c L0 N0 levelMax 0 os with
    | .cont s' => CvInv p c s'
    | .ret s' => CvClean p c s' := by
  have hl := cvLoopHead_inv p c (initCv L0 N0 levelMax 0) rfl (initCv_inv p c L0 N0 levelMax 0)
  unfold priceCv
  cases hh : cvLoopHead (initCv L0 N0 levelMax 0) with
  | cont s' => rw [hh] at hl; exact runCv_clean p c os s' hl.2 hl.1
  | ret s' => rw [hh] at hl; exact hl

/-- fixed-level variant with control variates -/
theorem fixedRunCv_clean (p : Proc) (c : CvProc) (maxLevel mc : Nat) : CvClean p c (fixedRunCv p c maxLevel mc) := by
  apply cvAfterPasses_clean
  refine ⟨fun l _ => ⟨by simp [samplesOf], rfl⟩, ?_⟩
  intro l _
  refine ⟨?_, ?_, rfl⟩ <;> simp [ctlSamplesOf, samplesOf, computeAdj]

/-! ### consequences: shapes -/

/-- **the adjusted and the control array have exactly the rows of the raw array**: all three have `N_l` rows — the number of
    samples simulated at the level — and no array operation of `compute_coefficients_mlmc` has met a shape mismatch -/
theorem with_cv_same_rows (p : Proc) (c : CvProc) (l : Nat) (lv : Lvl) (cl : CvLvl)
    (h : LvlClean p l lv) (hc : CvLvlClean p c l lv cl) :
    cl.adj.length = lv.rows.length ∧ cl.xrows.length = lv.rows.length ∧ lv.rows.length = lv.N ∧ cl.err = false := by
  obtain ⟨hx, ha, he⟩ := hc
  rw [hx, ha, h.1, computeAdj_length, ctlSamplesOf_length, samplesOf_length]
  exact ⟨rfl, rfl, rfl, he⟩

/-- no placeholder row in the adjusted array -/
theorem cv_no_pad (p : Proc) (c : CvProc) (l : Nat) (lv : Lvl) (cl : CvLvl) (hc : CvLvlClean p c l lv cl) :
    none ∉ cl.adj := by
  rw [hc.2.1]; simp [computeAdj]

/-! ### consequences: content of the adjusted rows -/

/-- column of the simulated payoffs of level l as numpy sees it (N rows) -/
def yF (p : Proc) (l N : Nat) : Nat → Rat := fun i => if i < N then (p.sample l i).fine else 0
def yC (p : Proc) (l N : Nat) : Nat → Rat := fun i => if i < N then (p.sample l i).coarse else 0
/-- columns of the simulated controls -/
def xF (c : CvProc) (l N : Nat) : Nat → Nat → Rat := fun j i => if i < N ∧ j < c.k then c.XF l j i else 0
def xC (c : CvProc) (l N : Nat) : Nat → Nat → Rat := fun j i => if i < N ∧ j < c.k ∧ l ≠ 0 then c.XC l j i else 0

theorem yCol_fine_samples (p : Proc) (l N : Nat) : yCol rowFine (samplesOf p l N) = yF p l N := by
  funext i
  unfold yCol yF samplesOf
  by_cases h : i < N <;> simp [h, rowFine]

theorem yCol_coarse_samples (p : Proc) (l N : Nat) : yCol rowCoarse (samplesOf p l N) = yC p l N := by
  funext i
  unfold yCol yC samplesOf
  by_cases h : i < N <;> simp [h, rowCoarse]

theorem xCol_fine_samples (c : CvProc) (l N : Nat) : xCol true (ctlSamplesOf c l N) = xF c l N := by
  funext j i
  unfold xCol xF ctlSamplesOf CvProc.ctl
  by_cases h : i < N
  · by_cases hj : j < c.k <;> simp [h, hj]
  · simp [h]

theorem xCol_coarse_samples (c : CvProc) (l N : Nat) : xCol false (ctlSamplesOf c l N) = xC c l N := by
  funext j i
  unfold xCol xC ctlSamplesOf CvProc.ctl
  by_cases h : i < N
  · by_cases hj : j < c.k
    · by_cases hl : l = 0 <;> simp [h, hj, hl]
    · simp [h, hj]
  · simp [h]

/-- coefficient vectors the code uses at level l: one for the fine column, one for the coarse column, each from the
    regression kernel on all N rows of the level -/
def bF (p : Proc) (c : CvProc) (l N : Nat) : Nat → Rat := fun j => (coefList c N (xF c l N) (yF p l N)).getD j 0
def bC (p : Proc) (c : CvProc) (l N : Nat) : Nat → Rat := fun j => (coefList c N (xC c l N) (yC p l N)).getD j 0

/-- for the k controls these are the kernel's values -/
theorem bF_eq (p : Proc) (c : CvProc) (l N j : Nat) (hj : j < c.k) : bF p c l N j = c.coef N (xF c l N) (yF p l N) j := by
  simp [bF, coefList, hj]
theorem bC_eq (p : Proc) (c : CvProc) (l N j : Nat) (hj : j < c.k) : bC p c l N j = c.coef N (xC c l N) (yC p l N) j := by
  simp [bC, coefList, hj]

/-- **adjusted row i = Y_i − Σ_j b_j (X_{j,i} − price_j)**, fine and coarse column, over the samples simulated at the level -/
theorem cv_adj_row (p : Proc) (c : CvProc) (l : Nat) (lv : Lvl) (cl : CvLvl) (hc : CvLvlClean p c l lv cl)
    (i : Nat) (hi : i < lv.N) :
    cl.adj[i]? = some (some ⟨Stats.adjustK c.k (bF p c l lv.N) c.price (xF c l lv.N) (yF p l lv.N) i,
                             Stats.adjustK c.k (bC p c l lv.N) c.price (xC c l lv.N) (yC p l lv.N) i⟩) := by
  rw [hc.2.1]
  simp only [computeAdj, samplesOf_length, yCol_fine_samples, yCol_coarse_samples, xCol_fine_samples,
    xCol_coarse_samples, adjustCol]
  simp [hi]
  exact ⟨rfl, rfl⟩

/-! ### consequences: the reported price -/

theorem meanOf_adj_fine (c : CvProc) (rows : List Row) (xrows : List CRow) :
    meanOf rowFine (computeAdj c rows xrows)
      = Stats.mean rows.length (adjustCol c (coefList c rows.length (xCol true xrows) (yCol rowFine rows))
          (xCol true xrows) (yCol rowFine rows)) := by
  unfold meanOf Stats.mean Stats.sumTo
  rw [computeAdj_length]
  simp only [computeAdj, List.map_map]
  rfl

theorem meanOf_adj_coarse (c : CvProc) (rows : List Row) (xrows : List CRow) :
    meanOf rowCoarse (computeAdj c rows xrows)
      = Stats.mean rows.length (adjustCol c (coefList c rows.length (xCol false xrows) (yCol rowCoarse rows))
          (xCol false xrows) (yCol rowCoarse rows)) := by
  unfold meanOf Stats.mean Stats.sumTo
  rw [computeAdj_length]
  simp only [computeAdj, List.map_map]
  rfl

/-- **the reported price with control variates is the sum over levels of (adjusted fine mean − adjusted coarse mean)** over
    exactly the N_l simulated samples of each level -/
theorem price_cv_is_sum_of_adjusted_means (p : Proc) (c : CvProc) (s : CvSt) (h : CvClean p c s) :
    priceOfCv s = listSum ((List.range (s.base.L + 1)).map (fun l =>
      Stats.mean (s.base.lv l).N
          (Stats.adjustK c.k (bF p c l (s.base.lv l).N) c.price (xF c l (s.base.lv l).N) (yF p l (s.base.lv l).N))
      - Stats.mean (s.base.lv l).N
          (Stats.adjustK c.k (bC p c l (s.base.lv l).N) c.price (xC c l (s.base.lv l).N) (yC p l (s.base.lv l).N)))) := by
  unfold priceOfCv
  congr 1
  apply List.map_congr_left
  intro l hl
  have hl' : l ≤ s.base.L := by have := List.mem_range.mp hl; omega
  rw [(h.2 l hl').2.1, meanOf_adj_fine, meanOf_adj_coarse]
  simp only [samplesOf_length, yCol_fine_samples, yCol_coarse_samples, xCol_fine_samples, xCol_coarse_samples,
    adjustCol]
  rfl

/-! ### `cv_mean_identity` at the multilevel level -/

theorem mean_yF (p : Proc) (l N : Nat) :
    Stats.mean N (yF p l N) = listSum ((List.range N).map (fun k => (p.sample l k).fine)) / N := by
  unfold Stats.mean Stats.sumTo
  have : (List.range N).map (yF p l N) = (List.range N).map (fun k => (p.sample l k).fine) := by
    apply List.map_congr_left; intro i hi; simp [yF, List.mem_range.mp hi]
  rw [this]; rfl

theorem mean_yC (p : Proc) (l N : Nat) :
    Stats.mean N (yC p l N) = listSum ((List.range N).map (fun k => (p.sample l k).coarse)) / N := by
  unfold Stats.mean Stats.sumTo
  have : (List.range N).map (yC p l N) = (List.range N).map (fun k => (p.sample l k).coarse) := by
    apply List.map_congr_left; intro i hi; simp [yC, List.mem_range.mp hi]
  rw [this]; rfl

/-- per level and column: the adjusted mean is the raw mean minus `Σ_j b_j (mean X_j − price_j)`, whatever the coefficients -/
theorem level_cv_mean (c : CvProc) (N : Nat) (hN : 0 < N) (b : Nat → Rat) (x : Nat → Nat → Rat) (y : Nat → Rat) :
    Stats.mean N (Stats.adjustK c.k b c.price x y)
      = Stats.mean N y - Stats.sumTo c.k (fun j => b j * (Stats.mean N (x j) - c.price j)) :=
  Stats.adjustK_mean N c.k hN b c.price x y

/-- the sample means of the controls of level l equal their prices (fine column; coarse column for l ≥ 1), and at level 0
    — where the coarse controls are identically zero — the kernel returns the zero vector for the coarse column -/
def CvCentred (p : Proc) (c : CvProc) (l N : Nat) : Prop :=
  (∀ j, j < c.k → Stats.mean N (xF c l N j) = c.price j) ∧
  (l ≠ 0 → ∀ j, j < c.k → Stats.mean N (xC c l N j) = c.price j) ∧
  (l = 0 → ∀ j, j < c.k → bC p c l N j = 0)

theorem adjustK_zero_coef (k : Nat) (b cc : Nat → Rat) (x : Nat → Nat → Rat) (y : Nat → Rat)
    (hb : ∀ j, j < k → b j = 0) : Stats.adjustK k b cc x y = y := by
  funext i
  unfold Stats.adjustK
  have : Stats.sumTo k (fun j => b j * (x j i - cc j)) = Stats.sumTo k (fun _ => 0) := by
    apply Stats.sumTo_congr; intro j hj; rw [hb j hj]; ring
  rw [this, Stats.sumTo_const]; ring

/-- **cv_mean_identity, multilevel**: if on every level the controls' sample means equal their given prices, the price
    reported with control variates coincides with the raw multilevel price — whatever coefficients the regression produced,
    for any number of controls, after any history. -/
theorem cv_mean_identity_mlmc (p : Proc) (c : CvProc) (s : CvSt) (h : CvClean p c s)
    (hN : ∀ l, l ≤ s.base.L → 0 < (s.base.lv l).N)
    (hc : ∀ l, l ≤ s.base.L → CvCentred p c l (s.base.lv l).N) :
    priceOfCv s = priceOf s.base := by
  rw [price_cv_is_sum_of_adjusted_means p c s h, price_is_sum_of_level_means p s.base h.1]
  congr 1
  apply List.map_congr_left
  intro l hl
  have hl' : l ≤ s.base.L := by have := List.mem_range.mp hl; omega
  obtain ⟨hf, hcn, hc0⟩ := hc l hl'
  rw [Stats.cv_mean_identity_k _ c.k (hN l hl') _ _ _ _ hf, mean_yF]
  congr 1
  by_cases hz : l = 0
  · rw [adjustK_zero_coef c.k _ _ _ _ (hc0 hz), mean_yC]
  · rw [Stats.cv_mean_identity_k _ c.k (hN l hl') _ _ _ _ (hcn hz), mean_yC]

/-- the exact one-control kernel returns 0 on the level-0 coarse column (the controls are identically zero there: the
    guard `|var X| < 1e-12` of `helper_compute_coefficients` fires) -/
theorem coef1_level0_coarse (p : Proc) (c : CvProc) (N : Nat) (hk : c.coef = coef1) (j : Nat) : bC p c 0 N j = 0 := by
  by_cases hj : j < c.k
  swap
  · simp [bC, coefList, hj]
  rw [bC_eq p c 0 N j hj, hk]
  have hx : xC c 0 N 0 = fun _ => 0 := by funext i; simp [xC]
  show Stats.bStar N (xC c 0 N 0) (yC p 0 N) = 0
  rw [hx]
  unfold Stats.bStar
  have hv : Stats.varB N (fun _ => (0 : Rat)) = 0 := by
    unfold Stats.varB
    rw [Stats.covB_def]
    unfold Stats.mean
    simp [Stats.sumTo_const]
  rw [hv]
  simp [Stats.rabs, Stats.guard]

/-- the same for the kernel as coded with up to two controls (`Stats.kernelOf`): at level 0 the coarse controls are identically
    zero, every entry of Σ_X is 0 < 1e-12, the guard fires and the coefficients are 0 -/
theorem kernelOf_level0_coarse (p : Proc) (c : CvProc) (N : Nat) (hk : c.coef = Stats.kernelOf c.k) (j : Nat) :
    bC p c 0 N j = 0 := by
  by_cases hj : j < c.k
  swap
  · simp [bC, coefList, hj]
  rw [bC_eq p c 0 N j hj, hk]
  have hx : ∀ i, xC c 0 N i = fun _ => 0 := by intro i; funext t; simp [xC]
  have hv : Stats.varB N (fun _ => (0 : Rat)) = 0 := by
    unfold Stats.varB
    rw [Stats.covB_def]
    unfold Stats.mean
    simp [Stats.sumTo_const]
  unfold Stats.kernelOf
  by_cases h1 : c.k = 1
  · rw [if_pos h1]
    show Stats.bStar N (xC c 0 N 0) (yC p 0 N) = 0
    rw [hx 0]
    unfold Stats.bStar
    rw [hv]
    simp [Stats.rabs, Stats.guard]
  · rw [if_neg h1]
    by_cases h2 : c.k = 2
    · rw [if_pos h2]
      unfold Stats.kernel2
      simp only [hx 0, hv]
      have : Stats.rabs 0 < Stats.guard := by simp [Stats.rabs, Stats.guard]
      simp [this]
    · rw [if_neg h2]

/-! ### non-vacuity: a history with one control that adds a level and returns; the adjusted arrays have the rows of the raw ones -/

def demoCv : CvProc :=
  { k := 1, XF := fun l _ i => l + (i + 1) * (i + 1) / 64, XC := fun l _ i => l + (i + 1) * (i + 2) / 128,
    price := fun _ => 1 / 2, coef := coef1 }

example : (match priceCv demoProc demoCv 1 2 5 0 demoHist with
    | .ret s => s.base.L == 2 && ((s.cv 2).adj.length == 3) && ((s.cv 2).xrows.length == 3) && !(s.cv 2).err
    | _ => false) = true := by
  decide +kernel

/-- the hypothesis of `cv_mean_identity_mlmc` is satisfiable: one level, two samples, control values 1/4 and 3/4, price 1/2 -/
def demoCv0 : CvProc :=
  { k := 1, XF := fun _ _ i => 1 / 4 + i / 2, XC := fun _ _ _ => 0, price := fun _ => 1 / 2, coef := coef1 }

example : CvCentred demoProc demoCv0 0 2 := by
  refine ⟨?_, fun h => absurd rfl h, fun _ j _ => coef1_level0_coarse demoProc demoCv0 2 rfl j⟩
  intro j hj
  have hj0 : j = 0 := by have : j < 1 := hj; omega
  subst hj0
  simp [Stats.mean, Stats.sumTo, Stats.listSum, xF, demoCv0, List.range_succ]
  norm_num

end Rpylib.MlmcCv
