/-
C10: M's exact rational real / imaginary parts (Model/Triplet.lean `hemKappaRe/Im`, `mertonArgRe/Im`, `levyExpRe/Im`) are the
complex closed forms of Lemmas/C10HemExp / C10MertonExp evaluated at a complex argument with rational coordinates.
-/
import RpylibModel.Model.Triplet
import RpylibModel.Proofs.Lemmas.C10HemExp
import RpylibModel.Proofs.Lemmas.C10MertonExp
import Mathlib.Tactic.LinearCombination

namespace Rpylib.Triplet
open Real

theorem inv_sub_mul_I (A y : ℝ) (h : A ^ 2 + y ^ 2 ≠ 0) :
    (1 : ℂ) / ((A : ℂ) - y * Complex.I) = ((A : ℂ) + y * Complex.I) / ((A ^ 2 + y ^ 2 : ℝ) : ℂ) := by
  have hne : ((A ^ 2 + y ^ 2 : ℝ) : ℂ) ≠ 0 := by exact_mod_cast h
  have hd : (A : ℂ) - y * Complex.I ≠ 0 := by
    intro h0
    apply hne
    push_cast
    have : ((A : ℂ) + y * Complex.I) * ((A : ℂ) - y * Complex.I) = (A : ℂ) ^ 2 + (y : ℂ) ^ 2 := by
      linear_combination (-(y : ℂ) ^ 2) * Complex.I_sq
    rw [← this, h0, mul_zero]
  rw [div_eq_div_iff hd hne]
  push_cast
  linear_combination ((y : ℂ) ^ 2) * Complex.I_sq

/-- M's rational real / imaginary parts are the coded complex rational function -/
theorem hemKappaC_re_im (lam p eta1 eta2 x y : ℚ) (h1 : ((eta1 : ℝ) - x) ^ 2 + (y : ℝ) ^ 2 ≠ 0)
    (h2 : ((eta2 : ℝ) + x) ^ 2 + (y : ℝ) ^ 2 ≠ 0) :
    hemKappaC lam p eta1 eta2 ((x : ℝ) + (y : ℝ) * Complex.I)
      = ((hemKappaRe lam p eta1 eta2 x y : ℚ) : ℝ) + ((hemKappaIm lam p eta1 eta2 x y : ℚ) : ℝ) * Complex.I := by
  have a1 := inv_sub_mul_I ((eta1 : ℝ) - x) y h1
  have h2' : ((eta2 : ℝ) + x) ^ 2 + (-(y : ℝ)) ^ 2 ≠ 0 := by simpa using h2
  have a2 := inv_sub_mul_I ((eta2 : ℝ) + x) (-y) h2'
  have e1 : (eta1 : ℂ) - ((x : ℝ) + (y : ℝ) * Complex.I) = (((eta1 : ℝ) - x : ℝ) : ℂ) - (y : ℝ) * Complex.I := by
    push_cast; ring
  have e2 : (eta2 : ℂ) + ((x : ℝ) + (y : ℝ) * Complex.I) = (((eta2 : ℝ) + x : ℝ) : ℂ) - ((-y : ℝ) : ℂ) * Complex.I := by
    push_cast; ring
  unfold hemKappaC hemKappaRe hemKappaIm
  have n1 : ((((eta1 : ℝ) - x) ^ 2 + (y : ℝ) ^ 2 : ℝ) : ℂ) ≠ 0 := by exact_mod_cast h1
  have n2 : ((((eta2 : ℝ) + x) ^ 2 + (y : ℝ) ^ 2 : ℝ) : ℂ) ≠ 0 := by exact_mod_cast h2
  simp only [Complex.ofReal_ratCast] at *
  rw [div_eq_mul_one_div (_ * _) ((eta1 : ℂ) - _), div_eq_mul_one_div (_ * _) ((eta2 : ℂ) + _), e1, e2, a1, a2]
  push_cast at n1 n2 ⊢
  field_simp
  ring

/-- the argument of Merton's `exp` at z = x + i y -/
theorem mertonArg_re_im (mu sigmaJ x y : ℚ) :
    ((mu : ℝ) : ℂ) * ((x : ℝ) + (y : ℝ) * Complex.I) + ((sigmaJ : ℝ) : ℂ) ^ 2 * ((x : ℝ) + (y : ℝ) * Complex.I) ^ 2 / 2
      = ((mertonArgRe mu sigmaJ x y : ℚ) : ℝ) + ((mertonArgIm mu sigmaJ x y : ℚ) : ℝ) * Complex.I := by
  unfold mertonArgRe mertonArgIm
  push_cast
  linear_combination ((sigmaJ : ℂ) ^ 2 * (y : ℂ) ^ 2 / 2) * Complex.I_sq

/-- `levy_exponent(w)` (levymodel.py:408) at w = u + i v from the pure-jump value κ(i w) = kre + i kim -/
theorem levyExp_re_im (a sigma u v kre kim : ℚ) (κ : ℂ) (hκ : κ = ((kre : ℚ) : ℝ) + ((kim : ℚ) : ℝ) * Complex.I) :
    Complex.I * ((u : ℝ) + (v : ℝ) * Complex.I) * ((a : ℝ) : ℂ) - (((u : ℝ) + (v : ℝ) * Complex.I) * ((sigma : ℝ) : ℂ)) ^ 2 / 2 + κ
      = ((levyExpRe a sigma u v kre : ℚ) : ℝ) + ((levyExpIm a sigma u v kim : ℚ) : ℝ) * Complex.I := by
  unfold levyExpRe levyExpIm
  rw [hκ]
  push_cast
  linear_combination ((v : ℂ) * a - (sigma : ℂ) ^ 2 * (v : ℂ) ^ 2 / 2) * Complex.I_sq

theorem I_mul_w (u v : ℚ) :
    Complex.I * ((u : ℝ) + (v : ℝ) * Complex.I) = (((-v : ℚ) : ℝ) : ℂ) + ((u : ℚ) : ℝ) * Complex.I := by
  push_cast
  linear_combination (v : ℂ) * Complex.I_sq

end Rpylib.Triplet
