/-
Helper lemmas for C11: the completely dependent copula in d = 2 on the whole extended plane (infinite end points).
Closed form of `dep [u, v]` for every pair of constructors; the volume of a rectangle `(a1,b1] × (a2,b2]` with
`a ≠ +∞`, `b ≠ −∞` is a finite non-negative number, or +∞ exactly when `b1 = b2 = +∞` or `a1 = a2 = −∞`.
-/
import RpylibModel.Proofs.Lemmas.C11IndepDep

set_option linter.unusedSectionVars false
set_option linter.unusedSimpArgs false

namespace Rpylib.Copula

/-- closed form of the dependent copula on the extended plane, d = 2 (even d: all negative ↦ `-max`) -/
def depE : Ext Rat → Ext Rat → EVal
  | .negInf, .negInf => .posInf
  | .negInf, .fin v => .fin (if v < 0 then -v else 0)
  | .negInf, .posInf => .fin 0
  | .fin u, .negInf => .fin (if u < 0 then -u else 0)
  | .fin u, .fin v => .fin (depq u v)
  | .fin u, .posInf => .fin (if 0 < u then u else 0)
  | .posInf, .negInf => .fin 0
  | .posInf, .fin v => .fin (if 0 < v then v else 0)
  | .posInf, .posInf => .posInf

theorem dep_two (u v : Ext Rat) : dep [u, v] = depE u v := by
  rcases u with _ | u | _ <;> rcases v with _ | v | _
  · simp [dep, depE, Ext.isPos, Ext.isNeg, extMax, Ext.max, Ext.le, Ext.toEVal, EVal.neg]
  · by_cases h : v < 0 <;>
      simp [dep, depE, Ext.isPos, Ext.isNeg, extMax, Ext.max, Ext.le, Ext.toEVal, EVal.neg, h]
  · simp [dep, depE, Ext.isPos, Ext.isNeg]
  · by_cases h : u < 0 <;>
      simp [dep, depE, Ext.isPos, Ext.isNeg, extMax, Ext.max, Ext.le, Ext.toEVal, EVal.neg, h]
  · exact dep_fin_two u v
  · by_cases h : 0 < u <;>
      simp [dep, depE, Ext.isPos, Ext.isNeg, extMin, Ext.min, Ext.le, Ext.toEVal, h]
  · simp [dep, depE, Ext.isPos, Ext.isNeg]
  · by_cases h : 0 < v <;>
      simp [dep, depE, Ext.isPos, Ext.isNeg, extMin, Ext.min, Ext.le, Ext.toEVal, h]
  · simp [dep, depE, Ext.isPos, Ext.isNeg, extMin, Ext.min, Ext.le, Ext.toEVal]

theorem dep_volume_two (a1 a2 b1 b2 : Ext Rat) :
    volume dep [a1, a2] [b1, b2] = depE a1 a2 + (-(depE a1 b2) + (-(depE b1 a2) + (depE b1 b2 + 0))) := by
  simp [volume, corners, sumList, dep_two]

@[simp] theorem EVal.fin_add_posInf (a : Rat) : (EVal.fin a + EVal.posInf : EVal) = EVal.posInf := rfl
@[simp] theorem EVal.posInf_add_fin (a : Rat) : (EVal.posInf + EVal.fin a : EVal) = EVal.posInf := rfl
@[simp] theorem EVal.posInf_add_posInf : (EVal.posInf + EVal.posInf : EVal) = EVal.posInf := rfl

theorem EVal.nonneg_fin (r : Rat) : EVal.Nonneg (.fin r) ↔ 0 ≤ r := Iff.rfl

/-- **dependent copula, d = 2, every rectangle of (−∞,∞]²** (sides `(a,b]` with `a ≠ +∞`, `b ≠ −∞`): the volume the
    code computes is a non-negative number or +∞, never NaN -/
theorem dep_two_increasing_all_aux (a1 b1 a2 b2 : Ext Rat) (l1 : Ext.LE a1 b1) (l2 : Ext.LE a2 b2)
    (na1 : a1 ≠ .posInf) (na2 : a2 ≠ .posInf) (nb1 : b1 ≠ .negInf) (nb2 : b2 ≠ .negInf) :
    EVal.Nonneg (volume dep [a1, a2] [b1, b2]) := by
  rw [dep_volume_two]
  rcases a1 with _ | a1 | _ <;> rcases b1 with _ | b1 | _ <;> try contradiction
  all_goals (rcases a2 with _ | a2 | _ <;> rcases b2 with _ | b2 | _ <;> try contradiction)
  all_goals try simp only [Ext.LE] at l1 l2
  all_goals try simp only [depE, EVal.neg_fin, EVal.fin_add, EVal.zero_def, EVal.fin_add_posInf, EVal.posInf_add_fin,
    EVal.posInf_add_posInf, EVal.nonneg_fin]
  all_goals first
    | trivial
    | linarith [depq_two_increasing a1 b1 a2 b2 l1 l2]
    | ((try simp only [depq, min_def, max_def]); split_ifs <;> linarith)

end Rpylib.Copula
