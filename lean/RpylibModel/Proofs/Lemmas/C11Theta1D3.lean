/-
Helper lemmas for C11, d = 3: the executable float Clayton `clayton1` (θ = 1, EVal-valued) is the abstract-generator
Clayton of `gen1` with scale 2^(2-3) = 1/2 wherever the floats stay finite (not all three entries infinite).
-/
import RpylibModel.Proofs.Lemmas.C11Clayton3
import RpylibModel.Proofs.Lemmas.C11Theta1

set_option linter.unusedSectionVars false
set_option linter.unusedSimpArgs false

namespace Rpylib.Copula

theorem gen1_argZero_of_any_false {us : List (Ext Rat)} (h : us.any gen1.argZero = false) :
    ∀ u ∈ us, gen1.argZero u = false := by
  intro u hu
  rcases hh : gen1.argZero u with _ | _
  · rfl
  · have : us.any gen1.argZero = true := List.any_eq_true.mpr ⟨u, hu, hh⟩
    rw [h] at this; cases this

/-- in d = 3, away from the corners with three infinite entries, the float Clayton (θ=1) is the exact one -/
theorem clayton1_three (eta : Rat) (u v w : Ext Rat) (h : u.isInf = false ∨ v.isInf = false ∨ w.isInf = false) :
    clayton1 eta [u, v, w] = .fin (F3 gen1 eta u v w) := by
  have hs : scalePow 3 = 1 / 2 := by norm_num [scalePow]
  unfold clayton1 F3
  by_cases hz : ([u, v, w].any gen1.argZero) = true
  · simp [hz, claytonOf]
  · have hz' : ([u, v, w].any gen1.argZero) = false := by simpa using hz
    have hall := gen1_argZero_of_any_false hz'
    have hu := hall u (by simp)
    have hv := hall v (by simp)
    have hw := hall w (by simp)
    have hsum : sumG ([u, v, w].map gen1.arg) ≠ 0 := by
      simp only [List.map, sumG]
      have nu := gen1_arg_nonneg u
      have nv := gen1_arg_nonneg v
      have nw := gen1_arg_nonneg w
      rcases h with h | h | h
      · rcases u with _ | a | _
        · simp [Ext.isInf] at h
        · have := gen1_arg_pos a hu; linarith
        · simp [Ext.isInf] at h
      · rcases v with _ | a | _
        · simp [Ext.isInf] at h
        · have := gen1_arg_pos a hv; linarith
        · simp [Ext.isInf] at h
      · rcases w with _ | a | _
        · simp [Ext.isInf] at h
        · have := gen1_arg_pos a hw; linarith
        · simp [Ext.isInf] at h
    simp only [hz', hsum, if_false, List.length_cons, List.length_nil, hs]
    rfl

/-- the model's `volume` of the float Clayton (θ=1) over an admissible box is the finite number `V3` -/
theorem clayton1_volume_three (eta : Rat) (a1 a2 a3 b1 b2 b3 : Ext Rat) (hP : Adm3 a1 b1 a2 b2 a3 b3) :
    volume (clayton1 eta) [a1, a2, a3] [b1, b2, b3] = .fin (V3 (F3 gen1 eta) a1 b1 a2 b2 a3 b3) := by
  have c : ∀ u v w, (u = a1 ∨ u = b1) → (v = a2 ∨ v = b2) → (w = a3 ∨ w = b3) →
      clayton1 eta [u, v, w] = .fin (F3 gen1 eta u v w) := by
    intro u v w hu hv hw
    apply clayton1_three
    rcases hP with ⟨h1, h2⟩ | ⟨h1, h2⟩ | ⟨h1, h2⟩
    · left; rcases hu with rfl | rfl <;> assumption
    · right; left; rcases hv with rfl | rfl <;> assumption
    · right; right; rcases hw with rfl | rfl <;> assumption
  simp only [volume, corners, List.map, List.append, List.length_cons, List.length_nil, sumList,
    List.cons_append, List.nil_append]
  rw [c a1 a2 a3 (Or.inl rfl) (Or.inl rfl) (Or.inl rfl), c a1 a2 b3 (Or.inl rfl) (Or.inl rfl) (Or.inr rfl),
    c a1 b2 a3 (Or.inl rfl) (Or.inr rfl) (Or.inl rfl), c a1 b2 b3 (Or.inl rfl) (Or.inr rfl) (Or.inr rfl),
    c b1 a2 a3 (Or.inr rfl) (Or.inl rfl) (Or.inl rfl), c b1 a2 b3 (Or.inr rfl) (Or.inl rfl) (Or.inr rfl),
    c b1 b2 a3 (Or.inr rfl) (Or.inr rfl) (Or.inl rfl), c b1 b2 b3 (Or.inr rfl) (Or.inr rfl) (Or.inr rfl)]
  simp [V3]
  ring

end Rpylib.Copula
