/-
C10, HEM: the Lévy–Khintchine integral ∫ (e^{z x} − 1) ν(dx) of the model's own density (`hemDensity`, hem.py:55-62, the
definition C09 uses) equals the coded rational function λ(pη₁/(η₁−z) + (1−p)η₂/(η₂+z) − 1) (hem.py:216-219) for every complex
z in the strip −η₂ < Re z < η₁; real (moment-generating) and imaginary (characteristic) arguments are special cases.
Mathlib: ∫_{(c,∞)} e^{a x} dx for Re a < 0 (`integral_exp_mul_complex_Ioi`) and its mirror image.
-/
import RpylibModel.Proofs.Lemmas.C09Hem
import Mathlib.Analysis.SpecialFunctions.ImproperIntegrals

namespace Rpylib.Triplet
open Real MeasureTheory Set Rpylib.Integrals

/-- the Lévy–Khintchine integrand of the pure-jump exponent at a complex argument: (e^{z x} − 1) ν(x) -/
noncomputable def hemLKIntegrand (lam p eta1 eta2 : ℝ) (z : ℂ) (x : ℝ) : ℂ :=
  (Complex.exp (z * x) - 1) * (hemDensity lam p eta1 eta2 x : ℂ)

/-- the coded closed form at a complex argument (hem.py:216-219) -/
noncomputable def hemKappaC (lam p eta1 eta2 : ℝ) (z : ℂ) : ℂ :=
  lam * (p * eta1 / (eta1 - z) + (1 - p) * eta2 / (eta2 + z) - 1)

theorem hemLK_on_pos (lam p eta1 eta2 : ℝ) (z : ℂ) {x : ℝ} (hx : 0 < x) :
    hemLKIntegrand lam p eta1 eta2 z x
      = (lam * p * eta1 : ℂ) * (Complex.exp ((z - eta1) * x) - Complex.exp ((-(eta1 : ℂ)) * x)) := by
  have hn : ¬ x < 0 := not_lt.mpr hx.le
  simp only [hemLKIntegrand, hemDensity, hx, hn, if_true, if_false, add_zero]
  push_cast
  have e1 : Complex.exp ((z - eta1) * x) = Complex.exp (z * x) * Complex.exp (-(eta1 * x : ℂ)) := by
    rw [← Complex.exp_add]; congr 1; ring
  have e2 : (-(eta1 : ℂ)) * x = -(eta1 * x : ℂ) := by ring
  rw [e1, e2]; ring

theorem hemLK_on_neg (lam p eta1 eta2 : ℝ) (z : ℂ) {x : ℝ} (hx : x < 0) :
    hemLKIntegrand lam p eta1 eta2 z x
      = (lam * (1 - p) * eta2 : ℂ) * (Complex.exp ((z + eta2) * x) - Complex.exp ((eta2 : ℂ) * x)) := by
  have hn : ¬ 0 < x := not_lt.mpr hx.le
  simp only [hemLKIntegrand, hemDensity, hx, hn, if_true, if_false, zero_add]
  push_cast
  have e1 : Complex.exp ((z + eta2) * x) = Complex.exp (z * x) * Complex.exp (eta2 * x : ℂ) := by
    rw [← Complex.exp_add]; congr 1; ring
  rw [e1]; ring

theorem integrableOn_hemLK_Ioi (lam p eta1 eta2 : ℝ) (z : ℂ) (h1 : 0 < eta1) (hz : z.re < eta1) :
    IntegrableOn (hemLKIntegrand lam p eta1 eta2 z) (Ioi 0) := by
  have ha : (z - eta1).re < 0 := by simp; linarith
  have hb : (-(eta1 : ℂ)).re < 0 := by simp; linarith
  have h : IntegrableOn (fun x : ℝ => (lam * p * eta1 : ℂ) *
      (Complex.exp ((z - eta1) * x) - Complex.exp ((-(eta1 : ℂ)) * x))) (Ioi 0) :=
    ((integrableOn_exp_mul_complex_Ioi ha 0).sub (integrableOn_exp_mul_complex_Ioi hb 0)).const_mul (lam * p * eta1 : ℂ)
  refine h.congr_fun (fun x hx => ?_) measurableSet_Ioi
  exact (hemLK_on_pos lam p eta1 eta2 z hx).symm

theorem integral_hemLK_Ioi (lam p eta1 eta2 : ℝ) (z : ℂ) (h1 : 0 < eta1) (hz : z.re < eta1) :
    ∫ x in Ioi (0:ℝ), hemLKIntegrand lam p eta1 eta2 z x = (lam * p : ℂ) * (eta1 / (eta1 - z) - 1) := by
  have ha : (z - eta1).re < 0 := by simp; linarith
  have hb : (-(eta1 : ℂ)).re < 0 := by simp; linarith
  have hcongr : ∫ x in Ioi (0:ℝ), hemLKIntegrand lam p eta1 eta2 z x
      = ∫ x in Ioi (0:ℝ), (lam * p * eta1 : ℂ) * (Complex.exp ((z - eta1) * x) - Complex.exp ((-(eta1 : ℂ)) * x)) :=
    setIntegral_congr_fun measurableSet_Ioi (fun x hx => hemLK_on_pos lam p eta1 eta2 z hx)
  rw [hcongr, integral_const_mul,
    integral_sub (integrableOn_exp_mul_complex_Ioi ha 0) (integrableOn_exp_mul_complex_Ioi hb 0),
    integral_exp_mul_complex_Ioi ha, integral_exp_mul_complex_Ioi hb]
  have hne : (eta1 : ℂ) - z ≠ 0 := by
    intro h
    have := congrArg Complex.re h
    simp at this; linarith
  have hne' : z - (eta1 : ℂ) ≠ 0 := by
    intro h; apply hne; rw [← neg_sub, h, neg_zero]
  have h1' : (eta1 : ℂ) ≠ 0 := by exact_mod_cast h1.ne'
  simp only [Complex.ofReal_zero, mul_zero, Complex.exp_zero]
  field_simp
  ring

theorem integrableOn_hemLK_Iio (lam p eta1 eta2 : ℝ) (z : ℂ) (h2 : 0 < eta2) (hz : -eta2 < z.re) :
    IntegrableOn (hemLKIntegrand lam p eta1 eta2 z) (Iio 0) := by
  have ha : 0 < (z + eta2).re := by simp; linarith
  have hb : 0 < ((eta2 : ℂ)).re := by simp; linarith
  have h0 : IntegrableOn (fun x : ℝ => (lam * (1 - p) * eta2 : ℂ) *
      (Complex.exp ((z + eta2) * x) - Complex.exp ((eta2 : ℂ) * x))) (Iic 0) :=
    ((integrableOn_exp_mul_complex_Iic ha 0).sub (integrableOn_exp_mul_complex_Iic hb 0)).const_mul (lam * (1 - p) * eta2 : ℂ)
  have h := h0.mono_set Iio_subset_Iic_self
  refine h.congr_fun (fun x hx => ?_) measurableSet_Iio
  exact (hemLK_on_neg lam p eta1 eta2 z hx).symm

theorem integral_hemLK_Iio (lam p eta1 eta2 : ℝ) (z : ℂ) (h2 : 0 < eta2) (hz : -eta2 < z.re) :
    ∫ x in Iio (0:ℝ), hemLKIntegrand lam p eta1 eta2 z x = (lam * (1 - p) : ℂ) * (eta2 / (eta2 + z) - 1) := by
  have ha : 0 < (z + eta2).re := by simp; linarith
  have hb : 0 < ((eta2 : ℂ)).re := by simp; linarith
  have hcongr : ∫ x in Iio (0:ℝ), hemLKIntegrand lam p eta1 eta2 z x
      = ∫ x in Iio (0:ℝ), (lam * (1 - p) * eta2 : ℂ) * (Complex.exp ((z + eta2) * x) - Complex.exp ((eta2 : ℂ) * x)) :=
    setIntegral_congr_fun measurableSet_Iio (fun x hx => hemLK_on_neg lam p eta1 eta2 z hx)
  rw [hcongr, ← integral_Iic_eq_integral_Iio, integral_const_mul,
    integral_sub (integrableOn_exp_mul_complex_Iic ha 0) (integrableOn_exp_mul_complex_Iic hb 0),
    integral_exp_mul_complex_Iic ha, integral_exp_mul_complex_Iic hb]
  have hne : (eta2 : ℂ) + z ≠ 0 := by
    intro h
    have := congrArg Complex.re h
    simp at this; linarith
  have hne' : z + (eta2 : ℂ) ≠ 0 := by rwa [add_comm]
  have h2' : (eta2 : ℂ) ≠ 0 := by exact_mod_cast h2.ne'
  simp only [Complex.ofReal_zero, mul_zero, Complex.exp_zero]
  field_simp
  ring

theorem integrable_hemLK (lam p eta1 eta2 : ℝ) (z : ℂ) (h1 : 0 < eta1) (h2 : 0 < eta2)
    (hz : -eta2 < z.re ∧ z.re < eta1) : Integrable (hemLKIntegrand lam p eta1 eta2 z) := by
  have hIic : IntegrableOn (hemLKIntegrand lam p eta1 eta2 z) (Iic 0) :=
    (integrableOn_Iic_iff_integrableOn_Iio).mpr (integrableOn_hemLK_Iio lam p eta1 eta2 z h2 hz.1)
  have h := hIic.union (integrableOn_hemLK_Ioi lam p eta1 eta2 z h1 hz.2)
  rwa [Iic_union_Ioi, integrableOn_univ] at h

/-- **HEM: the Lévy–Khintchine integral of the density is the coded rational function**, for every complex argument
    in the strip −η₂ < Re z < η₁ -/
theorem hem_LK_integral_complex (lam p eta1 eta2 : ℝ) (z : ℂ) (h1 : 0 < eta1) (h2 : 0 < eta2)
    (hz : -eta2 < z.re ∧ z.re < eta1) :
    ∫ x, hemLKIntegrand lam p eta1 eta2 z x = hemKappaC lam p eta1 eta2 z := by
  have hIic : IntegrableOn (hemLKIntegrand lam p eta1 eta2 z) (Iic 0) :=
    (integrableOn_Iic_iff_integrableOn_Iio).mpr (integrableOn_hemLK_Iio lam p eta1 eta2 z h2 hz.1)
  rw [← intervalIntegral.integral_Iic_add_Ioi hIic (integrableOn_hemLK_Ioi lam p eta1 eta2 z h1 hz.2),
    integral_Iic_eq_integral_Iio, integral_hemLK_Iio lam p eta1 eta2 z h2 hz.1,
    integral_hemLK_Ioi lam p eta1 eta2 z h1 hz.2]
  unfold hemKappaC
  ring

/-- the coded closed form at a real argument -/
noncomputable def hemKappaR (lam p eta1 eta2 s : ℝ) : ℝ :=
  lam * (p * eta1 / (eta1 - s) + (1 - p) * eta2 / (eta2 + s) - 1)

theorem hemKappaC_ofReal (lam p eta1 eta2 s : ℝ) :
    hemKappaC lam p eta1 eta2 (s : ℂ) = ((hemKappaR lam p eta1 eta2 s : ℝ) : ℂ) := by
  unfold hemKappaC hemKappaR; push_cast; ring

/-- real argument: ∫ (e^{s x} − 1) ν(dx) = λ(pη₁/(η₁−s) + (1−p)η₂/(η₂+s) − 1) for −η₂ < s < η₁ -/
theorem hem_LK_integral_real (lam p eta1 eta2 s : ℝ) (h1 : 0 < eta1) (h2 : 0 < eta2) (hs : -eta2 < s ∧ s < eta1) :
    ∫ x, (exp (s * x) - 1) * hemDensity lam p eta1 eta2 x = hemKappaR lam p eta1 eta2 s := by
  apply Complex.ofReal_injective
  rw [← hemKappaC_ofReal, ← hem_LK_integral_complex lam p eta1 eta2 (s : ℂ) h1 h2 (by simpa using hs),
    ← integral_complex_ofReal]
  congr 1; funext x
  simp only [hemLKIntegrand]; push_cast; ring

theorem integrable_hemLK_real (lam p eta1 eta2 s : ℝ) (h1 : 0 < eta1) (h2 : 0 < eta2) (hs : -eta2 < s ∧ s < eta1) :
    Integrable (fun x : ℝ => (exp (s * x) - 1) * hemDensity lam p eta1 eta2 x) := by
  have h := (integrable_hemLK lam p eta1 eta2 (s : ℂ) h1 h2 (by simpa using hs)).re
  refine h.congr (Filter.Eventually.of_forall (fun x => ?_))
  have e : hemLKIntegrand lam p eta1 eta2 (s : ℂ) x = (((exp (s * x) - 1) * hemDensity lam p eta1 eta2 x : ℝ) : ℂ) := by
    simp only [hemLKIntegrand]; push_cast; ring
  simp only [e, RCLike.re_to_complex, Complex.ofReal_re]

end Rpylib.Triplet
