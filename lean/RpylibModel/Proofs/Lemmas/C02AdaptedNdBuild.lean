/-
Helper lemmas for C02, n-dimensional adapted binary search: the buckets of `_pre_computation` (product of the pieces
{origin}, left, right of every axis without the all-origin box) contain every grid state other than the origin exactly
once and nothing else.
-/
import RpylibModel.Model.Samplers.AdaptedNd
import RpylibModel.Proofs.Lemmas.C02AdaptedNdLaw
import Mathlib.Tactic.Linarith
import Mathlib.Tactic.Ring
import Mathlib.Algebra.Order.Field.Rat

namespace Rpylib.AdaptedNd

/-- number of boxes of a list that contain `s` -/
def hits (s : List Nat) (boxes : List Box) : Nat := (boxes.filter (fun b => inBox s b)).length

theorem hits_nil (s : List Nat) : hits s [] = 0 := rfl

theorem hits_cons (s : List Nat) (b : Box) (bs : List Box) :
    hits s (b :: bs) = (if inBox s b then 1 else 0) + hits s bs := by
  unfold hits
  by_cases h : inBox s b = true
  · simp [h]; omega
  · simp [h]

theorem hits_append (s : List Nat) (l1 l2 : List Box) : hits s (l1 ++ l2) = hits s l1 + hits s l2 := by
  simp [hits, List.filter_append]

theorem sum_cellMass (M : Box → Rat) (s : List Nat) : ∀ boxes : List Box,
    (boxes.map (fun b => cellMass M b s)).sum = (hits s boxes : Rat) * M (point s) := by
  intro boxes
  induction boxes with
  | nil => simp [hits]
  | cons b bs ih =>
    rw [List.map_cons, List.sum_cons, ih, hits_cons]
    unfold cellMass
    by_cases h : inBox s b = true
    · simp only [h, if_true]; push_cast; ring
    · simp only [h]; push_cast; simp

/-- `p` contains the coordinate `x` -/
def covers (x : Nat) (p : Nat × Nat) : Bool := decide (p.1 ≤ x) && decide (x ≤ p.2)

theorem hits_map_cons (x : Nat) (xs : List Nat) (p : Nat × Nat) : ∀ bs : List Box,
    hits (x :: xs) (bs.map (fun b => p :: b)) = if covers x p then hits xs bs else 0 := by
  intro bs
  obtain ⟨l, r⟩ := p
  induction bs with
  | nil => simp [hits]
  | cons b bs ih =>
    rw [List.map_cons, hits_cons, ih, hits_cons]
    simp only [inBox, covers]
    by_cases h : (decide (l ≤ x) && decide (x ≤ r)) = true
    · simp only [h, Bool.true_and, if_true]
    · simp only [h, Bool.false_and]; simp

theorem hits_nil_map_cons (p : Nat × Nat) : ∀ bs : List Box, hits [] (bs.map (fun b => p :: b)) = 0 := by
  intro bs
  induction bs with
  | nil => rfl
  | cons b bs ih => rw [List.map_cons, hits_cons, ih]; simp [inBox]

theorem hits_product_cons (x : Nat) (xs : List Nat) (rest : List (List (Nat × Nat))) : ∀ ps : List (Nat × Nat),
    hits (x :: xs) (product (ps :: rest)) = (ps.filter (covers x)).length * hits xs (product rest) := by
  intro ps
  simp only [product]
  induction ps with
  | nil => simp [hits]
  | cons p ps ih =>
    rw [List.flatMap_cons, hits_append, ih, hits_map_cons]
    by_cases h : covers x p = true
    · simp only [h, if_true, List.filter_cons, List.length_cons]; ring
    · simp only [h, List.filter_cons]; simp

theorem hits_nil_product_cons (rest : List (List (Nat × Nat))) : ∀ ps : List (Nat × Nat),
    hits [] (product (ps :: rest)) = 0 := by
  intro ps
  simp only [product]
  induction ps with
  | nil => rfl
  | cons p ps ih => rw [List.flatMap_cons, hits_append, ih, hits_nil_map_cons]

/-- each coordinate of the grid lies in exactly one piece of its axis, coordinates outside in none -/
theorem pieces_cover (o n x : Nat) (h1 : 1 ≤ o) (h2 : o + 2 ≤ n) :
    ((pieces o n).filter (covers x)).length = if x < n then 1 else 0 := by
  simp only [pieces, covers, List.filter_cons, List.filter_nil]
  by_cases a1 : o ≤ x <;> by_cases a2 : x ≤ o <;> by_cases a3 : x ≤ o - 1 <;> by_cases a4 : o + 1 ≤ x <;>
    by_cases a5 : x ≤ n - 1 <;> by_cases a6 : x < n <;> simp [a1, a2, a3, a4, a5, a6] <;> omega

/-- `s` is a state of the grid whose axes are given as `(origin index, number of points)` -/
def inGrid : List Nat → List (Nat × Nat) → Bool
  | [], [] => true
  | x :: xs, (_, n) :: axes => decide (x < n) && inGrid xs axes
  | _, _ => false

/-- the grid is well-formed: the origin is strictly inside every axis -/
def WfAxes (axes : List (Nat × Nat)) : Prop := ∀ on ∈ axes, 1 ≤ on.1 ∧ on.1 + 2 ≤ on.2

theorem hits_all : ∀ (axes : List (Nat × Nat)) (s : List Nat), WfAxes axes →
    hits s (product (axes.map (fun on => pieces on.1 on.2))) = if inGrid s axes then 1 else 0 := by
  intro axes
  induction axes with
  | nil =>
    intro s _
    cases s with
    | nil => rfl
    | cons x xs => rfl
  | cons a axes ih =>
    intro s hw
    obtain ⟨o, n⟩ := a
    have hon := hw (o, n) (by simp)
    cases s with
    | nil => rw [List.map_cons, hits_nil_product_cons]; simp [inGrid]
    | cons x xs =>
      rw [List.map_cons, hits_product_cons, pieces_cover o n x hon.1 hon.2, ih xs (fun on h => hw on (by simp [h]))]
      simp only [inGrid]
      by_cases h1 : x < n <;> by_cases h2 : inGrid xs axes = true <;> simp [h1, h2]

/-- the origin state -/
def originOf (axes : List (Nat × Nat)) : List Nat := axes.map (·.1)

theorem product_cons_cons (p : Nat × Nat) (ps : List (Nat × Nat)) (rest : List (List (Nat × Nat))) :
    product ((p :: ps) :: rest) = (product rest).map (fun b => p :: b) ++ product (ps :: rest) := by
  simp only [product, List.flatMap_cons]

theorem product_head : ∀ (axes : List (Nat × Nat)),
    ∃ t, product (axes.map (fun on => pieces on.1 on.2)) = point (originOf axes) :: t := by
  intro axes
  induction axes with
  | nil => exact ⟨[], rfl⟩
  | cons a axes ih =>
    obtain ⟨o, n⟩ := a
    obtain ⟨t, ht⟩ := ih
    refine ⟨t.map (fun b => (o, o) :: b) ++ product ([(0, o - 1), (o + 1, n - 1)] :: axes.map (fun on => pieces on.1 on.2)), ?_⟩
    rw [List.map_cons]
    show product (((o, o) :: [(0, o - 1), (o + 1, n - 1)]) :: _) = _
    rw [product_cons_cons, ht, List.map_cons]
    rfl

theorem allDeg_point' : ∀ s : List Nat, allDeg (point s) = true := by
  intro s
  induction s with
  | nil => rfl
  | cons x xs ih => rw [point, List.map_cons, allDeg_cons]; exact ⟨rfl, ih⟩

theorem corner_point : ∀ s : List Nat, corner (point s) = s := by
  intro s
  induction s with
  | nil => rfl
  | cons x xs ih => simp only [point, corner, List.map_cons, List.cons.injEq, true_and] at ih ⊢; exact ih

theorem inGrid_origin : ∀ axes : List (Nat × Nat), WfAxes axes → inGrid (originOf axes) axes = true := by
  intro axes
  induction axes with
  | nil => intro _; rfl
  | cons a axes ih =>
    intro hw
    obtain ⟨o, n⟩ := a
    have hon := hw (o, n) (by simp)
    simp only [originOf, List.map_cons, inGrid, Bool.and_eq_true, decide_eq_true_eq]
    exact ⟨by have := hon.2; simp only at this; omega, ih (fun on h => hw on (by simp [h]))⟩

/-- **partition**: every grid state other than the origin lies in exactly one bucket box; the origin and states outside
    the grid lie in none -/
theorem hits_buckets (axes : List (Nat × Nat)) (s : List Nat) (hw : WfAxes axes) :
    hits s (bucketBoxes axes) = if inGrid s axes = true ∧ s ≠ originOf axes then 1 else 0 := by
  obtain ⟨t, ht⟩ := product_head axes
  have hall := hits_all axes s hw
  rw [ht, hits_cons] at hall
  have ht' : bucketBoxes axes = t := by unfold bucketBoxes; rw [ht]; rfl
  rw [ht']
  have ho : (inBox s (point (originOf axes)) = true) ↔ s = originOf axes := by
    rw [allDeg_inBox _ _ (allDeg_point' _), corner_point]; exact eq_comm
  by_cases hs : s = originOf axes
  · have h1 : inBox s (point (originOf axes)) = true := ho.mpr hs
    have h2 : inGrid s axes = true := by rw [hs]; exact inGrid_origin axes hw
    rw [if_pos h1, if_pos h2] at hall
    rw [if_neg (by intro h; exact h.2 hs)]; omega
  · have h1 : ¬ inBox s (point (originOf axes)) = true := fun h => hs (ho.mp h)
    rw [if_neg h1] at hall
    by_cases hg : inGrid s axes = true
    · rw [if_pos hg] at hall; rw [if_pos ⟨hg, hs⟩]; omega
    · rw [if_neg hg] at hall; rw [if_neg (fun h => hg h.1)]; omega

end Rpylib.AdaptedNd
