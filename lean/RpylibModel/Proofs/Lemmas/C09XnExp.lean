/-
C09, real-analysis lemmas for `integral_xn_exp_minus_x` (tools/integral.py): the antiderivative
`H n α u = exp(-α u) · n!/α^(n+1) · Σ_{k ≤ n} (α u)^k / k!` of `-u^n exp(-α u)`.
-/
import RpylibModel.Model.Integrals
import Mathlib.Analysis.SpecialFunctions.ExpDeriv
import Mathlib.Analysis.Calculus.Deriv.Pow
import Mathlib.MeasureTheory.Integral.IntervalIntegral.FundThmCalculus
import Mathlib.Tactic.Linarith
import Mathlib.Tactic.Ring
import Mathlib.Tactic.FieldSimp

namespace Rpylib.Integrals
open Real

/-- `Σ_{k ≤ n} y^k / k!` over ℝ, by the recursion of the model's `expPartial` -/
noncomputable def SR : ℕ → ℝ → ℝ
  | 0, _ => 1
  | n + 1, y => SR n y + y ^ (n + 1) / (fact (n + 1) : ℝ)

theorem fact_pos (n : ℕ) : 0 < fact n := by
  induction n with
  | zero => simp [fact]
  | succ n ih => simp only [fact]; positivity

theorem fact_ne_zero_real (n : ℕ) : (fact n : ℝ) ≠ 0 := by
  exact_mod_cast (fact_pos n).ne'

theorem fact_succ_real (n : ℕ) : (fact (n + 1) : ℝ) = ((n : ℝ) + 1) * fact n := by
  simp [fact]

theorem fact_eq_factorial (n : ℕ) : fact n = n.factorial := by
  induction n with
  | zero => rfl
  | succ n ih => simp [fact, Nat.factorial_succ, ih]

/-- the model's partial exponential sum is the usual one -/
theorem SR_eq_sum (n : ℕ) (y : ℝ) : SR n y = ∑ k ∈ Finset.range (n + 1), y ^ k / (k.factorial : ℝ) := by
  induction n with
  | zero => simp [SR]
  | succ n ih => rw [SR, ih, Finset.sum_range_succ _ (n + 1), fact_eq_factorial]

/-- `d/dy Σ_{k ≤ n} y^k/k! = Σ_{k ≤ n} y^k/k! − y^n/n!` (the sum telescopes) -/
theorem hasDerivAt_SR (n : ℕ) (y : ℝ) : HasDerivAt (SR n) (SR n y - y ^ n / (fact n : ℝ)) y := by
  induction n with
  | zero =>
    have : SR 0 = fun _ => (1 : ℝ) := by funext z; simp [SR]
    rw [this]
    simpa [SR, fact] using hasDerivAt_const y (1 : ℝ)
  | succ n ih =>
    have h1 : HasDerivAt (fun z : ℝ => z ^ (n + 1) / (fact (n + 1) : ℝ))
        (((n : ℝ) + 1) * y ^ n / (fact (n + 1) : ℝ)) y := by
      simpa using (hasDerivAt_pow (n + 1) y).div_const (fact (n + 1) : ℝ)
    have h2 : HasDerivAt (fun z => SR n z + z ^ (n + 1) / (fact (n + 1) : ℝ))
        (SR n y - y ^ n / (fact n : ℝ) + ((n : ℝ) + 1) * y ^ n / (fact (n + 1) : ℝ)) y := ih.add h1
    have hfun : SR (n + 1) = fun z => SR n z + z ^ (n + 1) / (fact (n + 1) : ℝ) := by funext z; simp [SR]
    have hf := fact_ne_zero_real n
    have heq : SR n y - y ^ n / (fact n : ℝ) + ((n : ℝ) + 1) * y ^ n / (fact (n + 1) : ℝ)
        = SR (n + 1) y - y ^ (n + 1) / (fact (n + 1) : ℝ) := by
      have hn1 : (n : ℝ) + 1 ≠ 0 := by positivity
      simp only [SR]
      rw [fact_succ_real]
      field_simp
      ring
    exact h2.congr_deriv heq

/-- the antiderivative coded in `integral_xn_exp_minus_x.helper` for `u ≥ 0` (sign 1) -/
noncomputable def H (n : ℕ) (α u : ℝ) : ℝ := exp (-(α * u)) * ((fact n : ℝ) / α ^ (n + 1)) * SR n (α * u)

theorem hasDerivAt_H (n : ℕ) (α : ℝ) (hα : α ≠ 0) (u : ℝ) :
    HasDerivAt (H n α) (-(u ^ n * exp (-(α * u)))) u := by
  have hlin : HasDerivAt (fun v : ℝ => α * v) α u := by
    simpa using (hasDerivAt_id u).const_mul α
  have hexp : HasDerivAt (fun v : ℝ => exp (-(α * v))) (exp (-(α * u)) * (-α)) u := by
    simpa using (hlin.neg).exp
  have hS : HasDerivAt (fun v : ℝ => SR n (α * v)) ((SR n (α * u) - (α * u) ^ n / (fact n : ℝ)) * α) u :=
    (hasDerivAt_SR n (α * u)).comp u hlin
  have hprod : HasDerivAt (fun v => exp (-(α * v)) * ((fact n : ℝ) / α ^ (n + 1)) * SR n (α * v))
      (exp (-(α * u)) * (-α) * ((fact n : ℝ) / α ^ (n + 1)) * SR n (α * u)
        + exp (-(α * u)) * ((fact n : ℝ) / α ^ (n + 1)) * ((SR n (α * u) - (α * u) ^ n / (fact n : ℝ)) * α)) u :=
    (hexp.mul_const ((fact n : ℝ) / α ^ (n + 1))).mul hS
  have hfun : H n α = fun v => exp (-(α * v)) * ((fact n : ℝ) / α ^ (n + 1)) * SR n (α * v) := by
    funext v; rfl
  have hf := fact_ne_zero_real n
  have hpow : α ^ (n + 1) ≠ 0 := pow_ne_zero _ hα
  have heq : exp (-(α * u)) * (-α) * ((fact n : ℝ) / α ^ (n + 1)) * SR n (α * u)
        + exp (-(α * u)) * ((fact n : ℝ) / α ^ (n + 1)) * ((SR n (α * u) - (α * u) ^ n / (fact n : ℝ)) * α)
      = -(u ^ n * exp (-(α * u))) := by
    rw [mul_pow]
    field_simp
    ring
  exact hprod.congr_deriv heq

theorem continuous_xn_exp (n : ℕ) (α : ℝ) : Continuous fun x : ℝ => x ^ n * exp (-(α * x)) := by
  fun_prop

/-- FTC on any interval: `∫_a^b x^n e^{-αx} dx = H(a) − H(b)` -/
theorem integral_xn_exp (n : ℕ) (α : ℝ) (hα : α ≠ 0) (a b : ℝ) :
    ∫ x in a..b, x ^ n * exp (-(α * x)) = H n α a - H n α b := by
  have hderiv : ∀ x ∈ Set.uIcc a b, HasDerivAt (fun u => -H n α u) (x ^ n * exp (-(α * x))) x := by
    intro x _
    have h := (hasDerivAt_H n α hα x).neg
    rw [neg_neg] at h
    exact h
  have hint : IntervalIntegrable (fun x : ℝ => x ^ n * exp (-(α * x))) MeasureTheory.volume a b :=
    (continuous_xn_exp n α).intervalIntegrable a b
  rw [intervalIntegral.integral_eq_sub_of_hasDerivAt hderiv hint]
  ring

theorem continuous_xn_exp_abs (n : ℕ) (α : ℝ) : Continuous fun x : ℝ => x ^ n * exp (-(α * |x|)) := by
  fun_prop

/-- `[a,b] ⊂ [0,∞)`: `∫_a^b x^n e^{-α|x|} dx = H(a) − H(b)` -/
theorem integral_xn_exp_abs_pos (n : ℕ) (α : ℝ) (hα : α ≠ 0) (a b : ℝ) (ha : 0 ≤ a) (hab : a ≤ b) :
    ∫ x in a..b, x ^ n * exp (-(α * |x|)) = H n α a - H n α b := by
  rw [← integral_xn_exp n α hα a b]
  apply intervalIntegral.integral_congr
  intro x hx
  rw [Set.uIcc_of_le hab] at hx
  have hx0 : 0 ≤ x := le_trans ha hx.1
  simp only [abs_of_nonneg hx0]

theorem H_neg (n : ℕ) (α u : ℝ) : H n (-α) u = (-1) ^ (n + 1) * H n α (-u) := by
  unfold H
  have e1 : -(-α * u) = -(α * -u) := by ring
  have e2 : -α * u = α * -u := by ring
  rw [e1, e2, neg_pow α (n + 1)]
  rcases Nat.even_or_odd (n + 1) with h | h
  · rw [h.neg_one_pow]; ring
  · rw [h.neg_one_pow]; ring

/-- `[a,b] ⊂ (−∞,0]`: `∫_a^b x^n e^{-α|x|} dx = (−1)^(n+1) (H(|a|) − H(|b|))` — the sign the fixed code uses -/
theorem integral_xn_exp_abs_neg (n : ℕ) (α : ℝ) (hα : α ≠ 0) (a b : ℝ) (hb : b ≤ 0) (hab : a ≤ b) :
    ∫ x in a..b, x ^ n * exp (-(α * |x|)) = (-1) ^ (n + 1) * (H n α (-a) - H n α (-b)) := by
  have h1 : ∫ x in a..b, x ^ n * exp (-(α * |x|)) = ∫ x in a..b, x ^ n * exp (-(-α * x)) := by
    apply intervalIntegral.integral_congr
    intro x hx
    rw [Set.uIcc_of_le hab] at hx
    have hx0 : x ≤ 0 := le_trans hx.2 hb
    simp only [abs_of_nonpos hx0]
    congr 2; ring
  rw [h1, integral_xn_exp n (-α) (neg_ne_zero.mpr hα) a b, H_neg, H_neg]
  ring

/-- `a ≤ 0 ≤ b`: the split at zero -/
theorem integral_xn_exp_abs_split (n : ℕ) (α : ℝ) (a b : ℝ) :
    ∫ x in a..b, x ^ n * exp (-(α * |x|))
      = (∫ x in a..0, x ^ n * exp (-(α * |x|))) + ∫ x in (0:ℝ)..b, x ^ n * exp (-(α * |x|)) := by
  have hc := continuous_xn_exp_abs n α
  exact (intervalIntegral.integral_add_adjacent_intervals (hc.intervalIntegrable a 0) (hc.intervalIntegrable 0 b)).symm

end Rpylib.Integrals
