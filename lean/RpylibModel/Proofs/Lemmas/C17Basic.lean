/-
Helper lemmas for C17 (finite sums over index functions, first index with a property, last entry of a mapped row,
order on extended default times).  No property theorem lives here.
-/
import RpylibModel.Model.Payoff
import Mathlib.Tactic.Linarith
import Mathlib.Tactic.Ring
import Mathlib.Algebra.Order.Field.Rat

namespace Rpylib.Payoff

theorem listSum_append (a b : List Rat) : listSum (a ++ b) = listSum a + listSum b := by
  induction a with
  | nil => simp [listSum]
  | cons x t ih => simp only [listSum, List.cons_append, List.foldr_cons] at ih ⊢; rw [ih]; ring

theorem sumTo_zero (f : Nat → Rat) : sumTo 0 f = 0 := by simp [sumTo, listSum]

theorem sumTo_succ (n : Nat) (f : Nat → Rat) : sumTo (n + 1) f = sumTo n f + f n := by
  simp only [sumTo, List.range_succ, List.map_append, listSum_append]
  simp [listSum]

theorem sumTo_le (n : Nat) (f g : Nat → Rat) (h : ∀ i, i < n → f i ≤ g i) : sumTo n f ≤ sumTo n g := by
  induction n with
  | zero => simp [sumTo_zero]
  | succ n ih =>
    rw [sumTo_succ, sumTo_succ]
    have := ih (fun i hi => h i (by omega)); have := h n (by omega); linarith

theorem sumTo_mul (n : Nat) (c : Rat) (f : Nat → Rat) : sumTo n (fun i => c * f i) = c * sumTo n f := by
  induction n with
  | zero => simp [sumTo_zero]
  | succ n ih => rw [sumTo_succ, sumTo_succ, ih]; ring

theorem sumTo_congr (n : Nat) (f g : Nat → Rat) (h : ∀ i, i < n → f i = g i) : sumTo n f = sumTo n g := by
  induction n with
  | zero => simp [sumTo_zero]
  | succ n ih => rw [sumTo_succ, sumTo_succ, ih (fun i hi => h i (by omega)), h n (by omega)]

/-- the time increment the code multiplies `S_k` with (`t − last_t`, `last_t` starting at 0) -/
def dt (t : Nat → Rat) (k : Nat) : Rat := t k - (if k = 0 then 0 else t (k - 1))

/-- the increments telescope to the last time -/
theorem sumTo_dt (t : Nat → Rat) (n : Nat) : sumTo (n + 1) (dt t) = t n := by
  induction n with
  | zero => simp [sumTo_succ, sumTo_zero, dt]
  | succ n ih => rw [sumTo_succ, ih]; simp [dt]

theorem firstIdx_some (p : Nat → Bool) (n : Nat) : ∀ s k, firstIdx p s n = some k ↔
    s ≤ k ∧ k < s + n ∧ p k = true ∧ ∀ i, s ≤ i → i < k → p i = false := by
  induction n with
  | zero => intro s k; simp [firstIdx]; intro h1 h2; omega
  | succ n ih =>
    intro s k
    unfold firstIdx
    by_cases hs : p s = true
    · simp only [hs, if_true, Option.some.injEq]
      constructor
      · rintro rfl; exact ⟨le_refl _, by omega, hs, fun i h1 h2 => by omega⟩
      · rintro ⟨h1, _, _, h4⟩
        by_contra hne
        have := h4 s (le_refl _) (by omega)
        simp [hs] at this
    · simp only [hs, if_false, Bool.false_eq_true]
      rw [ih]
      have hs' : p s = false := by simpa using hs
      constructor
      · rintro ⟨h1, h2, h3, h4⟩
        refine ⟨by omega, by omega, h3, fun i hi1 hi2 => ?_⟩
        by_cases hi : i = s
        · rw [hi]; exact hs'
        · exact h4 i (by omega) hi2
      · rintro ⟨h1, h2, h3, h4⟩
        have : s ≠ k := by rintro rfl; rw [hs'] at h3; cases h3
        exact ⟨by omega, by omega, h3, fun i hi1 hi2 => h4 i (by omega) hi2⟩

theorem firstIdx_none (p : Nat → Bool) (n : Nat) :
    ∀ s, firstIdx p s n = none ↔ ∀ i, s ≤ i → i < s + n → p i = false := by
  induction n with
  | zero => intro s; simp [firstIdx]; intro i h1 h2; omega
  | succ n ih =>
    intro s
    unfold firstIdx
    by_cases hs : p s = true
    · simp only [hs, if_true]
      constructor
      · intro h; cases h
      · intro h; have := h s (le_refl _) (by omega); rw [hs] at this; cases this
    · have hs' : p s = false := by simpa using hs
      simp only [hs', Bool.false_eq_true, if_false]
      rw [ih]
      constructor
      · intro h i h1 h2
        by_cases hi : i = s
        · rw [hi]; exact hs'
        · exact h i (by omega) (by omega)
      · intro h i h1 h2; exact h i (by omega) (by omega)

theorem lastOf_map (f : Rat → Rat) (l : List Rat) (h : l ≠ []) : lastOf (l.map f) = f (lastOf l) := by
  induction l with
  | nil => exact absurd rfl h
  | cons x t ih =>
    cases t with
    | nil => rfl
    | cons y r => simpa [lastOf] using ih (by simp)

theorem extLe_trans (a b c : Option Rat) (h1 : extLe a b = true) (h2 : extLe b c = true) : extLe a c = true := by
  cases a <;> cases b <;> cases c <;> simp_all [extLe]
  exact le_trans h1 h2

theorem extLe_total (a b : Option Rat) : (extLe a b || extLe b a) = true := by
  cases a <;> cases b <;> simp [extLe]
  exact le_total _ _

end Rpylib.Payoff
