/-
C14 helper lemmas: `StatesManager.project_index_to_state_increment` under an ARBITRARY call history
(`smRunList adm bound maxLogged nxt xs`), with and without the `max_logged` reset.

Contents
  §1  one call (`smStep`): exact description of the answer, with and without reset
  §2  histories split (`smRunList_append`), `smRun` is the history `0, 1, …, n-1`
  §3  no reset in the history: returned indices admissible, below the bound, strictly increasing, never repeated;
      exhaustion is sticky; skipped indices never come back
  §4  never-skipping histories (`xs[k] ≤ nxt + k`) answer exactly like `0, 1, …, len-1`: exactly-once transfers
  §5  negation witness of the full exactly-once statement for non-decreasing histories (`sm_history_skip_counterexample`)
  §6  the reset: pointer ignored, an index can come back (`sm_reset_repeats_counterexample`); what stays true
      for every history (admissible, below the bound, not below the argument) and between two resets (increasing)
-/
import RpylibModel.Proofs.Lemmas.C14States

namespace Rpylib.Pairing

/-! ## §1 one call -/

/-- the skip pointer a call really uses: `0` when the argument equals `maxLogged` (reset), the stored one otherwise -/
def smPtr (maxLogged : Int) (nxt x : Nat) : Nat := if (x : Int) = maxLogged then 0 else nxt

theorem smPtr_noreset {maxLogged : Int} {x : Nat} (h : (x : Int) ≠ maxLogged) (nxt : Nat) :
    smPtr maxLogged nxt x = nxt := by
  simp [smPtr, h]

theorem smPtr_reset {maxLogged : Int} {x : Nat} (h : (x : Int) = maxLogged) (nxt : Nat) :
    smPtr maxLogged nxt x = 0 := by
  simp [smPtr, h]

/-- completeness of `scan`: the first admissible index of `[a, a + f)` is what `scan` returns -/
theorem scan_eq_some (adm : Nat → Bool) (f a j : Nat) (h1 : a ≤ j) (h2 : j < a + f) (h3 : adm j = true)
    (h4 : ∀ i, a ≤ i → i < j → adm i = false) : scan adm a f = some j := by
  cases hs : scan adm a f with
  | none =>
    have := scan_none adm f a hs j h1 h2
    rw [h3] at this; cases this
  | some j' =>
    obtain ⟨s1, s2, s3, s4⟩ := scan_some adm f a j' hs
    by_cases c : j' < j
    · have := h4 j' s1 c
      rw [s3] at this; cases this
    · by_cases c2 : j < j'
      · have := s4 j h1 c2
        rw [h3] at this; cases this
      · have : j' = j := by omega
        rw [this]

/-- a call answered `some j` (any pointer, reset or not): `j` is the FIRST admissible index of `[max x ptr, bound)`
and the new pointer is `j + 1` -/
theorem smStep_some (adm : Nat → Bool) (bound : Nat) (maxLogged : Int) (nxt x j : Nat)
    (h : (smStep adm bound maxLogged nxt x).2 = some j) :
    max x (smPtr maxLogged nxt x) ≤ j ∧ j < bound ∧ adm j = true ∧
    (∀ i, max x (smPtr maxLogged nxt x) ≤ i → i < j → adm i = false) ∧
    (smStep adm bound maxLogged nxt x).1 = j + 1 := by
  unfold smStep at h ⊢
  simp only [smPtr] at *
  cases hs : scan adm (max x (if (x : Int) = maxLogged then 0 else nxt))
      (bound - max x (if (x : Int) = maxLogged then 0 else nxt)) with
  | none => rw [hs] at h; cases h
  | some j' =>
    rw [hs] at h
    simp only [Option.some.injEq] at h
    subst h
    obtain ⟨s1, s2, s3, s4⟩ := scan_some adm _ _ _ hs
    exact ⟨s1, by omega, s3, s4, rfl⟩

/-- a call answered `none` (exhaustion): no admissible index in `[max x ptr, bound)`; the new pointer is beyond the bound -/
theorem smStep_none (adm : Nat → Bool) (bound : Nat) (maxLogged : Int) (nxt x : Nat)
    (h : (smStep adm bound maxLogged nxt x).2 = none) :
    (∀ i, max x (smPtr maxLogged nxt x) ≤ i → i < bound → adm i = false) ∧
    (smStep adm bound maxLogged nxt x).1 = max (max x (smPtr maxLogged nxt x)) bound + 1 := by
  unfold smStep at h ⊢
  simp only [smPtr] at *
  cases hs : scan adm (max x (if (x : Int) = maxLogged then 0 else nxt))
      (bound - max x (if (x : Int) = maxLogged then 0 else nxt)) with
  | some j' => rw [hs] at h; cases h
  | none =>
    have hn := scan_none adm _ _ hs
    exact ⟨fun i h1 h2 => hn i h1 (by omega), rfl⟩

/-- exact characterisation of the answer `some j` -/
theorem smStep_eq_some_iff (adm : Nat → Bool) (bound : Nat) (maxLogged : Int) (nxt x j : Nat) :
    (smStep adm bound maxLogged nxt x).2 = some j ↔
      (max x (smPtr maxLogged nxt x) ≤ j ∧ j < bound ∧ adm j = true ∧
        ∀ i, max x (smPtr maxLogged nxt x) ≤ i → i < j → adm i = false) := by
  constructor
  · intro h
    obtain ⟨a, b, c, d, _⟩ := smStep_some adm bound maxLogged nxt x j h
    exact ⟨a, b, c, d⟩
  · rintro ⟨a, b, c, d⟩
    have hs := scan_eq_some adm (bound - max x (smPtr maxLogged nxt x)) (max x (smPtr maxLogged nxt x)) j a
      (by omega) c d
    unfold smStep
    simp only [smPtr] at hs
    simp only [hs]

/-- exact characterisation of the answer `none` -/
theorem smStep_eq_none_iff (adm : Nat → Bool) (bound : Nat) (maxLogged : Int) (nxt x : Nat) :
    (smStep adm bound maxLogged nxt x).2 = none ↔
      ∀ i, max x (smPtr maxLogged nxt x) ≤ i → i < bound → adm i = false := by
  constructor
  · intro h; exact (smStep_none adm bound maxLogged nxt x h).1
  · intro h
    cases hs : (smStep adm bound maxLogged nxt x).2 with
    | none => rfl
    | some j =>
      obtain ⟨a, b, c, _, _⟩ := smStep_some adm bound maxLogged nxt x j hs
      have := h j a b
      rw [c] at this; cases this

/-- the pointer after a call is beyond the pointer the call used and beyond its argument -/
theorem smStep_ptr_lt (adm : Nat → Bool) (bound : Nat) (maxLogged : Int) (nxt x : Nat) :
    max x (smPtr maxLogged nxt x) < (smStep adm bound maxLogged nxt x).1 := by
  cases hs : (smStep adm bound maxLogged nxt x).2 with
  | none =>
    obtain ⟨_, e⟩ := smStep_none adm bound maxLogged nxt x hs
    rw [e]; omega
  | some j =>
    obtain ⟨a, _, _, _, e⟩ := smStep_some adm bound maxLogged nxt x j hs
    rw [e]; omega

/-- once the pointer is at or beyond the bound, every call without reset answers `none` -/
theorem smStep_none_of_bound_le (adm : Nat → Bool) (bound : Nat) (maxLogged : Int) (nxt x : Nat)
    (hx : (x : Int) ≠ maxLogged) (hb : bound ≤ nxt) : (smStep adm bound maxLogged nxt x).2 = none := by
  rw [smStep_eq_none_iff, smPtr_noreset hx]
  intro i h1 h2; omega

/-- a call whose argument does not exceed the pointer (no reset) does not depend on the argument -/
theorem smStep_le_ptr (adm : Nat → Bool) (bound : Nat) (maxLogged : Int) (nxt x y : Nat)
    (hx : (x : Int) ≠ maxLogged) (hy : (y : Int) ≠ maxLogged) (hxn : x ≤ nxt) (hyn : y ≤ nxt) :
    smStep adm bound maxLogged nxt x = smStep adm bound maxLogged nxt y := by
  unfold smStep
  have e1 : max x nxt = nxt := by omega
  have e2 : max y nxt = nxt := by omega
  simp only [hx, hy, if_false, e1, e2]

/-! ## §2 splitting a history -/

theorem smRunList_append (adm : Nat → Bool) (bound : Nat) (maxLogged : Int) :
    ∀ (xs ys : List Nat) (nxt : Nat),
      smRunList adm bound maxLogged nxt (xs ++ ys) =
        ((smRunList adm bound maxLogged (smRunList adm bound maxLogged nxt xs).1 ys).1,
         (smRunList adm bound maxLogged nxt xs).2 ++
           (smRunList adm bound maxLogged (smRunList adm bound maxLogged nxt xs).1 ys).2) := by
  intro xs
  induction xs with
  | nil => intro ys nxt; rfl
  | cons x xs ih =>
    intro ys nxt
    simp only [List.cons_append, smRunList, ih]

theorem smRunList_length (adm : Nat → Bool) (bound : Nat) (maxLogged : Int) :
    ∀ (xs : List Nat) (nxt : Nat), (smRunList adm bound maxLogged nxt xs).2.length = xs.length := by
  intro xs
  induction xs with
  | nil => intro nxt; rfl
  | cons x xs ih => intro nxt; simp only [smRunList, List.length_cons, ih]

/-- `smRun` IS the history `0, 1, …, n-1` from a fresh object -/
theorem smRun_eq_smRunList (adm : Nat → Bool) (bound : Nat) :
    ∀ n, smRun adm bound n = smRunList adm bound (-1) 0 (List.range n) := by
  intro n
  induction n with
  | zero => rfl
  | succ n ih =>
    rw [List.range_succ, smRunList_append, ← ih]
    rfl

/-! ## §3 histories without reset -/

/-- no call of the history triggers the reset -/
def NoReset (maxLogged : Int) (xs : List Nat) : Prop := ∀ x ∈ xs, (x : Int) ≠ maxLogged

/-- the default `max_logged = -1` never resets -/
theorem noReset_neg_one (xs : List Nat) : NoReset (-1) xs := by
  intro x _; omega

theorem noReset_cons {maxLogged : Int} {x : Nat} {xs : List Nat} (h : NoReset maxLogged (x :: xs)) :
    (x : Int) ≠ maxLogged ∧ NoReset maxLogged xs :=
  ⟨h x (by simp), fun y hy => h y (by simp [hy])⟩

/-- THE invariant of a history without reset: the pointer advances by at least one per call; every returned index is
admissible, below the bound, at least the start pointer and below the final pointer; the returned indices are strictly
increasing along the history. -/
theorem smRunList_noreset_inv (adm : Nat → Bool) (bound : Nat) (maxLogged : Int) :
    ∀ (xs : List Nat) (nxt : Nat), NoReset maxLogged xs →
      nxt + xs.length ≤ (smRunList adm bound maxLogged nxt xs).1 ∧
      (∀ j, some j ∈ (smRunList adm bound maxLogged nxt xs).2 →
        nxt ≤ j ∧ j < (smRunList adm bound maxLogged nxt xs).1 ∧ j < bound ∧ adm j = true) ∧
      ((smRunList adm bound maxLogged nxt xs).2.filterMap id).Pairwise (· < ·) := by
  intro xs
  induction xs with
  | nil =>
    intro nxt _
    exact ⟨by simp [smRunList], by intro j h; simp [smRunList] at h, by simp [smRunList]⟩
  | cons x xs ih =>
    intro nxt hnr
    obtain ⟨hx, hnr'⟩ := noReset_cons hnr
    have hp := smStep_ptr_lt adm bound maxLogged nxt x
    rw [smPtr_noreset hx] at hp
    obtain ⟨i1, i2, i3⟩ := ih (smStep adm bound maxLogged nxt x).1 hnr'
    simp only [smRunList]
    refine ⟨by simp only [List.length_cons]; omega, ?_, ?_⟩
    · intro j hj
      rcases List.mem_cons.1 hj with e | hm
      · obtain ⟨a, b, c, _, e'⟩ := smStep_some adm bound maxLogged nxt x j e.symm
        rw [smPtr_noreset hx] at a
        exact ⟨by omega, by omega, b, c⟩
      · obtain ⟨a, b, c, d⟩ := i2 j hm
        exact ⟨by omega, b, c, d⟩
    · cases hs : (smStep adm bound maxLogged nxt x).2 with
      | none => simpa [List.filterMap_cons] using i3
      | some j =>
        obtain ⟨_, _, _, _, e'⟩ := smStep_some adm bound maxLogged nxt x j hs
        simp only [List.filterMap_cons, id]
        refine List.pairwise_cons.2 ⟨?_, i3⟩
        intro j' hj'
        have : some j' ∈ (smRunList adm bound maxLogged (smStep adm bound maxLogged nxt x).1 xs).2 := by
          rcases List.mem_filterMap.1 hj' with ⟨o, ho, e⟩
          simp only [id] at e
          rw [← e]; exact ho
        have := (i2 j' this).1
        omega

/-- (1) without reset no index is returned twice, whatever the history -/
theorem smRunList_noreset_count_le_one (adm : Nat → Bool) (bound : Nat) (maxLogged : Int) :
    ∀ (xs : List Nat) (nxt : Nat), NoReset maxLogged xs →
      ∀ j, (smRunList adm bound maxLogged nxt xs).2.count (some j) ≤ 1 := by
  intro xs
  induction xs with
  | nil => intro nxt _ j; simp [smRunList]
  | cons x xs ih =>
    intro nxt hnr j
    obtain ⟨hx, hnr'⟩ := noReset_cons hnr
    simp only [smRunList, List.count_cons]
    have h1 := ih (smStep adm bound maxLogged nxt x).1 hnr' j
    by_cases e : (smStep adm bound maxLogged nxt x).2 = some j
    · obtain ⟨_, _, _, _, e'⟩ := smStep_some adm bound maxLogged nxt x j e
      have : (smRunList adm bound maxLogged (smStep adm bound maxLogged nxt x).1 xs).2.count (some j) = 0 := by
        apply List.count_eq_zero.2
        intro hm
        have := ((smRunList_noreset_inv adm bound maxLogged xs _ hnr').2.1 j hm).1
        omega
      simp [this, e]
    · have : ((smStep adm bound maxLogged nxt x).2 == some j) = false := by simpa using e
      simp [this, h1]

/-- (1) for the default `max_logged = -1`: every history, every start pointer -/
theorem smRunList_default_count_le_one (adm : Nat → Bool) (bound nxt : Nat) (xs : List Nat) (j : Nat) :
    (smRunList adm bound (-1) nxt xs).2.count (some j) ≤ 1 :=
  smRunList_noreset_count_le_one adm bound (-1) xs nxt (noReset_neg_one xs) j

/-- (1) for the default `max_logged = -1`: returned indices are admissible, in `[nxt, bound)`, below the final pointer,
strictly increasing; the pointer advances at least by one per call -/
theorem smRunList_default_inv (adm : Nat → Bool) (bound nxt : Nat) (xs : List Nat) :
    nxt + xs.length ≤ (smRunList adm bound (-1) nxt xs).1 ∧
    (∀ j, some j ∈ (smRunList adm bound (-1) nxt xs).2 →
      nxt ≤ j ∧ j < (smRunList adm bound (-1) nxt xs).1 ∧ j < bound ∧ adm j = true) ∧
    ((smRunList adm bound (-1) nxt xs).2.filterMap id).Pairwise (· < ·) :=
  smRunList_noreset_inv adm bound (-1) xs nxt (noReset_neg_one xs)

/-- (2) once the pointer is beyond (or at) the bound, a history without reset answers `none` forever -/
theorem smRunList_exhausted (adm : Nat → Bool) (bound : Nat) (maxLogged : Int) :
    ∀ (xs : List Nat) (nxt : Nat), NoReset maxLogged xs → bound ≤ nxt →
      (smRunList adm bound maxLogged nxt xs).2 = List.replicate xs.length none := by
  intro xs
  induction xs with
  | nil => intro nxt _ _; rfl
  | cons x xs ih =>
    intro nxt hnr hb
    obtain ⟨hx, hnr'⟩ := noReset_cons hnr
    have hp := smStep_ptr_lt adm bound maxLogged nxt x
    rw [smPtr_noreset hx] at hp
    simp only [smRunList, List.length_cons, List.replicate_succ]
    rw [smStep_none_of_bound_le adm bound maxLogged nxt x hx hb, ih _ hnr' (by omega)]

/-- (2) exhaustion is sticky without reset: if call number `i` answered `none`, every later call `k ≥ i` answers `none` -/
theorem smRunList_none_sticky (adm : Nat → Bool) (bound : Nat) (maxLogged : Int) :
    ∀ (xs : List Nat) (nxt : Nat), NoReset maxLogged xs → ∀ i k, i ≤ k → k < xs.length →
      (smRunList adm bound maxLogged nxt xs).2[i]? = some none →
      (smRunList adm bound maxLogged nxt xs).2[k]? = some none := by
  intro xs
  induction xs with
  | nil => intro nxt _ i k _ hk; simp at hk
  | cons x xs ih =>
    intro nxt hnr i k hik hk h
    obtain ⟨hx, hnr'⟩ := noReset_cons hnr
    cases i with
    | zero =>
      simp only [smRunList, List.getElem?_cons_zero, Option.some.injEq] at h
      obtain ⟨_, e⟩ := smStep_none adm bound maxLogged nxt x h
      have hall := smRunList_exhausted adm bound maxLogged xs (smStep adm bound maxLogged nxt x).1 hnr'
        (by rw [e]; omega)
      cases k with
      | zero => simp only [smRunList, List.getElem?_cons_zero, h]
      | succ k =>
        simp only [List.length_cons] at hk
        simp only [smRunList, List.getElem?_cons_succ, hall]
        rw [List.getElem?_replicate]
        simp; omega
    | succ i =>
      cases k with
      | zero => omega
      | succ k =>
        simp only [List.length_cons] at hk
        simp only [smRunList, List.getElem?_cons_succ] at h ⊢
        exact ih _ hnr' i k (by omega) (by omega) h

/-- a `none` anywhere in a history without reset means the final pointer is beyond the bound -/
theorem smRunList_none_mem_ptr (adm : Nat → Bool) (bound : Nat) (maxLogged : Int) :
    ∀ (xs : List Nat) (nxt : Nat), NoReset maxLogged xs → none ∈ (smRunList adm bound maxLogged nxt xs).2 →
      bound < (smRunList adm bound maxLogged nxt xs).1 := by
  intro xs
  induction xs with
  | nil => intro nxt _ h; simp [smRunList] at h
  | cons x xs ih =>
    intro nxt hnr h
    obtain ⟨hx, hnr'⟩ := noReset_cons hnr
    simp only [smRunList] at h ⊢
    rcases List.mem_cons.1 h with e | hm
    · obtain ⟨_, e'⟩ := smStep_none adm bound maxLogged nxt x e.symm
      have := (smRunList_noreset_inv adm bound maxLogged xs (smStep adm bound maxLogged nxt x).1 hnr').1
      omega
    · exact ih _ hnr' hm

/-- non-vacuity of (2): `max_logged = 7` is never hit by `1, 0, 5, 2`; call 1 answers `none` and so do calls 2 and 3 -/
example : NoReset 7 [1, 0, 5, 2] ∧
    (smRunList (fun i => i == 1) 3 7 0 [1, 0, 5, 2]).2 = [some 1, none, none, none] := by
  refine ⟨?_, by decide⟩
  intro x hx
  simp at hx
  rcases hx with rfl | rfl | rfl | rfl <;> decide

/-- (4) the indices in `[nxt, x)` that a call with argument `x` jumps over are NEVER returned, neither by that call nor by
any later call of a history without reset (admissible or not) -/
theorem smRunList_skipped_never_returned (adm : Nat → Bool) (bound : Nat) (maxLogged : Int) (nxt x : Nat) (xs : List Nat)
    (hnr : NoReset maxLogged (x :: xs)) (i : Nat) (hi : i < x) :
    some i ∉ (smRunList adm bound maxLogged nxt (x :: xs)).2 := by
  obtain ⟨hx, hnr'⟩ := noReset_cons hnr
  intro hm
  simp only [smRunList] at hm
  have hp := smStep_ptr_lt adm bound maxLogged nxt x
  rcases List.mem_cons.1 hm with e | hm'
  · obtain ⟨a, _⟩ := smStep_some adm bound maxLogged nxt x i e.symm
    omega
  · have := ((smRunList_noreset_inv adm bound maxLogged xs _ hnr').2.1 i hm').1
    omega

/-- the same inside a longer history: after any prefix `pre`, whatever is below the argument of the next call is lost -/
theorem smRunList_skipped_never_returned' (adm : Nat → Bool) (bound : Nat) (maxLogged : Int) (nxt x : Nat)
    (pre xs : List Nat) (hnr : NoReset maxLogged (x :: xs)) (i : Nat) (hi : i < x)
    (hpre : some i ∉ (smRunList adm bound maxLogged nxt pre).2) :
    some i ∉ (smRunList adm bound maxLogged nxt (pre ++ x :: xs)).2 := by
  rw [smRunList_append]
  intro hm
  rcases List.mem_append.1 hm with h | h
  · exact hpre h
  · exact smRunList_skipped_never_returned adm bound maxLogged _ x xs hnr i hi h

/-! ## §4 never-skipping histories -/

/-- two histories of the same length whose k-th arguments do not exceed `nxt + k` (hence never exceed the current pointer)
give the same pointer and the same answers -/
theorem smRunList_congr_le (adm : Nat → Bool) (bound : Nat) (maxLogged : Int) :
    ∀ (xs ys : List Nat) (nxt : Nat), NoReset maxLogged xs → NoReset maxLogged ys → xs.length = ys.length →
      (∀ (k x : Nat), xs[k]? = some x → x ≤ nxt + k) → (∀ (k y : Nat), ys[k]? = some y → y ≤ nxt + k) →
      smRunList adm bound maxLogged nxt xs = smRunList adm bound maxLogged nxt ys := by
  intro xs
  induction xs with
  | nil =>
    intro ys nxt _ _ hl _ _
    cases ys with
    | nil => rfl
    | cons y ys => simp at hl
  | cons x xs ih =>
    intro ys nxt hnx hny hl hxs hys
    cases ys with
    | nil => simp at hl
    | cons y ys =>
      obtain ⟨hx, hnx'⟩ := noReset_cons hnx
      obtain ⟨hy, hny'⟩ := noReset_cons hny
      have hx0 : x ≤ nxt := by simpa using hxs 0 x (by simp)
      have hy0 : y ≤ nxt := by simpa using hys 0 y (by simp)
      have hp := smStep_ptr_lt adm bound maxLogged nxt y
      rw [smPtr_noreset hy] at hp
      simp only [smRunList]
      rw [smStep_le_ptr adm bound maxLogged nxt x y hx hy hx0 hy0]
      rw [ih ys (smStep adm bound maxLogged nxt y).1 hnx' hny' (by simpa using hl)
        (fun k z hz => by have := hxs (k + 1) z (by simpa using hz); omega)
        (fun k z hz => by have := hys (k + 1) z (by simpa using hz); omega)]

/-- (3) a history from a fresh object whose k-th argument is at most `k` (it never asks beyond the number of calls made so
far, in particular never beyond the pointer) answers exactly like the calls `0, 1, …, len-1` -/
theorem smRunList_never_skipping (adm : Nat → Bool) (bound : Nat) (xs : List Nat)
    (h : ∀ (k x : Nat), xs[k]? = some x → x ≤ k) :
    smRunList adm bound (-1) 0 xs = smRun adm bound xs.length := by
  rw [smRun_eq_smRunList]
  apply smRunList_congr_le adm bound (-1) xs (List.range xs.length) 0 (noReset_neg_one _) (noReset_neg_one _) (by simp)
  · intro k x hx; have := h k x hx; omega
  · intro k y hy
    have hk : k < (List.range xs.length).length := by
      rcases Nat.lt_or_ge k (List.range xs.length).length with c | c
      · exact c
      · rw [List.getElem?_eq_none c] at hy; cases hy
    rw [List.getElem?_eq_getElem hk, List.getElem_range] at hy
    simp only [Option.some.injEq] at hy
    omega

/-- non-vacuity of (3): a history with repeats and a non-monotone step; odd indices inadmissible -/
example : smRunList (fun i => i % 2 == 0) 5 (-1) 0 [0, 0, 1, 3, 2] = smRun (fun i => i % 2 == 0) 5 5 :=
  smRunList_never_skipping _ _ _ (by
    intro k x h
    rcases k with _ | _ | _ | _ | _ | k <;> simp at h <;> omega)

/-- (3) exactly-once transfers: after a never-skipping history from a fresh object the returned indices are exactly the
admissible indices below the pointer and below the bound, each exactly once; the pointer is at least the number of calls -/
theorem smRunList_never_skipping_count (adm : Nat → Bool) (bound : Nat) (xs : List Nat)
    (h : ∀ (k x : Nat), xs[k]? = some x → x ≤ k) :
    xs.length ≤ (smRunList adm bound (-1) 0 xs).1 ∧
    ∀ j, (smRunList adm bound (-1) 0 xs).2.count (some j) =
      if j < (smRunList adm bound (-1) 0 xs).1 ∧ j < bound ∧ adm j = true then 1 else 0 := by
  rw [smRunList_never_skipping adm bound xs h]
  obtain ⟨h1, _, h3⟩ := smRun_inv adm bound xs.length
  exact ⟨h1, h3⟩

/-- (3) every admissible index below the bound and below the number of calls has been returned exactly once -/
theorem smRunList_never_skipping_exactly_once (adm : Nat → Bool) (bound : Nat) (xs : List Nat)
    (h : ∀ (k x : Nat), xs[k]? = some x → x ≤ k) (j : Nat) (hj : j < xs.length) (hb : j < bound)
    (ha : adm j = true) : (smRunList adm bound (-1) 0 xs).2.count (some j) = 1 := by
  obtain ⟨h1, h3⟩ := smRunList_never_skipping_count adm bound xs h
  rw [h3 j, if_pos ⟨by omega, hb, ha⟩]

/-- (3) when a never-skipping history has answered `none` (exhaustion), every admissible index below the bound has been
returned exactly once -/
theorem smRunList_never_skipping_complete (adm : Nat → Bool) (bound : Nat) (xs : List Nat)
    (h : ∀ (k x : Nat), xs[k]? = some x → x ≤ k) (hn : none ∈ (smRunList adm bound (-1) 0 xs).2)
    (j : Nat) (hb : j < bound) (ha : adm j = true) : (smRunList adm bound (-1) 0 xs).2.count (some j) = 1 := by
  obtain ⟨_, h3⟩ := smRunList_never_skipping_count adm bound xs h
  have := smRunList_none_mem_ptr adm bound (-1) xs 0 (noReset_neg_one xs) hn
  rw [h3 j, if_pos ⟨by omega, hb, ha⟩]

/-- after at least `bound - nxt` calls of ANY history without reset, the next call answers `none` whatever its argument -/
theorem smRunList_then_none (adm : Nat → Bool) (bound : Nat) (maxLogged : Int) (nxt : Nat) (xs : List Nat) (x : Nat)
    (hnr : NoReset maxLogged xs) (hx : (x : Int) ≠ maxLogged) (hl : bound ≤ nxt + xs.length) :
    (smStep adm bound maxLogged (smRunList adm bound maxLogged nxt xs).1 x).2 = none := by
  have := (smRunList_noreset_inv adm bound maxLogged xs nxt hnr).1
  exact smStep_none_of_bound_le adm bound maxLogged _ x hx (by omega)

/-- (3) corollary: a history that starts at 0 and never jumps (`x_{k+1} ≤ x_k + 1`; it may repeat or go back) is
never-skipping, hence answers like `0, 1, …, len-1` -/
theorem smRunList_no_jump (adm : Nat → Bool) (bound : Nat) (xs : List Nat)
    (h0 : ∀ x : Nat, xs[0]? = some x → x = 0)
    (hs : ∀ (k x y : Nat), xs[k]? = some x → xs[k + 1]? = some y → y ≤ x + 1) :
    smRunList adm bound (-1) 0 xs = smRun adm bound xs.length := by
  apply smRunList_never_skipping
  intro k
  induction k with
  | zero => intro x hx; have := h0 x hx; omega
  | succ k ih =>
    intro y hy
    have hk : k < xs.length := by
      rcases Nat.lt_or_ge (k + 1) xs.length with c | c
      · omega
      · rw [List.getElem?_eq_none c] at hy; cases hy
    have e : xs[k]? = some xs[k] := List.getElem?_eq_getElem hk
    have := ih xs[k] e
    have := hs k xs[k] y e hy
    omega

/-- non-vacuity of the no-jump corollary -/
example : smRunList (fun i => i % 2 == 0) 5 (-1) 0 [0, 1, 1, 2, 0] = smRun (fun i => i % 2 == 0) 5 5 :=
  smRunList_no_jump _ _ _
    (by intro x h; simpa using h.symm)
    (by
      intro k x y h1 h2
      rcases k with _ | _ | _ | _ | _ | k <;> simp at h1 h2 <;> omega)

/-! ## §5 the full statement for non-decreasing histories is FALSE

Full statement (NOT a theorem):
  "for every `adm`, `bound` and every non-decreasing history `xs` on a fresh object with the default `max_logged`, every
   admissible index `j < bound` is returned exactly once before the first exhaustion answer:
   `none ∈ (smRunList adm bound (-1) 0 xs).2 → adm j = true → j < bound → (smRunList adm bound (-1) 0 xs).2.count (some j) = 1`".
It holds for never-skipping histories (`smRunList_never_skipping_complete`), and `≤ 1` holds for every history
(`smRunList_default_count_le_one`), but a history that asks beyond the pointer loses the indices it jumps over
(`smRunList_skipped_never_returned`). -/

/-- negation witness: everything admissible, bound 3, non-decreasing history `1, 2, 3, 4`: the answers are
`1, 2, exhausted, exhausted` and index 0 is never returned although it is admissible and below the bound -/
theorem sm_history_skip_counterexample :
    (smRunList (fun _ => true) 3 (-1) 0 [1, 2, 3, 4]).2 = [some 1, some 2, none, none] ∧
    (smRunList (fun _ => true) 3 (-1) 0 [1, 2, 3, 4]).2.count (some 0) = 0 ∧
    none ∈ (smRunList (fun _ => true) 3 (-1) 0 [1, 2, 3, 4]).2 ∧
    ¬ (∀ (adm : Nat → Bool) (bound : Nat) (xs : List Nat) (j : Nat),
        xs.Pairwise (· ≤ ·) → none ∈ (smRunList adm bound (-1) 0 xs).2 → adm j = true → j < bound →
        (smRunList adm bound (-1) 0 xs).2.count (some j) = 1) := by
  have e : (smRunList (fun _ => true) 3 (-1) 0 [1, 2, 3, 4]).2 = [some 1, some 2, none, none] := by decide
  refine ⟨e, by rw [e]; decide, by rw [e]; decide, ?_⟩
  intro hall
  have := hall (fun _ => true) 3 [1, 2, 3, 4] 0 (by decide) (by rw [e]; decide) rfl (by omega)
  rw [e] at this
  revert this
  decide

/-! ## §6 the `max_logged` reset -/

/-- (5) a call whose argument equals `max_logged` ignores the stored pointer -/
theorem smStep_reset (adm : Nat → Bool) (bound : Nat) (maxLogged : Int) (nxt x : Nat) (h : (x : Int) = maxLogged) :
    smStep adm bound maxLogged nxt x =
      (match scan adm x (bound - x) with
       | some j => (j + 1, some j)
       | none => (max x bound + 1, none)) := by
  unfold smStep
  have e : max x 0 = x := by omega
  simp only [h, if_true, e]
  cases scan adm x (bound - x) <;> rfl

/-- (5) … i.e. it answers like the first call on a fresh object with the default `max_logged` -/
theorem smStep_reset_eq_fresh (adm : Nat → Bool) (bound : Nat) (maxLogged : Int) (nxt x : Nat)
    (h : (x : Int) = maxLogged) : smStep adm bound maxLogged nxt x = smStep adm bound (-1) 0 x := by
  rw [smStep_reset adm bound maxLogged nxt x h]
  unfold smStep
  have hne : ¬ ((x : Int) = -1) := by omega
  have e : max x 0 = x := by omega
  simp only [hne, if_false, e]
  cases scan adm x (bound - x) <;> rfl

/-- a call that does not reset answers as with the default `max_logged` -/
theorem smStep_noreset_eq_default (adm : Nat → Bool) (bound : Nat) (maxLogged : Int) (nxt x : Nat)
    (h : (x : Int) ≠ maxLogged) : smStep adm bound maxLogged nxt x = smStep adm bound (-1) nxt x := by
  unfold smStep
  have hne : ¬ ((x : Int) = -1) := by omega
  simp only [h, hne, if_false]

theorem smRunList_noreset_eq_default (adm : Nat → Bool) (bound : Nat) (maxLogged : Int) :
    ∀ (xs : List Nat) (nxt : Nat), NoReset maxLogged xs →
      smRunList adm bound maxLogged nxt xs = smRunList adm bound (-1) nxt xs := by
  intro xs
  induction xs with
  | nil => intro nxt _; rfl
  | cons x xs ih =>
    intro nxt hnr
    obtain ⟨hx, hnr'⟩ := noReset_cons hnr
    simp only [smRunList, smStep_noreset_eq_default adm bound maxLogged nxt x hx, ih _ hnr']

/-- (5) positive statement: a reset call followed by calls that do not reset behaves, whatever happened before, exactly
like the same calls on a FRESH object with the default `max_logged` -/
theorem smRunList_reset_head (adm : Nat → Bool) (bound : Nat) (maxLogged : Int) (nxt x : Nat) (xs : List Nat)
    (hx : (x : Int) = maxLogged) (hnr : NoReset maxLogged xs) :
    smRunList adm bound maxLogged nxt (x :: xs) = smRunList adm bound (-1) 0 (x :: xs) := by
  simp only [smRunList, smStep_reset_eq_fresh adm bound maxLogged nxt x hx,
    smRunList_noreset_eq_default adm bound maxLogged xs _ hnr]

/-- (5) inside a history: the answers of the segment "reset call `x`, then `seg` without reset" after any prefix `pre` are
those of a fresh object asked `x :: seg` -/
theorem smRunList_reset_segment (adm : Nat → Bool) (bound : Nat) (maxLogged : Int) (nxt x : Nat) (pre seg : List Nat)
    (hx : (x : Int) = maxLogged) (hnr : NoReset maxLogged seg) :
    (smRunList adm bound maxLogged nxt (pre ++ x :: seg)).2 =
      (smRunList adm bound maxLogged nxt pre).2 ++ (smRunList adm bound (-1) 0 (x :: seg)).2 := by
  rw [smRunList_append, smRunList_reset_head adm bound maxLogged _ x seg hx hnr]

/-- (5) between two resets the returned indices are strictly increasing, not below the reset argument, and none is
returned twice -/
theorem smRunList_reset_segment_increasing (adm : Nat → Bool) (bound : Nat) (maxLogged : Int) (nxt x : Nat)
    (seg : List Nat) (hx : (x : Int) = maxLogged) (hnr : NoReset maxLogged seg) :
    ((smRunList adm bound maxLogged nxt (x :: seg)).2.filterMap id).Pairwise (· < ·) ∧
    (∀ j, (smRunList adm bound maxLogged nxt (x :: seg)).2.count (some j) ≤ 1) ∧
    (∀ j, some j ∈ (smRunList adm bound maxLogged nxt (x :: seg)).2 → x ≤ j ∧ j < bound ∧ adm j = true) := by
  rw [smRunList_reset_head adm bound maxLogged nxt x seg hx hnr]
  refine ⟨(smRunList_default_inv adm bound 0 (x :: seg)).2.2,
    fun j => smRunList_default_count_le_one adm bound 0 (x :: seg) j, fun j hj => ?_⟩
  obtain ⟨_, _, b, c⟩ := (smRunList_default_inv adm bound 0 (x :: seg)).2.1 j hj
  refine ⟨?_, b, c⟩
  rcases Nat.lt_or_ge j x with c' | c'
  · exact absurd hj (smRunList_skipped_never_returned adm bound (-1) 0 x seg (noReset_neg_one _) j c')
  · exact c'

/-- non-vacuity: `max_logged = 2`, history `2, 0, 3` (reset first, then no reset) -/
example : ((2 : Nat) : Int) = 2 ∧ NoReset 2 [0, 3] := by
  refine ⟨rfl, ?_⟩
  intro x hx
  simp at hx
  rcases hx with rfl | rfl <;> decide

/-- what holds for EVERY history, resets included: call number `k` returns either exhaustion or an admissible index below
the bound that is not below its own argument -/
theorem smRunList_any_history (adm : Nat → Bool) (bound : Nat) (maxLogged : Int) :
    ∀ (xs : List Nat) (nxt k j : Nat), (smRunList adm bound maxLogged nxt xs).2[k]? = some (some j) →
      ∃ x, xs[k]? = some x ∧ x ≤ j ∧ j < bound ∧ adm j = true := by
  intro xs
  induction xs with
  | nil => intro nxt k j h; simp [smRunList] at h
  | cons x xs ih =>
    intro nxt k j h
    cases k with
    | zero =>
      simp only [smRunList, List.getElem?_cons_zero, Option.some.injEq] at h
      obtain ⟨a, b, c, _, _⟩ := smStep_some adm bound maxLogged nxt x j h
      exact ⟨x, by simp, by omega, b, c⟩
    | succ k =>
      simp only [smRunList, List.getElem?_cons_succ] at h
      obtain ⟨y, hy, r⟩ := ih _ k j h
      exact ⟨y, by simpa using hy, r⟩

theorem smRunList_any_history_mem (adm : Nat → Bool) (bound : Nat) (maxLogged : Int) (xs : List Nat) (nxt j : Nat)
    (h : some j ∈ (smRunList adm bound maxLogged nxt xs).2) : j < bound ∧ adm j = true := by
  obtain ⟨k, hk, e⟩ := List.getElem_of_mem h
  have := smRunList_any_history adm bound maxLogged xs nxt k j (by rw [List.getElem?_eq_getElem hk, e])
  obtain ⟨_, _, _, b, c⟩ := this
  exact ⟨b, c⟩

/-- (5) negation witness of "no index is returned twice" once the reset is used: everything admissible, bound 3,
`max_logged = 0`, history `0, 1, 0`: index 0 is returned twice (and the pointer goes back from 2 to 1) -/
theorem sm_reset_repeats_counterexample :
    smRunList (fun _ => true) 3 0 0 [0, 1, 0] = (1, [some 0, some 1, some 0]) ∧
    (smRunList (fun _ => true) 3 0 0 [0, 1, 0]).2.count (some 0) = 2 ∧
    (smRunList (fun _ => true) 3 0 0 [0, 1]).1 = 2 ∧
    ¬ (∀ (adm : Nat → Bool) (bound : Nat) (maxLogged : Int) (nxt : Nat) (xs : List Nat) (j : Nat),
        (smRunList adm bound maxLogged nxt xs).2.count (some j) ≤ 1) := by
  have e : smRunList (fun _ => true) 3 0 0 [0, 1, 0] = (1, [some 0, some 1, some 0]) := by decide
  refine ⟨e, by rw [e]; decide, by decide, ?_⟩
  intro hall
  have := hall (fun _ => true) 3 0 0 [0, 1, 0] 0
  rw [e] at this
  revert this
  decide

/-- the reset also revives an exhausted object: after exhaustion (`none`) a reset call returns an index again, so
exhaustion is NOT sticky once `max_logged` is used -/
theorem sm_reset_revives_counterexample :
    (smRunList (fun _ => true) 2 0 0 [0, 1, 2, 0]).2 = [some 0, some 1, none, some 0] := by decide

end Rpylib.Pairing
