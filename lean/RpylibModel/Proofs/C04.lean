/-
C04 — Drift compensation: the chain reproduces the mean of the process it replaces.   Property theorems only.
Model: RpylibModel/Model/Drift.lean (+ Model/Cells.lean `rate`, `cellLo`, `cellHi`, `intensity1d`, `chainMass`).
Helper lemmas: Proofs/Lemmas/C04Basic.lean.

Quantification: every axis, every cell-boundary function, every origin index and every interval mass for the algebraic
identities (`muH_uses_cells`, `chain_mean` hold for *all* inputs, no hypothesis); for the variance statements every axis
with `AxisOK`, every `mid` with `Between`/`MidIdem`, every mass with `IsMass` and every second-moment function squeezed
between the squared cell ends times the mass on one-sided intervals (`IsSecondMoment`) — the sandwich hypothesis, which
is discharged in Lemmas/C04Density.lean for *every* measure with a density (masses valued in ℝ; the chain theorems are
re-proved for masses valued in any ordered field in Lemmas/C04Field.lean, `V = ℚ` giving back the statements below) and
instantiated without any special-function hypothesis for the HEM closed forms as coded (Lemmas/C04Hem.lean, on top of
C09's lemmas).  Copula variance matrix: Lemmas/C04Matrix.lean.

`compute_mu_h` since /repo d8e9df9 takes the neighbours of a state from the axis it walks: the model's `muHStep` is run
with `ax0 = axis` for every margin (`muH_uses_cells` is about exactly that instance); `ax0 ≠ axis` is the behaviour
before the fix, kept in the model as the negation witness `muH_first_axis_neighbours_differ`.
-/
import RpylibModel.Proofs.Lemmas.C04Basic
import RpylibModel.Proofs.Lemmas.C04Hem
import RpylibModel.Proofs.Lemmas.C04Matrix

set_option linter.dupNamespace false
set_option linter.unusedVariables false
set_option linter.unusedSectionVars false

namespace Rpylib.Drift
open Rpylib.Grid Rpylib.Cells Finset

/-! ### `compute_mu_h` walks the cells of C01 -/

/-- the boundaries `compute_mu_h` hands to `integral` at every non-origin position are exactly `cellLo` / `cellHi` of the
    axis it walks (1-d chain and, since /repo d8e9df9, every margin of a copula chain: neighbours are read from the walked
    axis, `ax0 = axis`): its own running `mid_point_left` never drifts away from the cells the rates are computed on -/
theorem muH_uses_cells (mid : ℚ → ℚ → ℚ) (ax : List ℚ) (o : ℕ) (m : ℚ → ℚ → ℚ) :
    muHCells mid ax ax o m =
      (List.range ax.length).map (fun p => if p ≠ o then some (cellLo mid ax p, cellHi mid ax p) else none) := by
  unfold muHCells
  apply List.map_congr_left
  intro p hp
  have hp' : p < ax.length := List.mem_range.mp hp
  by_cases h : p = o
  · simp [h]
  · rw [if_pos h, if_pos h, (muHState_inv mid ax o m p (by omega)).1 hp', ← cellHi_def mid ax p]

/-- hence `mu_h = Σ_k x_k · q_k` with q the chain's own rate vector (`create_q_vector`) -/
theorem muH_eq_sum (mid : ℚ → ℚ → ℚ) (ax : List ℚ) (o : ℕ) (m : ℚ → ℚ → ℚ) :
    muH mid ax ax o m = ∑ k ∈ range ax.length, pt ax k * rate mid ax o m k := by
  unfold muH
  exact (muHState_inv mid ax o m ax.length (le_refl _)).2

/-- negation witness for the code *before* /repo d8e9df9 (neighbours read from `grid.axes[0]` while walking another axis):
    on the unequal axes of a two-threshold credit grid the intervals handed to `integrate` are not the cells of the walked
    axis -/
theorem muH_first_axis_neighbours_differ :
    muHCells amid [-4, -2, -1, 0, 1, 2, 4] [-4, -3, -1, 0, 1, 3, 4] 3 (fun _ _ => 0) ≠
      (List.range 7).map (fun p => if p ≠ 3 then some (cellLo amid [-4, -3, -1, 0, 1, 3, 4] p, cellHi amid [-4, -3, -1, 0, 1, 3, 4] p)
        else none) := by decide +kernel

/-! ### the mean -/

/-- **the simulated approximation (deterministic drift + rate-weighted grid states) has the mean per unit time of the
    truncated process in the tilde representation**: `model drift + a_tilde + ∫_{|x| > v} x ν_truncated(dx)`;
    the compensator `- mu_h` cancels the mean of the chain's jumps exactly, whatever the grid, the measure, the level -/
theorem chain_mean (c : Chain) : c.mean = c.modelDrift + c.aTilde + c.muTilde := by
  unfold Chain.mean Chain.processDrift processDrift Chain.jumpMean Chain.muH
  rw [sum_map_range, muH_eq_sum]; ring

/-- the same, spelled out on the quantities `initialisation` computes -/
theorem chain_mean_explicit (mid : ℚ → ℚ → ℚ) (ax : List ℚ) (o : ℕ) (m : ℚ → ℚ → ℚ) (modelDrift aTilde muT : ℚ) :
    processDrift modelDrift aTilde muT (muH mid ax ax o m) + ∑ k ∈ range ax.length, pt ax k * rate mid ax o m k =
      modelDrift + aTilde + muT := by
  unfold processDrift; rw [muH_eq_sum]; ring

/-- `mu_tilde` is the first moment of the truncated measure over `{|x| > v}`: when the truncation bounds lie outside
    `[-v, v]` the two clipped tails are `[l, -v]` and `[v, r]` -/
theorem muTilde_tails (l r : ℚ) (fv : Bool) (m1 : ℚ → ℚ → ℚ) (hl : l ≤ -vOf fv) (hr : vOf fv ≤ r) (hlr : l ≤ r)
    (hv : 0 ≤ vOf fv) :
    muTilde l r fv m1 = m1 l (-vOf fv) + m1 (vOf fv) r := by
  unfold muTilde truncLeftTail truncRightTail
  simp only
  rw [max_eq_left hl, min_eq_left (by linarith), min_eq_left hr, max_eq_left (by linarith)]

/-- … and when the whole grid lies inside `(-v, v)` (a small grid, infinite variation: v = 1) both tails are empty
    intervals at the truncation bounds -/
theorem muTilde_inside (l r : ℚ) (m1 : ℚ → ℚ → ℚ) (hl : -1 ≤ l) (hr : r ≤ 1) (hlr : l ≤ r) :
    muTilde l r false m1 = m1 l l + m1 r r := by
  unfold muTilde truncLeftTail truncRightTail vOf
  simp only [Bool.false_eq_true, if_false]
  rw [max_eq_right hl, min_eq_left hlr, min_eq_right hr, max_eq_left hlr]

/-- each margin of a copula chain: `compute_mu_h` is called per axis (walking that axis' own cells, `muH_uses_cells`) with
    the margin's own truncated measure, so the
    margin's drift compensates the jump mean *of the margin's cell masses*; it compensates the mean of the copula
    chain's k-th coordinate iff the column sums of the joint rates are those marginal cell masses -/
theorem chain_mean_margin (c : Chain) (col : ℕ → ℚ)
    (hcol : ∀ k, k < c.ax.length → col k = rate c.mid c.ax c.o (chainMass c.ax c.m) k) :
    c.processDrift + ∑ k ∈ range c.ax.length, pt c.ax k * col k = c.modelDrift + c.aTilde + c.muTilde := by
  rw [← chain_mean c]
  unfold Chain.mean Chain.jumpMean
  rw [sum_map_range]
  congr 1
  apply sum_congr rfl
  intro k hk; rw [hcol k (mem_range.mp hk)]

/-- … and in general the margin's mean is off by exactly the first moment of the column-sum defect -/
theorem chain_mean_margin_defect (c : Chain) (col : ℕ → ℚ) :
    c.processDrift + ∑ k ∈ range c.ax.length, pt c.ax k * col k =
      c.modelDrift + c.aTilde + c.muTilde +
        ∑ k ∈ range c.ax.length, pt c.ax k * (col k - rate c.mid c.ax c.o (chainMass c.ax c.m) k) := by
  rw [← chain_mean c]
  unfold Chain.mean Chain.jumpMean
  rw [sum_map_range, add_assoc, ← sum_add_distrib]
  congr 1
  apply sum_congr rfl
  intro k _; ring

/-! ### the equivalent diffusion coefficient -/

/-- **small jumps are replaced by a Brownian motion iff the jumps have infinite variation**: the squared equivalent
    diffusion coefficient exceeds σ² by the second moment of the (truncated) measure on the central interval in that
    case, and by nothing otherwise -/
theorem eqDiff (sigma l r h : ℚ) (fv : Bool) (m2 : ℚ → ℚ → ℚ) :
    (fv = false → eqDiffSq sigma l r h fv m2 = sigma ^ 2 + truncate l r m2 (centralIv h).1 (centralIv h).2) ∧
    (fv = true → eqDiffSq sigma l r h fv m2 = sigma ^ 2) ∧
    (truncate l r m2 (centralIv h).1 (centralIv h).2 ≠ 0 →
      (eqDiffSq sigma l r h fv m2 - sigma ^ 2 = truncate l r m2 (centralIv h).1 (centralIv h).2 ↔ fv = false)) := by
  unfold eqDiffSq volAdjSq
  refine ⟨fun h0 => by simp [h0], fun h1 => by simp [h1], fun hne => ?_⟩
  cases fv
  · simp
  · simp only [if_true, add_zero, sub_self]
    constructor
    · intro h0; exact absurd h0.symm hne
    · intro h0; exact absurd h0 (by simp)

/-- for `h ≤ 2` the central interval is `[-h/2, h/2]` -/
theorem centralIv_small (h : ℚ) (h0 : 0 ≤ h) (h2 : h ≤ 2) : centralIv h = (-h / 2, h / 2) := by
  unfold centralIv
  rw [max_eq_left (by linarith), min_eq_left (by linarith)]

/-! ### variance: the jumps of the chain against the second moment outside the central cell -/

section variance
variable (mid : ℚ → ℚ → ℚ) (hm : Between mid) (hi : MidIdem mid) (ax : List ℚ) (o : ℕ) (hax : AxisOK ax o)
  (m m2 : ℚ → ℚ → ℚ) (hM : IsMass m) (h2 : IsSecondMoment m m2)
include hm hi hax hM h2

/-- **variance gap**: the second moment of the chain's jumps differs from `∫ x² ν(dx)` outside the central cell by at most
    the per-cell oscillation of x² weighted by the cell masses -/
theorem variance_gap :
    |∑ k ∈ range ax.length, pt ax k ^ 2 * rate mid ax o m k - intensity1d mid ax o m2| ≤
      ∑ k ∈ range ax.length, oscSq mid ax k * rate mid ax o m k := by
  rw [← sum_rates_eq_intensity_1d mid hm hi ax o hax m2 h2.mass, ← sum_sub_distrib]
  refine le_trans (abs_sum_le_sum_abs _ _) (sum_le_sum ?_)
  intro k hk
  have hk' := mem_range.mp hk
  unfold rate oscSq
  by_cases hko : k = o
  · simp [hko]
  · rw [if_neg hko, if_neg hko]
    have s := state_in_cell mid hm hi ax hax.inc k hk'
    exact cell_second_moment m m2 hM h2 _ _ _ s.1 s.2.1 (cell_away mid hm hi ax o hax k hk' hko)

/-- the same about the chain as built (truncated measure, lists) -/
theorem variance_gap_chain (c : Chain) (hc : c.mid = mid ∧ c.ax = ax ∧ c.o = o ∧ c.m = m) :
    |c.jumpSecondMoment - intensity1d mid ax o m2| ≤ ∑ k ∈ range ax.length, oscSq mid ax k * rate mid ax o m k := by
  obtain ⟨e1, e2, e3, e4⟩ := hc
  unfold Chain.jumpSecondMoment
  rw [e1, e2, e3, e4, sum_map_range]
  have : ∀ k ∈ range ax.length, pt ax k ^ 2 * rate mid ax o (chainMass ax m) k = pt ax k ^ 2 * rate mid ax o m k := by
    intro k hk; rw [rate_chainMass mid hm hi ax o hax m k (mem_range.mp hk)]
  rw [sum_congr rfl this]
  exact variance_gap mid hm hi ax o hax m m2 hM h2

/-- **infinite variation**: with the second moment of the central cell added to σ², the variance per unit time of the
    approximation (`eqDiffSq + Σ x_k² q_k`) differs from the model's (`σ² + ∫ x² ν` over central cell + outside) by at
    most the weighted oscillation.  Hypotheses: the central interval of `vol_adjustment` is the origin's cell
    (neighbours of 0 are ∓h, C13) and `h ≤ 2`. -/
theorem variance_infinite_variation (c : Chain) (hc : c.mid = mid ∧ c.ax = ax ∧ c.o = o ∧ c.m = m ∧ c.m2 = m2)
    (hfv : c.finiteVariation = false) (h0 : 0 ≤ c.h) (hh : c.h ≤ 2)
    (hcell : hLeft mid ax o = -c.h / 2 ∧ hRight mid ax.length ax o = c.h / 2) :
    |(c.eqDiffSq + c.jumpSecondMoment) -
        (c.sigma ^ 2 + m2 (hLeft mid ax o) (hRight mid ax.length ax o) + intensity1d mid ax o m2)| ≤
      ∑ k ∈ range ax.length, oscSq mid ax k * rate mid ax o m k := by
  obtain ⟨e1, e2, e3, e4, e5⟩ := hc
  have g := variance_gap_chain mid hm hi ax o hax m m2 hM h2 c ⟨e1, e2, e3, e4⟩
  have hon : o < ax.length := by have := hax.hi; omega
  have ci := cell_inside_truncation mid hm hi ax o hax o hon
  rw [(origin_cell mid ax o hax.zero).1, (origin_cell mid ax o hax.zero).2] at ci
  have hE : c.eqDiffSq = c.sigma ^ 2 + m2 (hLeft mid ax o) (hRight mid ax.length ax o) := by
    unfold Chain.eqDiffSq
    rw [(eqDiff c.sigma c.lo c.hi c.h c.finiteVariation c.m2).1 hfv, centralIv_small c.h h0 hh, e5]
    unfold Chain.lo Chain.hi
    rw [e2, ← hcell.1, ← hcell.2, truncate_inside _ _ m2 _ _ (by rw [hcell.1, hcell.2]; linarith) ci.1 ci.2]
  rw [hE]
  have : c.sigma ^ 2 + m2 (hLeft mid ax o) (hRight mid ax.length ax o) + c.jumpSecondMoment -
      (c.sigma ^ 2 + m2 (hLeft mid ax o) (hRight mid ax.length ax o) + intensity1d mid ax o m2) =
      c.jumpSecondMoment - intensity1d mid ax o m2 := by ring
  rw [this]; exact g

/-- **finite variation**: nothing is added, and the approximation misses the second moment of the central cell on top
    of the weighted oscillation -/
theorem variance_finite_variation (c : Chain) (hc : c.mid = mid ∧ c.ax = ax ∧ c.o = o ∧ c.m = m ∧ c.m2 = m2)
    (hfv : c.finiteVariation = true) (central : ℚ) (hcen : 0 ≤ central) :
    c.eqDiffSq = c.sigma ^ 2 ∧
    |(c.eqDiffSq + c.jumpSecondMoment) - (c.sigma ^ 2 + central + intensity1d mid ax o m2)| ≤
      central + ∑ k ∈ range ax.length, oscSq mid ax k * rate mid ax o m k := by
  obtain ⟨e1, e2, e3, e4, e5⟩ := hc
  have g := variance_gap_chain mid hm hi ax o hax m m2 hM h2 c ⟨e1, e2, e3, e4⟩
  have hE : c.eqDiffSq = c.sigma ^ 2 := by
    unfold Chain.eqDiffSq; exact (eqDiff c.sigma c.lo c.hi c.h c.finiteVariation c.m2).2.1 hfv
  refine ⟨hE, ?_⟩
  rw [hE]
  have : c.sigma ^ 2 + c.jumpSecondMoment - (c.sigma ^ 2 + central + intensity1d mid ax o m2) =
      (c.jumpSecondMoment - intensity1d mid ax o m2) - central := by ring
  rw [this]
  have a1 := abs_sub (c.jumpSecondMoment - intensity1d mid ax o m2) central
  rw [abs_of_nonneg hcen] at a1
  linarith

end variance

/-! ### the mean of the jumps against the first moment (why the compensator is needed at all) -/

/-- the jump mean of the chain differs from `∫ x ν(dx)` outside the central cell by at most the cell widths weighted by
    the cell masses: the bias `initialisation` removes by using `mu_h` instead of the model's own first moment -/
theorem mean_gap (mid : ℚ → ℚ → ℚ) (hm : Between mid) (hi : MidIdem mid) (ax : List ℚ) (o : ℕ) (hax : AxisOK ax o)
    (m m1 : ℚ → ℚ → ℚ) (hM : IsMass m) (h1 : IsFirstMoment m m1) :
    |∑ k ∈ range ax.length, (pt ax k * rate mid ax o m k - rate mid ax o m1 k)| ≤
      ∑ k ∈ range ax.length, (cellHi mid ax k - cellLo mid ax k) * rate mid ax o m k := by
  refine le_trans (abs_sum_le_sum_abs _ _) (sum_le_sum ?_)
  intro k hk
  have hk' := mem_range.mp hk
  unfold rate
  by_cases hko : k = o
  · simp [hko]
  · rw [if_neg hko, if_neg hko]
    have s := state_in_cell mid hm hi ax hax.inc k hk'
    exact cell_first_moment m m1 hM h1 _ _ _ s.1 s.2.1 (cell_away mid hm hi ax o hax k hk' hko)

/-! ### the sandwich hypotheses are theorems for measures with a density -/

/-- `variance_gap` is the `V = ℚ` instance of the ordered-field statement `variance_gap_V` (Lemmas/C04Field.lean), whose
    `V = ℝ` instance with `m = ∫ f`, `m2 = ∫ x² f` needs no hypothesis on the masses (`variance_gap_real`) -/
theorem variance_gap_from_field (mid : ℚ → ℚ → ℚ) (hm : Between mid) (hi : MidIdem mid) (ax : List ℚ) (o : ℕ)
    (hax : AxisOK ax o) (m m2 : ℚ → ℚ → ℚ) (hM : IsMass m) (h2 : IsSecondMoment m m2) :
    |∑ k ∈ range ax.length, pt ax k ^ 2 * rate mid ax o m k - intensity1d mid ax o m2| ≤
      ∑ k ∈ range ax.length, oscSq mid ax k * rate mid ax o m k := by
  have := variance_gap_V (V := ℚ) mid hm hi ax o hax m m2 ((isMassV_rat m).mpr hM) ((isSecondMomentV_rat m m2).mpr h2)
  simpa only [rateV_rat, intensity1dV_rat, Rat.cast_id] using this

/-- **every measure with a density satisfies the hypotheses of `variance_gap` / `mean_gap`** (over ℝ): the interval
    masses are a mass, `∫ x f` is a first moment, `∫ x² f` a second moment in the sense of the sandwich laws -/
theorem density_satisfies_hypotheses (f : ℝ → ℝ) (hf : IsLevyDensity f) :
    IsMassV (densMoment 0 f) ∧ IsFirstMomentV (densMoment 0 f) (densMoment 1 f) ∧
      IsSecondMomentV (densMoment 0 f) (densMoment 2 f) :=
  ⟨densMoment_isMassV hf, densMoment_isFirstMomentV hf, densMoment_isSecondMomentV hf⟩

/-- **the HEM closed forms as coded satisfy them, no special function involved** (λ ≥ 0, 0 ≤ p ≤ 1, η₁, η₂ > 0) -/
theorem hem_satisfies_hypotheses (lam p eta1 eta2 : ℚ) (hl : 0 ≤ lam) (hp0 : 0 ≤ p) (hp1 : p ≤ 1) (h1 : 0 < eta1)
    (h2 : 0 < eta2) :
    IsMassV (hemVal 0 lam p eta1 eta2) ∧ IsFirstMomentV (hemVal 0 lam p eta1 eta2) (hemVal 1 lam p eta1 eta2) ∧
      IsSecondMomentV (hemVal 0 lam p eta1 eta2) (hemVal 2 lam p eta1 eta2) :=
  ⟨hem_isMassV lam p eta1 eta2 hl hp0 hp1 h1 h2, hem_isFirstMomentV lam p eta1 eta2 hl hp0 hp1 h1 h2,
   hem_isSecondMomentV lam p eta1 eta2 hl hp0 hp1 h1 h2⟩

/-! ### copula chain: the variance matrix squares a covariance (negation witness) -/

/-- `np.dot(adj, adj.T) + diag(σ²)` is not `adj + diag(σ²)`: one coordinate, small-jump variance 1/4, σ = 0 gives 1/16 -/
theorem variance_matrix_counterexample :
    varianceMatrixCoded [[1 / 4]] [0] = [[1 / 16]] ∧ varianceMatrixSpec [[1 / 4]] [0] = [[1 / 4]] ∧
    varianceMatrixCoded [[1 / 4, 0], [0, 1 / 9]] [1 / 2, 0] = [[5 / 16, 0], [0, 1 / 81]] ∧
    varianceMatrixSpec [[1 / 4, 0], [0, 1 / 9]] [1 / 2, 0] = [[1 / 2, 0], [0, 1 / 9]] := by
  decide +kernel

/-- in one dimension the coded combination is right only for a small-jump variance of 0 or 1 -/
theorem variance_matrix_1x1 (c s : ℚ) :
    varianceMatrixCoded [[c]] [s] = varianceMatrixSpec [[c]] [s] ↔ c = 0 ∨ c = 1 := by
  have e1 : varianceMatrixCoded [[c]] [s] = [[c * c + 0 + s ^ 2]] := by
    simp [varianceMatrixCoded, matAdd, matMul, transpose, diag]
  have e2 : varianceMatrixSpec [[c]] [s] = [[c + s ^ 2]] := by
    simp [varianceMatrixSpec, matAdd, diag]
  rw [e1, e2]
  simp only [List.cons.injEq, and_true]
  constructor
  · intro h
    have : c * (c - 1) = 0 := by linarith
    rcases mul_eq_zero.mp this with h0 | h0
    · left; exact h0
    · right; linarith
  · rintro (h | h) <;> rw [h] <;> ring

/-! ### copula chain: what *is* true of the variance matrix as built -/

/-- **the matrix `MCLevyCopulaSimulation` hands to `sqrtm`**, built from the raw results of `vol_adjustment_ij` (any values,
    any dimension): the assembled `adj_matrix` is symmetric with `adj[i,j] =` the result for the pair `(min, max)`; the
    variance matrix `adj·adjᵀ + diag σ²` is symmetric and positive semi-definite (so `sqrtm` is a real symmetric root),
    its diagonal is `Σ_k adj_ik² + σ_i² ≥ σ_i²`; for finite variation it is `diag σ²` (no small-jump term at all) -/
theorem variance_matrix_as_built (d : ℕ) (fv : Bool) (outs sig : List ℚ) (hs : sig.length = d) :
    SymmF d (entry (assembleAdj d fv outs)) ∧
    (∀ i j, i ≤ j → j < d → entry (assembleAdj d false outs) i j = outs.getD (triIndex d i j) 0) ∧
    SymmF d (entry (varianceMatrixOfOutputs d fv outs sig)) ∧
    PsdF d (entry (varianceMatrixOfOutputs d fv outs sig)) ∧
    (∀ i, i < d → entry (varianceMatrixOfOutputs d fv outs sig) i i =
        ∑ k ∈ range d, entry (assembleAdj d fv outs) i k ^ 2 + sig.getD i 0 ^ 2 ∧
      sig.getD i 0 ^ 2 ≤ entry (varianceMatrixOfOutputs d fv outs sig) i i) ∧
    (fv = true → ∀ i j, i < d → j < d →
      entry (varianceMatrixOfOutputs d fv outs sig) i j = if i = j then sig.getD i 0 ^ 2 else 0) := by
  have hsq := square_assembleAdj d fv outs
  have hE : ∀ i j, i < d → j < d → entry (varianceMatrixOfOutputs d fv outs sig) i j =
      codedF d (entry (assembleAdj d fv outs)) (fun i => sig.getD i 0) i j :=
    fun i j hi hj => entry_coded hsq sig hs i j hi hj
  refine ⟨assembleAdj_symm d fv outs, fun i j hij hj => assembleAdj_entry d outs i j hij hj, ?_, ?_, ?_, ?_⟩
  · intro i j hi hj
    rw [hE i j hi hj, hE j i hj hi]; exact codedF_symm d _ _ i j hi hj
  · intro x
    rw [qf_congr d _ _ hE x]; exact codedF_psd d _ _ x
  · intro i hi
    rw [hE i i hi hi]
    obtain ⟨e, _⟩ := codedF_diag d (entry (assembleAdj d fv outs)) (fun i => sig.getD i 0) i hi
    refine ⟨e, ?_⟩
    rw [e]
    have : 0 ≤ ∑ k ∈ range d, entry (assembleAdj d fv outs) i k ^ 2 := sum_nonneg (fun k _ => sq_nonneg _)
    linarith
  · intro hfv i j hi hj
    rw [hE i j hi hj, hfv]
    have hz : ∀ a b, a < d → b < d → entry (assembleAdj d true outs) a b = 0 := by
      intro a b ha hb
      unfold assembleAdj zeroMat; simp only [if_true]
      exact entry_map_range d _ a b ha hb
    unfold codedF mulT
    rw [sum_eq_zero (fun k hk => by rw [hz i k hi (mem_range.mp hk)]; ring)]
    simp

/-- **the specification** `adj + diag σ²` on the assembled matrix: symmetric; positive semi-definite *under the hypothesis*
    that the small-jump covariance is; equal to the coded matrix iff `adj·adjᵀ = adj` -/
theorem variance_matrix_spec_props (d : ℕ) (fv : Bool) (outs sig : List ℚ) (hs : sig.length = d) :
    SymmF d (entry (varianceMatrixSpec (assembleAdj d fv outs) sig)) ∧
    (PsdF d (entry (assembleAdj d fv outs)) → PsdF d (entry (varianceMatrixSpec (assembleAdj d fv outs) sig))) ∧
    ((∀ i j, i < d → j < d → entry (varianceMatrixOfOutputs d fv outs sig) i j =
        entry (varianceMatrixSpec (assembleAdj d fv outs) sig) i j) ↔
      (∀ i j, i < d → j < d → mulT d (entry (assembleAdj d fv outs)) i j = entry (assembleAdj d fv outs) i j)) := by
  have hsq := square_assembleAdj d fv outs
  have hS : ∀ i j, i < d → j < d → entry (varianceMatrixSpec (assembleAdj d fv outs) sig) i j =
      specF (entry (assembleAdj d fv outs)) (fun i => sig.getD i 0) i j :=
    fun i j hi hj => entry_spec hsq sig hs i j hi hj
  have hE : ∀ i j, i < d → j < d → entry (varianceMatrixOfOutputs d fv outs sig) i j =
      codedF d (entry (assembleAdj d fv outs)) (fun i => sig.getD i 0) i j :=
    fun i j hi hj => entry_coded hsq sig hs i j hi hj
  refine ⟨?_, ?_, ?_⟩
  · intro i j hi hj
    rw [hS i j hi hj, hS j i hj hi]; exact specF_symm d _ _ (assembleAdj_symm d fv outs) i j hi hj
  · intro hpsd x
    rw [qf_congr d _ _ hS x]; exact specF_psd d _ _ hpsd x
  · rw [← coded_eq_spec_iff d (entry (assembleAdj d fv outs)) (fun i => sig.getD i 0)]
    constructor
    · intro h i j hi hj; rw [← hE i j hi hj, ← hS i j hi hj]; exact h i j hi hj
    · intro h i j hi hj; rw [hE i j hi hj, hS i j hi hj]; exact h i j hi hj

/-- concrete run, d = 3, results `(0,0) (0,1) (0,2) (1,1) (1,2) (2,2)` = 1/4, 1/8, 0, 1/2, -1/8, 1/16 -/
example : assembleAdj 3 false [1 / 4, 1 / 8, 0, 1 / 2, -1 / 8, 1 / 16] =
      [[1 / 4, 1 / 8, 0], [1 / 8, 1 / 2, -1 / 8], [0, -1 / 8, 1 / 16]] ∧
    varianceMatrixOfOutputs 3 false [1 / 4, 1 / 8, 0, 1 / 2, -1 / 8, 1 / 16] [1 / 2, 0, 1] =
      [[21 / 64, 3 / 32, -1 / 64], [3 / 32, 9 / 32, -9 / 128], [-1 / 64, -9 / 128, 261 / 256]] ∧
    varianceMatrixOfOutputs 3 true [1 / 4, 1 / 8, 0, 1 / 2, -1 / 8, 1 / 16] [1 / 2, 0, 1] =
      [[1 / 4, 0, 0], [0, 0, 0], [0, 0, 1]] := by decide +kernel

/-! ### non-vacuity -/

/-- a Lebesgue-like measure with density 1: mass `b - a`, first moment `(b² - a²)/2`, second moment `(b³ - a³)/3` -/
example : IsSecondMoment (fun a b => b - a) (fun a b => (b ^ 3 - a ^ 3) / 3) := by
  refine ⟨⟨fun a b c _ _ _ => by ring, fun a b hab haw => ?_⟩, fun a b ha hab => ?_, fun a b hab hb => ?_⟩
  · have : b ^ 3 - a ^ 3 = (b - a) * (a ^ 2 + a * b + b ^ 2) := by ring
    rw [this]; apply div_nonneg _ (by norm_num)
    apply mul_nonneg (by linarith); nlinarith [sq_nonneg (a + b), sq_nonneg a, sq_nonneg b]
  · constructor <;> nlinarith [mul_pos ha ha, sq_nonneg (b - a)]
  · constructor <;> nlinarith [mul_pos_of_neg_of_neg hb hb, sq_nonneg (b - a)]

example : muH amid [-2, -1, 0, 1, 3] [-2, -1, 0, 1, 3] 2 (fun a b => b - a) = 5 / 2 ∧
    muHCells amid [-2, -1, 0, 1, 3] [-2, -1, 0, 1, 3] 2 (fun a b => b - a) =
      [some (-2, -3 / 2), some (-3 / 2, -1 / 2), none, some (1 / 2, 2), some (2, 3)] := by decide +kernel

example : muTilde (-2) 3 true (fun a b => (b ^ 2 - a ^ 2) / 2) = 5 / 2 ∧
    muTilde (-2) 3 false (fun a b => (b ^ 2 - a ^ 2) / 2) = 5 / 2 ∧
    muTilde (-1 / 2) (1 / 2) false (fun a b => (b ^ 2 - a ^ 2) / 2) = 0 := by decide +kernel

example : eqDiffSq (1 / 2) (-2) 3 1 false (fun a b => (b ^ 3 - a ^ 3) / 3) = 1 / 4 + 1 / 12 ∧
    eqDiffSq (1 / 2) (-2) 3 1 true (fun a b => (b ^ 3 - a ^ 3) / 3) = 1 / 4 := by decide +kernel

end Rpylib.Drift
