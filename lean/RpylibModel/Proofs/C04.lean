/-
C04 — Drift compensation: the chain reproduces the mean of the process it replaces.   Property theorems only.
Model: RpylibModel/Model/Drift.lean (+ Model/Cells.lean `rate`, `cellLo`, `cellHi`, `intensity1d`, `chainMass`).
Helper lemmas: Proofs/Lemmas/C04Basic.lean.

Quantification: every axis, every cell-boundary function, every origin index and every interval mass for the algebraic
identities (`muH_uses_cells`, `chain_mean` hold for *all* inputs, no hypothesis); for the variance statements every axis
with `AxisOK`, every `mid` with `Between`/`MidIdem`, every mass with `IsMass` and every second-moment function squeezed
between the squared cell ends times the mass on one-sided intervals (`IsSecondMoment`) — the sandwich hypothesis, which
is what C09's closed forms have to deliver for the concrete families.
-/
import RpylibModel.Proofs.Lemmas.C04Basic

set_option linter.dupNamespace false
set_option linter.unusedVariables false
set_option linter.unusedSectionVars false

namespace Rpylib.Drift
open Rpylib.Grid Rpylib.Cells Finset

/-! ### `compute_mu_h` walks the cells of C01 -/

/-- the boundaries `compute_mu_h` hands to `integral` at every non-origin position are exactly `cellLo` / `cellHi`:
    its own running `mid_point_left` never drifts away from the cells the rates are computed on -/
theorem muH_uses_cells (mid : ℚ → ℚ → ℚ) (ax : List ℚ) (o : ℕ) (m : ℚ → ℚ → ℚ) :
    muHCells mid ax ax o m =
      (List.range ax.length).map (fun p => if p ≠ o then some (cellLo mid ax p, cellHi mid ax p) else none) := by
  unfold muHCells
  apply List.map_congr_left
  intro p hp
  have hp' : p < ax.length := List.mem_range.mp hp
  by_cases h : p = o
  · simp [h]
  · rw [if_pos h, if_pos h, (muHState_inv mid ax o m p (by omega)).1 hp', ← cellHi_def mid ax p]

/-- hence `mu_h = Σ_k x_k · q_k` with q the chain's own rate vector (`create_q_vector`) -/
theorem muH_eq_sum (mid : ℚ → ℚ → ℚ) (ax : List ℚ) (o : ℕ) (m : ℚ → ℚ → ℚ) :
    muH mid ax ax o m = ∑ k ∈ range ax.length, pt ax k * rate mid ax o m k := by
  unfold muH
  exact (muHState_inv mid ax o m ax.length (le_refl _)).2

/-! ### the mean -/

/-- **the simulated approximation (deterministic drift + rate-weighted grid states) has the mean per unit time of the
    truncated process in the tilde representation**: `model drift + a_tilde + ∫_{|x| > v} x ν_truncated(dx)`;
    the compensator `- mu_h` cancels the mean of the chain's jumps exactly, whatever the grid, the measure, the level -/
theorem chain_mean (c : Chain) : c.mean = c.modelDrift + c.aTilde + c.muTilde := by
  unfold Chain.mean Chain.processDrift processDrift Chain.jumpMean Chain.muH
  rw [sum_map_range, muH_eq_sum]; ring

/-- the same, spelled out on the quantities `initialisation` computes -/
theorem chain_mean_explicit (mid : ℚ → ℚ → ℚ) (ax : List ℚ) (o : ℕ) (m : ℚ → ℚ → ℚ) (modelDrift aTilde muT : ℚ) :
    processDrift modelDrift aTilde muT (muH mid ax ax o m) + ∑ k ∈ range ax.length, pt ax k * rate mid ax o m k =
      modelDrift + aTilde + muT := by
  unfold processDrift; rw [muH_eq_sum]; ring

/-- `mu_tilde` is the first moment of the truncated measure over `{|x| > v}`: when the truncation bounds lie outside
    `[-v, v]` the two clipped tails are `[l, -v]` and `[v, r]` -/
theorem muTilde_tails (l r : ℚ) (fv : Bool) (m1 : ℚ → ℚ → ℚ) (hl : l ≤ -vOf fv) (hr : vOf fv ≤ r) (hlr : l ≤ r)
    (hv : 0 ≤ vOf fv) :
    muTilde l r fv m1 = m1 l (-vOf fv) + m1 (vOf fv) r := by
  unfold muTilde truncLeftTail truncRightTail
  simp only
  rw [max_eq_left hl, min_eq_left (by linarith), min_eq_left hr, max_eq_left (by linarith)]

/-- … and when the whole grid lies inside `(-v, v)` (a small grid, infinite variation: v = 1) both tails are empty
    intervals at the truncation bounds -/
theorem muTilde_inside (l r : ℚ) (m1 : ℚ → ℚ → ℚ) (hl : -1 ≤ l) (hr : r ≤ 1) (hlr : l ≤ r) :
    muTilde l r false m1 = m1 l l + m1 r r := by
  unfold muTilde truncLeftTail truncRightTail vOf
  simp only [Bool.false_eq_true, if_false]
  rw [max_eq_right hl, min_eq_left hlr, min_eq_right hr, max_eq_left hlr]

/-- each margin of a copula chain: `compute_mu_h` is called per axis with the margin's own truncated measure, so the
    margin's drift compensates the jump mean *of the margin's cell masses*; it compensates the mean of the copula
    chain's k-th coordinate iff the column sums of the joint rates are those marginal cell masses -/
theorem chain_mean_margin (c : Chain) (col : ℕ → ℚ)
    (hcol : ∀ k, k < c.ax.length → col k = rate c.mid c.ax c.o (chainMass c.ax c.m) k) :
    c.processDrift + ∑ k ∈ range c.ax.length, pt c.ax k * col k = c.modelDrift + c.aTilde + c.muTilde := by
  rw [← chain_mean c]
  unfold Chain.mean Chain.jumpMean
  rw [sum_map_range]
  congr 1
  apply sum_congr rfl
  intro k hk; rw [hcol k (mem_range.mp hk)]

/-- … and in general the margin's mean is off by exactly the first moment of the column-sum defect -/
theorem chain_mean_margin_defect (c : Chain) (col : ℕ → ℚ) :
    c.processDrift + ∑ k ∈ range c.ax.length, pt c.ax k * col k =
      c.modelDrift + c.aTilde + c.muTilde +
        ∑ k ∈ range c.ax.length, pt c.ax k * (col k - rate c.mid c.ax c.o (chainMass c.ax c.m) k) := by
  rw [← chain_mean c]
  unfold Chain.mean Chain.jumpMean
  rw [sum_map_range, add_assoc, ← sum_add_distrib]
  congr 1
  apply sum_congr rfl
  intro k _; ring

/-! ### the equivalent diffusion coefficient -/

/-- **small jumps are replaced by a Brownian motion iff the jumps have infinite variation**: the squared equivalent
    diffusion coefficient exceeds σ² by the second moment of the (truncated) measure on the central interval in that
    case, and by nothing otherwise -/
theorem eqDiff (sigma l r h : ℚ) (fv : Bool) (m2 : ℚ → ℚ → ℚ) :
    (fv = false → eqDiffSq sigma l r h fv m2 = sigma ^ 2 + truncate l r m2 (centralIv h).1 (centralIv h).2) ∧
    (fv = true → eqDiffSq sigma l r h fv m2 = sigma ^ 2) ∧
    (truncate l r m2 (centralIv h).1 (centralIv h).2 ≠ 0 →
      (eqDiffSq sigma l r h fv m2 - sigma ^ 2 = truncate l r m2 (centralIv h).1 (centralIv h).2 ↔ fv = false)) := by
  unfold eqDiffSq volAdjSq
  refine ⟨fun h0 => by simp [h0], fun h1 => by simp [h1], fun hne => ?_⟩
  cases fv
  · simp
  · simp only [if_true, add_zero, sub_self]
    constructor
    · intro h0; exact absurd h0.symm hne
    · intro h0; exact absurd h0 (by simp)

/-- for `h ≤ 2` the central interval is `[-h/2, h/2]` -/
theorem centralIv_small (h : ℚ) (h0 : 0 ≤ h) (h2 : h ≤ 2) : centralIv h = (-h / 2, h / 2) := by
  unfold centralIv
  rw [max_eq_left (by linarith), min_eq_left (by linarith)]

/-! ### variance: the jumps of the chain against the second moment outside the central cell -/

section variance
variable (mid : ℚ → ℚ → ℚ) (hm : Between mid) (hi : MidIdem mid) (ax : List ℚ) (o : ℕ) (hax : AxisOK ax o)
  (m m2 : ℚ → ℚ → ℚ) (hM : IsMass m) (h2 : IsSecondMoment m m2)
include hm hi hax hM h2

/-- **variance gap**: the second moment of the chain's jumps differs from `∫ x² ν(dx)` outside the central cell by at most
    the per-cell oscillation of x² weighted by the cell masses -/
theorem variance_gap :
    |∑ k ∈ range ax.length, pt ax k ^ 2 * rate mid ax o m k - intensity1d mid ax o m2| ≤
      ∑ k ∈ range ax.length, oscSq mid ax k * rate mid ax o m k := by
  rw [← sum_rates_eq_intensity_1d mid hm hi ax o hax m2 h2.mass, ← sum_sub_distrib]
  refine le_trans (abs_sum_le_sum_abs _ _) (sum_le_sum ?_)
  intro k hk
  have hk' := mem_range.mp hk
  unfold rate oscSq
  by_cases hko : k = o
  · simp [hko]
  · rw [if_neg hko, if_neg hko]
    have s := state_in_cell mid hm hi ax hax.inc k hk'
    exact cell_second_moment m m2 hM h2 _ _ _ s.1 s.2.1 (cell_away mid hm hi ax o hax k hk' hko)

/-- the same about the chain as built (truncated measure, lists) -/
theorem variance_gap_chain (c : Chain) (hc : c.mid = mid ∧ c.ax = ax ∧ c.o = o ∧ c.m = m) :
    |c.jumpSecondMoment - intensity1d mid ax o m2| ≤ ∑ k ∈ range ax.length, oscSq mid ax k * rate mid ax o m k := by
  obtain ⟨e1, e2, e3, e4⟩ := hc
  unfold Chain.jumpSecondMoment
  rw [e1, e2, e3, e4, sum_map_range]
  have : ∀ k ∈ range ax.length, pt ax k ^ 2 * rate mid ax o (chainMass ax m) k = pt ax k ^ 2 * rate mid ax o m k := by
    intro k hk; rw [rate_chainMass mid hm hi ax o hax m k (mem_range.mp hk)]
  rw [sum_congr rfl this]
  exact variance_gap mid hm hi ax o hax m m2 hM h2

/-- **infinite variation**: with the second moment of the central cell added to σ², the variance per unit time of the
    approximation (`eqDiffSq + Σ x_k² q_k`) differs from the model's (`σ² + ∫ x² ν` over central cell + outside) by at
    most the weighted oscillation.  Hypotheses: the central interval of `vol_adjustment` is the origin's cell
    (neighbours of 0 are ∓h, C13) and `h ≤ 2`. -/
theorem variance_infinite_variation (c : Chain) (hc : c.mid = mid ∧ c.ax = ax ∧ c.o = o ∧ c.m = m ∧ c.m2 = m2)
    (hfv : c.finiteVariation = false) (h0 : 0 ≤ c.h) (hh : c.h ≤ 2)
    (hcell : hLeft mid ax o = -c.h / 2 ∧ hRight mid ax.length ax o = c.h / 2) :
    |(c.eqDiffSq + c.jumpSecondMoment) -
        (c.sigma ^ 2 + m2 (hLeft mid ax o) (hRight mid ax.length ax o) + intensity1d mid ax o m2)| ≤
      ∑ k ∈ range ax.length, oscSq mid ax k * rate mid ax o m k := by
  obtain ⟨e1, e2, e3, e4, e5⟩ := hc
  have g := variance_gap_chain mid hm hi ax o hax m m2 hM h2 c ⟨e1, e2, e3, e4⟩
  have hon : o < ax.length := by have := hax.hi; omega
  have ci := cell_inside_truncation mid hm hi ax o hax o hon
  rw [(origin_cell mid ax o hax.zero).1, (origin_cell mid ax o hax.zero).2] at ci
  have hE : c.eqDiffSq = c.sigma ^ 2 + m2 (hLeft mid ax o) (hRight mid ax.length ax o) := by
    unfold Chain.eqDiffSq
    rw [(eqDiff c.sigma c.lo c.hi c.h c.finiteVariation c.m2).1 hfv, centralIv_small c.h h0 hh, e5]
    unfold Chain.lo Chain.hi
    rw [e2, ← hcell.1, ← hcell.2, truncate_inside _ _ m2 _ _ (by rw [hcell.1, hcell.2]; linarith) ci.1 ci.2]
  rw [hE]
  have : c.sigma ^ 2 + m2 (hLeft mid ax o) (hRight mid ax.length ax o) + c.jumpSecondMoment -
      (c.sigma ^ 2 + m2 (hLeft mid ax o) (hRight mid ax.length ax o) + intensity1d mid ax o m2) =
      c.jumpSecondMoment - intensity1d mid ax o m2 := by ring
  rw [this]; exact g

/-- **finite variation**: nothing is added, and the approximation misses the second moment of the central cell on top
    of the weighted oscillation -/
theorem variance_finite_variation (c : Chain) (hc : c.mid = mid ∧ c.ax = ax ∧ c.o = o ∧ c.m = m ∧ c.m2 = m2)
    (hfv : c.finiteVariation = true) (central : ℚ) (hcen : 0 ≤ central) :
    c.eqDiffSq = c.sigma ^ 2 ∧
    |(c.eqDiffSq + c.jumpSecondMoment) - (c.sigma ^ 2 + central + intensity1d mid ax o m2)| ≤
      central + ∑ k ∈ range ax.length, oscSq mid ax k * rate mid ax o m k := by
  obtain ⟨e1, e2, e3, e4, e5⟩ := hc
  have g := variance_gap_chain mid hm hi ax o hax m m2 hM h2 c ⟨e1, e2, e3, e4⟩
  have hE : c.eqDiffSq = c.sigma ^ 2 := by
    unfold Chain.eqDiffSq; exact (eqDiff c.sigma c.lo c.hi c.h c.finiteVariation c.m2).2.1 hfv
  refine ⟨hE, ?_⟩
  rw [hE]
  have : c.sigma ^ 2 + c.jumpSecondMoment - (c.sigma ^ 2 + central + intensity1d mid ax o m2) =
      (c.jumpSecondMoment - intensity1d mid ax o m2) - central := by ring
  rw [this]
  have a1 := abs_sub (c.jumpSecondMoment - intensity1d mid ax o m2) central
  rw [abs_of_nonneg hcen] at a1
  linarith

end variance

/-! ### the mean of the jumps against the first moment (why the compensator is needed at all) -/

/-- the jump mean of the chain differs from `∫ x ν(dx)` outside the central cell by at most the cell widths weighted by
    the cell masses: the bias `initialisation` removes by using `mu_h` instead of the model's own first moment -/
theorem mean_gap (mid : ℚ → ℚ → ℚ) (hm : Between mid) (hi : MidIdem mid) (ax : List ℚ) (o : ℕ) (hax : AxisOK ax o)
    (m m1 : ℚ → ℚ → ℚ) (hM : IsMass m) (h1 : IsFirstMoment m m1) :
    |∑ k ∈ range ax.length, (pt ax k * rate mid ax o m k - rate mid ax o m1 k)| ≤
      ∑ k ∈ range ax.length, (cellHi mid ax k - cellLo mid ax k) * rate mid ax o m k := by
  refine le_trans (abs_sum_le_sum_abs _ _) (sum_le_sum ?_)
  intro k hk
  have hk' := mem_range.mp hk
  unfold rate
  by_cases hko : k = o
  · simp [hko]
  · rw [if_neg hko, if_neg hko]
    have s := state_in_cell mid hm hi ax hax.inc k hk'
    exact cell_first_moment m m1 hM h1 _ _ _ s.1 s.2.1 (cell_away mid hm hi ax o hax k hk' hko)

/-! ### copula chain: the variance matrix squares a covariance (negation witness) -/

/-- `np.dot(adj, adj.T) + diag(σ²)` is not `adj + diag(σ²)`: one coordinate, small-jump variance 1/4, σ = 0 gives 1/16 -/
theorem variance_matrix_counterexample :
    varianceMatrixCoded [[1 / 4]] [0] = [[1 / 16]] ∧ varianceMatrixSpec [[1 / 4]] [0] = [[1 / 4]] ∧
    varianceMatrixCoded [[1 / 4, 0], [0, 1 / 9]] [1 / 2, 0] = [[5 / 16, 0], [0, 1 / 81]] ∧
    varianceMatrixSpec [[1 / 4, 0], [0, 1 / 9]] [1 / 2, 0] = [[1 / 2, 0], [0, 1 / 9]] := by
  decide +kernel

/-- in one dimension the coded combination is right only for a small-jump variance of 0 or 1 -/
theorem variance_matrix_1x1 (c s : ℚ) :
    varianceMatrixCoded [[c]] [s] = varianceMatrixSpec [[c]] [s] ↔ c = 0 ∨ c = 1 := by
  have e1 : varianceMatrixCoded [[c]] [s] = [[c * c + 0 + s ^ 2]] := by
    simp [varianceMatrixCoded, matAdd, matMul, transpose, diag]
  have e2 : varianceMatrixSpec [[c]] [s] = [[c + s ^ 2]] := by
    simp [varianceMatrixSpec, matAdd, diag]
  rw [e1, e2]
  simp only [List.cons.injEq, and_true]
  constructor
  · intro h
    have : c * (c - 1) = 0 := by linarith
    rcases mul_eq_zero.mp this with h0 | h0
    · left; exact h0
    · right; linarith
  · rintro (h | h) <;> rw [h] <;> ring

/-! ### non-vacuity -/

/-- a Lebesgue-like measure with density 1: mass `b - a`, first moment `(b² - a²)/2`, second moment `(b³ - a³)/3` -/
example : IsSecondMoment (fun a b => b - a) (fun a b => (b ^ 3 - a ^ 3) / 3) := by
  refine ⟨⟨fun a b c _ _ _ => by ring, fun a b hab haw => ?_⟩, fun a b ha hab => ?_, fun a b hab hb => ?_⟩
  · have : b ^ 3 - a ^ 3 = (b - a) * (a ^ 2 + a * b + b ^ 2) := by ring
    rw [this]; apply div_nonneg _ (by norm_num)
    apply mul_nonneg (by linarith); nlinarith [sq_nonneg (a + b), sq_nonneg a, sq_nonneg b]
  · constructor <;> nlinarith [mul_pos ha ha, sq_nonneg (b - a)]
  · constructor <;> nlinarith [mul_pos_of_neg_of_neg hb hb, sq_nonneg (b - a)]

example : muH amid [-2, -1, 0, 1, 3] [-2, -1, 0, 1, 3] 2 (fun a b => b - a) = 5 / 2 ∧
    muHCells amid [-2, -1, 0, 1, 3] [-2, -1, 0, 1, 3] 2 (fun a b => b - a) =
      [some (-2, -3 / 2), some (-3 / 2, -1 / 2), none, some (1 / 2, 2), some (2, 3)] := by decide +kernel

example : muTilde (-2) 3 true (fun a b => (b ^ 2 - a ^ 2) / 2) = 5 / 2 ∧
    muTilde (-2) 3 false (fun a b => (b ^ 2 - a ^ 2) / 2) = 5 / 2 ∧
    muTilde (-1 / 2) (1 / 2) false (fun a b => (b ^ 2 - a ^ 2) / 2) = 0 := by decide +kernel

example : eqDiffSq (1 / 2) (-2) 3 1 false (fun a b => (b ^ 3 - a ^ 3) / 3) = 1 / 4 + 1 / 12 ∧
    eqDiffSq (1 / 2) (-2) 3 1 true (fun a b => (b ^ 3 - a ^ 3) / 3) = 1 / 4 := by decide +kernel

end Rpylib.Drift
