/-
C05 — Multilevel estimator = sum of per-level means over exactly the simulated samples.
Property theorems about RpylibModel/Model/Mlmc.lean and RpylibModel/Model/MlmcCv.lean; they live in the lemma files
imported here: Lemmas/C05Core.lean (payoff arrays and counters, every history), Lemmas/C05Cv.lean (control-variate path),
Lemmas/C05Iter.lean (what the criteria receive at every iteration).
-/
import RpylibModel.Proofs.Lemmas.C05Core
import RpylibModel.Proofs.Lemmas.C05Cv
import RpylibModel.Proofs.Lemmas.C05Iter
