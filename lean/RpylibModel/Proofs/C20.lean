/-
C20 — Calibration reprices its target; derived parameters stay in sync with updates.    Property theorems only.
Model: RpylibModel/Model/Params.lean.  Every theorem is for every family, every instance of the irrational
functions `Irr` (Gamma, power, sqrt), every start object and every history of assignments / initialisations.
-/
import RpylibModel.Model.Params
import RpylibModel.Proofs.Lemmas.C20Basic
import Mathlib.Tactic.Linarith
import Mathlib.Algebra.Order.Field.Rat

set_option linter.unusedVariables false

namespace Rpylib.Params

/-! ### constraints are enforced on every assignment -/

/-- a setter stores the value exactly when its constraint holds; a rejected assignment raises ValueError and leaves the
    object unchanged -/
theorem assign_spec (f : Fam) (d : Dict) (a : Attr) (v : Rat) :
    ((cons f a).ok v = true ∧ assign f d a v = (d.set a v, .ok)) ∨
    ((cons f a).ok v = false ∧ assign f d a v = (d, .valueError)) := by
  unfold assign
  cases h : (cons f a).ok v <;> simp

theorem rejected_assignment_unchanged (irr : Irr) (f : Fam) (d : Dict) (a : Attr) (v : Rat)
    (h : (step irr f d (.set a v)).2 ≠ .ok) : (step irr f d (.set a v)).1 = d := by
  rcases assign_spec f d a v with ⟨_, h2⟩ | ⟨_, h2⟩ <;> simp_all [step]

/-- one step (assignment or initialisation, successful or not) never stores a value violating a declared constraint -/
theorem step_inv (irr : Irr) (f : Fam) (d : Dict) (op : Op) (h : Inv f d) : Inv f (step irr f d op).1 := by
  cases op with
  | set a v => exact assign_inv f d a v h
  | init => exact initialisation_inv irr f d h

/-- **constraints_enforced**: for every history, every stored attribute satisfies the constraint its class declares -/
theorem constraints_enforced (irr : Irr) (f : Fam) (d0 : Dict) (ops : List Op) (h : Inv f d0) :
    Inv f (run irr f d0 ops) := by
  induction ops generalizing d0 with
  | nil => exact h
  | cons op rest ih => exact ih _ (step_inv irr f d0 op h)

/-- a constructed object satisfies its constraints (the constructor goes through the same setters) -/
theorem construct_inv (irr : Irr) (f : Fam) (args : Attr → Rat) (h : (construct irr f args).2 = .ok) :
    Inv f (construct irr f args).1 := by
  unfold construct at h ⊢
  have hA := assignAll_inv f ((prims f).map (fun a => (a, args a))) Dict.empty (by intro a v h; simp [Dict.empty] at h)
  split
  · exact initialisation_inv irr f _ (by simpa [*] using hA)
  · simpa [*] using hA

/-- the constructor raises ValueError iff one of its arguments violates its constraint; otherwise all primaries are stored -/
theorem construct_hasPrims (irr : Irr) (f : Fam) (args : Attr → Rat) (h : (construct irr f args).2 = .ok) :
    ∀ a ∈ prims f, (construct irr f args).1 a = some (args a) :=
  construct_prims irr f args h

/-! ### derived attributes are in sync after `initialisation` -/

/-- after a successful `initialisation` every cached attribute is the family's function of the primaries now stored,
    and no primary was touched -/
theorem init_sync (irr : Irr) (f : Fam) (d : Dict) (h : (initialisation irr f d).2 = .ok) :
    (∀ a ∈ derivedNames f, (initialisation irr f d).1 a = deriveOf irr f (initialisation irr f d).1 a) ∧
    (∀ a, a ∉ derivedNames f → (initialisation irr f d).1 a = d a) :=
  ⟨init_derived irr f d h, init_frame irr f d h⟩

/-- **derived_in_sync**: after ANY history of assignments / initialisations (accepted or rejected) followed by a
    successful `initialisation`, the cached attributes equal the family's function of the final primaries -/
theorem derived_in_sync (irr : Irr) (f : Fam) (d0 : Dict) (ops : List Op)
    (h : (step irr f (run irr f d0 ops) .init).2 = .ok) :
    let d' := (step irr f (run irr f d0 ops) .init).1
    (∀ a ∈ derivedNames f, d' a = deriveOf irr f d' a) ∧ (∀ a ∈ prims f, d' a = (run irr f d0 ops) a) := by
  refine ⟨init_derived irr f _ h, ?_⟩
  intro a ha
  exact init_frame irr f _ h a (prims_not_derived f a ha)

/-- **rebuilt = direct**: an object updated by any history ending with a successful `initialisation` holds, on every
    attribute of its class, exactly what the constructor called with its final primaries produces -/
theorem rebuilt_eq_direct (irr : Irr) (f : Fam) (d0 : Dict) (ops : List Op)
    (hinv : Inv f d0) (hp : HasPrims f d0)
    (h : (step irr f (run irr f d0 ops) .init).2 = .ok) :
    let d' := (step irr f (run irr f d0 ops) .init).1
    (construct irr f d'.get).2 = .ok ∧
    ∀ a, a ∈ prims f ∨ a ∈ derivedNames f → (construct irr f d'.get).1 a = d' a := by
  have hinv' := constraints_enforced irr f d0 ops hinv
  have hp' := run_hasPrims irr f ops d0 hp
  exact construct_eq_of_init irr f (run irr f d0 ops) hinv' hp' h

/-- negation witness (finding #23, fixed by 5621114): with the pre-fix Black–Scholes `initialisation` (a no-op) the cached
    variance is stale after `sigma` is updated -/
theorem bs_prefix_stale :
    ∃ d0 : Dict, ∃ v : Rat,
      let d1 := (assign .bs d0 .sigma v).1
      let d2 := (initialisationBSPrefix d1).1
      Inv .bs d0 ∧ (initialisationBSPrefix d1).2 = .ok ∧ d2 .variance ≠ some (d2.get .sigma * d2.get .sigma) := by
  refine ⟨(Dict.empty.set .sigma (1/5)).set .variance (1/25), 2/5, ?_, rfl, by decide +kernel⟩
  exact set_free_inv _ _ _ _ (set_inv _ _ _ _ (fun a v h => by simp [Dict.empty] at h) (by decide +kernel)) rfl

/-- …whereas today's `initialisation` repairs exactly that object -/
example : ((initialisation ⟨id, fun _ _ => 0, id⟩ .bs
      (assign .bs ((Dict.empty.set .sigma (1/5)).set .variance (1/25)) .sigma (2/5)).1).1 .variance) = some (4/25) := by
  decide +kernel

/-! ### calibration -/

/-- **calibrate_contract**: under the root finder's contract, a returned value lies in the admissible interval, the setter
    accepted it, re-initialisation succeeded, the rebuilt parameters reprice the target within the tolerance, and they
    are exactly the parameters `run_default_calibration` returns -/
theorem calibrate_contract (irr : Irr) (rf : RootFinder) (tol : Rat) (hc : rf.Contract tol)
    (f : Fam) (price : Dict → Rat) (d : Dict) (a : Attr) (lo hi market x : Rat)
    (h : calibrate irr rf f price d a lo hi market = some x) :
    lo ≤ x ∧ x ≤ hi ∧ (cons f a).ok x = true ∧
    ∃ d2, rebuild irr f d a x = some d2 ∧ rabs (price d2 - market) ≤ tol ∧
      runDefault irr rf f price d a lo hi market = some d2 := by
  obtain ⟨h1, h2, y, hy, hy2⟩ := hc _ _ _ _ h
  unfold objective at hy
  cases hr : rebuild irr f d a x with
  | none => simp [hr] at hy
  | some d2 =>
    simp [hr] at hy
    refine ⟨h1, h2, rebuild_accepts irr f d a x d2 hr, d2, rfl, by rw [hy]; exact hy2, ?_⟩
    simp [runDefault, h, hr]

/-- the parameters returned by the default calibration: same class invariant, calibrated attribute = the root, every other
    primary as in the input, cached attributes in sync -/
theorem runDefault_spec (irr : Irr) (rf : RootFinder) (f : Fam) (price : Dict → Rat) (d : Dict) (a : Attr)
    (lo hi market : Rat) (d2 : Dict) (hinv : Inv f d) (ha : a ∉ derivedNames f)
    (h : runDefault irr rf f price d a lo hi market = some d2) :
    Inv f d2 ∧ (∃ x, calibrate irr rf f price d a lo hi market = some x ∧ d2 a = some x) ∧
    (∀ b, b ≠ a → b ∉ derivedNames f → d2 b = d b) ∧ (∀ b ∈ derivedNames f, d2 b = deriveOf irr f d2 b) := by
  unfold runDefault at h
  cases hx : calibrate irr rf f price d a lo hi market with
  | none => simp [hx] at h
  | some x =>
    simp [hx] at h
    obtain ⟨hi1, hi2, hi3, hi4⟩ := rebuild_spec irr f d a x d2 hinv ha h
    exact ⟨hi1, ⟨x, rfl, hi2⟩, hi3, hi4⟩

/-- unreachable target: when the root finder raises, so do `calibrate_model_parameter` and `run_default_calibration` -/
theorem calibrate_raises (irr : Irr) (rf : RootFinder) (f : Fam) (price : Dict → Rat) (d : Dict) (a : Attr)
    (lo hi market : Rat) (h : rf.find (objective irr f price d a market) lo hi = none) :
    calibrate irr rf f price d a lo hi market = none ∧ runDefault irr rf f price d a lo hi market = none := by
  simp [calibrate, runDefault, h]

/-- **input model untouched**: whatever points the root finder evaluates, every object that existed before the call
    (in particular the input parameters) is unchanged — the calibration mutates only its own deep copy -/
theorem calibrate_input_untouched (irr : Irr) (f : Fam) (h : Heap) (src : Nat) (a : Attr) (trace : List Rat)
    (j : Nat) (hj : j < h.next) :
    (h.calibrateTrace irr f src a trace true).obj j = h.obj j := by
  unfold Heap.calibrateTrace
  simp only [if_true]
  have hne : j ≠ (h.deepcopy src).2 := by simp [Heap.deepcopy]; omega
  rw [foldl_evalAt_frame irr f a (h.deepcopy src).2 j hne trace (h.deepcopy src).1]
  simp [Heap.deepcopy]; intro h'; omega

/-- negation witness: without the deep copy the very first trial value overwrites the input parameters -/
theorem calibrate_alias_mutates :
    ∃ (h : Heap) (src : Nat) (v : Rat), src < h.next ∧
      (h.calibrateTrace ⟨id, fun _ _ => 0, id⟩ .merton src .mu_j [v] false).obj src ≠ h.obj src := by
  refine ⟨⟨fun _ => Dict.empty.set .mu_j 0, 1⟩, 0, 1, by decide, ?_⟩
  intro hEq
  have := congrFun hEq Attr.mu_j
  simp [Heap.calibrateTrace, Heap.evalAt, assign, cons, Cons.ok, initialisation, Heap.write, Dict.set] at this

/-! ### the objective must be the repricing function -/

/-- **calibrate_reprices_target**: if the configuration used inside the objective is the user's (default) pricer
    configuration and the target configuration is the requested one, then — under the root finder's contract — the rebuilt
    parameters reprice the REQUESTED Black–Scholes target under the USER's pricer within the tolerance -/
theorem calibrate_reprices_target (irr : Irr) (rf : RootFinder) (tol : Rat) (hc : rf.Contract tol) (f : Fam)
    (priceWith : PriceCfg → Dict → Rat) (bsPrice : TargetCfg → Rat) (cfgObj cfgUser : PriceCfg) (tgt req : TargetCfg)
    (d : Dict) (a : Attr) (lo hi x : Rat) (hcfg : cfgObj = cfgUser) (htgt : tgt = req)
    (h : calibrateCfg irr rf f priceWith bsPrice cfgObj tgt d a lo hi = some x) :
    lo ≤ x ∧ x ≤ hi ∧ ∃ d2, rebuild irr f d a x = some d2 ∧ rabs (priceWith cfgUser d2 - bsPrice req) ≤ tol := by
  subst hcfg; subst htgt
  obtain ⟨h1, h2, _, d2, h4, h5, _⟩ := calibrate_contract irr rf tol hc f (priceWith cfgObj) d a lo hi (bsPrice tgt) x h
  exact ⟨h1, h2, d2, h4, h5⟩

/-- a root finder that only looks at the left end of the interval (satisfies the contract with tolerance 0) -/
def leftEndFinder : RootFinder :=
  ⟨fun g lo hi => if lo ≤ hi then (match g lo with | some y => if rabs y ≤ 0 then some lo else none | none => none) else none⟩

theorem leftEndFinder_contract : leftEndFinder.Contract 0 := by
  intro g lo hi x h
  simp only [leftEndFinder] at h
  split at h
  · rename_i hle
    split at h
    · rename_i y hy
      split at h
      · rename_i hy0
        injection h with h; subst h
        exact ⟨Rat.le_refl, hle, y, hy, hy0⟩
      · cases h
    · cases h
  · cases h

/-- negation witness (seeded change C20-c): when the objective prices with another configuration than the user's (here
    2000 instead of 10000 COS terms, and a price that depends on the number of terms) a contract-abiding root finder returns
    a value that does NOT reprice under the user's pricer — the hypothesis `cfgObj = cfgUser` cannot be dropped -/
theorem calibrate_cfg_mismatch_witness :
    ∃ (priceWith : PriceCfg → Dict → Rat) (cfgObj cfgUser : PriceCfg) (d : Dict),
      cfgObj ≠ cfgUser ∧
      calibrateCfg ⟨id, fun _ _ => 0, id⟩ leftEndFinder .merton priceWith (fun _ => 2000) cfgObj ⟨1, 0, 0, 1, 1, 1⟩ d .mu_j 0 1
        = some 0 ∧
      ∀ d2, (0 : Rat) < rabs (priceWith cfgUser d2 - 2000) := by
  refine ⟨fun c _ => c.cosTerms, ⟨2000, 10, 1, 0, 0, 1, 1, 1⟩, ⟨10000, 10, 1, 0, 0, 1, 1, 1⟩, Dict.empty, by decide, ?_, ?_⟩
  · decide +kernel
  · intro _; show (0 : Rat) < rabs ((10000 : Rat) - 2000); decide +kernel

/-! ### the default table: soundness of the decidable test used by ProofsGen/C20Table -/

theorem containsInterval_sound (c : Cons) (lo hi : Rat) (h : c.containsInterval lo hi = true) :
    lo < hi ∧ ∀ x, lo ≤ x → x ≤ hi → c.ok x = true := by
  cases c with
  | free => simp [Cons.containsInterval] at h; exact ⟨h, fun _ _ _ => rfl⟩
  | pos =>
    simp [Cons.containsInterval] at h
    exact ⟨h.1, fun x h1 _ => by simp [Cons.ok]; linarith [h.2]⟩
  | spos =>
    simp [Cons.containsInterval] at h
    exact ⟨h.1, fun x h1 _ => by simp [Cons.ok]; linarith [h.2]⟩
  | slt b =>
    simp [Cons.containsInterval] at h
    exact ⟨h.1, fun x _ h2 => by simp [Cons.ok]; linarith [h.2]⟩

/-- an accepted table row: the whole default interval is admissible for the setter of the calibrated parameter -/
theorem rowOk_sound (row : String × String × Rat × Rat) (h : rowOk row = true) :
    ∃ f, famOfName row.1 = some f ∧ attrOfName row.2.1 ∈ prims f ∧ row.2.2.1 < row.2.2.2 ∧
      ∀ x, row.2.2.1 ≤ x → x ≤ row.2.2.2 → (cons f (attrOfName row.2.1)).ok x = true := by
  unfold rowOk at h
  cases hf : famOfName row.1 with
  | none => simp [hf] at h
  | some f =>
    simp [hf] at h
    obtain ⟨h1, h2⟩ := h
    obtain ⟨h3, h4⟩ := containsInterval_sound _ _ _ h2
    exact ⟨f, rfl, h1, h3, h4⟩

/-! ### non-vacuity -/

example : (construct ⟨id, fun _ _ => 0, id⟩ .hem
    (fun a => match a with | .sigma => 1/10 | .p => 3/5 | .eta1 => 25 | .eta2 => 50 | .intensity => 3 | _ => 0)).2 = .ok := by
  decide +kernel

example : (assign .cgmy Dict.empty .y 2).2 = .valueError := by
  simp [assign, cons, Cons.ok]

end Rpylib.Params
