/-
C15 — Simulated paths are running sums on the product dates within the time-step cap.   Property theorems only.
Model: RpylibModel/Model/Path.lean (as coded, and as specified).  The code has two faults the property names
(DESIGN §3.1 #17 per-interval jump sums, #18 uncapped last gap): for those the full statement is proved for the
specification functions, a `…_partial` statement for the code on the inputs where it holds, and the negation by a
concrete witness.
-/
import RpylibModel.Model.Path
import RpylibModel.Proofs.Lemmas.C15Lists
import RpylibModel.Proofs.Lemmas.C15Finer
import RpylibModel.Proofs.Lemmas.C15Vec
import RpylibModel.Proofs.Lemmas.C15Iff
import RpylibModel.Proofs.Lemmas.C15Spec
import Mathlib.Tactic.Linarith
import Mathlib.Tactic.Ring
import Mathlib.Tactic.FieldSimp
import Mathlib.Tactic.Positivity
import Mathlib.Algebra.Order.Field.Rat

namespace Rpylib.Path

variable {α : Type}

/-- strictly increasing -/
def StrictInc (l : List Rat) : Prop := l.Pairwise (· < ·)

/-- the steps `t_{i+1} - t_i` of a time list -/
def stepsOf : List Rat → List Rat
  | [] => []
  | t :: r => diffsFrom t r

/-! ## 1. every path starts at zero at time 0 -/

/-- all three components of every simulator's output start with 0 (the fixed-date simulators return the product's own
    date list, whose first entry is 0) -/
theorem starts_at_zero (ε T : Rat) (dates jt jv jf jc w : List Rat) (incs : List (List Rat)) (Is : List Interval)
    (h0 : dates.head? = some 0) :
    (∀ P ∈ [fixedDatesCode dates incs w, fixedDatesCtmc dates incs w, fixedDatesSpec dates incs w,
            jumpTimesDirect T Is w, jumpTimesCtmc T Is w, maxStepCode ε T jt jv w, maxStepSpec ε T jt jv w],
        P.times.head? = some 0 ∧ P.diff.head? = some 0 ∧ P.jumps.head? = some 0)
    ∧ (maxStepPair ε T jt jf jc).times.head? = some 0 ∧ (maxStepPair ε T jt jf jc).fine.head? = some 0
    ∧ (maxStepPair ε T jt jf jc).coarse.head? = some 0 := by
  refine ⟨?_, rfl, rfl, rfl⟩
  intro P hP
  simp only [List.mem_cons, List.not_mem_nil, or_false] at hP
  rcases hP with rfl | rfl | rfl | rfl | rfl | rfl | rfl
  · exact ⟨h0, rfl, rfl⟩
  · exact ⟨h0, rfl, rfl⟩
  · exact ⟨h0, rfl, rfl⟩
  · exact ⟨rfl, rfl, rfl⟩
  · exact ⟨rfl, rfl, rfl⟩
  · unfold maxStepCode; split <;> exact ⟨rfl, rfl, rfl⟩
  · exact ⟨rfl, rfl, rfl⟩

/-! ## 2. strictly increasing times ending at the maturity -/

/-- one product interval: `a < b`, sorted distinct uniforms strictly inside (0, 1) -/
def WfIv (I : Interval) : Prop :=
  I.a < I.b ∧ (I.js.map (fun p => p.1)).Pairwise (· < ·) ∧ ∀ p ∈ I.js, 0 < p.1 ∧ p.1 < 1

/-- consecutive product intervals from `s` to `e` -/
def Chain : Rat → List Interval → Rat → Prop
  | s, [], e => s = e
  | s, I :: r, e => I.a = s ∧ WfIv I ∧ Chain I.b r e

theorem ivTimes_facts (I : Interval) (h : WfIv I) :
    (ivTimes I).Pairwise (· < ·) ∧ ∀ x ∈ ivTimes I, I.a < x ∧ x < I.b := by
  obtain ⟨hab, hp, hu⟩ := h
  have hd : 0 < I.b - I.a := by linarith
  constructor
  · unfold ivTimes
    rw [List.pairwise_map] at hp ⊢
    exact hp.imp (fun {p q} hpq => by
      have := mul_lt_mul_of_pos_left hpq hd; linarith)
  · intro x hx
    simp only [ivTimes, List.mem_map] at hx
    obtain ⟨p, hp, rfl⟩ := hx
    obtain ⟨h0, h1⟩ := hu p hp
    have := mul_pos hd h0
    have := mul_lt_mul_of_pos_left h1 hd
    constructor <;> linarith

theorem jumpTimes_facts (Is : List Interval) : ∀ (s e : Rat), Chain s Is e →
    s ≤ e ∧ (jumpTimes Is).Pairwise (· < ·) ∧ ∀ x ∈ jumpTimes Is, s < x ∧ x < e := by
  induction Is with
  | nil => intro s e h; simp only [Chain] at h; subst h; simp [jumpTimes]
  | cons I r ih =>
    intro s e h
    obtain ⟨ha, hw, hc⟩ := h
    obtain ⟨hle, hpw, hin⟩ := ih I.b e hc
    obtain ⟨h1, h2⟩ := ivTimes_facts I hw
    have hab : I.a < I.b := hw.1
    subst ha
    refine ⟨by linarith, ?_, ?_⟩
    · simp only [jumpTimes, List.flatMap_cons] at hpw ⊢
      rw [List.pairwise_append]
      refine ⟨h1, hpw, ?_⟩
      intro x hx y hy
      have := (h2 x hx).2
      have := (hin y hy).1
      linarith
    · intro x hx
      simp only [jumpTimes, List.flatMap_cons, List.mem_append] at hx hin
      rcases hx with hx | hx
      · have := h2 x hx; constructor <;> linarith
      · have := hin x hx; constructor <;> linarith

theorem strictInc_frame (T : Rat) (jt : List Rat) (hT : 0 < T) (hp : jt.Pairwise (· < ·))
    (hin : ∀ x ∈ jt, 0 < x ∧ x < T) : StrictInc (0 :: (jt ++ [T])) := by
  unfold StrictInc
  rw [List.pairwise_cons, List.pairwise_append]
  refine ⟨?_, hp, by simp, ?_⟩
  · intro x hx
    simp only [List.mem_append, List.mem_singleton] at hx
    rcases hx with hx | rfl
    · exact (hin x hx).1
    · exact hT
  · intro x hx y hy
    simp only [List.mem_singleton] at hy; subst hy
    exact (hin x hx).2

/-- **jump-time mode** (direct and CTMC): for product dates `0 = t_0 < … < t_n = T` and sorted distinct uniforms in
    (0, 1), the times are strictly increasing, start at 0 and end at the maturity -/
theorem times_strictInc_end_at_T (T : Rat) (Is : List Interval) (jv w : List Rat) (hT : 0 < T) (h : Chain 0 Is T) :
    StrictInc (assemble T (jumpTimes Is) jv w).times ∧ lastD 0 (assemble T (jumpTimes Is) jv w).times = T := by
  obtain ⟨_, hp, hin⟩ := jumpTimes_facts Is 0 T h
  refine ⟨strictInc_frame T _ hT hp hin, ?_⟩
  simp only [assemble, lastD]
  exact lastD_append_singleton _ _ _

/-- times and jump values have the same length (and so does the diffusion part when one normal per step is drawn) -/
theorem assemble_lengths (T : Rat) (jt jv w : List Rat) (h : jt.length = jv.length) (hw : w.length = jt.length + 1) :
    (assemble T jt jv w).times.length = (assemble T jt jv w).jumps.length ∧
    (assemble T jt jv w).times.length = (assemble T jt jv w).diff.length := by
  simp [assemble, cumsum, h, hw]

/-! ## 3. running sums -/

/-- **running sums, specification, fixed dates**: the jump value at date `i+1` is the sum of the increments of all
    intervals `0..i`, the diffusion value is the sum of all scaled Brownian increments `0..i` -/
theorem running_sums_spec (dates w : List Rat) (incs : List (List Rat)) (i : Nat) (hi : i < incs.length) :
    (fixedDatesSpec dates incs w).jumps[i + 1]? = some (sumL (incs.take (i + 1)).flatten) ∧
    (fixedDatesSpec dates incs w).diff[i + 1]? = (if i < w.length then some (sumL (w.take (i + 1))) else none) := by
  simp only [fixedDatesSpec, List.getElem?_cons_succ, cumsum, cumsumFrom_getElem?, List.length_map, hi, if_true]
  constructor
  · rw [sumL_flatten, List.map_take]; simp
  · split <;> simp

/-- increments over disjoint intervals are built from disjoint variates: the increment of the specified path over
    `[t_i, t_{i+1}]` is the sum of interval i's own jump increments -/
theorem spec_increment (incs : List (List Rat)) (acc : Rat) (i : Nat) (hi : i + 1 < incs.length) :
    ∃ a b, (cumsumFrom acc (incs.map sumL))[i]? = some a ∧ (cumsumFrom acc (incs.map sumL))[i + 1]? = some b ∧
      b - a = sumL (incs[i + 1]'hi) := by
  refine ⟨acc + sumL ((incs.map sumL).take (i + 1)), acc + sumL ((incs.map sumL).take (i + 1 + 1)), ?_, ?_, ?_⟩
  · rw [cumsumFrom_getElem?]; simp [show i < incs.length by omega]
  · rw [cumsumFrom_getElem?]; simp [hi]
  · rw [List.take_add_one (i := i + 1), List.getElem?_eq_getElem (by simpa using hi)]
    simp [sumL_append, sumL]

/-- the diffusion component of every simulator is the running sum of the scaled Brownian increments -/
theorem diffusion_running_sums (w : List Rat) (i : Nat) (hi : i < w.length) :
    (0 :: cumsum w)[i + 1]? = some (sumL (w.take (i + 1))) := by
  rw [List.getElem?_cons_succ, cumsum, cumsumFrom_getElem?, if_pos hi]; simp

/-- the CTMC's `project` (last value of each slice's cumulative sum) is the per-interval sum: the CTMC and the direct
    fixed-date simulators assemble the same path -/
theorem fixedDatesCtmc_eq_code (dates w : List Rat) (incs : List (List Rat)) :
    fixedDatesCtmc dates incs w = fixedDatesCode dates incs w := by
  simp only [fixedDatesCtmc, fixedDatesCode, lastD_cumsum]

/-- **running sums, code, one product date** (`running_sums` restricted to where it holds): with at most one product
    interval the coded path is the specified one -/
theorem running_sums_partial (dates w : List Rat) (incs : List (List Rat)) (h : incs.length ≤ 1) :
    fixedDatesCode dates incs w = fixedDatesSpec dates incs w ∧ fixedDatesCtmc dates incs w = fixedDatesSpec dates incs w := by
  rw [fixedDatesCtmc_eq_code]
  have : fixedDatesCode dates incs w = fixedDatesSpec dates incs w := by
    match incs, h with
    | [], _ => rfl
    | [s], _ => simp [fixedDatesCode, fixedDatesSpec, cumsum, cumsumFrom]
  exact ⟨this, this⟩

/-- **negation for two product dates** (#17): one jump of size 1/20 in the first interval, none in the second — the coded
    jump component returns to 0 at the second date, the running sum stays at 1/20 -/
theorem running_sums_counterexample :
    (fixedDatesCode [0, 1/2, 1] [[1/20], []] [0, 0]).jumps = [0, 1/20, 0] ∧
    (fixedDatesSpec [0, 1/2, 1] [[1/20], []] [0, 0]).jumps = [0, 1/20, 1/20] ∧
    fixedDatesCode [0, 1/2, 1] [[1/20], []] [0, 0] ≠ fixedDatesSpec [0, 1/2, 1] [[1/20], []] [0, 0] := by
  refine ⟨by norm_num [fixedDatesCode, sumL], by norm_num [fixedDatesSpec, sumL, cumsum, cumsumFrom], ?_⟩
  intro h
  have := congrArg PathOut.jumps h
  norm_num [fixedDatesCode, fixedDatesSpec, sumL, cumsum, cumsumFrom] at this

/-- **jump-time mode, direct simulation**: the value at the k-th jump time is the sum of the first k+1 jump sizes over
    all product intervals (one global cumulative sum) -/
theorem running_sums_jump_times (Is : List Interval) (k : Nat) (hk : k < (Is.flatMap ivSizes).length) :
    (jumpValsDirect Is)[k]? = some (sumL ((Is.flatMap ivSizes).take (k + 1))) := by
  rw [jumpValsDirect, cumsum, cumsumFrom_getElem?, if_pos hk]; simp

/-- **jump-time mode, CTMC, one product date**: the per-interval cumulative sums are the global one -/
theorem running_sums_jump_times_ctmc_partial (Is : List Interval) (h : Is.length ≤ 1) :
    jumpValsCtmc Is = jumpValsDirect Is := by
  match Is, h with
  | [], _ => rfl
  | [I], _ => simp [jumpValsCtmc, jumpValsDirect]

/-- **negation for two product dates** (#17, jump-time mode): one unit jump in each of two intervals — the CTMC path
    shows 1 again after the second jump instead of 2 -/
theorem running_sums_jump_times_ctmc_counterexample :
    jumpValsCtmc [⟨0, 1/2, [(1/2, 1)]⟩, ⟨1/2, 1, [(1/2, 1)]⟩] = [1, 1] ∧
    jumpValsDirect [⟨0, 1/2, [(1/2, 1)]⟩, ⟨1/2, 1, [(1/2, 1)]⟩] = [1, 2] := by
  constructor <;> norm_num [jumpValsCtmc, jumpValsDirect, ivSizes, cumsum, cumsumFrom]

/-! ## 4. the ε-step insertion -/

/-- **the loop computes the gap-by-gap specification**: every gap `d` carrying `v` is replaced by `⌈d/ε⌉-1` steps of
    length ε carrying the preceding value, then the remainder carrying `v` -/
theorem finer_eq_spec {ε : Rat} (hε : 0 < ε) (z : α) (l : List (Rat × α)) : finer ε z l = finerSpec ε z l :=
  finerLoop_eq_spec hε z _ l le_rfl

/-- **the measure strictly decreases** on every pass of the `while` loop that finds a position -/
theorem finer_measure_decreases {ε : Rat} (hε : 0 < ε) (prev : α) (l : List (Rat × α)) (h : anyGt ε l = true) :
    remaining ε (pass ε prev l) < remaining ε l := (remaining_pass hε prev l).2 h

/-- **the loop terminates**: after `remaining ε l` passes the loop condition is false, and any larger number of passes
    returns the same arrays (the loop has exited) -/
theorem finer_terminates {ε : Rat} (hε : 0 < ε) (z : α) (l : List (Rat × α)) :
    anyGt ε (finer ε z l) = false ∧ ∀ k, remaining ε l ≤ k → finerLoop ε z k l = finer ε z l := by
  constructor
  · rw [anyGt_eq_false_iff, finer_eq_spec hε]; exact mem_finerSpec_le' hε z l
  · intro k hk; rw [finer_eq_spec hε, finerLoop_eq_spec hε z k l hk]

/-- **every step of the returned grid is at most ε** -/
theorem finer_steps_le_eps {ε : Rat} (hε : 0 < ε) (z : α) (l : List (Rat × α)) : ∀ q ∈ finer ε z l, q.1 ≤ ε := by
  rw [finer_eq_spec hε]; exact mem_finerSpec_le' hε z l

/-- … and positive when the original gaps are -/
theorem finer_steps_pos {ε : Rat} (hε : 0 < ε) (z : α) (l : List (Rat × α)) (h : ∀ p ∈ l, 0 < p.1) :
    ∀ q ∈ finer ε z l, 0 < q.1 := by
  rw [finer_eq_spec hε]; exact fun q hq => (mem_finerSpec_le hε z l h q hq).1

theorem finerSpecF_unflag (ε : Rat) (prev : α) (l : List (Rat × α)) :
    (finerSpecF ε prev l).map (fun q => (q.1, q.2.1)) = finerSpec ε prev l := by
  induction l generalizing prev with
  | nil => rfl
  | cons p r ih => simp [finerSpecF, finerSpec, blockF, block, ih]

private theorem pointsF_replicate (ε : Rat) (prev v : α) (k : Nat) (acc rem : Rat) (rest : List (Rat × α × Bool)) :
    ((pointsF acc (List.replicate k (ε, prev, true) ++ (rem, v, false) :: rest)).filter (fun q => !q.2.2)).map
        (fun q => (q.1, q.2.1))
      = (acc + k * ε + rem, v) :: ((pointsF (acc + k * ε + rem) rest).filter (fun q => !q.2.2)).map (fun q => (q.1, q.2.1)) := by
  induction k generalizing acc with
  | zero => simp [pointsF]
  | succ k ih =>
    have e : acc + ε + (k : Rat) * ε + rem = acc + ((k + 1 : Nat) : Rat) * ε + rem := by push_cast; ring
    simp only [List.replicate_succ, List.cons_append, pointsF, List.filter_cons, Bool.not_true, Bool.false_eq_true,
      if_false, ih (acc + ε), e]

/-- **all original jump times and values are kept**: dropping the inserted points from the refined (time, value) list
    gives back exactly the original (time, value) list, in order -/
theorem finer_keeps_points (ε : Rat) (prev : α) (acc : Rat) (l : List (Rat × α)) :
    ((pointsF acc (finerSpecF ε prev l)).filter (fun q => !q.2.2)).map (fun q => (q.1, q.2.1)) = points acc l := by
  induction l generalizing prev acc with
  | nil => rfl
  | cons p r ih =>
    have e : acc + (need ε p.1 : Rat) * ε + (p.1 - need ε p.1 * ε) = acc + p.1 := by ring
    simp only [finerSpecF, blockF, List.append_assoc, List.singleton_append, points]
    rw [pointsF_replicate, e, ih]

/-- inserted points carry step ε and the value of the point before them (`z` before the first point) -/
def InsertedOk (ε : Rat) : α → List (Rat × α × Bool) → Prop
  | _, [] => True
  | prev, q :: r => (q.2.2 = true → q.1 = ε ∧ q.2.1 = prev) ∧ InsertedOk ε q.2.1 r

private theorem insertedOk_replicate (ε : Rat) (prev : α) (k : Nat) (rest : List (Rat × α × Bool))
    (h : InsertedOk ε prev rest) : InsertedOk ε prev (List.replicate k (ε, prev, true) ++ rest) := by
  induction k with
  | zero => simpa using h
  | succ k ih =>
    show InsertedOk ε prev ((ε, prev, true) :: (List.replicate k (ε, prev, true) ++ rest))
    exact ⟨fun _ => ⟨rfl, rfl⟩, ih⟩

/-- **inserted points repeat the value of the preceding point** (and are exactly the points at distance ε before the
    next one) -/
theorem finer_inserted_repeat_previous (ε : Rat) (prev : α) (l : List (Rat × α)) :
    InsertedOk ε prev (finerSpecF ε prev l) := by
  induction l generalizing prev with
  | nil => trivial
  | cons p r ih =>
    simp only [finerSpecF, blockF, List.append_assoc, List.singleton_append]
    apply insertedOk_replicate
    exact ⟨by simp, ih p.2⟩

/-- the original points of the gap list of `(jump times, values)` are the `(jump time, value)` pairs themselves -/
theorem points_toGaps (jt : List Rat) (jv : List α) (h : jt.length = jv.length) :
    points 0 (toGaps jt jv) = List.zip jt jv := by
  have gen : ∀ (p : Rat) (jt : List Rat) (jv : List α), jt.length = jv.length →
      points p (List.zip (diffsFrom p jt) jv) = List.zip jt jv := by
    intro p jt
    induction jt generalizing p with
    | nil => intro jv _; rfl
    | cons x t ih =>
      intro jv hl
      cases jv with
      | nil => simp at hl
      | cons v vs =>
        simp only [diffsFrom, List.zip_cons_cons, points]
        have e : p + (x - p) = x := by ring
        rw [e, ih x vs (by simpa using hl)]
  exact gen 0 jt jv h

/-- **fine and coarse stay aligned**: the positions depend on the gaps only, so running the loop on the pairs
    `(fine, coarse)` is running it on each component — on the same refined times -/
theorem finer_aligned {ε : Rat} (hε : 0 < ε) {β : Type} (g : α → β) (z : α) (l : List (Rat × α)) :
    finer ε (g z) (mapV g l) = mapV g (finer ε z l) := by
  rw [finer_eq_spec hε, finer_eq_spec hε, finerSpec_mapV]

theorem toGaps_zip_fst (jt jf jc : List Rat) (h : jf.length = jc.length) :
    mapV (fun v : Rat × Rat => v.1) (toGaps jt (List.zip jf jc)) = toGaps jt jf := by
  unfold toGaps mapV
  generalize diffsFrom 0 jt = ds
  induction ds generalizing jf jc with
  | nil => rfl
  | cons d t ih =>
    cases jf with
    | nil => cases jc with
      | nil => rfl
      | cons c cs => simp at h
    | cons f fs => cases jc with
      | nil => simp at h
      | cons c cs => simp only [List.zip_cons_cons, List.map_cons]; rw [ih fs cs (by simpa using h)]

theorem toGaps_zip_snd (jt jf jc : List Rat) (h : jf.length = jc.length) :
    mapV (fun v : Rat × Rat => v.2) (toGaps jt (List.zip jf jc)) = toGaps jt jc := by
  unfold toGaps mapV
  generalize diffsFrom 0 jt = ds
  induction ds generalizing jf jc with
  | nil => rfl
  | cons d t ih =>
    cases jf with
    | nil => cases jc with
      | nil => rfl
      | cons c cs => simp at h
    | cons f fs => cases jc with
      | nil => simp at h
      | cons c cs => simp only [List.zip_cons_cons, List.map_cons]; rw [ih fs cs (by simpa using h)]

/-- the coupled output is, component by component, the single-path output **on the same times** -/
theorem coupled_aligned {ε : Rat} (hε : 0 < ε) (T : Rat) (jt jf jc w : List Rat) (h : jf.length = jc.length) :
    (maxStepPair ε T jt jf jc).times = (maxStepCode ε T jt jf w).times ∧
    (maxStepPair ε T jt jf jc).times = (maxStepCode ε T jt jc w).times ∧
    (maxStepPair ε T jt jf jc).fine = (maxStepCode ε T jt jf w).jumps ∧
    (maxStepPair ε T jt jf jc).coarse = (maxStepCode ε T jt jc w).jumps := by
  have hz1 : List.map (fun p : Rat × Rat => p.1) (List.zip jf jc) = jf := List.map_fst_zip (by omega)
  have hz2 : List.map (fun p : Rat × Rat => p.2) (List.zip jf jc) = jc := List.map_snd_zip (by omega)
  unfold maxStepPair maxStepCode
  by_cases he : jt.isEmpty
  · simp only [he, if_true, assemble, hz1, hz2]; simp
  · simp only [he, Bool.false_eq_true, if_false, assemble, buildFiner]
    by_cases hT : T ≤ ε
    · simp only [hT, if_true, hz1, hz2]; simp
    · simp only [hT, if_false, capAll]
      have a1 := finer_aligned hε (fun v : Rat × Rat => v.1) ((0 : Rat), (0 : Rat)) (toGaps jt (List.zip jf jc))
      have a2 := finer_aligned hε (fun v : Rat × Rat => v.2) ((0 : Rat), (0 : Rat)) (toGaps jt (List.zip jf jc))
      rw [toGaps_zip_fst jt jf jc h] at a1
      rw [toGaps_zip_snd jt jf jc h] at a2
      simp only at a1 a2
      rw [a1, a2]
      simp [mapV, List.map_map, Function.comp_def]

/-! ## 5. the cap on the assembled path -/

theorem stepsOf_zero_cumsum (ds : List Rat) : stepsOf (0 :: cumsum ds) = ds := by
  simp [stepsOf, cumsum, diffsFrom_cumsumFrom]

/-- `build_finer_grid` (ε below the maturity): measured from 0, every step of the returned time array is at most ε -/
theorem buildFiner_steps_le_eps {ε T : Rat} (hε : 0 < ε) (hT : ε < T) (z : α) (jt : List Rat) (jv : List α) :
    ∀ s ∈ stepsOf (0 :: (buildFiner ε T z jt jv).1), s ≤ ε := by
  have : ¬ T ≤ ε := not_le.mpr hT
  simp only [buildFiner, this, if_false, capAll, stepsOf_zero_cumsum]
  intro s hs
  simp only [List.mem_map] at hs
  obtain ⟨q, hq, rfl⟩ := hs
  exact finer_steps_le_eps hε z _ q hq

/-- **full strength, specification**: every step of the specified capped path is at most ε, and the path ends at T -/
theorem maxStepSpec_steps_le_eps {ε : Rat} (hε : 0 < ε) (T : Rat) (jt jv w : List Rat) :
    ∀ s ∈ stepsOf (maxStepSpec ε T jt jv w).times, s ≤ ε := by
  simp only [maxStepSpec, capAll, stepsOf_zero_cumsum]
  intro s hs
  simp only [List.mem_map] at hs
  obtain ⟨q, hq, rfl⟩ := hs
  exact finer_steps_le_eps hε 0 _ q hq

theorem map_fst_toGaps (jt : List Rat) (jv : List α) (h : jt.length = jv.length) :
    (toGaps jt jv).map (fun p => p.1) = diffsFrom 0 jt := by
  unfold toGaps
  exact List.map_fst_zip (by simp [h])

theorem maxStepSpec_ends_at_T {ε : Rat} (hε : 0 < ε) (T : Rat) (jt jv w : List Rat) (h : jt.length = jv.length) :
    lastD 0 (maxStepSpec ε T jt jv w).times = T := by
  simp only [maxStepSpec, capAll, lastD, cumsum]
  rw [lastD_cumsumFrom, finer_eq_spec hε, sumL_finerSpec, map_fst_toGaps _ _ (by simp [h])]
  have := sumL_diffsFrom 0 (jt ++ [T])
  rw [lastD_append_singleton] at this
  linarith

theorem stepsOf_frame (ts : List Rat) (T : Rat) :
    stepsOf (0 :: (ts ++ [T])) = diffsFrom 0 ts ++ [T - lastD 0 ts] := by
  simp [stepsOf, diffsFrom_append, diffsFrom]

/-- **partial, code** (#18): when the gap between the last jump and the maturity is itself at most ε, every step of the
    coded capped path is at most ε -/
theorem maxStepCode_steps_le_eps_partial {ε T : Rat} (hε : 0 < ε) (hT : ε < T) (jt jv w : List Rat)
    (hne : jt ≠ []) (hl : jt.length = jv.length) (hlast : T - lastD 0 jt ≤ ε) :
    ∀ s ∈ stepsOf (maxStepCode ε T jt jv w).times, s ≤ ε := by
  have he : jt.isEmpty = false := by cases jt with
    | nil => exact absurd rfl hne
    | cons a t => rfl
  have hnT : ¬ T ≤ ε := not_le.mpr hT
  simp only [maxStepCode, he, Bool.false_eq_true, if_false, assemble, stepsOf_frame]
  intro s hs
  rw [List.mem_append] at hs
  rcases hs with hs | hs
  · have := buildFiner_steps_le_eps hε hT (0 : Rat) jt jv s
    simp only [stepsOf] at this
    exact this hs
  · simp only [List.mem_singleton] at hs
    subst hs
    simp only [buildFiner, hnT, if_false, capAll, cumsum]
    have e : lastD 0 (cumsumFrom 0 (List.map (fun p => p.1) (finer ε (0 : Rat) (toGaps jt jv)))) = lastD 0 jt := by
      rw [lastD_cumsumFrom, finer_eq_spec hε, sumL_finerSpec, map_fst_toGaps _ _ hl]
      exact sumL_diffsFrom 0 jt
    rw [e]; exact hlast

/-- **negation** (#18): ε = 1/10, maturity 1, one jump at 1/2 — the coded path ends with the step 1/2 > ε; and with no
    jump at all the path is `[0, 1]` (step 1 > ε) -/
theorem last_gap_uncapped :
    (maxStepCode (1/10) 1 [1/2] [1] []).times = [0, 1/10, 1/5, 3/10, 2/5, 1/2, 1] ∧
    (1/2 : Rat) ∈ stepsOf (maxStepCode (1/10) 1 [1/2] [1] []).times ∧
    (maxStepCode (1/10) 1 [] [] []).times = [0, 1] ∧
    ¬ (∀ s ∈ stepsOf (maxStepCode (1/10) 1 [1/2] [1] []).times, s ≤ 1/10) := by
  have h : (maxStepCode (1/10) 1 [1/2] [1] []).times = [0, 1/10, 1/5, 3/10, 2/5, 1/2, 1] := by decide +kernel
  refine ⟨h, ?_, by decide +kernel, ?_⟩
  · rw [h]; norm_num [stepsOf, diffsFrom]
  · rw [h]; intro hall
    have := hall (1/2) (by norm_num [stepsOf, diffsFrom])
    norm_num at this

/-- the capped path of the code is strictly increasing and ends at the maturity (jump times strictly increasing in
    (0, T)) -/
theorem maxStep_times_strictInc {ε T : Rat} (hε : 0 < ε) (jt jv w : List Rat) (hl : jt.length = jv.length)
    (hinc : StrictInc (0 :: (jt ++ [T]))) :
    StrictInc (maxStepCode ε T jt jv w).times ∧ lastD 0 (maxStepCode ε T jt jv w).times = T := by
  have hend : ∀ ts : List Rat, lastD 0 (0 :: (ts ++ [T])) = T := fun ts => by
    simp only [lastD]; exact lastD_append_singleton _ _ _
  unfold maxStepCode
  by_cases he : jt.isEmpty
  · simp only [he, if_true, assemble]; exact ⟨hinc, hend _⟩
  · simp only [he, Bool.false_eq_true, if_false, assemble, buildFiner]
    by_cases hT : T ≤ ε
    · simp only [hT, if_true]; exact ⟨hinc, hend _⟩
    · simp only [hT, if_false, capAll]
      refine ⟨?_, hend _⟩
      -- positivity of the original gaps
      unfold StrictInc at hinc
      rw [List.pairwise_cons, List.pairwise_append] at hinc
      obtain ⟨h0, hpj, _, hjT⟩ := hinc
      have hpw : (0 :: jt).Pairwise (· < ·) := by
        rw [List.pairwise_cons]; exact ⟨fun x hx => h0 x (by simp [hx]), hpj⟩
      have hdpos : ∀ (p : Rat) (l : List Rat), (p :: l).Pairwise (· < ·) → ∀ x ∈ diffsFrom p l, 0 < x := by
        intro p l
        induction l generalizing p with
        | nil => intro _ x hx; simp [diffsFrom] at hx
        | cons y t ih =>
          intro hp x hx
          rw [List.pairwise_cons] at hp
          simp only [diffsFrom, List.mem_cons] at hx
          rcases hx with rfl | hx
          · have := hp.1 y (by simp); linarith
          · exact ih y hp.2 x hx
      have hgpos : ∀ p ∈ toGaps jt jv, 0 < p.1 := by
        intro p hp
        have : p.1 ∈ (toGaps jt jv).map (fun q => q.1) := List.mem_map_of_mem hp
        rw [map_fst_toGaps _ _ hl] at this
        exact hdpos 0 jt hpw _ this
      have hspos : ∀ x ∈ (finer ε (0 : Rat) (toGaps jt jv)).map (fun p => p.1), 0 < x := by
        intro x hx
        simp only [List.mem_map] at hx
        obtain ⟨q, hq, rfl⟩ := hx
        exact finer_steps_pos hε 0 _ hgpos q hq
      obtain ⟨c1, c2⟩ := cumsumFrom_pairwise 0 _ hspos
      have c3 := mem_cumsumFrom_le 0 _ (fun x hx => (hspos x hx).le)
      have htot : (0 : Rat) + sumL ((finer ε (0 : Rat) (toGaps jt jv)).map (fun p => p.1)) = lastD 0 jt := by
        rw [finer_eq_spec hε, sumL_finerSpec, map_fst_toGaps _ _ hl]; exact sumL_diffsFrom 0 jt
      have hlastT : lastD 0 jt < T := by
        have hne : jt ≠ [] := by intro h; simp [h] at he
        have hm : lastD 0 jt ∈ jt := by
          rw [lastD_eq_getLast?, List.getLast?_eq_some_getLast hne]
          exact List.getLast_mem hne
        exact hjT _ hm T (by simp)
      apply strictInc_frame T _ (by
        have := h0 T (by simp); exact this) c1
      intro y hy
      exact ⟨c2 y hy, by have := c3 y hy; linarith⟩

/-! ## 6. the coupled copula simulator: its own stacking of the d coordinates, fine and coarse, on shared times

`CouplingProcessLevyCopula` returns arrays of shape `(2, d, n)` on one time array.  The model
(`fixedDatesCopulaPair`, `jumpTimesCopulaPair`, `maxStepCopulaPair`) works on lists of d-vectors as the code does; the
theorems read it coordinate by coordinate: row `c` of the fine (coarse) block is exactly the path the 1-d simulators of
sections 1–5 assemble from the `c`-th coordinates of the fine (coarse) state increments, on the same times. -/

theorem coord_vzero_cons (c : Nat) (l : List V) : coord c (vzero :: l) = 0 :: coord c l := rfl

theorem coord_lastD_vcumsum_slices (c : Nat) (ss : List (List V)) :
    coord c (ss.map (fun s => lastD vzero (vcumsum s))) = (coordSlices c ss).map (fun s => lastD 0 (cumsum s)) := by
  simp only [coord, coordSlices, List.map_map]
  apply List.map_congr_left
  intro s _
  simp only [Function.comp]
  rw [coord_lastD, vcumsum_coord]

/-- **fixed dates**: times are the product dates for both components; row `c` of the fine (coarse) jump block is the
    per-interval value of the 1-d CTMC simulator run on coordinate `c` of the fine (coarse) increments, and row `c` of
    each diffusion block is the running sum of its scaled Brownian increments -/
theorem copula_fixed_coordinate (c : Nat) (dates : List Rat) (iF iC : List (List V)) (wF wC : List V) :
    (⟨(fixedDatesCopulaPair dates iF iC wF wC).times, coord c (fixedDatesCopulaPair dates iF iC wF wC).diffF,
        coord c (fixedDatesCopulaPair dates iF iC wF wC).fine⟩ : PathOut)
      = fixedDatesCtmc dates (coordSlices c iF) (coord c wF) ∧
    (⟨(fixedDatesCopulaPair dates iF iC wF wC).times, coord c (fixedDatesCopulaPair dates iF iC wF wC).diffC,
        coord c (fixedDatesCopulaPair dates iF iC wF wC).coarse⟩ : PathOut)
      = fixedDatesCtmc dates (coordSlices c iC) (coord c wC) := by
  simp only [fixedDatesCopulaPair, fixedDatesCtmc, coord_vzero_cons, vcumsum_coord, coord_lastD_vcumsum_slices, and_self]

/-- **jump-time mode**: one time array `[0] ++ jump times ++ [T]`; row `c` of the fine (coarse) block is the 1-d CTMC
    assembly of the per-interval cumulative sums of coordinate `c` -/
theorem copula_jump_times_coordinate (c : Nat) (T : Rat) (Is : List Interval) (sF sC : List (List V)) (wF wC : List V) :
    (⟨(jumpTimesCopulaPair T Is sF sC wF wC).times, coord c (jumpTimesCopulaPair T Is sF sC wF wC).diffF,
        coord c (jumpTimesCopulaPair T Is sF sC wF wC).fine⟩ : PathOut)
      = assemble T (jumpTimes Is) ((coordSlices c sF).flatMap cumsum) (coord c wF) ∧
    (⟨(jumpTimesCopulaPair T Is sF sC wF wC).times, coord c (jumpTimesCopulaPair T Is sF sC wF wC).diffC,
        coord c (jumpTimesCopulaPair T Is sF sC wF wC).coarse⟩ : PathOut)
      = assemble T (jumpTimes Is) ((coordSlices c sC).flatMap cumsum) (coord c wC) := by
  simp only [jumpTimesCopulaPair, assembleV, assemble, coord_vzero_cons, coord_append, vcumsum_coord,
    jumpValsCopula_coord]
  simp only [coord, List.map_cons, List.map_nil]
  rw [coord_lastD, coord_lastD, jumpValsCopula_coord, jumpValsCopula_coord]
  exact ⟨rfl, rfl⟩

/-- … which is the 1-d CTMC jump-time simulator itself on any interval list with these jump times whose sizes are the
    `c`-th coordinates -/
theorem copula_jump_times_is_ctmc (c : Nat) (T : Rat) (Is Js : List Interval) (sF sC : List (List V)) (wF wC : List V)
    (ht : jumpTimes Js = jumpTimes Is) (hs : Js.map ivSizes = coordSlices c sF) :
    (⟨(jumpTimesCopulaPair T Is sF sC wF wC).times, coord c (jumpTimesCopulaPair T Is sF sC wF wC).diffF,
        coord c (jumpTimesCopulaPair T Is sF sC wF wC).fine⟩ : PathOut) = jumpTimesCtmc T Js (coord c wF) := by
  rw [(copula_jump_times_coordinate c T Is sF sC wF wC).1, jumpTimesCtmc, jumpValsCtmc_eq, ht, hs]

/-- **maximum step**: the ε-insertion acts on the columns (all coordinates, fine and coarse, at one time) — the times
    are those of the 1-d coupled simulator, and row `c` of the fine / coarse block is its fine / coarse output on the
    `c`-th coordinates -/
theorem copula_maxstep_coordinate {ε : Rat} (hε : 0 < ε) (c : Nat) (T : Rat) (jt : List Rat) (jf jc wF wC : List V) :
    (maxStepCopulaPair ε T jt jf jc wF wC).times = (maxStepPair ε T jt (coord c jf) (coord c jc)).times ∧
    coord c (maxStepCopulaPair ε T jt jf jc wF wC).fine = (maxStepPair ε T jt (coord c jf) (coord c jc)).fine ∧
    coord c (maxStepCopulaPair ε T jt jf jc wF wC).coarse = (maxStepPair ε T jt (coord c jf) (coord c jc)).coarse ∧
    coord c (maxStepCopulaPair ε T jt jf jc wF wC).diffF = 0 :: cumsum (coord c wF) ∧
    coord c (maxStepCopulaPair ε T jt jf jc wF wC).diffC = 0 :: cumsum (coord c wC) := by
  obtain ⟨h1, h2, h3⟩ := maxStepPairG_map hε T (fun v : V => v c) vzero jt jf jc
  obtain ⟨g1, g2, g3⟩ := maxStepPair_eq_G ε T jt (coord c jf) (coord c jc)
  refine ⟨?_, ?_, ?_, ?_, ?_⟩
  · rw [g1]; exact h1.symm
  · rw [g2]; exact h2.symm
  · rw [g3]; exact h3.symm
  · simp only [maxStepCopulaPair, coord_vzero_cons, vcumsum_coord]
  · simp only [maxStepCopulaPair, coord_vzero_cons, vcumsum_coord]

/-- … hence each of the `2·d` rows, with the shared times, is the single-path maximum-step output of section 5 -/
theorem copula_maxstep_is_single {ε : Rat} (hε : 0 < ε) (c : Nat) (T : Rat) (jt : List Rat) (jf jc wF wC : List V)
    (h : jf.length = jc.length) :
    (⟨(maxStepCopulaPair ε T jt jf jc wF wC).times, coord c (maxStepCopulaPair ε T jt jf jc wF wC).diffF,
        coord c (maxStepCopulaPair ε T jt jf jc wF wC).fine⟩ : PathOut) = maxStepCode ε T jt (coord c jf) (coord c wF) ∧
    (⟨(maxStepCopulaPair ε T jt jf jc wF wC).times, coord c (maxStepCopulaPair ε T jt jf jc wF wC).diffC,
        coord c (maxStepCopulaPair ε T jt jf jc wF wC).coarse⟩ : PathOut) = maxStepCode ε T jt (coord c jc) (coord c wC) := by
  obtain ⟨h1, h2, h3, h4, h5⟩ := copula_maxstep_coordinate hε c T jt jf jc wF wC
  have hl : (coord c jf).length = (coord c jc).length := by simp [coord, h]
  obtain ⟨a1, _, a3, _⟩ := coupled_aligned hε T jt (coord c jf) (coord c jc) (coord c wF) hl
  obtain ⟨_, b2, _, b4⟩ := coupled_aligned hε T jt (coord c jf) (coord c jc) (coord c wC) hl
  have dF : (maxStepCode ε T jt (coord c jf) (coord c wF)).diff = 0 :: cumsum (coord c wF) := by
    unfold maxStepCode; split <;> rfl
  have dC : (maxStepCode ε T jt (coord c jc) (coord c wC)).diff = 0 :: cumsum (coord c wC) := by
    unfold maxStepCode; split <;> rfl
  constructor
  · rw [h1, h2, h4, a1, a3, ← dF]
  · rw [h1, h3, h5, b2, b4, ← dC]

/-- non-vacuity (d = 2, two product dates, the recorded per-interval fault visible in every row): fine increments
    (1/8, 0), (0, 3/8) in the first interval and (-1/8, 0) in the second -/
example :
    coord 0 (fixedDatesCopulaPair [0, 1/2, 1]
      [[fun c => if c = 0 then 1/8 else 0, fun c => if c = 0 then 0 else 3/8], [fun c => if c = 0 then -1/8 else 0]]
      [[vzero, fun c => if c = 0 then 0 else 1/2], [vzero]] [] []).fine = [0, 1/8, -1/8] := by
  decide +kernel

/-! ## 7. the exact inputs on which the code satisfies the full statements

The recorded faults (#17 per-interval jump sums, #18 uncapped last gap) are delimited by equivalences about the model of
the code *as it is*: outside the stated domain the full statement is false, inside it is true. -/

/-- **fixed dates, full running sums ⇔ every product interval except possibly the last has zero jump sum**
    (direct and CTMC simulators; `allZeroButLast` is the executable decider run by the driver) -/
theorem fixedDates_code_eq_spec_iff (dates w : List Rat) (incs : List (List Rat)) :
    (fixedDatesCode dates incs w = fixedDatesSpec dates incs w ↔ allZeroButLast incs = true) ∧
    (fixedDatesCtmc dates incs w = fixedDatesSpec dates incs w ↔ allZeroButLast incs = true) ∧
    (allZeroButLast incs = true ↔ ∀ s ∈ incs.dropLast, sumL s = 0) := by
  have h1 : fixedDatesCode dates incs w = fixedDatesSpec dates incs w ↔ allZeroButLast incs = true := by
    simp only [fixedDatesCode, fixedDatesSpec, PathOut.mk.injEq, true_and, List.cons.injEq, cumsum, allZeroButLast]
    rw [eq_cumsumFrom_iff]
    constructor
    · rintro (h | ⟨_, h⟩)
      · rw [h]; rfl
      · exact h
    · intro h; exact Or.inr ⟨rfl, h⟩
  refine ⟨h1, by rw [fixedDatesCtmc_eq_code]; exact h1, ?_⟩
  rw [allZeroButLast, zeroButLast_iff]
  have e : (incs.map sumL).dropLast = incs.dropLast.map sumL := by
    simp [List.dropLast_eq_take, List.map_take]
  rw [e]
  constructor
  · intro h s hs; exact h _ (List.mem_map_of_mem hs)
  · intro h x hx
    obtain ⟨s, hs, rfl⟩ := List.mem_map.mp hx
    exact h s hs

/-- **jump-time mode, CTMC: per-interval cumulative sums = the global running sum ⇔ before every interval that has a
    jump the total of all earlier jump sizes is 0** -/
theorem jumpValsCtmc_eq_direct_iff (Is : List Interval) :
    (jumpValsCtmc Is = jumpValsDirect Is ↔ restartFreeB 0 (Is.map ivSizes) = true) ∧
    (restartFreeB 0 (Is.map ivSizes) = true ↔
      ∀ k (hk : k < (Is.map ivSizes).length), (Is.map ivSizes)[k] ≠ [] → sumL ((Is.map ivSizes).take k).flatten = 0) := by
  constructor
  · rw [jumpValsCtmc_eq, jumpValsDirect, cumsum, ← flatMap_cumsum_eq_iff]
    simp [List.flatMap_def]
  · rw [restartFreeB_iff]; simp

/-- the same for the whole returned path -/
theorem jumpTimesCtmc_eq_direct_iff (T : Rat) (Is : List Interval) (w : List Rat) :
    jumpTimesCtmc T Is w = jumpTimesDirect T Is w ↔ restartFreeB 0 (Is.map ivSizes) = true := by
  rw [← (jumpValsCtmc_eq_direct_iff Is).1]
  simp only [jumpTimesCtmc, jumpTimesDirect, assemble, PathOut.mk.injEq, true_and, List.cons.injEq]
  constructor
  · intro h
    have := List.append_inj_left' h (by simp)
    exact this
  · intro h; rw [h]

/-- **maximum step, the cap holds on the whole returned path ⇔ the gap between the last jump (0 when there is none) and
    the maturity is at most ε** (jump times strictly increasing inside (0, T)) -/
theorem maxStepCode_steps_le_eps_iff {ε T : Rat} (hε : 0 < ε) (jt jv w : List Rat) (hl : jt.length = jv.length)
    (hinc : StrictInc (0 :: (jt ++ [T]))) :
    (∀ s ∈ stepsOf (maxStepCode ε T jt jv w).times, s ≤ ε) ↔ T - lastD 0 jt ≤ ε := by
  cases hjt : jt with
  | nil => simp [maxStepCode, assemble, stepsOf, diffsFrom, lastD]
  | cons a t =>
    rw [← hjt]
    have hne : jt ≠ [] := by rw [hjt]; simp
    have he : jt.isEmpty = false := by rw [hjt]; rfl
    -- the last step of the returned path is always T - (last jump time)
    have hlastmem : (T - lastD 0 jt) ∈ stepsOf (maxStepCode ε T jt jv w).times := by
      simp only [maxStepCode, he, Bool.false_eq_true, if_false, assemble, stepsOf_frame, List.mem_append,
        List.mem_singleton]
      right
      simp only [buildFiner]
      split
      · rfl
      · simp only [capAll, cumsum]
        rw [lastD_cumsumFrom, finer_eq_spec hε, sumL_finerSpec, map_fst_toGaps _ _ hl]
        have := sumL_diffsFrom 0 jt
        rw [← this]
    constructor
    · intro h; exact h _ hlastmem
    · intro hlast
      by_cases hT : ε < T
      · exact maxStepCode_steps_le_eps_partial hε hT jt jv w hne hl hlast
      · have hTε : T ≤ ε := not_lt.mp hT
        unfold StrictInc at hinc
        rw [List.pairwise_cons, List.pairwise_append] at hinc
        obtain ⟨h0, hpj, _, hjT⟩ := hinc
        have hpw : (0 :: jt).Pairwise (· < ·) := by
          rw [List.pairwise_cons]; exact ⟨fun x hx => h0 x (by simp [hx]), hpj⟩
        have hm : lastD 0 jt ∈ jt := by
          rw [lastD_eq_getLast?, List.getLast?_eq_some_getLast hne]
          exact List.getLast_mem hne
        have hlt : lastD 0 jt < T := hjT _ hm T (by simp)
        simp only [maxStepCode, he, Bool.false_eq_true, if_false, assemble, buildFiner, hTε, if_true, stepsOf_frame]
        intro s hs
        rw [List.mem_append] at hs
        rcases hs with hs | hs
        · have := diffsFrom_le_span 0 jt hpw s hs; linarith
        · simp only [List.mem_singleton] at hs; subst hs; exact hlast

/-- the coded maximum-step path in one form for all branches (no jump / ε ≥ T / loop): the cap applied to the jump times
    only, then 0 and the maturity added -/
theorem maxStepCode_eq_assemble_capAll {ε T : Rat} (hε : 0 < ε) (jt jv w : List Rat) (hl : jt.length = jv.length)
    (hinc : StrictInc (0 :: (jt ++ [T]))) :
    maxStepCode ε T jt jv w = assemble T (capAll ε 0 jt jv).1 (capAll ε 0 jt jv).2 w := by
  cases hjt : jt with
  | nil =>
    have hjv : jv = [] := by cases jv with
      | nil => rfl
      | cons a t => rw [hjt] at hl; simp at hl
    subst hjv
    simp [maxStepCode, capAll, toGaps, diffsFrom, finer, finerLoop, remaining, cumsum, cumsumFrom]
  | cons a t =>
    rw [← hjt]
    have hne : jt ≠ [] := by rw [hjt]; simp
    have he : jt.isEmpty = false := by rw [hjt]; rfl
    simp only [maxStepCode, he, Bool.false_eq_true, if_false, buildFiner]
    by_cases hT : T ≤ ε
    · simp only [hT, if_true]
      -- identity branch: every gap is ≤ T ≤ ε, the loop inserts nothing
      unfold StrictInc at hinc
      rw [List.pairwise_cons, List.pairwise_append] at hinc
      obtain ⟨h0, hpj, _, hjT⟩ := hinc
      have hpw : (0 :: jt).Pairwise (· < ·) := by
        rw [List.pairwise_cons]; exact ⟨fun x hx => h0 x (by simp [hx]), hpj⟩
      have hm : lastD 0 jt ∈ jt := by
        rw [lastD_eq_getLast?, List.getLast?_eq_some_getLast hne]
        exact List.getLast_mem hne
      have hlt : lastD 0 jt < T := hjT _ hm T (by simp)
      have hgaps : ∀ p ∈ toGaps jt jv, p.1 ≤ ε := by
        intro p hp
        have : p.1 ∈ (toGaps jt jv).map (fun q => q.1) := List.mem_map_of_mem hp
        rw [map_fst_toGaps _ _ hl] at this
        have := diffsFrom_le_span 0 jt hpw _ this
        linarith
      simp only [capAll, finer_eq_spec hε, finerSpec_noop hε 0 _ hgaps, map_fst_toGaps _ _ hl, map_snd_toGaps _ _ hl,
        cumsum, cumsumFrom_diffsFrom]
    · simp only [hT, if_false]

/-- **the whole coded maximum-step path is the specified one ⇔ the gap between the last jump (0 when there is none) and
    the maturity is at most ε** -/
theorem maxStepCode_eq_spec_iff {ε T : Rat} (hε : 0 < ε) (jt jv w : List Rat) (hl : jt.length = jv.length)
    (hinc : StrictInc (0 :: (jt ++ [T]))) :
    maxStepCode ε T jt jv w = maxStepSpec ε T jt jv w ↔ T - lastD 0 jt ≤ ε := by
  constructor
  · intro h
    rw [← maxStepCode_steps_le_eps_iff hε jt jv w hl hinc, h]
    exact maxStepSpec_steps_le_eps hε T jt jv w
  · intro hlast
    rw [maxStepCode_eq_assemble_capAll hε jt jv w hl hinc]
    have hG := toGaps_append_singleton jt jv T (lastD 0 jv) hl
    have hsum : (0 : Rat) + sumL ((finerSpec ε (0 : Rat) (toGaps jt jv)).map (fun q => q.1)) = lastD 0 jt := by
      rw [sumL_finerSpec, map_fst_toGaps _ _ hl]; exact sumL_diffsFrom 0 jt
    have hlastv : lastD 0 ((finerSpec ε (0 : Rat) (toGaps jt jv)).map (fun q => q.2)) = lastD 0 jv := by
      rw [lastD_snd_finerSpec, map_snd_toGaps _ _ hl]
    simp only [maxStepSpec, assemble, capAll, finer_eq_spec hε, hG, finerSpec_append,
      block_of_le hε _ (T - lastD 0 jt, lastD 0 jv) hlast, List.map_append, List.map_cons, List.map_nil, cumsum,
      cumsumFrom_append, cumsumFrom, hlastv]
    have e : (0 : Rat) + sumL ((finerSpec ε (0 : Rat) (toGaps jt jv)).map (fun q => q.1)) + (T - lastD 0 jt) = T := by
      rw [hsum]; ring
    rw [e]

/-- the coupled (1-d and copula) maximum-step simulators share these times: the same equivalence holds for them -/
theorem coupled_steps_le_eps_iff {ε T : Rat} (hε : 0 < ε) (jt jf jc : List Rat) (hl : jt.length = jf.length)
    (hfc : jf.length = jc.length) (hinc : StrictInc (0 :: (jt ++ [T]))) :
    (∀ s ∈ stepsOf (maxStepPair ε T jt jf jc).times, s ≤ ε) ↔ T - lastD 0 jt ≤ ε := by
  rw [(coupled_aligned hε T jt jf jc [] hfc).1]
  exact maxStepCode_steps_le_eps_iff hε jt jf [] hl hinc

theorem copula_steps_le_eps_iff {ε T : Rat} (hε : 0 < ε) (jt : List Rat) (jf jc wF wC : List V)
    (hl : jt.length = jf.length) (hfc : jf.length = jc.length) (hinc : StrictInc (0 :: (jt ++ [T]))) :
    (∀ s ∈ stepsOf (maxStepCopulaPair ε T jt jf jc wF wC).times, s ≤ ε) ↔ T - lastD 0 jt ≤ ε := by
  rw [(copula_maxstep_coordinate hε 0 T jt jf jc wF wC).1]
  exact coupled_steps_le_eps_iff hε jt (coord 0 jf) (coord 0 jc) (by simp [coord, hl]) (by simp [coord, hfc]) hinc

/-- the equivalences read on the rows of the coupled copula output: row `c` of the fine block (with the shared times) is
    the running-sum path of its own increments exactly on the 1-d domains above -/
theorem copula_rows_iff (c : Nat) (dates : List Rat) (iF iC : List (List V)) (wF wC : List V) :
    ((⟨(fixedDatesCopulaPair dates iF iC wF wC).times, coord c (fixedDatesCopulaPair dates iF iC wF wC).diffF,
        coord c (fixedDatesCopulaPair dates iF iC wF wC).fine⟩ : PathOut)
      = fixedDatesSpec dates (coordSlices c iF) (coord c wF) ↔ allZeroButLast (coordSlices c iF) = true) ∧
    ((⟨(fixedDatesCopulaPair dates iF iC wF wC).times, coord c (fixedDatesCopulaPair dates iF iC wF wC).diffC,
        coord c (fixedDatesCopulaPair dates iF iC wF wC).coarse⟩ : PathOut)
      = fixedDatesSpec dates (coordSlices c iC) (coord c wC) ↔ allZeroButLast (coordSlices c iC) = true) := by
  obtain ⟨h1, h2⟩ := copula_fixed_coordinate c dates iF iC wF wC
  rw [h1, h2]
  exact ⟨(fixedDates_code_eq_spec_iff dates (coord c wF) (coordSlices c iF)).2.1,
    (fixedDates_code_eq_spec_iff dates (coord c wC) (coordSlices c iC)).2.1⟩

theorem copula_jump_times_rows_iff (c : Nat) (T : Rat) (Is Js : List Interval) (sF sC : List (List V)) (wF wC : List V)
    (ht : jumpTimes Js = jumpTimes Is) (hs : Js.map ivSizes = coordSlices c sF) :
    (⟨(jumpTimesCopulaPair T Is sF sC wF wC).times, coord c (jumpTimesCopulaPair T Is sF sC wF wC).diffF,
        coord c (jumpTimesCopulaPair T Is sF sC wF wC).fine⟩ : PathOut) = jumpTimesDirect T Js (coord c wF)
      ↔ restartFreeB 0 (coordSlices c sF) = true := by
  rw [copula_jump_times_is_ctmc c T Is Js sF sC wF wC ht hs, jumpTimesCtmc_eq_direct_iff, hs]

/-! non-vacuity of the three equivalences: both sides true, and both sides false -/
example : allZeroButLast [[1/2, -1/2], [], [3]] = true ∧ allZeroButLast [[1/20], []] = false := by decide +kernel
example : restartFreeB 0 [[], [1, -1], [], [2, 3]] = true ∧ restartFreeB 0 [[1], [1]] = false := by decide +kernel
example : StrictInc (0 :: ([1/2, 15/16] ++ [(1 : Rat)])) ∧ (1 : Rat) - lastD 0 [1/2, 15/16] ≤ 1/10 := by
  constructor
  · unfold StrictInc; simp; norm_num
  · norm_num [lastD]

end Rpylib.Path
