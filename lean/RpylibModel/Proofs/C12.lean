/-
C12 — rectangle mass of a copula model is a measure consistent with its margins.   Property theorems only.
Model: RpylibModel/Model/CopulaMass.lean (`massNd` = `_mass_nd`, `mass2d` = `_mass_2d`, `mass3d` = `_mass_3d`, over an
abstract tail-integral family `U I x` = `margin_tail_integral(I, x)`).

All theorems hold for every linearly ordered coordinate type `X` (the driver runs `X = Ext Rat`, see
`Lemmas/C12Order.lean`), every centre `z`, and every commutative ring of values (ordered field for non-negativity).
`VanishAtInf U` — the tail integral family vanishes as soon as one argument is ±∞ — is what C11 groundedness and
`ν(∅) = 0` give for the implementation's family `U_I(x) = F^I(U_i(x_i))`.

New in round 2: additivity / whole-line margins of the general recursion `massNd` for EVERY dimension
(`massNd_additive_split`, `massNd_whole_line`, lemmas in Lemmas/C12Nd.lean); d = 3 non-negativity from a 3-increasing
hypothesis (`mass3d_nonneg_adm`, `mass3d_nonneg`) and, with C11's theorems plugged in, for the Clayton copula with no
hypothesis left on the copula (`clayton_mass3d_nonneg`, `clayton_real_mass3d_nonneg`).

Not proved here (see NOT_PROVED in harness/props/c12.py): non-negativity for d ≥ 4; mass = integral of the joint
density; the root search of `inverse_tail_integral`.
-/
import RpylibModel.Model.CopulaMass
import RpylibModel.Proofs.Lemmas.C12Order
import RpylibModel.Proofs.Lemmas.C12Nd
import RpylibModel.Proofs.Lemmas.C11Margin
import RpylibModel.Proofs.Lemmas.C11Clayton3
import RpylibModel.Proofs.Lemmas.C11Real3
import Mathlib.Tactic.Linarith
import Mathlib.Tactic.Ring
import Mathlib.Tactic.Order
import Mathlib.Order.Fin.Basic
import Mathlib.Algebra.Order.Field.Basic
import Mathlib.Algebra.Order.Field.Rat

set_option linter.unusedSimpArgs false
set_option linter.unusedSectionVars false

namespace Rpylib.CopulaMass
open Rpylib.Copula

variable {X : Type} [LinearOrder X] {R : Type} [CommRing R]

/-- tail integrals vanish as soon as one argument is −∞ or +∞ (groundedness of the copula, `ν_i(∅) = 0`) -/
def VanishAtInf (U : Tail X R) (ni pi : X) : Prop := ∀ I x, (ni ∈ x ∨ pi ∈ x) → U I x = 0

/-! ## The hard-coded fast paths agree with the general formula, every sign pattern -/

/-- d = 2: `_mass_2d = _mass_nd` for every rectangle that does not contain the origin: each coordinate on the negative
    side, on the positive side or straddling (all 8 admissible patterns), finite or infinite end points -/
theorem fast2d_eq_general (U : Tail X R) (z ni pi : X) (H : VanishAtInf U ni pi) (i1 i2 : Nat) (a1 a2 b1 b2 : X)
    (h : ¬ (straddle z a1 b1 = true ∧ straddle z a2 b2 = true)) :
    massNd U z ni pi [i1, i2] [a1, a2] [b1, b2] = mass2d U z [i1, i2] [a1, a2] [b1, b2] := by
  have e1 : ∀ I x, U I [pi, x] = 0 := fun I x => H _ _ (by simp)
  have e2 : ∀ I x, U I [x, pi] = 0 := fun I x => H _ _ (by simp)
  have e3 : ∀ I x, U I [ni, x] = 0 := fun I x => H _ _ (by simp)
  have e4 : ∀ I x, U I [x, ni] = 0 := fun I x => H _ _ (by simp)
  rcases h1 : straddle z a1 b1 <;> rcases h2 : straddle z a2 b2
  case true.true => exact absurd ⟨h1, h2⟩ h
  all_goals
    simp [massNd, zip3, massGo, signedVolume, volume, corners, sumList, mass2d, mass1d, h1, h2, e1, e2, e3, e4]
  all_goals ring

/-- d = 2, box containing the origin (finding): the two formulas differ exactly by the "total mass" term `U [] []`
    that only the general formula has, plus the marginal term the fast path overwrites (`aux =` instead of `+=`) -/
theorem fast2d_origin_box_defect (U : Tail X R) (z ni pi : X) (H : VanishAtInf U ni pi) (i1 i2 : Nat)
    (a1 a2 b1 b2 : X) (h1 : straddle z a1 b1 = true) (h2 : straddle z a2 b2 = true) :
    massNd U z ni pi [i1, i2] [a1, a2] [b1, b2] =
      mass2d U z [i1, i2] [a1, a2] [b1, b2] + U [] [] + mass1d U i2 a2 b2 := by
  have e1 : ∀ I x, U I [pi, x] = 0 := fun I x => H _ _ (by simp)
  have e2 : ∀ I x, U I [x, pi] = 0 := fun I x => H _ _ (by simp)
  have e3 : ∀ I x, U I [ni, x] = 0 := fun I x => H _ _ (by simp)
  have e4 : ∀ I x, U I [x, ni] = 0 := fun I x => H _ _ (by simp)
  have e5 : ∀ I, U I [pi] = 0 := fun I => H _ _ (by simp)
  have e6 : ∀ I, U I [ni] = 0 := fun I => H _ _ (by simp)
  simp [massNd, zip3, massGo, signedVolume, volume, corners, sumList, mass2d, mass1d, h1, h2, e1, e2, e3, e4, e5, e6]
  ring

/-- d = 3: `_mass_3d = _mass_nd` for every rectangle that does not contain the origin (all 26 sign patterns) -/
theorem fast3d_eq_general (U : Tail X R) (z ni pi : X) (H : VanishAtInf U ni pi) (i1 i2 i3 : Nat)
    (a1 a2 a3 b1 b2 b3 : X)
    (h : ¬ (straddle z a1 b1 = true ∧ straddle z a2 b2 = true ∧ straddle z a3 b3 = true)) :
    massNd U z ni pi [i1, i2, i3] [a1, a2, a3] [b1, b2, b3] = mass3d U z [i1, i2, i3] [a1, a2, a3] [b1, b2, b3] := by
  have e1 : ∀ I x, U I [pi, x] = 0 := fun I x => H _ _ (by simp)
  have e2 : ∀ I x, U I [x, pi] = 0 := fun I x => H _ _ (by simp)
  have e3 : ∀ I x, U I [ni, x] = 0 := fun I x => H _ _ (by simp)
  have e4 : ∀ I x, U I [x, ni] = 0 := fun I x => H _ _ (by simp)
  have f1 : ∀ I x y, U I [pi, x, y] = 0 := fun I x y => H _ _ (by simp)
  have f2 : ∀ I x y, U I [x, pi, y] = 0 := fun I x y => H _ _ (by simp)
  have f3 : ∀ I x y, U I [x, y, pi] = 0 := fun I x y => H _ _ (by simp)
  have f4 : ∀ I x y, U I [ni, x, y] = 0 := fun I x y => H _ _ (by simp)
  have f5 : ∀ I x y, U I [x, ni, y] = 0 := fun I x y => H _ _ (by simp)
  have f6 : ∀ I x y, U I [x, y, ni] = 0 := fun I x y => H _ _ (by simp)
  rcases h1 : straddle z a1 b1 <;> rcases h2 : straddle z a2 b2 <;> rcases h3 : straddle z a3 b3
  case true.true.true => exact absurd ⟨h1, h2, h3⟩ h
  all_goals
    simp [massNd, zip3, massGo, signedVolume, volume, corners, sumList, mass3d, mass2d, mass1d, cross, h1, h2, h3,
      e1, e2, e3, e4, f1, f2, f3, f4, f5, f6]
  all_goals ring

/-- the general formula on a 1-element index set is `_mass_1d` when the interval does not straddle -/
theorem general1d_eq (U : Tail X R) (z ni pi : X) (i : Nat) (a b : X) (h : straddle z a b = false) :
    massNd U z ni pi [i] [a] [b] = mass1d U i a b := by
  simp [massNd, zip3, massGo, signedVolume, volume, corners, sumList, mass1d, h]; ring

/-- sub-families: on an index set of size < 3 `_mass_3d` *is* `_mass_2d` on that set (levycopulamodel.py:225-226) -/
theorem mass3d_sub2 (U : Tail X R) (z : X) (i j : Nat) (a1 a2 b1 b2 : X) :
    mass3d U z [i, j] [a1, a2] [b1, b2] = mass2d U z [i, j] [a1, a2] [b1, b2] := rfl

theorem mass3d_sub1 (U : Tail X R) (z : X) (i : Nat) (a b : X) : mass3d U z [i] [a] [b] = mass1d U i a b := rfl

/-! ## Additivity under an axis split -/

/- `straddle_iff`, `straddle_split_pos`, `straddle_split_neg`, `straddle_whole` live in Lemmas/C12Nd.lean -/

/-- d = 2, split of the first side at `c ≠ 0`, rectangle not containing the origin -/
theorem mass2d_additive_split1 (U : Tail X R) (z : X) (i1 i2 : Nat) (a1 a2 b1 b2 c : X) (hac : a1 < c) (hcb : c < b1)
    (hc : c ≠ z) (h : ¬ (straddle z a1 b1 = true ∧ straddle z a2 b2 = true)) :
    mass2d U z [i1, i2] [a1, a2] [b1, b2] =
      mass2d U z [i1, i2] [a1, a2] [c, b2] + mass2d U z [i1, i2] [c, a2] [b1, b2] := by
  rcases lt_or_gt_of_ne hc with hcz | hzc
  · obtain ⟨e1, e2⟩ := straddle_split_neg z a1 b1 c hac hcz
    rw [e2] at h
    rcases h1 : straddle z c b1 <;> rcases h2 : straddle z a2 b2
    case true.true => exact absurd ⟨h1, h2⟩ h
    all_goals simp [mass2d, mass1d, e1, e2, h1, h2]
    all_goals ring
  · obtain ⟨e1, e2⟩ := straddle_split_pos z a1 b1 c hzc hcb
    rw [e2] at h
    rcases h1 : straddle z a1 c <;> rcases h2 : straddle z a2 b2
    case true.true => exact absurd ⟨h1, h2⟩ h
    all_goals simp [mass2d, mass1d, e1, e2, h1, h2]
    all_goals ring

/-- d = 2, split of the second side at `c ≠ 0` -/
theorem mass2d_additive_split2 (U : Tail X R) (z : X) (i1 i2 : Nat) (a1 a2 b1 b2 c : X) (hac : a2 < c) (hcb : c < b2)
    (hc : c ≠ z) (h : ¬ (straddle z a1 b1 = true ∧ straddle z a2 b2 = true)) :
    mass2d U z [i1, i2] [a1, a2] [b1, b2] =
      mass2d U z [i1, i2] [a1, a2] [b1, c] + mass2d U z [i1, i2] [a1, c] [b1, b2] := by
  rcases lt_or_gt_of_ne hc with hcz | hzc
  · obtain ⟨e1, e2⟩ := straddle_split_neg z a2 b2 c hac hcz
    rw [e2] at h
    rcases h1 : straddle z a1 b1 <;> rcases h2 : straddle z c b2
    case true.true => exact absurd ⟨h1, h2⟩ h
    all_goals simp [mass2d, mass1d, e1, e2, h1, h2]
    all_goals ring
  · obtain ⟨e1, e2⟩ := straddle_split_pos z a2 b2 c hzc hcb
    rw [e2] at h
    rcases h1 : straddle z a1 b1 <;> rcases h2 : straddle z a2 c
    case true.true => exact absurd ⟨h1, h2⟩ h
    all_goals simp [mass2d, mass1d, e1, e2, h1, h2]
    all_goals ring

/-- d = 2, split of a straddling side exactly at 0 (finding #30): the piece `(a1, 0]` does not straddle and is
    evaluated with the same `U(0)` as `(0, b1]`; the halves miss exactly the marginal mass of the other coordinate -/
theorem mass2d_split_at_zero_defect (U : Tail X R) (z : X) (i1 i2 : Nat) (a1 a2 b1 b2 : X) (ha : a1 < z) (hb : z < b1)
    (h2 : straddle z a2 b2 = false) :
    mass2d U z [i1, i2] [a1, a2] [b1, b2] =
      mass2d U z [i1, i2] [a1, a2] [z, b2] + mass2d U z [i1, i2] [z, a2] [b1, b2] + mass1d U i2 a2 b2 := by
  have s1 : straddle z a1 b1 = true := by simp [straddle, ha, hb]
  have s2 : straddle z a1 z = false := by simp [straddle]
  have s3 : straddle z z b1 = false := by simp [straddle]
  simp [mass2d, mass1d, s1, s2, s3, h2]; ring

/-- … and it is additive at 0 exactly when that marginal term vanishes -/
theorem mass2d_split_at_zero_iff (U : Tail X R) (z : X) (i1 i2 : Nat) (a1 a2 b1 b2 : X) (ha : a1 < z) (hb : z < b1)
    (h2 : straddle z a2 b2 = false) :
    mass2d U z [i1, i2] [a1, a2] [b1, b2] =
        mass2d U z [i1, i2] [a1, a2] [z, b2] + mass2d U z [i1, i2] [z, a2] [b1, b2] ↔ mass1d U i2 a2 b2 = 0 := by
  rw [mass2d_split_at_zero_defect U z i1 i2 a1 a2 b1 b2 ha hb h2]
  constructor
  · intro h; exact add_eq_left.mp h
  · intro h; rw [h, add_zero]

/-- d = 3, split of the first side at `c ≠ 0`, rectangle not containing the origin -/
theorem mass3d_additive_split1 (U : Tail X R) (z : X) (i1 i2 i3 : Nat) (a1 a2 a3 b1 b2 b3 c : X) (hac : a1 < c)
    (hcb : c < b1) (hc : c ≠ z)
    (h : ¬ (straddle z a1 b1 = true ∧ straddle z a2 b2 = true ∧ straddle z a3 b3 = true)) :
    mass3d U z [i1, i2, i3] [a1, a2, a3] [b1, b2, b3] =
      mass3d U z [i1, i2, i3] [a1, a2, a3] [c, b2, b3] + mass3d U z [i1, i2, i3] [c, a2, a3] [b1, b2, b3] := by
  rcases lt_or_gt_of_ne hc with hcz | hzc
  ·
    obtain ⟨e1, e2⟩ := straddle_split_neg z a1 b1 c hac hcz
    rw [e2] at h
    rcases h1 : straddle z c b1 <;> rcases h2 : straddle z a2 b2 <;> rcases h3 : straddle z a3 b3
    case true.true.true => exact absurd ⟨h1, h2, h3⟩ h
    all_goals simp [mass3d, mass2d, mass1d, cross, e1, e2, h1, h2, h3]
    all_goals ring
  ·
    obtain ⟨e1, e2⟩ := straddle_split_pos z a1 b1 c hzc hcb
    rw [e2] at h
    rcases h1 : straddle z a1 c <;> rcases h2 : straddle z a2 b2 <;> rcases h3 : straddle z a3 b3
    case true.true.true => exact absurd ⟨h1, h2, h3⟩ h
    all_goals simp [mass3d, mass2d, mass1d, cross, e1, e2, h1, h2, h3]
    all_goals ring

/-- d = 3, split of the second side at `c ≠ 0`, rectangle not containing the origin -/
theorem mass3d_additive_split2 (U : Tail X R) (z : X) (i1 i2 i3 : Nat) (a1 a2 a3 b1 b2 b3 c : X) (hac : a2 < c)
    (hcb : c < b2) (hc : c ≠ z)
    (h : ¬ (straddle z a1 b1 = true ∧ straddle z a2 b2 = true ∧ straddle z a3 b3 = true)) :
    mass3d U z [i1, i2, i3] [a1, a2, a3] [b1, b2, b3] =
      mass3d U z [i1, i2, i3] [a1, a2, a3] [b1, c, b3] + mass3d U z [i1, i2, i3] [a1, c, a3] [b1, b2, b3] := by
  rcases lt_or_gt_of_ne hc with hcz | hzc
  ·
    obtain ⟨e1, e2⟩ := straddle_split_neg z a2 b2 c hac hcz
    rw [e2] at h
    rcases h1 : straddle z a1 b1 <;> rcases h2 : straddle z c b2 <;> rcases h3 : straddle z a3 b3
    case true.true.true => exact absurd ⟨h1, h2, h3⟩ h
    all_goals simp [mass3d, mass2d, mass1d, cross, e1, e2, h1, h2, h3]
    all_goals ring
  ·
    obtain ⟨e1, e2⟩ := straddle_split_pos z a2 b2 c hzc hcb
    rw [e2] at h
    rcases h1 : straddle z a1 b1 <;> rcases h2 : straddle z a2 c <;> rcases h3 : straddle z a3 b3
    case true.true.true => exact absurd ⟨h1, h2, h3⟩ h
    all_goals simp [mass3d, mass2d, mass1d, cross, e1, e2, h1, h2, h3]
    all_goals ring

/-- d = 3, split of the third side at `c ≠ 0`, rectangle not containing the origin -/
theorem mass3d_additive_split3 (U : Tail X R) (z : X) (i1 i2 i3 : Nat) (a1 a2 a3 b1 b2 b3 c : X) (hac : a3 < c)
    (hcb : c < b3) (hc : c ≠ z)
    (h : ¬ (straddle z a1 b1 = true ∧ straddle z a2 b2 = true ∧ straddle z a3 b3 = true)) :
    mass3d U z [i1, i2, i3] [a1, a2, a3] [b1, b2, b3] =
      mass3d U z [i1, i2, i3] [a1, a2, a3] [b1, b2, c] + mass3d U z [i1, i2, i3] [a1, a2, c] [b1, b2, b3] := by
  rcases lt_or_gt_of_ne hc with hcz | hzc
  ·
    obtain ⟨e1, e2⟩ := straddle_split_neg z a3 b3 c hac hcz
    rw [e2] at h
    rcases h1 : straddle z a1 b1 <;> rcases h2 : straddle z a2 b2 <;> rcases h3 : straddle z c b3
    case true.true.true => exact absurd ⟨h1, h2, h3⟩ h
    all_goals simp [mass3d, mass2d, mass1d, cross, e1, e2, h1, h2, h3]
    all_goals ring
  ·
    obtain ⟨e1, e2⟩ := straddle_split_pos z a3 b3 c hzc hcb
    rw [e2] at h
    rcases h1 : straddle z a1 b1 <;> rcases h2 : straddle z a2 b2 <;> rcases h3 : straddle z a3 c
    case true.true.true => exact absurd ⟨h1, h2, h3⟩ h
    all_goals simp [mass3d, mass2d, mass1d, cross, e1, e2, h1, h2, h3]
    all_goals ring

/-! ## Every dimension: additivity and margins of the general recursion `_mass_nd` -/

/-- **any d**: `_mass_nd` is additive when side `k` of the rectangle is split at a point `c` other than 0
    (`bl[k] = c`, `ar[k] = c`).  Holds for every tail-integral family, every index list, every sign pattern of the
    other coordinates — also for boxes containing the origin, which the recursion (unlike the fast paths) treats
    consistently.  Proof: induction on the list of coordinates (`massGo_rest_split`). -/
theorem massNd_additive_split (U : Tail X R) (z ni pi : X) (I : List Nat) (a b : List X) (k i : Nat) (ak bk c : X)
    (hI : I[k]? = some i) (ha : a[k]? = some ak) (hb : b[k]? = some bk) (hac : ak < c) (hcb : c < bk) (hc : c ≠ z) :
    massNd U z ni pi I a b = massNd U z ni pi I a (b.set k c) + massNd U z ni pi I (a.set k c) b := by
  obtain ⟨pre, post, h1, h2, -⟩ := zip3_at k I a b i ak bk hI ha hb
  have l := h2 ak c
  have r := h2 c bk
  rw [set_self_of_getElem? a k ak ha] at l
  rw [set_self_of_getElem? b k bk hb] at r
  unfold massNd
  rw [h1, l, r]
  exact massGo_rest_split U z ni pi pre [] post i ak c bk hac hcb hc

/-- **any d**, split exactly at 0 of a straddling side (finding #30): the two halves `(a_k, 0]`, `(0, b_k]` do not
    straddle, so the recursion evaluates them as plain corner sums, and what is lost is exactly
    `mass of the sub-family without k − mass over (b_k, ∞] − mass over (−∞, a_k] − mass over (a_k, b_k] as a plain
    corner sum`; stated for the first coordinate -/
theorem massNd_split_at_zero_defect (U : Tail X R) (z ni pi : X) (i : Nat) (I : List Nat) (ak bk : X) (a b : List X)
    (hak : ak < z) (hbk : z < bk) :
    massNd U z ni pi (i :: I) (ak :: a) (bk :: b) =
      massNd U z ni pi (i :: I) (ak :: a) (z :: b) + massNd U z ni pi (i :: I) (z :: a) (bk :: b) +
        (massNd U z ni pi I a b - massNd U z ni pi (i :: I) (bk :: a) (pi :: b)
          - massNd U z ni pi (i :: I) (ni :: a) (ak :: b)
          - massGo U z ni pi [(i, ak, bk)] (zip3 I a b)) := by
  have s1 : straddle z ak bk = true := by simp [straddle, hak, hbk]
  have s2 : straddle z ak z = false := by simp [straddle]
  have s3 : straddle z z bk = false := by simp [straddle]
  have s4 : straddle z bk pi = false := by simp [straddle, not_lt_of_gt hbk]
  have s5 : straddle z ni ak = false := by simp [straddle, not_lt_of_gt hak]
  simp only [massNd, zip3, massGo, s1, s2, s3, s4, s5, if_true, Bool.false_eq_true, if_false, List.nil_append]
  have h := massGo_done_split U z ni pi (zip3 I a b) [] [] i ak z bk
  simp only [List.nil_append] at h
  rw [h]
  ring

/-- **any d**: a coordinate ranging over the whole line can be erased — the mass of the rectangle with
    `(a_k, b_k] = (−∞, ∞]` is the mass of the sub-family of the other coordinates (`submargin_consistent`, general
    recursion; by iteration: all other coordinates over the whole line ⇒ the one-dimensional marginal mass) -/
theorem massNd_whole_line (U : Tail X R) (z ni pi : X) (hni : ni < z) (hpi : z < pi) (I : List Nat) (a b : List X)
    (k i : Nat) (hI : I[k]? = some i) (ha : a[k]? = some ni) (hb : b[k]? = some pi) :
    massNd U z ni pi I a b = massNd U z ni pi (I.eraseIdx k) (a.eraseIdx k) (b.eraseIdx k) := by
  obtain ⟨pre, post, h1, -, h3⟩ := zip3_at k I a b i ni pi hI ha hb
  unfold massNd
  rw [h1, h3]
  exact massGo_rest_whole U z ni pi hni hpi pre [] post i

/-- **any d**: an empty side `(a_k, a_k]` that does not straddle gives mass 0 (first coordinate) -/
theorem massNd_empty_side (U : Tail X R) (z ni pi : X) (i : Nat) (I : List Nat) (x : X) (a b : List X) :
    massNd U z ni pi (i :: I) (x :: a) (x :: b) = 0 := by
  have s : straddle z x x = false := by
    simp only [straddle, Bool.and_eq_false_iff, decide_eq_false_iff_not]
    rcases lt_or_ge x z with h | h
    · right; exact not_lt_of_gt h
    · left; exact not_lt_of_ge h
  simp only [massNd, zip3, massGo, s, Bool.false_eq_true, if_false, List.nil_append]
  exact massGo_done_degenerate U z ni pi (zip3 I a b) [] [] i x

/-- non-vacuity of `massNd_additive_split` in d = 4 over the driver's coordinate type: second side split at 1/2 -/
example (U : Tail (Ext Rat) Rat) :
    massNd U (.fin 0) .negInf .posInf [0, 1, 2, 3] [.fin (-1), .fin (-1), .negInf, .fin 1]
        [.fin 1, .fin 2, .fin 3, .posInf] =
      massNd U (.fin 0) .negInf .posInf [0, 1, 2, 3] [.fin (-1), .fin (-1), .negInf, .fin 1]
          [.fin 1, .fin (1/2), .fin 3, .posInf] +
        massNd U (.fin 0) .negInf .posInf [0, 1, 2, 3] [.fin (-1), .fin (1/2), .negInf, .fin 1]
          [.fin 1, .fin 2, .fin 3, .posInf] :=
  massNd_additive_split U (.fin 0) .negInf .posInf [0, 1, 2, 3] _ _ 1 1 (.fin (-1)) (.fin 2) (.fin (1/2)) rfl rfl rfl
    (by decide +kernel) (by decide +kernel) (by decide +kernel)

/-! ## Margins: the other coordinates over the whole line -/

/-- d = 2: first coordinate over the whole line ⇒ marginal mass of the second -/
theorem mass2d_whole_line1 (U : Tail X R) (z ni pi : X) (H : VanishAtInf U ni pi) (hni : ni < z) (hpi : z < pi)
    (i1 i2 : Nat) (a2 b2 : X) (h2 : straddle z a2 b2 = false) :
    mass2d U z [i1, i2] [ni, a2] [pi, b2] = mass1d U i2 a2 b2 := by
  have e1 : ∀ I x, U I [pi, x] = 0 := fun I x => H _ _ (by simp)
  have e3 : ∀ I x, U I [ni, x] = 0 := fun I x => H _ _ (by simp)
  simp [mass2d, mass1d, straddle_whole z ni pi hni hpi, h2, e1, e3]

/-- d = 2: second coordinate over the whole line ⇒ marginal mass of the first -/
theorem mass2d_whole_line2 (U : Tail X R) (z ni pi : X) (H : VanishAtInf U ni pi) (hni : ni < z) (hpi : z < pi)
    (i1 i2 : Nat) (a1 b1 : X) :
    mass2d U z [i1, i2] [a1, ni] [b1, pi] = mass1d U i1 a1 b1 := by
  have e2 : ∀ I x, U I [x, pi] = 0 := fun I x => H _ _ (by simp)
  have e4 : ∀ I x, U I [x, ni] = 0 := fun I x => H _ _ (by simp)
  simp [mass2d, mass1d, straddle_whole z ni pi hni hpi, e2, e4]

/-- d = 3: first coordinate over the whole line ⇒ mass of the {2,3} sub-family (`_mass_2d` on the I-margin) -/
theorem mass3d_whole_line1 (U : Tail X R) (z ni pi : X) (H : VanishAtInf U ni pi) (hni : ni < z) (hpi : z < pi)
    (i1 i2 i3 : Nat) (a2 a3 b2 b3 : X) :
    mass3d U z [i1, i2, i3] [ni, a2, a3] [pi, b2, b3] = mass2d U z [i2, i3] [a2, a3] [b2, b3] := by
  have e1 : ∀ I x, U I [pi, x] = 0 := fun I x => H _ _ (by simp)
  have e3 : ∀ I x, U I [ni, x] = 0 := fun I x => H _ _ (by simp)
  have f1 : ∀ I x y, U I [pi, x, y] = 0 := fun I x y => H _ _ (by simp)
  have f4 : ∀ I x y, U I [ni, x, y] = 0 := fun I x y => H _ _ (by simp)
  rcases h2 : straddle z a2 b2 <;> rcases h3 : straddle z a3 b3 <;>
    simp [mass3d, mass2d, mass1d, cross, straddle_whole z ni pi hni hpi, h2, h3, e1, e3, f1, f4]

/-- d = 3: second coordinate over the whole line ⇒ mass of the {1,3} sub-family (rectangle not containing the origin) -/
theorem mass3d_whole_line2 (U : Tail X R) (z ni pi : X) (H : VanishAtInf U ni pi) (hni : ni < z) (hpi : z < pi)
    (i1 i2 i3 : Nat) (a1 a3 b1 b3 : X) (h : ¬ (straddle z a1 b1 = true ∧ straddle z a3 b3 = true)) :
    mass3d U z [i1, i2, i3] [a1, ni, a3] [b1, pi, b3] = mass2d U z [i1, i3] [a1, a3] [b1, b3] := by
  have e1 : ∀ I x, U I [pi, x] = 0 := fun I x => H _ _ (by simp)
  have e2 : ∀ I x, U I [x, pi] = 0 := fun I x => H _ _ (by simp)
  have e3 : ∀ I x, U I [ni, x] = 0 := fun I x => H _ _ (by simp)
  have e4 : ∀ I x, U I [x, ni] = 0 := fun I x => H _ _ (by simp)
  have e5 : ∀ I, U I [pi] = 0 := fun I => H _ _ (by simp)
  have e6 : ∀ I, U I [ni] = 0 := fun I => H _ _ (by simp)
  have f2 : ∀ I x y, U I [x, pi, y] = 0 := fun I x y => H _ _ (by simp)
  have f5 : ∀ I x y, U I [x, ni, y] = 0 := fun I x y => H _ _ (by simp)
  rcases h1 : straddle z a1 b1 <;> rcases h3 : straddle z a3 b3
  case true.true => exact absurd ⟨h1, h3⟩ h
  all_goals
    simp [mass3d, mass2d, mass1d, cross, straddle_whole z ni pi hni hpi, h1, h3, e1, e2, e3, e4, e5, e6, f2, f5]
  all_goals ring

/-- d = 3: third coordinate over the whole line ⇒ mass of the {1,2} sub-family (rectangle not containing the origin) -/
theorem mass3d_whole_line3 (U : Tail X R) (z ni pi : X) (H : VanishAtInf U ni pi) (hni : ni < z) (hpi : z < pi)
    (i1 i2 i3 : Nat) (a1 a2 b1 b2 : X) (h : ¬ (straddle z a1 b1 = true ∧ straddle z a2 b2 = true)) :
    mass3d U z [i1, i2, i3] [a1, a2, ni] [b1, b2, pi] = mass2d U z [i1, i2] [a1, a2] [b1, b2] := by
  have e2 : ∀ I x, U I [x, pi] = 0 := fun I x => H _ _ (by simp)
  have e4 : ∀ I x, U I [x, ni] = 0 := fun I x => H _ _ (by simp)
  have e5 : ∀ I, U I [pi] = 0 := fun I => H _ _ (by simp)
  have e6 : ∀ I, U I [ni] = 0 := fun I => H _ _ (by simp)
  have f3 : ∀ I x y, U I [x, y, pi] = 0 := fun I x y => H _ _ (by simp)
  have f6 : ∀ I x y, U I [x, y, ni] = 0 := fun I x y => H _ _ (by simp)
  rcases h1 : straddle z a1 b1 <;> rcases h2 : straddle z a2 b2
  case true.true => exact absurd ⟨h1, h2⟩ h
  all_goals
    simp [mass3d, mass2d, mass1d, cross, straddle_whole z ni pi hni hpi, h1, h2, e2, e4, e5, e6, f3, f6]
  all_goals ring

/-- d = 3: two coordinates over the whole line ⇒ the one-dimensional marginal mass -/
theorem mass3d_whole_plane (U : Tail X R) (z ni pi : X) (H : VanishAtInf U ni pi) (hni : ni < z) (hpi : z < pi)
    (i1 i2 i3 : Nat) (a3 b3 : X) (h3 : straddle z a3 b3 = false) :
    mass3d U z [i1, i2, i3] [ni, ni, a3] [pi, pi, b3] = mass1d U i3 a3 b3 := by
  rw [mass3d_whole_line1 U z ni pi H hni hpi, mass2d_whole_line1 U z ni pi H hni hpi _ _ _ _ h3]

/-! ## Non-negativity (d = 2) from the 2-increasing property of the copula (C11) -/

section nonneg
variable {Y : Type} [LE Y] {S : Type} [Field S] [LinearOrder S] [IsStrictOrderedRing S]

/-- `F` gives non-negative volume to every rectangle — what C11 proves for the copulas -/
def TwoIncreasing (F : Y → Y → S) : Prop :=
  ∀ y1 y1' y2 y2', y1 ≤ y1' → y2 ≤ y2' → 0 ≤ F y1' y2' + F y1 y2 - F y1 y2' - F y1' y2

/-- d = 2: if the tail-integral family is `U_{12}(x) = F(u_1 x_1, u_2 x_2)` with one-dimensional I-margins
    `U_1(x) = F(u_1 x, ⊤) − F(u_1 x, ⊥)`, `U_2` alike, `F` is 2-increasing and the marginal tail integrals decrease
    along every non-straddling side (`u_k b_k ≤ u_k a_k`), then the coded mass of every rectangle that does not contain
    the origin is non-negative: an orthant rectangle is one `F`-volume, a rectangle with one straddling side the sum of
    two. -/
theorem mass2d_nonneg (U : Tail X S) (z : X) (F : Y → Y → S) (hF : TwoIncreasing F) (bot top : Y)
    (hbot : ∀ y, bot ≤ y) (htop : ∀ y, y ≤ top) (u1 u2 : X → Y) (i1 i2 : Nat)
    (hU : ∀ x1 x2, U [i1, i2] [x1, x2] = F (u1 x1) (u2 x2))
    (hU1 : ∀ x, U [i1] [x] = F (u1 x) top - F (u1 x) bot)
    (hU2 : ∀ x, U [i2] [x] = F top (u2 x) - F bot (u2 x))
    (a1 a2 b1 b2 : X) (m1 : straddle z a1 b1 = false → u1 b1 ≤ u1 a1) (m2 : straddle z a2 b2 = false → u2 b2 ≤ u2 a2)
    (h : ¬ (straddle z a1 b1 = true ∧ straddle z a2 b2 = true)) :
    0 ≤ mass2d U z [i1, i2] [a1, a2] [b1, b2] := by
  rcases h1 : straddle z a1 b1 <;> rcases h2 : straddle z a2 b2
  · simp only [mass2d, mass1d, h1, h2, hU]
    have := hF _ _ _ _ (m1 h1) (m2 h2)
    simp at *; linarith
  · simp only [mass2d, mass1d, h1, h2, hU, hU1]
    have v1 := hF _ _ _ _ (m1 h1) (hbot (u2 a2))
    have v2 := hF _ _ _ _ (m1 h1) (htop (u2 b2))
    simp at *; linarith
  · simp only [mass2d, mass1d, h1, h2, hU, hU2]
    have v1 := hF _ _ _ _ (hbot (u1 a1)) (m2 h2)
    have v2 := hF _ _ _ _ (htop (u1 b1)) (m2 h2)
    simp at *; linarith
  · exact absurd ⟨h1, h2⟩ h

/-- d = 2 with the 2-increasing property restricted to the boxes having a side with `fin` end points (what C11 proves
    on the extended plane: no corner with two infinite entries) -/
def TwoIncreasingAdm (fin : Y → Prop) (F : Y → Y → S) : Prop :=
  ∀ y1 y1' y2 y2', y1 ≤ y1' → y2 ≤ y2' → ((fin y1 ∧ fin y1') ∨ (fin y2 ∧ fin y2')) →
    0 ≤ F y1' y2' + F y1 y2 - F y1 y2' - F y1' y2

theorem mass2d_nonneg_adm (U : Tail X S) (z : X) (fin : Y → Prop) (F : Y → Y → S) (hF : TwoIncreasingAdm fin F)
    (bot top : Y) (hbot : ∀ y, bot ≤ y) (htop : ∀ y, y ≤ top) (u1 u2 : X → Y) (i1 i2 : Nat)
    (hU : ∀ x1 x2, U [i1, i2] [x1, x2] = F (u1 x1) (u2 x2))
    (hU1 : ∀ x, U [i1] [x] = F (u1 x) top - F (u1 x) bot)
    (hU2 : ∀ x, U [i2] [x] = F top (u2 x) - F bot (u2 x))
    (a1 a2 b1 b2 : X) (m1 : straddle z a1 b1 = false → u1 b1 ≤ u1 a1 ∧ fin (u1 b1) ∧ fin (u1 a1))
    (m2 : straddle z a2 b2 = false → u2 b2 ≤ u2 a2 ∧ fin (u2 b2) ∧ fin (u2 a2))
    (h : ¬ (straddle z a1 b1 = true ∧ straddle z a2 b2 = true)) :
    0 ≤ mass2d U z [i1, i2] [a1, a2] [b1, b2] := by
  rcases h1 : straddle z a1 b1 <;> rcases h2 : straddle z a2 b2
  · simp only [mass2d, mass1d, h1, h2, hU, Bool.false_eq_true, if_false]
    have := hF _ _ _ _ (m1 h1).1 (m2 h2).1 (Or.inl (m1 h1).2)
    linarith
  · simp only [mass2d, mass1d, h1, h2, hU, hU1, Bool.false_eq_true, if_false, if_true]
    have v1 := hF _ _ _ _ (m1 h1).1 (hbot (u2 a2)) (Or.inl (m1 h1).2)
    have v2 := hF _ _ _ _ (m1 h1).1 (htop (u2 b2)) (Or.inl (m1 h1).2)
    linarith
  · simp only [mass2d, mass1d, h1, h2, hU, hU2, Bool.false_eq_true, if_false, if_true]
    have v1 := hF _ _ _ _ (hbot (u1 a1)) (m2 h2).1 (Or.inr (m2 h2).2)
    have v2 := hF _ _ _ _ (htop (u1 b1)) (m2 h2).1 (Or.inr (m2 h2).2)
    linarith
  · exact absurd ⟨h1, h2⟩ h

/-! ### d = 3 -/

/-- `F` gives non-negative volume to every box of `Y³` one side of which has both end points in `fin` — the
    3-increasing property as C11 proves it (`fin` = "finite": boxes without an all-infinite corner) -/
def ThreeIncreasingAdm (fin : Y → Prop) (F : Y → Y → Y → S) : Prop :=
  ∀ x x' y y' w w', x ≤ x' → y ≤ y' → w ≤ w' → ((fin x ∧ fin x') ∨ (fin y ∧ fin y') ∨ (fin w ∧ fin w')) →
    0 ≤ F x' y' w' - F x y' w' - F x' y w' - F x' y' w + F x y w' + F x y' w + F x' y w - F x y w

/-- `F` gives non-negative volume to every box of `Y³` — the unrestricted 3-increasing property -/
def ThreeIncreasing (F : Y → Y → Y → S) : Prop := ThreeIncreasingAdm (fun _ => True) F

/-- the tail-integral family of a 3-d copula model: `U_{123} = F(u_1, u_2, u_3)` and the sub-families are the
    I-margins of `F` (`margin`: the complement positions run through ⊥ = −∞, ⊤ = +∞ with the product of signs) -/
structure Family3 (U : Tail X S) (F : Y → Y → Y → S) (bot top : Y) (u1 u2 u3 : X → Y) (i1 i2 i3 : Nat) : Prop where
  h123 : ∀ x1 x2 x3, U [i1, i2, i3] [x1, x2, x3] = F (u1 x1) (u2 x2) (u3 x3)
  h12 : ∀ x1 x2, U [i1, i2] [x1, x2] = F (u1 x1) (u2 x2) top - F (u1 x1) (u2 x2) bot
  h13 : ∀ x1 x3, U [i1, i3] [x1, x3] = F (u1 x1) top (u3 x3) - F (u1 x1) bot (u3 x3)
  h23 : ∀ x2 x3, U [i2, i3] [x2, x3] = F top (u2 x2) (u3 x3) - F bot (u2 x2) (u3 x3)
  h1 : ∀ x, U [i1] [x] = F (u1 x) top top - F (u1 x) top bot - F (u1 x) bot top + F (u1 x) bot bot
  h2 : ∀ x, U [i2] [x] = F top (u2 x) top - F top (u2 x) bot - F bot (u2 x) top + F bot (u2 x) bot
  h3 : ∀ x, U [i3] [x] = F top top (u3 x) - F top bot (u3 x) - F bot top (u3 x) + F bot bot (u3 x)

/-- a non-straddling side: the marginal tail integral decreases along it and is `fin` at both ends -/
def SideOK (fin : Y → Prop) (u : X → Y) (a b : X) : Prop := u b ≤ u a ∧ fin (u b) ∧ fin (u a)

/-- d = 3, no straddling coordinate (orthant box): the coded mass is one `F`-volume -/
theorem mass3d_nonneg_orthant (U : Tail X S) (z : X) (fin : Y → Prop) (F : Y → Y → Y → S)
    (hF : ThreeIncreasingAdm fin F) (bot top : Y)
    (u1 u2 u3 : X → Y) (i1 i2 i3 : Nat) (hU : Family3 U F bot top u1 u2 u3 i1 i2 i3) (a1 a2 a3 b1 b2 b3 : X)
    (h1 : straddle z a1 b1 = false) (h2 : straddle z a2 b2 = false) (h3 : straddle z a3 b3 = false)
    (m1 : SideOK fin u1 a1 b1) (m2 : SideOK fin u2 a2 b2) (m3 : SideOK fin u3 a3 b3) :
    0 ≤ mass3d U z [i1, i2, i3] [a1, a2, a3] [b1, b2, b3] := by
  simp only [mass3d, h1, h2, h3, hU.h123, Bool.false_eq_true, if_false]
  have := hF _ _ _ _ _ _ m1.1 m2.1 m3.1 (Or.inl m1.2)
  linarith

/-- d = 3, exactly one straddling coordinate: the coded mass is the sum of two `F`-volumes
    (`(⊥, u_k a_k]` and `(u_k b_k, ⊤]` in the straddling coordinate) -/
theorem mass3d_nonneg_one (U : Tail X S) (z : X) (fin : Y → Prop) (F : Y → Y → Y → S)
    (hF : ThreeIncreasingAdm fin F) (bot top : Y) (hbot : ∀ y, bot ≤ y) (htop : ∀ y, y ≤ top)
    (u1 u2 u3 : X → Y) (i1 i2 i3 : Nat) (hU : Family3 U F bot top u1 u2 u3 i1 i2 i3) (a1 a2 a3 b1 b2 b3 : X) :
    (straddle z a1 b1 = true → straddle z a2 b2 = false → straddle z a3 b3 = false → SideOK fin u2 a2 b2 →
      SideOK fin u3 a3 b3 → 0 ≤ mass3d U z [i1, i2, i3] [a1, a2, a3] [b1, b2, b3]) ∧
    (straddle z a1 b1 = false → straddle z a2 b2 = true → straddle z a3 b3 = false → SideOK fin u1 a1 b1 →
      SideOK fin u3 a3 b3 → 0 ≤ mass3d U z [i1, i2, i3] [a1, a2, a3] [b1, b2, b3]) ∧
    (straddle z a1 b1 = false → straddle z a2 b2 = false → straddle z a3 b3 = true → SideOK fin u1 a1 b1 →
      SideOK fin u2 a2 b2 → 0 ≤ mass3d U z [i1, i2, i3] [a1, a2, a3] [b1, b2, b3]) := by
  refine ⟨?_, ?_, ?_⟩
  · intro h1 h2 h3 m2 m3
    simp only [mass3d, mass2d, mass1d, cross, h1, h2, h3, hU.h123, hU.h23, Bool.false_eq_true, if_false, if_true]
    have v1 := hF _ _ _ _ _ _ (hbot (u1 a1)) m2.1 m3.1 (Or.inr (Or.inl m2.2))
    have v2 := hF _ _ _ _ _ _ (htop (u1 b1)) m2.1 m3.1 (Or.inr (Or.inl m2.2))
    linarith
  · intro h1 h2 h3 m1 m3
    simp only [mass3d, mass2d, mass1d, cross, h1, h2, h3, hU.h123, hU.h13, Bool.false_eq_true, if_false, if_true]
    have v1 := hF _ _ _ _ _ _ m1.1 (hbot (u2 a2)) m3.1 (Or.inl m1.2)
    have v2 := hF _ _ _ _ _ _ m1.1 (htop (u2 b2)) m3.1 (Or.inl m1.2)
    linarith
  · intro h1 h2 h3 m1 m2
    simp only [mass3d, mass2d, mass1d, cross, h1, h2, h3, hU.h123, hU.h12, Bool.false_eq_true, if_false, if_true]
    have v1 := hF _ _ _ _ _ _ m1.1 m2.1 (hbot (u3 a3)) (Or.inl m1.2)
    have v2 := hF _ _ _ _ _ _ m1.1 m2.1 (htop (u3 b3)) (Or.inl m1.2)
    linarith

/-- d = 3, exactly two straddling coordinates: the coded mass is the sum of four `F`-volumes -/
theorem mass3d_nonneg_two (U : Tail X S) (z : X) (fin : Y → Prop) (F : Y → Y → Y → S)
    (hF : ThreeIncreasingAdm fin F) (bot top : Y) (hbot : ∀ y, bot ≤ y) (htop : ∀ y, y ≤ top)
    (u1 u2 u3 : X → Y) (i1 i2 i3 : Nat) (hU : Family3 U F bot top u1 u2 u3 i1 i2 i3) (a1 a2 a3 b1 b2 b3 : X) :
    (straddle z a1 b1 = true → straddle z a2 b2 = true → straddle z a3 b3 = false → SideOK fin u3 a3 b3 →
      0 ≤ mass3d U z [i1, i2, i3] [a1, a2, a3] [b1, b2, b3]) ∧
    (straddle z a1 b1 = true → straddle z a2 b2 = false → straddle z a3 b3 = true → SideOK fin u2 a2 b2 →
      0 ≤ mass3d U z [i1, i2, i3] [a1, a2, a3] [b1, b2, b3]) ∧
    (straddle z a1 b1 = false → straddle z a2 b2 = true → straddle z a3 b3 = true → SideOK fin u1 a1 b1 →
      0 ≤ mass3d U z [i1, i2, i3] [a1, a2, a3] [b1, b2, b3]) := by
  refine ⟨?_, ?_, ?_⟩
  · intro h1 h2 h3 m3
    simp only [mass3d, mass2d, mass1d, cross, h1, h2, h3, hU.h123, hU.h23, hU.h13, hU.h3, Bool.false_eq_true,
      if_false, if_true]
    have v1 := hF _ _ _ _ _ _ (hbot (u1 a1)) (hbot (u2 a2)) m3.1 (Or.inr (Or.inr m3.2))
    have v2 := hF _ _ _ _ _ _ (hbot (u1 a1)) (htop (u2 b2)) m3.1 (Or.inr (Or.inr m3.2))
    have v3 := hF _ _ _ _ _ _ (htop (u1 b1)) (hbot (u2 a2)) m3.1 (Or.inr (Or.inr m3.2))
    have v4 := hF _ _ _ _ _ _ (htop (u1 b1)) (htop (u2 b2)) m3.1 (Or.inr (Or.inr m3.2))
    linarith
  · intro h1 h2 h3 m2
    simp only [mass3d, mass2d, mass1d, cross, h1, h2, h3, hU.h123, hU.h23, hU.h12, hU.h2, Bool.false_eq_true,
      if_false, if_true]
    have v1 := hF _ _ _ _ _ _ (hbot (u1 a1)) m2.1 (hbot (u3 a3)) (Or.inr (Or.inl m2.2))
    have v2 := hF _ _ _ _ _ _ (hbot (u1 a1)) m2.1 (htop (u3 b3)) (Or.inr (Or.inl m2.2))
    have v3 := hF _ _ _ _ _ _ (htop (u1 b1)) m2.1 (hbot (u3 a3)) (Or.inr (Or.inl m2.2))
    have v4 := hF _ _ _ _ _ _ (htop (u1 b1)) m2.1 (htop (u3 b3)) (Or.inr (Or.inl m2.2))
    linarith
  · intro h1 h2 h3 m1
    simp only [mass3d, mass2d, mass1d, cross, h1, h2, h3, hU.h123, hU.h13, hU.h12, hU.h1, Bool.false_eq_true,
      if_false, if_true]
    have v1 := hF _ _ _ _ _ _ m1.1 (hbot (u2 a2)) (hbot (u3 a3)) (Or.inl m1.2)
    have v2 := hF _ _ _ _ _ _ m1.1 (hbot (u2 a2)) (htop (u3 b3)) (Or.inl m1.2)
    have v3 := hF _ _ _ _ _ _ m1.1 (htop (u2 b2)) (hbot (u3 a3)) (Or.inl m1.2)
    have v4 := hF _ _ _ _ _ _ m1.1 (htop (u2 b2)) (htop (u3 b3)) (Or.inl m1.2)
    linarith

/-- **d = 3: the coded mass of every rectangle that does not contain the origin is non-negative**, if the
    tail-integral family is that of an `F` (`Family3`) that is 3-increasing on the boxes having a side with `fin` end
    points, and along every non-straddling side the marginal tail integral decreases (`u_k b_k ≤ u_k a_k`) between
    `fin` values.  All 26 sign patterns: orthant boxes (one `F`-volume), one straddling coordinate (two), two (four). -/
theorem mass3d_nonneg_adm (U : Tail X S) (z : X) (fin : Y → Prop) (F : Y → Y → Y → S) (hF : ThreeIncreasingAdm fin F)
    (bot top : Y) (hbot : ∀ y, bot ≤ y) (htop : ∀ y, y ≤ top)
    (u1 u2 u3 : X → Y) (i1 i2 i3 : Nat) (hU : Family3 U F bot top u1 u2 u3 i1 i2 i3) (a1 a2 a3 b1 b2 b3 : X)
    (m1 : straddle z a1 b1 = false → SideOK fin u1 a1 b1) (m2 : straddle z a2 b2 = false → SideOK fin u2 a2 b2)
    (m3 : straddle z a3 b3 = false → SideOK fin u3 a3 b3)
    (h : ¬ (straddle z a1 b1 = true ∧ straddle z a2 b2 = true ∧ straddle z a3 b3 = true)) :
    0 ≤ mass3d U z [i1, i2, i3] [a1, a2, a3] [b1, b2, b3] := by
  obtain ⟨o1, o2, o3⟩ := mass3d_nonneg_one U z fin F hF bot top hbot htop u1 u2 u3 i1 i2 i3 hU a1 a2 a3 b1 b2 b3
  obtain ⟨t1, t2, t3⟩ := mass3d_nonneg_two U z fin F hF bot top hbot htop u1 u2 u3 i1 i2 i3 hU a1 a2 a3 b1 b2 b3
  rcases h1 : straddle z a1 b1 <;> rcases h2 : straddle z a2 b2 <;> rcases h3 : straddle z a3 b3
  · exact mass3d_nonneg_orthant U z fin F hF bot top u1 u2 u3 i1 i2 i3 hU a1 a2 a3 b1 b2 b3 h1 h2 h3 (m1 h1) (m2 h2) (m3 h3)
  · exact o3 h1 h2 h3 (m1 h1) (m2 h2)
  · exact o2 h1 h2 h3 (m1 h1) (m3 h3)
  · exact t3 h1 h2 h3 (m1 h1)
  · exact o1 h1 h2 h3 (m2 h2) (m3 h3)
  · exact t2 h1 h2 h3 (m2 h2)
  · exact t1 h1 h2 h3 (m3 h3)
  · exact absurd ⟨h1, h2, h3⟩ h

/-- the unrestricted form: `F` 3-increasing on all boxes, marginal tail integrals decreasing along non-straddling sides -/
theorem mass3d_nonneg (U : Tail X S) (z : X) (F : Y → Y → Y → S) (hF : ThreeIncreasing F) (bot top : Y)
    (hbot : ∀ y, bot ≤ y) (htop : ∀ y, y ≤ top)
    (u1 u2 u3 : X → Y) (i1 i2 i3 : Nat) (hU : Family3 U F bot top u1 u2 u3 i1 i2 i3) (a1 a2 a3 b1 b2 b3 : X)
    (m1 : straddle z a1 b1 = false → u1 b1 ≤ u1 a1) (m2 : straddle z a2 b2 = false → u2 b2 ≤ u2 a2)
    (m3 : straddle z a3 b3 = false → u3 b3 ≤ u3 a3)
    (h : ¬ (straddle z a1 b1 = true ∧ straddle z a2 b2 = true ∧ straddle z a3 b3 = true)) :
    0 ≤ mass3d U z [i1, i2, i3] [a1, a2, a3] [b1, b2, b3] :=
  mass3d_nonneg_adm U z (fun _ => True) F hF bot top hbot htop u1 u2 u3 i1 i2 i3 hU a1 a2 a3 b1 b2 b3
    (fun h1 => ⟨m1 h1, trivial, trivial⟩) (fun h2 => ⟨m2 h2, trivial, trivial⟩) (fun h3 => ⟨m3 h3, trivial, trivial⟩) h

/-! ### non-vacuity of `mass3d_nonneg`: a concrete 3-increasing `F` on the five-point chain ⊥ < −1 < 0 < 1 < ⊤ -/

/-- product of the centred coordinates: grounded, 3-increasing (volume = product of the side lengths) -/
def exF (x y w : Fin 5) : ℚ := ((x.val : ℚ) - 2) * ((y.val : ℚ) - 2) * ((w.val : ℚ) - 2)

/-- marginal tail integral of `δ_{-1} + δ_{1}` coded on the chain (2 is the zero of the chain) -/
def exU1 (x : ℚ) : Fin 5 := if x < -1 then 2 else if x < 0 then 1 else if x < 1 then 3 else 2

def exU : Tail ℚ ℚ := fun I x =>
  match I, x with
  | [0, 1, 2], [x1, x2, x3] => exF (exU1 x1) (exU1 x2) (exU1 x3)
  | [0, 1], [x1, x2] => exF (exU1 x1) (exU1 x2) 4 - exF (exU1 x1) (exU1 x2) 0
  | [0, 2], [x1, x3] => exF (exU1 x1) 4 (exU1 x3) - exF (exU1 x1) 0 (exU1 x3)
  | [1, 2], [x2, x3] => exF 4 (exU1 x2) (exU1 x3) - exF 0 (exU1 x2) (exU1 x3)
  | [0], [x] => exF (exU1 x) 4 4 - exF (exU1 x) 4 0 - exF (exU1 x) 0 4 + exF (exU1 x) 0 0
  | [1], [x] => exF 4 (exU1 x) 4 - exF 4 (exU1 x) 0 - exF 0 (exU1 x) 4 + exF 0 (exU1 x) 0
  | [2], [x] => exF 4 4 (exU1 x) - exF 4 0 (exU1 x) - exF 0 4 (exU1 x) + exF 0 0 (exU1 x)
  | _, _ => 0

theorem exF_threeIncreasing : ThreeIncreasing exF := by
  intro x x' y y' w w' hx hy hw _
  have e : exF x' y' w' - exF x y' w' - exF x' y w' - exF x' y' w + exF x y w' + exF x y' w + exF x' y w - exF x y w =
      ((x'.val : ℚ) - x.val) * ((y'.val : ℚ) - y.val) * ((w'.val : ℚ) - w.val) := by unfold exF; ring
  rw [e]
  have hx' : (x.val : ℚ) ≤ x'.val := by exact_mod_cast hx
  have hy' : (y.val : ℚ) ≤ y'.val := by exact_mod_cast hy
  have hw' : (w.val : ℚ) ≤ w'.val := by exact_mod_cast hw
  exact mul_nonneg (mul_nonneg (sub_nonneg.mpr hx') (sub_nonneg.mpr hy')) (sub_nonneg.mpr hw')

theorem exU_family : Family3 exU exF 0 4 exU1 exU1 exU1 0 1 2 :=
  ⟨fun _ _ _ => rfl, fun _ _ => rfl, fun _ _ => rfl, fun _ _ => rfl, fun _ => rfl, fun _ => rfl, fun _ => rfl⟩

/-- two straddling sides and one side on the positive half line: all hypotheses of `mass3d_nonneg` hold -/
example : 0 ≤ mass3d exU 0 [0, 1, 2] [-2, -2, 1/2] [3, 3, 2] :=
  mass3d_nonneg exU 0 exF exF_threeIncreasing 0 4 (fun y => Fin.zero_le y) (fun y => Fin.le_last y) exU1 exU1 exU1 0 1 2
    exU_family (-2) (-2) (1/2) 3 3 2 (by norm_num [straddle]) (by norm_num [straddle])
    (by intro _; norm_num [exU1]; decide) (by norm_num [straddle])

/-! ### d = 3, the Clayton copula: the hypotheses of `mass3d_nonneg_adm` are theorems of C11 -/

section clayton
variable {K : Type} [Field K] [LinearOrder K] [IsStrictOrderedRing K]

/-- **d = 3 Clayton model, non-negativity of the coded mass with no hypothesis left on the copula.**  For every
    generator pair with `ClaytonGen` and `Slope3` (θ = 1 over ℚ: `gen1`; every θ > 0 over ℝ: `genReal θ`), every
    η ∈ [0,1], every family of finite marginal tail integrals `u_k` that decrease along the non-straddling sides: if the
    tail-integral family is built as `margin_tail_integral` builds it (full index set: `F(u_1,u_2,u_3)`; two indices:
    the I-margin of `F`; one index: the marginal tail integral itself), the coded `_mass_3d` of every rectangle that
    does not contain the origin is ≥ 0. -/
theorem clayton_mass3d_nonneg {G : Gen K} (hG : ClaytonGen G) (h3 : Slope3 G.psi) (eta : K) (h0 : 0 ≤ eta)
    (h1 : eta ≤ 1) (U : Tail X K) (z : X) (u1 u2 u3 : X → K)
    (hU123 : ∀ x1 x2 x3, U [0, 1, 2] [x1, x2, x3] = claytonOf G (1 / 2) eta [.fin (u1 x1), .fin (u2 x2), .fin (u3 x3)])
    (hU12 : ∀ x1 x2, U [0, 1] [x1, x2] = margin (claytonOf G (1 / 2) eta) [0, 1] 3 [.fin (u1 x1), .fin (u2 x2)])
    (hU13 : ∀ x1 x3, U [0, 2] [x1, x3] = margin (claytonOf G (1 / 2) eta) [0, 2] 3 [.fin (u1 x1), .fin (u3 x3)])
    (hU23 : ∀ x2 x3, U [1, 2] [x2, x3] = margin (claytonOf G (1 / 2) eta) [1, 2] 3 [.fin (u2 x2), .fin (u3 x3)])
    (hU1 : ∀ x, U [0] [x] = u1 x) (hU2 : ∀ x, U [1] [x] = u2 x) (hU3 : ∀ x, U [2] [x] = u3 x)
    (a1 a2 a3 b1 b2 b3 : X)
    (m1 : straddle z a1 b1 = false → u1 b1 ≤ u1 a1) (m2 : straddle z a2 b2 = false → u2 b2 ≤ u2 a2)
    (m3 : straddle z a3 b3 = false → u3 b3 ≤ u3 a3)
    (h : ¬ (straddle z a1 b1 = true ∧ straddle z a2 b2 = true ∧ straddle z a3 b3 = true)) :
    0 ≤ mass3d U z [0, 1, 2] [a1, a2, a3] [b1, b2, b3] := by
  let _ : LE (Ext K) := ⟨Ext.LE⟩
  have hF : ThreeIncreasingAdm (fun y : Ext K => y.isInf = false) (F3 G eta) := by
    intro x x' y y' w w' lx ly lw hadm
    exact F3_three_increasing hG h3 eta h0 h1 x x' y y' w w' hadm lx ly lw
  have mg := fun a i hi => claytonOf_margin_d3 hG eta a i hi
  have hU : Family3 U (F3 G eta) .negInf .posInf (fun x => Ext.fin (u1 x)) (fun x => Ext.fin (u2 x))
      (fun x => Ext.fin (u3 x)) 0 1 2 := by
    refine ⟨fun x1 x2 x3 => hU123 x1 x2 x3, ?_, ?_, ?_, ?_, ?_, ?_⟩
    · intro x1 x2; rw [hU12]; simp [margin, marginArgs, slot, findIdx, sumList, F3]; ring
    · intro x1 x3; rw [hU13]; simp [margin, marginArgs, slot, findIdx, sumList, F3]; ring
    · intro x2 x3; rw [hU23]; simp [margin, marginArgs, slot, findIdx, sumList, F3]; ring
    · intro x; rw [hU1]
      have := mg (u1 x) 0 (by norm_num)
      simp [margin, marginArgs, slot, findIdx, sumList] at this
      simp only [F3]; linarith
    · intro x; rw [hU2]
      have := mg (u2 x) 1 (by norm_num)
      simp [margin, marginArgs, slot, findIdx, sumList] at this
      simp only [F3]; linarith
    · intro x; rw [hU3]
      have := mg (u3 x) 2 (by norm_num)
      simp [margin, marginArgs, slot, findIdx, sumList] at this
      simp only [F3]; linarith
  exact mass3d_nonneg_adm U z (fun y : Ext K => y.isInf = false) (F3 G eta) hF .negInf .posInf
    (fun y => by cases y <;> trivial) (fun y => by cases y <;> trivial) _ _ _ 0 1 2 hU a1 a2 a3 b1 b2 b3
    (fun s => ⟨m1 s, rfl, rfl⟩) (fun s => ⟨m2 s, rfl, rfl⟩) (fun s => ⟨m3 s, rfl, rfl⟩) h

/-- **d = 2 Clayton model** (`ClaytonGen` generator pair: θ = 1 over ℚ, every θ > 0 over ℝ; η ∈ [0,1]; finite marginal
    tail integrals decreasing along the non-straddling sides; the family built as `margin_tail_integral` builds it):
    the coded `_mass_2d` of every rectangle that does not contain the origin is ≥ 0 -/
theorem clayton_mass2d_nonneg {G : Gen K} (hG : ClaytonGen G) (eta : K) (h0 : 0 ≤ eta) (h1 : eta ≤ 1) (U : Tail X K)
    (z : X) (u1 u2 : X → K)
    (hU12 : ∀ x1 x2, U [0, 1] [x1, x2] = claytonOf G 1 eta [.fin (u1 x1), .fin (u2 x2)])
    (hU1 : ∀ x, U [0] [x] = u1 x) (hU2 : ∀ x, U [1] [x] = u2 x) (a1 a2 b1 b2 : X)
    (m1 : straddle z a1 b1 = false → u1 b1 ≤ u1 a1) (m2 : straddle z a2 b2 = false → u2 b2 ≤ u2 a2)
    (h : ¬ (straddle z a1 b1 = true ∧ straddle z a2 b2 = true)) :
    0 ≤ mass2d U z [0, 1] [a1, a2] [b1, b2] := by
  let _ : LE (Ext K) := ⟨Ext.LE⟩
  have hF : TwoIncreasingAdm (fun y : Ext K => y.isInf = false) (F2 G eta) := by
    intro x x' y y' lx ly hadm
    exact F2_two_increasing hG eta h0 h1 x x' y y' hadm lx ly
  have mg := fun a i hi => claytonOf_margin_d2 hG eta a i hi
  refine mass2d_nonneg_adm U z (fun y : Ext K => y.isInf = false) (F2 G eta) hF .negInf .posInf
    (fun y => by cases y <;> trivial) (fun y => by cases y <;> trivial) (fun x => Ext.fin (u1 x))
    (fun x => Ext.fin (u2 x)) 0 1 (fun x1 x2 => hU12 x1 x2) ?_ ?_ a1 a2 b1 b2 (fun s => ⟨m1 s, rfl, rfl⟩)
    (fun s => ⟨m2 s, rfl, rfl⟩) h
  · intro x; rw [hU1]
    have := mg (u1 x) 0 (by norm_num)
    simp [margin, marginArgs, slot, findIdx, sumList] at this
    simp only [F2]; linarith
  · intro x; rw [hU2]
    have := mg (u2 x) 1 (by norm_num)
    simp [margin, marginArgs, slot, findIdx, sumList] at this
    simp only [F2]; linarith

/-- every θ > 0, real arithmetic -/
theorem clayton_real_mass3d_nonneg (θ : ℝ) (hθ : 0 < θ) (eta : ℝ) (h0 : 0 ≤ eta) (h1 : eta ≤ 1) (U : Tail X ℝ) (z : X)
    (u1 u2 u3 : X → ℝ)
    (hU123 : ∀ x1 x2 x3, U [0, 1, 2] [x1, x2, x3] =
      claytonOf (genReal θ) (1 / 2) eta [.fin (u1 x1), .fin (u2 x2), .fin (u3 x3)])
    (hU12 : ∀ x1 x2, U [0, 1] [x1, x2] = margin (claytonOf (genReal θ) (1 / 2) eta) [0, 1] 3 [.fin (u1 x1), .fin (u2 x2)])
    (hU13 : ∀ x1 x3, U [0, 2] [x1, x3] = margin (claytonOf (genReal θ) (1 / 2) eta) [0, 2] 3 [.fin (u1 x1), .fin (u3 x3)])
    (hU23 : ∀ x2 x3, U [1, 2] [x2, x3] = margin (claytonOf (genReal θ) (1 / 2) eta) [1, 2] 3 [.fin (u2 x2), .fin (u3 x3)])
    (hU1 : ∀ x, U [0] [x] = u1 x) (hU2 : ∀ x, U [1] [x] = u2 x) (hU3 : ∀ x, U [2] [x] = u3 x)
    (a1 a2 a3 b1 b2 b3 : X)
    (m1 : straddle z a1 b1 = false → u1 b1 ≤ u1 a1) (m2 : straddle z a2 b2 = false → u2 b2 ≤ u2 a2)
    (m3 : straddle z a3 b3 = false → u3 b3 ≤ u3 a3)
    (h : ¬ (straddle z a1 b1 = true ∧ straddle z a2 b2 = true ∧ straddle z a3 b3 = true)) :
    0 ≤ mass3d U z [0, 1, 2] [a1, a2, a3] [b1, b2, b3] :=
  clayton_mass3d_nonneg (genReal_clayton θ hθ) (slope3_genReal θ hθ) eta h0 h1 U z u1 u2 u3 hU123 hU12 hU13 hU23 hU1 hU2
    hU3 a1 a2 a3 b1 b2 b3 m1 m2 m3 h

/-- non-vacuity of `clayton_mass3d_nonneg`: θ = 1, η = 1/2 over ℚ, marginal tail integrals `1/x` (the 1-stable
    margins), the family built exactly as `margin_tail_integral` builds it; two straddling sides -/
def exClaytonU : Tail ℚ ℚ := fun I x =>
  match I, x with
  | [0, 1, 2], [x1, x2, x3] => claytonOf gen1 (1 / 2) (1 / 2) [.fin (1 / x1), .fin (1 / x2), .fin (1 / x3)]
  | [0, 1], [x1, x2] => margin (claytonOf gen1 (1 / 2) (1 / 2)) [0, 1] 3 [.fin (1 / x1), .fin (1 / x2)]
  | [0, 2], [x1, x3] => margin (claytonOf gen1 (1 / 2) (1 / 2)) [0, 2] 3 [.fin (1 / x1), .fin (1 / x3)]
  | [1, 2], [x2, x3] => margin (claytonOf gen1 (1 / 2) (1 / 2)) [1, 2] 3 [.fin (1 / x2), .fin (1 / x3)]
  | [_], [x] => 1 / x
  | _, _ => 0

example : 0 ≤ mass3d exClaytonU 0 [0, 1, 2] [-1, -1, 1] [1, 2, 2] :=
  clayton_mass3d_nonneg gen1_clayton slope3_gen1 (1 / 2) (by norm_num) (by norm_num) exClaytonU 0
    (fun x => 1 / x) (fun x => 1 / x) (fun x => 1 / x) (fun _ _ _ => rfl) (fun _ _ => rfl) (fun _ _ => rfl)
    (fun _ _ => rfl) (fun _ => rfl) (fun _ => rfl) (fun _ => rfl) (-1) (-1) 1 1 2 2
    (by norm_num [straddle]) (by norm_num [straddle]) (by intro _; norm_num) (by norm_num [straddle])

end clayton

end nonneg

/-! ## Negation witness for end points exactly at 0 (finding #30) -/

/-- tail integrals `sign(x)·ν(I(x))`, `sign(0) = +1`, `I(0) = (0,∞)` (numerical/tools.py:9-29) of the measure
    `ν = δ_{-1/2} + δ_{1/2}` -/
def atomsTail : Tail Rat Rat := fun _ x =>
  match x with
  | [x] => if x < -1/2 then 0 else if x < 0 then -1 else if x < 1/2 then 1 else 0
  | _ => 0

/-- the interval `(-1, 0]` carries the atom at −1/2 (true mass 1) but the coded formula returns −1: with the tail
    integral at 0 taken from the right, the mass of a rectangle whose upper end point is 0 is not non-negative -/
theorem mass2d_upper_zero_defect : mass2d atomsTail 0 [0] [-1] [0] = -1 := by
  norm_num [mass2d, mass1d, atomsTail]

/-! ## The driver's instance: `X = Ext Rat` with the coded comparisons -/

/-- non-vacuity / applicability: the generic theorem instantiated at the linear order the driver computes with -/
example (U : Tail (Ext Rat) Rat) (H : VanishAtInf U .negInf .posInf) (a1 a2 b1 b2 : Ext Rat)
    (h : ¬ (straddle (.fin 0) a1 b1 = true ∧ straddle (.fin 0) a2 b2 = true)) :
    massNd U (.fin 0) .negInf .posInf [0, 1] [a1, a2] [b1, b2] = mass2d U (.fin 0) [0, 1] [a1, a2] [b1, b2] :=
  fast2d_eq_general U (.fin 0) .negInf .posInf H 0 1 a1 a2 b1 b2 h

end Rpylib.CopulaMass
