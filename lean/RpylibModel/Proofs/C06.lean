/-
C06 — Sample allocation meets the variance budget; runs stop only on stated criteria.
Property theorems about RpylibModel/Model/Alloc.lean (allocation, bias test) and RpylibModel/Model/Mlmc.lean (loop).
Monotonicity of the loop over all histories: Lemmas/C06Mono.lean; invariance of the allocation under the unit of cost: Lemmas/C06Scale.lean; what the criteria receive at every iteration: Lemmas/C05Iter.lean.
-/
import RpylibModel.Model.Alloc
import RpylibModel.Model.Mlmc
import RpylibModel.Proofs.Lemmas.C06Mono
import RpylibModel.Proofs.Lemmas.C06Scale
import RpylibModel.Proofs.Lemmas.C05Iter
import Mathlib.Tactic.Linarith
import Mathlib.Tactic.Ring
import Mathlib.Tactic.FieldSimp
import Mathlib.Tactic.Positivity
import Mathlib.Algebra.Order.Field.Rat
import Mathlib.Algebra.BigOperators.Group.Finset.Basic
import Mathlib.Algebra.Order.BigOperators.Group.Finset
import Mathlib.Algebra.Order.Floor.Ring
import Mathlib.Analysis.SpecialFunctions.Sqrt

open Finset

namespace Rpylib.Alloc

/-! ### allocation: Σ V_l / N_l ≤ (1 − θ) ε²

Stated once for any linearly ordered field with "root certificates" `a_l · b_l = V_l` (`a_l = √(V_l/C_l)`,
`b_l = √(V_l·C_l)`), then instantiated for ℝ with `Real.sqrt` and positive costs. -/

theorem alloc_budget_roots {K : Type*} [Field K] [LinearOrder K] [IsStrictOrderedRing K]
    (n : ℕ) (a b V N : ℕ → K) (B : K) (hB : 0 < B)
    (ha : ∀ l, 0 ≤ a l) (hb : ∀ l, 0 ≤ b l) (hab : ∀ l, a l * b l = V l)
    (hN : ∀ l, a l * (∑ j ∈ range n, b j) / B ≤ N l) :
    ∑ l ∈ range n, (if 0 < V l then V l / N l else 0) ≤ B := by
  set S := ∑ j ∈ range n, b j with hS
  have hS0 : 0 ≤ S := Finset.sum_nonneg (fun j _ => hb j)
  -- each term is bounded by b_l · B / S
  have key : ∀ l ∈ range n, (if 0 < V l then V l / N l else 0) ≤ (if 0 < V l then b l * B / S else 0) := by
    intro l hl
    split_ifs with hV
    · have hal : 0 < a l := by
        rcases (ha l).lt_or_eq with h | h
        · exact h
        · rw [← hab l, ← h] at hV; simp at hV
      have hbl : 0 < b l := by
        rcases (hb l).lt_or_eq with h | h
        · exact h
        · rw [← hab l, ← h] at hV; simp at hV
      have hSpos : 0 < S := lt_of_lt_of_le hbl (Finset.single_le_sum (fun j _ => hb j) hl)
      have hx : 0 < a l * S / B := by positivity
      have hNpos : 0 < N l := lt_of_lt_of_le hx (hN l)
      calc V l / N l ≤ V l / (a l * S / B) := by
            apply div_le_div_of_nonneg_left hV.le hx (hN l)
        _ = b l * B / S := by rw [← hab l]; field_simp
    · exact le_refl _
  calc ∑ l ∈ range n, (if 0 < V l then V l / N l else 0)
      ≤ ∑ l ∈ range n, (if 0 < V l then b l * B / S else 0) := Finset.sum_le_sum key
    _ ≤ ∑ l ∈ range n, b l * B / S := by
        apply Finset.sum_le_sum; intro l _
        split_ifs
        · exact le_refl _
        · have := hb l; positivity
    _ = (∑ l ∈ range n, b l) * B / S := by simp_rw [mul_div_assoc]; rw [← Finset.sum_mul]
    _ ≤ B := by
        rcases hS0.lt_or_eq with h | h
        · rw [← hS]; field_simp; exact le_refl _
        · rw [← hS, ← h]; simp [hB.le]

/-- **the allocation as coded, over ℝ, for non-negative variances and strictly positive costs**:
    with `N_l = ⌈√(V_l/C_l) · Σ_j √(V_j C_j) / ((1−θ) ε²)⌉`, the estimator variance Σ_{V_l>0} V_l/N_l is at most
    the variance share `(1−θ) ε²`, and every level with positive variance gets at least one sample.
    Full statement of the property ("any non-negative costs, including zeros") does NOT hold: see
    `zero_cost_counterexample`. -/
theorem alloc_budget_partial (n : ℕ) (V C : ℕ → ℝ) (theta eps : ℝ) (hth : theta < 1) (heps : 0 < eps)
    (hV : ∀ l, 0 ≤ V l) (hC : ∀ l, 0 < C l) :
    let B := (1 - theta) * eps ^ 2
    let N : ℕ → ℤ := fun l => ⌈Real.sqrt (V l / C l) * (∑ j ∈ range n, Real.sqrt (V j * C j)) / B⌉
    (∑ l ∈ range n, (if 0 < V l then V l / (N l : ℝ) else 0) ≤ B) ∧
      (∀ l ∈ range n, 0 < V l → 1 ≤ N l) := by
  intro B N
  have hB : 0 < B := by have : 0 < 1 - theta := by linarith
                        positivity
  have hab : ∀ l, Real.sqrt (V l / C l) * Real.sqrt (V l * C l) = V l := by
    intro l
    rw [← Real.sqrt_mul (div_nonneg (hV l) (hC l).le)]
    have hCne : C l ≠ 0 := (hC l).ne'
    have : V l / C l * (V l * C l) = V l * V l := by field_simp
    rw [this, Real.sqrt_mul_self (hV l)]
  refine ⟨?_, ?_⟩
  · exact alloc_budget_roots n (fun l => Real.sqrt (V l / C l)) (fun l => Real.sqrt (V l * C l)) V
      (fun l => (N l : ℝ)) B hB (fun l => Real.sqrt_nonneg _) (fun l => Real.sqrt_nonneg _) hab
      (fun l => Int.le_ceil _)
  · intro l hl hVl
    have h1 : 0 < Real.sqrt (V l / C l) := Real.sqrt_pos.mpr (div_pos hVl (hC l))
    have h2 : 0 < Real.sqrt (V l * C l) := Real.sqrt_pos.mpr (mul_pos hVl (hC l))
    have hS : 0 < ∑ j ∈ range n, Real.sqrt (V j * C j) :=
      lt_of_lt_of_le h2 (Finset.single_le_sum (f := fun j => Real.sqrt (V j * C j)) (fun j _ => Real.sqrt_nonneg _) hl)
    have : 0 < Real.sqrt (V l / C l) * (∑ j ∈ range n, Real.sqrt (V j * C j)) / B := by positivity
    exact Int.one_le_ceil_iff.mpr this

/-- executable model = the formula of the theorem (ℚ, roots given): each `N_l` is the ceiling of `a_l·S/B` -/
theorem allocFromRoots_ge (a b : List Rat) (B : Rat) (l : ℕ) (hl : l < a.length) :
    a[l] * listSum b / B ≤ ((allocFromRoots a b B)[l]'(by simpa [allocFromRoots] using hl) : ℤ) := by
  simp only [allocFromRoots, List.getElem_map]
  exact Rat.le_ceil

/-- a zero-cost level with positive variance gets one sample whatever the budget: V/N = V is unbounded.
    (`v = [1/32, 1/100]`, `c = [0, √2·…]` in root form: costs (0, 4), ε = 1/100, θ = 1/4.) Witness of finding
    C06-zero-cost-level, replayed on the implementation by the harness. -/
theorem zero_cost_counterexample :
    giles (1/4) (1/100) [1/32, 1/100] [0, 2] = [1, 2] ∧ (1/32 : Rat) * (1/32) / 1 > (3/4) * (1/100) * (1/100) := by
  constructor
  · decide +kernel
  · norm_num

/-! ### budget split of rmse²: see RpylibModel/ProofsGen/C06Budget.lean (re-checked against constants measured on the running code) -/

/-- the bias test is monotone: a smaller remainder is accepted whenever a larger one is -/
theorem criteria_monotone (st q m1 m2 m3 m1' rmse : Rat) (hq : 1 < q) (h : m1' ≤ m1)
    (hc : criteria st q m1 m2 m3 rmse = true) : criteria st q m1' m2 m3 rmse = true := by
  unfold criteria at *
  simp only [decide_eq_true_eq] at *
  have hq1 : 0 < q - 1 := by linarith
  have : max m1' (max (m2 / q) (m3 / (q * q))) ≤ max m1 (max (m2 / q) (m3 / (q * q))) := max_le_max_right _ h
  calc max m1' (max (m2 / q) (m3 / (q * q))) / (q - 1) ≤ max m1 (max (m2 / q) (m3 / (q * q))) / (q - 1) :=
        div_le_div_of_nonneg_right this hq1.le
    _ ≤ st * rmse := hc

end Rpylib.Alloc

namespace Rpylib.Mlmc

def demoProcC06 : Proc := ⟨fun l k => l + (k + 1) / 1024, fun l k => l - 1 + (k + 1) / 2048, fun l => 2 ^ l⟩

/-! ### the adaptive loop -/

/-- never a level above the configured maximum -/
def Bounded (s : St) : Prop := s.L ≤ s.levelMax

private theorem loopHead_cases (s : St) : loopHead s = .cont s ∨ loopHead s = .ret s := by
  unfold loopHead; split
  · left; rfl
  · right; rfl

theorem iter_bounded (p : Proc) (o : Oracle) (s : St) (h : Bounded s) :
    match iter p o s with
    | .cont s' => Bounded s' ∧ s'.levelMax = s.levelMax
    | .ret s' => Bounded s' ∧ s'.levelMax = s.levelMax := by
  unfold iter
  simp only
  have hL : (setDN o.Ns (afterPasses p s)).L = s.L := rfl
  have hM : (setDN o.Ns (afterPasses p s)).levelMax = s.levelMax := rfl
  by_cases hsm : small (setDN o.Ns (afterPasses p s)) = true
  · rw [if_pos hsm]
    by_cases hcv : (o.conv || (setDN o.Ns (afterPasses p s)).L == (setDN o.Ns (afterPasses p s)).levelMax) = true
    · rw [if_pos hcv]; exact ⟨h, rfl⟩
    · rw [if_neg hcv]
      have hne : s.L ≠ s.levelMax := by
        intro he; apply hcv; simp [hL, hM, he]
      have hb : s.L + 1 ≤ s.levelMax := by unfold Bounded at h; omega
      rcases loopHead_cases (extendAll (setDN o.Ns2 (addLevel (setDN o.Ns (afterPasses p s))))) with hh | hh <;>
        rw [hh] <;> exact ⟨hb, rfl⟩
  · rw [if_neg hsm]
    rcases loopHead_cases (extendAll (setDN o.Ns (afterPasses p s))) with hh | hh <;> rw [hh] <;> exact ⟨h, rfl⟩

/-- **never above the maximum level**, for every history -/
theorem run_never_above_max (p : Proc) (os : List Oracle) (s : St) (h : Bounded s) :
    match run p os s with
    | .cont s' => s'.L ≤ s.levelMax
    | .ret s' => s'.L ≤ s.levelMax := by
  induction os generalizing s with
  | nil => exact h
  | cons o os ih =>
    have hi := iter_bounded p o s h
    unfold run
    cases hit : iter p o s with
    | cont s' =>
      rw [hit] at hi
      have := ih s' hi.1
      rw [hi.2] at this; exact this
    | ret s' => rw [hit] at hi; have := hi.1; unfold Bounded at this; rw [hi.2] at this; exact this

/-- the two ways an iteration can return: (a) the stated one — every level within the 1 % rule of its optimal size
    and (bias test passed or maximum level reached); (b) falling out of `while sum(dNl) > 0` with nothing left to do. -/
theorem iter_ret_only_if (p : Proc) (o : Oracle) (s : St) (s' : St) (h : iter p o s = .ret s') :
    (small (setDN o.Ns (afterPasses p s)) = true ∧ (o.conv = true ∨ s.L = s.levelMax)) ∨ sumDN s' = 0 := by
  unfold iter loopHead at h
  simp only at h
  by_cases hsm : small (setDN o.Ns (afterPasses p s)) = true
  · rw [if_pos hsm] at h
    by_cases hcv : (o.conv || (setDN o.Ns (afterPasses p s)).L == (setDN o.Ns (afterPasses p s)).levelMax) = true
    · left; refine ⟨hsm, ?_⟩
      simp only [Bool.or_eq_true, beq_iff_eq] at hcv
      exact hcv
    · rw [if_neg hcv] at h
      right
      split at h
      · cases h
      · injection h with h; subst h; omega
  · rw [if_neg hsm] at h
    right
    split at h
    · cases h
    · injection h with h; subst h; omega

/-- **the fall-through exit is real** (finding C06-fallthrough-exit): after a level is added whose optimal size is
    already met by its counter and no other level needs samples, `Engine.price` returns without the bias test having
    passed and below the maximum level. History: one iteration, `conv = false`, `Ns = Ns2 = 0`. -/
theorem fallthrough_counterexample :
    (match price demoProcC06 1 2 6 0 [⟨[2, 2], false, [2, 2, 0]⟩] with
     | .ret s => s.L == 2 && decide (s.L < s.levelMax) && ((s.lv 2).N == 0)
     | _ => false) = true := by
  decide +kernel

/-! ### termination: with bounded optimal sizes the loop returns within a bounded number of iterations -/

/-- what level l will hold after the next pass -/
def target (s : St) (l : Nat) : Nat := (s.lv l).N + (s.lv l).dN

/-- progress measure at the loop head: total number of samples after the coming passes -/
def potential (s : St) : Nat := ((List.range (s.L + 1)).map (target s)).sum

/-- all optimal sizes the criteria ever return are at most B -/
def OracleBd (B : Nat) (o : Oracle) : Prop := (∀ l, o.Ns.getD l 0 ≤ B) ∧ (∀ l, o.Ns2.getD l 0 ≤ B)

def StBd (B : Nat) (s : St) : Prop := s.L ≤ s.levelMax ∧ s.newInit = 0 ∧ ∀ l, l ≤ s.L → target s l ≤ B

private theorem sum_range_le (n B : Nat) (f : Nat → Nat) (h : ∀ l, l < n → f l ≤ B) :
    ((List.range n).map f).sum ≤ n * B := by
  induction n with
  | zero => simp
  | succ n ih =>
    rw [List.range_succ, List.map_append, List.sum_append]
    have := ih (fun l hl => h l (by omega))
    have := h n (by omega)
    simp only [List.map_cons, List.map_nil, List.sum_cons, List.sum_nil]
    nlinarith

private theorem sum_range_add (n : Nat) (f g : Nat → Nat) :
    ((List.range n).map (fun l => f l + g l)).sum = ((List.range n).map f).sum + ((List.range n).map g).sum := by
  induction n with
  | zero => simp
  | succ n ih => simp only [List.range_succ, List.map_append, List.sum_append, ih, List.map_cons, List.map_nil,
      List.sum_cons, List.sum_nil]; omega

private theorem sum_range_congr (n : Nat) (f g : Nat → Nat) (h : ∀ l, l < n → f l = g l) :
    ((List.range n).map f).sum = ((List.range n).map g).sum := by
  congr 1; apply List.map_congr_left; intro l hl; exact h l (List.mem_range.mp hl)

theorem potential_le (B : Nat) (s : St) (h : StBd B s) : potential s ≤ (s.levelMax + 1) * B := by
  unfold potential
  have h1 := sum_range_le (s.L + 1) B (target s) (fun l hl => h.2.2 l (by omega))
  have : (s.L + 1) * B ≤ (s.levelMax + 1) * B := Nat.mul_le_mul_right _ (by have := h.1; omega)
  omega

private theorem loopHead_cont (x s' : St) (h : loopHead x = .cont s') : s' = x ∧ 0 < sumDN x := by
  unfold loopHead at h
  split at h
  · injection h with h; exact ⟨h.symm, by omega⟩
  · cases h

/-- one more iteration strictly increases the potential and keeps the bounds -/
theorem iter_progress (p : Proc) (B : Nat) (o : Oracle) (s s' : St) (hb : StBd B s) (ho : OracleBd B o)
    (h : iter p o s = .cont s') : potential s + 1 ≤ potential s' ∧ StBd B s' ∧ s'.levelMax = s.levelMax := by
  unfold iter at h
  simp only at h
  by_cases hsm : small (setDN o.Ns (afterPasses p s)) = true
  · rw [if_pos hsm] at h
    by_cases hcv : (o.conv || (setDN o.Ns (afterPasses p s)).L == (setDN o.Ns (afterPasses p s)).levelMax) = true
    · rw [if_pos hcv] at h; cases h
    · rw [if_neg hcv] at h
      obtain ⟨rfl, hpos⟩ := loopHead_cont _ _ h
      have hne : s.L ≠ s.levelMax := by
        intro he; apply hcv
        have : (setDN o.Ns (afterPasses p s)).L = (setDN o.Ns (afterPasses p s)).levelMax := he
        simp [this]
      have hN : ∀ l, l ≤ s.L →
          target (extendAll (setDN o.Ns2 (addLevel (setDN o.Ns (afterPasses p s))))) l
            = target s l + (o.Ns2.getD l 0 - target s l) := by
        intro l hl
        have h1 : l ≤ s.L + 1 := by omega
        have h2 : l ≠ s.L + 1 := by omega
        simp [target, extendAll, extendLvl, setDN, addLevel, afterPasses, passLvl, hl, h1, h2]
      have hnew : target (extendAll (setDN o.Ns2 (addLevel (setDN o.Ns (afterPasses p s))))) (s.L + 1)
            = o.Ns2.getD (s.L + 1) 0 := by
        have h0 : s.newInit = 0 := hb.2.1
        simp [target, extendAll, extendLvl, setDN, addLevel, afterPasses, h0]
      refine ⟨?_, ⟨?_, hb.2.1, ?_⟩, rfl⟩
      · -- potential grows by the number of samples still to do, which is positive
        have hL : (extendAll (setDN o.Ns2 (addLevel (setDN o.Ns (afterPasses p s))))).L = s.L + 1 := rfl
        have hsum : potential (extendAll (setDN o.Ns2 (addLevel (setDN o.Ns (afterPasses p s)))))
            = potential s + sumDN (extendAll (setDN o.Ns2 (addLevel (setDN o.Ns (afterPasses p s))))) := by
          unfold potential sumDN
          rw [hL, List.range_succ (n := s.L + 1), List.map_append, List.map_append, List.sum_append, List.sum_append]
          simp only [List.map_cons, List.map_nil, List.sum_cons, List.sum_nil, Nat.add_zero]
          rw [hnew]
          have e1 : ((List.range (s.L + 1)).map (target (extendAll (setDN o.Ns2 (addLevel (setDN o.Ns (afterPasses p s))))))).sum
              = ((List.range (s.L + 1)).map (fun l => target s l + (o.Ns2.getD l 0 - target s l))).sum :=
            sum_range_congr _ _ _ (fun l hl => hN l (by omega))
          have e2 : ((List.range (s.L + 1)).map (fun l => ((extendAll (setDN o.Ns2 (addLevel (setDN o.Ns (afterPasses p s))))).lv l).dN)).sum
              = ((List.range (s.L + 1)).map (fun l => o.Ns2.getD l 0 - target s l)).sum := by
            apply sum_range_congr; intro l hl
            have h1 : l ≤ s.L + 1 := by omega
            have h2 : l ≠ s.L + 1 := by omega
            have h3 : l ≤ s.L := by omega
            simp [target, extendAll, extendLvl, setDN, addLevel, afterPasses, passLvl, h1, h2, h3]
          have e3 : ((extendAll (setDN o.Ns2 (addLevel (setDN o.Ns (afterPasses p s))))).lv (s.L + 1)).dN = o.Ns2.getD (s.L + 1) 0 := by
            have h0 : s.newInit = 0 := hb.2.1
            simp [extendAll, extendLvl, setDN, addLevel, afterPasses, h0]
          rw [e1, e2, e3, sum_range_add]; omega
        omega
      · show s.L + 1 ≤ s.levelMax
        have := hb.1; omega
      · intro l hl
        have hl' : l ≤ s.L + 1 := hl
        rcases Nat.lt_or_ge l (s.L + 1) with h1 | h1
        · rw [hN l (by omega)]
          have := hb.2.2 l (by omega); have := ho.2 l; omega
        · have : l = s.L + 1 := by omega
          subst this; rw [hnew]; exact ho.2 _
  · rw [if_neg hsm] at h
    obtain ⟨rfl, hpos⟩ := loopHead_cont _ _ h
    have hN : ∀ l, l ≤ s.L →
        target (extendAll (setDN o.Ns (afterPasses p s))) l = target s l + (o.Ns.getD l 0 - target s l) := by
      intro l hl
      simp [target, extendAll, extendLvl, setDN, afterPasses, passLvl, hl]
    refine ⟨?_, ⟨hb.1, hb.2.1, ?_⟩, rfl⟩
    · have hsum : potential (extendAll (setDN o.Ns (afterPasses p s)))
          = potential s + sumDN (extendAll (setDN o.Ns (afterPasses p s))) := by
        unfold potential sumDN
        have hL : (extendAll (setDN o.Ns (afterPasses p s))).L = s.L := rfl
        rw [hL]
        have e1 : ((List.range (s.L + 1)).map (target (extendAll (setDN o.Ns (afterPasses p s))))).sum
            = ((List.range (s.L + 1)).map (fun l => target s l + (o.Ns.getD l 0 - target s l))).sum :=
          sum_range_congr _ _ _ (fun l hl => hN l (by omega))
        have e2 : ((List.range (s.L + 1)).map (fun l => ((extendAll (setDN o.Ns (afterPasses p s))).lv l).dN)).sum
            = ((List.range (s.L + 1)).map (fun l => o.Ns.getD l 0 - target s l)).sum := by
          apply sum_range_congr; intro l hl
          have h3 : l ≤ s.L := by omega
          simp [target, extendAll, extendLvl, setDN, afterPasses, passLvl, h3]
        rw [e1, e2, sum_range_add]
      omega
    · intro l hl
      have hl' : l ≤ s.L := hl
      rw [hN l hl']
      have := hb.2.2 l hl'; have := ho.1 l; omega

/-- **termination**: if every optimal size the criteria return is at most B, `Engine.price` returns after at most
    `(level_max + 1)·B + 1` iterations of its loop, whatever the verdicts and sizes are. -/
theorem run_terminates (p : Proc) (B : Nat) (os : List Oracle) (s : St) (hb : StBd B s)
    (ho : ∀ o ∈ os, OracleBd B o) (hlen : (s.levelMax + 1) * B + 1 ≤ os.length + potential s) :
    ∃ s', run p os s = .ret s' := by
  induction os generalizing s with
  | nil =>
    have := potential_le B s hb
    simp at hlen; omega
  | cons o os ih =>
    unfold run
    cases hit : iter p o s with
    | ret s' => exact ⟨s', rfl⟩
    | cont s' =>
      obtain ⟨hp, hb', hm⟩ := iter_progress p B o s s' hb (ho o (by simp)) hit
      apply ih s' hb' (fun q hq => ho q (by simp [hq]))
      rw [hm]; simp only [List.length_cons] at hlen; omega

end Rpylib.Mlmc
