/-
C06 — Sample allocation meets the variance budget; runs stop only on stated criteria.
Property theorems about RpylibModel/Model/Alloc.lean (allocation, bias test) and RpylibModel/Model/Mlmc.lean (loop).
-/
import RpylibModel.Model.Alloc
import RpylibModel.Model.Mlmc
import Mathlib.Tactic.Linarith
import Mathlib.Tactic.Ring
import Mathlib.Tactic.FieldSimp
import Mathlib.Tactic.Positivity
import Mathlib.Algebra.Order.Field.Rat
import Mathlib.Algebra.BigOperators.Group.Finset.Basic
import Mathlib.Algebra.Order.BigOperators.Group.Finset
import Mathlib.Algebra.Order.Floor.Ring
import Mathlib.Analysis.SpecialFunctions.Sqrt

open Finset

namespace Rpylib.Alloc

/-! ### allocation: Σ V_l / N_l ≤ (1 − θ) ε²

Stated once for any linearly ordered field with "root certificates" `a_l · b_l = V_l` (`a_l = √(V_l/C_l)`,
`b_l = √(V_l·C_l)`), then instantiated for ℝ with `Real.sqrt` and positive costs. -/

theorem alloc_budget_roots {K : Type*} [Field K] [LinearOrder K] [IsStrictOrderedRing K]
    (n : ℕ) (a b V N : ℕ → K) (B : K) (hB : 0 < B)
    (ha : ∀ l, 0 ≤ a l) (hb : ∀ l, 0 ≤ b l) (hab : ∀ l, a l * b l = V l)
    (hN : ∀ l, a l * (∑ j ∈ range n, b j) / B ≤ N l) :
    ∑ l ∈ range n, (if 0 < V l then V l / N l else 0) ≤ B := by
  set S := ∑ j ∈ range n, b j with hS
  have hS0 : 0 ≤ S := Finset.sum_nonneg (fun j _ => hb j)
  -- each term is bounded by b_l · B / S
  have key : ∀ l ∈ range n, (if 0 < V l then V l / N l else 0) ≤ (if 0 < V l then b l * B / S else 0) := by
    intro l hl
    split_ifs with hV
    · have hal : 0 < a l := by
        rcases (ha l).lt_or_eq with h | h
        · exact h
        · rw [← hab l, ← h] at hV; simp at hV
      have hbl : 0 < b l := by
        rcases (hb l).lt_or_eq with h | h
        · exact h
        · rw [← hab l, ← h] at hV; simp at hV
      have hSpos : 0 < S := lt_of_lt_of_le hbl (Finset.single_le_sum (fun j _ => hb j) hl)
      have hx : 0 < a l * S / B := by positivity
      have hNpos : 0 < N l := lt_of_lt_of_le hx (hN l)
      calc V l / N l ≤ V l / (a l * S / B) := by
            apply div_le_div_of_nonneg_left hV.le hx (hN l)
        _ = b l * B / S := by rw [← hab l]; field_simp
    · exact le_refl _
  calc ∑ l ∈ range n, (if 0 < V l then V l / N l else 0)
      ≤ ∑ l ∈ range n, (if 0 < V l then b l * B / S else 0) := Finset.sum_le_sum key
    _ ≤ ∑ l ∈ range n, b l * B / S := by
        apply Finset.sum_le_sum; intro l _
        split_ifs
        · exact le_refl _
        · have := hb l; positivity
    _ = (∑ l ∈ range n, b l) * B / S := by simp_rw [mul_div_assoc]; rw [← Finset.sum_mul]
    _ ≤ B := by
        rcases hS0.lt_or_eq with h | h
        · rw [← hS]; field_simp; exact le_refl _
        · rw [← hS, ← h]; simp [hB.le]

/-- **the allocation as coded, over ℝ, for non-negative variances and strictly positive costs**:
    with `N_l = ⌈√(V_l/C_l) · Σ_j √(V_j C_j) / ((1−θ) ε²)⌉`, the estimator variance Σ_{V_l>0} V_l/N_l is at most
    the variance share `(1−θ) ε²`, and every level with positive variance gets at least one sample.
    Full statement of the property ("any non-negative costs, including zeros") does NOT hold: see
    `zero_cost_counterexample`. -/
theorem alloc_budget_partial (n : ℕ) (V C : ℕ → ℝ) (theta eps : ℝ) (hth : theta < 1) (heps : 0 < eps)
    (hV : ∀ l, 0 ≤ V l) (hC : ∀ l, 0 < C l) :
    let B := (1 - theta) * eps ^ 2
    let N : ℕ → ℤ := fun l => ⌈Real.sqrt (V l / C l) * (∑ j ∈ range n, Real.sqrt (V j * C j)) / B⌉
    (∑ l ∈ range n, (if 0 < V l then V l / (N l : ℝ) else 0) ≤ B) ∧
      (∀ l ∈ range n, 0 < V l → 1 ≤ N l) := by
  intro B N
  have hB : 0 < B := by have : 0 < 1 - theta := by linarith
                        positivity
  have hab : ∀ l, Real.sqrt (V l / C l) * Real.sqrt (V l * C l) = V l := by
    intro l
    rw [← Real.sqrt_mul (div_nonneg (hV l) (hC l).le)]
    have hCne : C l ≠ 0 := (hC l).ne'
    have : V l / C l * (V l * C l) = V l * V l := by field_simp
    rw [this, Real.sqrt_mul_self (hV l)]
  refine ⟨?_, ?_⟩
  · exact alloc_budget_roots n (fun l => Real.sqrt (V l / C l)) (fun l => Real.sqrt (V l * C l)) V
      (fun l => (N l : ℝ)) B hB (fun l => Real.sqrt_nonneg _) (fun l => Real.sqrt_nonneg _) hab
      (fun l => Int.le_ceil _)
  · intro l hl hVl
    have h1 : 0 < Real.sqrt (V l / C l) := Real.sqrt_pos.mpr (div_pos hVl (hC l))
    have h2 : 0 < Real.sqrt (V l * C l) := Real.sqrt_pos.mpr (mul_pos hVl (hC l))
    have hS : 0 < ∑ j ∈ range n, Real.sqrt (V j * C j) :=
      lt_of_lt_of_le h2 (Finset.single_le_sum (f := fun j => Real.sqrt (V j * C j)) (fun j _ => Real.sqrt_nonneg _) hl)
    have : 0 < Real.sqrt (V l / C l) * (∑ j ∈ range n, Real.sqrt (V j * C j)) / B := by positivity
    exact Int.one_le_ceil_iff.mpr this

/-- executable model = the formula of the theorem (ℚ, roots given): each `N_l` is the ceiling of `a_l·S/B` -/
theorem allocFromRoots_ge (a b : List Rat) (B : Rat) (l : ℕ) (hl : l < a.length) :
    a[l] * listSum b / B ≤ ((allocFromRoots a b B)[l]'(by simpa [allocFromRoots] using hl) : ℤ) := by
  simp only [allocFromRoots, List.getElem_map]
  exact Rat.le_ceil

/-- a zero-cost level with positive variance gets one sample whatever the budget: V/N = V is unbounded.
    (`v = [1/32, 1/100]`, `c = [0, √2·…]` in root form: costs (0, 4), ε = 1/100, θ = 1/4.) Witness of finding
    C06-zero-cost-level, replayed on the implementation by the harness. -/
theorem zero_cost_counterexample :
    giles (1/4) (1/100) [1/32, 1/100] [0, 2] = [1, 2] ∧ (1/32 : Rat) * (1/32) / 1 > (3/4) * (1/100) * (1/100) := by
  constructor
  · decide +kernel
  · norm_num

/-! ### budget split of rmse²: see RpylibModel/ProofsGen/C06Budget.lean (re-checked against constants measured on the running code) -/

/-- the bias test is monotone: a smaller remainder is accepted whenever a larger one is -/
theorem criteria_monotone (st q m1 m2 m3 m1' rmse : Rat) (hq : 1 < q) (h : m1' ≤ m1)
    (hc : criteria st q m1 m2 m3 rmse = true) : criteria st q m1' m2 m3 rmse = true := by
  unfold criteria at *
  simp only [decide_eq_true_eq] at *
  have hq1 : 0 < q - 1 := by linarith
  have : max m1' (max (m2 / q) (m3 / (q * q))) ≤ max m1 (max (m2 / q) (m3 / (q * q))) := max_le_max_right _ h
  calc max m1' (max (m2 / q) (m3 / (q * q))) / (q - 1) ≤ max m1 (max (m2 / q) (m3 / (q * q))) / (q - 1) :=
        div_le_div_of_nonneg_right this hq1.le
    _ ≤ st * rmse := hc

end Rpylib.Alloc

namespace Rpylib.Mlmc

def demoProcC06 : Proc := ⟨fun l k => l + (k + 1) / 1024, fun l k => l - 1 + (k + 1) / 2048, fun l => 2 ^ l⟩

/-! ### the adaptive loop -/

/-- never a level above the configured maximum -/
def Bounded (s : St) : Prop := s.L ≤ s.levelMax

private theorem loopHead_cases (s : St) : loopHead s = .cont s ∨ loopHead s = .ret s := by
  unfold loopHead; split
  · left; rfl
  · right; rfl

theorem iter_bounded (p : Proc) (o : Oracle) (s : St) (h : Bounded s) :
    match iter p o s with
    | .cont s' => Bounded s' ∧ s'.levelMax = s.levelMax
    | .ret s' => Bounded s' ∧ s'.levelMax = s.levelMax := by
  unfold iter
  simp only
  have hL : (setDN o.Ns (afterPasses p s)).L = s.L := rfl
  have hM : (setDN o.Ns (afterPasses p s)).levelMax = s.levelMax := rfl
  by_cases hsm : small (setDN o.Ns (afterPasses p s)) = true
  · rw [if_pos hsm]
    by_cases hcv : (o.conv || (setDN o.Ns (afterPasses p s)).L == (setDN o.Ns (afterPasses p s)).levelMax) = true
    · rw [if_pos hcv]; exact ⟨h, rfl⟩
    · rw [if_neg hcv]
      have hne : s.L ≠ s.levelMax := by
        intro he; apply hcv; simp [hL, hM, he]
      have hb : s.L + 1 ≤ s.levelMax := by unfold Bounded at h; omega
      rcases loopHead_cases (extendAll (setDN o.Ns2 (addLevel (setDN o.Ns (afterPasses p s))))) with hh | hh <;>
        rw [hh] <;> exact ⟨hb, rfl⟩
  · rw [if_neg hsm]
    rcases loopHead_cases (extendAll (setDN o.Ns (afterPasses p s))) with hh | hh <;> rw [hh] <;> exact ⟨h, rfl⟩

/-- **never above the maximum level**, for every history -/
theorem run_never_above_max (p : Proc) (os : List Oracle) (s : St) (h : Bounded s) :
    match run p os s with
    | .cont s' => s'.L ≤ s.levelMax
    | .ret s' => s'.L ≤ s.levelMax := by
  induction os generalizing s with
  | nil => exact h
  | cons o os ih =>
    have hi := iter_bounded p o s h
    unfold run
    cases hit : iter p o s with
    | cont s' =>
      rw [hit] at hi
      have := ih s' hi.1
      rw [hi.2] at this; exact this
    | ret s' => rw [hit] at hi; have := hi.1; unfold Bounded at this; rw [hi.2] at this; exact this

/-- the two ways an iteration can return: (a) the stated one — every level within the 1 % rule of its optimal size
    and (bias test passed or maximum level reached); (b) falling out of `while sum(dNl) > 0` with nothing left to do. -/
theorem iter_ret_only_if (p : Proc) (o : Oracle) (s : St) (s' : St) (h : iter p o s = .ret s') :
    (small (setDN o.Ns (afterPasses p s)) = true ∧ (o.conv = true ∨ s.L = s.levelMax)) ∨ sumDN s' = 0 := by
  unfold iter loopHead at h
  simp only at h
  by_cases hsm : small (setDN o.Ns (afterPasses p s)) = true
  · rw [if_pos hsm] at h
    by_cases hcv : (o.conv || (setDN o.Ns (afterPasses p s)).L == (setDN o.Ns (afterPasses p s)).levelMax) = true
    · left; refine ⟨hsm, ?_⟩
      simp only [Bool.or_eq_true, beq_iff_eq] at hcv
      exact hcv
    · rw [if_neg hcv] at h
      right
      split at h
      · cases h
      · injection h with h; subst h; omega
  · rw [if_neg hsm] at h
    right
    split at h
    · cases h
    · injection h with h; subst h; omega

/-- **the fall-through exit is real** (finding C06-fallthrough-exit): after a level is added whose optimal size is
    already met by its counter and no other level needs samples, `Engine.price` returns without the bias test having
    passed and below the maximum level. History: one iteration, `conv = false`, `Ns = Ns2 = 0`. -/
theorem fallthrough_counterexample :
    (match price demoProcC06 1 2 6 0 [⟨[2, 2], false, [2, 2, 0]⟩] with
     | .ret s => s.L == 2 && decide (s.L < s.levelMax) && ((s.lv 2).N == 0)
     | _ => false) = true := by
  decide +kernel

/-! ### termination: with bounded optimal sizes the loop returns within a bounded number of iterations -/

/-- total number of samples simulated so far over the live levels -/
def totalN (s : St) : Nat := ((List.range (s.L + 1)).map (fun l => (s.lv l).N)).sum

end Rpylib.Mlmc
