/-
C02 — Every state sampler realises exactly the target law, independent of call history.  Property theorems only.
Models: RpylibModel/Model/Samplers/*.lean.  Helper lemmas: RpylibModel/Proofs/Lemmas/C02*.lean.

The "law" is stated without measure theory: for every sampler an explicit finite list of u-intervals per state
(`cells`) such that the draw function returns state `k` exactly on the cells of `k`, together with the total length
of the cells of `k`.
-/
import RpylibModel.Model.Samplers
import RpylibModel.Proofs.Lemmas.C02Inversion
import RpylibModel.Proofs.Lemmas.C02InversionSkip
import RpylibModel.Proofs.Lemmas.C02Alias
import RpylibModel.Proofs.Lemmas.C02AliasBuild
import RpylibModel.Proofs.Lemmas.C02Bst
import RpylibModel.Proofs.Lemmas.C02BstBuild
import RpylibModel.Proofs.Lemmas.C02Table
import RpylibModel.Proofs.Lemmas.C02Huffman
import RpylibModel.Proofs.Lemmas.C02Adapted
import RpylibModel.Proofs.Lemmas.C02AdaptedNd
import RpylibModel.Proofs.Lemmas.C02AdaptedNdLaw
import RpylibModel.Proofs.Lemmas.C02AdaptedNdFinal

set_option linter.dupNamespace false

/-! ## Inversion sampler (state machine with memo, storage cap, skip pointer) -/
namespace Rpylib.Inversion

/-- **history independence**: after *any* sequence `us` of earlier draws the state returned for `u` is the one a
    fresh instance returns (no skipped pairing index up to the frontier maximum, any storage cap ≥ 1). -/
theorem history_independent {e : Env} (hs : NoSkip e) (hp : Nonneg e) (hM : 1 ≤ e.maxStorage) {st0 : St}
    (h0 : init e = some st0) (us : List Rat) (u : Rat) :
    (step e (run e st0 us) u).2 = (step e st0 u).2 := by
  obtain ⟨st, hst, hI⟩ := init_spec hs hM
  rw [h0] at hst; cases hst
  exact IsFirst.unique (step_spec hs hp hM _ u (run_inv hs hp hM us _ hI)).1 (step_spec hs hp hM _ u hI).1

/-- a fresh instance exists as soon as index 0 is admissible -/
theorem init_exists {e : Env} (hs : NoSkip e) (hM : 1 ≤ e.maxStorage) : ∃ st0, init e = some st0 :=
  let ⟨st, h, _⟩ := init_spec hs hM; ⟨st, h⟩

/-- **draw spec**: after any history, state `k` is returned exactly for `c_{k-1} < u ≤ c_k` (`u ≤ c_0` for `k = 0`),
    `c` the canonical cumulative sums: the set of `u` sent to `k` is one interval of length `p_k`. -/
theorem draw_spec {e : Env} (hs : NoSkip e) (hp : Nonneg e) (hM : 1 ≤ e.maxStorage) {st0 : St}
    (h0 : init e = some st0) (us : List Rat) (u : Rat) (k : Nat) :
    (step e (run e st0 us) u).2 = some k ↔
      k ≤ e.maxFrontier ∧ u ≤ csum e k ∧ (k = 0 ∨ csum e (k - 1) < u) := by
  obtain ⟨st, hst, hI⟩ := init_spec hs hM
  rw [h0] at hst; cases hst
  have hF := (step_spec hs hp hM _ u (run_inv hs hp hM us _ hI)).1
  constructor
  · intro h; rw [h] at hF
    refine ⟨hF.1, hF.2.1, ?_⟩
    rcases Nat.eq_zero_or_pos k with h0 | hpos
    · exact Or.inl h0
    · exact Or.inr (hF.2.2 (k - 1) (by omega))
  · rintro ⟨h1, h2, h3⟩
    have : IsFirst e u (some k) := by
      refine ⟨h1, h2, ?_⟩
      intro j hj
      rcases h3 with h3 | h3
      · omega
      · exact lt_of_le_of_lt (csum_mono hp (by omega)) h3
    exact IsFirst.unique hF this

/-- the interval of state `k` has length `p_k` -/
theorem cell_length (e : Env) (k : Nat) : csum e (k + 1) - csum e k = e.p (k + 1) := by
  simp [csum]

theorem cell_length_zero (e : Env) : csum e 0 = e.p 0 := rfl

/-- **exhaustion only beyond the total mass**: the random frontier state (`none`) is returned exactly for
    `u > c_maxFrontier` (= the total mass, 1 for a probability vector) -/
theorem exhausted_iff {e : Env} (hs : NoSkip e) (hp : Nonneg e) (hM : 1 ≤ e.maxStorage) {st0 : St}
    (h0 : init e = some st0) (us : List Rat) (u : Rat) :
    (step e (run e st0 us) u).2 = none ↔ csum e e.maxFrontier < u := by
  obtain ⟨st, hst, hI⟩ := init_spec hs hM
  rw [h0] at hst; cases hst
  have hF := (step_spec hs hp hM _ u (run_inv hs hp hM us _ hI)).1
  constructor
  · intro h; rw [h] at hF; exact hF _ (le_refl _)
  · intro h
    have : IsFirst e u none := fun j hj => lt_of_le_of_lt (csum_mono hp hj) h
    exact IsFirst.unique hF this

/-- **zero never**: a state of probability 0 is not returned for any `u > 0` (for `u = 0`, a point of measure zero,
    the code returns the first state of the enumeration whatever its probability) -/
theorem zero_never {e : Env} (hs : NoSkip e) (hp : Nonneg e) (hM : 1 ≤ e.maxStorage) {st0 : St}
    (h0 : init e = some st0) (us : List Rat) (u : Rat) (hu : 0 < u) (k : Nat) (hk : e.p k = 0) :
    (step e (run e st0 us) u).2 ≠ some k := by
  intro h
  obtain ⟨_, h2, h3⟩ := (draw_spec hs hp hM h0 us u k).mp h
  rcases h3 with h3 | h3
  · subst h3; simp only [csum] at h2; rw [hk] at h2; exact absurd hu (not_lt.mpr h2)
  · cases k with
    | zero => simp only [Nat.zero_sub] at h3; linarith
    | succ k' => simp only [csum, Nat.add_sub_cancel] at h2 h3; rw [hk] at h2; linarith

/-- non-vacuity: a 4-state sampler with cap 2; the history crosses the cap and revisits the memo -/
def exEnv : Env := ⟨[true, true, true, true], 3, [1/4, 1/4, 1/4, 1/4], 2⟩
example : NoSkip exEnv := by intro xx h; have : xx ≤ 3 := h; rcases xx with _ | _ | _ | _ | n <;> first | rfl | omega
example : (init exEnv).map (fun st => (step exEnv (run exEnv st [7/8, 1/8, 1, 3/8]) (5/8)).2) = some (some 2) := by decide +kernel

/-- negation witness (known finding): with a *skipped* pairing index below the cap the reset of the skip pointer at
    `x = max_storage` (pairing.py:532-536) restarts the scan at pairing index `max_storage`, which was already
    consumed: index 2 is counted twice and `u = 3/4`, which belongs to state 3's interval (1/2, 1], returns state 2 -/
def skipEnv : Env := ⟨[true, false, true, true], 3, [1/4, 0, 1/4, 1/2], 2⟩
example : cellsGen skipEnv = [(0, 0, 1/4), (2, 1/4, 1/2), (3, 1/2, 1)] := by decide +kernel
example : (init skipEnv).map (fun st => (step skipEnv st (3/4)).2) = some (some 2) := by decide +kernel
example : (init { skipEnv with maxStorage := 10 }).map (fun st => (step { skipEnv with maxStorage := 10 } st (3/4)).2)
    = some (some 3) := by decide +kernel

/-! ### skipped pairing indices (unequal-sided n-d boxes), storage cap not reached -/

/-- **history independence with skipped indices**: for ANY admissibility pattern of the pairing indices (unequal sides,
    domains), as long as the storage cap is not reached (fewer admissible states than `_max_storage`; the default cap is
    10^6), after any sequence of earlier draws the state returned for `u` is the canonical one `spec e u` — the first
    admissible state whose cumulative sum reaches `u` — hence the same as on a fresh instance.  (Invariant `InvS`: the
    memo is a prefix of the canonical list and the skip pointer lies in the gap of inadmissible indices behind the last
    memoised state.  With the cap reached and a skipped index below it the statement is false: `skipEnv` above.) -/
theorem history_independent_skip {e : Env} (hp : Nonneg e) (hcap : (full e).length < e.maxStorage) {st0 : St}
    (h0 : init e = some st0) (us : List Rat) (u : Rat) :
    (step e (run e st0 us) u).2 = spec e u ∧ (step e (run e st0 us) u).2 = (step e st0 u).2 := by
  have hI := init_skip h0
  have h1 := (step_skip hp hcap _ u (run_skip hp hcap us _ hI)).1
  have h2 := (step_skip hp hcap _ u hI).1
  exact ⟨h1, by rw [h1, h2]⟩

/-- **draw spec with skipped indices**: after any history, for `u > 0`, state `k` is returned exactly when `u` lies in the
    cell `(lo, hi]` of `k` in `cellsGen` (one cell per admissible state, of length `p_k`, in enumeration order) -/
theorem draw_spec_skip {e : Env} (hp : Nonneg e) (hcap : (full e).length < e.maxStorage) {st0 : St}
    (h0 : init e = some st0) (us : List Rat) (u : Rat) (hu : 0 < u) (k : Nat) :
    (step e (run e st0 us) u).2 = some k ↔ ∃ c ∈ cellsGen e, c.1 = k ∧ c.2.1 < u ∧ u ≤ c.2.2 := by
  rw [(history_independent_skip hp hcap h0 us u).1]
  exact spec_cells hp u hu k

/-- a sufficient condition for "cap not reached": the frontier maximum is below the cap -/
theorem cap_not_reached (e : Env) (h : e.maxFrontier + 1 < e.maxStorage) : (full e).length < e.maxStorage :=
  lt_of_le_of_lt (full_length_le e) h

/-- non-vacuity: the skipping environment with the cap out of reach; a history that revisits and extends the memo -/
example : (full { skipEnv with maxStorage := 10 }).length < 10 := by decide +kernel
example : (init { skipEnv with maxStorage := 10 }).map (fun st =>
    (step { skipEnv with maxStorage := 10 } (run { skipEnv with maxStorage := 10 } st [3/8, 1/8, 1, 3/8]) (3/4)).2)
    = some (some 3) := by decide +kernel

end Rpylib.Inversion

/-! ## Alias sampler: draw on arbitrary tables, law induced by tables (certificate) -/
namespace Rpylib.Alias

theorem mem_cells (t : Tables) (c : Nat × Rat × Rat) :
    c ∈ cells t ↔ ∃ x, x < t.K ∧ (c = (x, (x : Rat) / t.K, ((x : Rat) + clamp01 (t.q x)) / t.K) ∨
      c = (t.J x, ((x : Rat) + clamp01 (t.q x)) / t.K, ((x : Rat) + 1) / t.K)) := by
  simp [cells, List.mem_flatMap]

/-- **draw spec** for *arbitrary* tables `(J, q)`: for `u ∈ [0,1)`, `_draw_with_u` returns `k` exactly when `u` lies
    in one of the explicit half-open cells of `k` -/
theorem draw_spec (t : Tables) (hK : 0 < t.K) (u : Rat) (h0 : 0 ≤ u) (h1 : u < 1) (k : Nat) :
    draw t u = k ↔ ∃ c ∈ cells t, c.1 = k ∧ c.2.1 ≤ u ∧ u < c.2.2 := by
  have hKq : (0 : Rat) < t.K := by exact_mod_cast hK
  obtain ⟨hx, hlo, hhi⟩ := col_bounds t hK h0 h1
  have hv0 : 0 ≤ (t.K : Rat) * u - (col t u : Rat) := by rw [div_le_iff₀ hKq] at hlo; linarith
  have hv1 : (t.K : Rat) * u - (col t u : Rat) < 1 := by rw [lt_div_iff₀ hKq] at hhi; linarith
  constructor
  · intro hd
    rw [draw_eq] at hd
    by_cases hq : (t.K : Rat) * u - (col t u : Rat) < t.q (col t u)
    · rw [if_pos hq] at hd
      refine ⟨_, (mem_cells t _).mpr ⟨col t u, hx, Or.inl rfl⟩, hd, hlo, ?_⟩
      have := (lt_clamp_iff hv0 hv1).mpr hq
      show u < _ / _
      rw [lt_div_iff₀ hKq]; linarith
    · rw [if_neg hq] at hd
      refine ⟨_, (mem_cells t _).mpr ⟨col t u, hx, Or.inr rfl⟩, hd, ?_, hhi⟩
      have := mt (lt_clamp_iff hv0 hv1).mp hq
      show _ / _ ≤ u
      rw [div_le_iff₀ hKq]; linarith
  · rintro ⟨c, hc, hk, hl, hr⟩
    obtain ⟨x, _, rfl | rfl⟩ := (mem_cells t c).mp hc
    · have hcb := clamp01_bounds (t.q x)
      simp only at hk hl hr
      have hr' : u < ((x : Rat) + 1) / t.K := lt_of_lt_of_le hr (by
        apply div_le_div_of_nonneg_right _ hKq.le; linarith)
      have hcx := col_of_mem t hK hl hr'
      rw [draw_eq, hcx]
      have hv : (t.K : Rat) * u - (x : Rat) < clamp01 (t.q x) := by rw [lt_div_iff₀ hKq] at hr; linarith
      rw [hcx] at hv0 hv1
      rw [if_pos ((lt_clamp_iff hv0 hv1).mp hv)]; exact hk
    · have hcb := clamp01_bounds (t.q x)
      simp only at hk hl hr
      have hl' : (x : Rat) / t.K ≤ u := le_trans (by
        apply div_le_div_of_nonneg_right _ hKq.le; linarith) hl
      have hcx := col_of_mem t hK hl' hr
      rw [draw_eq, hcx]
      have hv : ¬ (t.K : Rat) * u - (x : Rat) < clamp01 (t.q x) := by
        rw [div_le_iff₀ hKq] at hl; intro h; linarith
      rw [hcx] at hv0 hv1
      rw [if_neg (mt (lt_clamp_iff hv0 hv1).mpr hv)]; exact hk

/-- **certificate**: the total length of the cells of `k` is `lawOfTables t k`
    `= (Σ_x [x = k]·c_x + [J x = k]·(1 − c_x)) / K`, `c_x = clamp01 (q x)` -/
theorem law_of_cells (t : Tables) (k : Nat) : lengthOf (cells t) k = lawOfTables t k :=
  lengthOf_columns t.K t.q t.J k (List.range t.K)

theorem cells_wellformed (t : Tables) (hK : 0 < t.K) : ∀ c ∈ cells t, c.2.1 ≤ c.2.2 := by
  have hKq : (0 : Rat) < t.K := by exact_mod_cast hK
  intro c hc
  obtain ⟨x, _, rfl | rfl⟩ := (mem_cells t c).mp hc <;>
    (have := clamp01_bounds (t.q x); apply div_le_div_of_nonneg_right _ hKq.le; linarith)

/-- **zero never**: a state to which the tables give law 0 is not returned for any `u ∈ [0,1)` -/
theorem zero_never (t : Tables) (hK : 0 < t.K) (k : Nat) (hz : lawOfTables t k = 0) (u : Rat) (h0 : 0 ≤ u)
    (h1 : u < 1) : draw t u ≠ k := by
  intro h
  exact no_cell_of_length_zero (cells t) k (cells_wellformed t hK) (by rw [law_of_cells, hz]) u
    ((draw_spec t hK u h0 h1 k).mp h)

/-- the state returned is a column index or an alias entry: inside `0..K-1` as soon as `J` maps into it -/
theorem draw_lt (t : Tables) (hK : 0 < t.K) (hJ : ∀ x, x < t.K → t.J x < t.K) (u : Rat) (h0 : 0 ≤ u) (h1 : u < 1) :
    draw t u < t.K := by
  obtain ⟨hx, _, _⟩ := col_bounds t hK h0 h1
  rw [draw_eq]; split_ifs
  · exact hx
  · exact hJ _ hx

/-- **alias construction**: the Walker/Vose construction `create_alias` as coded (LIFO stacks, main loop, the two
    clean-up loops) realises the input vector: for every size `K > 0` and every `p ≥ 0` with `Σ_{l<K} p l = 1`, the
    law induced by the built tables is `p`.  (Vose invariant `K p_k = q_k + Σ_{j done, J_j = k}(1 − q_j)` and
    `Σ_live q = #live` over `mainLoop`; fuel `K` is never exhausted; in exact arithmetic both clean-up loops only
    overwrite entries that already equal 1.)  With `draw_spec` and `law_of_cells`: the set of `u` sent to `k` has
    total length `p k`. -/
theorem build_law (K : Nat) (hK : 0 < K) (p : Nat → Rat) (hp : ∀ l, l < K → 0 ≤ p l)
    (hsum : ((List.range K).map p).sum = 1) (k : Nat) (hk : k < K) : lawOfTables (build K p) k = p k :=
  build_law_finset K hK p hp (by rw [← list_range_sum]; exact hsum) k hk

/-- the u-cells of the built tables have total length `p k`, and a state with `p k = 0` is never returned -/
theorem build_realises (K : Nat) (hK : 0 < K) (p : Nat → Rat) (hp : ∀ l, l < K → 0 ≤ p l)
    (hsum : ((List.range K).map p).sum = 1) (k : Nat) (hk : k < K) :
    lengthOf (cells (build K p)) k = p k ∧
      (p k = 0 → ∀ u, 0 ≤ u → u < 1 → draw (build K p) u ≠ k) := by
  have hb := build_law K hK p hp hsum k hk
  have hKb : 0 < (build K p).K := hK
  refine ⟨by rw [law_of_cells, hb], fun hz u h0 h1 => zero_never (build K p) hKb k (by rw [hb, hz]) u h0 h1⟩

/-- non-vacuity: the tables built by `create_alias` for p = (1/8, 1/2, 1/4, 1/8) realise p -/
example : (List.range 4).map (lawOfTables (build 4 (fun i => [1/8, 1/2, 1/4, 1/8].getD i 0))) = [1/8, 1/2, 1/4, 1/8] := by
  decide +kernel

end Rpylib.Alias

/-! ## Binary search tree on an implicit heap: draw on arbitrary threshold tables -/
namespace Rpylib.Bst
open Rpylib.Alias (lengthOf)

/-- **draw spec** for an *arbitrary* threshold table: for `u ∈ [0,1)` the descent returns `k` exactly when `u` lies in
    one of the explicit cells of `k` (cells are non-empty, pairwise disjoint by this equivalence, and inside `[0,1)`) -/
theorem draw_spec (K : Nat) (bst : Nat → Rat) (u : Rat) (h0 : 0 ≤ u) (h1 : u < 1) (k : Nat) :
    draw K bst u = k ↔ ∃ c ∈ cells K bst, c.1 = k ∧ c.2.1 ≤ u ∧ u < c.2.2 := by
  have hf : K < 1 * 2 ^ (K + 1) := by
    have : K + 1 < 2 ^ (K + 1) := Nat.lt_two_pow_self
    omega
  obtain ⟨⟨c, hc, e1, e2, e3⟩, hb⟩ := descend_cells K bst u (K + 1) 1 0 1 hf h0 h1
  constructor
  · intro h; exact ⟨c, hc, by rw [e1]; exact h, e2, e3⟩
  · rintro ⟨c', hc', rfl, hl, hr⟩; exact (hb c' hc' hl hr).symm

/-- every cell is a non-empty sub-interval of `[0,1)` -/
theorem cells_wellformed (K : Nat) (bst : Nat → Rat) : ∀ c ∈ cells K bst, 0 ≤ c.2.1 ∧ c.2.2 ≤ 1 ∧ c.2.1 < c.2.2 :=
  cellsFrom_bounds K bst (K + 1) 1 0 1

/-- **zero never**: a state whose cells have total length 0 (i.e. no cell at all) is never returned -/
theorem zero_never (K : Nat) (bst : Nat → Rat) (k : Nat) (hz : lengthOf (cells K bst) k = 0) (u : Rat) (h0 : 0 ≤ u)
    (h1 : u < 1) : draw K bst u ≠ k := by
  intro h
  exact Rpylib.Alias.no_cell_of_length_zero (cells K bst) k (fun c hc => (cells_wellformed K bst c hc).2.2.le) hz u
    ((draw_spec K bst u h0 h1 k).mp h)

/-- **construction**: `create_binary_search_tree(p)` as coded (in-order walk of the implicit heap with an explicit stack,
    every internal node receives the running cumulative probability) realises the input vector: for every `K` and every
    `p ≥ 0` on the `K+1` states with `Σ p = 1`, the u-cells of state `k` of the built threshold table have total length
    `p k`.  (Every leaf `K+1 … 2K+1` of the heap is visited exactly once — `massOf_eq_sum`; the leaves are *not* visited in
    state order when the tree is not perfect, the law does not depend on it.)  With `draw_spec`: the set of `u ∈ [0,1)`
    sent to `k` has total length `p k`. -/
theorem build_law (K : Nat) (p : Nat → Rat) (hp : ∀ i, i ≤ K → 0 ≤ p i)
    (hsum : ((List.range (K + 1)).map p).sum = 1) (k : Nat) (hk : k ≤ K) :
    lengthOf (cells K (build K p)) k = p k := by
  classical
  have hroot : ∀ i, (∃ j, (K + 1 + i) / 2 ^ j = 1) := fun i => anc_root _ (by omega)
  have htot : (walk K p (K + 1) 1 0).2 = 1 := by
    rw [walk_snd K p _ _ _ (Ok.root K), massOf_eq_sum K _ _ _ (Ok.root K), zero_add, ← hsum,
      Rpylib.Alias.list_range_sum]
    apply Finset.sum_congr rfl
    intro i _
    rw [if_pos (hroot i)]
    congr 1; omega
  have h := cells_of_walk K p hp (build K p) k (K + 1) 1 0 (Ok.root K) (build_agrees K p)
  rw [htot] at h
  unfold cells
  rw [h, massOf_eq_sum K _ _ _ (Ok.root K), Finset.sum_eq_single_of_mem k (by simp; omega)]
  · rw [if_pos (hroot k)]
    have e : K + 1 + k - K - 1 = k := by omega
    rw [e, if_pos rfl]
  · intro i _ hne
    rw [if_pos (hroot i)]
    have e : K + 1 + i - K - 1 = i := by omega
    rw [e, if_neg hne]

/-- the built table sends exactly the cells of `k` to `k`, their total length is `p k`, and (**zero never**) a state
    with `p k = 0` is never returned -/
theorem build_realises (K : Nat) (p : Nat → Rat) (hp : ∀ i, i ≤ K → 0 ≤ p i)
    (hsum : ((List.range (K + 1)).map p).sum = 1) (k : Nat) (hk : k ≤ K) :
    lengthOf (cells K (build K p)) k = p k ∧
      (∀ u, 0 ≤ u → u < 1 → (draw K (build K p) u = k ↔ ∃ c ∈ cells K (build K p), c.1 = k ∧ c.2.1 ≤ u ∧ u < c.2.2)) ∧
      (p k = 0 → ∀ u, 0 ≤ u → u < 1 → draw K (build K p) u ≠ k) := by
  have hb := build_law K p hp hsum k hk
  exact ⟨hb, fun u h0 h1 => draw_spec K (build K p) u h0 h1 k,
    fun hz u h0 h1 => zero_never K (build K p) k (by rw [hb, hz]) u h0 h1⟩

/-- the state returned is one of the `K+1` states -/
theorem draw_le (K : Nat) (bst : Nat → Rat) (u : Rat) : draw K bst u ≤ K :=
  descend_le K bst u (K + 1) 1 (by omega)

/-- non-vacuity: a concrete 4-state vector (K = 3) and a 3-state vector (K = 2, tree not perfect: the leaves are visited
    in the order 1, 2, 0) -/
example : (List.range 4).map (lengthOf (cells 3 (build 3 (fun i => [1/8, 1/2, 1/4, 1/8].getD i 0)))) = [1/8, 1/2, 1/4, 1/8] := by
  decide +kernel
example : (List.range 3).map (lengthOf (cells 2 (build 2 (fun i => [1/8, 1/2, 3/8].getD i 0)))) = [1/8, 1/2, 3/8] ∧
    (cells 2 (build 2 (fun i => [1/8, 1/2, 3/8].getD i 0))).map (·.1) = [1, 2, 0] := by
  decide +kernel

end Rpylib.Bst

/-! ## Huffman tree: draw spec, law, construction with an arbitrary insertion position -/
namespace Rpylib.Huffman
open Rpylib.Alias (lengthOf)

/-- **draw spec**: on a consistent tree, for `u ∈ [0, value)`, subtract-and-descend returns `k` exactly when `u` lies
    in one of the cells of `k` -/
theorem draw_spec (t : Tree) (hw : Wf t) (u : Rat) (h0 : 0 ≤ u) (h1 : u < t.value) (k : Nat) :
    draw t u = k ↔ ∃ c ∈ cells t, c.1 = k ∧ c.2.1 ≤ u ∧ u < c.2.2 := by
  obtain ⟨⟨c, hc, e1, e2, e3⟩, hb⟩ := draw_cells u t 0 hw h0 (by linarith)
  simp only [sub_zero] at e1 hb
  constructor
  · intro h; exact ⟨c, hc, by rw [e1]; exact h, e2, e3⟩
  · rintro ⟨c', hc', rfl, hl, hr⟩; exact (hb c' hc' hl hr).symm

/-- **law**: the cells of `k` have total length = the probability carried by the leaves of state `k` -/
theorem law_of_cells (t : Tree) (k : Nat) : lengthOf (cells t) k = law t k := lengthOf_cellsFrom t 0 k

theorem sum_indicator (f : Nat → Rat) (k : Nat) : ∀ n, ((List.range n).map (fun i => if i = k then f i else 0)).sum =
    if k < n then f k else 0 := by
  intro n
  induction n with
  | zero => simp
  | succ n ih =>
    rw [List.range_succ, List.map_append, List.sum_append, ih]
    by_cases h1 : k < n
    · have : n ≠ k := by omega
      simp [h1, this, Nat.lt_succ_of_lt h1]
    · by_cases h2 : n = k
      · subst h2; simp
      · have : ¬ k < n + 1 := by omega
        simp [h1, h2, this]

/-- **construction**: `create_huffman_tree(p)` (p ≥ 0, non-empty) returns a consistent tree whose law is `p`; the proof
    uses nothing about *where* `Heap.insert` puts the merged node (`lawForest_insertAt` holds for every index), so the
    out-of-step `_values` list of the code only affects the cost -/
theorem build_law (p : List Rat) (hp : ∀ i, 0 ≤ p.getD i 0) (hn : p ≠ []) :
    ∃ t, build p = some t ∧ Wf t ∧ (∀ k, law t k = p.getD k 0) ∧
      t.value = ((List.range p.length).map (fun i => p.getD i 0)).sum := by
  have hlen : 0 < p.length := List.length_pos_iff.mpr hn
  have hleavesWf : ∀ t ∈ leavesOf p, Wf t := by
    intro t ht
    obtain ⟨i, _, rfl⟩ := List.mem_map.mp ht
    exact hp i
  have hl0 : (leavesOf p).length = p.length := by simp [leavesOf]
  have h0 : (mkHeap (leavesOf p)).nodes.length = (p.length - 1) + 1 := by
    simp only [mkHeap]; rw [(sortDesc_spec 0 (leavesOf p)).2.2.1, hl0]; omega
  have hw0 : ∀ t ∈ (mkHeap (leavesOf p)).nodes, Wf t := by
    intro t ht; simp only [mkHeap] at ht
    exact hleavesWf t (((sortDesc_spec 0 (leavesOf p)).2.2.2 t).mp ht)
  obtain ⟨a, b, _, d⟩ := merges_spec 0 (p.length - 1) _ h0 hw0
  obtain ⟨t, ht⟩ : ∃ t, (merges (p.length - 1) (mkHeap (leavesOf p))).nodes = [t] := List.length_eq_one_iff.mp a
  refine ⟨t, by simp [build, ht], b t (by simp [ht]), ?_, ?_⟩
  · intro k
    obtain ⟨_, _, c, _⟩ := merges_spec k (p.length - 1) _ h0 hw0
    rw [ht, lawForest_single] at c
    rw [c]; simp only [mkHeap]; rw [(sortDesc_spec k (leavesOf p)).1]
    simp only [lawForest, leavesOf, List.map_map, Function.comp_def, law]
    rw [sum_indicator (fun i => p.getD i 0) k p.length]
    split_ifs with h
    · rfl
    · simp [List.getD, List.getElem?_eq_none (Nat.le_of_not_lt h)]
  · rw [ht, valueForest_single] at d
    rw [d]; simp only [mkHeap]; rw [(sortDesc_spec 0 (leavesOf p)).2.1]
    simp [valueForest, leavesOf, Function.comp_def, Tree.value]

/-- **build realises p**: for every probability vector `p ≥ 0` the tree built by the code sends, for `u` below the total
    mass, exactly the cells of `k` to `k`, and their total length is `p_k`; in particular (**zero never**) a state with
    `p_k = 0` is never returned -/
theorem build_realises (p : List Rat) (hp : ∀ i, 0 ≤ p.getD i 0) (hn : p ≠ []) :
    ∃ t, build p = some t ∧ (∀ k, lengthOf (cells t) k = p.getD k 0) ∧
      ∀ u, 0 ≤ u → u < t.value → ∀ k, (draw t u = k ↔ ∃ c ∈ cells t, c.1 = k ∧ c.2.1 ≤ u ∧ u < c.2.2) ∧
        (p.getD k 0 = 0 → draw t u ≠ k) := by
  obtain ⟨t, hb, hw, hl, _⟩ := build_law p hp hn
  refine ⟨t, hb, fun k => by rw [law_of_cells, hl], ?_⟩
  intro u h0 h1 k
  refine ⟨draw_spec t hw u h0 h1 k, ?_⟩
  intro hz hd
  exact Rpylib.Alias.no_cell_of_length_zero (cells t) k
    (fun c hc => (cellsFrom_bounds t 0 hw c hc).2.2) (by rw [law_of_cells, hl, hz]) u ((draw_spec t hw u h0 h1 k).mp hd)

/-- non-vacuity: the code's merge order on p = (1/8, 1/2, 1/4, 1/8) -/
example : (build [1/8, 1/2, 1/4, 1/8]).map shape = some [-1, -1, 2, -1, 3, 0, 1] := by decide +kernel

end Rpylib.Huffman

/-! ## Table method (256 slots + residual alias): law of the idealised sampler -/
namespace Rpylib.Table

/-- algebra of slots + residual, for arbitrary tables: *given* the slot counts and the residual law, the idealised law is
    `p_k` (the hypotheses are discharged for the constructed tables in `build_law` below) -/
theorem law_partial (t : Tables) (n : Nat) (p : Nat → Rat) (k : Nat)
    (hk : (slotCount t (k : Int) : Rat) = ((((256 : Rat) * p k).floor.toNat : Nat) : Rat))
    (hres : (slotCount t (-1) : Rat) = thetaSum n p) (hS : 0 < thetaSum n p)
    (hr : Alias.lawOfTables t.resid k = theta p k / thetaSum n p) : lawOfTables t k = p k := by
  unfold lawOfTables
  rw [hk, hres, hr, mul_div_cancel₀ _ (ne_of_gt hS)]
  unfold theta; ring

/-- the low byte of the 32-bit integer shifts the residual uniform by less than 2^-24 -/
theorem low_byte_shift (i : Nat) : (i : Rat) / 4294967296 - ((i / 256 * 256 : Nat) : Rat) / 4294967296 < 1 / 16777216 := by
  have h : i - i / 256 * 256 < 256 := by omega
  have h2 : i / 256 * 256 ≤ i := Nat.div_mul_le_self i 256
  have : ((i : Rat) - ((i / 256 * 256 : Nat) : Rat)) < 256 := by
    have : ((i - i / 256 * 256 : Nat) : Rat) < 256 := by exact_mod_cast h
    rw [Nat.cast_sub h2] at this; exact this
  rw [← sub_div, div_lt_iff₀ (by norm_num)]; linarith

/-- the tables `create_table` builds (when it does not raise) -/
theorem build_eq {n : Nat} {p : Nat → Rat} {t : Tables} (hb : build n p = some t) :
    0 < thetaSum n p ∧ t = ⟨slotsOf n p, Alias.build n (fun i => theta p i / thetaSum n p)⟩ := by
  simp only [build] at hb
  split_ifs at hb with hS
  exact ⟨hS, (Option.some.inj hb).symm⟩

/-- the vector handed to the residual alias is a probability vector: `θ_i / Σθ ≥ 0`, `Σ = 1`, where
    `θ_i / 256 = p_i − slots_i / 256 ∈ [0, 1/256)` -/
theorem resid_is_prob (n : Nat) (p : Nat → Rat) (hp : ∀ i, i < n → 0 ≤ p i) (hS : 0 < thetaSum n p) :
    (∀ i, i < n → 0 ≤ theta p i / thetaSum n p) ∧ ((List.range n).map (fun i => theta p i / thetaSum n p)).sum = 1 := by
  refine ⟨fun i hi => div_nonneg (theta_bounds p i (hp i hi)).1 hS.le, ?_⟩
  rw [Rpylib.Alias.list_range_sum]
  simp only [div_eq_mul_inv]
  rw [← Finset.sum_mul, ← Rpylib.Alias.list_range_sum]
  exact mul_inv_cancel₀ (ne_of_gt hS)

/-- **construction, unconditional for the stated idealisation** (slot uniform on the 256 values, residual uniform on
    `[0,1)` independent of it): for every `n`, every `p ≥ 0` with `Σ p = 1`, whenever `create_table(p)` returns tables, they
    have exactly 256 slots, state `k` holds `⌊256 p_k⌋` of them, `Σ θ` hold `-1`, the residual alias tables realise
    `θ / Σθ` (`Alias.build_law`), and the law of the sampler is `p`.  (`create_table` raises exactly when all `256 p_i` are
    integers: `build_none_iff`, a known finding.) -/
theorem build_law (n : Nat) (p : Nat → Rat) (hp : ∀ i, i < n → 0 ≤ p i) (hsum : ((List.range n).map p).sum = 1)
    (t : Tables) (hb : build n p = some t) (k : Nat) (hk : k < n) :
    lawOfTables t k = p k ∧ t.slots.length = 256 ∧ (slotCount t (k : Int) : Rat) = ((256 : Rat) * p k).floor.toNat ∧
      (slotCount t (-1) : Rat) = thetaSum n p ∧ Alias.lawOfTables t.resid k = theta p k / thetaSum n p := by
  obtain ⟨hS, rfl⟩ := build_eq hb
  have hs' : ∑ i ∈ Finset.range n, p i = 1 := by rw [← Rpylib.Alias.list_range_sum]; exact hsum
  obtain ⟨hq, hq1⟩ := resid_is_prob n p hp hS
  have h1 := slotCount_state n p (Alias.build n (fun i => theta p i / thetaSum n p)) k hk
  have h1' : (slotCount ⟨slotsOf n p, Alias.build n (fun i => theta p i / thetaSum n p)⟩ (k : Int) : Rat)
      = ((((256 : Rat) * p k).floor.toNat : Nat) : Rat) := by rw [h1]; rfl
  have h2 := slotCount_neg_prob n p (Alias.build n (fun i => theta p i / thetaSum n p)) hp hs'
  have h3 := Alias.build_law n (by omega) (fun i => theta p i / thetaSum n p) hq hq1 k hk
  refine ⟨law_partial _ n p k h1' h2 hS h3, ?_, h1', h2, h3⟩
  show (slotsOf n p).length = 256
  rw [slots_length, if_pos (sum_m_le n p hp hs')]

/-- `create_table` raises (`none`) exactly when the residuals vanish, i.e. (for `p ≥ 0`) when every `256 p_i` is an
    integer — although the 256 slots alone would realise the law (known finding C02-table-all-multiples-of-1-256) -/
theorem build_none_iff (n : Nat) (p : Nat → Rat) (hp : ∀ i, i < n → 0 ≤ p i) :
    build n p = none ↔ ∀ i, i < n → (256 : Rat) * p i = (((256 : Rat) * p i).floor.toNat : Rat) := by
  have hnn := thetaSum_nonneg n p hp
  have hiff : thetaSum n p = 0 ↔ ∀ i ∈ Finset.range n, theta p i = 0 := by
    unfold thetaSum; rw [Rpylib.Alias.list_range_sum]
    exact Finset.sum_eq_zero_iff_of_nonneg (fun i hi => (theta_bounds p i (hp i (Finset.mem_range.mp hi))).1)
  constructor
  · intro h i hi
    have h0 : thetaSum n p = 0 := by
      simp only [build] at h
      split_ifs at h with hS
      linarith
    have := hiff.mp h0 i (Finset.mem_range.mpr hi)
    unfold theta at this; linarith
  · intro h
    have h0 : thetaSum n p = 0 := hiff.mpr (fun i hi => by
      have := h i (Finset.mem_range.mp hi); unfold theta; linarith)
    simp only [build]
    rw [if_neg (by rw [h0]; exact lt_irrefl _)]

/-- **zero never**: with the constructed tables a state of probability 0 is returned for no 32-bit integer (it owns no
    slot, and the residual alias never returns it) -/
theorem zero_never (n : Nat) (p : Nat → Rat) (hp : ∀ i, i < n → 0 ≤ p i)
    (t : Tables) (hb : build n p = some t) (k : Nat) (hk : k < n) (hz : p k = 0) (i : Nat) (hi : i < 4294967296) :
    draw t i ≠ k := by
  obtain ⟨hS, rfl⟩ := build_eq hb
  obtain ⟨hq, hq1⟩ := resid_is_prob n p hp hS
  have hcnt := slotCount_state n p (Alias.build n (fun i => theta p i / thetaSum n p)) k hk
  have hm : mOf p k = 0 := Rpylib.Alias.floor_toNat_eq (x := 0) (by simp [hz]) (by simp [hz])
  intro hd
  simp only [draw] at hd
  split_ifs at hd with hji
  · -- a slot holding `k`
    have hmem : ((k : Int)) ∈ slotsOf n p := by
      have e : (slotsOf n p).getD (i % 256) (-1) = (k : Int) := by omega
      rw [List.getD_eq_getElem?_getD] at e
      cases hget : (slotsOf n p)[i % 256]? with
      | none => rw [hget] at e; simp at e
      | some v => rw [hget] at e; simp at e; subst e; exact List.mem_of_getElem? hget
    have : 0 < slotCount ⟨slotsOf n p, Alias.build n (fun i => theta p i / thetaSum n p)⟩ (k : Int) := by
      unfold slotCount
      exact List.length_pos_of_mem (List.mem_filter.mpr ⟨hmem, by simp⟩)
    omega
  · -- the residual alias
    have hth : theta p k / thetaSum n p = 0 := by
      have : theta p k = 0 := by rw [theta_eq, hm, hz]; simp
      rw [this, zero_div]
    have hu0 : (0 : Rat) ≤ (i : Rat) / 4294967296 := div_nonneg (by exact_mod_cast Nat.zero_le i) (by norm_num)
    have hu1 : (i : Rat) / 4294967296 < 1 := by
      rw [div_lt_iff₀ (by norm_num), one_mul]; exact_mod_cast hi
    exact (Alias.build_realises n (by omega) _ hq hq1 k hk).2 hth _ hu0 hu1 hd

/-- non-vacuity: `create_table` on p = (1/3, 2/3): 85 + 170 slots, one residual slot, residual law (1/3, 2/3) -/
example : (build 2 (fun i => [1/3, 2/3].getD i 0)).map (fun t => (List.range 2).map (lawOfTables t)) = some [1/3, 2/3] := by
  decide +kernel

end Rpylib.Table

/-! ## One-dimensional adapted bisection (cell masses `w`, `P l r = Σ w`) -/
namespace Rpylib.Adapted

/-- **draw spec**, left side (`u ≤ pLeft`): the index returned is the first `k ≤ o-1` with `u ≤ Σ_{i≤k} w i`
    (`o-1` if there is none): state `k` receives the interval `(Σ_{i<k} w, Σ_{i≤k} w]` of length `w k` -/
theorem draw_spec_left (w : Nat → Rat) (n o : Nat) (pLeft u : Rat) (ho : 0 < o) (hon : o ≤ n) (hu : u ≤ pLeft) :
    draw w n o pLeft u ≤ o - 1 ∧ (0 < draw w n o pLeft u → pre w (draw w n o pLeft u) < u) ∧
      (draw w n o pLeft u < o - 1 → u ≤ pre w (draw w n o pLeft u + 1)) := by
  unfold draw
  rw [if_neg (not_lt.mpr hu)]
  obtain ⟨_, b, c, d⟩ := bisect_spec w n 0 (o - 1) u (Nat.zero_le _) (by omega)
  simp only [pre, add_zero] at c d
  exact ⟨b, c, d⟩

/-- **draw spec**, right side (`u > pLeft`): the first `k ∈ [o+1, n-1]` with `u − pLeft ≤ Σ_{o+1≤i≤k} w i` -/
theorem draw_spec_right (w : Nat → Rat) (n o : Nat) (pLeft u : Rat) (hon : o + 1 ≤ n - 1) (hu : pLeft < u) :
    o + 1 ≤ draw w n o pLeft u ∧ draw w n o pLeft u ≤ n - 1 ∧
      (o + 1 < draw w n o pLeft u → pLeft + (pre w (draw w n o pLeft u) - pre w (o + 1)) < u) ∧
      (draw w n o pLeft u < n - 1 → u ≤ pLeft + (pre w (draw w n o pLeft u + 1) - pre w (o + 1))) := by
  unfold draw
  rw [if_pos hu]
  obtain ⟨a, b, c, d⟩ := bisect_spec w n (o + 1) (n - 1) (u - pLeft) hon (by omega)
  exact ⟨a, b, fun h => by have := c h; linarith, fun h => by have := d h; linarith⟩

/-- the interval of state `k` has length `w k` -/
theorem cell_length (w : Nat → Rat) (k : Nat) : pre w (k + 1) - pre w k = w k := by simp [pre]

/-- the origin is never returned, whatever the tables -/
theorem origin_never (w : Nat → Rat) (n o : Nat) (pLeft u : Rat) (ho : 0 < o) (hon : o + 1 ≤ n - 1) :
    draw w n o pLeft u ≠ o := by
  by_cases hu : pLeft < u
  · have := (draw_spec_right w n o pLeft u hon hu).1; omega
  · have := (draw_spec_left w n o pLeft u ho (by omega) (not_lt.mp hu)).1; omega

/-- **zero never** (interior states; `0 < u`): a state with `w k = 0` that is not the outermost index of its side is
    never returned; for the outermost indices it follows when `pLeft = Σ_{i<o} w` and the total mass is 1 -/
theorem zero_never_left (w : Nat → Rat) (n o : Nat) (pLeft u : Rat) (ho : 0 < o) (hon : o ≤ n) (hu : u ≤ pLeft) (h0 : 0 < u)
    (k : Nat) (hk : k < o - 1) (hz : w k = 0) : draw w n o pLeft u ≠ k := by
  intro h
  obtain ⟨_, b, c⟩ := draw_spec_left w n o pLeft u ho hon hu
  rw [h] at b c
  have hc := c hk
  simp only [pre] at hc; rw [hz] at hc
  rcases Nat.eq_zero_or_pos k with rfl | hp
  · simp only [pre] at hc; linarith
  · have := b hp; linarith

theorem zero_never_right (w : Nat → Rat) (n o : Nat) (pLeft u : Rat) (hon : o + 1 ≤ n - 1) (hu : pLeft < u)
    (k : Nat) (hk : k < n - 1) (hz : w k = 0) : draw w n o pLeft u ≠ k := by
  intro h
  obtain ⟨a, _, c, d⟩ := draw_spec_right w n o pLeft u hon hu
  rw [h] at a c d
  have hd := d hk
  have e : pre w (k + 1) = pre w k + w k := rfl
  rw [e, hz] at hd
  rcases Nat.lt_or_ge (o + 1) k with hp | hp
  · have := c hp; linarith
  · have : k = o + 1 := by omega
    subst this; linarith

/-- negation witness for known finding #25 is behavioural (the model takes the arithmetic-cell masses `w` as input; on a
    probability-step grid these differ from the chain's rates): see known_findings.d/C02.json.  Non-vacuity: -/
example : (List.map (draw (fun i => [1/8, 1/8, 0, 1/4, 1/2].getD i 0) 5 2 (1/4)) [1/16, 1/8, 3/16, 3/8, 1/2, 5/8, 1])
    = [0, 0, 1, 3, 3, 4, 4] := by decide +kernel

end Rpylib.Adapted

/-! ## n-dimensional adapted binary search (bucket search, then axis-cycling bisection on box masses `M`) -/
namespace Rpylib.AdaptedNd

/-- **draw spec** for *arbitrary* tables (any buckets, any box-mass table `M`): for `u > 0`, `sample_with_us` returns
    state `s` exactly when `u` lies in one of the explicit cells `lo < u ≤ hi` of `s` -/
theorem draw_spec (t : Tables) (u : Rat) (hu : 0 < u) (s : List Nat) :
    draw t u = some s ↔ ∃ c ∈ cells t, c.1 = s ∧ c.2.1 < u ∧ u ≤ c.2.2 := by
  have h := from_spec t.M u t.buckets 0 0 hu
  unfold draw cells
  cases hf : findBucket t.buckets u 0 with
  | none =>
    rw [hf] at h
    constructor
    · intro hc; cases hc
    · rintro ⟨c, hc, _, h1, h2⟩; exact absurd ⟨h1, h2⟩ (h c hc)
  | some p =>
    obtain ⟨bk, b'⟩ := p
    rw [hf] at h
    obtain ⟨⟨c, hc, e1, e2⟩, hb⟩ := h
    constructor
    · intro hs
      simp only [Option.some.injEq] at hs
      exact ⟨c, hc, by rw [e1]; exact hs, e2.1, e2.2⟩
    · rintro ⟨c', hc', rfl, h1, h2⟩
      rw [hb c' hc' ⟨h1, h2⟩]

/-- the code raises IndexError (`none`) exactly for a uniform above every cumulated bucket probability; no cell there -/
theorem draw_none_iff (t : Tables) (u : Rat) : draw t u = none ↔ ∀ bk ∈ t.buckets, bk.cumP < u := by
  rw [← findBucket_none u t.buckets 0]
  unfold draw
  cases findBucket t.buckets u 0 with
  | none => simp
  | some p => simp

/-- **cover**: every `0 < u ≤` some cumulated bucket probability lies in a cell (of the state returned) -/
theorem cells_cover (t : Tables) (u : Rat) (hu : 0 < u) (hb : ∃ bk ∈ t.buckets, u ≤ bk.cumP) :
    ∃ s, draw t u = some s ∧ ∃ c ∈ cells t, c.1 = s ∧ c.2.1 < u ∧ u ≤ c.2.2 := by
  cases hd : draw t u with
  | none =>
    obtain ⟨bk, hbk, hle⟩ := hb
    have := (draw_none_iff t u).mp hd bk hbk
    linarith
  | some s => exact ⟨s, rfl, (draw_spec t u hu s).mp hd⟩

/-- **disjoint**: two cells containing the same `u > 0` carry the same state -/
theorem cells_disjoint (t : Tables) (u : Rat) (hu : 0 < u) (c c' : Cell) (hc : c ∈ cells t) (hc' : c' ∈ cells t)
    (h : c.2.1 < u ∧ u ≤ c.2.2) (h' : c'.2.1 < u ∧ u ≤ c'.2.2) : c.1 = c'.1 := by
  have e1 := (draw_spec t u hu c.1).mpr ⟨c, hc, rfl, h.1, h.2⟩
  have e2 := (draw_spec t u hu c'.1).mpr ⟨c', hc', rfl, h'.1, h'.2⟩
  rw [e1] at e2; exact Option.some.inj e2

/-- every cell is a non-empty interval inside `(0, ∞)` -/
theorem cells_wellformed (t : Tables) : ∀ c ∈ cells t, 0 ≤ c.2.1 ∧ c.2.1 < c.2.2 :=
  cellsFrom_lower t.M t.buckets 0 0

/-- **bucket law**: if the box mass `M` is non-negative and additive under the midpoint cuts (a measure on index
    boxes), the axis-cycling bisection of a box `b` started on `(base, base + M b]` gives state `s` cells of total
    length `M (point s)` when `s ∈ b` and nothing otherwise — every state of the bucket receives exactly the mass of its
    own cell -/
theorem bucket_law (M : Box → Rat) (hadd : Additive M) (hnn : ∀ b, 0 ≤ M b) (b : Box) (hw : WfBox b) (base : Rat)
    (s : List Nat) :
    lengthOf (cellsSearch M (fuelOf b) b base base (base + M b)) s = if inBox s b then M (point s) else 0 :=
  search_law M hadd hnn s (fuelOf b) b base hw (le_refl _)

/-- **law of the tables**: for tables consistent with a non-negative additive `M` (`_cum_ps` = cumulated box masses,
    axis vectors non-decreasing and ending at the box mass) the cells of `s` have total length
    `Σ_buckets bucketLaw` = `M (point s)` from the bisected bucket containing `s`, the increment of the axis vector at the
    position of `s` from an axis bucket -/
theorem law_of_cells (t : Tables) (hadd : Additive t.M) (hnn : ∀ b, 0 ≤ t.M b) (hc : Consistent t.M t.buckets 0)
    (s : List Nat) : lengthOf (cells t) s = (t.buckets.map (fun bk => bucketLaw t.M bk s)).sum :=
  from_law t.M hadd hnn s t.buckets 0 hc

/-- **construction**: the tables `_pre_computation` builds (3^d − 1 buckets = products of the pieces {origin}, left,
    right of every axis without the all-origin one; cumulated bucket masses; precomputed vectors for the axis buckets)
    from a non-negative box mass `M` that is additive under midpoint cuts, on a grid whose origin is strictly inside every
    axis, realise `M`: the cells of a grid state `s` other than the origin have total length `M (point s)` (the mass of
    its own cell), the origin and every state outside the grid get nothing.  With `draw_spec`: the set of `u > 0` sent to
    `s` has exactly that length.  (Exact arithmetic; in floats the last entry of an axis vector may fall a few ulps short
    of the bucket mass: known finding C02-adapted-nd-axis-bucket-float-sliver.) -/
theorem build_law (M : Box → Rat) (hadd : Additive M) (hnn : ∀ b, 0 ≤ M b) (low : Bool) (axes : List (Nat × Nat))
    (hw : WfAxes axes) (s : List Nat) :
    lengthOf (cells (build M low axes)) s = if inGrid s axes = true ∧ s ≠ originOf axes then M (point s) else 0 := by
  have hwb := wf_buckets axes hw
  have hc : Consistent (build M low axes).M (build M low axes).buckets 0 :=
    consistent_buildFrom M hadd hnn low (bucketBoxes axes) 0 hwb
  rw [law_of_cells (build M low axes) hadd hnn hc s]
  show ((buildFrom M low (bucketBoxes axes) 0).map (fun bk => bucketLaw M bk s)).sum = _
  rw [law_buildFrom M hadd hnn low s _ 0 hwb, sum_cellMass, hits_buckets axes s hw]
  split_ifs <;> simp

/-- **zero never / never the origin / never outside the grid**: with the built tables a state that is the origin, lies
    outside the grid or whose cell has mass 0 is returned for no `u > 0` -/
theorem build_zero_never (M : Box → Rat) (hadd : Additive M) (hnn : ∀ b, 0 ≤ M b) (low : Bool) (axes : List (Nat × Nat))
    (hw : WfAxes axes) (s : List Nat) (hz : ¬ (inGrid s axes = true ∧ s ≠ originOf axes) ∨ M (point s) = 0) (u : Rat)
    (hu : 0 < u) : draw (build M low axes) u ≠ some s := by
  intro hd
  obtain ⟨c, hc, hs, h1, h2⟩ := (draw_spec _ u hu s).mp hd
  have hl := build_law M hadd hnn low axes hw s
  have h0 : lengthOf (cells (build M low axes)) s = 0 := by
    rw [hl]; rcases hz with hz | hz
    · rw [if_neg hz]
    · split_ifs <;> simp [hz]
  have := Rpylib.Alias.sum_eq_zero_of_nonneg _ (by
    intro x hx
    obtain ⟨c', hc', rfl⟩ := List.mem_map.mp hx
    have := (cells_wellformed _ c' hc').2
    split_ifs <;> linarith) h0 (c.2.2 - c.2.1) (List.mem_map.mpr ⟨c, hc, by simp [hs]⟩)
  have := (cells_wellformed _ c hc).2
  linarith

/-- non-vacuity of the hypotheses: the counting measure of index boxes is non-negative and additive -/
def countM : Box → Rat := fun b => ((b.map (fun lr => lr.2 + 1 - lr.1)).prod : Nat)

theorem countM_set : ∀ (b : Box) (k l r l' r' : Nat), b[k]? = some (l, r) →
    (((b.set k (l', r')).map (fun lr => lr.2 + 1 - lr.1)).prod) * (r + 1 - l) = ((b.map (fun lr => lr.2 + 1 - lr.1)).prod) * (r' + 1 - l') := by
  intro b
  induction b with
  | nil => intro k l r l' r' h; simp at h
  | cons x b ih =>
    intro k l r l' r' h
    cases k with
    | zero =>
      simp only [List.getElem?_cons_zero, Option.some.injEq] at h; subst h
      simp only [List.set_cons_zero, List.map_cons, List.prod_cons]; ring
    | succ k =>
      simp only [List.getElem?_cons_succ] at h
      have := ih k l r l' r' h
      simp only [List.set_cons_succ, List.map_cons, List.prod_cons]
      rw [Nat.mul_assoc, this, Nat.mul_assoc]

theorem countM_additive : Additive countM ∧ ∀ b, 0 ≤ countM b := by
  refine ⟨?_, fun b => by unfold countM; exact_mod_cast Nat.zero_le _⟩
  intro b k l r hk hlt
  have h1 := countM_set b k l r l ((l + r) / 2) hk
  have h2 := countM_set b k l r ((l + r) / 2 + 1) r hk
  unfold countM
  have hpos : 0 < r + 1 - l := by omega
  have e : ((b.set k (l, (l + r) / 2)).map (fun lr => lr.2 + 1 - lr.1)).prod +
      ((b.set k ((l + r) / 2 + 1, r)).map (fun lr => lr.2 + 1 - lr.1)).prod = (b.map (fun lr => lr.2 + 1 - lr.1)).prod := by
    apply Nat.eq_of_mul_eq_mul_right hpos
    rw [Nat.add_mul, h1, h2, ← Nat.mul_add]
    congr 1; omega
  rw [← e]; push_cast; ring

/-- non-vacuity of `build_law`: a 3 x 4 grid (origins 1 and 2) with the counting measure: every non-origin state gets 1,
    the origin and an outside state 0 -/
example : [[0, 0], [1, 0], [1, 3], [2, 1], [1, 2], [3, 0]].map (lengthOf (cells (build countM true [(1, 3), (2, 4)])))
    = [1, 1, 1, 1, 0, 0] := by decide +kernel

/-- non-vacuity: a 2 x 2 index box behind an axis bucket; masses 1/4 | 1/8, 1/4, 1/4, 1/8 -/
def exM : Box → Rat := fun b =>
  if b = [(0, 0), (0, 1)] then 3/8 else if b = [(0, 0), (0, 0)] then 1/8 else if b = [(1, 1), (0, 0)] then 1/4
  else if b = [(0, 0), (1, 1)] then 1/4 else if b = [(1, 1), (1, 1)] then 1/8 else if b = [(1, 1), (0, 1)] then 3/8
  else if b = [(0, 1), (0, 1)] then 3/4 else 0
def exT : Tables := ⟨[⟨[(2, 2), (0, 0)], 1/4, true, [1/4]⟩, ⟨[(0, 1), (0, 1)], 1, false, []⟩], exM⟩
example : [1/8, 1/4, 5/16, 1/2, 3/4, 1, 9/8].map (draw exT) =
    [some [2, 0], some [2, 0], some [0, 0], some [0, 1], some [1, 0], some [1, 1], none] := by decide +kernel
example : [[2, 0], [0, 0], [0, 1], [1, 0], [1, 1], [2, 1]].map (lengthOf (cells exT)) = [1/4, 1/8, 1/4, 1/4, 1/8, 0] := by
  decide +kernel

end Rpylib.AdaptedNd
