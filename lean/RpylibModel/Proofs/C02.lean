/-
C02 — Every state sampler realises exactly the target law, independent of call history.  Property theorems only.
Models: RpylibModel/Model/Samplers/*.lean.  Helper lemmas: RpylibModel/Proofs/Lemmas/C02*.lean.

The "law" is stated without measure theory: for every sampler an explicit finite list of u-intervals per state
(`cells`) such that the draw function returns state `k` exactly on the cells of `k`, together with the total length
of the cells of `k`.
-/
import RpylibModel.Model.Samplers
import RpylibModel.Proofs.Lemmas.C02Inversion
import RpylibModel.Proofs.Lemmas.C02Alias
import RpylibModel.Proofs.Lemmas.C02AliasBuild
import RpylibModel.Proofs.Lemmas.C02Bst
import RpylibModel.Proofs.Lemmas.C02Huffman
import RpylibModel.Proofs.Lemmas.C02Adapted

set_option linter.dupNamespace false

/-! ## Inversion sampler (state machine with memo, storage cap, skip pointer) -/
namespace Rpylib.Inversion

/-- **history independence**: after *any* sequence `us` of earlier draws the state returned for `u` is the one a
    fresh instance returns (no skipped pairing index up to the frontier maximum, any storage cap ≥ 1). -/
theorem history_independent {e : Env} (hs : NoSkip e) (hp : Nonneg e) (hM : 1 ≤ e.maxStorage) {st0 : St}
    (h0 : init e = some st0) (us : List Rat) (u : Rat) :
    (step e (run e st0 us) u).2 = (step e st0 u).2 := by
  obtain ⟨st, hst, hI⟩ := init_spec hs hM
  rw [h0] at hst; cases hst
  exact IsFirst.unique (step_spec hs hp hM _ u (run_inv hs hp hM us _ hI)).1 (step_spec hs hp hM _ u hI).1

/-- a fresh instance exists as soon as index 0 is admissible -/
theorem init_exists {e : Env} (hs : NoSkip e) (hM : 1 ≤ e.maxStorage) : ∃ st0, init e = some st0 :=
  let ⟨st, h, _⟩ := init_spec hs hM; ⟨st, h⟩

/-- **draw spec**: after any history, state `k` is returned exactly for `c_{k-1} < u ≤ c_k` (`u ≤ c_0` for `k = 0`),
    `c` the canonical cumulative sums: the set of `u` sent to `k` is one interval of length `p_k`. -/
theorem draw_spec {e : Env} (hs : NoSkip e) (hp : Nonneg e) (hM : 1 ≤ e.maxStorage) {st0 : St}
    (h0 : init e = some st0) (us : List Rat) (u : Rat) (k : Nat) :
    (step e (run e st0 us) u).2 = some k ↔
      k ≤ e.maxFrontier ∧ u ≤ csum e k ∧ (k = 0 ∨ csum e (k - 1) < u) := by
  obtain ⟨st, hst, hI⟩ := init_spec hs hM
  rw [h0] at hst; cases hst
  have hF := (step_spec hs hp hM _ u (run_inv hs hp hM us _ hI)).1
  constructor
  · intro h; rw [h] at hF
    refine ⟨hF.1, hF.2.1, ?_⟩
    rcases Nat.eq_zero_or_pos k with h0 | hpos
    · exact Or.inl h0
    · exact Or.inr (hF.2.2 (k - 1) (by omega))
  · rintro ⟨h1, h2, h3⟩
    have : IsFirst e u (some k) := by
      refine ⟨h1, h2, ?_⟩
      intro j hj
      rcases h3 with h3 | h3
      · omega
      · exact lt_of_le_of_lt (csum_mono hp (by omega)) h3
    exact IsFirst.unique hF this

/-- the interval of state `k` has length `p_k` -/
theorem cell_length (e : Env) (k : Nat) : csum e (k + 1) - csum e k = e.p (k + 1) := by
  simp [csum]

theorem cell_length_zero (e : Env) : csum e 0 = e.p 0 := rfl

/-- **exhaustion only beyond the total mass**: the random frontier state (`none`) is returned exactly for
    `u > c_maxFrontier` (= the total mass, 1 for a probability vector) -/
theorem exhausted_iff {e : Env} (hs : NoSkip e) (hp : Nonneg e) (hM : 1 ≤ e.maxStorage) {st0 : St}
    (h0 : init e = some st0) (us : List Rat) (u : Rat) :
    (step e (run e st0 us) u).2 = none ↔ csum e e.maxFrontier < u := by
  obtain ⟨st, hst, hI⟩ := init_spec hs hM
  rw [h0] at hst; cases hst
  have hF := (step_spec hs hp hM _ u (run_inv hs hp hM us _ hI)).1
  constructor
  · intro h; rw [h] at hF; exact hF _ (le_refl _)
  · intro h
    have : IsFirst e u none := fun j hj => lt_of_le_of_lt (csum_mono hp hj) h
    exact IsFirst.unique hF this

/-- **zero never**: a state of probability 0 is not returned for any `u > 0` (for `u = 0`, a point of measure zero,
    the code returns the first state of the enumeration whatever its probability) -/
theorem zero_never {e : Env} (hs : NoSkip e) (hp : Nonneg e) (hM : 1 ≤ e.maxStorage) {st0 : St}
    (h0 : init e = some st0) (us : List Rat) (u : Rat) (hu : 0 < u) (k : Nat) (hk : e.p k = 0) :
    (step e (run e st0 us) u).2 ≠ some k := by
  intro h
  obtain ⟨_, h2, h3⟩ := (draw_spec hs hp hM h0 us u k).mp h
  rcases h3 with h3 | h3
  · subst h3; simp only [csum] at h2; rw [hk] at h2; exact absurd hu (not_lt.mpr h2)
  · cases k with
    | zero => simp only [Nat.zero_sub] at h3; linarith
    | succ k' => simp only [csum, Nat.add_sub_cancel] at h2 h3; rw [hk] at h2; linarith

/-- non-vacuity: a 4-state sampler with cap 2; the history crosses the cap and revisits the memo -/
def exEnv : Env := ⟨[true, true, true, true], 3, [1/4, 1/4, 1/4, 1/4], 2⟩
example : NoSkip exEnv := by intro xx h; have : xx ≤ 3 := h; rcases xx with _ | _ | _ | _ | n <;> first | rfl | omega
example : (init exEnv).map (fun st => (step exEnv (run exEnv st [7/8, 1/8, 1, 3/8]) (5/8)).2) = some (some 2) := by decide +kernel

/-- negation witness (known finding): with a *skipped* pairing index below the cap the reset of the skip pointer at
    `x = max_storage` (pairing.py:532-536) restarts the scan at pairing index `max_storage`, which was already
    consumed: index 2 is counted twice and `u = 3/4`, which belongs to state 3's interval (1/2, 1], returns state 2 -/
def skipEnv : Env := ⟨[true, false, true, true], 3, [1/4, 0, 1/4, 1/2], 2⟩
example : cellsGen skipEnv = [(0, 0, 1/4), (2, 1/4, 1/2), (3, 1/2, 1)] := by decide +kernel
example : (init skipEnv).map (fun st => (step skipEnv st (3/4)).2) = some (some 2) := by decide +kernel
example : (init { skipEnv with maxStorage := 10 }).map (fun st => (step { skipEnv with maxStorage := 10 } st (3/4)).2)
    = some (some 3) := by decide +kernel

end Rpylib.Inversion

/-! ## Alias sampler: draw on arbitrary tables, law induced by tables (certificate) -/
namespace Rpylib.Alias

theorem mem_cells (t : Tables) (c : Nat × Rat × Rat) :
    c ∈ cells t ↔ ∃ x, x < t.K ∧ (c = (x, (x : Rat) / t.K, ((x : Rat) + clamp01 (t.q x)) / t.K) ∨
      c = (t.J x, ((x : Rat) + clamp01 (t.q x)) / t.K, ((x : Rat) + 1) / t.K)) := by
  simp [cells, List.mem_flatMap]

/-- **draw spec** for *arbitrary* tables `(J, q)`: for `u ∈ [0,1)`, `_draw_with_u` returns `k` exactly when `u` lies
    in one of the explicit half-open cells of `k` -/
theorem draw_spec (t : Tables) (hK : 0 < t.K) (u : Rat) (h0 : 0 ≤ u) (h1 : u < 1) (k : Nat) :
    draw t u = k ↔ ∃ c ∈ cells t, c.1 = k ∧ c.2.1 ≤ u ∧ u < c.2.2 := by
  have hKq : (0 : Rat) < t.K := by exact_mod_cast hK
  obtain ⟨hx, hlo, hhi⟩ := col_bounds t hK h0 h1
  have hv0 : 0 ≤ (t.K : Rat) * u - (col t u : Rat) := by rw [div_le_iff₀ hKq] at hlo; linarith
  have hv1 : (t.K : Rat) * u - (col t u : Rat) < 1 := by rw [lt_div_iff₀ hKq] at hhi; linarith
  constructor
  · intro hd
    rw [draw_eq] at hd
    by_cases hq : (t.K : Rat) * u - (col t u : Rat) < t.q (col t u)
    · rw [if_pos hq] at hd
      refine ⟨_, (mem_cells t _).mpr ⟨col t u, hx, Or.inl rfl⟩, hd, hlo, ?_⟩
      have := (lt_clamp_iff hv0 hv1).mpr hq
      show u < _ / _
      rw [lt_div_iff₀ hKq]; linarith
    · rw [if_neg hq] at hd
      refine ⟨_, (mem_cells t _).mpr ⟨col t u, hx, Or.inr rfl⟩, hd, ?_, hhi⟩
      have := mt (lt_clamp_iff hv0 hv1).mp hq
      show _ / _ ≤ u
      rw [div_le_iff₀ hKq]; linarith
  · rintro ⟨c, hc, hk, hl, hr⟩
    obtain ⟨x, _, rfl | rfl⟩ := (mem_cells t c).mp hc
    · have hcb := clamp01_bounds (t.q x)
      simp only at hk hl hr
      have hr' : u < ((x : Rat) + 1) / t.K := lt_of_lt_of_le hr (by
        apply div_le_div_of_nonneg_right _ hKq.le; linarith)
      have hcx := col_of_mem t hK hl hr'
      rw [draw_eq, hcx]
      have hv : (t.K : Rat) * u - (x : Rat) < clamp01 (t.q x) := by rw [lt_div_iff₀ hKq] at hr; linarith
      rw [hcx] at hv0 hv1
      rw [if_pos ((lt_clamp_iff hv0 hv1).mp hv)]; exact hk
    · have hcb := clamp01_bounds (t.q x)
      simp only at hk hl hr
      have hl' : (x : Rat) / t.K ≤ u := le_trans (by
        apply div_le_div_of_nonneg_right _ hKq.le; linarith) hl
      have hcx := col_of_mem t hK hl' hr
      rw [draw_eq, hcx]
      have hv : ¬ (t.K : Rat) * u - (x : Rat) < clamp01 (t.q x) := by
        rw [div_le_iff₀ hKq] at hl; intro h; linarith
      rw [hcx] at hv0 hv1
      rw [if_neg (mt (lt_clamp_iff hv0 hv1).mpr hv)]; exact hk

/-- **certificate**: the total length of the cells of `k` is `lawOfTables t k`
    `= (Σ_x [x = k]·c_x + [J x = k]·(1 − c_x)) / K`, `c_x = clamp01 (q x)` -/
theorem law_of_cells (t : Tables) (k : Nat) : lengthOf (cells t) k = lawOfTables t k :=
  lengthOf_columns t.K t.q t.J k (List.range t.K)

theorem cells_wellformed (t : Tables) (hK : 0 < t.K) : ∀ c ∈ cells t, c.2.1 ≤ c.2.2 := by
  have hKq : (0 : Rat) < t.K := by exact_mod_cast hK
  intro c hc
  obtain ⟨x, _, rfl | rfl⟩ := (mem_cells t c).mp hc <;>
    (have := clamp01_bounds (t.q x); apply div_le_div_of_nonneg_right _ hKq.le; linarith)

/-- **zero never**: a state to which the tables give law 0 is not returned for any `u ∈ [0,1)` -/
theorem zero_never (t : Tables) (hK : 0 < t.K) (k : Nat) (hz : lawOfTables t k = 0) (u : Rat) (h0 : 0 ≤ u)
    (h1 : u < 1) : draw t u ≠ k := by
  intro h
  exact no_cell_of_length_zero (cells t) k (cells_wellformed t hK) (by rw [law_of_cells, hz]) u
    ((draw_spec t hK u h0 h1 k).mp h)

/-- the state returned is a column index or an alias entry: inside `0..K-1` as soon as `J` maps into it -/
theorem draw_lt (t : Tables) (hK : 0 < t.K) (hJ : ∀ x, x < t.K → t.J x < t.K) (u : Rat) (h0 : 0 ≤ u) (h1 : u < 1) :
    draw t u < t.K := by
  obtain ⟨hx, _, _⟩ := col_bounds t hK h0 h1
  rw [draw_eq]; split_ifs
  · exact hx
  · exact hJ _ hx

/-- **alias construction**: the Walker/Vose construction `create_alias` as coded (LIFO stacks, main loop, the two
    clean-up loops) realises the input vector: for every size `K > 0` and every `p ≥ 0` with `Σ_{l<K} p l = 1`, the
    law induced by the built tables is `p`.  (Vose invariant `K p_k = q_k + Σ_{j done, J_j = k}(1 − q_j)` and
    `Σ_live q = #live` over `mainLoop`; fuel `K` is never exhausted; in exact arithmetic both clean-up loops only
    overwrite entries that already equal 1.)  With `draw_spec` and `law_of_cells`: the set of `u` sent to `k` has
    total length `p k`. -/
theorem build_law (K : Nat) (hK : 0 < K) (p : Nat → Rat) (hp : ∀ l, l < K → 0 ≤ p l)
    (hsum : ((List.range K).map p).sum = 1) (k : Nat) (hk : k < K) : lawOfTables (build K p) k = p k :=
  build_law_finset K hK p hp (by rw [← list_range_sum]; exact hsum) k hk

/-- the u-cells of the built tables have total length `p k`, and a state with `p k = 0` is never returned -/
theorem build_realises (K : Nat) (hK : 0 < K) (p : Nat → Rat) (hp : ∀ l, l < K → 0 ≤ p l)
    (hsum : ((List.range K).map p).sum = 1) (k : Nat) (hk : k < K) :
    lengthOf (cells (build K p)) k = p k ∧
      (p k = 0 → ∀ u, 0 ≤ u → u < 1 → draw (build K p) u ≠ k) := by
  have hb := build_law K hK p hp hsum k hk
  have hKb : 0 < (build K p).K := hK
  refine ⟨by rw [law_of_cells, hb], fun hz u h0 h1 => zero_never (build K p) hKb k (by rw [hb, hz]) u h0 h1⟩

/-- non-vacuity: the tables built by `create_alias` for p = (1/8, 1/2, 1/4, 1/8) realise p -/
example : (List.range 4).map (lawOfTables (build 4 (fun i => [1/8, 1/2, 1/4, 1/8].getD i 0))) = [1/8, 1/2, 1/4, 1/8] := by
  decide +kernel

end Rpylib.Alias

/-! ## Binary search tree on an implicit heap: draw on arbitrary threshold tables -/
namespace Rpylib.Bst
open Rpylib.Alias (lengthOf)

/-- **draw spec** for an *arbitrary* threshold table: for `u ∈ [0,1)` the descent returns `k` exactly when `u` lies in
    one of the explicit cells of `k` (cells are non-empty, pairwise disjoint by this equivalence, and inside `[0,1)`) -/
theorem draw_spec (K : Nat) (bst : Nat → Rat) (u : Rat) (h0 : 0 ≤ u) (h1 : u < 1) (k : Nat) :
    draw K bst u = k ↔ ∃ c ∈ cells K bst, c.1 = k ∧ c.2.1 ≤ u ∧ u < c.2.2 := by
  have hf : K < 1 * 2 ^ (K + 1) := by
    have : K + 1 < 2 ^ (K + 1) := Nat.lt_two_pow_self
    omega
  obtain ⟨⟨c, hc, e1, e2, e3⟩, hb⟩ := descend_cells K bst u (K + 1) 1 0 1 hf h0 h1
  constructor
  · intro h; exact ⟨c, hc, by rw [e1]; exact h, e2, e3⟩
  · rintro ⟨c', hc', rfl, hl, hr⟩; exact (hb c' hc' hl hr).symm

/-- every cell is a non-empty sub-interval of `[0,1)` -/
theorem cells_wellformed (K : Nat) (bst : Nat → Rat) : ∀ c ∈ cells K bst, 0 ≤ c.2.1 ∧ c.2.2 ≤ 1 ∧ c.2.1 < c.2.2 :=
  cellsFrom_bounds K bst (K + 1) 1 0 1

/-- **zero never**: a state whose cells have total length 0 (i.e. no cell at all) is never returned -/
theorem zero_never (K : Nat) (bst : Nat → Rat) (k : Nat) (hz : lengthOf (cells K bst) k = 0) (u : Rat) (h0 : 0 ≤ u)
    (h1 : u < 1) : draw K bst u ≠ k := by
  intro h
  exact Rpylib.Alias.no_cell_of_length_zero (cells K bst) k (fun c hc => (cells_wellformed K bst c hc).2.2.le) hz u
    ((draw_spec K bst u h0 h1 k).mp h)

/-
Full statement NOT proved (see NOT_PROVED): for p ≥ 0 with Σ p = 1,
  `lengthOf (cells K (build K p)) k = p k` for every state k ≤ K
(the in-order walk gives node `ptr` the sum of the leaves before it).  The check applies the proved `draw_spec` to the
array the implementation built and compares the lengths with p; the model's `build` is compared with the
implementation's array exactly on the dyadic stream.
-/
/-- partial: the construction realises p on a concrete 4-state vector (K = 3, tree not perfect) -/
theorem build_law_partial :
    (List.range 4).map (lengthOf (cells 3 (build 3 (fun i => [1/8, 1/2, 1/4, 1/8].getD i 0)))) = [1/8, 1/2, 1/4, 1/8] := by
  decide +kernel

end Rpylib.Bst

/-! ## Huffman tree: draw spec, law, construction with an arbitrary insertion position -/
namespace Rpylib.Huffman
open Rpylib.Alias (lengthOf)

/-- **draw spec**: on a consistent tree, for `u ∈ [0, value)`, subtract-and-descend returns `k` exactly when `u` lies
    in one of the cells of `k` -/
theorem draw_spec (t : Tree) (hw : Wf t) (u : Rat) (h0 : 0 ≤ u) (h1 : u < t.value) (k : Nat) :
    draw t u = k ↔ ∃ c ∈ cells t, c.1 = k ∧ c.2.1 ≤ u ∧ u < c.2.2 := by
  obtain ⟨⟨c, hc, e1, e2, e3⟩, hb⟩ := draw_cells u t 0 hw h0 (by linarith)
  simp only [sub_zero] at e1 hb
  constructor
  · intro h; exact ⟨c, hc, by rw [e1]; exact h, e2, e3⟩
  · rintro ⟨c', hc', rfl, hl, hr⟩; exact (hb c' hc' hl hr).symm

/-- **law**: the cells of `k` have total length = the probability carried by the leaves of state `k` -/
theorem law_of_cells (t : Tree) (k : Nat) : lengthOf (cells t) k = law t k := lengthOf_cellsFrom t 0 k

theorem sum_indicator (f : Nat → Rat) (k : Nat) : ∀ n, ((List.range n).map (fun i => if i = k then f i else 0)).sum =
    if k < n then f k else 0 := by
  intro n
  induction n with
  | zero => simp
  | succ n ih =>
    rw [List.range_succ, List.map_append, List.sum_append, ih]
    by_cases h1 : k < n
    · have : n ≠ k := by omega
      simp [h1, this, Nat.lt_succ_of_lt h1]
    · by_cases h2 : n = k
      · subst h2; simp
      · have : ¬ k < n + 1 := by omega
        simp [h1, h2, this]

/-- **construction**: `create_huffman_tree(p)` (p ≥ 0, non-empty) returns a consistent tree whose law is `p`; the proof
    uses nothing about *where* `Heap.insert` puts the merged node (`lawForest_insertAt` holds for every index), so the
    out-of-step `_values` list of the code only affects the cost -/
theorem build_law (p : List Rat) (hp : ∀ i, 0 ≤ p.getD i 0) (hn : p ≠ []) :
    ∃ t, build p = some t ∧ Wf t ∧ (∀ k, law t k = p.getD k 0) ∧
      t.value = ((List.range p.length).map (fun i => p.getD i 0)).sum := by
  have hlen : 0 < p.length := List.length_pos_iff.mpr hn
  have hleavesWf : ∀ t ∈ leavesOf p, Wf t := by
    intro t ht
    obtain ⟨i, _, rfl⟩ := List.mem_map.mp ht
    exact hp i
  have hl0 : (leavesOf p).length = p.length := by simp [leavesOf]
  have h0 : (mkHeap (leavesOf p)).nodes.length = (p.length - 1) + 1 := by
    simp only [mkHeap]; rw [(sortDesc_spec 0 (leavesOf p)).2.2.1, hl0]; omega
  have hw0 : ∀ t ∈ (mkHeap (leavesOf p)).nodes, Wf t := by
    intro t ht; simp only [mkHeap] at ht
    exact hleavesWf t (((sortDesc_spec 0 (leavesOf p)).2.2.2 t).mp ht)
  obtain ⟨a, b, _, d⟩ := merges_spec 0 (p.length - 1) _ h0 hw0
  obtain ⟨t, ht⟩ : ∃ t, (merges (p.length - 1) (mkHeap (leavesOf p))).nodes = [t] := List.length_eq_one_iff.mp a
  refine ⟨t, by simp [build, ht], b t (by simp [ht]), ?_, ?_⟩
  · intro k
    obtain ⟨_, _, c, _⟩ := merges_spec k (p.length - 1) _ h0 hw0
    rw [ht, lawForest_single] at c
    rw [c]; simp only [mkHeap]; rw [(sortDesc_spec k (leavesOf p)).1]
    simp only [lawForest, leavesOf, List.map_map, Function.comp_def, law]
    rw [sum_indicator (fun i => p.getD i 0) k p.length]
    split_ifs with h
    · rfl
    · simp [List.getD, List.getElem?_eq_none (Nat.le_of_not_lt h)]
  · rw [ht, valueForest_single] at d
    rw [d]; simp only [mkHeap]; rw [(sortDesc_spec 0 (leavesOf p)).2.1]
    simp [valueForest, leavesOf, Function.comp_def, Tree.value]

/-- **build realises p**: for every probability vector `p ≥ 0` the tree built by the code sends, for `u` below the total
    mass, exactly the cells of `k` to `k`, and their total length is `p_k`; in particular (**zero never**) a state with
    `p_k = 0` is never returned -/
theorem build_realises (p : List Rat) (hp : ∀ i, 0 ≤ p.getD i 0) (hn : p ≠ []) :
    ∃ t, build p = some t ∧ (∀ k, lengthOf (cells t) k = p.getD k 0) ∧
      ∀ u, 0 ≤ u → u < t.value → ∀ k, (draw t u = k ↔ ∃ c ∈ cells t, c.1 = k ∧ c.2.1 ≤ u ∧ u < c.2.2) ∧
        (p.getD k 0 = 0 → draw t u ≠ k) := by
  obtain ⟨t, hb, hw, hl, _⟩ := build_law p hp hn
  refine ⟨t, hb, fun k => by rw [law_of_cells, hl], ?_⟩
  intro u h0 h1 k
  refine ⟨draw_spec t hw u h0 h1 k, ?_⟩
  intro hz hd
  exact Rpylib.Alias.no_cell_of_length_zero (cells t) k
    (fun c hc => (cellsFrom_bounds t 0 hw c hc).2.2) (by rw [law_of_cells, hl, hz]) u ((draw_spec t hw u h0 h1 k).mp hd)

/-- non-vacuity: the code's merge order on p = (1/8, 1/2, 1/4, 1/8) -/
example : (build [1/8, 1/2, 1/4, 1/8]).map shape = some [-1, -1, 2, -1, 3, 0, 1] := by decide +kernel

end Rpylib.Huffman

/-! ## Table method (256 slots + residual alias): law of the idealised sampler -/
namespace Rpylib.Table

/-
Full statement NOT proved: `∀ p ≥ 0, Σ p = 1, build n p = some t → ∀ k < n, lawOfTables t k = p k`.
Proved part: the algebra of slots + residual, *given* (a) the slot counts of `slotsOf` (`k_i` copies of `i`,
`256 − Σ k_i = Σ θ_i` copies of −1 when Σ p = 1; compared exactly with the implementation's table) and (b) that the
residual alias tables realise `θ / Σθ` (alias construction: certificate `Alias.law_of_cells`).
-/
/-- partial: slots + residual realise `p_k` -/
theorem law_partial (t : Tables) (n : Nat) (p : Nat → Rat) (k : Nat)
    (hk : (slotCount t (k : Int) : Rat) = ((((256 : Rat) * p k).floor.toNat : Nat) : Rat))
    (hres : (slotCount t (-1) : Rat) = thetaSum n p) (hS : 0 < thetaSum n p)
    (hr : Alias.lawOfTables t.resid k = theta p k / thetaSum n p) : lawOfTables t k = p k := by
  unfold lawOfTables
  rw [hk, hres, hr, mul_div_cancel₀ _ (ne_of_gt hS)]
  unfold theta; ring

/-- the low byte of the 32-bit integer shifts the residual uniform by less than 2^-24 -/
theorem low_byte_shift (i : Nat) : (i : Rat) / 4294967296 - ((i / 256 * 256 : Nat) : Rat) / 4294967296 < 1 / 16777216 := by
  have h : i - i / 256 * 256 < 256 := by omega
  have h2 : i / 256 * 256 ≤ i := Nat.div_mul_le_self i 256
  have : ((i : Rat) - ((i / 256 * 256 : Nat) : Rat)) < 256 := by
    have : ((i - i / 256 * 256 : Nat) : Rat) < 256 := by exact_mod_cast h
    rw [Nat.cast_sub h2] at this; exact this
  rw [← sub_div, div_lt_iff₀ (by norm_num)]; linarith

/-- non-vacuity: `create_table` on p = (1/3, 2/3): 85 + 170 slots, one residual slot, residual law (1/3, 2/3) -/
example : (build 2 (fun i => [1/3, 2/3].getD i 0)).map (fun t => (List.range 2).map (lawOfTables t)) = some [1/3, 2/3] := by
  decide +kernel

end Rpylib.Table

/-! ## One-dimensional adapted bisection (cell masses `w`, `P l r = Σ w`) -/
namespace Rpylib.Adapted

/-- **draw spec**, left side (`u ≤ pLeft`): the index returned is the first `k ≤ o-1` with `u ≤ Σ_{i≤k} w i`
    (`o-1` if there is none): state `k` receives the interval `(Σ_{i<k} w, Σ_{i≤k} w]` of length `w k` -/
theorem draw_spec_left (w : Nat → Rat) (n o : Nat) (pLeft u : Rat) (ho : 0 < o) (hon : o ≤ n) (hu : u ≤ pLeft) :
    draw w n o pLeft u ≤ o - 1 ∧ (0 < draw w n o pLeft u → pre w (draw w n o pLeft u) < u) ∧
      (draw w n o pLeft u < o - 1 → u ≤ pre w (draw w n o pLeft u + 1)) := by
  unfold draw
  rw [if_neg (not_lt.mpr hu)]
  obtain ⟨_, b, c, d⟩ := bisect_spec w n 0 (o - 1) u (Nat.zero_le _) (by omega)
  simp only [pre, add_zero] at c d
  exact ⟨b, c, d⟩

/-- **draw spec**, right side (`u > pLeft`): the first `k ∈ [o+1, n-1]` with `u − pLeft ≤ Σ_{o+1≤i≤k} w i` -/
theorem draw_spec_right (w : Nat → Rat) (n o : Nat) (pLeft u : Rat) (hon : o + 1 ≤ n - 1) (hu : pLeft < u) :
    o + 1 ≤ draw w n o pLeft u ∧ draw w n o pLeft u ≤ n - 1 ∧
      (o + 1 < draw w n o pLeft u → pLeft + (pre w (draw w n o pLeft u) - pre w (o + 1)) < u) ∧
      (draw w n o pLeft u < n - 1 → u ≤ pLeft + (pre w (draw w n o pLeft u + 1) - pre w (o + 1))) := by
  unfold draw
  rw [if_pos hu]
  obtain ⟨a, b, c, d⟩ := bisect_spec w n (o + 1) (n - 1) (u - pLeft) hon (by omega)
  exact ⟨a, b, fun h => by have := c h; linarith, fun h => by have := d h; linarith⟩

/-- the interval of state `k` has length `w k` -/
theorem cell_length (w : Nat → Rat) (k : Nat) : pre w (k + 1) - pre w k = w k := by simp [pre]

/-- the origin is never returned, whatever the tables -/
theorem origin_never (w : Nat → Rat) (n o : Nat) (pLeft u : Rat) (ho : 0 < o) (hon : o + 1 ≤ n - 1) :
    draw w n o pLeft u ≠ o := by
  by_cases hu : pLeft < u
  · have := (draw_spec_right w n o pLeft u hon hu).1; omega
  · have := (draw_spec_left w n o pLeft u ho (by omega) (not_lt.mp hu)).1; omega

/-- **zero never** (interior states; `0 < u`): a state with `w k = 0` that is not the outermost index of its side is
    never returned; for the outermost indices it follows when `pLeft = Σ_{i<o} w` and the total mass is 1 -/
theorem zero_never_left (w : Nat → Rat) (n o : Nat) (pLeft u : Rat) (ho : 0 < o) (hon : o ≤ n) (hu : u ≤ pLeft) (h0 : 0 < u)
    (k : Nat) (hk : k < o - 1) (hz : w k = 0) : draw w n o pLeft u ≠ k := by
  intro h
  obtain ⟨_, b, c⟩ := draw_spec_left w n o pLeft u ho hon hu
  rw [h] at b c
  have hc := c hk
  simp only [pre] at hc; rw [hz] at hc
  rcases Nat.eq_zero_or_pos k with rfl | hp
  · simp only [pre] at hc; linarith
  · have := b hp; linarith

theorem zero_never_right (w : Nat → Rat) (n o : Nat) (pLeft u : Rat) (hon : o + 1 ≤ n - 1) (hu : pLeft < u)
    (k : Nat) (hk : k < n - 1) (hz : w k = 0) : draw w n o pLeft u ≠ k := by
  intro h
  obtain ⟨a, _, c, d⟩ := draw_spec_right w n o pLeft u hon hu
  rw [h] at a c d
  have hd := d hk
  have e : pre w (k + 1) = pre w k + w k := rfl
  rw [e, hz] at hd
  rcases Nat.lt_or_ge (o + 1) k with hp | hp
  · have := c hp; linarith
  · have : k = o + 1 := by omega
    subst this; linarith

/-- negation witness for known finding #25 is behavioural (the model takes the arithmetic-cell masses `w` as input; on a
    probability-step grid these differ from the chain's rates): see known_findings.d/C02.json.  Non-vacuity: -/
example : (List.map (draw (fun i => [1/8, 1/8, 0, 1/4, 1/2].getD i 0) 5 2 (1/4)) [1/16, 1/8, 3/16, 3/8, 1/2, 5/8, 1])
    = [0, 0, 1, 3, 3, 4, 4] := by decide +kernel

end Rpylib.Adapted
