/-
C02 — Every state sampler realises exactly the target law, independent of call history.  Property theorems only.
Models: RpylibModel/Model/Samplers/*.lean.  Helper lemmas: RpylibModel/Proofs/Lemmas/C02*.lean.

The "law" is stated without measure theory: for every sampler an explicit finite list of u-intervals per state
(`cells`) such that the draw function returns state `k` exactly on the cells of `k`, together with the total length
of the cells of `k`.
-/
import RpylibModel.Model.Samplers
import RpylibModel.Proofs.Lemmas.C02Inversion

set_option linter.dupNamespace false

/-! ## Inversion sampler (state machine with memo, storage cap, skip pointer) -/
namespace Rpylib.Inversion

/-- **history independence**: after *any* sequence `us` of earlier draws the state returned for `u` is the one a
    fresh instance returns (no skipped pairing index up to the frontier maximum, any storage cap ≥ 1). -/
theorem history_independent {e : Env} (hs : NoSkip e) (hp : Nonneg e) (hM : 1 ≤ e.maxStorage) {st0 : St}
    (h0 : init e = some st0) (us : List Rat) (u : Rat) :
    (step e (run e st0 us) u).2 = (step e st0 u).2 := by
  obtain ⟨st, hst, hI⟩ := init_spec hs hM
  rw [h0] at hst; cases hst
  exact IsFirst.unique (step_spec hs hp hM _ u (run_inv hs hp hM us _ hI)).1 (step_spec hs hp hM _ u hI).1

/-- a fresh instance exists as soon as index 0 is admissible -/
theorem init_exists {e : Env} (hs : NoSkip e) (hM : 1 ≤ e.maxStorage) : ∃ st0, init e = some st0 :=
  let ⟨st, h, _⟩ := init_spec hs hM; ⟨st, h⟩

/-- **draw spec**: after any history, state `k` is returned exactly for `c_{k-1} < u ≤ c_k` (`u ≤ c_0` for `k = 0`),
    `c` the canonical cumulative sums: the set of `u` sent to `k` is one interval of length `p_k`. -/
theorem draw_spec {e : Env} (hs : NoSkip e) (hp : Nonneg e) (hM : 1 ≤ e.maxStorage) {st0 : St}
    (h0 : init e = some st0) (us : List Rat) (u : Rat) (k : Nat) :
    (step e (run e st0 us) u).2 = some k ↔
      k ≤ e.maxFrontier ∧ u ≤ csum e k ∧ (k = 0 ∨ csum e (k - 1) < u) := by
  obtain ⟨st, hst, hI⟩ := init_spec hs hM
  rw [h0] at hst; cases hst
  have hF := (step_spec hs hp hM _ u (run_inv hs hp hM us _ hI)).1
  constructor
  · intro h; rw [h] at hF
    refine ⟨hF.1, hF.2.1, ?_⟩
    rcases Nat.eq_zero_or_pos k with h0 | hpos
    · exact Or.inl h0
    · exact Or.inr (hF.2.2 (k - 1) (by omega))
  · rintro ⟨h1, h2, h3⟩
    have : IsFirst e u (some k) := by
      refine ⟨h1, h2, ?_⟩
      intro j hj
      rcases h3 with h3 | h3
      · omega
      · exact lt_of_le_of_lt (csum_mono hp (by omega)) h3
    exact IsFirst.unique hF this

/-- the interval of state `k` has length `p_k` -/
theorem cell_length (e : Env) (k : Nat) : csum e (k + 1) - csum e k = e.p (k + 1) := by
  simp [csum]

theorem cell_length_zero (e : Env) : csum e 0 = e.p 0 := rfl

/-- **exhaustion only beyond the total mass**: the random frontier state (`none`) is returned exactly for
    `u > c_maxFrontier` (= the total mass, 1 for a probability vector) -/
theorem exhausted_iff {e : Env} (hs : NoSkip e) (hp : Nonneg e) (hM : 1 ≤ e.maxStorage) {st0 : St}
    (h0 : init e = some st0) (us : List Rat) (u : Rat) :
    (step e (run e st0 us) u).2 = none ↔ csum e e.maxFrontier < u := by
  obtain ⟨st, hst, hI⟩ := init_spec hs hM
  rw [h0] at hst; cases hst
  have hF := (step_spec hs hp hM _ u (run_inv hs hp hM us _ hI)).1
  constructor
  · intro h; rw [h] at hF; exact hF _ (le_refl _)
  · intro h
    have : IsFirst e u none := fun j hj => lt_of_le_of_lt (csum_mono hp hj) h
    exact IsFirst.unique hF this

/-- **zero never**: a state of probability 0 is not returned for any `u > 0` (for `u = 0`, a point of measure zero,
    the code returns the first state of the enumeration whatever its probability) -/
theorem zero_never {e : Env} (hs : NoSkip e) (hp : Nonneg e) (hM : 1 ≤ e.maxStorage) {st0 : St}
    (h0 : init e = some st0) (us : List Rat) (u : Rat) (hu : 0 < u) (k : Nat) (hk : e.p k = 0) :
    (step e (run e st0 us) u).2 ≠ some k := by
  intro h
  obtain ⟨_, h2, h3⟩ := (draw_spec hs hp hM h0 us u k).mp h
  rcases h3 with h3 | h3
  · subst h3; simp only [csum] at h2; rw [hk] at h2; exact absurd hu (not_lt.mpr h2)
  · cases k with
    | zero => simp only [Nat.zero_sub] at h3; linarith
    | succ k' => simp only [csum, Nat.add_sub_cancel] at h2 h3; rw [hk] at h2; linarith

/-- non-vacuity: a 4-state sampler with cap 2; the history crosses the cap and revisits the memo -/
def exEnv : Env := ⟨[true, true, true, true], 3, [1/4, 1/4, 1/4, 1/4], 2⟩
example : NoSkip exEnv := by intro xx h; have : xx ≤ 3 := h; rcases xx with _ | _ | _ | _ | n <;> first | rfl | omega
example : (init exEnv).map (fun st => (step exEnv (run exEnv st [7/8, 1/8, 1, 3/8]) (5/8)).2) = some (some 2) := by decide +kernel

/-- negation witness (known finding): with a *skipped* pairing index below the cap the reset of the skip pointer at
    `x = max_storage` (pairing.py:532-536) restarts the scan at pairing index `max_storage`, which was already
    consumed: index 2 is counted twice and `u = 3/4`, which belongs to state 3's interval (1/2, 1], returns state 2 -/
def skipEnv : Env := ⟨[true, false, true, true], 3, [1/4, 0, 1/4, 1/2], 2⟩
example : cellsGen skipEnv = [(0, 0, 1/4), (2, 1/4, 1/2), (3, 1/2, 1)] := by decide +kernel
example : (init skipEnv).map (fun st => (step skipEnv st (3/4)).2) = some (some 2) := by decide +kernel
example : (init { skipEnv with maxStorage := 10 }).map (fun st => (step { skipEnv with maxStorage := 10 } st (3/4)).2)
    = some (some 3) := by decide +kernel

end Rpylib.Inversion

/-! ## Alias sampler: draw on arbitrary tables, law induced by tables (certificate) -/
namespace Rpylib.Alias

theorem mem_cells (t : Tables) (c : Nat × Rat × Rat) :
    c ∈ cells t ↔ ∃ x, x < t.K ∧ (c = (x, (x : Rat) / t.K, ((x : Rat) + clamp01 (t.q x)) / t.K) ∨
      c = (t.J x, ((x : Rat) + clamp01 (t.q x)) / t.K, ((x : Rat) + 1) / t.K)) := by
  simp [cells, List.mem_flatMap]

/-- **draw spec** for *arbitrary* tables `(J, q)`: for `u ∈ [0,1)`, `_draw_with_u` returns `k` exactly when `u` lies
    in one of the explicit half-open cells of `k` -/
theorem draw_spec (t : Tables) (hK : 0 < t.K) (u : Rat) (h0 : 0 ≤ u) (h1 : u < 1) (k : Nat) :
    draw t u = k ↔ ∃ c ∈ cells t, c.1 = k ∧ c.2.1 ≤ u ∧ u < c.2.2 := by
  have hKq : (0 : Rat) < t.K := by exact_mod_cast hK
  obtain ⟨hx, hlo, hhi⟩ := col_bounds t hK h0 h1
  have hv0 : 0 ≤ (t.K : Rat) * u - (col t u : Rat) := by rw [div_le_iff₀ hKq] at hlo; linarith
  have hv1 : (t.K : Rat) * u - (col t u : Rat) < 1 := by rw [lt_div_iff₀ hKq] at hhi; linarith
  constructor
  · intro hd
    rw [draw_eq] at hd
    by_cases hq : (t.K : Rat) * u - (col t u : Rat) < t.q (col t u)
    · rw [if_pos hq] at hd
      refine ⟨_, (mem_cells t _).mpr ⟨col t u, hx, Or.inl rfl⟩, hd, hlo, ?_⟩
      have := (lt_clamp_iff hv0 hv1).mpr hq
      show u < _ / _
      rw [lt_div_iff₀ hKq]; linarith
    · rw [if_neg hq] at hd
      refine ⟨_, (mem_cells t _).mpr ⟨col t u, hx, Or.inr rfl⟩, hd, ?_, hhi⟩
      have := mt (lt_clamp_iff hv0 hv1).mp hq
      show _ / _ ≤ u
      rw [div_le_iff₀ hKq]; linarith
  · rintro ⟨c, hc, hk, hl, hr⟩
    obtain ⟨x, _, rfl | rfl⟩ := (mem_cells t c).mp hc
    · have hcb := clamp01_bounds (t.q x)
      simp only at hk hl hr
      have hr' : u < ((x : Rat) + 1) / t.K := lt_of_lt_of_le hr (by
        apply div_le_div_of_nonneg_right _ hKq.le; linarith)
      have hcx := col_of_mem t hK hl hr'
      rw [draw_eq, hcx]
      have hv : (t.K : Rat) * u - (x : Rat) < clamp01 (t.q x) := by rw [lt_div_iff₀ hKq] at hr; linarith
      rw [hcx] at hv0 hv1
      rw [if_pos ((lt_clamp_iff hv0 hv1).mp hv)]; exact hk
    · have hcb := clamp01_bounds (t.q x)
      simp only at hk hl hr
      have hl' : (x : Rat) / t.K ≤ u := le_trans (by
        apply div_le_div_of_nonneg_right _ hKq.le; linarith) hl
      have hcx := col_of_mem t hK hl' hr
      rw [draw_eq, hcx]
      have hv : ¬ (t.K : Rat) * u - (x : Rat) < clamp01 (t.q x) := by
        rw [div_le_iff₀ hKq] at hl; intro h; linarith
      rw [hcx] at hv0 hv1
      rw [if_neg (mt (lt_clamp_iff hv0 hv1).mpr hv)]; exact hk

/-- **certificate**: the total length of the cells of `k` is `lawOfTables t k`
    `= (Σ_x [x = k]·c_x + [J x = k]·(1 − c_x)) / K`, `c_x = clamp01 (q x)` -/
theorem law_of_cells (t : Tables) (k : Nat) : lengthOf (cells t) k = lawOfTables t k :=
  lengthOf_columns t.K t.q t.J k (List.range t.K)

theorem cells_wellformed (t : Tables) (hK : 0 < t.K) : ∀ c ∈ cells t, c.2.1 ≤ c.2.2 := by
  have hKq : (0 : Rat) < t.K := by exact_mod_cast hK
  intro c hc
  obtain ⟨x, _, rfl | rfl⟩ := (mem_cells t c).mp hc <;>
    (have := clamp01_bounds (t.q x); apply div_le_div_of_nonneg_right _ hKq.le; linarith)

/-- **zero never**: a state to which the tables give law 0 is not returned for any `u ∈ [0,1)` -/
theorem zero_never (t : Tables) (hK : 0 < t.K) (k : Nat) (hz : lawOfTables t k = 0) (u : Rat) (h0 : 0 ≤ u)
    (h1 : u < 1) : draw t u ≠ k := by
  intro h
  exact no_cell_of_length_zero (cells t) k (cells_wellformed t hK) (by rw [law_of_cells, hz]) u
    ((draw_spec t hK u h0 h1 k).mp h)

/-- the state returned is a column index or an alias entry: inside `0..K-1` as soon as `J` maps into it -/
theorem draw_lt (t : Tables) (hK : 0 < t.K) (hJ : ∀ x, x < t.K → t.J x < t.K) (u : Rat) (h0 : 0 ≤ u) (h1 : u < 1) :
    draw t u < t.K := by
  obtain ⟨hx, _, _⟩ := col_bounds t hK h0 h1
  rw [draw_eq]; split_ifs
  · exact hx
  · exact hJ _ hx

/-- non-vacuity: the tables built by `create_alias` for p = (1/8, 1/2, 1/4, 1/8) realise p -/
example : (List.range 4).map (lawOfTables (build 4 (fun i => [1/8, 1/2, 1/4, 1/8].getD i 0))) = [1/8, 1/2, 1/4, 1/8] := by
  decide +kernel

end Rpylib.Alias
