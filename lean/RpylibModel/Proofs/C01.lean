/-
C01 — CTMC jump rates are the Lévy-measure masses of the grid cells (1-d and copula).   Property theorems only.
Model: RpylibModel/Model/Cells.lean (+ Model/Grid.lean for `refine`).  Helper lemmas: Proofs/Lemmas/C01*.lean.

Quantification: every axis (`AxisOK`: strictly increasing, the value 0 at an interior index `o`), every cell-boundary
function `mid` strictly inside its gap (`Between`) with `mid a a = a` (`MidIdem`; the clamped ends), every interval
mass `m` that is additive and non-negative on intervals strictly on one side of 0 (`IsMass`), every rectangle mass that
is additive under splits at points ≠ 0 and non-negative on rectangles away from the origin (`IsBoxMass2/3`).  The axes
of an n-d grid may have different lengths (per-axis clamp of `right_point` since /repo 56f1018).

General dimension d (the generic `_mass_nd` branch: `blocks`, `intensityNd`, `rateNd`, `qTensor`, `states` are
dimension-generic in the model): Lemmas/C01Nd*.lean prove, for every list of axes and every box mass `IsBoxMassN` (additive under
a split of any one coordinate at a point ≠ 0, non-negative, on boxes away from the origin; `IsBoxMass2/3` and the Lebesgue
product measure are instances), `sum_rates_eq_intensity_nd`, `rates_nonneg_nd`, and the combinatorial core
`nonorigin_state_in_exactly_one_block` / `block_states` / `blocks_length` (the 3^d − 1 blocks partition the non-origin states).
-/
import RpylibModel.Proofs.Lemmas.C01Basic
import Mathlib.Algebra.BigOperators.Field
import RpylibModel.Proofs.Lemmas.C01Box
import RpylibModel.Proofs.Lemmas.C01Step
import RpylibModel.Proofs.Lemmas.C01NdPartition

set_option linter.dupNamespace false
set_option linter.unusedVariables false
set_option linter.unusedSectionVars false

namespace Rpylib.Cells
open Rpylib.Grid Finset

/-! ### the axis hypotheses, and where they come from -/

/-- what C13 delivers for every axis of a well-formed grid -/
theorem axisOK_of_wellFormed (g : Grid) (hg : WellFormed g) (ax : List ℚ) (hax : ax ∈ g.axes) : AxisOK ax g.origin := by
  obtain ⟨hh, ho, h⟩ := hg
  obtain ⟨hs, hl, hz, hr⟩ := h ax hax
  refine ⟨hs, ho, ?_, ?_⟩
  · by_contra hc
    have : ax[g.origin + 1]? = none := List.getElem?_eq_none (by omega)
    rw [this] at hr; exact absurd hr (by simp)
  · unfold pt; rw [List.getD_eq_getElem?_getD, hz]; rfl

/-! ### the cells tile the truncated support, each state lies in its own cell -/

/-- consecutive cells share their boundary: no gap, no overlap -/
theorem cells_tile (mid : ℚ → ℚ → ℚ) (ax : List ℚ) (k : ℕ) (hk : k + 1 < ax.length) :
    cellHi mid ax k = cellLo mid ax (k + 1) := by
  unfold cellHi; rw [cellHiN_lt mid _ ax k hk, cellLo_succ]

/-- the first cell starts at the first point of the axis, the last cell ends at the last point: the union of the
    cells is the truncated support `[axis[0], axis[-1]]` -/
theorem cells_ends (mid : ℚ → ℚ → ℚ) (hi : MidIdem mid) (ax : List ℚ) (hn : 0 < ax.length) :
    cellLo mid ax 0 = pt ax 0 ∧ cellHi mid ax (ax.length - 1) = pt ax (ax.length - 1) := by
  constructor
  · unfold cellLo; rw [leftPoint_eq]; simp only [Nat.zero_sub]; rw [hi]
  · unfold cellHi cellHiN; rw [rightPointN_last _ ax _ (by omega), hi]

/-- every cell of an axis with at least two points has non-empty interior -/
theorem cell_nondegenerate (mid : ℚ → ℚ → ℚ) (hm : Between mid) (hi : MidIdem mid) (ax : List ℚ) (hs : StrictInc ax)
    (k : ℕ) (hk : k < ax.length) (h2 : 2 ≤ ax.length) : cellLo mid ax k < cellHi mid ax k := by
  unfold cellHi
  rcases Nat.eq_zero_or_pos k with h0 | h0
  · subst h0
    exact lt_of_le_of_lt (cellLo_le_pt mid hm hi ax hs 0 hk) (pt_lt_cellHi mid hm hi ax hs 0 (by omega))
  · exact lt_of_lt_of_le (cellLo_lt_pt mid hm hi ax hs k hk h0) (pt_le_cellHi mid hm hi ax hs k hk)

/-- each state lies inside its own cell, strictly on every side on which it has a neighbour -/
theorem state_in_cell (mid : ℚ → ℚ → ℚ) (hm : Between mid) (hi : MidIdem mid) (ax : List ℚ) (hs : StrictInc ax)
    (k : ℕ) (hk : k < ax.length) :
    cellLo mid ax k ≤ pt ax k ∧ pt ax k ≤ cellHi mid ax k ∧
    (0 < k → cellLo mid ax k < pt ax k) ∧ (k + 1 < ax.length → pt ax k < cellHi mid ax k) :=
  ⟨cellLo_le_pt mid hm hi ax hs k hk, pt_le_cellHi mid hm hi ax hs k hk,
   cellLo_lt_pt mid hm hi ax hs k hk, pt_lt_cellHi mid hm hi ax hs k⟩

/-- a state lies in no other cell's interior: cell k lies left of state j for k < j and right of it for k > j -/
theorem state_not_in_other_cell (mid : ℚ → ℚ → ℚ) (hm : Between mid) (hi : MidIdem mid) (ax : List ℚ)
    (hs : StrictInc ax) (k j : ℕ) (hk : k < ax.length) (hj : j < ax.length) :
    (k < j → cellHi mid ax k < pt ax j) ∧ (j < k → pt ax j < cellLo mid ax k) := by
  constructor
  · intro hkj
    rw [cells_tile mid ax k (by omega)]
    exact lt_of_lt_of_le (cellLo_lt_pt mid hm hi ax hs (k + 1) (by omega) (by omega))
      (strictInc_le ax hs (k + 1) j hkj hj)
  · intro hjk
    exact lt_of_le_of_lt (strictInc_le ax hs j (k - 1) (by omega) (by omega))
      (pt_pred_lt_cellLo mid hm hi ax hs k hk (by omega))

/-- the cell of the origin is `[h_left, h_right]`, the set whose complement `compute_intensity_of_jumps` measures -/
theorem origin_cell (mid : ℚ → ℚ → ℚ) (ax : List ℚ) (o : ℕ) (hz : pt ax o = 0) :
    cellLo mid ax o = hLeft mid ax o ∧ cellHi mid ax o = hRight mid ax.length ax o := by
  unfold cellLo cellHi cellHiN hLeft hRight; rw [hz]; exact ⟨rfl, rfl⟩

/-! ### truncation -/

theorem mass_point_zero (m : ℚ → ℚ → ℚ) (hM : IsMass m) (a : ℚ) (ha : a ≠ 0) : m a a = 0 := by
  have h := hM.add a a a (le_refl _) (le_refl _) (by
    rcases lt_or_gt_of_ne ha with h | h
    · exact Or.inl h
    · exact Or.inr h)
  linarith

/-- the truncation of a mass to `[l, r]` (`l ≤ r`, both ≠ 0) is a mass … -/
theorem truncate_isMass (l r : ℚ) (hlr : l ≤ r) (hl : l ≠ 0) (hr : r ≠ 0) (m : ℚ → ℚ → ℚ) (hM : IsMass m) :
    IsMass (truncate l r m) := by
  have key : ∀ a c, a ≤ c → Away a c →
      max (min a r) l ≤ min (max c l) r ∧ Away (max (min a r) l) (min (max c l) r) := by
    intro a c hac haw
    refine ⟨?_, ?_⟩
    · apply le_min
      · exact max_le (le_trans (min_le_left _ _) (le_trans hac (le_max_left _ _))) (le_max_right _ _)
      · exact max_le (min_le_right _ _) hlr
    · rcases haw with h | h
      · rcases lt_or_gt_of_ne hl with h0 | h0
        · left; exact lt_of_le_of_lt (min_le_left _ _) (max_lt h h0)
        · right; exact lt_of_lt_of_le h0 (le_max_right _ _)
      · rcases lt_or_gt_of_ne hr with h0 | h0
        · left; exact lt_of_le_of_lt (min_le_right _ _) h0
        · right; exact lt_of_lt_of_le (lt_min h h0) (le_max_left _ _)
  constructor
  · intro a b c hab hbc haw
    unfold truncate truncIv; simp only
    obtain ⟨h1, h2⟩ := key a c (le_trans hab hbc) haw
    have e : max (min b r) l = min (max b l) r := by
      rcases le_total b l with h | h
      · rw [min_eq_left (le_trans h hlr), max_eq_right h, min_eq_left hlr]
      · rcases le_total b r with h' | h'
        · rw [min_eq_left h', max_eq_left h, min_eq_left h']
        · rw [min_eq_right h', max_eq_left hlr, max_eq_left h, min_eq_right h']
    have hab' : max (min a r) l ≤ max (min b r) l := max_le_max (min_le_min hab (le_refl _)) (le_refl _)
    have hbc' : min (max b l) r ≤ min (max c l) r := min_le_min (max_le_max hbc (le_refl _)) (le_refl _)
    have := hM.add _ (max (min b r) l) _ hab' (by rw [e]; exact hbc') h2
    rw [this]; congr 2
  · intro a b hab haw
    unfold truncate truncIv; simp only
    obtain ⟨h1, h2⟩ := key a b hab haw
    exact hM.nonneg _ _ h1 h2

/-- … that coincides with the original one inside `[l, r]` … -/
theorem truncate_inside (l r : ℚ) (m : ℚ → ℚ → ℚ) (a b : ℚ) (hab : a ≤ b) (hla : l ≤ a) (hbr : b ≤ r) :
    truncate l r m a b = m a b := by
  unfold truncate truncIv; simp only
  rw [min_eq_left (le_trans hab hbr), max_eq_left hla, max_eq_left (le_trans hla hab), min_eq_left hbr]

/-- … and vanishes outside `[l, r]` -/
theorem truncate_outside (l r : ℚ) (hlr : l ≤ r) (hl : l ≠ 0) (hr : r ≠ 0) (m : ℚ → ℚ → ℚ) (hM : IsMass m)
    (a b : ℚ) (hab : a ≤ b) (hout : b ≤ l ∨ r ≤ a) : truncate l r m a b = 0 := by
  unfold truncate truncIv; simp only
  rcases hout with h | h
  · rw [max_eq_right (le_trans (min_le_left _ _) (le_trans hab h)), max_eq_right h, min_eq_left hlr]
    exact mass_point_zero m hM l hl
  · rw [min_eq_right h, max_eq_left hlr, min_eq_right (le_trans (le_trans h hab) (le_max_left _ _))]
    exact mass_point_zero m hM r hr

/-- clipping formula: on an interval that meets `[l, r]` the truncated mass is the mass of the intersection -/
theorem truncate_clip (l r : ℚ) (m : ℚ → ℚ → ℚ) (a b : ℚ) (hal : a ≤ r) (hlb : l ≤ b) :
    truncate l r m a b = m (max a l) (min b r) := by
  unfold truncate truncIv; simp only
  rw [min_eq_left hal, max_eq_left hlb]

/-! ### one axis: rates, their sum, their sign -/

section one_axis
variable (mid : ℚ → ℚ → ℚ) (hm : Between mid) (hi : MidIdem mid) (ax : List ℚ) (o : ℕ) (hax : AxisOK ax o)
include hm hi hax

/-- every cell lies inside `[axis[0], axis[-1]]` … -/
theorem cell_inside_truncation (k : ℕ) (hk : k < ax.length) :
    pt ax 0 ≤ cellLo mid ax k ∧ cellHi mid ax k ≤ pt ax (ax.length - 1) := by
  have hn : 0 < ax.length := by omega
  constructor
  · rw [← bnd_zero mid hm hi ax hax.inc hn, cellLo_eq_bnd mid _ ax k hk]
    exact bnd_mono mid hm hi ax hax.inc 0 k (by omega) (by omega)
  · unfold cellHi
    rw [← bnd_last mid hm hi ax hax.inc hn, cellHiN_eq_bnd mid _ ax k hk]
    exact bnd_mono mid hm hi ax hax.inc (k + 1) _ (by omega) (by omega)

/-- … hence the chain's truncated measure gives each state the mass of its cell under the *original* measure -/
theorem rate_chainMass (m : ℚ → ℚ → ℚ) (k : ℕ) (hk : k < ax.length) :
    rate mid ax o (chainMass ax m) k = rate mid ax o m k := by
  unfold rate chainMass
  by_cases h : k = o
  · simp [h]
  · rw [if_neg h, if_neg h]
    obtain ⟨h1, h2⟩ := cell_inside_truncation mid hm hi ax o hax k hk
    have h3 : cellLo mid ax k ≤ cellHi mid ax k :=
      le_trans (cellLo_le_pt mid hm hi ax hax.inc k hk) (pt_le_cellHi mid hm hi ax hax.inc k hk)
    exact truncate_inside _ _ m _ _ h3 h1 h2

/-- the truncated measure of the chain is again a mass -/
theorem chainMass_isMass (m : ℚ → ℚ → ℚ) (hM : IsMass m) : IsMass (chainMass ax m) := by
  have h0 := strictInc_lt ax hax.inc 0 o hax.lo (by have := hax.hi; omega)
  have h1 := strictInc_lt ax hax.inc o (ax.length - 1) (by have := hax.hi; omega) (by have := hax.hi; omega)
  rw [hax.zero] at h0 h1
  exact truncate_isMass _ _ (by linarith) (ne_of_lt h0) (ne_of_gt h1) m hM

/-- every cell but the origin's lies strictly on one side of 0 -/
theorem cell_away (k : ℕ) (hk : k < ax.length) (hko : k ≠ o) : Away (cellLo mid ax k) (cellHi mid ax k) := by
  have hon : o < ax.length := by have := hax.hi; omega
  rcases Nat.lt_or_ge k o with h | h
  · left; unfold cellHi; rw [cellHiN_eq_bnd mid _ ax k hk]
    exact bnd_neg mid hm hi ax hax.inc o hax.lo hon hax.zero (k + 1) (by omega)
  · right; rw [cellLo_eq_bnd mid _ ax k hk]
    exact bnd_pos mid hm hi ax hax.inc o hax.hi hax.zero k (by omega) (by omega)

/-- all rates are non-negative -/
theorem rates_nonneg (m : ℚ → ℚ → ℚ) (hM : IsMass m) (k : ℕ) (hk : k < ax.length) : 0 ≤ rate mid ax o m k := by
  unfold rate
  by_cases h : k = o
  · simp [h]
  · rw [if_neg h]
    exact hM.nonneg _ _ (le_trans (cellLo_le_pt mid hm hi ax hax.inc k hk) (pt_le_cellHi mid hm hi ax hax.inc k hk))
      (cell_away mid hm hi ax o hax k hk h)

/-- **the rates sum to the reported intensity** (telescoping over `cells_tile` and additivity) -/
theorem sum_rates_eq_intensity_1d (m : ℚ → ℚ → ℚ) (hM : IsMass m) :
    ∑ k ∈ range ax.length, rate mid ax o m k = intensity1d mid ax o m := by
  have hon : o < ax.length := by have := hax.hi; omega
  have hn : 0 < ax.length := by omega
  have hlo := hax.lo
  have hhi := hax.hi
  set f := bnd mid ax.length ax with hf
  have hcell : ∀ k, k < ax.length → k ≠ o → rate mid ax o m k = m (f k) (f (k + 1)) := by
    intro k hk hko
    unfold rate cellHi
    rw [if_neg hko, cellLo_eq_bnd mid _ ax k hk, cellHiN_eq_bnd mid _ ax k hk]
  have hmono := bnd_mono mid hm hi ax hax.inc
  rw [sum_range_split _ o _ hon]
  have e0 : rate mid ax o m o = 0 := by unfold rate; simp
  have eL : ∑ k ∈ Ico 0 o, rate mid ax o m k = m (f 0) (f o) := by
    rw [sum_congr rfl (fun k hk => hcell k (by have := (mem_Ico.mp hk).2; omega) (by have := (mem_Ico.mp hk).2; omega))]
    apply tele m f 0 o hlo
    intro k hk1 hk2
    exact hM.add _ _ _ (hmono 0 k (by omega) (by omega)) (hmono k (k + 1) (by omega) (by omega))
      (Or.inl (bnd_neg mid hm hi ax hax.inc o hlo hon hax.zero (k + 1) (by omega)))
  have eR : ∑ k ∈ Ico (o + 1) ax.length, rate mid ax o m k = m (f (o + 1)) (f ax.length) := by
    rw [sum_congr rfl (fun k hk => hcell k (mem_Ico.mp hk).2 (by have := (mem_Ico.mp hk).1; omega))]
    apply tele m f (o + 1) ax.length hhi
    intro k hk1 hk2
    exact hM.add _ _ _ (hmono (o + 1) k (by omega) (by omega)) (hmono k (k + 1) (by omega) (by omega))
      (Or.inr (bnd_pos mid hm hi ax hax.inc o hhi hax.zero (o + 1) (by omega) (by omega)))
  rw [e0, eL, eR]
  unfold intensity1d parts
  simp only [List.drop_succ_cons, List.drop_zero, List.map_cons, List.map_nil, List.sum_cons, List.sum_nil]
  rw [hLeft_eq_bnd mid _ ax o hon hax.zero, hRight_eq_bnd mid _ ax o hon hax.zero,
    ← bnd_zero mid hm hi ax hax.inc hn, ← bnd_last mid hm hi ax hax.inc hn]
  ring

/-- the same about the list `create_q_vector` returns -/
theorem qVector_sum (m : ℚ → ℚ → ℚ) (hM : IsMass m) : (qVector mid ax o m).sum = intensity1d mid ax o m := by
  unfold qVector; rw [sum_map_range]; exact sum_rates_eq_intensity_1d mid hm hi ax o hax m hM

/-- the intensity the truncated chain reports is the one of the original measure on `[axis[0], axis[-1]]` minus the
    origin's cell -/
theorem intensity1d_chainMass (m : ℚ → ℚ → ℚ) : intensity1d mid ax o (chainMass ax m) = intensity1d mid ax o m := by
  have hon : o < ax.length := by have := hax.hi; omega
  have hn : 0 < ax.length := by omega
  have h1 := cell_inside_truncation mid hm hi ax o hax o hon
  have h2 := origin_cell mid ax o hax.zero
  rw [h2.1, h2.2] at h1
  have hneg : pt ax 0 ≤ hLeft mid ax o := h1.1
  have hpos : hRight mid ax.length ax o ≤ pt ax (ax.length - 1) := h1.2
  have hends : pt ax 0 ≤ pt ax (ax.length - 1) := strictInc_le ax hax.inc 0 _ (by omega) (by omega)
  have hl2 : hLeft mid ax o ≤ pt ax (ax.length - 1) := by
    have := state_in_cell mid hm hi ax hax.inc o hon
    rw [h2.1, h2.2, hax.zero] at this
    linarith [this.1, this.2.1]
  have hr2 : pt ax 0 ≤ hRight mid ax.length ax o := by
    have := state_in_cell mid hm hi ax hax.inc o hon
    rw [h2.1, h2.2, hax.zero] at this
    linarith [this.1, this.2.1]
  unfold intensity1d parts chainMass
  simp only [List.drop_succ_cons, List.drop_zero, List.map_cons, List.map_nil, List.sum_cons, List.sum_nil]
  rw [truncate_inside _ _ m _ _ hneg (le_refl _) hl2, truncate_inside _ _ m _ _ hpos hr2 (le_refl _)]

/-- the statement of the property for the chain as built: rates from the truncated measure, summed, give the intensity
    computed from the truncated measure -/
theorem chain_sum_rates_eq_intensity (m : ℚ → ℚ → ℚ) (hM : IsMass m) :
    (qVector mid ax o (chainMass ax m)).sum = intensity1d mid ax o (chainMass ax m) :=
  qVector_sum mid hm hi ax o hax _ (chainMass_isMass mid hm hi ax o hax m hM)

/-- the per-state probabilities of the inversion sampler sum to one -/
theorem jumpProb_sum_one (m : ℚ → ℚ → ℚ) (hM : IsMass m) (hpos : 0 < intensity1d mid ax o m) :
    ∑ k ∈ (range ax.length).erase o, jumpProb mid ax o m k = 1 := by
  have hon : o < ax.length := by have := hax.hi; omega
  have h1 : ∀ k ∈ (range ax.length).erase o, jumpProb mid ax o m k = rate mid ax o m k / intensity1d mid ax o m := by
    intro k hk
    obtain ⟨hko, hkn⟩ := mem_erase.mp hk
    have hk' := mem_range.mp hkn
    have := rates_nonneg mid hm hi ax o hax m hM k hk'
    unfold rate at this ⊢; rw [if_neg hko] at this ⊢
    unfold jumpProb; rw [max_eq_left this]
  rw [sum_congr rfl h1, ← sum_div, sum_erase _ (by unfold rate; simp),
    sum_rates_eq_intensity_1d mid hm hi ax o hax m hM]
  exact div_self (ne_of_gt hpos)

end one_axis

/-! ### all of it after any number of refinements -/

theorem refine_axisOK (mid : ℚ → ℚ → ℚ) (hm : Between mid) (ax : List ℚ) (o : ℕ) (hax : AxisOK ax o) :
    AxisOK (refine mid ax) (2 * o) := by
  refine ⟨refine_strictInc mid hm ax hax.inc, by have := hax.lo; omega, ?_, ?_⟩
  · rw [refine_length]; have := hax.hi; omega
  · have h := refine_even_old mid ax o
    have hz := hax.zero
    unfold pt at hz ⊢
    rw [List.getD_eq_getElem?_getD] at hz ⊢
    rw [h]; exact hz

theorem refineN_axisOK (mid : ℚ → ℚ → ℚ) (hm : Between mid) (k : ℕ) (ax : List ℚ) (o : ℕ) (hax : AxisOK ax o) :
    AxisOK (refineN mid k ax) (2 ^ k * o) := by
  induction k generalizing ax o with
  | zero => simpa [refineN] using hax
  | succ k ih =>
    have := ih (refine mid ax) (2 * o) (refine_axisOK mid hm ax o hax)
    rw [refineN, pow_succ, mul_assoc]; exact this

/-- after k refinements of the axis (by the grid's own `middle`) the cells still tile, every state is in its cell,
    rates are non-negative and sum to the intensity; the origin sits at `2^k · o` -/
theorem after_refine (mid : ℚ → ℚ → ℚ) (hm : Between mid) (hi : MidIdem mid) (ax : List ℚ) (o : ℕ) (hax : AxisOK ax o)
    (m : ℚ → ℚ → ℚ) (hM : IsMass m) (k : ℕ) :
    let ax' := refineN mid k ax
    let o' := 2 ^ k * o
    AxisOK ax' o' ∧
    (∀ j, j + 1 < ax'.length → cellHi mid ax' j = cellLo mid ax' (j + 1)) ∧
    (cellLo mid ax' 0 = pt ax 0 ∧ cellHi mid ax' (ax'.length - 1) = pt ax (ax.length - 1)) ∧
    (∀ j, j < ax'.length → cellLo mid ax' j ≤ pt ax' j ∧ pt ax' j ≤ cellHi mid ax' j) ∧
    (∀ j, j < ax'.length → 0 ≤ rate mid ax' o' (chainMass ax' m) j) ∧
    (qVector mid ax' o' (chainMass ax' m)).sum = intensity1d mid ax' o' (chainMass ax' m) ∧
    intensity1d mid ax' o' (chainMass ax' m) = intensity1d mid ax' o' m := by
  intro ax' o'
  have hax' : AxisOK ax' o' := refineN_axisOK mid hm k ax o hax
  have hn' : 0 < ax'.length := by have := hax'.hi; omega
  have hne : ax ≠ [] := by intro h; have := hax.hi; rw [h] at this; simp at this
  have htr := refineN_truncation mid k ax
  -- the ends of the refined axis are the ends of the original one
  have hends : pt ax' 0 = pt ax 0 ∧ pt ax' (ax'.length - 1) = pt ax (ax.length - 1) := by
    have e1 : ∀ l : List ℚ, l ≠ [] → truncation l = some (pt l 0, pt l (l.length - 1)) := by
      intro l hl
      cases l with
      | nil => exact absurd rfl hl
      | cons x t =>
        unfold truncation pt
        simp only [List.head?_cons, List.getD_cons_zero]
        rw [List.getLast?_eq_getElem?]
        simp [List.getD_eq_getElem?_getD]
    have hne' : ax' ≠ [] := by intro h; rw [h] at hn'; simp at hn'
    rw [e1 ax hne, e1 ax' hne'] at htr
    simp only [Option.some.injEq, Prod.mk.injEq] at htr
    exact htr
  have hM' := chainMass_isMass mid hm hi ax' o' hax' m hM
  refine ⟨hax', fun j hj => cells_tile mid ax' j hj, ?_, ?_, ?_, ?_, ?_⟩
  · have := cells_ends mid hi ax' hn'
    rw [hends.1, hends.2] at this; exact this
  · intro j hj
    have := state_in_cell mid hm hi ax' hax'.inc j hj
    exact ⟨this.1, this.2.1⟩
  · intro j hj; exact rates_nonneg mid hm hi ax' o' hax' _ hM' j hj
  · exact chain_sum_rates_eq_intensity mid hm hi ax' o' hax' m hM
  · exact intensity1d_chainMass mid hm hi ax' o' hax' m

/-! ### d = 2: the grid-sum lemma and Σ rates = intensity -/

/-- **grid-sum lemma**: over a block of cells `[p1,q1) × [p2,q2)` of a product grid with weakly increasing, non-zero
    boundaries `f`, `g`, whose hull is away from the origin, the cell masses add up to the mass of the hull
    (1-d telescoping applied coordinate by coordinate) -/
theorem grid_sum_lemma (m : ℚ → ℚ → ℚ → ℚ → ℚ) (hM : IsBoxMass2 m) (f g : ℕ → ℚ) (p1 q1 p2 q2 : ℕ)
    (h1 : p1 < q1) (h2 : p2 < q2)
    (hf : ∀ i, p1 ≤ i → i < q1 → f i ≤ f (i + 1)) (hg : ∀ j, p2 ≤ j → j < q2 → g j ≤ g (j + 1))
    (hf0 : ∀ i, p1 < i → i < q1 → f i ≠ 0) (hg0 : ∀ j, p2 < j → j < q2 → g j ≠ 0)
    (haway : Away (f p1) (f q1) ∨ Away (g p2) (g q2)) :
    ∑ i ∈ Ico p1 q1, ∑ j ∈ Ico p2 q2, m (f i) (f (i + 1)) (g j) (g (j + 1)) = m (f p1) (f q1) (g p2) (g q2) := by
  have mf := mono_of_step f p1 q1 hf
  have mg := mono_of_step g p2 q2 hg
  have inner : ∀ i ∈ Ico p1 q1,
      ∑ j ∈ Ico p2 q2, m (f i) (f (i + 1)) (g j) (g (j + 1)) = m (f i) (f (i + 1)) (g p2) (g q2) := by
    intro i hi
    obtain ⟨hi1, hi2⟩ := mem_Ico.mp hi
    refine tele (fun a c => m (f i) (f (i + 1)) a c) g p2 q2 h2 ?_
    intro k hk1 hk2
    refine hM.add2 _ _ _ _ _ (hf i hi1 hi2) (mg p2 k (le_refl _) (by omega) (by omega)) (hg k (by omega) hk2)
      (hg0 k hk1 hk2) ?_
    rcases haway with h | h
    · exact Or.inl (away_sub h (mf p1 i (le_refl _) hi1 (by omega)) (mf (i + 1) q1 (by omega) (by omega) (le_refl _)))
    · exact Or.inr (away_sub h (le_refl _) (mg (k + 1) q2 (by omega) (by omega) (le_refl _)))
  rw [sum_congr rfl inner]
  refine tele (fun a c => m a c (g p2) (g q2)) f p1 q1 h1 ?_
  intro k hk1 hk2
  refine hM.add1 _ _ _ _ _ (mf p1 k (le_refl _) (by omega) (by omega)) (hf k (by omega) hk2)
    (mg p2 q2 (le_refl _) (by omega) (le_refl _)) (hf0 k hk1 hk2) ?_
  rcases haway with h | h
  · exact Or.inl (away_sub h (le_refl _) (mf (k + 1) q1 (by omega) (by omega) (le_refl _)))
  · exact Or.inr h

/-- rate of the state `(i, j)` of a 2-d grid, spelled out -/
theorem rateNd_two (mid : ℚ → ℚ → ℚ) (ax1 ax2 : List ℚ) (o : ℕ) (m : ℚ → ℚ → ℚ → ℚ → ℚ) (i j : ℕ) :
    rateNd mid [ax1, ax2] o (box2 m) [i, j] =
      if i = o ∧ j = o then 0
      else m (cellLo mid ax1 i) (cellHiN mid ax1.length ax1 i) (cellLo mid ax2 j) (cellHiN mid ax2.length ax2 j) := by
  unfold rateNd cellBox box2 cellHi
  simp

section two_axes
variable (mid : ℚ → ℚ → ℚ) (hm : Between mid) (hi : MidIdem mid) (ax1 ax2 : List ℚ) (o : ℕ)
  (hax1 : AxisOK ax1 o) (hax2 : AxisOK ax2 o)
  (m : ℚ → ℚ → ℚ → ℚ → ℚ) (hM : IsBoxMass2 m)
include hm hi hax1 hax2 hM

/-- the grid-sum lemma on the chain's own cells: a block of states `[p1,q1) × [p2,q2)` that does not contain the
    origin carries the mass of its hull -/
theorem block_sum_2d (p1 q1 p2 q2 : ℕ) (h1 : p1 < q1) (hq1 : q1 ≤ ax1.length) (h2 : p2 < q2) (hq2 : q2 ≤ ax2.length)
    (hex : ¬(p1 ≤ o ∧ o < q1) ∨ ¬(p2 ≤ o ∧ o < q2)) :
    ∑ i ∈ Ico p1 q1, ∑ j ∈ Ico p2 q2, rateNd mid [ax1, ax2] o (box2 m) [i, j] =
      m (bnd mid ax1.length ax1 p1) (bnd mid ax1.length ax1 q1) (bnd mid ax2.length ax2 p2) (bnd mid ax2.length ax2 q2) := by
  have e : ∀ i ∈ Ico p1 q1, ∀ j ∈ Ico p2 q2, rateNd mid [ax1, ax2] o (box2 m) [i, j] =
      m (bnd mid ax1.length ax1 i) (bnd mid ax1.length ax1 (i + 1)) (bnd mid ax2.length ax2 j)
        (bnd mid ax2.length ax2 (j + 1)) := by
    intro i hi' j hj'
    obtain ⟨hi1, hi2⟩ := mem_Ico.mp hi'
    obtain ⟨hj1, hj2⟩ := mem_Ico.mp hj'
    rw [rateNd_two, if_neg (by omega), cellLo_eq_bnd mid ax1.length ax1 i (by omega),
      cellHiN_eq_bnd mid ax1.length ax1 i (by omega), cellLo_eq_bnd mid ax2.length ax2 j (by omega),
      cellHiN_eq_bnd mid ax2.length ax2 j (by omega)]
  rw [sum_congr rfl (fun i hi' => sum_congr rfl (fun j hj' => e i hi' j hj'))]
  have hs1 := bnd_mono_step mid hm hi ax1 hax1.inc
  have hs2 := bnd_mono_step mid hm hi ax2 hax2.inc
  have hz1 := bnd_ne_zero mid hm hi ax1 o hax1
  have hz2 := bnd_ne_zero mid hm hi ax2 o hax2
  have ha1 := range_away mid hm hi ax1 o hax1
  have ha2 := range_away mid hm hi ax2 o hax2
  apply grid_sum_lemma m hM _ _ p1 q1 p2 q2 h1 h2
  · intro i _ h; exact hs1 i (by omega)
  · intro j _ h; exact hs2 j (by omega)
  · intro i _ h; exact hz1 i (by omega)
  · intro j _ h; exact hz2 j (by omega)
  · rcases hex with h | h
    · exact Or.inl (ha1 p1 q1 hq1 h)
    · exact Or.inr (ha2 p2 q2 hq2 h)

/-- the eight blocks of `compute_intensity_of_jumps` (d = 2) in terms of the boundary sequences -/
theorem intensityNd_two :
    intensityNd mid [ax1, ax2] o (box2 m) =
      let f := bnd mid ax1.length ax1
      let g := bnd mid ax2.length ax2
      let n := ax1.length
      let n' := ax2.length
      m (f o) (f (o + 1)) (g 0) (g o) + m (f o) (f (o + 1)) (g (o + 1)) (g n') +
      m (f 0) (f o) (g o) (g (o + 1)) + m (f 0) (f o) (g 0) (g o) + m (f 0) (f o) (g (o + 1)) (g n') +
      m (f (o + 1)) (f n) (g o) (g (o + 1)) + m (f (o + 1)) (f n) (g 0) (g o) + m (f (o + 1)) (f n) (g (o + 1)) (g n') := by
  have hon1 : o < ax1.length := by have := hax1.hi; omega
  have hon2 : o < ax2.length := by have := hax2.hi; omega
  have hn1 : 0 < ax1.length := by omega
  have hn2 : 0 < ax2.length := by omega
  have a1 := hLeft_eq_bnd mid ax1.length ax1 o hon1 hax1.zero
  have a2 := hRight_eq_bnd mid ax1.length ax1 o hon1 hax1.zero
  have a3 := hLeft_eq_bnd mid ax2.length ax2 o hon2 hax2.zero
  have a4 := hRight_eq_bnd mid ax2.length ax2 o hon2 hax2.zero
  have b1 := bnd_zero mid hm hi ax1 hax1.inc hn1
  have b2 := bnd_last mid hm hi ax1 hax1.inc hn1
  have b3 := bnd_zero mid hm hi ax2 hax2.inc hn2
  have b4 := bnd_last mid hm hi ax2 hax2.inc hn2
  simp only [intensityNd, blocks, cartesian, parts, len0, List.map_cons, List.map_nil, List.headD_cons,
    List.flatMap_cons, List.flatMap_nil, List.append_nil, List.cons_append, List.nil_append, List.drop_succ_cons,
    List.drop_zero, List.sum_cons, List.sum_nil, box2]
  rw [a1, a2, a3, a4, ← b1, ← b2, ← b3, ← b4]
  ring

/-- **Σ over the non-origin states of a 2-d grid of the cell masses = the intensity the chain reports** -/
theorem sum_rates_eq_intensity_2d :
    ∑ i ∈ range ax1.length, ∑ j ∈ range ax2.length, rateNd mid [ax1, ax2] o (box2 m) [i, j] =
      intensityNd mid [ax1, ax2] o (box2 m) := by
  have hon : o < ax1.length := by have := hax1.hi; omega
  have hon2 : o < ax2.length := by have := hax2.hi; omega
  have hlo := hax1.lo
  have hhi := hax1.hi
  have hhi2 := hax2.hi
  rw [intensityNd_two mid hm hi ax1 ax2 o hax1 hax2 m hM]
  have B := block_sum_2d mid hm hi ax1 ax2 o hax1 hax2 m hM
  rw [sum_range_three _ o _ hon]
  simp only [sum_range_three _ o _ hon2, sum_add_distrib]
  rw [B o (o + 1) 0 o (by omega) (by omega) (by omega) (by omega) (by omega),
    B o (o + 1) (o + 1) ax2.length (by omega) (by omega) (by omega) (by omega) (by omega),
    B 0 o o (o + 1) (by omega) (by omega) (by omega) (by omega) (by omega),
    B 0 o 0 o (by omega) (by omega) (by omega) (by omega) (by omega),
    B 0 o (o + 1) ax2.length (by omega) (by omega) (by omega) (by omega) (by omega),
    B (o + 1) ax1.length o (o + 1) (by omega) (by omega) (by omega) (by omega) (by omega),
    B (o + 1) ax1.length 0 o (by omega) (by omega) (by omega) (by omega) (by omega),
    B (o + 1) ax1.length (o + 1) ax2.length (by omega) (by omega) (by omega) (by omega) (by omega)]
  have hc : ∑ i ∈ Ico o (o + 1), ∑ j ∈ Ico o (o + 1), rateNd mid [ax1, ax2] o (box2 m) [i, j] = 0 := by
    rw [Nat.Ico_succ_singleton, sum_singleton, sum_singleton, rateNd_two]; simp
  rw [hc]
  ring

/-- all 2-d rates are non-negative -/
theorem rates_nonneg_2d (i j : ℕ) (hi' : i < ax1.length) (hj' : j < ax2.length) :
    0 ≤ rateNd mid [ax1, ax2] o (box2 m) [i, j] := by
  by_cases h : i = o ∧ j = o
  · rw [rateNd_two, if_pos h]
  · have := block_sum_2d mid hm hi ax1 ax2 o hax1 hax2 m hM i (i + 1) j (j + 1) (by omega) (by omega) (by omega)
      (by omega) (by omega)
    rw [Nat.Ico_succ_singleton, Nat.Ico_succ_singleton, sum_singleton, sum_singleton] at this
    rw [this]
    have hs1 := bnd_mono_step mid hm hi ax1 hax1.inc i hi'
    have hs2 := bnd_mono_step mid hm hi ax2 hax2.inc j (by omega)
    have ha1 := range_away mid hm hi ax1 o hax1 i (i + 1) (by omega)
    have ha2 := range_away mid hm hi ax2 o hax2 j (j + 1) (by omega)
    refine hM.nonneg _ _ _ _ hs1 hs2 ?_
    by_cases h1 : i = o
    · exact Or.inr (ha2 (by omega))
    · exact Or.inl (ha1 (by omega))

end two_axes

/-! ### d = 3 -/

/-- grid-sum lemma, d = 3: three nested telescopes -/
theorem grid_sum_lemma_3d (m : ℚ → ℚ → ℚ → ℚ → ℚ → ℚ → ℚ) (hM : IsBoxMass3 m) (f g h : ℕ → ℚ)
    (p1 q1 p2 q2 p3 q3 : ℕ) (h1 : p1 < q1) (h2 : p2 < q2) (h3 : p3 < q3)
    (hf : ∀ i, p1 ≤ i → i < q1 → f i ≤ f (i + 1)) (hg : ∀ j, p2 ≤ j → j < q2 → g j ≤ g (j + 1))
    (hh : ∀ k, p3 ≤ k → k < q3 → h k ≤ h (k + 1))
    (hf0 : ∀ i, p1 < i → i < q1 → f i ≠ 0) (hg0 : ∀ j, p2 < j → j < q2 → g j ≠ 0)
    (hh0 : ∀ k, p3 < k → k < q3 → h k ≠ 0)
    (haway : Away (f p1) (f q1) ∨ Away (g p2) (g q2) ∨ Away (h p3) (h q3)) :
    ∑ i ∈ Ico p1 q1, ∑ j ∈ Ico p2 q2, ∑ k ∈ Ico p3 q3, m (f i) (f (i + 1)) (g j) (g (j + 1)) (h k) (h (k + 1)) =
      m (f p1) (f q1) (g p2) (g q2) (h p3) (h q3) := by
  have mf := mono_of_step f p1 q1 hf
  have mg := mono_of_step g p2 q2 hg
  have mh := mono_of_step h p3 q3 hh
  have inner : ∀ i ∈ Ico p1 q1, ∀ j ∈ Ico p2 q2,
      ∑ k ∈ Ico p3 q3, m (f i) (f (i + 1)) (g j) (g (j + 1)) (h k) (h (k + 1)) =
        m (f i) (f (i + 1)) (g j) (g (j + 1)) (h p3) (h q3) := by
    intro i hi j hj
    obtain ⟨hi1, hi2⟩ := mem_Ico.mp hi
    obtain ⟨hj1, hj2⟩ := mem_Ico.mp hj
    refine tele (fun a c => m (f i) (f (i + 1)) (g j) (g (j + 1)) a c) h p3 q3 h3 ?_
    intro k hk1 hk2
    refine hM.add3 _ _ _ _ _ _ _ (hf i hi1 hi2) (hg j hj1 hj2) (mh p3 k (le_refl _) (by omega) (by omega))
      (hh k (by omega) hk2) (hh0 k hk1 hk2) ?_
    rcases haway with a | a | a
    · exact Or.inl (away_sub a (mf p1 i (le_refl _) hi1 (by omega)) (mf (i + 1) q1 (by omega) (by omega) (le_refl _)))
    · exact Or.inr (Or.inl (away_sub a (mg p2 j (le_refl _) hj1 (by omega)) (mg (j + 1) q2 (by omega) (by omega) (le_refl _))))
    · exact Or.inr (Or.inr (away_sub a (le_refl _) (mh (k + 1) q3 (by omega) (by omega) (le_refl _))))
  have middle : ∀ i ∈ Ico p1 q1,
      ∑ j ∈ Ico p2 q2, m (f i) (f (i + 1)) (g j) (g (j + 1)) (h p3) (h q3) =
        m (f i) (f (i + 1)) (g p2) (g q2) (h p3) (h q3) := by
    intro i hi
    obtain ⟨hi1, hi2⟩ := mem_Ico.mp hi
    refine tele (fun a c => m (f i) (f (i + 1)) a c (h p3) (h q3)) g p2 q2 h2 ?_
    intro k hk1 hk2
    refine hM.add2 _ _ _ _ _ _ _ (hf i hi1 hi2) (mg p2 k (le_refl _) (by omega) (by omega)) (hg k (by omega) hk2)
      (mh p3 q3 (le_refl _) (by omega) (le_refl _)) (hg0 k hk1 hk2) ?_
    rcases haway with a | a | a
    · exact Or.inl (away_sub a (mf p1 i (le_refl _) hi1 (by omega)) (mf (i + 1) q1 (by omega) (by omega) (le_refl _)))
    · exact Or.inr (Or.inl (away_sub a (le_refl _) (mg (k + 1) q2 (by omega) (by omega) (le_refl _))))
    · exact Or.inr (Or.inr a)
  rw [sum_congr rfl (fun i hi => sum_congr rfl (fun j hj => inner i hi j hj)), sum_congr rfl middle]
  refine tele (fun a c => m a c (g p2) (g q2) (h p3) (h q3)) f p1 q1 h1 ?_
  intro k hk1 hk2
  refine hM.add1 _ _ _ _ _ _ _ (mf p1 k (le_refl _) (by omega) (by omega)) (hf k (by omega) hk2)
    (mg p2 q2 (le_refl _) (by omega) (le_refl _)) (mh p3 q3 (le_refl _) (by omega) (le_refl _)) (hf0 k hk1 hk2) ?_
  rcases haway with a | a | a
  · exact Or.inl (away_sub a (le_refl _) (mf (k + 1) q1 (by omega) (by omega) (le_refl _)))
  · exact Or.inr (Or.inl a)
  · exact Or.inr (Or.inr a)

theorem rateNd_three (mid : ℚ → ℚ → ℚ) (ax1 ax2 ax3 : List ℚ) (o : ℕ) (m : ℚ → ℚ → ℚ → ℚ → ℚ → ℚ → ℚ) (i j k : ℕ) :
    rateNd mid [ax1, ax2, ax3] o (box3 m) [i, j, k] =
      if i = o ∧ j = o ∧ k = o then 0
      else m (cellLo mid ax1 i) (cellHiN mid ax1.length ax1 i) (cellLo mid ax2 j) (cellHiN mid ax2.length ax2 j)
        (cellLo mid ax3 k) (cellHiN mid ax3.length ax3 k) := by
  unfold rateNd cellBox box3 cellHi
  simp

section three_axes
variable (mid : ℚ → ℚ → ℚ) (hm : Between mid) (hi : MidIdem mid) (ax1 ax2 ax3 : List ℚ) (o : ℕ)
  (hax1 : AxisOK ax1 o) (hax2 : AxisOK ax2 o) (hax3 : AxisOK ax3 o)
  (m : ℚ → ℚ → ℚ → ℚ → ℚ → ℚ → ℚ) (hM : IsBoxMass3 m)
include hm hi hax1 hax2 hax3 hM

theorem block_sum_3d (p1 q1 p2 q2 p3 q3 : ℕ) (h1 : p1 < q1) (hq1 : q1 ≤ ax1.length) (h2 : p2 < q2)
    (hq2 : q2 ≤ ax2.length) (h3 : p3 < q3) (hq3 : q3 ≤ ax3.length)
    (hex : ¬(p1 ≤ o ∧ o < q1) ∨ ¬(p2 ≤ o ∧ o < q2) ∨ ¬(p3 ≤ o ∧ o < q3)) :
    ∑ i ∈ Ico p1 q1, ∑ j ∈ Ico p2 q2, ∑ k ∈ Ico p3 q3, rateNd mid [ax1, ax2, ax3] o (box3 m) [i, j, k] =
      m (bnd mid ax1.length ax1 p1) (bnd mid ax1.length ax1 q1) (bnd mid ax2.length ax2 p2)
        (bnd mid ax2.length ax2 q2) (bnd mid ax3.length ax3 p3) (bnd mid ax3.length ax3 q3) := by
  have e : ∀ i ∈ Ico p1 q1, ∀ j ∈ Ico p2 q2, ∀ k ∈ Ico p3 q3, rateNd mid [ax1, ax2, ax3] o (box3 m) [i, j, k] =
      m (bnd mid ax1.length ax1 i) (bnd mid ax1.length ax1 (i + 1)) (bnd mid ax2.length ax2 j)
        (bnd mid ax2.length ax2 (j + 1)) (bnd mid ax3.length ax3 k) (bnd mid ax3.length ax3 (k + 1)) := by
    intro i hi' j hj' k hk'
    obtain ⟨hi1, hi2⟩ := mem_Ico.mp hi'
    obtain ⟨hj1, hj2⟩ := mem_Ico.mp hj'
    obtain ⟨hk1, hk2⟩ := mem_Ico.mp hk'
    rw [rateNd_three, if_neg (by omega), cellLo_eq_bnd mid ax1.length ax1 i (by omega),
      cellHiN_eq_bnd mid ax1.length ax1 i (by omega), cellLo_eq_bnd mid ax2.length ax2 j (by omega),
      cellHiN_eq_bnd mid ax2.length ax2 j (by omega), cellLo_eq_bnd mid ax3.length ax3 k (by omega),
      cellHiN_eq_bnd mid ax3.length ax3 k (by omega)]
  rw [sum_congr rfl (fun i hi' => sum_congr rfl (fun j hj' => sum_congr rfl (fun k hk' => e i hi' j hj' k hk')))]
  have hs1 := bnd_mono_step mid hm hi ax1 hax1.inc
  have hs2 := bnd_mono_step mid hm hi ax2 hax2.inc
  have hs3 := bnd_mono_step mid hm hi ax3 hax3.inc
  have hz1 := bnd_ne_zero mid hm hi ax1 o hax1
  have hz2 := bnd_ne_zero mid hm hi ax2 o hax2
  have hz3 := bnd_ne_zero mid hm hi ax3 o hax3
  have ha1 := range_away mid hm hi ax1 o hax1
  have ha2 := range_away mid hm hi ax2 o hax2
  have ha3 := range_away mid hm hi ax3 o hax3
  apply grid_sum_lemma_3d m hM _ _ _ p1 q1 p2 q2 p3 q3 h1 h2 h3
  · intro i _ h; exact hs1 i (by omega)
  · intro j _ h; exact hs2 j (by omega)
  · intro j _ h; exact hs3 j (by omega)
  · intro i _ h; exact hz1 i (by omega)
  · intro j _ h; exact hz2 j (by omega)
  · intro j _ h; exact hz3 j (by omega)
  · rcases hex with h | h | h
    · exact Or.inl (ha1 p1 q1 hq1 h)
    · exact Or.inr (Or.inl (ha2 p2 q2 hq2 h))
    · exact Or.inr (Or.inr (ha3 p3 q3 hq3 h))

/-- **Σ over the non-origin states of a 3-d grid of the cell masses = the intensity (26 blocks)** -/
theorem sum_rates_eq_intensity_3d :
    ∑ i ∈ range ax1.length, ∑ j ∈ range ax2.length, ∑ k ∈ range ax3.length,
        rateNd mid [ax1, ax2, ax3] o (box3 m) [i, j, k] =
      intensityNd mid [ax1, ax2, ax3] o (box3 m) := by
  have hon : o < ax1.length := by have := hax1.hi; omega
  have hon2 : o < ax2.length := by have := hax2.hi; omega
  have hon3 : o < ax3.length := by have := hax3.hi; omega
  have hn1 : 0 < ax1.length := by omega
  have hn2 : 0 < ax2.length := by omega
  have hn3 : 0 < ax3.length := by omega
  have hlo := hax1.lo
  have hhi := hax1.hi
  have hhi2 := hax2.hi
  have hhi3 := hax3.hi
  have a1 := hLeft_eq_bnd mid ax1.length ax1 o hon hax1.zero
  have a2 := hRight_eq_bnd mid ax1.length ax1 o hon hax1.zero
  have a3 := hLeft_eq_bnd mid ax2.length ax2 o hon2 hax2.zero
  have a4 := hRight_eq_bnd mid ax2.length ax2 o hon2 hax2.zero
  have a5 := hLeft_eq_bnd mid ax3.length ax3 o hon3 hax3.zero
  have a6 := hRight_eq_bnd mid ax3.length ax3 o hon3 hax3.zero
  have b1 := bnd_zero mid hm hi ax1 hax1.inc hn1
  have b2 := bnd_last mid hm hi ax1 hax1.inc hn1
  have b3 := bnd_zero mid hm hi ax2 hax2.inc hn2
  have b4 := bnd_last mid hm hi ax2 hax2.inc hn2
  have b5 := bnd_zero mid hm hi ax3 hax3.inc hn3
  have b6 := bnd_last mid hm hi ax3 hax3.inc hn3
  simp only [intensityNd, blocks, cartesian, parts, len0, List.map_cons, List.map_nil, List.headD_cons,
    List.flatMap_cons, List.flatMap_nil, List.append_nil, List.cons_append, List.nil_append, List.drop_succ_cons,
    List.drop_zero, List.sum_cons, List.sum_nil, box3]
  rw [a1, a2, a3, a4, a5, a6, ← b1, ← b2, ← b3, ← b4, ← b5, ← b6]
  have B := block_sum_3d mid hm hi ax1 ax2 ax3 o hax1 hax2 hax3 m hM
  have hc : ∑ i ∈ Ico o (o + 1), ∑ j ∈ Ico o (o + 1), ∑ k ∈ Ico o (o + 1),
      rateNd mid [ax1, ax2, ax3] o (box3 m) [i, j, k] = 0 := by
    rw [Nat.Ico_succ_singleton, sum_singleton, sum_singleton, sum_singleton, rateNd_three]; simp
  simp only [sum_range_three _ o _ hon, sum_range_three _ o _ hon2, sum_range_three _ o _ hon3, sum_add_distrib]
  rw [hc]
  simp (disch := omega) only [B]
  ring

end three_axes

/-! ### the lists the driver prints -/

theorem qTensor_sum_2d (mid : ℚ → ℚ → ℚ) (ax1 ax2 : List ℚ) (o : ℕ) (m : Box → ℚ) :
    (qTensor mid [ax1, ax2] o m).sum =
      ∑ i ∈ range ax1.length, ∑ j ∈ range ax2.length, rateNd mid [ax1, ax2] o m [i, j] := by
  unfold qTensor states
  simp only [List.map_cons, List.map_nil]
  rw [cartesian_two, sum_map_flatMap]
  simp only [List.map_map, Function.comp_def]
  rw [sum_map_range]
  apply sum_congr rfl
  intro i _
  rw [sum_map_range]

/-- the list of all per-state rates of a 2-d chain sums to the intensity -/
theorem qTensor_sum_eq_intensity_2d (mid : ℚ → ℚ → ℚ) (hm : Between mid) (hi : MidIdem mid) (ax1 ax2 : List ℚ) (o : ℕ)
    (hax1 : AxisOK ax1 o) (hax2 : AxisOK ax2 o)
    (m : ℚ → ℚ → ℚ → ℚ → ℚ) (hM : IsBoxMass2 m) :
    (qTensor mid [ax1, ax2] o (box2 m)).sum = intensityNd mid [ax1, ax2] o (box2 m) := by
  rw [qTensor_sum_2d]; exact sum_rates_eq_intensity_2d mid hm hi ax1 ax2 o hax1 hax2 m hM

/-- d = 1 is the same definition: `intensityNd` on one axis is `intensity1d` -/
theorem intensityNd_one (mid : ℚ → ℚ → ℚ) (ax : List ℚ) (o : ℕ) (m : ℚ → ℚ → ℚ) :
    intensityNd mid [ax] o (box1 m) = intensity1d mid ax o m := by
  simp [intensityNd, blocks, cartesian, parts, len0, box1, intensity1d]

/-- 2-d after k refinements of both axes (of any two lengths): origin at `2^k·o`, Σ rates = intensity -/
theorem after_refine_2d (mid : ℚ → ℚ → ℚ) (hm : Between mid) (hi : MidIdem mid) (ax1 ax2 : List ℚ) (o : ℕ)
    (hax1 : AxisOK ax1 o) (hax2 : AxisOK ax2 o)
    (m : ℚ → ℚ → ℚ → ℚ → ℚ) (hM : IsBoxMass2 m) (k : ℕ) :
    (qTensor mid [refineN mid k ax1, refineN mid k ax2] (2 ^ k * o) (box2 m)).sum =
      intensityNd mid [refineN mid k ax1, refineN mid k ax2] (2 ^ k * o) (box2 m) := by
  exact qTensor_sum_eq_intensity_2d mid hm hi _ _ _ (refineN_axisOK mid hm k ax1 o hax1)
    (refineN_axisOK mid hm k ax2 o hax2) m hM

/-- all 3-d rates are non-negative -/
theorem rates_nonneg_3d (mid : ℚ → ℚ → ℚ) (hm : Between mid) (hi : MidIdem mid) (ax1 ax2 ax3 : List ℚ) (o : ℕ)
    (hax1 : AxisOK ax1 o) (hax2 : AxisOK ax2 o) (hax3 : AxisOK ax3 o)
    (m : ℚ → ℚ → ℚ → ℚ → ℚ → ℚ → ℚ) (hM : IsBoxMass3 m) (i j k : ℕ)
    (hi' : i < ax1.length) (hj' : j < ax2.length) (hk' : k < ax3.length) :
    0 ≤ rateNd mid [ax1, ax2, ax3] o (box3 m) [i, j, k] := by
  by_cases h : i = o ∧ j = o ∧ k = o
  · rw [rateNd_three, if_pos h]
  · have := block_sum_3d mid hm hi ax1 ax2 ax3 o hax1 hax2 hax3 m hM i (i + 1) j (j + 1) k (k + 1)
      (by omega) (by omega) (by omega) (by omega) (by omega) (by omega) (by omega)
    simp only [Nat.Ico_succ_singleton, sum_singleton] at this
    rw [this]
    have hs1 := bnd_mono_step mid hm hi ax1 hax1.inc i hi'
    have hs2 := bnd_mono_step mid hm hi ax2 hax2.inc j (by omega)
    have hs3 := bnd_mono_step mid hm hi ax3 hax3.inc k (by omega)
    have ha1 := range_away mid hm hi ax1 o hax1 i (i + 1) (by omega)
    have ha2 := range_away mid hm hi ax2 o hax2 j (j + 1) (by omega)
    have ha3 := range_away mid hm hi ax3 o hax3 k (k + 1) (by omega)
    refine hM.nonneg _ _ _ _ _ _ hs1 hs2 hs3 ?_
    by_cases h1 : i = o
    · by_cases h2 : j = o
      · exact Or.inr (Or.inr (ha3 (by omega)))
      · exact Or.inr (Or.inl (ha2 (by omega)))
    · exact Or.inl (ha1 (by omega))

theorem qTensor_sum_3d (mid : ℚ → ℚ → ℚ) (ax1 ax2 ax3 : List ℚ) (o : ℕ) (m : Box → ℚ) :
    (qTensor mid [ax1, ax2, ax3] o m).sum =
      ∑ i ∈ range ax1.length, ∑ j ∈ range ax2.length, ∑ k ∈ range ax3.length,
        rateNd mid [ax1, ax2, ax3] o m [i, j, k] := by
  unfold qTensor states
  simp only [List.map_cons, List.map_nil]
  rw [cartesian_three, sum_map_flatMap]
  rw [sum_map_range]
  apply sum_congr rfl
  intro i _
  rw [sum_map_flatMap]
  simp only [List.map_map, Function.comp_def]
  rw [sum_map_range]
  apply sum_congr rfl
  intro j _
  rw [sum_map_range]

/-- the list of all per-state rates of a 3-d chain sums to the intensity -/
theorem qTensor_sum_eq_intensity_3d (mid : ℚ → ℚ → ℚ) (hm : Between mid) (hi : MidIdem mid) (ax1 ax2 ax3 : List ℚ)
    (o : ℕ) (hax1 : AxisOK ax1 o) (hax2 : AxisOK ax2 o) (hax3 : AxisOK ax3 o)
    (m : ℚ → ℚ → ℚ → ℚ → ℚ → ℚ → ℚ) (hM : IsBoxMass3 m) :
    (qTensor mid [ax1, ax2, ax3] o (box3 m)).sum = intensityNd mid [ax1, ax2, ax3] o (box3 m) := by
  rw [qTensor_sum_3d]
  exact sum_rates_eq_intensity_3d mid hm hi ax1 ax2 ax3 o hax1 hax2 hax3 m hM

/-- 3-d after k refinements of all axes -/
theorem after_refine_3d (mid : ℚ → ℚ → ℚ) (hm : Between mid) (hi : MidIdem mid) (ax1 ax2 ax3 : List ℚ) (o : ℕ)
    (hax1 : AxisOK ax1 o) (hax2 : AxisOK ax2 o) (hax3 : AxisOK ax3 o)
    (m : ℚ → ℚ → ℚ → ℚ → ℚ → ℚ → ℚ) (hM : IsBoxMass3 m) (k : ℕ) :
    (qTensor mid [refineN mid k ax1, refineN mid k ax2, refineN mid k ax3] (2 ^ k * o) (box3 m)).sum =
      intensityNd mid [refineN mid k ax1, refineN mid k ax2, refineN mid k ax3] (2 ^ k * o) (box3 m) := by
  exact qTensor_sum_eq_intensity_3d mid hm hi _ _ _ _ (refineN_axisOK mid hm k ax1 o hax1)
    (refineN_axisOK mid hm k ax2 o hax2) (refineN_axisOK mid hm k ax3 o hax3) m hM

/-! ### general dimension d -/

/-- **any dimension, after k refinements of every axis**: the list of all per-state rates sums to the intensity -/
theorem after_refine_nd (mid : ℚ → ℚ → ℚ) (hm : Between mid) (hi : MidIdem mid) (axes : List (List ℚ)) (o : ℕ)
    (hax : ∀ ax ∈ axes, AxisOK ax o) (m : Box → ℚ) (hM : IsBoxMassN m) (k : ℕ) :
    (qTensor mid (axes.map (refineN mid k)) (2 ^ k * o) m).sum = intensityNd mid (axes.map (refineN mid k)) (2 ^ k * o) m := by
  apply sum_rates_eq_intensity_nd mid hm hi _ _ _ m hM
  intro ax' h'
  obtain ⟨ax, hmem, rfl⟩ := List.mem_map.mp h'
  exact refineN_axisOK mid hm k ax o (hax ax hmem)

/-- the d = 2 statement `qTensor_sum_eq_intensity_2d` is the instance `box2 m` of the general one -/
theorem qTensor_sum_eq_intensity_2d_from_nd (mid : ℚ → ℚ → ℚ) (hm : Between mid) (hi : MidIdem mid) (ax1 ax2 : List ℚ) (o : ℕ)
    (hax1 : AxisOK ax1 o) (hax2 : AxisOK ax2 o) (m : ℚ → ℚ → ℚ → ℚ → ℚ) (hM : IsBoxMass2 m) :
    (qTensor mid [ax1, ax2] o (box2 m)).sum = intensityNd mid [ax1, ax2] o (box2 m) :=
  sum_rates_eq_intensity_nd mid hm hi [ax1, ax2] o
    (by intro ax h; simp only [List.mem_cons, List.not_mem_nil, or_false] at h; rcases h with rfl | rfl <;> assumption)
    (box2 m) (isBoxMassN_box2 m hM)

/-- concrete run in d = 4 (axes of lengths 3, 5, 3, 4 under the Lebesgue product measure): 179 non-origin cells, 80 blocks -/
example : (qTensor amid [[-1, 0, 1], [-1, 0, 1, 2, 4], [-1, 0, 2], [-1, 0, 1, 5]] 1 lebesgueBox).sum =
    intensityNd amid [[-1, 0, 1], [-1, 0, 1, 2, 4], [-1, 0, 2], [-1, 0, 1, 5]] 1 lebesgueBox ∧
    (blocks amid [[-1, 0, 1], [-1, 0, 1, 2, 4], [-1, 0, 2], [-1, 0, 1, 5]] 1).length = 80 := by
  refine ⟨sum_rates_eq_intensity_nd amid amid_between amid_idem _ 1 ?_ _ lebesgueBox_isBoxMassN, by rw [blocks_length]; rfl⟩
  intro ax h
  simp only [List.mem_cons, List.not_mem_nil, or_false] at h
  rcases h with rfl | rfl | rfl | rfl <;>
    exact ⟨by simp [StrictInc] <;> norm_num, by norm_num, by simp, by simp [pt]⟩

/-! ### non-vacuity: instances of every hypothesis, and what fails without them -/

theorem lebesgue_isMass : IsMass (fun a b => b - a) :=
  ⟨fun a b c _ _ _ => by ring, fun a b h _ => by linarith⟩

theorem lebesgue_isBoxMass2 : IsBoxMass2 (fun a c y z => (c - a) * (z - y)) :=
  ⟨fun a b c y z _ _ _ _ _ => by ring, fun a c x y z _ _ _ _ _ => by ring,
   fun a c y z h1 h2 _ => mul_nonneg (by linarith) (by linarith)⟩

theorem lebesgue_isBoxMass3 : IsBoxMass3 (fun a c y z u v => (c - a) * (z - y) * (v - u)) :=
  ⟨fun a b c y z u v _ _ _ _ _ _ => by ring, fun a c x y z u v _ _ _ _ _ _ => by ring,
   fun a c y z t u v _ _ _ _ _ _ => by ring,
   fun a c y z u v h1 h2 h3 _ => mul_nonneg (mul_nonneg (by linarith) (by linarith)) (by linarith)⟩

/-- the synthetic measure of the exact stream (any knots, heights ≥ 0) satisfies the hypotheses, on every interval -/
theorem stepMass_isMass (knots heights : List ℚ) (hh : ∀ h ∈ heights, 0 ≤ h) : IsMass (stepMass knots heights) := by
  constructor
  · intro a b c hab hbc _
    induction heights generalizing knots with
    | nil => cases knots with
      | nil => simp [stepMass]
      | cons k0 t => cases t <;> simp [stepMass]
    | cons h hs ih =>
      cases knots with
      | nil => simp [stepMass]
      | cons k0 t =>
        cases t with
        | nil => simp [stepMass]
        | cons k1 ks =>
          rw [stepMass_cons, stepMass_cons, stepMass_cons, piece_add k0 k1 h a b c hab hbc,
            ih (k1 :: ks) (fun x hx => hh x (List.mem_cons_of_mem _ hx))]
          ring
  · intro a b hab _
    induction heights generalizing knots with
    | nil => cases knots with
      | nil => simp [stepMass]
      | cons k0 t => cases t <;> simp [stepMass]
    | cons h hs ih =>
      cases knots with
      | nil => simp [stepMass]
      | cons k0 t =>
        cases t with
        | nil => simp [stepMass]
        | cons k1 ks =>
          rw [stepMass_cons]
          exact add_nonneg (piece_nonneg k0 k1 h a b (hh h (List.mem_cons_self)))
            (ih (k1 :: ks) (fun x hx => hh x (List.mem_cons_of_mem _ hx)))
example : IsMass (stepMass [-8, -1/2, 1/2, 8] [1, 0, 2]) :=
  stepMass_isMass _ _ (by intro h hh; simp at hh; rcases hh with rfl | rfl | rfl <;> norm_num)

/-- a 7-point non-uniform axis with the origin at index 3 -/
theorem example_axisOK : AxisOK [-4, -2, -1, 0, 1, 3, 7] 3 :=
  ⟨by simp [StrictInc]; norm_num, by norm_num, by simp, by simp [pt]⟩

/-- a measure with infinite activity fits the hypotheses: `m a b = 1/a - 1/b` on the positive side (density 1/x²),
    mirrored on the negative side, anything (here 0) on intervals that are not strictly one-sided -/
def invSq (a b : ℚ) : ℚ := if 0 < a ∨ b < 0 then 1 / a - 1 / b else 0

theorem invSq_isMass : IsMass invSq := by
  constructor
  · intro a b c hab hbc haw
    unfold invSq
    have h1 : 0 < a ∨ c < 0 := by rcases haw with h | h; exact Or.inr h; exact Or.inl h
    have h2 : 0 < a ∨ b < 0 := by rcases haw with h | h; exact Or.inr (by linarith); exact Or.inl h
    have h3 : 0 < b ∨ c < 0 := by rcases haw with h | h; exact Or.inr h; exact Or.inl (by linarith)
    rw [if_pos h1, if_pos h2, if_pos h3]; ring
  · intro a b hab haw
    unfold invSq
    have h1 : 0 < a ∨ b < 0 := by rcases haw with h | h; exact Or.inr h; exact Or.inl h
    rw [if_pos h1]
    have hab0 : 0 < a * b := by
      rcases haw with h | h
      · exact mul_pos_of_neg_of_neg (by linarith) h
      · exact mul_pos h (by linarith)
    have ha : a ≠ 0 := by intro h; rw [h] at hab0; simp at hab0
    have hb : b ≠ 0 := by intro h; rw [h] at hab0; simp at hab0
    have : 1 / a - 1 / b = (b - a) / (a * b) := by field_simp
    rw [this]; exact div_nonneg (by linarith) (le_of_lt hab0)

/-- concrete run of the model: q-vector and intensity on the 7-point axis under Lebesgue measure -/
example : qVector amid [-4, -2, -1, 0, 1, 3, 7] 3 (fun a b => b - a) = [1, 3/2, 1, 0, 3/2, 3, 2] ∧
    intensity1d amid [-4, -2, -1, 0, 1, 3, 7] 3 (fun a b => b - a) = 10 := by
  constructor
  · simp [qVector, rate, cellLo, cellHi, cellHiN, leftPoint, rightPointN, pt, amid, List.range, List.range.loop]
    norm_num
  · simp [intensity1d, parts, hLeft, hRight, leftPoint, rightPointN, pt, amid]
    norm_num

/-- concrete run on a 3×3 grid: eight unit cells around the origin's cell -/
example : intensityNd amid [[-1, 0, 1], [-1, 0, 1]] 1 (box2 (fun a c y z => (c - a) * (z - y))) = 3 := by
  simp [intensityNd, blocks, cartesian, parts, len0, box2, hLeft, hRight, leftPoint, rightPointN, pt, amid]
  norm_num

/-- negation witness for the n-d clamp as it was *before* /repo 56f1018 (`cellHiOld`: every axis clamped with
    `len(axes[0])`): with axes of unequal length the state with coordinate 3 of the longer axis lay *outside* its own
    cell; with the per-axis clamp of the code as it is now (`cellHi`) it lies inside, as `state_in_cell` says.
    Probe `c01.nd.unequal_axes` checks the implementation on such grids. -/
theorem unequal_axes_break_cells :
    cellHiOld amid [[-1, 0, 1], [-1, 0, 1, 2, 3]] [-1, 0, 1, 2, 3] 3 < pt [-1, 0, 1, 2, 3] 3 ∧
    pt [-1, 0, 1, 2, 3] 3 < cellHi amid [-1, 0, 1, 2, 3] 3 := by
  constructor
  · simp [cellHiOld, cellHiN, rightPointN, pt, amid]; norm_num
  · simp [cellHi, cellHiN, rightPointN, pt, amid]; norm_num

/-- concrete run on a grid with axes of unequal length (3 × 5 points): the 14 non-origin cells of the unit-density
    measure add up to the 8 blocks -/
example : (qTensor amid [[-1, 0, 1], [-1, 0, 1, 2, 4]] 1 (box2 (fun a c y z => (c - a) * (z - y)))).sum =
    intensityNd amid [[-1, 0, 1], [-1, 0, 1, 2, 4]] 1 (box2 (fun a c y z => (c - a) * (z - y))) :=
  qTensor_sum_eq_intensity_2d amid amid_between amid_idem _ _ 1
    ⟨by simp [StrictInc] <;> norm_num, by norm_num, by simp, by simp [pt]⟩
    ⟨by simp [StrictInc] <;> norm_num, by norm_num, by simp, by simp [pt]⟩ _ lebesgue_isBoxMass2

/-- negation witness for `MidIdem`: a cell-boundary function strictly inside every gap but with `mid a a ≠ a`
    moves the first cell's lower end off the truncation bound -/
theorem midIdem_needed : ∃ mid : ℚ → ℚ → ℚ, Between mid ∧ cellLo mid [-1, 0, 1] 0 ≠ pt [-1, 0, 1] 0 := by
  refine ⟨fun a b => if a < b then (a + b) / 2 else a - 1, ?_, ?_⟩
  · intro a b h; simp only [if_pos h]; constructor <;> linarith
  · simp [cellLo, leftPoint, pt]

end Rpylib.Cells
